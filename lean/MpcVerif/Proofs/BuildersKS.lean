/-
Kogge-Stone adder / subtractor (C07): wire-level specifications of the
recursive generators of Model/Builders.lean and the all-width theorems.
-/
import MpcVerif.Proofs.BuildersSpec
import MpcVerif.Proofs.BuildersKSBits

namespace Mpc.Bld
open Mpc

/-! ### more bus helpers -/

theorem BndP.nil (s : St) : BndP s [] := fun _ h => nomatch h
theorem BndP.cons {s : St} {p : Nat × Nat} {l : List (Nat × Nat)} (h1 : p.1 < s.next) (h2 : p.2 < s.next)
    (h : BndP s l) : BndP s (p :: l) := by
  intro q hq
  rcases List.mem_cons.mp hq with rfl | hq
  · exact ⟨h1, h2⟩
  · exact h q hq
theorem BndP.take {s : St} {l : List (Nat × Nat)} (h : BndP s l) (n : Nat) : BndP s (l.take n) :=
  fun p hp => h p (List.mem_of_mem_take hp)
theorem BndP.drop {s : St} {l : List (Nat × Nat)} (h : BndP s l) (n : Nat) : BndP s (l.drop n) :=
  fun p hp => h p (List.mem_of_mem_drop hp)
theorem BndP.append {s : St} {a b : List (Nat × Nat)} (ha : BndP s a) (hb : BndP s b) : BndP s (a ++ b) := by
  intro p hp
  rcases List.mem_append.mp hp with h | h
  · exact ha p h
  · exact hb p h
theorem BndP.fst {s : St} {l : List (Nat × Nat)} (h : BndP s l) : Bnd s (l.map Prod.fst) := by
  intro w hw
  obtain ⟨p, hp, rfl⟩ := List.mem_map.mp hw
  exact (h p hp).1
theorem BndP.snd {s : St} {l : List (Nat × Nat)} (h : BndP s l) : Bnd s (l.map Prod.snd) := by
  intro w hw
  obtain ⟨p, hp, rfl⟩ := List.mem_map.mp hw
  exact (h p hp).2

theorem busVal_map_fst (s : St) (inp : List Bool) (l : List (Nat × Nat)) :
    busVal s inp (l.map Prod.fst) = (pairVals s inp l).map Prod.fst := by
  simp [busVal, pairVals, List.map_map, Function.comp_def]
theorem busVal_map_snd (s : St) (inp : List Bool) (l : List (Nat × Nat)) :
    busVal s inp (l.map Prod.snd) = (pairVals s inp l).map Prod.snd := by
  simp [busVal, pairVals, List.map_map, Function.comp_def]

theorem pairVals_take (s : St) (inp : List Bool) (l : List (Nat × Nat)) (n : Nat) :
    pairVals s inp (l.take n) = (pairVals s inp l).take n := by simp [pairVals, List.map_take]
theorem pairVals_drop (s : St) (inp : List Bool) (l : List (Nat × Nat)) (n : Nat) :
    pairVals s inp (l.drop n) = (pairVals s inp l).drop n := by simp [pairVals, List.map_drop]
theorem pairVals_append (s : St) (inp : List Bool) (a b : List (Nat × Nat)) :
    pairVals s inp (a ++ b) = pairVals s inp a ++ pairVals s inp b := by simp [pairVals]

/-- `Compiler.Pad`. -/
theorem pad_spec {s : St} {inp : List Bool} (hwf : WF s inp) {x : List Nat} (n : Nat) (hx : Bnd s x) :
    Spec inp s (pad x n) (fun r s' => Bnd s' r ∧ busVal s' inp r = padTo (busVal s inp x) n) := by
  unfold pad
  split
  · next h =>
    refine Spec.pure hwf ⟨hx, ?_⟩
    have : n - x.length = 0 := by omega
    simp [padTo, this]
  · refine Spec.bind (zeroWire_spec hwf) ?_
    intro z s1 e1 hz
    refine Spec.pure e1.wf ⟨(hx.mono e1).append (Bnd.replicate hz.1 _), ?_⟩
    rw [busVal_append, busVal_replicate, hz.2, busVal_ext e1 hx]; simp [padTo]

/-! ### quads (inputs of the black cells) -/

abbrev Quad := (Nat × Nat) × (Nat × Nat)

def BndQ (s : St) (l : List Quad) : Prop :=
  ∀ q ∈ l, q.1.1 < s.next ∧ q.1.2 < s.next ∧ q.2.1 < s.next ∧ q.2.2 < s.next

def quadVals (s : St) (inp : List Bool) (l : List Quad) : List ((Bool × Bool) × (Bool × Bool)) :=
  l.map fun q => ((s.val inp q.1.1, s.val inp q.1.2), (s.val inp q.2.1, s.val inp q.2.2))

theorem BndQ.mono {s s' : St} {inp : List Bool} {l : List Quad} (e : Ext s s' inp) (h : BndQ s l) : BndQ s' l := by
  intro q hq
  obtain ⟨h1, h2, h3, h4⟩ := h q hq
  have := e.next
  exact ⟨by omega, by omega, by omega, by omega⟩

theorem quadVals_ext {s s' : St} {inp : List Bool} {l : List Quad} (e : Ext s s' inp) (h : BndQ s l) :
    quadVals s' inp l = quadVals s inp l := by
  apply List.map_congr_left
  intro q hq
  obtain ⟨h1, h2, h3, h4⟩ := h q hq
  rw [e.val _ h1, e.val _ h2, e.val _ h3, e.val _ h4]

theorem BndQ.zip {s : St} {a b : List (Nat × Nat)} (ha : BndP s a) (hb : BndP s b) : BndQ s (a.zip b) := by
  intro q hq
  obtain ⟨p1, p2⟩ := q
  have h1 := ha p1 (List.of_mem_zip hq).1
  have h2 := hb p2 (List.of_mem_zip hq).2
  exact ⟨h1.1, h1.2, h2.1, h2.2⟩

theorem quadVals_zip (s : St) (inp : List Bool) (a b : List (Nat × Nat)) :
    quadVals s inp (a.zip b) = (pairVals s inp a).zip (pairVals s inp b) := by
  simp only [quadVals, pairVals, List.zip_map]
  rfl

/-! ### the network -/

theorem ksPre_spec {inp : List Bool} (l : List (Nat × Nat)) :
    ∀ {s : St} (_ : WF s inp), BndP s l →
    Spec inp s (ksPre l) (fun pg s' => BndP s' pg ∧
      pairVals s' inp pg = (pairVals s inp l).map fun p => (p.1 != p.2, p.1 && p.2)) := by
  induction l with
  | nil => intro s hwf _; exact Spec.pure hwf ⟨BndP.nil s, rfl⟩
  | cons q rest ih =>
    intro s hwf hl
    obtain ⟨a, b⟩ := q
    simp only [ksPre]
    refine Spec.bind (gateF_spec .xor s a b hwf hl.head.1 hl.head.2) ?_
    intro p s1 e1 hp
    refine Spec.bind (gateF_spec .and s1 a b e1.wf (by have := e1.next; have := hl.head.1; omega)
      (by have := e1.next; have := hl.head.2; omega)) ?_
    intro g s2 e2 hg
    have e12 := e1.trans e2
    refine Spec.bind (ih e2.wf (hl.tail.mono e12)) ?_
    intro t s3 e3 ⟨ht, htv⟩
    refine Spec.pure e3.wf ⟨BndP.cons ((hp.mono e2).mono e3).1 (hg.mono e3).1 ht, ?_⟩
    simp only [pairVals_cons, List.map_cons, ((hp.mono e2).mono e3).2, (hg.mono e3).2, htv,
      pairVals_ext e12 hl.tail, eval_xor, eval_and, e1.val a hl.head.1, e1.val b hl.head.2]

theorem ksCellsA_spec {inp : List Bool} (l : List Quad) :
    ∀ {s : St} (_ : WF s inp), BndQ s l →
    Spec inp s (ksCellsA l) (fun r s' => BndP s' r ∧ pairVals s' inp r = (quadVals s inp l).map cellV) := by
  induction l with
  | nil => intro s hwf _; exact Spec.pure hwf ⟨BndP.nil s, rfl⟩
  | cons q rest ih =>
    intro s hwf hl
    obtain ⟨⟨pi, gi⟩, ⟨pj, gj⟩⟩ := q
    obtain ⟨h1, h2, h3, h4⟩ := hl _ (List.mem_cons_self)
    have hrest : BndQ s rest := fun q hq => hl q (List.mem_cons_of_mem _ hq)
    simp only [ksCellsA]
    refine Spec.bind (gateF_spec .and s pi gj hwf h1 h4) ?_
    intro andG s1 e1 ha
    refine Spec.bind (gate_spec .and e1.wf (Holds.mono e1 ⟨h1, rfl⟩) (Holds.mono e1 ⟨h3, rfl⟩)) ?_
    intro np s2 e2 hnp
    refine Spec.bind (gate_spec .xor e2.wf ((Holds.mono e1 ⟨h2, rfl⟩).mono e2) (ha.mono e2)) ?_
    intro ng s3 e3 hng
    have e13 := (e1.trans e2).trans e3
    refine Spec.bind (ih e3.wf (hrest.mono e13)) ?_
    intro t s4 e4 ⟨ht, htv⟩
    refine Spec.pure e4.wf ⟨BndP.cons ((hnp.mono e3).mono e4).1 (hng.mono e4).1 ht, ?_⟩
    simp only [pairVals_cons, ((hnp.mono e3).mono e4).2, (hng.mono e4).2, htv, quadVals_ext e13 hrest]
    simp [quadVals, cellV]

theorem ksCellsS_spec {inp : List Bool} (l : List Quad) :
    ∀ {s : St} (_ : WF s inp), BndQ s l →
    Spec inp s (ksCellsS l) (fun r s' => BndP s' r ∧ pairVals s' inp r = (quadVals s inp l).map cellV) := by
  induction l with
  | nil => intro s hwf _; exact Spec.pure hwf ⟨BndP.nil s, rfl⟩
  | cons q rest ih =>
    intro s hwf hl
    obtain ⟨⟨pi, gi⟩, ⟨pj, gj⟩⟩ := q
    obtain ⟨h1, h2, h3, h4⟩ := hl _ (List.mem_cons_self)
    have hrest : BndQ s rest := fun q hq => hl q (List.mem_cons_of_mem _ hq)
    simp only [ksCellsS]
    refine Spec.bind (gateF_spec .and s pi gj hwf h1 h4) ?_
    intro pg s1 e1 ha
    refine Spec.bind (gate_spec .xor e1.wf (Holds.mono e1 ⟨h2, rfl⟩) ha) ?_
    intro ng s2 e2 hng
    refine Spec.bind (gate_spec .and e2.wf ((Holds.mono e1 ⟨h1, rfl⟩).mono e2) ((Holds.mono e1 ⟨h3, rfl⟩).mono e2)) ?_
    intro np s3 e3 hnp
    have e13 := (e1.trans e2).trans e3
    refine Spec.bind (ih e3.wf (hrest.mono e13)) ?_
    intro t s4 e4 ⟨ht, htv⟩
    refine Spec.pure e4.wf ⟨BndP.cons (hnp.mono e4).1 ((hng.mono e3).mono e4).1 ht, ?_⟩
    simp only [pairVals_cons, (hnp.mono e4).2, ((hng.mono e3).mono e4).2, htv, quadVals_ext e13 hrest]
    simp [quadVals, cellV]

/-- A cell generator that implements `cellV`. -/
def CellsOK (inp : List Bool) (cells : List Quad → BM (List (Nat × Nat))) : Prop :=
  ∀ (l : List Quad) {s : St}, WF s inp → BndQ s l →
    Spec inp s (cells l) (fun r s' => BndP s' r ∧ pairVals s' inp r = (quadVals s inp l).map cellV)

theorem ksStage_spec {inp : List Bool} {cells : List Quad → BM (List (Nat × Nat))} (hc : CellsOK inp cells)
    (shift : Nat) {pg : List (Nat × Nat)} {s : St} (hwf : WF s inp) (hpg : BndP s pg) :
    Spec inp s (ksStage cells shift pg) (fun r s' => BndP s' r ∧
      pairVals s' inp r = stageV shift (pairVals s inp pg)) := by
  unfold ksStage
  refine (hc _ hwf (BndQ.zip (hpg.drop shift) hpg)).map ?_
  intro hi s1 e1 ⟨hhi, hhv⟩
  refine ⟨((hpg.take shift).mono e1).append hhi, ?_⟩
  rw [pairVals_append, hhv, pairVals_ext e1 (hpg.take shift), pairVals_take, quadVals_zip, pairVals_drop]
  rfl

theorem ksStages_spec {inp : List Bool} {cells : List Quad → BM (List (Nat × Nat))} (hc : CellsOK inp cells) :
    ∀ (k shift : Nat) {pg : List (Nat × Nat)} {s : St} (_ : WF s inp), BndP s pg →
    Spec inp s (ksStages cells k shift pg) (fun r s' => BndP s' r ∧
      pairVals s' inp r = stagesV k shift (pairVals s inp pg))
  | 0, shift, pg, s, hwf, hpg => by
    simp only [ksStages]; exact Spec.pure hwf ⟨hpg, rfl⟩
  | k + 1, shift, pg, s, hwf, hpg => by
    simp only [ksStages]
    refine Spec.bind (ksStage_spec hc shift hwf hpg) ?_
    intro pg' s1 e1 ⟨hb, hv⟩
    refine (ksStages_spec hc k (2 * shift) e1.wf hb).mono ?_
    intro r s2 _ ⟨hrb, hrv⟩
    exact ⟨hrb, by rw [hrv, hv]; rfl⟩

theorem ksPostA_spec {inp : List Bool} : ∀ (r : List (Nat × Nat)) (cs : List Nat) {s : St} (_ : WF s inp),
    BndP s r → Bnd s cs →
    Spec inp s (ksPostA r cs) (fun z s' => Bnd s' z ∧
      busVal s' inp z = List.zipWith sumBit (pairVals s inp r) (busVal s inp cs))
  | [], _, s, hwf, _, _ => by
    simp only [ksPostA]; exact Spec.pure hwf ⟨Bnd.nil s, by simp⟩
  | _ :: _, [], s, hwf, _, _ => by
    simp only [ksPostA]; exact Spec.pure hwf ⟨Bnd.nil s, by simp⟩
  | (a, b) :: r, c :: cs, s, hwf, hr, hcs => by
    simp only [ksPostA]
    refine Spec.bind (gateF_spec .xor s a b hwf hr.head.1 hr.head.2) ?_
    intro xr s1 e1 hxr
    refine Spec.bind (gate_spec .xor e1.wf hxr (Holds.mono e1 ⟨hcs.head, rfl⟩)) ?_
    intro w s2 e2 hw
    have e12 := e1.trans e2
    refine Spec.bind (ksPostA_spec r cs e2.wf (hr.tail.mono e12) (hcs.tail.mono e12)) ?_
    intro t s3 e3 ⟨ht, htv⟩
    refine Spec.pure e3.wf ⟨Bnd.cons (hw.mono e3).1 ht, ?_⟩
    simp only [busVal_cons, (hw.mono e3).2, htv, pairVals_ext e12 hr.tail, busVal_ext e12 hcs.tail,
      pairVals_cons, List.zipWith_cons_cons, sumBit, eval_xor]

/-! ### initial invariant -/

theorem take_succ_drop {α : Type} (L : List α) (i : Nat) (h : i < L.length) :
    (L.take (i + 1)).drop i = [L[i]] := by
  rw [List.take_add_one, List.drop_append_of_le_length (by simp; omega)]
  have : (L.take i).length = i := by simp; omega
  rw [List.drop_of_length_le (by omega)]
  simp [List.getElem?_eq_getElem h]

/-- Initial `(p, g)` values: position 0 absorbs the carry-in `c0`. -/
def initV : List (Bool × Bool) → Bool → List (Bool × Bool)
  | [], _ => []
  | (a, b) :: r, c0 => (a != b, carry a b c0) :: r.map fun p => (p.1 != p.2, p.1 && p.2)

theorem initV_false (L : List (Bool × Bool)) : initV L false = L.map fun p => (p.1 != p.2, p.1 && p.2) := by
  cases L with
  | nil => rfl
  | cons p r => obtain ⟨a, b⟩ := p; simp [initV, carry]

theorem KSInv_init (L : List (Bool × Bool)) (c0 : Bool) : KSInv L c0 1 (initV L c0) := by
  refine ⟨by cases L with
    | nil => rfl
    | cons p r => obtain ⟨a, b⟩ := p; simp [initV], ?_⟩
  intro i hi
  simp only [ksVal, seg]
  have e : i + 1 - 1 = i := by omega
  rw [e, take_succ_drop L i hi]
  cases L with
  | nil => simp at hi
  | cons p r =>
    obtain ⟨a, b⟩ := p
    cases i with
    | zero => simp [initV, segP, carryOf]
    | succ i =>
      have hi' : i < r.length := by simpa using hi
      simp only [initV, List.getD_cons_succ, List.getElem_cons_succ]
      rw [List.getD_eq_getElem?_getD, List.getElem?_map, List.getElem?_eq_getElem hi']
      simp [segP, carryOf, carry]

theorem getD_map_snd (l : List (Bool × Bool)) (i : Nat) (hi : i < l.length) :
    (l.map Prod.snd).getD i false = (l.getD i (false, false)).2 := by
  simp [List.getD_eq_getElem?_getD, List.getElem?_eq_getElem hi]

theorem le_two_pow_ceilLog2 (n : Nat) : n ≤ 2 ^ ceilLog2 n := by
  unfold ceilLog2
  split
  · simp; omega
  · have := @Nat.lt_log2_self (n - 1)
    omega

/-- Operand bits as seen by the prefix network: padded to `n1`, truncated to `n`. -/
def ksOperands (xv yv : List Bool) (n1 n : Nat) : List (Bool × Bool) :=
  ((padTo xv n1).take n).zip ((padTo yv n1).take n)

/-- `NewKoggeStoneAdder` with `stages` prefix stages is exact for every operand
and result width PROVIDED `2^stages` reaches the network width
`ksWidth = min(max(|x|,|y|)+1, nz)`; `ceil(log2 ksWidth)` stages do. -/
theorem ksAdderWith_spec {s : St} {inp : List Bool} (hwf : WF s inp) {x y : List Nat} (nz stages : Nat)
    (hx : Bnd s x) (hy : Bnd s y) (hne : 0 < max x.length y.length) (hnz : 0 < nz)
    (hst : ksWidth x.length y.length nz ≤ 2 ^ stages) :
    Spec inp s (ksAdderWith stages x y nz) (fun z s' => Bnd s' z ∧ z.length = nz ∧
      toNat (busVal s' inp z) = (toNat (busVal s inp x) + toNat (busVal s inp y)) % 2 ^ nz) := by
  unfold ksAdderWith
  simp only
  generalize hn1 : (if nz > max x.length y.length then max x.length y.length + 1 else max x.length y.length) = n1
  have hn1ge : max x.length y.length ≤ n1 := by rw [← hn1]; split <;> omega
  refine Spec.bind (pad_spec hwf n1 hx) ?_
  intro x' s1 e1 ⟨hx'b, hx'v⟩
  refine Spec.bind (pad_spec e1.wf n1 (hy.mono e1)) ?_
  intro y' s2 e2 ⟨hy'b, hy'v⟩
  rw [busVal_ext e1 hy] at hy'v
  have hlx' : x'.length = n1 := by
    have := congrArg List.length hx'v; simp at this; omega
  have hly' : y'.length = n1 := by
    have := congrArg List.length hy'v; simp at this; omega
  rw [hlx']
  generalize hn : (if n1 > nz then nz else n1) = n
  have hnw : n = ksWidth x.length y.length nz := by
    rw [← hn, ← hn1, ksWidth]; split <;> split <;> omega
  have hnle : n ≤ n1 := by rw [← hn]; split <;> omega
  have hnpos : 0 < n := by rw [hnw, ksWidth]; split <;> omega
  have hnz' : n ≤ nz := by rw [hnw, ksWidth]; split <;> omega
  have e12 := e1.trans e2
  have hxyb : BndP s2 ((x'.take n).zip (y'.take n)) := BndP.zip ((hx'b.mono e2).take n) (hy'b.take n)
  -- values of the operand pairs
  have hL : pairVals s2 inp ((x'.take n).zip (y'.take n)) =
      ksOperands (busVal s inp x) (busVal s inp y) n1 n := by
    rw [pairVals_zip, busVal_take, busVal_take, busVal_ext e2 hx'b, hx'v, hy'v]; rfl
  generalize hLdef : ksOperands (busVal s inp x) (busVal s inp y) n1 n = L at hL
  have hLlen : L.length = n := by
    rw [← hLdef]; simp [ksOperands]; omega
  refine Spec.bind (ksPre_spec _ e2.wf hxyb) ?_
  intro pg s3 e3 ⟨hpgb, hpgv⟩
  rw [hL, ← initV_false] at hpgv
  refine Spec.bind (ksStages_spec ksCellsA_spec stages 1 e3.wf hpgb) ?_
  intro pgN s4 e4 ⟨hpgNb, hpgNv⟩
  rw [hpgv] at hpgNv
  have hinv : KSInv L false (1 * 2 ^ stages) (pairVals s4 inp pgN) := by
    rw [hpgNv]; exact KSInv_stages L false stages 1 _ (Nat.le_refl 1) (KSInv_init L false)
  rw [Nat.one_mul] at hinv
  have e24 := e3.trans e4
  cases hxy : (x'.take n).zip (y'.take n) with
  | nil =>
    exfalso
    have := congrArg List.length hxy
    simp [hlx', hly'] at this
    omega
  | cons ab rest =>
    obtain ⟨a, b⟩ := ab
    simp only
    rw [hxy] at hxyb hL
    have hab := hxyb.head
    refine Spec.bind (gate_spec .xor e4.wf (Holds.mono e24 ⟨hab.1, rfl⟩) (Holds.mono e24 ⟨hab.2, rfl⟩)) ?_
    intro z0 s5 e5 hz0
    refine Spec.bind (ksPostA_spec rest (pgN.map Prod.snd) e5.wf ((hxyb.tail.mono e24).mono e5)
      (hpgNb.snd.mono e5)) ?_
    intro zs s6 e6 ⟨hzsb, hzsv⟩
    refine Spec.bind (zeros_spec e6.wf _) ?_
    intro zr s7 e7 ⟨hzrb, hzrv⟩
    -- the generate signals are the carries
    have hgs : ∀ i, i < L.length → ((pairVals s4 inp pgN).map Prod.snd).getD i false =
        carryOf (L.take (i + 1)) false := by
      intro i hi
      rw [getD_map_snd _ i (by rw [hinv.1]; exact hi)]
      exact KSInv_full L false _ _ hinv (by rw [hLlen, hnw]; exact hst) i hi
    have hsum := sumBits_of_gens L false _ (by simp [hinv.1]) hgs
    -- values of all sum wires
    have hvals : busVal s7 inp (z0 :: zs) = (addBits L false).take L.length := by
      rw [← hsum, busVal_cons, busVal_ext e7 (hzsb), (Holds.mono (e6.trans e7) hz0).2, hzsv,
        pairVals_ext (e24.trans e5) hxyb.tail, busVal_ext e5 hpgNb.snd, busVal_map_snd, ← hL]
      simp [pairVals_cons, sumBit, eval_xor]
    have hzl : (z0 :: zs).length = n := by
      have := congrArg List.length hvals
      simp only [busVal_length, List.length_take, addBits_length, hLlen] at this
      omega
    have hzrl : zr.length = nz - n := by
      have := congrArg List.length hzrv; simpa using this
    refine Spec.pure e7.wf ⟨?_, ?_, ?_⟩
    · exact Bnd.append (Bnd.cons (Holds.mono (e6.trans e7) hz0).1 (hzsb.mono e7)) hzrb
    · rw [List.cons_append] at *
      simp only [List.length_cons, List.length_append] at hzl ⊢
      omega
    · have happ : z0 :: zs ++ zr = (z0 :: zs) ++ zr := rfl
      rw [happ, busVal_append, hzrv, toNat_append_zeros, hvals, toNat_take, toNat_addBits, hLlen]
      simp only [Bool.toNat_false, Nat.add_zero]
      have hX : toNat (L.map Prod.fst) = toNat (busVal s inp x) % 2 ^ n := by
        rw [← hLdef, ksOperands, List.map_fst_zip (by simp; omega), toNat_take, toNat_padTo]
      have hY : toNat (L.map Prod.snd) = toNat (busVal s inp y) % 2 ^ n := by
        rw [← hLdef, ksOperands, List.map_snd_zip (by simp; omega), toNat_take, toNat_padTo]
      rw [hX, hY, ← Nat.add_mod]
      have hxlt := toNat_lt (busVal s inp x)
      have hylt := toNat_lt (busVal s inp y)
      simp only [busVal_length] at hxlt hylt
      by_cases hc : nz > max x.length y.length
      · have hn' : n = max x.length y.length + 1 := by rw [hnw, ksWidth]; simp [hc]
        have hpx : 2 ^ x.length ≤ 2 ^ max x.length y.length := Nat.pow_le_pow_right (by omega) (by omega)
        have hpy : 2 ^ y.length ≤ 2 ^ max x.length y.length := Nat.pow_le_pow_right (by omega) (by omega)
        have hpz : 2 ^ n ≤ 2 ^ nz := Nat.pow_le_pow_right (by omega) hnz'
        have hps : 2 ^ n = 2 * 2 ^ max x.length y.length := by rw [hn', Nat.pow_succ]; omega
        rw [Nat.mod_eq_of_lt (by omega), Nat.mod_eq_of_lt (by omega)]
      · have hn' : n = nz := by rw [hnw, ksWidth]; simp [hc]
        rw [hn']

/-! ### subtractor -/

/-- Operand pairs of the subtractor network: `(x_i, ¬y_i)`. -/
def invSnd (l : List (Bool × Bool)) : List (Bool × Bool) := l.map fun p => (p.1, !p.2)

theorem ksPreS_spec {inp : List Bool} (l : List (Nat × Nat)) :
    ∀ {s : St} (_ : WF s inp), BndP s l →
    Spec inp s (ksPreS l) (fun pg s' => BndP s' pg ∧
      pairVals s' inp pg = (invSnd (pairVals s inp l)).map fun p => (p.1 != p.2, p.1 && p.2)) := by
  induction l with
  | nil => intro s hwf _; exact Spec.pure hwf ⟨BndP.nil s, rfl⟩
  | cons q rest ih =>
    intro s hwf hl
    obtain ⟨a, b⟩ := q
    simp only [ksPreS]
    refine Spec.bind (inv_spec hwf ⟨hl.head.2, rfl⟩) ?_
    intro bi s1 e1 hbi
    refine Spec.bind (gate_spec .xor e1.wf (Holds.mono e1 ⟨hl.head.1, rfl⟩) hbi) ?_
    intro p s2 e2 hp
    refine Spec.bind (gate_spec .and e2.wf ((Holds.mono e1 ⟨hl.head.1, rfl⟩).mono e2) (hbi.mono e2)) ?_
    intro g s3 e3 hg
    have e13 := (e1.trans e2).trans e3
    refine Spec.bind (ih e3.wf (hl.tail.mono e13)) ?_
    intro t s4 e4 ⟨ht, htv⟩
    refine Spec.pure e4.wf ⟨BndP.cons ((hp.mono e3).mono e4).1 (hg.mono e4).1 ht, ?_⟩
    simp only [pairVals_cons, invSnd, List.map_cons, ((hp.mono e3).mono e4).2, (hg.mono e4).2, htv,
      pairVals_ext e13 hl.tail, eval_xor, eval_and]

theorem ksPostS_spec {inp : List Bool} : ∀ (ps cs : List Nat) {s : St} (_ : WF s inp),
    Bnd s ps → Bnd s cs →
    Spec inp s (ksPostS ps cs) (fun z s' => Bnd s' z ∧
      busVal s' inp z = List.zipWith (fun p c => p != c) (busVal s inp ps) (busVal s inp cs))
  | [], _, s, hwf, _, _ => by
    simp only [ksPostS]; exact Spec.pure hwf ⟨Bnd.nil s, by simp⟩
  | _ :: _, [], s, hwf, _, _ => by
    simp only [ksPostS]; exact Spec.pure hwf ⟨Bnd.nil s, by simp⟩
  | p :: r, c :: cs, s, hwf, hr, hcs => by
    simp only [ksPostS]
    refine Spec.bind (gateF_spec .xor s p c hwf hr.head hcs.head) ?_
    intro w s1 e1 hw
    refine Spec.bind (ksPostS_spec r cs e1.wf (hr.tail.mono e1) (hcs.tail.mono e1)) ?_
    intro t s2 e2 ⟨ht, htv⟩
    refine Spec.pure e2.wf ⟨Bnd.cons (hw.mono e2).1 ht, ?_⟩
    simp only [busVal_cons, (hw.mono e2).2, htv, busVal_ext e1 hr.tail, busVal_ext e1 hcs.tail,
      List.zipWith_cons_cons, eval_xor]

theorem zipWith_sumBit_fst (L : List (Bool × Bool)) (cs : List Bool) :
    List.zipWith (fun p c => p != c) (L.map fun p => (p.1 != p.2)) cs = List.zipWith sumBit L cs := by
  induction L generalizing cs with
  | nil => simp
  | cons p r ih =>
    cases cs with
    | nil => simp
    | cons c cs => simp [ih, sumBit]

theorem invSnd_length (l : List (Bool × Bool)) : (invSnd l).length = l.length := by simp [invSnd]
theorem invSnd_fst (l : List (Bool × Bool)) : (invSnd l).map Prod.fst = l.map Prod.fst := by
  simp [invSnd, List.map_map, Function.comp_def]
theorem invSnd_snd (l : List (Bool × Bool)) : (invSnd l).map Prod.snd = (l.map Prod.snd).map (!·) := by
  simp [invSnd, List.map_map, Function.comp_def]

/-- Sign extension of an `n`-bit two's complement difference: pure arithmetic
used by the subtractor when the result is wider than the network. -/
theorem sub_sign_extend (X Y v low P K R : Nat) (t : Bool)
    (hX : X < P) (hY : Y < P) (hv : v = low + P * t.toNat) (hlow : low < P)
    (hmod : (v + Y) % (2 * P) = X % (2 * P)) (hR : R + t.toNat = K * t.toNat) (hK : 0 < K) :
    (v + 2 * P * R + Y) % (2 * P * K) = X % (2 * P * K) := by
  have hvlt : v < 2 * P := by cases t <;> simp at hv <;> omega
  have hdm := Nat.div_add_mod (v + Y) (2 * P)
  rw [hmod, Nat.mod_eq_of_lt (by omega : X < 2 * P)] at hdm
  have hq : (v + Y) / (2 * P) < 2 := Nat.div_lt_of_lt_mul (by omega)
  generalize (v + Y) / (2 * P) = q at *
  have hq' : q = 0 ∨ q = 1 := by omega
  cases t with
  | false =>
    simp at hv hR
    rcases hq' with rfl | rfl
    · subst hR; simp at hdm ⊢; rw [← hdm]
    · simp at hdm; omega
  | true =>
    simp at hv hR
    rcases hq' with rfl | rfl
    · simp at hdm; omega
    · simp at hdm
      have h1 : v + 2 * P * R + Y = X + 2 * P * K := by
        have : 2 * P * K = 2 * P * R + 2 * P := by rw [← hR, Nat.mul_add]; omega
        omega
      rw [h1, Nat.add_mod_right]

/-- `NewKoggeStoneSubtractor` with `stages` prefix stages is exact for every
operand and result width provided `2^stages` reaches the network width:
`z + y ≡ x (mod 2^nz)`. -/
theorem ksSubtractorWith_spec {s : St} {inp : List Bool} (hwf : WF s inp) {x y : List Nat} (nz stages : Nat)
    (hx : Bnd s x) (hy : Bnd s y) (hne : 0 < max x.length y.length) (hnz : 0 < nz)
    (hst : ksWidth x.length y.length nz ≤ 2 ^ stages) :
    Spec inp s (ksSubtractorWith stages x y nz) (fun z s' => Bnd s' z ∧ z.length = nz ∧
      (toNat (busVal s' inp z) + toNat (busVal s inp y)) % 2 ^ nz = toNat (busVal s inp x) % 2 ^ nz) := by
  unfold ksSubtractorWith
  simp only
  generalize hn1 : (if nz > max x.length y.length then max x.length y.length + 1 else max x.length y.length) = n1
  refine Spec.bind (pad_spec hwf n1 hx) ?_
  intro x' s1 e1 ⟨hx'b, hx'v⟩
  refine Spec.bind (pad_spec e1.wf n1 (hy.mono e1)) ?_
  intro y' s2 e2 ⟨hy'b, hy'v⟩
  rw [busVal_ext e1 hy] at hy'v
  have hn1ge : max x.length y.length ≤ n1 := by rw [← hn1]; split <;> omega
  have hlx' : x'.length = n1 := by
    have := congrArg List.length hx'v; simp at this; omega
  have hly' : y'.length = n1 := by
    have := congrArg List.length hy'v; simp at this; omega
  rw [hlx']
  generalize hn : (if n1 > nz then nz else n1) = n
  have hnw : n = ksWidth x.length y.length nz := by
    rw [← hn, ← hn1, ksWidth]; split <;> split <;> omega
  have hnle : n ≤ n1 := by rw [← hn]; split <;> omega
  have hnpos : 0 < n := by rw [hnw, ksWidth]; split <;> omega
  have hnz' : n ≤ nz := by rw [hnw, ksWidth]; split <;> omega
  have hxyb : BndP s2 ((x'.take n).zip (y'.take n)) := BndP.zip ((hx'b.mono e2).take n) (hy'b.take n)
  have hL0 : pairVals s2 inp ((x'.take n).zip (y'.take n)) =
      ksOperands (busVal s inp x) (busVal s inp y) n1 n := by
    rw [pairVals_zip, busVal_take, busVal_take, busVal_ext e2 hx'b, hx'v, hy'v]; rfl
  generalize hL0def : ksOperands (busVal s inp x) (busVal s inp y) n1 n = L0 at hL0
  have hL0len : L0.length = n := by
    rw [← hL0def]; simp [ksOperands]; omega
  refine Spec.bind (ksPreS_spec _ e2.wf hxyb) ?_
  intro pg s3 e3 ⟨hpgb, hpgv⟩
  rw [hL0] at hpgv
  -- L: the pairs the network adds
  generalize hLdef : invSnd L0 = L at hpgv
  have hLlen : L.length = n := by rw [← hLdef, invSnd_length, hL0len]
  cases hpg : pg with
  | nil =>
    exfalso
    have := congrArg List.length hpgv
    rw [hpg] at this
    simp [hLlen] at this
    omega
  | cons pg0 rest =>
    obtain ⟨p0, g0⟩ := pg0
    simp only
    rw [hpg] at hpgb hpgv
    obtain ⟨l0, Lr, rfl⟩ : ∃ l0 Lr, L = l0 :: Lr := by
      cases L with
      | nil => simp at hLlen; omega
      | cons l0 Lr => exact ⟨l0, Lr, rfl⟩
    obtain ⟨a0, b0⟩ := l0
    simp only [pairVals_cons, List.map_cons, List.cons.injEq, Prod.mk.injEq] at hpgv
    obtain ⟨⟨hp0v, hg0v⟩, hrestv⟩ := hpgv
    refine Spec.bind (gate_spec .xor e3.wf ⟨hpgb.head.2, hg0v⟩ ⟨hpgb.head.1, hp0v⟩) ?_
    intro w s4 e4 hw
    have hpg1b : BndP s4 ((p0, w) :: rest) := BndP.cons (by have := e4.next; have := hpgb.head.1; omega) hw.1
      (hpgb.tail.mono e4)
    have hpg1v : pairVals s4 inp ((p0, w) :: rest) = initV ((a0, b0) :: Lr) true := by
      simp only [pairVals_cons, initV, hw.2, e4.val p0 hpgb.head.1, hp0v, pairVals_ext e4 hpgb.tail, hrestv,
        eval_xor, List.cons.injEq, Prod.mk.injEq, true_and, and_true]
      cases a0 <;> cases b0 <;> rfl
    refine Spec.bind (ksStages_spec ksCellsS_spec stages 1 e4.wf hpg1b) ?_
    intro pgN s5 e5 ⟨hpgNb, hpgNv⟩
    rw [hpg1v] at hpgNv
    have hinv : KSInv ((a0, b0) :: Lr) true (1 * 2 ^ stages) (pairVals s5 inp pgN) := by
      rw [hpgNv]; exact KSInv_stages _ true stages 1 _ (Nat.le_refl 1) (KSInv_init _ true)
    rw [Nat.one_mul] at hinv
    have e35 := e4.trans e5
    refine Spec.bind (inv_spec e5.wf (Holds.mono e35 ⟨hpgb.head.1, hp0v⟩)) ?_
    intro z0 s6 e6 hz0
    refine Spec.bind (ksPostS_spec (rest.map Prod.fst) (pgN.map Prod.snd) e6.wf
      (((hpgb.tail.fst).mono e35).mono e6) (hpgNb.snd.mono e6)) ?_
    intro zs s7 e7 ⟨hzsb, hzsv⟩
    have hgs : ∀ i, i < ((a0, b0) :: Lr).length → ((pairVals s5 inp pgN).map Prod.snd).getD i false =
        carryOf (((a0, b0) :: Lr).take (i + 1)) true := by
      intro i hi
      rw [getD_map_snd _ i (by rw [hinv.1]; exact hi)]
      exact KSInv_full _ true _ _ hinv (by rw [hLlen, hnw]; exact hst) i hi
    have hsum := sumBits_of_gens ((a0, b0) :: Lr) true _ (by simp [hinv.1]) hgs
    have hz0b : Holds s7 inp z0 (!(a0 != b0)) := hz0.mono e7
    have hvals : busVal s7 inp (z0 :: zs) = (addBits ((a0, b0) :: Lr) true).take ((a0, b0) :: Lr).length := by
      rw [← hsum, busVal_cons, hz0b.2, hzsv, busVal_ext e6 hpgNb.snd, busVal_map_snd,
        busVal_ext (e35.trans e6) hpgb.tail.fst, busVal_map_fst, hrestv]
      simp only [List.zipWith_cons_cons, sumBit, List.map_map, Function.comp_def]
      rw [← zipWith_sumBit_fst]
      simp
    have hzne : (z0 :: zs) ≠ [] := by simp
    have hzb : Bnd s7 (z0 :: zs) := Bnd.cons hz0b.1 hzsb
    refine Spec.pure e7.wf ⟨hzb.append (Bnd.replicate (getLastD_mem_bnd hzb hzne) _), ?_, ?_⟩
    · have := congrArg List.length hvals
      simp only [busVal_length, List.length_take, addBits_length, hLlen] at this
      rw [List.length_append, List.length_replicate, this]; omega
    · rw [busVal_append, busVal_replicate, val_getLastD _ hzne, hvals]
      -- v: the n-bit difference
      generalize hvdef : (addBits ((a0, b0) :: Lr) true).take ((a0, b0) :: Lr).length = vb
      have hvbl : vb.length = n := by rw [← hvdef]; simp [hLlen]
      have hvsum : toNat vb = (toNat (L0.map Prod.fst) + toNat ((L0.map Prod.snd).map (!·)) + 1) % 2 ^ n := by
        rw [← hvdef, toNat_take, toNat_addBits, hLlen, ← hLdef, invSnd_fst, invSnd_snd]
        simp
      have hnot := toNat_not (L0.map Prod.snd)
      simp only [List.length_map, hL0len] at hnot
      have hX : toNat (L0.map Prod.fst) = toNat (busVal s inp x) % 2 ^ n := by
        rw [← hL0def, ksOperands, List.map_fst_zip (by simp; omega), toNat_take, toNat_padTo]
      have hY : toNat (L0.map Prod.snd) = toNat (busVal s inp y) % 2 ^ n := by
        rw [← hL0def, ksOperands, List.map_snd_zip (by simp; omega), toNat_take, toNat_padTo]
      have hvlt := toNat_lt vb
      rw [hvbl] at hvlt
      -- (v + Y') % 2^n = X' % 2^n
      have hcore : (toNat vb + toNat (L0.map Prod.snd)) % 2 ^ n = toNat (L0.map Prod.fst) % 2 ^ n := by
        rw [hvsum, Nat.add_mod, Nat.mod_mod, ← Nat.add_mod]
        have : toNat (L0.map Prod.fst) + toNat ((L0.map Prod.snd).map (!·)) + 1 + toNat (L0.map Prod.snd) =
            toNat (L0.map Prod.fst) + 2 ^ n := by omega
        rw [this, Nat.add_mod_right]
      rw [toNat_append, hvbl]
      have hxlt := toNat_lt (busVal s inp x)
      have hylt := toNat_lt (busVal s inp y)
      simp only [busVal_length] at hxlt hylt
      by_cases hc : nz > max x.length y.length
      · have hn' : n = max x.length y.length + 1 := by rw [hnw, ksWidth]; simp [hc]
        have hpx : 2 ^ x.length ≤ 2 ^ max x.length y.length := Nat.pow_le_pow_right (by omega) (by omega)
        have hpy : 2 ^ y.length ≤ 2 ^ max x.length y.length := Nat.pow_le_pow_right (by omega) (by omega)
        have hps : 2 ^ n = 2 * 2 ^ max x.length y.length := by rw [hn', Nat.pow_succ]; omega
        rw [Nat.mod_eq_of_lt (by omega)] at hX hY
        rw [hX, hY, Nat.mod_eq_of_lt (by omega : toNat (busVal s inp x) < 2 ^ n)] at hcore
        have hvne : vb ≠ [] := by intro h; rw [h] at hvbl; simp at hvbl; omega
        have hlast := toNat_getLast vb hvne
        have hlowlt := toNat_lt vb.dropLast
        rw [List.length_dropLast, hvbl] at hlowlt
        rw [hvbl] at hlast
        have hn1' : n - 1 = max x.length y.length := by omega
        rw [hn1'] at hlast hlowlt
        have hrep := toNat_replicate_add (nz - n) (vb.getLastD false)
        have hpow : 2 ^ nz = 2 * 2 ^ max x.length y.length * 2 ^ (nz - n) := by
          rw [← hps, ← Nat.pow_add]; congr 1; omega
        rw [hpow, hps]
        have := sub_sign_extend (toNat (busVal s inp x)) (toNat (busVal s inp y)) (toNat vb) (toNat vb.dropLast)
          (2 ^ max x.length y.length) (2 ^ (nz - n))
          (toNat (List.replicate (nz - n) (vb.getLastD false))) (vb.getLastD false)
          (by omega) (by omega) hlast hlowlt (by rw [← hps, Nat.mod_eq_of_lt (by omega : toNat (busVal s inp x) < 2 ^ n)]; exact hcore)
          (by rw [Nat.mul_comm] at hrep; rw [Nat.mul_comm]; exact hrep) (Nat.two_pow_pos _)
        exact this
      · have hn' : n = nz := by rw [hnw, ksWidth]; simp [hc]
        have hk : nz - n = 0 := by omega
        rw [hk]
        simp only [List.replicate_zero, toNat_nil, Nat.mul_zero, Nat.add_zero]
        rw [hX, hY, hn'] at hcore
        rw [Nat.mod_mod] at hcore
        rw [← hcore, ← hn', Nat.add_mod (toNat vb) (toNat (busVal s inp y) % 2 ^ n), Nat.mod_mod,
          ← Nat.add_mod]

end Mpc.Bld

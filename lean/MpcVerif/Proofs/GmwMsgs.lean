/-
Proofs/GmwMsgs.lean - counting lemmas about the message transcript of
Model/GmwMsgs.lean: in every round every ordered pair of distinct parties
exchanges exactly one message, whatever the payload.
-/
import MpcVerif.Model.GmwMsgs

namespace Mpc.Gmw

theorem countP_peers (n p q : Nat) (hq : q < n) (hpq : p ≠ q) :
    (peersOf n p).countP (· == q) = 1 := by
  unfold peersOf
  rw [List.countP_filter]
  have : (List.range n).countP (fun a => (a == q) && (a != p)) = (List.range n).count q := by
    rw [List.count]; apply List.countP_congr; intro a _
    by_cases h : a = q <;> simp [h, Ne.symm hpq]
  rw [this, List.count_range]; simp [hq]

theorem countP_peers_self (n p : Nat) : (peersOf n p).countP (· == p) = 0 := by
  unfold peersOf
  rw [List.countP_filter]
  apply List.countP_eq_zero.2; intro a _; by_cases h : a = p <;> simp [h]

/-- a row of a round: the messages of one sender -/
theorem countP_row (n ph : Nat) (f : Nat → Nat) (p' p q : Nat) :
    ((peersOf n p').map fun q' => (⟨p', q', ph, f p'⟩ : Msg)).countP (fun m => m.src == p && m.dst == q) =
      if p' = p then (peersOf n p).countP (· == q) else 0 := by
  rw [List.countP_map]
  by_cases h : p' = p
  · subst h; simp [Function.comp_def]
  · simp [h, Function.comp_def]

theorem sum_map_zero (l : List Nat) : (l.map fun _ => 0).sum = 0 := by
  induction l <;> simp_all

theorem sum_ite_range (n p c : Nat) (hp : p < n) :
    ((List.range n).map fun i => if i = p then c else 0).sum = c := by
  induction n with
  | zero => omega
  | succ k ih =>
    rw [List.range_succ, List.map_append, List.sum_append]
    by_cases h : p < k
    · have : k ≠ p := by omega
      simp [ih h, this]
    · have hk : p = k := by omega
      subst hk
      have : ((List.range p).map fun i => if i = p then c else 0) = (List.range p).map fun _ => 0 := by
        apply List.map_congr_left; intro a ha; have := List.mem_range.1 ha; simp; omega
      simp [this, sum_map_zero]

theorem round_one_per_pair (n ph : Nat) (f : Nat → Nat) (p q : Nat) (hp : p < n) (hq : q < n) (hpq : p ≠ q) :
    (round n ph f).countP (fun m => m.src == p && m.dst == q) = 1 := by
  unfold round
  rw [List.countP_flatMap]
  have : (List.map (List.countP (fun m => m.src == p && m.dst == q) ∘
      fun p' => (peersOf n p').map fun q' => (⟨p', q', ph, f p'⟩ : Msg)) (List.range n)) =
      (List.range n).map fun i => if i = p then 1 else 0 := by
    apply List.map_congr_left; intro p' _
    simp only [Function.comp_apply]
    rw [countP_row, countP_peers n p q hq hpq]
  rw [this, sum_ite_range n p 1 hp]

/-- the pair predicate selects nothing whose sender or receiver is outside the round -/
theorem openMsgs_count (n : Nat) (p q : Nat) (hp : p < n) (hq : q < n) (hpq : p ≠ q) (ws : List Nat) :
    ∀ k len, (openMsgs n k len ws).countP (fun m => m.src == p && m.dst == q) = ws.length := by
  induction ws with
  | nil => intro k len; simp [openMsgs]
  | cons w ws ih =>
    intro k len
    simp only [openMsgs, List.countP_append, List.length_cons]
    rw [round_one_per_pair n _ _ p q hp hq hpq, ih]; omega

theorem transcript_count (sizes ws : List Nat) (outLen : Nat → Nat) (p q : Nat) (hp : p < sizes.length)
    (hq : q < sizes.length) (hpq : p ≠ q) :
    (transcript sizes ws outLen).countP (fun m => m.src == p && m.dst == q) = ws.length + 2 := by
  unfold transcript inputMsgs
  simp only [List.countP_append]
  rw [round_one_per_pair _ _ _ p q hp hq hpq, round_one_per_pair _ _ _ p q hp hq hpq,
    openMsgs_count _ p q hp hq hpq]
  omega

theorem mem_round {n ph : Nat} {f : Nat → Nat} {m : Msg} (h : m ∈ round n ph f) :
    m.src < n ∧ m.dst < n ∧ m.src ≠ m.dst ∧ m.phase = ph ∧ m.bytes = f m.src := by
  unfold round peersOf at h
  simp only [List.mem_flatMap, List.mem_map, List.mem_filter, List.mem_range] at h
  obtain ⟨p, hp, q, ⟨hq, hne⟩, rfl⟩ := h
  refine ⟨hp, hq, ?_, rfl, rfl⟩
  intro h; simp at hne; exact hne h.symm

end Mpc.Gmw

/-
Statements: the code `lowerS` / `lowerB` / `lowerFor` emit (Model/MpclLower.lean)
computes what the reference interpreter computes (`lower_stmt_sound`), by
simultaneous induction on the fuel.
-/
import MpcVerif.Proofs.MpclSsaTree

namespace Mpc.Mpcl.Ssa
open Mpc.Mpcl

/-- A scalar value (not an aggregate). -/
def ScalarV : Val → Prop
  | .agg _ => False
  | _ => True

theorem scalarV_decode {t : Ty} {w : Nat} (h : sbits t = some w) (a : Nat) : ScalarV (t.decode a) := by
  cases t <;> simp [sbits] at h <;> simp [Ty.decode, ScalarV]

/-- The interpreter's outcome of a block vs the lowered block at the store
`st'` reached by its code. -/
def OutRel (st' : Nat → Nat) (r : LRes) : Outcome → Prop
  | .normal env' => r.tree.eval st' = none ∧ ∃ n', r.nms = some n' ∧ Rel st' n' env'
  | .returned vals => r.tree.eval st' = some (vals.map Val.encode) ∧ ∀ v ∈ vals, ScalarV v

/-- What lowering a block guarantees when its code runs from `st` to `st'`. -/
def Post (next : Nat) (r : LRes) (st st' : Nat → Nat) (exec : Nat → Option Outcome) : Prop :=
  next ≤ r.next ∧ Frame next st st' ∧ NoRet r.code ∧ r.tree.Below r.next ∧ TreeBd st' r.tree ∧
  (∀ n', r.nms = some n' → Below r.next n' ∧ ∃ env', Rel st' n' env') ∧
  ∃ fi o, exec fi = some o ∧ OutRel st' r o

theorem execS_mono (P : Prog) {f f' : Nat} (hle : f ≤ f') (s : Stmt) (env : Env) (o : Outcome)
    (h : execS P f s env = some o) : execS P f' s env = some o := by
  induction hle with
  | refl => exact h
  | step _ ih => exact (fuel_mono_succ P _).2.1 s env o ih

theorem execFor_mono (P : Prog) {f f' : Nat} (hle : f ≤ f') (i : String) (cur : Int) (c : Cmp) (hi st : Int)
    (body : List Stmt) (env : Env) (o : Outcome)
    (h : execFor P f i cur c hi st body env = some o) : execFor P f' i cur c hi st body env = some o := by
  induction hle with
  | refl => exact h
  | step _ ih => exact (fuel_mono_succ P _).2.2.2 i cur c hi st body env o ih

theorem mov_step {a : SArg} {id w v wa : Nat} {st st' : Nat → Nat} (h : ssaSteps [movI a id w] st = some st')
    (ha : argVal st a = (v, wa)) (hv : v < 2 ^ w) : st' = fun j => if j = id then v else st j := by
  obtain ⟨r, hev, hst⟩ := ssaSteps_one h
  simp only [List.map_cons, List.map_nil, ha, evalOp, Option.some.injEq] at hev
  rw [Nat.mod_eq_of_lt hv] at hev
  subst hev
  exact hst

theorem zeroArg_val {t : Ty} {z : SArg} (h : zeroArg t = some z) (st : Nat → Nat) : ∃ b, argVal st z = (0, b) := by
  cases t with
  | bool => simp [zeroArg] at h; subst h; exact ⟨1, by simp [argVal]⟩
  | int w => simp [zeroArg] at h; subst h; exact ⟨max w 32, by simp [argVal, constWires_self]⟩
  | uint w => simp [zeroArg] at h; subst h; exact ⟨max w 32, by simp [argVal, constWires_self]⟩
  | arr _ _ => simp [zeroArg] at h
  | struct _ => simp [zeroArg] at h

theorem zero_decode {t : Ty} {w : Nat} (h : sbits t = some w) : t.zero = t.decode 0 := by
  cases t <;> simp [sbits] at h <;> simp [Ty.zero, Ty.decode]

theorem bindRel_val {st : Nat → Nat} {id w a : Nat} {t : Ty} (hw : sbits t = some w) (hs : st id = a) (ha : a < 2 ^ w) :
    BindRel st (.val id t) (t.decode a) := ⟨w, hw, by rw [hs]; exact ha, by rw [hs]⟩

/-- `return e1, .., en`. -/
theorem lowerRet_sound (P : Prog) : ∀ (es : List Expr) (nm : NEnv) (next : Nat) (rs : List (Nat × Nat))
    (code : List SInstr) (next' : Nat) (env : Env) (st st' : Nat → Nat),
    lowerRet nm es next = some (rs, code, next') → Rel st nm env → Below next nm →
    ssaSteps code st = some st' →
    ∃ f vals, es.mapM (fun e => evalE P f e env) = some vals ∧
      rs.map (fun p => (st' p.1, p.2)) = vals.map Val.encode ∧ (∀ v ∈ vals, ScalarV v) ∧
      Frame next st st' ∧ next ≤ next' ∧ NoRet code ∧ (∀ p ∈ rs, p.1 < next') ∧ (∀ p ∈ rs, st' p.1 < 2 ^ p.2)
  | [], nm, next, rs, code, next', env, st, st', h, _, _, hrun => by
    simp only [lowerRet, Option.some.injEq, Prod.mk.injEq] at h
    obtain ⟨h1, h2, h3⟩ := h
    subst h1; subst h2; subst h3
    simp only [ssaSteps, Option.some.injEq] at hrun; subst hrun
    exact ⟨0, [], by simp, rfl, (fun v hv => by cases hv), Frame.refl _ _, Nat.le_refl _, NoRet_nil,
      (fun p hp => by cases hp), (fun p hp => by cases hp)⟩
  | e :: es, nm, next, rs, code, next', env, st, st', h, hrel, hbel, hrun => by
    simp only [lowerRet] at h
    cases hl : lowerE nm e next with
    | none => simp [hl] at h
    | some q =>
      obtain ⟨aa, t, ce, n1⟩ := q
      simp only [hl] at h
      cases hw : sbits t with
      | none => simp [hw] at h
      | some w =>
        simp only [hw] at h
        cases hr : lowerRet nm es (n1 + 1) with
        | none => simp [hr] at h
        | some q2 =>
          obtain ⟨rs2, cs, n2⟩ := q2
          simp only [hr, Option.some.injEq, Prod.mk.injEq] at h
          obtain ⟨h1, h2, h3⟩ := h
          subst h1; subst h2; subst h3
          obtain ⟨stm, hrun12, hrun3⟩ := ssaSteps_split hrun
          obtain ⟨st1, hrun1, hrun2⟩ := ssaSteps_split hrun12
          obtain ⟨w1, wa, a, f1, hw1, harg, hlt, hle, _, _, he, hfr1, hn1, hnr1, _⟩ :=
            lowerE_sound P e nm next aa t ce n1 env st st1 hl hrel hbel hrun1
          rw [hw] at hw1; cases hw1
          have haw : a < 2 ^ w := Nat.lt_of_lt_of_le hlt (pow_le_of_le hle)
          have hstm := mov_step hrun2 harg haw
          have hfrm : Frame n1 st1 stm := by rw [hstm]; exact Frame_set (Nat.le_refl _)
          have hfr01 : Frame next st stm := hfr1.trans hfrm hn1
          obtain ⟨f2, vals, hm, hmap, hsc, hfr2, hn2, hnr2, hrs2, hbd2⟩ :=
            lowerRet_sound P es nm (n1 + 1) rs2 cs n2 env stm st' hr (hrel.frame hbel hfr01)
              (hbel.mono (by omega)) hrun3
          have hst'n1 : st' n1 = a := by rw [hfr2 n1 (by omega), hstm]; simp
          refine ⟨max f1 f2, t.decode a :: vals, ?_, ?_, ?_, hfr01.trans hfr2 (by omega), by omega, ?_, ?_, ?_⟩
          · have e1 := evalE_mono P (Nat.le_max_left f1 f2) e env _ he
            have e2 := mapM_mono (fun e => evalE P f2 e env) (fun e => evalE P (max f1 f2) e env)
              (fun x v hv => evalE_mono P (Nat.le_max_right f1 f2) x env v hv) es vals hm
            simp [List.mapM_cons, e1, e2]
          · simp only [List.map_cons, hst'n1, hmap, encode_decode hw haw]
          · intro v hv
            rcases List.mem_cons.1 hv with e | e
            · subst e; exact scalarV_decode hw a
            · exact hsc v e
          · exact NoRet_append (NoRet_append hnr1 (NoRet_one (by simp [movI]))) hnr2
          · intro p hp
            rcases List.mem_cons.1 hp with e | e
            · subst e; simp only; omega
            · exact hrs2 p e
          · intro p hp
            rcases List.mem_cons.1 hp with e | e
            · subst e; simp only; rw [hst'n1]; exact haw
            · exact hbd2 p e

/-- Outcome of a basic statement (`var`, `:=`, `=`): it falls through with the
new bindings. -/
theorem post_basic {next n1 : Nat} {nm' : NEnv} (env' : Env) {code : List SInstr}
    {st st' : Nat → Nat} {exec : Nat → Option Outcome} (fi : Nat)
    (hn : next ≤ n1) (hfr : Frame next st st') (hnr : NoRet code)
    (hbel : Below (n1 + 1) nm') (hrel : Rel st' nm' env') (hex : exec fi = some (.normal env')) :
    Post next ⟨some nm', .fall, code, n1 + 1⟩ st st' exec :=
  ⟨by simp only; omega, hfr, hnr, trivial, trivial,
    (fun n' hn' => by cases hn'; exact ⟨hbel, env', hrel⟩),
    fi, .normal env', hex, rfl, nm', rfl, hrel⟩

/-- Statements, blocks and unrolled loops of the fragment: if the emitted code
runs from `st` to `st'`, the interpreter is defined on the block and its outcome
is the one the lowered block describes at `st'`. -/
theorem lower_stmt_sound (P : Prog) : ∀ f : Nat,
    (∀ (s : Stmt) (nm : NEnv) (next : Nat) (r : LRes) (env : Env) (st st' : Nat → Nat),
      lowerS f nm next s = some r → Rel st nm env → Below next nm → ssaSteps r.code st = some st' →
      Post next r st st' (fun fi => execS P fi s env)) ∧
    (∀ (ss : List Stmt) (nm : NEnv) (next : Nat) (r : LRes) (env : Env) (st st' : Nat → Nat),
      lowerB f nm next ss = some r → Rel st nm env → Below next nm → ssaSteps r.code st = some st' →
      Post next r st st' (fun fi => execB P fi ss env)) ∧
    (∀ (i : String) (cur : Int) (c : Cmp) (hi stp : Int) (body : List Stmt) (nm : NEnv) (next : Nat) (r : LRes)
      (env : Env) (st st' : Nat → Nat),
      lowerFor f i cur c hi stp body nm next = some r → Rel st nm env → Below next nm →
      ssaSteps r.code st = some st' →
      Post next r st st' (fun fi => execFor P fi i cur c hi stp body env)) := by
  intro f
  induction f with
  | zero => refine ⟨?_, ?_, ?_⟩ <;> intros <;> simp_all [lowerS, lowerB, lowerFor]
  | succ f ih =>
    obtain ⟨_ihS, ihB, ihF⟩ := ih
    refine ⟨?_, ?_, ?_⟩
    · -- statements
      intro s nm next r env st st' h hrel hbel hrun
      cases s with
      | decl x t init =>
        cases init with
        | none =>
          simp only [lowerS] at h
          cases hz : zeroArg t with
          | none => simp [hz] at h
          | some z =>
            cases hw : sbits t with
            | none => simp [hz, hw] at h
            | some w =>
              simp only [hz, hw, Option.some.injEq] at h
              subst h
              obtain ⟨b, hb⟩ := zeroArg_val hz st
              have hst' := mov_step hrun hb (two_pow_pos w)
              have hfr : Frame next st st' := by rw [hst']; exact Frame_set (Nat.le_refl _)
              have hs0 : st' next = 0 := by rw [hst']; simp
              refine post_basic (env.declare x (t.decode 0)) 1 (Nat.le_refl _) hfr (NoRet_one (by simp [movI]))
                ((hbel.mono (Nat.le_succ _)).declare (by simp [BelowB])) ?_ ?_
              · exact Rel.declare (bindRel_val hw hs0 (two_pow_pos w)) (hrel.frame hbel hfr)
              · simp [execS, zero_decode hw]
        | some e =>
          simp only [lowerS] at h
          cases hl : lowerE nm e next with
          | none => simp [hl] at h
          | some q =>
            obtain ⟨aa, te, ce, n1⟩ := q
            simp only [hl] at h
            cases hw : sbits t with
            | none => simp [hw] at h
            | some w =>
              simp only [hw] at h
              split at h
              · rename_i hte
                have := tyEq_eq hte; subst this
                simp only [Option.some.injEq] at h
                subst h
                obtain ⟨st1, hrun1, hrun2⟩ := ssaSteps_split hrun
                obtain ⟨w1, wa, a, f1, hw1, harg, hlt, hle, _, _, he, hfr1, hn1, hnr1, _⟩ :=
                  lowerE_sound P e nm next aa t ce n1 env st st1 hl hrel hbel hrun1
                rw [hw] at hw1; cases hw1
                have haw : a < 2 ^ w := Nat.lt_of_lt_of_le hlt (pow_le_of_le hle)
                have hst' := mov_step hrun2 harg haw
                have hfr : Frame next st st' := hfr1.trans (by rw [hst']; exact Frame_set (Nat.le_refl _)) hn1
                have hs0 : st' n1 = a := by rw [hst']; simp
                refine post_basic (env.declare x (t.decode a)) (f1 + 1) hn1 hfr
                  (NoRet_append hnr1 (NoRet_one (by simp [movI])))
                  ((hbel.mono (by omega)).declare (by simp [BelowB])) ?_ ?_
                · exact Rel.declare (bindRel_val hw hs0 haw) (hrel.frame hbel hfr)
                · simp [execS, he, hasTy_decode hw]
              · cases h
      | define xs e =>
        match xs, h with
        | [x], h =>
          simp only [lowerS] at h
          cases hl : lowerE nm e next with
          | none => simp [hl] at h
          | some q =>
            obtain ⟨aa, te, ce, n1⟩ := q
            simp only [hl] at h
            split at h
            · cases h
            · cases hw : sbits te with
              | none => simp [hw] at h
              | some w =>
                simp only [hw, Option.some.injEq] at h
                subst h
                obtain ⟨st1, hrun1, hrun2⟩ := ssaSteps_split hrun
                obtain ⟨w1, wa, a, f1, hw1, harg, hlt, hle, _, _, he, hfr1, hn1, hnr1, _⟩ :=
                  lowerE_sound P e nm next aa te ce n1 env st st1 hl hrel hbel hrun1
                rw [hw] at hw1; cases hw1
                have haw : a < 2 ^ w := Nat.lt_of_lt_of_le hlt (pow_le_of_le hle)
                have hst' := mov_step hrun2 harg haw
                have hfr : Frame next st st' := hfr1.trans (by rw [hst']; exact Frame_set (Nat.le_refl _)) hn1
                have hs0 : st' n1 = a := by rw [hst']; simp
                refine post_basic (env.declare x (te.decode a)) (f1 + 1) hn1 hfr
                  (NoRet_append hnr1 (NoRet_one (by simp [movI])))
                  ((hbel.mono (by omega)).declare (by simp [BelowB])) ?_ ?_
                · exact Rel.declare (bindRel_val hw hs0 haw) (hrel.frame hbel hfr)
                · simp [execS, he]
        | [], h => simp [lowerS] at h
        | _ :: _ :: _, h => simp [lowerS] at h
      | assign lvs e =>
        match lvs, h with
        | [⟨x, []⟩], h =>
          simp only [lowerS] at h
          cases hf0 : nm.find x with
          | none => simp [hf0] at h
          | some b0 =>
            cases b0 with
            | konst _ => simp [hf0] at h
            | val id0 tx =>
              cases hl : lowerE nm e next with
              | none => simp [hf0, hl] at h
              | some q =>
                obtain ⟨aa, te, ce, n1⟩ := q
                simp only [hf0, hl] at h
                cases hw : sbits tx with
                | none => simp [hw] at h
                | some w =>
                  cases hset : nm.set x (.val n1 tx) with
                  | none => simp [hw, hset] at h
                  | some nm' =>
                    simp only [hw, hset] at h
                    split at h
                    · rename_i hte
                      have := tyEq_eq hte; subst this
                      simp only [Option.some.injEq] at h
                      subst h
                      obtain ⟨st1, hrun1, hrun2⟩ := ssaSteps_split hrun
                      obtain ⟨w1, wa, a, f1, hw1, harg, hlt, hle, _, _, he, hfr1, hn1, hnr1, _⟩ :=
                        lowerE_sound P e nm next aa tx ce n1 env st st1 hl hrel hbel hrun1
                      rw [hw] at hw1; cases hw1
                      have haw : a < 2 ^ w := Nat.lt_of_lt_of_le hlt (pow_le_of_le hle)
                      have hst' := mov_step hrun2 harg haw
                      have hfr : Frame next st st' :=
                        hfr1.trans (by rw [hst']; exact Frame_set (Nat.le_refl _)) hn1
                      have hs0 : st' n1 = a := by rw [hst']; simp
                      have hrel' : Rel st' nm env := hrel.frame hbel hfr
                      obtain ⟨v0, hlook, hbv0⟩ := Rel.find hrel _ hf0
                      obtain ⟨w0, hw0, _, hv0⟩ := hbv0
                      obtain ⟨env', hes, hrel2⟩ := Rel.set (bindRel_val hw hs0 haw) hrel' hset
                      refine post_basic env' (f1 + 1) hn1 hfr (NoRet_append hnr1 (NoRet_one (by simp [movI])))
                        (Below.set (hbel.mono (by omega)) (by simp [BelowB]) hset) hrel2 ?_
                      have hsh : (tx.decode (st id0)).sameShape (tx.decode a) = true := sameShape_decode _ _ hw
                      simp [execS, he, assignTo, hlook, hv0, Val.update, hsh, hes]
                    · cases h
        | [], h => simp [lowerS] at h
        | ⟨_, _ :: _⟩ :: _, h => simp [lowerS] at h
        | ⟨_, []⟩ :: _ :: _, h => simp [lowerS] at h
      | ifte c th el =>
        simp only [lowerS] at h
        cases hl : lowerE nm c next with
        | none => simp [hl] at h
        | some q =>
          obtain ⟨ac, tc, cc, n1⟩ := q
          simp only [hl] at h
          cases ac with
          | var cid cw =>
            cases tc with
            | bool =>
              simp only at h
              cases hlt : lowerB f ([] :: nm) n1 th with
              | none => simp [hlt] at h
              | some rt =>
                simp only [hlt] at h
                cases hlf : lowerB f ([] :: nm) rt.next el with
                | none => simp [hlf] at h
                | some rf =>
                  simp only [hlf] at h
                  cases hj : joinN cid (popN rt.nms) (popN rf.nms) rf.next with
                  | none => simp [hj] at h
                  | some q2 =>
                    obtain ⟨nms', cm, n4⟩ := q2
                    simp only [hj, Option.some.injEq] at h
                    subst h
                    -- split the run
                    obtain ⟨st3, hrun123, hrun4⟩ := ssaSteps_split hrun
                    obtain ⟨st2, hrun12, hrun3⟩ := ssaSteps_split hrun123
                    obtain ⟨st1, hrun1, hrun2⟩ := ssaSteps_split hrun12
                    obtain ⟨w1, wa, a, fc, hw1, harg, hlta, hle, hor, _, he, hfr1, hn1, hnr1, hab⟩ :=
                      lowerE_sound P c nm next (.var cid cw) .bool cc n1 env st st1 hl hrel hbel hrun1
                    simp only [sbits, Option.some.injEq] at hw1; subst hw1
                    have hwa : wa = 1 := by
                      rcases hor with e | e
                      · exact e
                      · simp [SArg.isConst] at e
                    subst hwa
                    simp only [argVal, SStore.get, Prod.mk.injEq] at harg
                    obtain ⟨hca, _⟩ := harg
                    have hcid : cid < n1 := hab
                    have hrel1 : Rel st1 nm env := hrel.frame hbel hfr1
                    have hbel1 : Below n1 nm := hbel.mono hn1
                    have hbelp : Below n1 ([] :: nm) := Below.cons (BelowS_nil _) hbel1
                    obtain ⟨hnt, hfrt, hnrt, htbt, htbdt, hnmst, ft, ot, hext, horelt⟩ :=
                      ihB th ([] :: nm) n1 rt ([] :: env) st1 st2 hlt hrel1.push hbelp hrun2
                    have hrel2 : Rel st2 ([] :: nm) ([] :: env) := (hrel1.push).frame hbelp hfrt
                    obtain ⟨hnf, hfrf, hnrf, htbf, htbdf, hnmsf, ff, of, hexf, horelf⟩ :=
                      ihB el ([] :: nm) rt.next rf ([] :: env) st2 st3 hlf hrel2 (hbelp.mono hnt) hrun3
                    have hbt : ∀ n, popN rt.nms = some n → Below rf.next n := by
                      intro n hn
                      cases hrn : rt.nms with
                      | none => simp [popN, hrn] at hn
                      | some n0 =>
                        simp only [popN, hrn, Option.map_some, Option.some.injEq] at hn
                        subst hn
                        exact ((hnmst n0 hrn).1.mono hnf).tail'
                    have hbf : ∀ n, popN rf.nms = some n → Below rf.next n := by
                      intro n hn
                      cases hrn : rf.nms with
                      | none => simp [popN, hrn] at hn
                      | some n0 =>
                        simp only [popN, hrn, Option.map_some, Option.some.injEq] at hn
                        subst hn
                        exact (hnmsf n0 hrn).1.tail'
                    obtain ⟨hk4, hnr4, hbl4, hs4⟩ := joinN_sound cid (popN rt.nms) (popN rf.nms) rf.next nms' cm n4 hj
                      (by omega) hbt hbf
                    obtain ⟨st4, hrun4', hfr4, hjt, hjf, hjex⟩ := hs4 st3
                    have hst4 : st4 = st' := by
                      have := hrun4'.symm.trans hrun4
                      exact Option.some.inj this
                    subst hst4
                    have hfr13 : Frame n1 st1 st3 := hfrt.trans hfrf hnt
                    have hfr14 : Frame n1 st1 st4 := hfr13.trans hfr4 (by omega)
                    have hc3 : st3 cid = a := by rw [hfr13 cid hcid]; exact hca
                    have hc4 : st4 cid = a := by rw [hfr14 cid hcid]; exact hca
                    have ha2 : a < 2 := by simpa using hlta
                    -- the trees at the final store
                    have hfr24 : Frame rt.next st2 st4 := hfrf.trans hfr4 hnf
                    have hevt : rt.tree.eval st4 = rt.tree.eval st2 := RTree.eval_frame hfr24 htbt
                    have hevf : rf.tree.eval st4 = rf.tree.eval st3 := RTree.eval_frame hfr4 htbf
                    -- related environments exist for the outgoing bindings of both branches
                    have hext3 : ∀ n, popN rt.nms = some n → ∃ env, Rel st3 n env := by
                      intro n hn
                      cases hrn : rt.nms with
                      | none => simp [popN, hrn] at hn
                      | some n0 =>
                        simp only [popN, hrn, Option.map_some, Option.some.injEq] at hn
                        subst hn
                        obtain ⟨hb0, env0, hr0⟩ := hnmst n0 hrn
                        exact ⟨env0.tail, (hr0.frame hb0 hfrf).tail⟩
                    have hexf3 : ∀ n, popN rf.nms = some n → ∃ env, Rel st3 n env := by
                      intro n hn
                      cases hrn : rf.nms with
                      | none => simp [popN, hrn] at hn
                      | some n0 =>
                        simp only [popN, hrn, Option.map_some, Option.some.injEq] at hn
                        subst hn
                        obtain ⟨_, env0, hr0⟩ := hnmsf n0 hrn
                        exact ⟨env0.tail, hr0.tail⟩
                    refine ⟨by simp only; omega, ?_, ?_, ?_, ?_, ?_, ?_⟩
                    · exact (hfr1.trans hfr14 hn1)
                    · exact NoRet_append (NoRet_append (NoRet_append hnr1 hnrt) hnrf) hnr4
                    · exact ⟨by simp only; omega, htbt.mono (by simp only; omega), htbf.mono (by simp only; omega)⟩
                    · exact ⟨TreeBd.frame hfr24 htbt htbdt, TreeBd.frame hfr4 htbf htbdf⟩
                    · intro n' hn'
                      exact ⟨hbl4 n' hn', hjex hext3 hexf3 n' hn'⟩
                    · -- the interpreter
                      have hdec : Ty.decode .bool a = .bool (a % 2 == 1) := rfl
                      by_cases hcc : a % 2 = 1
                      · -- condition true
                        have hcv : evalE P fc c env = some (.bool true) := by rw [he, hdec]; simp [hcc]
                        have hc3' : st3 cid % 2 = 1 := by rw [hc3]; exact hcc
                        refine ⟨max fc ft + 1, ot.pop, ?_, ?_⟩
                        · simp only [execS, evalE_mono P (Nat.le_max_left fc ft) c env _ hcv,
                            execB_mono P (Nat.le_max_right fc ft) _ _ _ hext, Option.map_some]
                        · cases ot with
                          | normal envt =>
                            obtain ⟨hev, n0, hrn, hr0⟩ := horelt
                            have hpop : popN rt.nms = some n0.tail := by simp [popN, hrn]
                            have hb0 := (hnmst n0 hrn).1
                            obtain ⟨n', hn', hr'⟩ := hjt hc3' n0.tail envt.tail hpop ((hr0.frame hb0 hfrf).tail)
                            refine ⟨?_, n', hn', hr'⟩
                            simp only [RTree.eval, hc4, hcc, if_true, hevt, hev]
                          | returned vals =>
                            obtain ⟨hev, hsc⟩ := horelt
                            refine ⟨?_, hsc⟩
                            simp only [RTree.eval, hc4, hcc, if_true, hevt, hev]
                      · -- condition false
                        have hcv : evalE P fc c env = some (.bool false) := by rw [he, hdec]; simp [hcc]
                        have hc3' : st3 cid % 2 ≠ 1 := by rw [hc3]; exact hcc
                        refine ⟨max fc ff + 1, of.pop, ?_, ?_⟩
                        · simp only [execS, evalE_mono P (Nat.le_max_left fc ff) c env _ hcv,
                            execB_mono P (Nat.le_max_right fc ff) _ _ _ hexf, Option.map_some]
                        · cases of with
                          | normal envf =>
                            obtain ⟨hev, n0, hrn, hr0⟩ := horelf
                            have hpop : popN rf.nms = some n0.tail := by simp [popN, hrn]
                            obtain ⟨n', hn', hr'⟩ := hjf hc3' n0.tail envf.tail hpop hr0.tail
                            refine ⟨?_, n', hn', hr'⟩
                            simp only [RTree.eval, hc4, hcc, if_false, hevf, hev]
                          | returned vals =>
                            obtain ⟨hev, hsc⟩ := horelf
                            refine ⟨?_, hsc⟩
                            simp only [RTree.eval, hc4, hcc, if_false, hevf, hev]
            | int _ => simp at h
            | uint _ => simp at h
            | arr _ _ => simp at h
            | struct _ => simp at h
          | const _ _ _ _ _ => simp at h
          | pat _ _ => simp at h
          | k _ => simp at h
      | «for» i lo c hi stp body =>
        simp only [lowerS] at h
        obtain ⟨h1, h2, h3, h4, h5, h6, fi, o, hex, horel⟩ := ihF i lo c hi stp body nm next r env st st' h hrel hbel hrun
        exact ⟨h1, h2, h3, h4, h5, h6, fi + 1, o, by simp only [execS]; exact hex, horel⟩
      | ret es =>
        simp only [lowerS] at h
        cases hl : lowerRet nm es next with
        | none => simp [hl] at h
        | some q =>
          obtain ⟨rs, code, n1⟩ := q
          simp only [hl, Option.some.injEq] at h
          subst h
          obtain ⟨f1, vals, hm, hmap, hsc, hfr, hn1, hnr, hrs, hbd⟩ :=
            lowerRet_sound P es nm next rs code n1 env st st' hl hrel hbel hrun
          refine ⟨hn1, hfr, hnr, hrs, hbd, (fun n' hn' => by cases hn'), f1 + 1, .returned vals, ?_, ?_, hsc⟩
          · simp [execS, hm]
          · simp only [RTree.eval, hmap]
    · -- blocks
      intro ss nm next r env st st' h hrel hbel hrun
      cases ss with
      | nil =>
        simp only [lowerB, Option.some.injEq] at h
        subst h
        simp only [ssaSteps, Option.some.injEq] at hrun; subst hrun
        exact ⟨Nat.le_refl _, Frame.refl _ _, NoRet_nil, trivial, trivial,
          (fun n' hn' => by cases hn'; exact ⟨hbel, env, hrel⟩), 1, .normal env, by simp [execB], rfl, nm, rfl, hrel⟩
      | cons s ss =>
        simp only [lowerB] at h
        cases hs : lowerS f nm next s with
        | none => simp [hs] at h
        | some r1 =>
          simp only [hs] at h
          cases hrn : r1.nms with
          | none =>
            simp only [hrn] at h
            cases ss with
            | nil =>
              simp only [Option.some.injEq] at h
              subst h
              obtain ⟨h1, h2, h3, h4, h5, h6, fi, o, hex, horel⟩ := _ihS s nm next r1 env st st' hs hrel hbel hrun
              refine ⟨h1, h2, h3, h4, h5, h6, fi + 1, o, ?_, horel⟩
              simp only [execB, hex]
              cases o with
              | normal env' =>
                obtain ⟨_, n', hn', _⟩ := horel
                rw [hrn] at hn'; cases hn'
              | returned vals => rfl
            | cons _ _ => simp at h
          | some nm1 =>
            simp only [hrn] at h
            cases hb : lowerB f nm1 r1.next ss with
            | none => simp [hb] at h
            | some r2 =>
              simp only [hb, Option.some.injEq] at h
              subst h
              obtain ⟨st1, hrun1, hrun2⟩ := ssaSteps_split hrun
              obtain ⟨hn1, hfr1, hnr1, htb1, htbd1, hnms1, f1, o1, hex1, horel1⟩ :=
                _ihS s nm next r1 env st st1 hs hrel hbel hrun1
              obtain ⟨hb1, envx, hrelx⟩ := hnms1 nm1 hrn
              -- the environment with which the rest runs
              have key : ∀ env1, Rel st1 nm1 env1 →
                  Post r1.next r2 st1 st' (fun fi => execB P fi ss env1) :=
                fun env1 hr1 => ihB ss nm1 r1.next r2 env1 st1 st' hb hr1 hb1 hrun2
              cases o1 with
              | normal env1 =>
                obtain ⟨hev1, n', hn', hr1⟩ := horel1
                rw [hrn] at hn'; cases hn'
                obtain ⟨hn2, hfr2, hnr2, htb2, htbd2, hnms2, f2, o2, hex2, horel2⟩ := key env1 hr1
                have hev1' : r1.tree.eval st' = none := by rw [RTree.eval_frame hfr2 htb1]; exact hev1
                refine ⟨by simp only; omega, hfr1.trans hfr2 hn1, NoRet_append hnr1 hnr2,
                  RTree.Below_seq (htb1.mono hn2) htb2, TreeBd_seq (TreeBd.frame hfr2 htb1 htbd1) htbd2, hnms2,
                  max f1 f2 + 1, o2, ?_, ?_⟩
                · simp only [execB, execS_mono P (Nat.le_max_left f1 f2) _ _ _ hex1]
                  exact execB_mono P (Nat.le_max_right f1 f2) _ _ _ hex2
                · cases o2 with
                  | normal env2 =>
                    obtain ⟨hev2, n2, hn2', hr2⟩ := horel2
                    exact ⟨by simp only [RTree.eval_seq, hev1', hev2], n2, hn2', hr2⟩
                  | returned vals =>
                    obtain ⟨hev2, hsc⟩ := horel2
                    exact ⟨by simp only [RTree.eval_seq, hev1', hev2], hsc⟩
              | returned vals =>
                obtain ⟨hev1, hsc⟩ := horel1
                obtain ⟨hn2, hfr2, hnr2, htb2, htbd2, hnms2, _, _, _, _⟩ := key envx hrelx
                have hev1' : r1.tree.eval st' = some (vals.map Val.encode) := by
                  rw [RTree.eval_frame hfr2 htb1]; exact hev1
                refine ⟨by simp only; omega, hfr1.trans hfr2 hn1, NoRet_append hnr1 hnr2,
                  RTree.Below_seq (htb1.mono hn2) htb2, TreeBd_seq (TreeBd.frame hfr2 htb1 htbd1) htbd2, hnms2,
                  f1 + 1, .returned vals, ?_, ?_, hsc⟩
                · simp only [execB, hex1]
                · simp only [RTree.eval_seq, hev1']
    · -- unrolled loops
      intro i cur c hi stp body nm next r env st st' h hrel hbel hrun
      simp only [lowerFor] at h
      split at h
      · rename_i hholds
        split at h
        · rename_i hrange
          cases hb : lowerB f ([(i, .konst cur.toNat)] :: nm) next body with
          | none => simp [hb] at h
          | some r1 =>
            simp only [hb] at h
            have hcur : ((cur.toNat : Nat) : Int) = cur := Int.toNat_of_nonneg hrange.1
            have hn31 : cur.toNat < 2 ^ 31 := by
              have := hrange.2
              omega
            have hlv : loopVal cur = .num true 32 cur.toNat := by
              have e : ofInt 32 cur = cur.toNat := by
                have := ofInt_natCast (w := 32) (n := cur.toNat) (by omega)
                rwa [hcur] at this
              simp [loopVal, e]
            have hrel0 : Rel st ([(i, .konst cur.toNat)] :: nm) ([(i, loopVal cur)] :: env) :=
              ⟨⟨rfl, ⟨hn31, hlv⟩, trivial⟩, hrel⟩
            have hbel0 : Below next ([(i, .konst cur.toNat)] :: nm) :=
              Below.cons (BelowS.cons trivial (BelowS_nil _)) hbel
            cases hrn : popN r1.nms with
            | none =>
              simp only [hrn, Option.some.injEq] at h
              subst h
              obtain ⟨h1, h2, h3, h4, h5, h6, fi, o, hex, horel⟩ :=
                ihB body _ next r1 _ st st' hb hrel0 hbel0 hrun
              have hnone : r1.nms = none := by
                cases hx : r1.nms with
                | none => rfl
                | some _ => simp [popN, hx] at hrn
              refine ⟨h1, h2, h3, h4, h5, (fun n' hn' => by cases hn'), fi + 1, o, ?_, ?_⟩
              · simp only [execFor, hholds, if_true, hex]
                cases o with
                | normal env' =>
                  obtain ⟨_, n', hn', _⟩ := horel
                  rw [hnone] at hn'; cases hn'
                | returned vals => rfl
              · cases o with
                | normal env' =>
                  obtain ⟨_, n', hn', _⟩ := horel
                  rw [hnone] at hn'; cases hn'
                | returned vals => exact horel
            | some nm1 =>
              simp only [hrn] at h
              cases hl2 : lowerFor f i (cur + stp) c hi stp body nm1 r1.next with
              | none => simp [hl2] at h
              | some r2 =>
                simp only [hl2, Option.some.injEq] at h
                subst h
                obtain ⟨st1, hrun1, hrun2⟩ := ssaSteps_split hrun
                obtain ⟨hn1, hfr1, hnr1, htb1, htbd1, hnms1, f1, o1, hex1, horel1⟩ :=
                  ihB body _ next r1 _ st st1 hb hrel0 hbel0 hrun1
                obtain ⟨n0, hn0, hnm1⟩ : ∃ n0, r1.nms = some n0 ∧ nm1 = n0.tail := by
                  cases hx : r1.nms with
                  | none => simp [popN, hx] at hrn
                  | some n0 => exact ⟨n0, rfl, by simpa [popN, hx] using hrn.symm⟩
                obtain ⟨hb0, envx, hrelx⟩ := hnms1 n0 hn0
                have hb1 : Below r1.next nm1 := by rw [hnm1]; exact hb0.tail'
                have key : ∀ env1, Rel st1 nm1 env1 →
                    Post r1.next r2 st1 st' (fun fi => execFor P fi i (cur + stp) c hi stp body env1) :=
                  fun env1 hr1 => ihF i (cur + stp) c hi stp body nm1 r1.next r2 env1 st1 st' hl2 hr1 hb1 hrun2
                cases o1 with
                | normal env1 =>
                  obtain ⟨hev1, n', hn', hr1⟩ := horel1
                  rw [hn0] at hn'; cases hn'
                  obtain ⟨hn2, hfr2, hnr2, htb2, htbd2, hnms2, f2, o2, hex2, horel2⟩ :=
                    key env1.tail (by rw [hnm1]; exact hr1.tail)
                  have hev1' : r1.tree.eval st' = none := by rw [RTree.eval_frame hfr2 htb1]; exact hev1
                  refine ⟨by simp only; omega, hfr1.trans hfr2 hn1, NoRet_append hnr1 hnr2,
                    RTree.Below_seq (htb1.mono hn2) htb2, TreeBd_seq (TreeBd.frame hfr2 htb1 htbd1) htbd2, hnms2,
                    max f1 f2 + 1, o2, ?_, ?_⟩
                  · simp only [execFor, hholds, if_true, execB_mono P (Nat.le_max_left f1 f2) _ _ _ hex1]
                    exact execFor_mono P (Nat.le_max_right f1 f2) _ _ _ _ _ _ _ _ hex2
                  · cases o2 with
                    | normal env2 =>
                      obtain ⟨hev2, n2, hn2', hr2⟩ := horel2
                      exact ⟨by simp only [RTree.eval_seq, hev1', hev2], n2, hn2', hr2⟩
                    | returned vals =>
                      obtain ⟨hev2, hsc⟩ := horel2
                      exact ⟨by simp only [RTree.eval_seq, hev1', hev2], hsc⟩
                | returned vals =>
                  obtain ⟨hev1, hsc⟩ := horel1
                  obtain ⟨hn2, hfr2, hnr2, htb2, htbd2, hnms2, _, _, _, _⟩ :=
                    key envx.tail (by rw [hnm1]; exact hrelx.tail)
                  have hev1' : r1.tree.eval st' = some (vals.map Val.encode) := by
                    rw [RTree.eval_frame hfr2 htb1]; exact hev1
                  refine ⟨by simp only; omega, hfr1.trans hfr2 hn1, NoRet_append hnr1 hnr2,
                    RTree.Below_seq (htb1.mono hn2) htb2, TreeBd_seq (TreeBd.frame hfr2 htb1 htbd1) htbd2, hnms2,
                    f1 + 1, .returned vals, ?_, ?_, hsc⟩
                  · simp only [execFor, hholds, if_true, hex1]
                  · simp only [RTree.eval_seq, hev1']
        · cases h
      · rename_i hholds
        simp only [Option.some.injEq] at h
        subst h
        simp only [ssaSteps, Option.some.injEq] at hrun; subst hrun
        exact ⟨Nat.le_refl _, Frame.refl _ _, NoRet_nil, trivial, trivial,
          (fun n' hn' => by cases hn'; exact ⟨hbel, env, hrel⟩), 1, .normal env,
          by simp [execFor, hholds], rfl, nm, rfl, hrel⟩

end Mpc.Mpcl.Ssa

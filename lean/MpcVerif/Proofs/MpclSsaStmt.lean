/-
Statements: the code `lowerS` / `lowerB` / `lowerFor` (and, through them,
`lowerE` / `lowerCall` / ..) emit (Model/MpclLower.lean) computes what the
reference interpreter computes (`lower_all_sound`), by simultaneous induction on
the fuel over all mutually recursive lowering functions.
-/
import MpcVerif.Proofs.MpclSsaCall

namespace Mpc.Mpcl.Ssa
open Mpc.Mpcl

theorem execS_mono (P : Prog) {f f' : Nat} (hle : f ≤ f') (s : Stmt) (env : Env) (o : Outcome)
    (h : execS P f s env = some o) : execS P f' s env = some o := by
  induction hle with
  | refl => exact h
  | step _ ih => exact (fuel_mono_succ P _).2.1 s env o ih

theorem execFor_mono (P : Prog) {f f' : Nat} (hle : f ≤ f') (i : String) (cur : Int) (c : Cmp) (hi st : Int)
    (body : List Stmt) (env : Env) (o : Outcome)
    (h : execFor P f i cur c hi st body env = some o) : execFor P f' i cur c hi st body env = some o := by
  induction hle with
  | refl => exact h
  | step _ ih => exact (fuel_mono_succ P _).2.2.2 i cur c hi st body env o ih

theorem zeroArg_val (t : Ty) (st : Nat → Nat) : ∃ b, argVal st (zeroArg t) = (0, b) := by
  cases t with
  | bool => exact ⟨1, by simp [zeroArg, argVal]⟩
  | int w => exact ⟨max w 32, by simp [zeroArg, argVal, constWires_self]⟩
  | uint w => exact ⟨max w 32, by simp [zeroArg, argVal, constWires_self]⟩
  | arr n e => exact ⟨(Ty.arr n e).bits, by simp [zeroArg, argVal]⟩
  | struct fs => exact ⟨(Ty.struct fs).bits, by simp [zeroArg, argVal]⟩

/-- Outcome of a basic statement (`var`, `:=`, `=`): it falls through with the
new bindings. -/
theorem post_basic {next n1 : Nat} {nm' : NEnv} (env' : Env) {code : List SInstr}
    {st st' : Nat → Nat} {exec : Nat → Option Outcome} (fi : Nat)
    (hn : next ≤ n1) (hfr : Frame next st st') (hnr : NoRet code)
    (hbel : Below n1 nm') (hrel : Rel st' nm' env') (hex : exec fi = some (.normal env')) :
    Post next ⟨some nm', .fall, code, n1⟩ st st' exec :=
  ⟨hn, hfr, hnr, trivial, trivial,
    (fun n' hn' => by cases hn'; exact ⟨hbel, env', hrel⟩),
    fi, .normal env', hex, rfl, nm', rfl, hrel⟩

/-- All expressions, given the smaller fuel. -/
theorem expr_succ (P : Prog) (f : Nat) (ihE : ESound P f) (ihC : CallSound P f) : ESound P (f + 1) := by
  intro e
  cases e with
  | lit t n => exact lit_case P f t n
  | var x => exact var_case P f x
  | bin op a b => exact bin_case P f ihE op a b
  | shift l a k => exact shift_case P f ihE l a k
  | not a => exact not_case P f ihE a
  | neg a => exact neg_case P f ihE a
  | cast t a => exact cast_case P f ihE t a
  | idx a i => exact idx_case P f ihE a i
  | fld a k => exact fld_case P f ihE a k
  | call g args => exact call_case P f ihC g args

theorem stmt_succ (P : Prog) (f : Nat) (ihE : ESound P f) (ihC : CallSound P f) (ihR : RetSound P f)
    (ihB : BSound P f) (ihF : FSound P f) : SSound P (f + 1) := by
  intro s nm next r env st st' h hrel hbel hrun
  cases s with
  | decl x t init =>
    cases init with
    | none =>
      simp only [lowerS, Option.some.injEq] at h
      subst h
      obtain ⟨b, hb⟩ := zeroArg_val t st
      have hst' := mov_step hrun hb (two_pow_pos _)
      have hfr : Frame next st st' := by rw [hst']; exact Frame_set (Nat.le_refl _)
      have hs0 : st' next = 0 := by rw [hst']; simp
      refine post_basic (env.declare x (t.decode 0)) 1 (Nat.le_succ _) hfr (NoRet_one (by simp [movI]))
        ((hbel.mono (Nat.le_succ _)).declare (by simp [BelowB])) ?_ ?_
      · exact Rel.declare (bindRel_val hs0 (two_pow_pos _)) (hrel.frame hbel hfr)
      · simp [execS, zero_decode_gen t]
    | some e =>
      simp only [lowerS] at h
      cases hl : lowerE P f nm e next with
      | none => simp [hl] at h
      | some q =>
        obtain ⟨aa, te, ce, n1⟩ := q
        simp only [hl] at h
        split at h
        · rename_i hte
          have := tyEq_eq hte; subst this
          simp only [Option.some.injEq] at h
          subst h
          obtain ⟨st1, hrun1, hrun2⟩ := ssaSteps_split hrun
          obtain ⟨wa, a, f1, harg, hlt, hle, _, _, he, hfr1, hn1, hnr1, _⟩ :=
            ihE e nm next aa t ce n1 env st st1 hl hrel hbel hrun1
          have haw : a < 2 ^ t.bits := Nat.lt_of_lt_of_le hlt (pow_le_of_le hle)
          have hst' := mov_step hrun2 harg haw
          have hfr : Frame next st st' := hfr1.trans (by rw [hst']; exact Frame_set (Nat.le_refl _)) hn1
          have hs0 : st' n1 = a := by rw [hst']; simp
          refine post_basic (env.declare x (t.decode a)) (f1 + 1) (by omega) hfr
            (NoRet_append hnr1 (NoRet_one (by simp [movI])))
            ((hbel.mono (by omega)).declare (by simp [BelowB])) ?_ ?_
          · exact Rel.declare (bindRel_val hs0 haw) (hrel.frame hbel hfr)
          · simp [execS, he, hasTy_decode_gen]
        · cases h
  | define xs e =>
    match xs, e, h with
    | [x], e, h =>
      simp only [lowerS] at h
      cases hl : lowerE P f nm e next with
      | none => simp [hl] at h
      | some q =>
        obtain ⟨aa, te, ce, n1⟩ := q
        simp only [hl] at h
        split at h
        · cases h
        · rename_i hnc
          simp only [Option.some.injEq] at h
          subst h
          obtain ⟨st1, hrun1, hrun2⟩ := ssaSteps_split hrun
          obtain ⟨wa, a, f1, harg, hlt, hle, _, _, he, hfr1, hn1, hnr1, _⟩ :=
            ihE e nm next aa te ce n1 env st st1 hl hrel hbel hrun1
          have haw : a < 2 ^ te.bits := Nat.lt_of_lt_of_le hlt (pow_le_of_le hle)
          have hst' := mov_step hrun2 harg haw
          have hfr : Frame next st st' := hfr1.trans (by rw [hst']; exact Frame_set (Nat.le_refl _)) hn1
          have hs0 : st' n1 = a := by rw [hst']; simp
          refine post_basic (env.declare x (te.decode a)) (f1 + 1) (by omega) hfr
            (NoRet_append hnr1 (NoRet_one (by simp [movI])))
            ((hbel.mono (by omega)).declare (by simp [BelowB])) ?_ ?_
          · exact Rel.declare (bindRel_val hs0 haw) (hrel.frame hbel hfr)
          · simp [execS, he]
    | x :: y :: xs, .call g args, h =>
      simp only [lowerS] at h
      cases hc : lowerCall P f nm g args next with
      | none => simp [hc] at h
      | some q =>
        obtain ⟨rs, cc, n1⟩ := q
        simp only [hc] at h
        cases hd : defineAllVals nm (x :: y :: xs) rs n1 with
        | none => simp [hd] at h
        | some q2 =>
          obtain ⟨nm', cd, n2⟩ := q2
          simp only [hd, Option.some.injEq] at h
          subst h
          obtain ⟨st1, hrun1, hrun2⟩ := ssaSteps_split hrun
          obtain ⟨fi, hev, hbd, hrsb, hfr1, hn1, hnr1⟩ := ihC nm g args next rs cc n1 env st st1 hc hrel hbel hrun1
          obtain ⟨hlen, hrel2, hbel2, hfr2, hn2, hnr2⟩ :=
            defineAllVals_sound (x :: y :: xs) rs nm nm' n1 n2 cd env st1 st' hd (hrel.frame hbel hfr1)
              (hbel.mono hn1) hbd hrsb hrun2
          refine post_basic _ (fi + 1) (by omega) (hfr1.trans hfr2 hn1) (NoRet_append hnr1 hnr2) hbel2 hrel2 ?_
          have hne : rs.length ≠ 1 := by rw [← hlen]; simp
          rw [packResults_many _ _ (resVals_length st1 rs) hne] at hev
          simp only [execS, hev]
          simp [hlen, resVals_length]
    | [], _, h => simp [lowerS] at h
    | _ :: _ :: _, .lit _ _, h => simp [lowerS] at h
    | _ :: _ :: _, .var _, h => simp [lowerS] at h
    | _ :: _ :: _, .bin _ _ _, h => simp [lowerS] at h
    | _ :: _ :: _, .shift _ _ _, h => simp [lowerS] at h
    | _ :: _ :: _, .not _, h => simp [lowerS] at h
    | _ :: _ :: _, .neg _, h => simp [lowerS] at h
    | _ :: _ :: _, .cast _ _, h => simp [lowerS] at h
    | _ :: _ :: _, .idx _ _, h => simp [lowerS] at h
    | _ :: _ :: _, .fld _ _, h => simp [lowerS] at h
  | assign lvs e =>
    match lvs, e, h with
    | [lv], e, h =>
      simp only [lowerS] at h
      cases hl : lowerE P f nm e next with
      | none => simp [hl] at h
      | some q =>
        obtain ⟨aa, te, ce, n1⟩ := q
        simp only [hl] at h
        cases ha : assignVal nm lv aa te n1 with
        | none => simp [ha] at h
        | some q2 =>
          obtain ⟨nm', ca, n2⟩ := q2
          simp only [ha, Option.some.injEq] at h
          subst h
          obtain ⟨st1, hrun1, hrun2⟩ := ssaSteps_split hrun
          obtain ⟨wa, a, f1, harg, hlt, hle, _, _, he, hfr1, hn1, hnr1, _⟩ :=
            ihE e nm next aa te ce n1 env st st1 hl hrel hbel hrun1
          have haw : a < 2 ^ te.bits := Nat.lt_of_lt_of_le hlt (pow_le_of_le hle)
          obtain ⟨env', hat, hrel2, hbel2, hfr2, hn2, hnr2⟩ :=
            assignVal_sound P ha (hrel.frame hbel hfr1) (hbel.mono hn1) harg haw hrun2
          refine post_basic env' (f1 + 2) (by omega) (hfr1.trans hfr2 hn1) (NoRet_append hnr1 hnr2) hbel2 hrel2 ?_
          simp only [execS, evalE_mono P (Nat.le_succ f1) e env _ he, hat f1, Option.map_some]
    | l1 :: l2 :: lvs, .call g args, h =>
      simp only [lowerS] at h
      cases hc : lowerCall P f nm g args next with
      | none => simp [hc] at h
      | some q =>
        obtain ⟨rs, cc, n1⟩ := q
        simp only [hc] at h
        cases hd : assignAllVals nm (l1 :: l2 :: lvs) rs n1 with
        | none => simp [hd] at h
        | some q2 =>
          obtain ⟨nm', cd, n2⟩ := q2
          simp only [hd, Option.some.injEq] at h
          subst h
          obtain ⟨st1, hrun1, hrun2⟩ := ssaSteps_split hrun
          obtain ⟨fi, hev, hbd, hrsb, hfr1, hn1, hnr1⟩ := ihC nm g args next rs cc n1 env st st1 hc hrel hbel hrun1
          obtain ⟨env', hall, hrel2, hbel2, hfr2, hn2, hnr2⟩ :=
            assignAllVals_sound P (l1 :: l2 :: lvs) rs nm nm' n1 n2 cd env st1 st' hd (hrel.frame hbel hfr1)
              (hbel.mono hn1) hbd hrsb hrun2
          have hlen : rs.length ≠ 1 := by
            intro h1
            match rs, h1, hd with
            | [p], _, hd =>
              obtain ⟨id, t⟩ := p
              simp only [assignAllVals] at hd
              cases h3 : assignVal nm l1 (.var id t.bits) t n1 with
              | none => simp [h3] at hd
              | some q3 => obtain ⟨a1, a2, a3⟩ := q3; simp [h3] at hd
          refine post_basic env' (fi + 2) (by omega) (hfr1.trans hfr2 hn1) (NoRet_append hnr1 hnr2) hbel2 hrel2 ?_
          rw [packResults_many _ _ (resVals_length st1 rs) hlen] at hev
          simp only [execS, evalE_mono P (Nat.le_succ fi) _ env _ hev, hall fi, Option.map_some]
    | [], _, h => simp [lowerS] at h
    | _ :: _ :: _, .lit _ _, h => simp [lowerS] at h
    | _ :: _ :: _, .var _, h => simp [lowerS] at h
    | _ :: _ :: _, .bin _ _ _, h => simp [lowerS] at h
    | _ :: _ :: _, .shift _ _ _, h => simp [lowerS] at h
    | _ :: _ :: _, .not _, h => simp [lowerS] at h
    | _ :: _ :: _, .neg _, h => simp [lowerS] at h
    | _ :: _ :: _, .cast _ _, h => simp [lowerS] at h
    | _ :: _ :: _, .idx _ _, h => simp [lowerS] at h
    | _ :: _ :: _, .fld _ _, h => simp [lowerS] at h
  | ifte c th el =>
    simp only [lowerS] at h
    cases hl : lowerE P f nm c next with
    | none => simp [hl] at h
    | some q =>
      obtain ⟨ac, tc, cc, n1⟩ := q
      simp only [hl] at h
      cases ac with
      | var cid cw =>
        cases tc with
        | bool =>
          simp only at h
          cases hlt : lowerB P f ([] :: nm) n1 th with
          | none => simp [hlt] at h
          | some rt =>
            simp only [hlt] at h
            cases hlf : lowerB P f ([] :: nm) rt.next el with
            | none => simp [hlf] at h
            | some rf =>
              simp only [hlf] at h
              cases hj : joinN cid (popN rt.nms) (popN rf.nms) rf.next with
              | none => simp [hj] at h
              | some q2 =>
                obtain ⟨nms', cm, n4⟩ := q2
                simp only [hj, Option.some.injEq] at h
                subst h
                -- split the run
                obtain ⟨st3, hrun123, hrun4⟩ := ssaSteps_split hrun
                obtain ⟨st2, hrun12, hrun3⟩ := ssaSteps_split hrun123
                obtain ⟨st1, hrun1, hrun2⟩ := ssaSteps_split hrun12
                obtain ⟨wa, a, fc, harg, hlta, hle, hor, _, he, hfr1, hn1, hnr1, hab⟩ :=
                  ihE c nm next (.var cid cw) .bool cc n1 env st st1 hl hrel hbel hrun1
                have hwa : wa = 1 := by
                  rcases hor with e | e
                  · simpa [Ty.bits] using e
                  · simp [SArg.isConst] at e
                subst hwa
                simp only [argVal, SStore.get, Prod.mk.injEq] at harg
                obtain ⟨hca, _⟩ := harg
                have hcid : cid < n1 := hab
                have hrel1 : Rel st1 nm env := hrel.frame hbel hfr1
                have hbel1 : Below n1 nm := hbel.mono hn1
                have hbelp : Below n1 ([] :: nm) := Below.cons (BelowS_nil _) hbel1
                obtain ⟨hnt, hfrt, hnrt, htbt, htbdt, hnmst, ft, ot, hext, horelt⟩ :=
                  ihB th ([] :: nm) n1 rt ([] :: env) st1 st2 hlt hrel1.push hbelp hrun2
                have hrel2 : Rel st2 ([] :: nm) ([] :: env) := (hrel1.push).frame hbelp hfrt
                obtain ⟨hnf, hfrf, hnrf, htbf, htbdf, hnmsf, ff, of, hexf, horelf⟩ :=
                  ihB el ([] :: nm) rt.next rf ([] :: env) st2 st3 hlf hrel2 (hbelp.mono hnt) hrun3
                have hbt : ∀ n, popN rt.nms = some n → Below rf.next n := by
                  intro n hn
                  cases hrn : rt.nms with
                  | none => simp [popN, hrn] at hn
                  | some n0 =>
                    simp only [popN, hrn, Option.map_some, Option.some.injEq] at hn
                    subst hn
                    exact ((hnmst n0 hrn).1.mono hnf).tail'
                have hbf : ∀ n, popN rf.nms = some n → Below rf.next n := by
                  intro n hn
                  cases hrn : rf.nms with
                  | none => simp [popN, hrn] at hn
                  | some n0 =>
                    simp only [popN, hrn, Option.map_some, Option.some.injEq] at hn
                    subst hn
                    exact (hnmsf n0 hrn).1.tail'
                obtain ⟨hk4, hnr4, hbl4, hs4⟩ := joinN_sound cid (popN rt.nms) (popN rf.nms) rf.next nms' cm n4 hj
                  (by omega) hbt hbf
                obtain ⟨st4, hrun4', hfr4, hjt, hjf, hjex⟩ := hs4 st3
                have hst4 : st4 = st' := by
                  have := hrun4'.symm.trans hrun4
                  exact Option.some.inj this
                subst hst4
                have hfr13 : Frame n1 st1 st3 := hfrt.trans hfrf hnt
                have hfr14 : Frame n1 st1 st4 := hfr13.trans hfr4 (by omega)
                have hc3 : st3 cid = a := by rw [hfr13 cid hcid]; exact hca
                have hc4 : st4 cid = a := by rw [hfr14 cid hcid]; exact hca
                have ha2 : a < 2 := by simpa using hlta
                -- the trees at the final store
                have hfr24 : Frame rt.next st2 st4 := hfrf.trans hfr4 hnf
                have hevt : rt.tree.eval st4 = rt.tree.eval st2 := RTree.eval_frame hfr24 htbt
                have hevf : rf.tree.eval st4 = rf.tree.eval st3 := RTree.eval_frame hfr4 htbf
                -- related environments exist for the outgoing bindings of both branches
                have hext3 : ∀ n, popN rt.nms = some n → ∃ env, Rel st3 n env := by
                  intro n hn
                  cases hrn : rt.nms with
                  | none => simp [popN, hrn] at hn
                  | some n0 =>
                    simp only [popN, hrn, Option.map_some, Option.some.injEq] at hn
                    subst hn
                    obtain ⟨hb0, env0, hr0⟩ := hnmst n0 hrn
                    exact ⟨env0.tail, (hr0.frame hb0 hfrf).tail⟩
                have hexf3 : ∀ n, popN rf.nms = some n → ∃ env, Rel st3 n env := by
                  intro n hn
                  cases hrn : rf.nms with
                  | none => simp [popN, hrn] at hn
                  | some n0 =>
                    simp only [popN, hrn, Option.map_some, Option.some.injEq] at hn
                    subst hn
                    obtain ⟨_, env0, hr0⟩ := hnmsf n0 hrn
                    exact ⟨env0.tail, hr0.tail⟩
                refine ⟨by simp only; omega, ?_, ?_, ?_, ?_, ?_, ?_⟩
                · exact (hfr1.trans hfr14 hn1)
                · exact NoRet_append (NoRet_append (NoRet_append hnr1 hnrt) hnrf) hnr4
                · exact ⟨by simp only; omega, htbt.mono (by simp only; omega), htbf.mono (by simp only; omega)⟩
                · exact ⟨TreeBd.frame hfr24 htbt htbdt, TreeBd.frame hfr4 htbf htbdf⟩
                · intro n' hn'
                  exact ⟨hbl4 n' hn', hjex hext3 hexf3 n' hn'⟩
                · -- the interpreter
                  have hdec : Ty.decode .bool a = .bool (a % 2 == 1) := rfl
                  by_cases hcc : a % 2 = 1
                  · -- condition true
                    have hcv : evalE P fc c env = some (.bool true) := by rw [he, hdec]; simp [hcc]
                    have hc3' : st3 cid % 2 = 1 := by rw [hc3]; exact hcc
                    refine ⟨max fc ft + 1, ot.pop, ?_, ?_⟩
                    · simp only [execS, evalE_mono P (Nat.le_max_left fc ft) c env _ hcv,
                        execB_mono P (Nat.le_max_right fc ft) _ _ _ hext, Option.map_some]
                    · cases ot with
                      | normal envt =>
                        obtain ⟨hev, n0, hrn, hr0⟩ := horelt
                        have hpop : popN rt.nms = some n0.tail := by simp [popN, hrn]
                        have hb0 := (hnmst n0 hrn).1
                        obtain ⟨n', hn', hr'⟩ := hjt hc3' n0.tail envt.tail hpop ((hr0.frame hb0 hfrf).tail)
                        refine ⟨?_, n', hn', hr'⟩
                        simp only [RTree.eval, hc4, hcc, if_true, hevt, hev]
                      | returned vals =>
                        obtain ⟨lv, hev, hrv⟩ := horelt
                        exact ⟨lv, by simp only [RTree.eval, hc4, hcc, if_true, hevt, hev], hrv⟩
                  · -- condition false
                    have hcv : evalE P fc c env = some (.bool false) := by rw [he, hdec]; simp [hcc]
                    have hc3' : st3 cid % 2 ≠ 1 := by rw [hc3]; exact hcc
                    refine ⟨max fc ff + 1, of.pop, ?_, ?_⟩
                    · simp only [execS, evalE_mono P (Nat.le_max_left fc ff) c env _ hcv,
                        execB_mono P (Nat.le_max_right fc ff) _ _ _ hexf, Option.map_some]
                    · cases of with
                      | normal envf =>
                        obtain ⟨hev, n0, hrn, hr0⟩ := horelf
                        have hpop : popN rf.nms = some n0.tail := by simp [popN, hrn]
                        obtain ⟨n', hn', hr'⟩ := hjf hc3' n0.tail envf.tail hpop hr0.tail
                        refine ⟨?_, n', hn', hr'⟩
                        simp only [RTree.eval, hc4, hcc, if_false, hevf, hev]
                      | returned vals =>
                        obtain ⟨lv, hev, hrv⟩ := horelf
                        exact ⟨lv, by simp only [RTree.eval, hc4, hcc, if_false, hevf, hev], hrv⟩
        | int _ => simp at h
        | uint _ => simp at h
        | arr _ _ => simp at h
        | struct _ => simp at h
      | const _ _ _ _ _ => simp at h
      | pat _ _ => simp at h
      | k _ => simp at h
  | «for» i lo c hi stp body =>
    simp only [lowerS] at h
    obtain ⟨h1, h2, h3, h4, h5, h6, fi, o, hex, horel⟩ := ihF i lo c hi stp body nm next r env st st' h hrel hbel hrun
    exact ⟨h1, h2, h3, h4, h5, h6, fi + 1, o, by simp only [execS]; exact hex, horel⟩
  | ret es =>
    simp only [lowerS] at h
    cases hrc : retCallOf es with
    | some q0 =>
      obtain ⟨g, args⟩ := q0
      simp only [hrc] at h
      have hes := retCallOf_some hrc
      subst hes
      cases hc : lowerCall P f nm g args next with
      | none => simp [hc] at h
      | some q =>
        obtain ⟨rs, cc, n1⟩ := q
        simp only [hc, Option.some.injEq] at h
        subst h
        obtain ⟨st1, hrun1, hrun2⟩ := ssaSteps_split hrun
        obtain ⟨fi, hev, hbd, hrsb, hfr1, hn1, hnr1⟩ := ihC nm g args next rs cc n1 env st st1 hc hrel hbel hrun1
        obtain ⟨hrv, hlen, hub, _, hbd2, hfr2, hn2, hnr2⟩ := retMovs_sound rs n1 st1 st' hbd hrsb hrun2
        refine ⟨by simp only; omega, hfr1.trans hfr2 hn1, NoRet_append hnr1 hnr2, hub, hbd2,
          (fun n' hn' => by cases hn'), ?_⟩
        by_cases h1 : rs.length = 1
        · -- one result: an ordinary value
          match rs, h1, hev with
          | [(id, t)], _, hev =>
            rw [show List.length [(id, t)] = 1 from rfl, show resVals st1 [(id, t)] = [t.decode (st1 id)] from rfl,
              packResults_one] at hev
            refine ⟨fi + 1, .returned [t.decode (st1 id)], by simp [execS, hev], _, rfl, Or.inl ?_⟩
            rw [leaf_resVals, hrv]; rfl
        · rw [packResults_many _ _ (resVals_length st1 rs) h1] at hev
          refine ⟨fi + 1, .returned [.agg (resVals st1 rs)], by simp [execS, hev], _, rfl, Or.inr ⟨?_, ?_⟩⟩
          · rw [leaf_resVals, hrv]
          · rw [leaf_resVals, resVals_length, hlen]; exact h1
    | none =>
      simp only [hrc] at h
      cases hl : lowerRet P f nm es next with
      | none => simp [hl] at h
      | some q =>
        obtain ⟨rs, code, n1⟩ := q
        simp only [hl, Option.some.injEq] at h
        subst h
        obtain ⟨f1, hm, hfr, hn1, hnr, hrs, hbd⟩ := ihR es nm next rs code n1 env st st' hl hrel hbel hrun
        refine ⟨hn1, hfr, hnr, hrs, hbd, (fun n' hn' => by cases hn'), f1 + 1, .returned (resVals st' rs), ?_, ?_⟩
        · simp [execS, hm]
        · exact ⟨_, rfl, Or.inl (leaf_resVals st' rs).symm⟩

theorem block_succ (P : Prog) (f : Nat) (ihS : SSound P f) (ihB : BSound P f) : BSound P (f + 1) := by
  intro ss nm next r env st st' h hrel hbel hrun
  cases ss with
  | nil =>
    simp only [lowerB, Option.some.injEq] at h
    subst h
    simp only [ssaSteps, Option.some.injEq] at hrun; subst hrun
    exact ⟨Nat.le_refl _, Frame.refl _ _, NoRet_nil, trivial, trivial,
      (fun n' hn' => by cases hn'; exact ⟨hbel, env, hrel⟩), 1, .normal env, by simp [execB], rfl, nm, rfl, hrel⟩
  | cons s ss =>
    simp only [lowerB] at h
    cases hs : lowerS P f nm next s with
    | none => simp [hs] at h
    | some r1 =>
      simp only [hs] at h
      cases hrn : r1.nms with
      | none =>
        simp only [hrn] at h
        cases ss with
        | nil =>
          simp only [Option.some.injEq] at h
          subst h
          obtain ⟨h1, h2, h3, h4, h5, h6, fi, o, hex, horel⟩ := ihS s nm next r1 env st st' hs hrel hbel hrun
          refine ⟨h1, h2, h3, h4, h5, h6, fi + 1, o, ?_, horel⟩
          simp only [execB, hex]
          cases o with
          | normal env' =>
            obtain ⟨_, n', hn', _⟩ := horel
            rw [hrn] at hn'; cases hn'
          | returned vals => rfl
        | cons _ _ => simp at h
      | some nm1 =>
        simp only [hrn] at h
        cases hb : lowerB P f nm1 r1.next ss with
        | none => simp [hb] at h
        | some r2 =>
          simp only [hb, Option.some.injEq] at h
          subst h
          obtain ⟨st1, hrun1, hrun2⟩ := ssaSteps_split hrun
          obtain ⟨hn1, hfr1, hnr1, htb1, htbd1, hnms1, f1, o1, hex1, horel1⟩ :=
            ihS s nm next r1 env st st1 hs hrel hbel hrun1
          obtain ⟨hb1, envx, hrelx⟩ := hnms1 nm1 hrn
          -- the environment with which the rest runs
          have key : ∀ env1, Rel st1 nm1 env1 →
              Post r1.next r2 st1 st' (fun fi => execB P fi ss env1) :=
            fun env1 hr1 => ihB ss nm1 r1.next r2 env1 st1 st' hb hr1 hb1 hrun2
          cases o1 with
          | normal env1 =>
            obtain ⟨hev1, n', hn', hr1⟩ := horel1
            rw [hrn] at hn'; cases hn'
            obtain ⟨hn2, hfr2, hnr2, htb2, htbd2, hnms2, f2, o2, hex2, horel2⟩ := key env1 hr1
            have hev1' : r1.tree.eval st' = none := by rw [RTree.eval_frame hfr2 htb1]; exact hev1
            refine ⟨by simp only; omega, hfr1.trans hfr2 hn1, NoRet_append hnr1 hnr2,
              RTree.Below_seq (htb1.mono hn2) htb2, TreeBd_seq (TreeBd.frame hfr2 htb1 htbd1) htbd2, hnms2,
              max f1 f2 + 1, o2, ?_, ?_⟩
            · simp only [execB, execS_mono P (Nat.le_max_left f1 f2) _ _ _ hex1]
              exact execB_mono P (Nat.le_max_right f1 f2) _ _ _ hex2
            · cases o2 with
              | normal env2 =>
                obtain ⟨hev2, n2, hn2', hr2⟩ := horel2
                exact ⟨by simp only [RTree.eval_seq, hev1', hev2], n2, hn2', hr2⟩
              | returned vals =>
                obtain ⟨lv, hev2, hrv⟩ := horel2
                exact ⟨lv, by simp only [RTree.eval_seq, hev1', hev2], hrv⟩
          | returned vals =>
            obtain ⟨lv, hev1, hrv⟩ := horel1
            obtain ⟨hn2, hfr2, hnr2, htb2, htbd2, hnms2, _, _, _, _⟩ := key envx hrelx
            have hev1' : r1.tree.eval st' = some lv := by
              rw [RTree.eval_frame hfr2 htb1]; exact hev1
            refine ⟨by simp only; omega, hfr1.trans hfr2 hn1, NoRet_append hnr1 hnr2,
              RTree.Below_seq (htb1.mono hn2) htb2, TreeBd_seq (TreeBd.frame hfr2 htb1 htbd1) htbd2, hnms2,
              f1 + 1, .returned vals, ?_, lv, ?_, hrv⟩
            · simp only [execB, hex1]
            · simp only [RTree.eval_seq, hev1']

theorem for_succ (P : Prog) (f : Nat) (ihB : BSound P f) (ihF : FSound P f) : FSound P (f + 1) := by
  intro i cur c hi stp body nm next r env st st' h hrel hbel hrun
  simp only [lowerFor] at h
  split at h
  · rename_i hholds
    split at h
    · rename_i hrange
      cases hb : lowerB P f ([(i, .konst cur.toNat)] :: nm) next body with
      | none => simp [hb] at h
      | some r1 =>
        simp only [hb] at h
        have hcur : ((cur.toNat : Nat) : Int) = cur := Int.toNat_of_nonneg hrange.1
        have hn31 : cur.toNat < 2 ^ 31 := by
          have := hrange.2
          omega
        have hlv : loopVal cur = .num true 32 cur.toNat := by
          have e : ofInt 32 cur = cur.toNat := by
            have := ofInt_natCast (w := 32) (n := cur.toNat) (by omega)
            rwa [hcur] at this
          simp [loopVal, e]
        have hrel0 : Rel st ([(i, .konst cur.toNat)] :: nm) ([(i, loopVal cur)] :: env) :=
          ⟨⟨rfl, ⟨hn31, hlv⟩, trivial⟩, hrel⟩
        have hbel0 : Below next ([(i, .konst cur.toNat)] :: nm) :=
          Below.cons (BelowS.cons trivial (BelowS_nil _)) hbel
        cases hrn : popN r1.nms with
        | none =>
          simp only [hrn, Option.some.injEq] at h
          subst h
          obtain ⟨h1, h2, h3, h4, h5, h6, fi, o, hex, horel⟩ :=
            ihB body _ next r1 _ st st' hb hrel0 hbel0 hrun
          have hnone : r1.nms = none := by
            cases hx : r1.nms with
            | none => rfl
            | some _ => simp [popN, hx] at hrn
          refine ⟨h1, h2, h3, h4, h5, (fun n' hn' => by cases hn'), fi + 1, o, ?_, ?_⟩
          · simp only [execFor, hholds, if_true, hex]
            cases o with
            | normal env' =>
              obtain ⟨_, n', hn', _⟩ := horel
              rw [hnone] at hn'; cases hn'
            | returned vals => rfl
          · cases o with
            | normal env' =>
              obtain ⟨_, n', hn', _⟩ := horel
              rw [hnone] at hn'; cases hn'
            | returned vals => exact horel
        | some nm1 =>
          simp only [hrn] at h
          cases hl2 : lowerFor P f i (cur + stp) c hi stp body nm1 r1.next with
          | none => simp [hl2] at h
          | some r2 =>
            simp only [hl2, Option.some.injEq] at h
            subst h
            obtain ⟨st1, hrun1, hrun2⟩ := ssaSteps_split hrun
            obtain ⟨hn1, hfr1, hnr1, htb1, htbd1, hnms1, f1, o1, hex1, horel1⟩ :=
              ihB body _ next r1 _ st st1 hb hrel0 hbel0 hrun1
            obtain ⟨n0, hn0, hnm1⟩ : ∃ n0, r1.nms = some n0 ∧ nm1 = n0.tail := by
              cases hx : r1.nms with
              | none => simp [popN, hx] at hrn
              | some n0 => exact ⟨n0, rfl, by simpa [popN, hx] using hrn.symm⟩
            obtain ⟨hb0, envx, hrelx⟩ := hnms1 n0 hn0
            have hb1 : Below r1.next nm1 := by rw [hnm1]; exact hb0.tail'
            have key : ∀ env1, Rel st1 nm1 env1 →
                Post r1.next r2 st1 st' (fun fi => execFor P fi i (cur + stp) c hi stp body env1) :=
              fun env1 hr1 => ihF i (cur + stp) c hi stp body nm1 r1.next r2 env1 st1 st' hl2 hr1 hb1 hrun2
            cases o1 with
            | normal env1 =>
              obtain ⟨hev1, n', hn', hr1⟩ := horel1
              rw [hn0] at hn'; cases hn'
              obtain ⟨hn2, hfr2, hnr2, htb2, htbd2, hnms2, f2, o2, hex2, horel2⟩ :=
                key env1.tail (by rw [hnm1]; exact hr1.tail)
              have hev1' : r1.tree.eval st' = none := by rw [RTree.eval_frame hfr2 htb1]; exact hev1
              refine ⟨by simp only; omega, hfr1.trans hfr2 hn1, NoRet_append hnr1 hnr2,
                RTree.Below_seq (htb1.mono hn2) htb2, TreeBd_seq (TreeBd.frame hfr2 htb1 htbd1) htbd2, hnms2,
                max f1 f2 + 1, o2, ?_, ?_⟩
              · simp only [execFor, hholds, if_true, execB_mono P (Nat.le_max_left f1 f2) _ _ _ hex1]
                exact execFor_mono P (Nat.le_max_right f1 f2) _ _ _ _ _ _ _ _ hex2
              · cases o2 with
                | normal env2 =>
                  obtain ⟨hev2, n2, hn2', hr2⟩ := horel2
                  exact ⟨by simp only [RTree.eval_seq, hev1', hev2], n2, hn2', hr2⟩
                | returned vals =>

                  obtain ⟨lv, hev2, hrv⟩ := horel2

                  exact ⟨lv, by simp only [RTree.eval_seq, hev1', hev2], hrv⟩
            | returned vals =>
              obtain ⟨lv, hev1, hrv⟩ := horel1
              obtain ⟨hn2, hfr2, hnr2, htb2, htbd2, hnms2, _, _, _, _⟩ :=
                key envx.tail (by rw [hnm1]; exact hrelx.tail)
              have hev1' : r1.tree.eval st' = some lv := by
                rw [RTree.eval_frame hfr2 htb1]; exact hev1
              refine ⟨by simp only; omega, hfr1.trans hfr2 hn1, NoRet_append hnr1 hnr2,
                RTree.Below_seq (htb1.mono hn2) htb2, TreeBd_seq (TreeBd.frame hfr2 htb1 htbd1) htbd2, hnms2,
                f1 + 1, .returned vals, ?_, lv, ?_, hrv⟩
              · simp only [execFor, hholds, if_true, hex1]
              · simp only [RTree.eval_seq, hev1']
    · cases h
  · rename_i hholds
    simp only [Option.some.injEq] at h
    subst h
    simp only [ssaSteps, Option.some.injEq] at hrun; subst hrun
    exact ⟨Nat.le_refl _, Frame.refl _ _, NoRet_nil, trivial, trivial,
      (fun n' hn' => by cases hn'; exact ⟨hbel, env, hrel⟩), 1, .normal env,
      by simp [execFor, hholds], rfl, nm, rfl, hrel⟩


/-- Expressions, argument lists, calls, result lists, statements, blocks and
unrolled loops of the fragment: if the emitted code runs from `st` to `st'`, the
interpreter is defined and its result is the one the lowered code describes at
`st'`. -/
theorem lower_all_sound (P : Prog) : ∀ f : Nat,
    ESound P f ∧ ArgsSound P f ∧ CallSound P f ∧ RetSound P f ∧ SSound P f ∧ BSound P f ∧ FSound P f := by
  intro f
  induction f with
  | zero =>
    refine ⟨?_, ?_, ?_, ?_, ?_, ?_, ?_⟩
    · intro e nm next aa t code next' env st st' h; simp [lowerE] at h
    · intro es nm next avs code next' env st st' h; simp [lowerArgs] at h
    · intro nm g args next rs code next' env st st' h; simp [lowerCall] at h
    · intro es nm next rs code next' env st st' h; simp [lowerRet] at h
    · intro s nm next r env st st' h; simp [lowerS] at h
    · intro ss nm next r env st st' h; simp [lowerB] at h
    · intro i cur c hi stp body nm next r env st st' h; simp [lowerFor] at h
  | succ f ih =>
    obtain ⟨ihE, ihA, ihC, ihR, ihS, ihB, ihF⟩ := ih
    exact ⟨expr_succ P f ihE ihC, args_succ P f ihE ihA, call_succ P f ihA ihB, ret_succ P f ihE ihR,
      stmt_succ P f ihE ihC ihR ihB ihF, block_succ P f ihS ihB, for_succ P f ihB ihF⟩

end Mpc.Mpcl.Ssa

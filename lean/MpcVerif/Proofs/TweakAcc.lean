/-
Lemmas on the per-kind tweak accounting (`Model/TweakAcc.lean`).
-/
import MpcVerif.Model.TweakAcc
import MpcVerif.Model.LabelBV
import MpcVerif.Proofs.Garble

namespace Mpc
open LabelAlg
variable {L : Type} [LabelAlg L]

theorem garbleGatesAcc_cons (H : Hash L) (r : L) (tw : TweakAcc) (g : Gate) (gs : List Gate)
    (ws : Store (WireL L)) (id : Nat) :
    garbleGatesAcc H r tw (g :: gs) ws id =
      ((garbleGatesAcc H r tw gs (ws.set g.out (garbleCore H r g.op (ws.get g.in0) (ws.get g.in1) id).1)
          (id + tw g.op)).1,
       (garbleGatesAcc H r tw gs (ws.set g.out (garbleCore H r g.op (ws.get g.in0) (ws.get g.in1) id).1)
          (id + tw g.op)).2.1,
       (garbleCore H r g.op (ws.get g.in0) (ws.get g.in1) id).2 ::
         (garbleGatesAcc H r tw gs (ws.set g.out (garbleCore H r g.op (ws.get g.in0) (ws.get g.in1) id).1)
          (id + tw g.op)).2.2) := rfl

/-- With the code's accounting the loop is `garbleGates`, the loop that is
compared byte for byte with `Circuit.Garble` (C01 / C02) and about which
`C04_whole_circuit` speaks. -/
theorem garbleGatesAcc_code (H : Hash L) (r : L) (gs : List Gate) :
    ∀ (ws : Store (WireL L)) (id : Nat),
      garbleGatesAcc H r codeAcc gs ws id = garbleGates H r gs ws id := by
  induction gs with
  | nil => intro ws id; rfl
  | cons g gs ih =>
    intro ws id
    rw [garbleGatesAcc_cons, garbleGates_cons, ih]
    rfl

theorem garbleGatesAcc_append (H : Hash L) (r : L) (tw : TweakAcc) (gs1 gs2 : List Gate) :
    ∀ (ws : Store (WireL L)) (id : Nat),
      garbleGatesAcc H r tw (gs1 ++ gs2) ws id =
        ((garbleGatesAcc H r tw gs2 (garbleGatesAcc H r tw gs1 ws id).1 (garbleGatesAcc H r tw gs1 ws id).2.1).1,
         (garbleGatesAcc H r tw gs2 (garbleGatesAcc H r tw gs1 ws id).1 (garbleGatesAcc H r tw gs1 ws id).2.1).2.1,
         (garbleGatesAcc H r tw gs1 ws id).2.2 ++
           (garbleGatesAcc H r tw gs2 (garbleGatesAcc H r tw gs1 ws id).1
              (garbleGatesAcc H r tw gs1 ws id).2.1).2.2) := by
  induction gs1 with
  | nil => intro ws id; rfl
  | cons g gs ih =>
    intro ws id
    rw [List.cons_append, garbleGatesAcc_cons, ih, garbleGatesAcc_cons]
    rfl

/-- Streaming the instruction circuits one by one with ONE running counter is
the gate loop on their concatenation, for every accounting. -/
theorem streamGarbleAcc_flatten (H : Hash L) (r : L) (tw : TweakAcc) (steps : List (List Gate)) :
    ∀ (ws : Store (WireL L)) (id : Nat),
      streamGarbleAcc H r tw steps ws id = garbleGatesAcc H r tw steps.flatten ws id := by
  induction steps with
  | nil => intro ws id; rfl
  | cons step steps ih =>
    intro ws id
    simp only [streamGarbleAcc, List.flatten_cons]
    rw [garbleGatesAcc_append, ih]

/-- The counter after the loop is `tweakEnd` of the gate kinds. -/
theorem garbleGatesAcc_id (H : Hash L) (r : L) (tw : TweakAcc) (gs : List Gate) :
    ∀ (ws : Store (WireL L)) (id : Nat),
      (garbleGatesAcc H r tw gs ws id).2.1 = tweakEnd tw (gs.map (·.op)) id := by
  induction gs with
  | nil => intro ws id; rfl
  | cons g gs ih =>
    intro ws id
    rw [garbleGatesAcc_cons]
    simp only [List.map_cons, tweakEnd]
    exact ih _ _

/-! ### `Op.queries` is how `garbleCore` calls the hash -/

/-- One gate reads the hash functions only at the tweaks `op.uses id`: two hash
models that agree there give the same output pair and the same rows. -/
theorem garbleCore_queries_only (H H' : Hash L) (r : L) (op : Op) (a b : WireL L) (id : Nat)
    (h1 : ∀ x, ∀ t ∈ op.uses id, H.h1 x t = H'.h1 x t)
    (h2 : ∀ x y, ∀ t ∈ op.uses id, H.h2 x y t = H'.h2 x y t) :
    garbleCore H r op a b id = garbleCore H' r op a b id := by
  cases op
  case xor => rfl
  case xnor => rfl
  case and =>
    have e0 : ∀ x, H.h1 x id = H'.h1 x id := fun x => h1 x id (by simp [Op.uses, Op.queries])
    have e1 : ∀ x, H.h1 x (id + 1) = H'.h1 x (id + 1) :=
      fun x => h1 x (id + 1) (by simp [Op.uses, Op.queries])
    simp only [garbleCore, e0, e1]
  case or =>
    have e0 : ∀ x y, H.h2 x y id = H'.h2 x y id := fun x y => h2 x y id (by simp [Op.uses, Op.queries])
    simp only [garbleCore, e0]
  case inv =>
    have e0 : ∀ x y, H.h2 x y id = H'.h2 x y id := fun x y => h2 x y id (by simp [Op.uses, Op.queries])
    simp only [garbleCore, e0]

/-! ### Tweak windows -/

theorem mem_uses (op : Op) (id t : Nat) : t ∈ op.uses id ↔ id ≤ t ∧ t < id + op.queries := by
  simp only [Op.uses, List.mem_map, List.mem_range]
  constructor
  · rintro ⟨k, hk, rfl⟩; omega
  · intro ⟨h1, h2⟩; exact ⟨t - id, by omega, by omega⟩

theorem uses_sorted (op : Op) (id : Nat) : (op.uses id).Pairwise (· < ·) := by
  cases op <;> simp [Op.uses, Op.queries, List.range_succ]

theorem tweakUses_ge (tw : TweakAcc) (ops : List Op) :
    ∀ id, ∀ t ∈ tweakUses tw ops id, id ≤ t := by
  induction ops with
  | nil => intro id t h; cases h
  | cons op ops ih =>
    intro id t h
    simp only [tweakUses, List.mem_append] at h
    rcases h with h | h
    · exact ((mem_uses op id t).mp h).1
    · have := ih _ t h; omega

/-- **Under a safe accounting no tweak is used twice**: the tweaks used along
any gate list are strictly increasing. -/
theorem tweakUses_sorted (tw : TweakAcc) (hs : tw.Safe) (ops : List Op) :
    ∀ id, (tweakUses tw ops id).Pairwise (· < ·) := by
  induction ops with
  | nil => intro id; exact List.Pairwise.nil
  | cons op ops ih =>
    intro id
    simp only [tweakUses]
    rw [List.pairwise_append]
    refine ⟨uses_sorted op id, ih _, ?_⟩
    intro t ht u hu
    have h1 := ((mem_uses op id t).mp ht).2
    have h2 := tweakUses_ge tw ops _ u hu
    have := hs op
    omega

theorem codeAcc_safe : codeAcc.Safe := by intro op; cases op <;> decide

/-! ### The concrete hash: the unary pad is the half-gate hash -/

/-- In the code `encrypt(alg, a, zero, c, t)` pads with `π(K) ⊕ K`, `K = 2a ⊕
4·0 ⊕ t = 2a ⊕ t`, which is `encryptHalf(alg, a, t)`: for every block function
(AES under the session key) the INV pad of a label under a tweak IS the
half-gate hash of that label under that tweak. -/
theorem hashOf_unary (π : BitVec 128 → BitVec 128) (x : BitVec 128) (t : Nat) :
    (hashOf π).h2 x (LabelAlg.zero : BitVec 128) t = (hashOf π).h1 x t := by
  show (let k := makeK x 0#128 t; π k ^^^ k) = (let k := makeKHalf x t; π k ^^^ k)
  have : makeK x 0#128 t = makeKHalf x t := by
    simp [makeK, makeKHalf]
  simp only [this]

end Mpc

/-
Helper lemmas for the input-encoding layer of C02 (Model/Proto2Int.lean):
`big.Int.Bit` on every integer is the two's complement at any width.
-/
import MpcVerif.Model.Proto2Int
import MpcVerif.Proofs.Proto2

namespace Mpc

theorem bitsOfInt_length (w : Nat) (v : Int) : (bitsOfInt w v).length = w := by simp [bitsOfInt]

theorem encodeArg_length (a : ArgVals) : (encodeArg a).length = argWidth a := by
  induction a with
  | nil => rfl
  | cons m a ih => simp [encodeArg, argWidth, bitsOfInt_length] at *

theorem encodeArg_append (a b : ArgVals) : encodeArg (a ++ b) = encodeArg a ++ encodeArg b := by
  simp [encodeArg]

theorem natBits_succ (w n : Nat) : natBits (w + 1) n = n.testBit 0 :: natBits w (n / 2) := by
  simp only [natBits, List.range_succ_eq_map, List.map_cons, List.map_map]
  congr 1
  apply List.map_congr_left
  intro i _
  simp [Nat.testBit_succ]

theorem packLE_natBits (w n : Nat) : packLE (natBits w n) = n % 2 ^ w := by
  induction w generalizing n with
  | zero => simp [natBits, packLE, Nat.mod_one]
  | succ w ih =>
    rw [natBits_succ, packLE, ih, Nat.pow_succ, Nat.mul_comm (2 ^ w) 2, Nat.mod_mul, Nat.testBit_zero]
    by_cases h : n % 2 = 1 <;> simp [h] <;> omega

theorem natBits_packLE (bs : List Bool) : natBits bs.length (packLE bs) = bs := by
  induction bs with
  | nil => rfl
  | cons b bs ih =>
    rw [List.length_cons, natBits_succ, packLE]
    have h1 : ((if b = true then 1 else 0) + 2 * packLE bs) / 2 = packLE bs := by cases b <;> simp <;> omega
    have h2 : ((if b = true then 1 else 0) + 2 * packLE bs).testBit 0 = b := by
      rw [Nat.testBit_zero]; cases b <;> simp <;> omega
    rw [h1, h2, ih]

theorem natBits_mod (w n : Nat) : natBits w (n % 2 ^ w) = natBits w n := by
  simp only [natBits]
  apply List.map_congr_left
  intro i hi
  simp [Nat.testBit_mod_two_pow, List.mem_range.mp hi]

theorem bitsOfInt_eq_natBits (w : Nat) (v : Int) :
    bitsOfInt w v = natBits w (v % 2 ^ w).toNat := by
  cases v with
  | ofNat n =>
    have : ((Int.ofNat n) % 2 ^ w).toNat = n % 2 ^ w := by
      have : (Int.ofNat n) % (2 : Int) ^ w = ((n % 2 ^ w : Nat) : Int) := by simp
      rw [this]; rfl
    rw [this, natBits_mod]; rfl
  | negSucc n =>
    have hpos : (0 : Int) < 2 ^ w := Int.pow_pos (by decide)
    have hlt : n % 2 ^ w < 2 ^ w := Nat.mod_lt _ (Nat.two_pow_pos w)
    have : ((Int.negSucc n) % 2 ^ w).toNat = 2 ^ w - (n % 2 ^ w + 1) := by
      rw [Int.negSucc_emod n hpos]
      have : (2 : Int) ^ w - 1 - (n : Int) % 2 ^ w = ((2 ^ w - (n % 2 ^ w + 1) : Nat) : Int) := by
        rw [Int.ofNat_sub (by omega)]; simp; omega
      rw [this]; rfl
    rw [this]
    simp only [bitsOfInt, natBits]
    apply List.map_congr_left
    intro i hi
    rw [Nat.testBit_two_pow_sub_succ hlt]
    simp [bigIntBit, Nat.testBit_mod_two_pow, List.mem_range.mp hi]

theorem natBits_length (w n : Nat) : (natBits w n).length = w := by simp [natBits]

/-- The `w` bits read from `v` are the binary digits of `v mod 2^w` (the
non-negative remainder): two's complement at width `w`, for every integer. -/
theorem packLE_bitsOfInt (w : Nat) (v : Int) : packLE (bitsOfInt w v) = (v % 2 ^ w).toNat := by
  rw [bitsOfInt_eq_natBits, packLE_natBits]
  apply Nat.mod_eq_of_lt
  have hpos : (0 : Int) < 2 ^ w := Int.pow_pos (by decide)
  have h1 := Int.emod_lt_of_pos v hpos
  have h2 := Int.emod_nonneg v (Int.ne_of_gt hpos)
  have : ((v % 2 ^ w).toNat : Int) < ((2 ^ w : Nat) : Int) := by
    rw [Int.toNat_of_nonneg h2]; simpa using h1
  exact Int.ofNat_lt.mp this

theorem bitsOfInt_emod (w : Nat) (v : Int) : bitsOfInt w (v % 2 ^ w) = bitsOfInt w v := by
  rw [bitsOfInt_eq_natBits, bitsOfInt_eq_natBits w v, Int.emod_emod]

theorem bitsOfInt_congr (w : Nat) (v v' : Int) (h : v % 2 ^ w = v' % 2 ^ w) :
    bitsOfInt w v = bitsOfInt w v' := by
  rw [bitsOfInt_eq_natBits, bitsOfInt_eq_natBits w v', h]

/-- Reading a non-negative packed value bit by bit gives back the bits it was
packed from. -/
theorem bitsOfInt_packLE (bs : List Bool) : bitsOfInt bs.length (packLE bs : Int) = bs := by
  have : bitsOfInt bs.length (packLE bs : Int) = natBits bs.length (packLE bs) := rfl
  rw [this, natBits_packLE]

theorem bitsOfInt_packArg (a : ArgVals) : bitsOfInt (argWidth a) (packArg a : Int) = encodeArg a := by
  rw [← encodeArg_length, packArg, bitsOfInt_packLE]

theorem absBits_natCast (w n : Nat) : absBits w (n : Int) = bitsOfInt w (n : Int) := rfl

theorem absBits_neg (w : Nat) (v : Int) : absBits w (-v) = absBits w v := by
  simp [absBits]

end Mpc

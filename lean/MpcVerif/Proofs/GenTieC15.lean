/-
T1 tie (DESIGN.md 1.3) of the carry-less multiplication leaves `ot.clmul64`,
`ot.mul128Generic` (ot/mul128_generic.go) to the C15 model Model/Clmul.lean:
the definitions of MpcVerif/Gen/LeafC15.lean, regenerated from the current Go
source by `gofacts translate` on every run of checks/t1.py, equal
`Mpc.Clmul.clmul64` / `Mpc.Clmul.mul128Generic`.  Core Lean only.
-/
import MpcVerif.Gen.LeafC15
import MpcVerif.Proofs.GenTieLib
import MpcVerif.Model.Clmul

namespace Mpc.GenTie
open Mpc Mpc.Gen Mpc.Gen.C15


theorem tie_clmul64 (a b : BitVec 64) : Gen.C15.clmul64 a b = Mpc.Clmul.clmul64 a b := by
  rw [Gen.C15.clmul64]; dsimp only
  rw [foldl_range_eq _ (Mpc.Clmul.clmulLoop a b) 64 (0#64, 0#64) rfl]
  · rfl
  · intro k hk
    rw [Mpc.Clmul.clmulLoop]
    generalize Mpc.Clmul.clmulLoop a b k = s
    have hk0 : (BitVec.ofNat 64 (0 + k)).toNat = k := ofNat_up_toNat k (by omega)
    have hsh : ∀ n, n < 64 → (b &&& 1#64 <<< n != 0#64) = b.getLsbD n := fun n hn => by
      rw [← BitVec.twoPow_eq, and_twoPow_ne_zero b n hn]
    simp only [Mpc.Clmul.clmulStep, hk0, ofNat_up_eq_zero k (by omega), sub_up_toNat 64 k (by omega) (by omega),
      and_one_ne_zero, and_one_eq_zero, and_one_eq_one, hsh k hk]
    have h64 : a >>> 64 = 0#64 := by
      apply BitVec.eq_of_getLsbD_eq; intro i hi
      simp only [BitVec.getLsbD_ushiftRight, BitVec.getLsbD_zero]
      exact BitVec.getLsbD_of_ge _ _ (by omega)
    cases hb : b.getLsbD k <;> by_cases h2 : k = 0 <;> simp [h2, h64]

theorem tie_mul128Generic (a b : Gen.Label) :
    (joinL (Gen.C15.mul128Generic a b).1, joinL (Gen.C15.mul128Generic a b).2) =
      Mpc.Clmul.mul128Generic (joinL a) (joinL b) := by
  have hd0 : ∀ l : Gen.Label, Mpc.Clmul.d0 (joinL l) = l.1 := fun l => hi64_join l.1 l.2
  have hd1 : ∀ l : Gen.Label, Mpc.Clmul.d1 (joinL l) = l.2 := fun l => lo64_join l.1 l.2
  first
    | -- a source that calls `Label.Xor` (the callee is then part of this group's generated file)
      (simp only [Gen.C15.mul128Generic, Mpc.Clmul.mul128Generic, tie_clmul64, hd0, hd1, Mpc.Clmul.ofD, append_eq_join,
        Label.Xor, BitVec.xor_zero, BitVec.zero_xor, joinL] <;>
        (refine Prod.ext ?_ ?_ <;> dsimp only <;> join_ac))
    | -- the current source: word operations only
      (simp only [Gen.C15.mul128Generic, Mpc.Clmul.mul128Generic, tie_clmul64, hd0, hd1, Mpc.Clmul.ofD, append_eq_join,
        BitVec.xor_zero, BitVec.zero_xor, joinL] <;>
        (refine Prod.ext ?_ ?_ <;> dsimp only <;> join_ac))

example : Gen.C15.clmul64 3#64 3#64 = (5#64, 0#64) := by decide

end Mpc.GenTie

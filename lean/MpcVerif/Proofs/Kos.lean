/-
Lemmas about the malicious-mode model (Model/Kos.lean): the IKNP chunk loops
with error masks XORed into the transmitted chunks (`loops_corr_err`), the
flattening of the challenge block loops, and the algebra of the consistency
check.  Core Lean only.
-/
import MpcVerif.Model.Kos
import MpcVerif.Proofs.Iknp
import MpcVerif.Proofs.Clmul
namespace Mpc.Kos
open Mpc.Iknp Mpc.Clmul

/-! ### The transmitted matrix with errors -/

theorem labelBit_and (a b : Label) (j : Nat) : labelBit (a &&& b) j = (labelBit a j && labelBit b j) := by
  simp [labelBit]

theorem shape_nil_left (E : List Bytes) (h : Shape [] E) : E = [] := by
  cases E with
  | nil => rfl
  | cons e es => exact absurd h (by simp [Shape])

theorem shape_cons_left (u : Bytes) (us E : List Bytes) (h : Shape (u :: us) E) :
    ∃ e es, E = e :: es ∧ e.size = u.size ∧ Shape us es := by
  cases E with
  | nil => exact absurd h (by simp [Shape])
  | cons e es => exact ⟨e, es, rfl, h.1, h.2⟩

/-- Chunk algebra with an error mask `e` XORed into the transmitted chunk. -/
theorem chunk_corr_err (R0 R1 SS : Nat → Nat → Byte) (delta : Label) (hb : BaseOK R0 R1 SS delta)
    (rs : RecvSt) (ss : SendSt) (hs : InStep rs ss) (w : Nat) (mask : Bytes → Bytes) (cb : Nat → Byte)
    (hm : MaskOK mask w cb) (e : Bytes) (he : e.size = K * w) (i k : Nat) (hi : i < K) (hk : k < w) :
    bget (sendCols SS delta ss (xorBytes (recvCols R0 R1 rs w mask).1 e) w) (i * w + k) =
      bget (recvCols R0 R1 rs w mask).2 (i * w + k) ^^^ (if labelBit delta i then cb k else 0#8) ^^^
        (if labelBit delta i then bget e (i * w + k) else 0#8) := by
  have husz : (recvCols R0 R1 rs w mask).1.size = K * w := size_recvCols_u ..
  have hlt := idx_lt hi hk
  rw [sendCols_get _ _ _ _ _ (by simp [husz]) _ _ hi hk]
  rw [← chunk_corr R0 R1 SS delta hb rs ss hs w mask cb hm i k hi hk]
  rw [sendCols_get _ _ _ _ _ husz _ _ hi hk]
  rw [bget_xorBytes _ _ _ (by omega)]
  have : i * w + k < e.size := by omega
  simp only [this, if_true]
  split
  · rw [BitVec.xor_assoc]
  · simp

theorem createLabels_corr_err (len : Nat) (t c e : Bytes) (w : Nat) (delta : Label) (cb : Nat → Byte)
    (h : ∀ j k, j < K → k < w → bget t (j * w + k) =
      bget c (j * w + k) ^^^ (if labelBit delta j then cb k else 0#8) ^^^ (if labelBit delta j then bget e (j * w + k) else 0#8))
    (idx : Nat) (hidx : idx < min (w * 8) len) :
    (createLabels len t w).getD idx 0#128 =
      (createLabels len c w).getD idx 0#128 ^^^ (if (cb (idx / 8)).getLsbD (idx % 8) then delta else 0#128) ^^^
        ((createLabels len e w).getD idx 0#128 &&& delta) := by
  apply label_ext
  intro j hj
  have hk : idx / 8 < w := by omega
  rw [labelBit_xor, labelBit_xor, labelBit_and, labelBit_createLabels _ _ _ _ _ hidx hj,
    labelBit_createLabels _ _ _ _ _ hidx hj, labelBit_createLabels _ _ _ _ _ hidx hj, h j _ hj hk]
  by_cases hd : labelBit delta j <;> by_cases hc : (cb (idx / 8)).getLsbD (idx % 8) <;> simp [hd, hc]

theorem rowsLoop_done (n fuel ofs : Nat) (E : List Bytes) (h : n ≤ ofs) : rowsLoop n fuel ofs E = [] := by
  cases fuel with
  | zero => rfl
  | succ f => simp [rowsLoop, Nat.not_lt.mpr h]

/-- `loops_corr` (Proofs/Iknp.lean) with the error masks `E` XORed into the
transmitted chunks: the sender still consumes exactly the chunks, the streams
stay in step, and `received_i = sent_i xor choice_i*Delta xor (E_i & Delta)`
where `E_i` is row `i` of the error matrix. -/
theorem loops_corr_err (R0 R1 SS : Nat → Nat → Byte) (delta : Label) (hb : BaseOK R0 R1 SS delta) (b : Array Bool) :
    ∀ (fuelR fuelS ofsR ofsS : Nat) (rs : RecvSt) (ss : SendSt) (E more : List Bytes),
      InStep rs ss →
      ((ofsR = ofsS ∧ ofsR % 8 = 0 ∧ ofsR < b.size) ∨ (b.size ≤ ofsR ∧ b.size ≤ ofsS)) →
      b.size - ofsR ≤ fuelR → b.size - ofsR ≤ fuelS →
      Shape (recvLoop R0 R1 (packBools b) b.size fuelR ofsR rs).2.2 E →
      ∃ ss' sent,
        sendLoop SS delta b.size fuelS ofsS ss
            (xorMsgs (recvLoop R0 R1 (packBools b) b.size fuelR ofsR rs).2.2 E ++ more) = some (ss', sent, more) ∧
        InStep (recvLoop R0 R1 (packBools b) b.size fuelR ofsR rs).1 ss' ∧
        sent.length = b.size - ofsR ∧
        (recvLoop R0 R1 (packBools b) b.size fuelR ofsR rs).2.1.length = b.size - ofsR ∧
        (rowsLoop b.size fuelS ofsS E).length = b.size - ofsR ∧
        ∀ i, i < b.size - ofsR →
          (recvLoop R0 R1 (packBools b) b.size fuelR ofsR rs).2.1.getD i 0#128 =
            sent.getD i 0#128 ^^^ (if b.getD (ofsR + i) false then delta else 0#128) ^^^
              ((rowsLoop b.size fuelS ofsS E).getD i 0#128 &&& delta) := by
  intro fuelR
  induction fuelR with
  | zero =>
    intro fuelS ofsR ofsS rs ss E more hs hofs hfR _ hsh
    have h1 : b.size ≤ ofsR := by omega
    have h2 : b.size ≤ ofsS := by rcases hofs with h | h <;> omega
    rw [recvLoop_done _ _ _ _ _ _ _ h1] at hsh
    have hE := shape_nil_left E hsh
    subst hE
    refine ⟨ss, [], ?_, ?_, ?_, ?_, ?_, ?_⟩
    · rw [recvLoop_done _ _ _ _ _ _ _ h1, sendLoop_done _ _ _ _ _ _ _ h2]; rfl
    · rw [recvLoop_done _ _ _ _ _ _ _ h1]; exact hs
    · simp; omega
    · rw [recvLoop_done _ _ _ _ _ _ _ h1]; simp; omega
    · rw [rowsLoop_done _ _ _ _ h2]; simp; omega
    · intro i hi; omega
  | succ fR ih =>
    intro fuelS ofsR ofsS rs ss E more hs hofs hfR hfS hsh
    rcases hofs with ⟨heq, hmod, hlt⟩ | ⟨h1, h2⟩
    · subst heq
      obtain ⟨fS, rfl⟩ : ∃ fS, fuelS = fS + 1 := ⟨fuelS - 1, by omega⟩
      let n := b.size
      let rows := min chunkRows (n - ofsR)
      let w := (rows + 7) / 8
      have hrows : rows = min chunkRows (n - ofsR) := rfl
      have hw : w = (rows + 7) / 8 := rfl
      have hcr : chunkRows = 512 := rfl
      let mask : Bytes → Bytes := fun tmp => xorBytes tmp (sliceFrom (packBools b) (ofsR / 8))
      let uc := recvCols R0 R1 rs w mask
      have hmask : MaskOK mask w (fun k => bget (packBools b) (ofsR / 8 + k)) := by
        apply maskOK_labels
        simp only [size_packBools]
        omega
      have hR : recvLoop R0 R1 (packBools b) n (fR + 1) ofsR rs =
          ((recvLoop R0 R1 (packBools b) n fR (ofsR + rows) (rs.adv w)).1,
           createLabels (n - ofsR) uc.2 w ++ (recvLoop R0 R1 (packBools b) n fR (ofsR + rows) (rs.adv w)).2.1,
           uc.1 :: (recvLoop R0 R1 (packBools b) n fR (ofsR + rows) (rs.adv w)).2.2) := by
        simp only [recvLoop, hlt, if_true, n, rows, w, uc, mask]
      have husz : uc.1.size = K * w := size_recvCols_u ..
      have hK : K = 128 := rfl
      have hwle : w ≤ chunkByteRows := by
        have : chunkByteRows = 64 := rfl
        omega
      -- the error mask of this chunk
      have hsh' : Shape (uc.1 :: (recvLoop R0 R1 (packBools b) n fR (ofsR + rows) (rs.adv w)).2.2) E := by
        have := hsh
        rw [show b.size = n from rfl, hR] at this
        exact this
      obtain ⟨e, Es, rfl, hesz, hshEs⟩ := shape_cons_left _ _ _ hsh'
      have hesz' : e.size = K * w := by rw [hesz, husz]
      have hxsz : (xorBytes uc.1 e).size = K * w := by simp [husz]
      have hS : ∀ msgs, sendLoop SS delta n (fS + 1) ofsR ss (xorBytes uc.1 e :: msgs) =
          (sendLoop SS delta n fS (ofsR + w * 8) (ss.adv w) msgs).map fun rest =>
            (rest.1, createLabels (n - ofsR) (sendCols SS delta ss (xorBytes uc.1 e) w) w ++ rest.2.1, rest.2.2) := by
        intro msgs
        have h1 : (xorBytes uc.1 e).size % K = 0 := by rw [hxsz]; exact Nat.mul_mod_right ..
        have h2 : (xorBytes uc.1 e).size / K = w := by rw [hxsz]; exact Nat.mul_div_cancel_left _ (by decide)
        simp only [sendLoop, hlt, if_true, h1, h2, ne_eq, not_true_eq_false, if_false, Nat.not_lt.mpr hwle, n]
        cases sendLoop SS delta b.size fS (ofsR + w * 8) (ss.adv w) msgs <;> rfl
      have hRows : rowsLoop n (fS + 1) ofsR (e :: Es) =
          createLabels (n - ofsR) e w ++ rowsLoop n fS (ofsR + w * 8) Es := by
        have h2 : e.size / K = w := by rw [hesz']; exact Nat.mul_div_cancel_left _ (by decide)
        simp only [rowsLoop, hlt, if_true, h2, n]
      have hofs' : ((ofsR + rows = ofsR + w * 8 ∧ (ofsR + rows) % 8 = 0 ∧ ofsR + rows < b.size) ∨
          (b.size ≤ ofsR + rows ∧ b.size ≤ ofsR + w * 8)) := by
        by_cases h : ofsR + rows < b.size
        · left; omega
        · right; omega
      obtain ⟨ss', sentR, hsend, hstep, hlenS, hlenR, hlenE, hcorr⟩ :=
        ih fS (ofsR + rows) (ofsR + w * 8) (rs.adv w) (ss.adv w) Es more (hs.adv w) hofs' (by omega) (by omega) hshEs
      refine ⟨ss', createLabels (n - ofsR) (sendCols SS delta ss (xorBytes uc.1 e) w) w ++ sentR, ?_, ?_, ?_, ?_, ?_, ?_⟩
      · show sendLoop SS delta n (fS + 1) ofsR ss
            (xorMsgs (recvLoop R0 R1 (packBools b) n (fR + 1) ofsR rs).2.2 (e :: Es) ++ more) = _
        rw [hR]
        simp only [xorMsgs, List.zipWith_cons_cons, List.cons_append]
        rw [hS]
        have := hsend
        simp only [xorMsgs] at this
        rw [this]; rfl
      · show InStep (recvLoop R0 R1 (packBools b) n (fR + 1) ofsR rs).1 ss'
        rw [hR]; exact hstep
      · simp only [List.length_append, length_createLabels, hlenS]; omega
      · show (recvLoop R0 R1 (packBools b) n (fR + 1) ofsR rs).2.1.length = _
        rw [hR]
        simp only [List.length_append, length_createLabels]
        rw [hlenR]; omega
      · show (rowsLoop n (fS + 1) ofsR (e :: Es)).length = _
        rw [hRows]
        simp only [List.length_append, length_createLabels]
        rw [hlenE]; omega
      · intro i hi
        show (recvLoop R0 R1 (packBools b) n (fR + 1) ofsR rs).2.1.getD i 0#128 =
          _ ^^^ _ ^^^ ((rowsLoop n (fS + 1) ofsR (e :: Es)).getD i 0#128 &&& delta)
        rw [hR, hRows]
        simp only
        have hlen : min (w * 8) (n - ofsR) = rows := by omega
        by_cases hir : i < rows
        · rw [getD_append_left _ _ _ _ (by simp only [length_createLabels]; omega),
            getD_append_left _ _ _ _ (by simp only [length_createLabels]; omega),
            getD_append_left _ _ _ _ (by simp only [length_createLabels]; omega)]
          have hcc := createLabels_corr_err (n - ofsR) (sendCols SS delta ss (xorBytes uc.1 e) w) uc.2 e w delta
            (fun k => bget (packBools b) (ofsR / 8 + k))
            (fun j k hj hk => chunk_corr_err R0 R1 SS delta hb rs ss hs w mask _ hmask e hesz' j k hj hk) i (by omega)
          rw [hcc]
          have hbit : (bget (packBools b) (ofsR / 8 + i / 8)).getLsbD (i % 8) = b.getD (ofsR + i) false := by
            rw [packBools_bit _ _ _ (by omega) (by omega)]
            congr 1; omega
          rw [hbit]
          generalize (createLabels (n - ofsR) uc.2 w).getD i 0#128 = x
          generalize (createLabels (n - ofsR) e w).getD i 0#128 &&& delta = y
          by_cases hc : b.getD (ofsR + i) false <;> simp [hc] <;> grind
        · rw [getD_append_right _ _ _ _ (by simp only [length_createLabels]; omega),
            getD_append_right _ _ _ _ (by simp only [length_createLabels]; omega),
            getD_append_right _ _ _ _ (by simp only [length_createLabels]; omega)]
          simp only [length_createLabels, hlen]
          have := hcorr (i - rows) (by omega)
          rw [this]
          have he : ofsR + rows + (i - rows) = ofsR + i := by omega
          rw [he]
    · rw [recvLoop_done _ _ _ _ _ _ _ h1] at hsh
      have hE := shape_nil_left E hsh
      subst hE
      refine ⟨ss, [], ?_, ?_, ?_, ?_, ?_, ?_⟩
      · rw [recvLoop_done _ _ _ _ _ _ _ h1, sendLoop_done _ _ _ _ _ _ _ h2]; rfl
      · rw [recvLoop_done _ _ _ _ _ _ _ h1]; exact hs
      · simp; omega
      · rw [recvLoop_done _ _ _ _ _ _ _ h1]; simp; omega
      · rw [rowsLoop_done _ _ _ _ h2]; simp; omega
      · intro i hi; omega


/-- One `receive` / `send` pair with error masks `E` on the transmitted chunks. -/
theorem label_call_err (R0 R1 SS : Nat → Nat → Byte) (delta : Label) (hb : BaseOK R0 R1 SS delta)
    (rs : RecvSt) (ss : SendSt) (hs : InStep rs ss) (b : Array Bool) (E more : List Bytes)
    (hsh : Shape (receive R0 R1 rs b).2.2 E) :
    ∃ ss' sent,
      send SS delta ss b.size (xorMsgs (receive R0 R1 rs b).2.2 E ++ more) = some (ss', sent, more) ∧
      InStep (receive R0 R1 rs b).1 ss' ∧
      sent.length = b.size ∧ (receive R0 R1 rs b).2.1.length = b.size ∧ (rowsOf b.size E).length = b.size ∧
      ∀ i, i < b.size →
        (receive R0 R1 rs b).2.1.getD i 0#128 =
          sent.getD i 0#128 ^^^ (if b.getD i false then delta else 0#128) ^^^ ((rowsOf b.size E).getD i 0#128 &&& delta) := by
  have h := loops_corr_err R0 R1 SS delta hb b b.size (b.size + 1) 0 0 rs ss E more hs
    (by by_cases h : 0 < b.size
        · left; exact ⟨rfl, rfl, h⟩
        · right; omega) (by omega) (by omega) hsh
  obtain ⟨ss', sent, h1, h2, h3, h4, h5, h6⟩ := h
  refine ⟨ss', sent, h1, h2, ?_, h4, ?_, ?_⟩
  · rw [h3]; rfl
  · show (rowsLoop b.size (b.size + 1) 0 E).length = b.size
    rw [h5]; rfl
  · intro i hi
    have := h6 i hi
    rw [Nat.zero_add] at this
    exact this

/-! ### Flattening the challenge loops -/

theorem lget_chiAt (X : Nat → Label) (pos cnt k : Nat) (h : k < cnt) : lget (chiAt X pos cnt) k = X (pos + k) := by
  unfold lget chiAt
  rw [getD_mk _ _ _ _ h]

@[simp] theorem size_chiAt (X : Nat → Label) (pos cnt : Nat) : (chiAt X pos cnt).size = cnt := by simp [chiAt]

theorem lget_extract (v : Array Label) (i k : Nat) (h : i + k < v.size) : lget (v.extract i v.size) k = lget v (i + k) := by
  unfold lget
  have h1 : k < (v.extract i v.size).size := by simp; omega
  rw [Array.getD_eq_getD_getElem?, Array.getD_eq_getD_getElem?, Array.getElem?_eq_getElem h1, Array.getElem?_eq_getElem h]
  simp

theorem innerNoRed_chi (X : Nat → Label) (pos cnt : Nat) (v : Array Label) (i : Nat) (h : i + cnt ≤ v.size) :
    innerNoRed (chiAt X pos cnt) (v.extract i v.size) = psum cnt fun k => mul128 (X (pos + k)) (lget v (i + k)) := by
  unfold innerNoRed
  have e : min (chiAt X pos cnt).size (v.extract i v.size).size = cnt := by simp; omega
  rw [e]
  apply psum_congr
  intro k hk
  rw [lget_chiAt _ _ _ _ hk, lget_extract _ _ _ (by omega)]

theorem innerNoRed_chi_all (X : Nat → Label) (pos : Nat) (v : Array Label) :
    innerNoRed (chiAt X pos v.size) v = psum v.size fun k => mul128 (X (pos + k)) (lget v k) := by
  unfold innerNoRed
  have e : min (chiAt X pos v.size).size v.size = v.size := by simp
  rw [e]
  apply psum_congr
  intro k hk
  rw [lget_chiAt _ _ _ _ hk]

theorem selXor_chi (X : Nat → Label) (pos cnt : Nat) (bit : Nat → Bool) :
    selXor (chiAt X pos cnt) bit cnt = lsum cnt fun k => if bit k then X (pos + k) else 0#128 := by
  unfold selXor
  apply lsum_congr
  intro k hk
  rw [lget_chiAt _ _ _ _ hk]
  split <;> simp only [select1, select0, BitVec.and_allOnes, BitVec.and_zero]

/-- The block loop computes the plain sums over the rows `i .. len-1`. -/
theorem chkLoop_eq (X : Nat → Label) (bit : Nat → Bool) (v : Array Label) (len : Nat) (hv : v.size = len) :
    ∀ (fuel i : Nat) (acc : Acc), len - i ≤ fuel →
      chkLoop X bit v len fuel i acc =
        { t := pxor acc.t (psum (len - i) fun k => mul128 (X (acc.pos + k)) (lget v (i + k))),
          x := acc.x ^^^ lsum (len - i) fun k => if bit (i + k) then X (acc.pos + k) else 0#128,
          pos := acc.pos + (len - i) } := by
  intro fuel
  induction fuel with
  | zero =>
    intro i acc h
    have e : len - i = 0 := by omega
    simp [chkLoop, e, psum, lsum]
  | succ f ih =>
    intro i acc h
    unfold chkLoop
    by_cases hi : i < len
    · simp only [hi, if_true]
      rw [ih _ _ (by omega)]
      simp only
      rw [innerNoRed_chi _ _ _ _ _ (by omega), selXor_chi]
      by_cases hc : len - i ≤ 1024
      · have e1 : min 1024 (len - i) = len - i := by omega
        have e2 : len - (i + 1024) = 0 := by omega
        simp [e1, e2, psum, lsum]
      · have e1 : min 1024 (len - i) = 1024 := by omega
        have e2 : len - i = 1024 + (len - (i + 1024)) := by omega
        rw [e1]
        conv => rhs; rw [e2, psum_add, lsum_add]
        simp only [pxor_assoc, BitVec.xor_assoc, Nat.add_assoc]
    · have e : len - i = 0 := by omega
      simp [hi, e, psum, lsum]

theorem chkTail_eq (X : Nat → Label) (bit : Nat → Bool) (cv : Array Label) (acc : Acc) :
    chkTail X bit cv acc =
      { t := pxor acc.t (psum cv.size fun k => mul128 (X (acc.pos + k)) (lget cv k)),
        x := acc.x ^^^ lsum cv.size fun k => if bit k then X (acc.pos + k) else 0#128,
        pos := acc.pos + cv.size } := by
  simp only [chkTail, innerNoRed_chi_all, selXor_chi]

/-- Both loops together: sums over the `n + m` rows of payload and check batch. -/
theorem chk_total (X : Nat → Label) (bit1 bit2 : Nat → Bool) (v cv : Array Label) (n : Nat) (hv : v.size = n) :
    chkTail X bit2 cv (chkLoop X bit1 v n (n + 1) 0 {}) =
      { t := psum (n + cv.size) fun r => mul128 (X r) (if r < n then lget v r else lget cv (r - n)),
        x := lsum (n + cv.size) fun r => if (if r < n then bit1 r else bit2 (r - n)) then X r else 0#128,
        pos := n + cv.size } := by
  have h1 := chkLoop_eq X bit1 v n hv (n + 1) 0 {} (by omega)
  rw [h1, chkTail_eq]
  simp only [Nat.sub_zero, Nat.zero_add, zero_pxor, BitVec.zero_xor]
  rw [psum_add, lsum_add]
  have e1 : (psum n fun k => mul128 (X k) (lget v k)) =
      psum n fun r => mul128 (X r) (if r < n then lget v r else lget cv (r - n)) := by
    apply psum_congr; intro k hk; simp only [hk, if_true]
  have e2 : (psum cv.size fun k => mul128 (X (n + k)) (lget cv k)) =
      psum cv.size fun i => mul128 (X (n + i)) (if n + i < n then lget v (n + i) else lget cv (n + i - n)) := by
    apply psum_congr; intro k hk
    have : ¬ (n + k < n) := by omega
    simp only [this, if_false, Nat.add_sub_cancel_left]
  have e3 : (lsum n fun k => if bit1 k then X k else 0#128) =
      lsum n fun r => if (if r < n then bit1 r else bit2 (r - n)) then X r else 0#128 := by
    apply lsum_congr; intro k hk; simp only [hk, if_true]
  have e4 : (lsum cv.size fun k => if bit2 k then X (n + k) else 0#128) =
      lsum cv.size fun i => if (if n + i < n then bit1 (n + i) else bit2 (n + i - n)) then X (n + i) else 0#128 := by
    apply lsum_congr; intro k hk
    have : ¬ (n + k < n) := by omega
    simp only [this, if_false, Nat.add_sub_cancel_left]
  rw [e1, e2, e3, e4]


/-! ### Algebra of the consistency check -/

theorem mul128_sel (chi delta : Label) (bit : Bool) :
    mul128 (if bit then chi else 0#128) delta = mul128 chi (if bit then delta else 0#128) := by
  cases bit
  · simp [mul128_zero_left, mul128_zero_right]
  · simp

/-- If `rc_r = q_r xor bit_r*Delta xor (e_r & Delta)` for all rows then
`Σ χ_r·q_r = Σ χ_r·rc_r ⊕ (Σ bit_r χ_r)·Δ ⊕ Σ χ_r·(e_r & Δ)`. -/
theorem check_algebra (chi : Nat → Label) (delta : Label) (N : Nat) (rc q : Nat → Label) (bit : Nat → Bool)
    (e : Nat → Label)
    (h : ∀ r, r < N → rc r = q r ^^^ (if bit r then delta else 0#128) ^^^ (e r &&& delta)) :
    psum N (fun r => mul128 (chi r) (q r)) =
      pxor (pxor (psum N fun r => mul128 (chi r) (rc r)) (mul128 (lsum N fun r => if bit r then chi r else 0#128) delta))
        (psum N fun r => mul128 (chi r) (e r &&& delta)) := by
  rw [mul128_lsum_left, ← psum_pxor, ← psum_pxor]
  apply psum_congr
  intro r hr
  have hq : q r = rc r ^^^ (if bit r then delta else 0#128) ^^^ (e r &&& delta) := by
    rw [h r hr]
    generalize (if bit r then delta else 0#128) = u
    generalize e r &&& delta = v
    grind
  show mul128 (chi r) (q r) = _
  rw [hq, mul128_xor_right, mul128_xor_right, mul128_sel]

theorem pair_eq_iff (q : P) (t0 t1 : Label) : (q.1 = t0 ∧ q.2 = t1) ↔ q = (t0, t1) := by
  constructor
  · rintro ⟨h1, h2⟩; exact Prod.ext h1 h2
  · rintro rfl; exact ⟨rfl, rfl⟩

theorem getD_toArray (l : List Label) (i : Nat) : lget l.toArray i = l.getD i 0#128 := by
  simp [lget, Array.getD_eq_getD_getElem?, List.getD_eq_getElem?_getD]

theorem inStep_unique {rs : RecvSt} {ss ss' : SendSt} (h : InStep rs ss) (h' : InStep rs ss') : ss = ss' := by
  cases ss with | mk p => cases ss' with | mk p' =>
  congr 1
  funext i
  have a := (h i).1
  have b := (h' i).1
  simp only at a b
  omega

/-- `sendKos` once both `send` calls are known. -/
theorem sendKos_eq (X : Label → Nat → Label) (SS : Nat → Nat → Byte) (delta : Label) (ss : SendSt) (n : Nat)
    (msgs : List Bytes) (r1 r2 : SendSt × List Label × List Bytes) (seed2 x t0 t1 : Label) (more : List Label)
    (h1 : send SS delta ss n msgs = some r1) (h2 : send SS delta r1.1 256 r1.2.2 = some r2) :
    sendKos X SS delta ss n msgs (seed2 :: x :: t0 :: t1 :: more) =
      if pxor (chkTail (X seed2) (fun _ => false) r2.2.1.toArray
            (chkLoop (X seed2) (fun _ => false) r1.2.1.toArray r1.2.1.toArray.size (r1.2.1.toArray.size + 1) 0 {})).t
          (mul128 x delta) = (t0, t1)
      then some { st := r2.1, labels := r1.2.1, restData := r2.2.2, restLabels := more } else none := by
  unfold sendKos
  rw [h1]
  simp only
  rw [h2]
  simp only [pair_eq_iff]

/-- The master lemma: a malicious-mode call with error masks `E1` (payload
batch) and `E2` (check batch) on the transmitted chunks, an intact challenge
seed and an arbitrary response `(x', t0', t1')`. -/
theorem kos_run (X : Label → Nat → Label) (R0 R1 SS : Nat → Nat → Byte) (delta : Label)
    (hb : BaseOK R0 R1 SS delta) (rs : RecvSt) (ss : SendSt) (hs : InStep rs ss) (b : Array Bool)
    (b0 b1 seed2 : Label) (E1 E2 moreD : List Bytes)
    (h1 : Shape (receive R0 R1 rs b).2.2 E1)
    (h2 : Shape (receive R0 R1 (receive R0 R1 rs b).1 (bcvOf b0 b1)).2.2 E2) :
    ∃ ss' sent,
      InStep (receiveKos X R0 R1 rs b b0 b1 seed2).st ss' ∧ sent.length = b.size ∧
      (receiveKos X R0 R1 rs b b0 b1 seed2).labels.length = b.size ∧
      (∀ i, i < b.size →
        (receiveKos X R0 R1 rs b b0 b1 seed2).labels.getD i 0#128 =
          sent.getD i 0#128 ^^^ (if b.getD i false then delta else 0#128) ^^^ (errRow b.size E1 E2 i &&& delta)) ∧
      ∀ (x' t0' t1' : Label) (moreL : List Label),
        sendKos X SS delta ss b.size
            (xorMsgs (receive R0 R1 rs b).2.2 E1 ++
              (xorMsgs (receive R0 R1 (receive R0 R1 rs b).1 (bcvOf b0 b1)).2.2 E2 ++ moreD))
            (seed2 :: x' :: t0' :: t1' :: moreL) =
          if residual (X seed2) delta b.size E1 E2 (receiveKos X R0 R1 rs b b0 b1 seed2).x x'
              ((receiveKos X R0 R1 rs b b0 b1 seed2).t0, (receiveKos X R0 R1 rs b b0 b1 seed2).t1) (t0', t1') = pzero
          then some { st := ss', labels := sent, restData := moreD, restLabels := moreL } else none := by
  let bcv := bcvOf b0 b1
  let r1 := receive R0 R1 rs b
  let r2 := receive R0 R1 r1.1 bcv
  obtain ⟨ss1, sent, hs1, hst1, hl1, hl1', hlE1, hc1⟩ :=
    label_call_err R0 R1 SS delta hb rs ss hs b E1 (xorMsgs r2.2.2 E2 ++ moreD) h1
  obtain ⟨ss2, cvS, hs2, hst2, hl2, hl2', hlE2, hc2⟩ :=
    label_call_err R0 R1 SS delta hb r1.1 ss1 hst1 bcv E2 moreD h2
  have hbcv : bcv.size = 256 := size_bcvOf b0 b1
  rw [hbcv] at hs2 hl2 hl2' hlE2 hc2
  refine ⟨ss2, sent, hst2, hl1, hl1', ?_, ?_⟩
  · intro i hi
    have := hc1 i hi
    show r1.2.1.getD i 0#128 = _
    rw [this]
    simp only [errRow, hi, if_true]
  · intro x' t0' t1' moreL
    rw [sendKos_eq X SS delta ss b.size _ (ss1, sent, xorMsgs r2.2.2 E2 ++ moreD) (ss2, cvS, moreD) seed2 x' t0' t1' moreL
      hs1 hs2]
    simp only
    have hsz : sent.toArray.size = b.size := by simp [hl1]
    have hcvsz : cvS.toArray.size = 256 := by simp [hl2]
    rw [hsz, chk_total (X seed2) _ _ sent.toArray cvS.toArray b.size hsz]
    simp only [hcvsz]
    -- the receiver's values
    have hrsz : r1.2.1.toArray.size = b.size := by simp; exact hl1'
    have hrcvsz : r2.2.1.toArray.size = 256 := by simp; exact hl2'
    have hrecv : chkTail (X seed2) (fun j => bcv.getD j false) r2.2.1.toArray
        (chkLoop (X seed2) (fun i => b.getD i false) r1.2.1.toArray b.size (b.size + 1) 0 {}) = _ :=
      chk_total (X seed2) _ _ r1.2.1.toArray r2.2.1.toArray b.size hrsz
    have hx : (receiveKos X R0 R1 rs b b0 b1 seed2).x =
        lsum (b.size + 256) fun r => if (if r < b.size then b.getD r false else bcv.getD (r - b.size) false)
          then X seed2 r else 0#128 := by
      show (chkTail (X seed2) (fun j => bcv.getD j false) r2.2.1.toArray
        (chkLoop (X seed2) (fun i => b.getD i false) r1.2.1.toArray b.size (b.size + 1) 0 {})).x = _
      rw [hrecv, hrcvsz]
    have ht : ((receiveKos X R0 R1 rs b b0 b1 seed2).t0, (receiveKos X R0 R1 rs b b0 b1 seed2).t1) =
        psum (b.size + 256) fun r => mul128 (X seed2 r)
          (if r < b.size then lget r1.2.1.toArray r else lget r2.2.1.toArray (r - b.size)) := by
      show ((chkTail (X seed2) (fun j => bcv.getD j false) r2.2.1.toArray
        (chkLoop (X seed2) (fun i => b.getD i false) r1.2.1.toArray b.size (b.size + 1) 0 {})).t.1,
        (chkTail (X seed2) (fun j => bcv.getD j false) r2.2.1.toArray
        (chkLoop (X seed2) (fun i => b.getD i false) r1.2.1.toArray b.size (b.size + 1) 0 {})).t.2) = _
      rw [hrecv, hrcvsz]
    -- the algebra
    have halg := check_algebra (X seed2) delta (b.size + 256)
      (fun r => if r < b.size then lget r1.2.1.toArray r else lget r2.2.1.toArray (r - b.size))
      (fun r => if r < b.size then lget sent.toArray r else lget cvS.toArray (r - b.size))
      (fun r => if r < b.size then b.getD r false else bcv.getD (r - b.size) false)
      (errRow b.size E1 E2)
      (by
        intro r hr
        by_cases hlt : r < b.size
        · simp only [hlt, if_true, getD_toArray, errRow]
          exact hc1 r hlt
        · simp only [hlt, if_false, getD_toArray, errRow]
          exact hc2 (r - b.size) (by omega))
    rw [halg, ← hx, ← ht]
    unfold residual
    generalize (receiveKos X R0 R1 rs b b0 b1 seed2).x = x
    generalize ((receiveKos X R0 R1 rs b b0 b1 seed2).t0, (receiveKos X R0 R1 rs b b0 b1 seed2).t1) = t
    generalize (psum (b.size + 256) fun r => mul128 (X seed2 r) (errRow b.size E1 E2 r &&& delta)) = er
    rw [mul128_xor_left]
    have key : (pxor (pxor (pxor t (mul128 x delta)) er) (mul128 x' delta) = (t0', t1')) ↔
        (pxor (pxor er (pxor (mul128 x delta) (mul128 x' delta))) (pxor t (t0', t1')) = pzero) := by
      rw [← pxor_eq_zero_iff]
      have e : pxor (pxor (pxor (pxor t (mul128 x delta)) er) (mul128 x' delta)) (t0', t1') =
          pxor (pxor er (pxor (mul128 x delta) (mul128 x' delta))) (pxor t (t0', t1')) := by ac_rfl
      rw [e]
    by_cases hk : pxor (pxor er (pxor (mul128 x delta) (mul128 x' delta))) (pxor t (t0', t1')) = pzero
    · rw [if_pos hk, if_pos (key.mpr hk)]
    · rw [if_neg hk, if_neg (fun h => hk (key.mp h))]


/-! ### The zero error matrix (honest transmission) -/

/-- Error masks that alter nothing. -/
def zeroLike (msgs : List Bytes) : List Bytes := msgs.map fun u => mk u.size fun _ => 0#8

theorem shape_zeroLike (msgs : List Bytes) : Shape msgs (zeroLike msgs) := by
  induction msgs with
  | nil => trivial
  | cons u us ih => exact ⟨by simp, ih⟩

theorem bget_zero (n k : Nat) : bget (mk n fun _ => 0#8) k = 0#8 := by
  by_cases h : k < n
  · rw [bget_mk _ _ _ h]
  · simp [bget, mk, Array.getD, h]

theorem xorBytes_zero (u : Bytes) : xorBytes u (mk u.size fun _ => 0#8) = u := by
  apply Array.ext
  · simp
  · intro i h1 h2
    have hb : bget (xorBytes u (mk u.size fun _ => 0#8)) i = bget u i := by
      rw [bget_xorBytes _ _ _ h2, bget_zero]; simp
    simpa [bget, Array.getD, h1, h2] using hb

theorem xorMsgs_zeroLike (msgs : List Bytes) : xorMsgs msgs (zeroLike msgs) = msgs := by
  induction msgs with
  | nil => rfl
  | cons u us ih =>
    simp only [xorMsgs, zeroLike, List.map_cons, List.zipWith_cons_cons, xorBytes_zero]
    congr 1

theorem labelOfBits_false : labelOfBits (fun _ => false) = 0#128 := by
  apply label_ext
  intro j hj
  rw [labelBit_labelOfBits _ _ hj, labelBit_zero]

theorem createLabels_zero (len w idx : Nat) (e : Bytes) (he : ∀ k, bget e k = 0#8) :
    (createLabels len e w).getD idx 0#128 = 0#128 := by
  by_cases h : idx < min (w * 8) len
  · rw [getD_createLabels _ _ _ _ h]
    simp only [he, BitVec.getLsbD_zero]
    exact labelOfBits_false
  · have hl : (createLabels len e w).length ≤ idx := by rw [length_createLabels]; omega
    simp [List.getD_eq_getElem?_getD, List.getElem?_eq_none hl]

theorem rowsLoop_zero (n : Nat) : ∀ (fuel ofs : Nat) (Z : List Bytes), (∀ e, e ∈ Z → ∀ k, bget e k = 0#8) →
    ∀ i, (rowsLoop n fuel ofs Z).getD i 0#128 = 0#128 := by
  intro fuel
  induction fuel with
  | zero => intro ofs Z _ i; simp [rowsLoop]
  | succ f ih =>
    intro ofs Z hZ i
    unfold rowsLoop
    by_cases h : ofs < n
    · simp only [h, if_true]
      cases Z with
      | nil => simp
      | cons e es =>
        simp only
        by_cases hi : i < (createLabels (n - ofs) e (e.size / K)).length
        · rw [getD_append_left _ _ _ _ hi]
          exact createLabels_zero _ _ _ _ (hZ e (List.mem_cons_self ..))
        · rw [getD_append_right _ _ _ _ (Nat.le_of_not_lt hi)]
          exact ih _ _ (fun e' he' => hZ e' (List.mem_cons_of_mem _ he')) _
    · simp [h]

theorem zeroLike_zero (msgs : List Bytes) : ∀ e, e ∈ zeroLike msgs → ∀ k, bget e k = 0#8 := by
  intro e he k
  simp only [zeroLike, List.mem_map] at he
  obtain ⟨u, _, rfl⟩ := he
  exact bget_zero _ _

theorem errRow_zeroLike (n : Nat) (m1 m2 : List Bytes) (r : Nat) : errRow n (zeroLike m1) (zeroLike m2) r = 0#128 := by
  unfold errRow rowsOf
  split
  · exact rowsLoop_zero _ _ _ _ (zeroLike_zero m1) _
  · exact rowsLoop_zero _ _ _ _ (zeroLike_zero m2) _

/-- With no effective error and the honest response the residual vanishes. -/
theorem residual_zero (chi : Nat → Label) (delta : Label) (n : Nat) (E1 E2 : List Bytes) (x : Label) (t : P)
    (h : ∀ r, r < n + 256 → errRow n E1 E2 r &&& delta = 0#128) : residual chi delta n E1 E2 x x t t = pzero := by
  unfold residual
  rw [psum_zero _ _ (fun r hr => by rw [h r hr, mul128_zero_right])]
  simp [mul128_zero_left]

/-- With the honest response the residual is the error sum. -/
theorem residual_intact (chi : Nat → Label) (delta : Label) (n : Nat) (E1 E2 : List Bytes) (x : Label) (t : P) :
    residual chi delta n E1 E2 x x t t = psum (n + 256) fun r => mul128 (chi r) (errRow n E1 E2 r &&& delta) := by
  unfold residual
  simp [mul128_zero_left]

/-- With an intact matrix the residual is `(x ⊕ x')·Δ ⊕ (t ⊕ t')`. -/
theorem residual_matrix_intact (chi : Nat → Label) (delta : Label) (n : Nat) (E1 E2 : List Bytes) (x x' : Label) (t t' : P)
    (h : ∀ r, r < n + 256 → errRow n E1 E2 r &&& delta = 0#128) :
    residual chi delta n E1 E2 x x' t t' = pxor (mul128 (x ^^^ x') delta) (pxor t t') := by
  unfold residual
  rw [psum_zero _ _ (fun r hr => by rw [h r hr, mul128_zero_right])]
  simp

theorem list_ext_getD (l l' : List Label) (hl : l.length = l'.length)
    (h : ∀ i, i < l.length → l.getD i 0#128 = l'.getD i 0#128) : l = l' := by
  apply List.ext_getElem hl
  intro i h1 h2
  have := h i h1
  simpa [List.getD_eq_getElem?_getD, h1, h2] using this


theorem xor_cancel_right (p q u : Label) (h : p ^^^ u = q ^^^ u) : p = q := by
  have := congrArg (· ^^^ u) h
  simpa [BitVec.xor_assoc] using this

theorem xor_err_zero (u e : Label) (h : u = u ^^^ e) : e = 0#128 := by
  have := congrArg (u ^^^ ·) h
  simp only [← BitVec.xor_assoc, BitVec.xor_self, BitVec.zero_xor] at this
  exact this.symm

end Mpc.Kos

/-
Calls, argument lists, result lists: what `lowerArgs` / `bindArgs` /
`lowerCall` / `lowerRet` / `assignVal` / `defineAllVals` / `assignAllVals`
(Model/MpclLower.lean) guarantee against the reference interpreter, given the
guarantees of the smaller fuel (used by Proofs/MpclSsaStmt.lean in the
induction on the fuel).
-/
import MpcVerif.Proofs.MpclSsaTree

namespace Mpc.Mpcl.Ssa
open Mpc.Mpcl

/-- The values a `return` delivers vs the values `ws` at the leaf of the return
tree: the same list, or - `return f(..)` with a call of several results - the
one aggregate the interpreter's call delivered (unpacked by `packResults`). -/
def RetVals (vals ws : List Val) : Prop := vals = ws ∨ (vals = [.agg ws] ∧ ws.length ≠ 1)

/-- The interpreter's outcome of a block vs the lowered block at the store
`st'` reached by its code. -/
def OutRel (st' : Nat → Nat) (r : LRes) : Outcome → Prop
  | .normal env' => r.tree.eval st' = none ∧ ∃ n', r.nms = some n' ∧ Rel st' n' env'
  | .returned vals => ∃ lv, r.tree.eval st' = some lv ∧ RetVals vals (lv.map fun p => p.2.decode p.1)

/-- What lowering a block guarantees when its code runs from `st` to `st'`. -/
def Post (next : Nat) (r : LRes) (st st' : Nat → Nat) (exec : Nat → Option Outcome) : Prop :=
  next ≤ r.next ∧ Frame next st st' ∧ NoRet r.code ∧ r.tree.Below r.next ∧ TreeBd st' r.tree ∧
  (∀ n', r.nms = some n' → Below r.next n' ∧ ∃ env', Rel st' n' env') ∧
  ∃ fi o, exec fi = some o ∧ OutRel st' r o

def SSound (P : Prog) (f : Nat) : Prop :=
  ∀ (s : Stmt) (nm : NEnv) (next : Nat) (r : LRes) (env : Env) (st st' : Nat → Nat),
    lowerS P f nm next s = some r → Rel st nm env → Below next nm → ssaSteps r.code st = some st' →
    Post next r st st' (fun fi => execS P fi s env)

def BSound (P : Prog) (f : Nat) : Prop :=
  ∀ (ss : List Stmt) (nm : NEnv) (next : Nat) (r : LRes) (env : Env) (st st' : Nat → Nat),
    lowerB P f nm next ss = some r → Rel st nm env → Below next nm → ssaSteps r.code st = some st' →
    Post next r st st' (fun fi => execB P fi ss env)

def FSound (P : Prog) (f : Nat) : Prop :=
  ∀ (i : String) (cur : Int) (c : Cmp) (hi stp : Int) (body : List Stmt) (nm : NEnv) (next : Nat) (r : LRes)
    (env : Env) (st st' : Nat → Nat),
    lowerFor P f i cur c hi stp body nm next = some r → Rel st nm env → Below next nm →
    ssaSteps r.code st = some st' →
    Post next r st st' (fun fi => execFor P fi i cur c hi stp body env)

/-- Operands (with their types) vs the interpreter's values. -/
def ArgsRel (st : Nat → Nat) : List (SArg × Ty) → List Val → Prop
  | [], [] => True
  | (aa, t) :: r, v :: vs => (∃ a wa, argVal st aa = (a, wa) ∧ a < 2 ^ t.bits ∧ v = t.decode a) ∧ ArgsRel st r vs
  | _, _ => False

theorem ArgsRel.frame {k : Nat} {st st' : Nat → Nat} : ∀ {avs : List (SArg × Ty)} {vals : List Val},
    ArgsRel st avs vals → (∀ p ∈ avs, ArgBelow k p.1) → Frame k st st' → ArgsRel st' avs vals
  | [], [], _, _, _ => trivial
  | [], _ :: _, h, _, _ => h.elim
  | (_, _) :: _, [], h, _, _ => h.elim
  | (aa, t) :: r, v :: vs, h, hb, hf => by
    obtain ⟨⟨a, wa, h1, h2, h3⟩, h4⟩ := h
    exact ⟨⟨a, wa, by rw [argVal_frame (hb (aa, t) (by simp)) hf]; exact h1, h2, h3⟩,
      ArgsRel.frame h4 (fun p hp => hb p (List.mem_cons_of_mem _ hp)) hf⟩

def ArgsSound (P : Prog) (f : Nat) : Prop :=
  ∀ (es : List Expr) (nm : NEnv) (next : Nat) (avs : List (SArg × Ty)) (code : List SInstr) (next' : Nat)
    (env : Env) (st st' : Nat → Nat),
    lowerArgs P f nm es next = some (avs, code, next') → Rel st nm env → Below next nm →
    ssaSteps code st = some st' →
    ∃ fi vals, es.mapM (fun e => evalE P fi e env) = some vals ∧ ArgsRel st' avs vals ∧
      Frame next st st' ∧ next ≤ next' ∧ NoRet code ∧ (∀ p ∈ avs, ArgBelow next' p.1)

/-- The values a list of result ids denotes. -/
def resVals (st : Nat → Nat) (rs : List (Nat × Ty)) : List Val := rs.map fun p => p.2.decode (st p.1)

def CallSound (P : Prog) (f : Nat) : Prop :=
  ∀ (nm : NEnv) (g : Nat) (args : List Expr) (next : Nat) (rs : List (Nat × Ty)) (code : List SInstr)
    (next' : Nat) (env : Env) (st st' : Nat → Nat),
    lowerCall P f nm g args next = some (rs, code, next') → Rel st nm env → Below next nm →
    ssaSteps code st = some st' →
    ∃ fi, evalE P fi (.call g args) env = packResults rs.length (resVals st' rs) ∧
      (∀ p ∈ rs, st' p.1 < 2 ^ p.2.bits) ∧ (∀ p ∈ rs, p.1 < next') ∧
      Frame next st st' ∧ next ≤ next' ∧ NoRet code

def RetSound (P : Prog) (f : Nat) : Prop :=
  ∀ (es : List Expr) (nm : NEnv) (next : Nat) (rs : List (Nat × Ty)) (code : List SInstr) (next' : Nat)
    (env : Env) (st st' : Nat → Nat),
    lowerRet P f nm es next = some (rs, code, next') → Rel st nm env → Below next nm →
    ssaSteps code st = some st' →
    ∃ fi, es.mapM (fun e => evalE P fi e env) = some (resVals st' rs) ∧
      Frame next st st' ∧ next ≤ next' ∧ NoRet code ∧ (∀ p ∈ rs, p.1 < next') ∧ (∀ p ∈ rs, st' p.1 < 2 ^ p.2.bits)

theorem packResults_one (r : Val) : packResults 1 [r] = some r := by simp [packResults]

theorem packResults_many (vals : List Val) (k : Nat) (hk : vals.length = k) (h : k ≠ 1) :
    packResults k vals = some (.agg vals) := by
  subst hk
  match vals, h with
  | [], _ => simp [packResults]
  | [_], h => simp at h
  | _ :: _ :: _, _ => simp [packResults]

theorem packResults_retVals {vals ws : List Val} {k : Nat} (h : RetVals vals ws) (hk : ws.length = k) :
    packResults k vals = packResults k ws := by
  rcases h with e | ⟨e, hne⟩
  · rw [e]
  · subst e
    subst hk
    rw [packResults_many ws _ rfl hne]
    match ws, hne with
    | [], _ => simp [packResults]
    | [_], hne => simp at hne
    | _ :: _ :: _, _ => simp [packResults]

theorem resVals_length (st : Nat → Nat) (rs : List (Nat × Ty)) : (resVals st rs).length = rs.length := by
  simp [resVals]

theorem leaf_resVals (st : Nat → Nat) (rs : List (Nat × Ty)) :
    ((rs.map fun p => (st p.1, p.2)).map fun p => p.2.decode p.1) = resVals st rs := by
  simp [resVals, List.map_map, Function.comp]

theorem resVals_frame {k : Nat} {st st' : Nat → Nat} (hf : Frame k st st') :
    ∀ (rs : List (Nat × Ty)), (∀ p ∈ rs, p.1 < k) → resVals st' rs = resVals st rs
  | [], _ => rfl
  | p :: r, h => by
    simp only [resVals, List.map_cons]
    rw [hf p.1 (h p (by simp))]
    congr 1
    exact resVals_frame hf r (fun q hq => h q (List.mem_cons_of_mem _ hq))

theorem mov_step {a : SArg} {id w v wa : Nat} {st st' : Nat → Nat} (h : ssaSteps [movI a id w] st = some st')
    (ha : argVal st a = (v, wa)) (hv : v < 2 ^ w) : st' = fun j => if j = id then v else st j := by
  obtain ⟨r, hev, hst⟩ := ssaSteps_one h
  simp only [List.map_cons, List.map_nil, ha, evalOp, Option.some.injEq] at hev
  rw [Nat.mod_eq_of_lt hv] at hev
  subst hev
  exact hst

theorem ssaSteps_cons_split {i : SInstr} {c : List SInstr} {st st' : Nat → Nat} (h : ssaSteps (i :: c) st = some st') :
    ∃ st1, ssaSteps [i] st = some st1 ∧ ssaSteps c st1 = some st' :=
  ssaSteps_split (c1 := [i]) (c2 := c) h

theorem NoRet_cons {i : SInstr} {c : List SInstr} (hi : i.op ≠ .ret) (hc : NoRet c) : NoRet (i :: c) :=
  NoRet_append (a := [i]) (NoRet_one hi) hc

theorem bindRel_val {st : Nat → Nat} {id a : Nat} {t : Ty} (hs : st id = a) (ha : a < 2 ^ t.bits) :
    BindRel st (.val id t) (t.decode a) := ⟨by rw [hs]; exact ha, by rw [hs]⟩

/-! ### Argument lists -/

theorem args_succ (P : Prog) (f : Nat) (ihE : ESound P f) (ihA : ArgsSound P f) : ArgsSound P (f + 1) := by
  intro es nm next avs code next' env st st' h hrel hbel hrun
  cases es with
  | nil =>
    simp only [lowerArgs, Option.some.injEq, Prod.mk.injEq] at h
    obtain ⟨h1, h2, h3⟩ := h
    subst h1; subst h2; subst h3
    simp only [ssaSteps, Option.some.injEq] at hrun; subst hrun
    exact ⟨0, [], by simp, trivial, Frame.refl _ _, Nat.le_refl _, NoRet_nil, fun p hp => by cases hp⟩
  | cons e es =>
    simp only [lowerArgs] at h
    cases hl : lowerE P f nm e next with
    | none => simp [hl] at h
    | some q =>
      obtain ⟨aa, t, ce, n1⟩ := q
      simp only [hl] at h
      split at h
      · cases h
      · rename_i hnc
        cases hr : lowerArgs P f nm es n1 with
        | none => simp [hr] at h
        | some q2 =>
          obtain ⟨as, cs, n2⟩ := q2
          simp only [hr, Option.some.injEq, Prod.mk.injEq] at h
          obtain ⟨h1, h2, h3⟩ := h
          subst h1; subst h2; subst h3
          obtain ⟨st1, hrun1, hrun2⟩ := ssaSteps_split hrun
          obtain ⟨wa, a, f1, harg, hlt, hle, hor, _, he, hfr1, hn1, hnr1, hab⟩ :=
            ihE e nm next aa t ce n1 env st st1 hl hrel hbel hrun1
          have hwa : wa = t.bits := by
            rcases hor with e1 | e1
            · exact e1
            · simp [e1] at hnc
          subst hwa
          obtain ⟨f2, vals, hm, hrelA, hfr2, hn2, hnr2, hab2⟩ :=
            ihA es nm n1 as cs n2 env st1 st' hr (hrel.frame hbel hfr1) (hbel.mono hn1) hrun2
          refine ⟨max f1 f2, t.decode a :: vals, ?_, ?_, hfr1.trans hfr2 hn1, by omega, NoRet_append hnr1 hnr2, ?_⟩
          · have e1 := evalE_mono P (Nat.le_max_left f1 f2) e env _ he
            have e2 := mapM_mono (fun e => evalE P f2 e env) (fun e => evalE P (max f1 f2) e env)
              (fun x v hv => evalE_mono P (Nat.le_max_right f1 f2) x env v hv) es vals hm
            simp [List.mapM_cons, e1, e2]
          · exact ⟨⟨a, _, by rw [argVal_frame hab hfr2]; exact harg, hlt, rfl⟩, hrelA⟩
          · intro p hp
            rcases List.mem_cons.1 hp with e1 | e1
            · subst e1; exact hab.mono hn2
            · exact hab2 p e1

/-- Call.SSA "Define arguments": the movs bind the parameters. -/
theorem bindArgs_sound : ∀ (ps : List (String × Ty)) (avs : List (SArg × Ty)) (next : Nat) (sc : NScope)
    (code : List SInstr) (next' : Nat) (vals : List Val) (st st' : Nat → Nat),
    bindArgs ps avs next = some (sc, code, next') → ArgsRel st avs vals → (∀ p ∈ avs, ArgBelow next p.1) →
    ssaSteps code st = some st' →
    ∃ scv, bindParams ps vals = some scv ∧ vals.length = ps.length ∧ ScopeRel st' sc scv ∧ BelowS next' sc ∧
      Frame next st st' ∧ next ≤ next' ∧ NoRet code
  | [], [], next, sc, code, next', vals, st, st', h, hrel, _, hrun => by
    simp only [bindArgs, Option.some.injEq, Prod.mk.injEq] at h
    obtain ⟨h1, h2, h3⟩ := h
    subst h1; subst h2; subst h3
    simp only [ssaSteps, Option.some.injEq] at hrun; subst hrun
    cases vals with
    | nil => exact ⟨[], rfl, rfl, trivial, BelowS_nil _, Frame.refl _ _, Nat.le_refl _, NoRet_nil⟩
    | cons _ _ => exact hrel.elim
  | [], _ :: _, _, _, _, _, _, _, _, h, _, _, _ => by simp [bindArgs] at h
  | _ :: _, [], _, _, _, _, _, _, _, h, _, _, _ => by simp [bindArgs] at h
  | (x, t) :: ps, (aa, ta) :: as, next, sc, code, next', vals, st, st', h, hrel, hbel, hrun => by
    simp only [bindArgs] at h
    split at h
    · rename_i hte
      have := tyEq_eq hte; subst this
      cases hr : bindArgs ps as (next + 1) with
      | none => simp [hr] at h
      | some q =>
        obtain ⟨sc2, c2, n2⟩ := q
        simp only [hr, Option.some.injEq, Prod.mk.injEq] at h
        obtain ⟨h1, h2, h3⟩ := h
        subst h1; subst h2; subst h3
        cases vals with
        | nil => exact hrel.elim
        | cons v vs =>
          obtain ⟨⟨a, wa, harg, hlt, hv⟩, hrest⟩ := hrel
          obtain ⟨st1, hrun1, hrun2⟩ := ssaSteps_cons_split hrun
          have hst1 := mov_step hrun1 harg hlt
          have hfr1 : Frame next st st1 := by rw [hst1]; exact Frame_set (Nat.le_refl _)
          have hbel' : ∀ p ∈ as, ArgBelow next p.1 := fun p hp => hbel p (List.mem_cons_of_mem _ hp)
          obtain ⟨scv, hb, hlen, hsr, hbs, hfr2, hn2, hnr2⟩ :=
            bindArgs_sound ps as (next + 1) sc2 c2 n2 vs st1 st' hr (hrest.frame hbel' hfr1)
              (fun p hp => (hbel' p hp).mono (Nat.le_succ _)) hrun2
          have hs : st' next = a := by rw [hfr2 next (by omega), hst1]; simp
          subst hv
          refine ⟨(x, t.decode a) :: scv, ?_, by simp [hlen], ⟨rfl, bindRel_val hs hlt, hsr⟩,
            BelowS.cons (by simp only [BelowB]; omega) hbs, hfr1.trans hfr2 (by omega), by omega,
            NoRet_cons (by simp [movI]) hnr2⟩
          simp [bindParams, hasTy_decode_gen, hb]
    · cases h

/-! ### Calls -/

theorem call_succ (P : Prog) (f : Nat) (ihA : ArgsSound P f) (ihB : BSound P f) : CallSound P (f + 1) := by
  intro nm g args next rs code next' env st st' h hrel hbel hrun
  simp only [lowerCall] at h
  cases hg : P[g]? with
  | none => simp [hg] at h
  | some fn =>
    simp only [hg] at h
    cases hla : lowerArgs P f nm args next with
    | none => simp [hla] at h
    | some q1 =>
      obtain ⟨avs, ca, n1⟩ := q1
      simp only [hla] at h
      cases hba : bindArgs fn.params avs n1 with
      | none => simp [hba] at h
      | some q2 =>
        obtain ⟨sc, cb, n2⟩ := q2
        simp only [hba] at h
        cases hlb : lowerB P f [sc] n2 fn.body with
        | none => simp [hlb] at h
        | some r =>
          simp only [hlb] at h
          cases hm : r.tree.mat r.next with
          | none => simp [hm] at h
          | some q3 =>
            obtain ⟨rs0, cm, n3⟩ := q3
            simp only [hm] at h
            split at h
            · rename_i hlen
              simp only [Option.some.injEq, Prod.mk.injEq] at h
              obtain ⟨h1, h2, h3⟩ := h
              subst h1; subst h2; subst h3
              obtain ⟨st3, hrun123, hrun4⟩ := ssaSteps_split hrun
              obtain ⟨st2, hrun12, hrun3⟩ := ssaSteps_split hrun123
              obtain ⟨st1, hrun1, hrun2⟩ := ssaSteps_split hrun12
              obtain ⟨fa, vals, hmap, hrelA, hfr1, hn1, hnr1, habA⟩ :=
                ihA args nm next avs ca n1 env st st1 hla hrel hbel hrun1
              obtain ⟨scv, hbp, hvl, hsr, hbs, hfr2, hn2, hnr2⟩ :=
                bindArgs_sound fn.params avs n1 sc cb n2 vals st1 st2 hba hrelA habA hrun2
              have hrel2 : Rel st2 [sc] [scv] := ⟨hsr, trivial⟩
              have hbel2 : Below n2 [sc] := Below.cons hbs (fun _ h => by cases h)
              obtain ⟨hn3, hfr3, hnr3, htb, htbd, _, fb, o, hex, horel⟩ :=
                ihB fn.body [sc] n2 r [scv] st2 st3 hlb hrel2 hbel2 hrun3
              obtain ⟨hn4, hnr4, hrsb, st4, lv, hs4, hfr4, hev, hmap4, hbd4⟩ :=
                mat_sound r.tree r.next rs0 cm n3 st3 hm htb htbd
              have hst4 : st4 = st' := Option.some.inj (hs4.symm.trans hrun4)
              subst hst4
              cases o with
              | normal env' =>
                obtain ⟨hnone, _⟩ := horel
                rw [hnone] at hev; cases hev
              | returned rvals =>
                obtain ⟨lv', hev', hrv⟩ := horel
                rw [hev'] at hev
                have : lv' = lv := Option.some.inj hev
                subst this
                have hrvals : RetVals rvals (resVals st4 rs0) := by
                  have e : resVals st4 rs0 = lv'.map fun p => p.2.decode p.1 := by
                    rw [← hmap4]; simp [resVals, List.map_map, Function.comp]
                  rw [e]; exact hrv
                refine ⟨max fa fb + 1, ?_, hbd4, hrsb,
                  ((hfr1.trans hfr2 hn1).trans hfr3 (by omega)).trans hfr4 (by omega), by omega,
                  NoRet_append (NoRet_append (NoRet_append hnr1 hnr2) hnr3) hnr4⟩
                have e2 := mapM_mono (fun e => evalE P fa e env) (fun e => evalE P (max fa fb) e env)
                  (fun x v hv => evalE_mono P (Nat.le_max_left fa fb) x env v hv) args vals hmap
                have e3 := execB_mono P (Nat.le_max_right fa fb) _ _ _ hex
                simp only [evalE, hg, e2, hvl, if_true, hbp, e3, hlen]
                exact packResults_retVals hrvals (by rw [resVals_length, hlen])
            · cases h

/-- `f(..)` with one result as an expression. -/
theorem call_case (P : Prog) (f : Nat) (ihC : CallSound P f) (g : Nat) (args : List Expr) :
    ESoundAt P (f + 1) (.call g args) := by
  intro nm next aa t code next' env st st' h hrel hbel hrun
  simp only [lowerE] at h
  cases hc : lowerCall P f nm g args next with
  | none => simp [hc] at h
  | some q =>
    obtain ⟨rs, cc, n1⟩ := q
    simp only [hc] at h
    match rs, hc, h with
    | [(id, t0)], hc, h =>
      simp only [Option.some.injEq, Prod.mk.injEq] at h
      obtain ⟨h1, h2, h3, h4⟩ := h
      subst h1; subst h2; subst h3; subst h4
      obtain ⟨fi, hev, hbd, hrsb, hfr, hn, hnr⟩ := ihC nm g args next _ _ _ env st st' hc hrel hbel hrun
      refine ⟨t0.bits, st' id, fi, by simp [argVal, SStore.get], hbd (id, t0) (by simp), Nat.le_refl _,
        Or.inl rfl, ?_, ?_, hfr, hn, hnr, hrsb (id, t0) (by simp)⟩
      · intro hc'; simp [SArg.isConst] at hc'
      · rw [hev]; simp [packResults_one, resVals]
    | [], _, h => simp at h
    | _ :: _ :: _, _, h => simp at h

/-! ### Result lists -/

theorem ret_succ (P : Prog) (f : Nat) (ihE : ESound P f) (ihR : RetSound P f) : RetSound P (f + 1) := by
  intro es nm next rs code next' env st st' h hrel hbel hrun
  cases es with
  | nil =>
    simp only [lowerRet, Option.some.injEq, Prod.mk.injEq] at h
    obtain ⟨h1, h2, h3⟩ := h
    subst h1; subst h2; subst h3
    simp only [ssaSteps, Option.some.injEq] at hrun; subst hrun
    exact ⟨0, by simp [resVals], Frame.refl _ _, Nat.le_refl _, NoRet_nil,
      (fun p hp => by cases hp), (fun p hp => by cases hp)⟩
  | cons e es =>
    simp only [lowerRet] at h
    cases hl : lowerE P f nm e next with
    | none => simp [hl] at h
    | some q =>
      obtain ⟨aa, t, ce, n1⟩ := q
      simp only [hl] at h
      cases hr : lowerRet P f nm es (n1 + 1) with
      | none => simp [hr] at h
      | some q2 =>
        obtain ⟨rs2, cs, n2⟩ := q2
        simp only [hr, Option.some.injEq, Prod.mk.injEq] at h
        obtain ⟨h1, h2, h3⟩ := h
        subst h1; subst h2; subst h3
        obtain ⟨stm, hrun12, hrun3⟩ := ssaSteps_split hrun
        obtain ⟨st1, hrun1, hrun2⟩ := ssaSteps_split hrun12
        obtain ⟨wa, a, f1, harg, hlt, hle, _, _, he, hfr1, hn1, hnr1, _⟩ :=
          ihE e nm next aa t ce n1 env st st1 hl hrel hbel hrun1
        have haw : a < 2 ^ t.bits := Nat.lt_of_lt_of_le hlt (pow_le_of_le hle)
        have hstm := mov_step hrun2 harg haw
        have hfrm : Frame n1 st1 stm := by rw [hstm]; exact Frame_set (Nat.le_refl _)
        have hfr01 : Frame next st stm := hfr1.trans hfrm hn1
        obtain ⟨f2, hm, hfr2, hn2, hnr2, hrs2, hbd2⟩ :=
          ihR es nm (n1 + 1) rs2 cs n2 env stm st' hr (hrel.frame hbel hfr01) (hbel.mono (by omega)) hrun3
        have hst'n1 : st' n1 = a := by rw [hfr2 n1 (by omega), hstm]; simp
        refine ⟨max f1 f2, ?_, hfr01.trans hfr2 (by omega), by omega, ?_, ?_, ?_⟩
        · have e1 := evalE_mono P (Nat.le_max_left f1 f2) e env _ he
          have e2 := mapM_mono (fun e => evalE P f2 e env) (fun e => evalE P (max f1 f2) e env)
            (fun x v hv => evalE_mono P (Nat.le_max_right f1 f2) x env v hv) es _ hm
          simp [List.mapM_cons, e1, e2, resVals, hst'n1]
        · exact NoRet_append (NoRet_append hnr1 (NoRet_one (by simp [movI]))) hnr2
        · intro p hp
          rcases List.mem_cons.1 hp with e1 | e1
          · subst e1; simp only; omega
          · exact hrs2 p e1
        · intro p hp
          rcases List.mem_cons.1 hp with e1 | e1
          · subst e1; simp only; rw [hst'n1]; exact haw
          · exact hbd2 p e1

/-- `return f(..)`: the results of the call moved into the result variables. -/
theorem retMovs_sound : ∀ (rs : List (Nat × Ty)) (next : Nat) (st st' : Nat → Nat),
    (∀ p ∈ rs, st p.1 < 2 ^ p.2.bits) → (∀ p ∈ rs, p.1 < next) → ssaSteps (retMovs rs next).2.1 st = some st' →
    resVals st' (retMovs rs next).1 = resVals st rs ∧ (retMovs rs next).1.length = rs.length ∧
      (∀ p ∈ (retMovs rs next).1, p.1 < (retMovs rs next).2.2) ∧
      (∀ p ∈ (retMovs rs next).1, next ≤ p.1) ∧
      (∀ p ∈ (retMovs rs next).1, st' p.1 < 2 ^ p.2.bits) ∧ Frame next st st' ∧ next ≤ (retMovs rs next).2.2 ∧
      NoRet (retMovs rs next).2.1
  | [], next, st, st', _, _, hrun => by
    simp only [retMovs, ssaSteps, Option.some.injEq] at hrun; subst hrun
    exact ⟨rfl, rfl, (fun p hp => by cases hp), (fun p hp => by cases hp), (fun p hp => by cases hp),
      Frame.refl _ _, Nat.le_refl _, NoRet_nil⟩
  | (id, t) :: rs, next, st, st', hbd, hrsb, hrun => by
    simp only [retMovs] at hrun ⊢
    obtain ⟨st1, hrun1, hrun2⟩ := ssaSteps_cons_split hrun
    have harg : argVal st (.var id t.bits) = (st id, t.bits) := by simp [argVal, SStore.get]
    have hlt := hbd (id, t) (by simp)
    have hst1 := mov_step hrun1 harg hlt
    have hfr1 : Frame next st st1 := by rw [hst1]; exact Frame_set (Nat.le_refl _)
    have hbd' : ∀ p ∈ rs, st1 p.1 < 2 ^ p.2.bits := fun p hp => by
      rw [hfr1 p.1 (hrsb p (List.mem_cons_of_mem _ hp))]; exact hbd p (List.mem_cons_of_mem _ hp)
    obtain ⟨hrv, hlen, hub, hlb, hbd2, hfr2, hn2, hnr2⟩ :=
      retMovs_sound rs (next + 1) st1 st' hbd'
        (fun p hp => by have := hrsb p (List.mem_cons_of_mem _ hp); omega) hrun2
    have hs : st' next = st id := by rw [hfr2 next (by omega), hst1]; simp
    have hrv1 : resVals st1 rs = resVals st rs :=
      resVals_frame hfr1 rs (fun p hp => hrsb p (List.mem_cons_of_mem _ hp))
    refine ⟨?_, by simp [hlen], ?_, ?_, ?_, hfr1.trans hfr2 (by omega), by omega, NoRet_cons (by simp [movI]) hnr2⟩
    · simp only [resVals, List.map_cons, hs]
      congr 1
      have := hrv
      simp only [resVals] at this hrv1
      rw [this, hrv1]
    · intro p hp
      rcases List.mem_cons.1 hp with e | e
      · subst e; simp only; omega
      · exact hub p e
    · intro p hp
      rcases List.mem_cons.1 hp with e | e
      · subst e; exact Nat.le_refl _
      · have := hlb p e; omega
    · intro p hp
      rcases List.mem_cons.1 hp with e | e
      · subst e; simp only; rw [hs]; exact hlt
      · exact hbd2 p e

theorem retCallOf_some {es : List Expr} {g : Nat} {args : List Expr} (h : retCallOf es = some (g, args)) :
    es = [.call g args] := by
  match es, h with
  | [.call g' args'], h =>
    simp only [retCallOf, Option.some.injEq, Prod.mk.injEq] at h
    obtain ⟨e1, e2⟩ := h; subst e1; subst e2; rfl
  | [], h => simp [retCallOf] at h
  | [.lit _ _], h => simp [retCallOf] at h
  | [.var _], h => simp [retCallOf] at h
  | [.bin _ _ _], h => simp [retCallOf] at h
  | [.shift _ _ _], h => simp [retCallOf] at h
  | [.not _], h => simp [retCallOf] at h
  | [.neg _], h => simp [retCallOf] at h
  | [.cast _ _], h => simp [retCallOf] at h
  | [.idx _ _], h => simp [retCallOf] at h
  | [.fld _ _], h => simp [retCallOf] at h
  | _ :: _ :: _, h => simp [retCallOf] at h

/-! ### Storing values -/

/-- The store instructions put the new pattern of the root into the new version. -/
theorem storeCode_sound {path : List Acc} {va : SArg} {id off w bits next a wa : Nat} {st st' : Nat → Nat}
    (hrun : ssaSteps (storeCode path va (.var id bits) off w bits next).1 st = some st')
    (harg : argVal st va = (a, wa)) (_hid : id < next) (hx : st id < 2 ^ bits) (hin : off + w ≤ bits)
    (hpath : path = [] → off = 0 ∧ w = bits ∧ a < 2 ^ bits) :
    ∃ r, st' (storeCode path va (.var id bits) off w bits next).2 = r ∧ Frame next st st' ∧ r < 2 ^ bits ∧
      (r = amovv a (st id) off w ∨ (path = [] ∧ r = a)) ∧
      next ≤ (storeCode path va (.var id bits) off w bits next).2 ∧
      NoRet (storeCode path va (.var id bits) off w bits next).1 := by
  cases path with
  | nil =>
    obtain ⟨_, _, halt⟩ := hpath rfl
    simp only [storeCode] at hrun ⊢
    have hst' := mov_step hrun harg halt
    refine ⟨a, by rw [hst']; simp, by rw [hst']; exact Frame_set (Nat.le_refl _), halt, Or.inr (by simp),
      Nat.le_refl _, NoRet_one (by simp [movI])⟩
  | cons ac p =>
    cases ac with
    | fld k =>
      simp only [storeCode] at hrun ⊢
      have hst' := amov_step hrun harg rfl hx hin
      refine ⟨_, by rw [hst']; simp, by rw [hst']; exact Frame_set (Nat.le_refl _), amovv_lt hx hin, Or.inl rfl,
        Nat.le_refl _, NoRet_one (by simp)⟩
    | idx ie =>
      simp only [storeCode] at hrun ⊢
      obtain ⟨st1, hrun1, hrun2⟩ := ssaSteps_cons_split hrun
      have hst1 := amov_step hrun1 harg rfl hx hin
      have hlt := amovv_lt (v := a) hx hin
      have harg2 : argVal st1 (.var next bits) = (amovv a (st id) off w, bits) := by
        rw [hst1]; simp [argVal, SStore.get]
      have hst' := mov_step hrun2 harg2 hlt
      have hfr1 : Frame next st st1 := by rw [hst1]; exact Frame_set (Nat.le_refl _)
      have hfr2 : Frame (next + 1) st1 st' := by rw [hst']; exact Frame_set (Nat.le_refl _)
      refine ⟨_, by rw [hst']; simp, hfr1.trans hfr2 (Nat.le_succ _), hlt, Or.inl rfl, Nat.le_succ _,
        NoRet_cons (by simp) (NoRet_one (by simp [movI]))⟩

/-- One l-value receives the value of the operand `va`. -/
theorem assignVal_sound (P : Prog) {nm nm' : NEnv} {lv : LVal} {va : SArg} {tv : Ty} {next n2 a wa : Nat}
    {code : List SInstr} {env : Env} {st st' : Nat → Nat}
    (h : assignVal nm lv va tv next = some (nm', code, n2)) (hrel : Rel st nm env) (hbel : Below next nm)
    (harg : argVal st va = (a, wa)) (hlt : a < 2 ^ tv.bits) (hrun : ssaSteps code st = some st') :
    ∃ env', (∀ f, assignTo (fun e env => evalE P (f + 1) e env) env lv (tv.decode a) = some env') ∧
      Rel st' nm' env' ∧ Below n2 nm' ∧ Frame next st st' ∧ next < n2 ∧ NoRet code := by
  unfold assignVal at h
  cases hf : nm.find lv.x with
  | none => simp [hf] at h
  | some b =>
    cases b with
    | konst _ => simp [hf] at h
    | val id tx =>
      simp only [hf] at h
      cases hp : pathOff nm tx lv.path with
      | none => simp [hp] at h
      | some q =>
        obtain ⟨off, lt⟩ := q
        simp only [hp] at h
        split at h
        · rename_i hte
          have := tyEq_eq hte; subst this
          cases hset : nm.set lv.x
              (.val (storeCode lv.path va (.var id tx.bits) off lt.bits tx.bits next).2 tx) with
          | none => simp [hset] at h
          | some nm1 =>
            simp only [hset, Option.some.injEq, Prod.mk.injEq] at h
            obtain ⟨h1, h2, h3⟩ := h
            subst h1; subst h2; subst h3
            obtain ⟨v0, hlook, hx, hv0⟩ := Rel.find hrel _ hf
            obtain ⟨idxs, hmap, hin, hup⟩ := pathOff_sound P hrel lv.path tx off lt hp
            have hid : id < next := Below.find hbel hf
            have hpath : lv.path = [] → off = 0 ∧ lt.bits = tx.bits ∧ a < 2 ^ tx.bits := by
              intro hnil
              rw [hnil] at hp
              simp only [pathOff, Option.some.injEq, Prod.mk.injEq] at hp
              obtain ⟨e1, e2⟩ := hp
              subst e1; subst e2
              exact ⟨rfl, rfl, hlt⟩
            obtain ⟨r, hs, hfr, hrlt, hror, hnid, hnr⟩ := storeCode_sound hrun harg hid hx hin hpath
            have hrdec : tx.decode r = tx.decode (amovv a (st id) off lt.bits) := by
              rcases hror with e | ⟨e1, e2⟩
              · rw [e]
              · obtain ⟨o0, w0, _⟩ := hpath e1
                subst e2; subst o0
                apply decode_congr
                rw [w0]
                have := amovv_mid r (st id) 0 tx.bits
                simpa using this.symm
            obtain ⟨env', hes, hrel2⟩ := Rel.set (bindRel_val (t := tx) hs hrlt) (hrel.frame hbel hfr) hset
            refine ⟨env', fun f => ?_, hrel2,
              Below.set (hbel.mono (by omega)) (by simp only [BelowB]; omega) hset, hfr, by omega, hnr⟩
            simp only [assignTo, hlook, hmap f, hv0, hup, hrdec.symm, hes]
        · cases h

/-- `l1, .., ln = f(..)`. -/
theorem assignAllVals_sound (P : Prog) : ∀ (lvs : List LVal) (rs : List (Nat × Ty)) (nm nm' : NEnv) (next n2 : Nat)
    (code : List SInstr) (env : Env) (st st' : Nat → Nat),
    assignAllVals nm lvs rs next = some (nm', code, n2) → Rel st nm env → Below next nm →
    (∀ p ∈ rs, st p.1 < 2 ^ p.2.bits) → (∀ p ∈ rs, p.1 < next) → ssaSteps code st = some st' →
    ∃ env', (∀ f, assignAll (fun e env => evalE P (f + 1) e env) env lvs (resVals st rs) = some env') ∧
      Rel st' nm' env' ∧ Below n2 nm' ∧ Frame next st st' ∧ next ≤ n2 ∧ NoRet code
  | [], [], nm, nm', next, n2, code, env, st, st', h, hrel, hbel, _, _, hrun => by
    simp only [assignAllVals, Option.some.injEq, Prod.mk.injEq] at h
    obtain ⟨h1, h2, h3⟩ := h
    subst h1; subst h2; subst h3
    simp only [ssaSteps, Option.some.injEq] at hrun; subst hrun
    exact ⟨env, fun f => by simp [assignAll, resVals], hrel, hbel, Frame.refl _ _, Nat.le_refl _, NoRet_nil⟩
  | [], _ :: _, _, _, _, _, _, _, _, _, h, _, _, _, _, _ => by simp [assignAllVals] at h
  | _ :: _, [], _, _, _, _, _, _, _, _, h, _, _, _, _, _ => by simp [assignAllVals] at h
  | lv :: lvs, (id, t) :: rs, nm, nm', next, n2, code, env, st, st', h, hrel, hbel, hbd, hrsb, hrun => by
    simp only [assignAllVals] at h
    cases h1 : assignVal nm lv (.var id t.bits) t next with
    | none => simp [h1] at h
    | some q =>
      obtain ⟨nm1, c1, n1⟩ := q
      simp only [h1] at h
      cases h2 : assignAllVals nm1 lvs rs n1 with
      | none => simp [h2] at h
      | some q2 =>
        obtain ⟨nm2, c2, n3⟩ := q2
        simp only [h2, Option.some.injEq, Prod.mk.injEq] at h
        obtain ⟨e1, e2, e3⟩ := h
        subst e1; subst e2; subst e3
        obtain ⟨st1, hrun1, hrun2⟩ := ssaSteps_split hrun
        have harg : argVal st (.var id t.bits) = (st id, t.bits) := by simp [argVal, SStore.get]
        obtain ⟨env1, hat, hrel1, hbel1, hfr1, hn1, hnr1⟩ :=
          assignVal_sound P h1 hrel hbel harg (hbd (id, t) (by simp)) hrun1
        have hbd' : ∀ p ∈ rs, st1 p.1 < 2 ^ p.2.bits := fun p hp => by
          rw [hfr1 p.1 (hrsb p (List.mem_cons_of_mem _ hp))]; exact hbd p (List.mem_cons_of_mem _ hp)
        obtain ⟨env2, hall, hrel2, hbel2, hfr2, hn2, hnr2⟩ :=
          assignAllVals_sound P lvs rs nm1 nm2 n1 n3 c2 env1 st1 st' h2 hrel1 hbel1 hbd'
            (fun p hp => by have := hrsb p (List.mem_cons_of_mem _ hp); omega) hrun2
        refine ⟨env2, fun f => ?_, hrel2, hbel2, hfr1.trans hfr2 (by omega), by omega, NoRet_append hnr1 hnr2⟩
        have hrv : resVals st1 rs = resVals st rs :=
          resVals_frame hfr1 rs (fun p hp => hrsb p (List.mem_cons_of_mem _ hp))
        simp only [resVals, List.map_cons, assignAll, hat f, Option.bind_some]
        have := hall f
        rw [hrv] at this
        exact this

/-- `x1, .., xn := f(..)`. -/
theorem defineAllVals_sound : ∀ (xs : List String) (rs : List (Nat × Ty)) (nm nm' : NEnv) (next n2 : Nat)
    (code : List SInstr) (env : Env) (st st' : Nat → Nat),
    defineAllVals nm xs rs next = some (nm', code, n2) → Rel st nm env → Below next nm →
    (∀ p ∈ rs, st p.1 < 2 ^ p.2.bits) → (∀ p ∈ rs, p.1 < next) → ssaSteps code st = some st' →
    xs.length = rs.length ∧ Rel st' nm' (env.declareAll xs (resVals st rs)) ∧ Below n2 nm' ∧
      Frame next st st' ∧ next ≤ n2 ∧ NoRet code
  | [], [], nm, nm', next, n2, code, env, st, st', h, hrel, hbel, _, _, hrun => by
    simp only [defineAllVals, Option.some.injEq, Prod.mk.injEq] at h
    obtain ⟨h1, h2, h3⟩ := h
    subst h1; subst h2; subst h3
    simp only [ssaSteps, Option.some.injEq] at hrun; subst hrun
    exact ⟨rfl, by simpa [resVals, Env.declareAll] using hrel, hbel, Frame.refl _ _, Nat.le_refl _, NoRet_nil⟩
  | [], _ :: _, _, _, _, _, _, _, _, _, h, _, _, _, _, _ => by simp [defineAllVals] at h
  | _ :: _, [], _, _, _, _, _, _, _, _, h, _, _, _, _, _ => by simp [defineAllVals] at h
  | x :: xs, (id, t) :: rs, nm, nm', next, n2, code, env, st, st', h, hrel, hbel, hbd, hrsb, hrun => by
    simp only [defineAllVals] at h
    cases h2 : defineAllVals (nm.declare x (.val next t)) xs rs (next + 1) with
    | none => simp [h2] at h
    | some q2 =>
      obtain ⟨nm2, c2, n3⟩ := q2
      simp only [h2, Option.some.injEq, Prod.mk.injEq] at h
      obtain ⟨e1, e2, e3⟩ := h
      subst e1; subst e2; subst e3
      obtain ⟨st1, hrun1, hrun2⟩ := ssaSteps_cons_split hrun
      have harg : argVal st (.var id t.bits) = (st id, t.bits) := by simp [argVal, SStore.get]
      have hlt := hbd (id, t) (by simp)
      have hst1 := mov_step hrun1 harg hlt
      have hfr1 : Frame next st st1 := by rw [hst1]; exact Frame_set (Nat.le_refl _)
      have hs : st1 next = st id := by rw [hst1]; simp
      have hrel1 : Rel st1 (nm.declare x (.val next t)) (env.declare x (t.decode (st id))) :=
        Rel.declare (bindRel_val hs hlt) (hrel.frame hbel hfr1)
      have hbel1 : Below (next + 1) (nm.declare x (.val next t)) :=
        (hbel.mono (Nat.le_succ _)).declare (by simp [BelowB])
      have hbd' : ∀ p ∈ rs, st1 p.1 < 2 ^ p.2.bits := fun p hp => by
        rw [hfr1 p.1 (hrsb p (List.mem_cons_of_mem _ hp))]; exact hbd p (List.mem_cons_of_mem _ hp)
      obtain ⟨hlen, hrel2, hbel2, hfr2, hn2, hnr2⟩ :=
        defineAllVals_sound xs rs _ nm2 (next + 1) n3 c2 _ st1 st' h2 hrel1 hbel1 hbd'
          (fun p hp => by have := hrsb p (List.mem_cons_of_mem _ hp); omega) hrun2
      have hrv : resVals st1 rs = resVals st rs :=
        resVals_frame hfr1 rs (fun p hp => hrsb p (List.mem_cons_of_mem _ hp))
      refine ⟨by simp [hlen], ?_, hbel2, hfr1.trans hfr2 (by omega), by omega, NoRet_cons (by simp [movI]) hnr2⟩
      rw [hrv] at hrel2
      simpa [resVals, Env.declareAll] using hrel2

end Mpc.Mpcl.Ssa

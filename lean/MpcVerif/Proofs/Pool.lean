/-
Invariant of the scratch-pool ownership protocol (`Model/Pool.lean`) and its
preservation by every atomic step under the usage contract (`strict = true`).
Helper lemmas for `Props/C17.lean`.  Core Lean only.
-/
import MpcVerif.Model.Pool

namespace Mpc.Pool
variable {Mem Job : Type}

/-- The scratch a handle owns: it has one while it is not released and no
in-progress `Release` has already `Put` it back. -/
def Handle.owned (H : Handle Mem Job) : Option ScratchId :=
  if H.pool.isSome && !H.putDone then H.scratch else none

/-- Goroutine `t` holds scratch `x` (is between `pool.Get` and `Put`/return in `Garble`). -/
def HeldBy (σ : State Mem Job) (t : Tid) (x : ScratchId) : Prop :=
  ∃ j p m0 k, σ.pc t = .gRun j p x m0 k

/-- Handle `h` owns scratch `x`. -/
def OwnedBy (σ : State Mem Job) (h : HandleId) (x : ScratchId) : Prop :=
  ∃ H, σ.handle h = some H ∧ H.owned = some x

/-- Scratch `x` is cached in pool object `q`. -/
def FreeIn (σ : State Mem Job) (q : PoolId) (x : ScratchId) : Prop := x ∈ σ.free q

structure Inv (P : Params Mem Job) (σ : State Mem Job) : Prop where
  -- the pool pointer
  poolLt   : ∀ p, σ.poolPtr = some p → p < σ.nPools
  casLt    : ∀ t j p, σ.pc t = .gCas j p → p < σ.nPools
  getPool  : ∀ t j p, σ.pc t = .gGet j p → σ.poolPtr = some p
  runPool  : ∀ t j p x m0 k, σ.pc t = .gRun j p x m0 k → σ.poolPtr = some p
  hPool    : ∀ h H p, σ.handle h = some H → H.pool = some p → σ.poolPtr = some p
  reloadOk : ∀ t j, σ.pc t = .gReload j → σ.poolPtr.isSome = true
  freePool : ∀ q x, x ∈ σ.free q → σ.poolPtr = some q
  -- ownership of scratch objects
  freeNodup : ∀ q, (σ.free q).Nodup
  freeLt   : ∀ q x, x ∈ σ.free q → x < σ.nScratch
  freeT    : ∀ q x t j p m0 k, x ∈ σ.free q → σ.pc t ≠ .gRun j p x m0 k
  freeH    : ∀ q x h H, x ∈ σ.free q → σ.handle h = some H → H.owned ≠ some x
  heldLt   : ∀ t j p x m0 k, σ.pc t = .gRun j p x m0 k → x < σ.nScratch
  heldTT   : ∀ t t' j p x m0 k j' p' m0' k', σ.pc t = .gRun j p x m0 k →
      σ.pc t' = .gRun j' p' x m0' k' → t = t'
  heldH    : ∀ t j p x m0 k h H, σ.pc t = .gRun j p x m0 k → σ.handle h = some H → H.owned ≠ some x
  ownLt    : ∀ h H x, σ.handle h = some H → H.owned = some x → x < σ.nScratch
  ownHH    : ∀ h h' H H' x, σ.handle h = some H → σ.handle h' = some H' →
      H.owned = some x → H'.owned = some x → h = h'
  hLt      : ∀ h H, σ.handle h = some H → h < σ.nHandles
  owner    : ∀ x, x < σ.nScratch →
      (∃ q, x ∈ σ.free q) ∨ (∃ t j p m0 k, σ.pc t = .gRun j p x m0 k) ∨
      (∃ h H, σ.handle h = some H ∧ H.owned = some x)
  -- handle fields and the usage-contract lock
  hFields  : ∀ h H, σ.handle h = some H → H.pool.isSome = H.scratch.isSome
  rPutOk   : ∀ t h, σ.pc t = .rPut h →
      ∃ H, σ.handle h = some H ∧ H.user = some t ∧ H.pool.isSome = true ∧ H.putDone = false
  rClearOk : ∀ t h, σ.pc t = .rClear h →
      ∃ H, σ.handle h = some H ∧ H.user = some t ∧ H.pool.isSome = true ∧ H.putDone = true
  userOk   : ∀ h H t, σ.handle h = some H → H.user = some t → σ.pc t = .rPut h ∨ σ.pc t = .rClear h
  noUser   : ∀ h H, σ.handle h = some H → H.user = none → H.putDone = false
  -- contents
  runMem   : ∀ t j p x m0 k, σ.pc t = .gRun j p x m0 k →
      σ.mem x = runFrom P j k m0 ∧ k ≤ (P.prog j).length
  ownMem   : ∀ h H x, σ.handle h = some H → H.owned = some x → σ.mem x = seqGarble P H.job H.init

@[simp, grind =] theorem runFrom_zero (P : Params Mem Job) (j : Job) (m : Mem) : runFrom P j 0 m = m := by
  simp [runFrom]

theorem lt_length_of_getElem? {α : Type} (l : List α) (k : Nat) (f : α) (h : l[k]? = some f) :
    k < l.length := by
  rcases Nat.lt_or_ge k l.length with h' | h'
  · exact h'
  · simp [List.getElem?_eq_none h'] at h

theorem runFrom_succ (P : Params Mem Job) (j : Job) (k : Nat) (m : Mem) (f : Mem → Mem)
    (hf : (P.prog j)[k]? = some f) : runFrom P j (k + 1) m = f (runFrom P j k m) := by
  unfold runFrom
  rw [List.take_add_one, hf]
  simp [List.foldl_append]

theorem runFrom_length (P : Params Mem Job) (j : Job) (m : Mem) :
    runFrom P j (P.prog j).length m = seqGarble P j m := by
  simp [runFrom, seqGarble]

theorem inv_init (P : Params Mem Job) : Inv P (init P) := by
  constructor <;> simp [init]

/-- Discharge the fields of `Inv` after a step; the existential `owner` field
and the fields about contents are proved by hand where `grind` needs a witness. -/
macro "inv_auto" : tactic => `(tactic|
  (simp only [upd] at * <;> intros <;>
   grind [Handle.owned, List.Nodup.erase, List.Nodup.mem_erase_iff, runFrom_length]))

set_option linter.unusedSimpArgs false

/-! ### One preservation lemma per atomic action (`strict = true`) -/

theorem inv_callGarble (P : Params Mem Job) (σ σ' : State Mem Job) (t : Tid) (j : Job)
    (hi : Inv P σ) (h : step? P true σ t (.callGarble j) = some σ') : Inv P σ' := by
  obtain ⟨a1,a1b,a2,a2b,a3,a4,a5,a6,a7,a8,a9,a10,a11,a12,a13,a14,a15,a16,a17,a18,a19,a20,a21,a22,a23⟩ := hi
  simp only [step?] at h
  split at h <;> try contradiction
  cases h
  constructor
  case owner =>
    intro y hy
    rcases a16 y hy with ⟨q, hq⟩ | ⟨t', j', p', m', k', ht'⟩ | ⟨h', H', hh', ho'⟩
    · exact Or.inl ⟨q, by simp only [upd]; grind⟩
    · exact Or.inr (Or.inl ⟨t', j', p', m', k', by simp only [upd]; grind⟩)
    · exact Or.inr (Or.inr ⟨h', H', by simp only [upd]; grind⟩)
  all_goals inv_auto

theorem inv_load (P : Params Mem Job) (σ σ' : State Mem Job) (t : Tid)
    (hi : Inv P σ) (h : step? P true σ t (.load) = some σ') : Inv P σ' := by
  obtain ⟨a1,a1b,a2,a2b,a3,a4,a5,a6,a7,a8,a9,a10,a11,a12,a13,a14,a15,a16,a17,a18,a19,a20,a21,a22,a23⟩ := hi
  simp only [step?] at h
  split at h <;> try contradiction
  split at h
  · cases h
    constructor
    case owner =>
      intro y hy
      rcases a16 y hy with ⟨q, hq⟩ | ⟨t', j', p', m', k', ht'⟩ | ⟨h', H', hh', ho'⟩
      · exact Or.inl ⟨q, by simp only [upd]; grind⟩
      · exact Or.inr (Or.inl ⟨t', j', p', m', k', by simp only [upd]; grind⟩)
      · exact Or.inr (Or.inr ⟨h', H', by simp only [upd]; grind⟩)
    all_goals inv_auto
  · cases h
    constructor
    case owner =>
      intro y hy
      rcases a16 y hy with ⟨q, hq⟩ | ⟨t', j', p', m', k', ht'⟩ | ⟨h', H', hh', ho'⟩
      · exact Or.inl ⟨q, by simp only [upd]; grind⟩
      · exact Or.inr (Or.inl ⟨t', j', p', m', k', by simp only [upd]; grind⟩)
      · exact Or.inr (Or.inr ⟨h', H', by simp only [upd]; grind⟩)
    all_goals inv_auto

theorem inv_cas (P : Params Mem Job) (σ σ' : State Mem Job) (t : Tid)
    (hi : Inv P σ) (h : step? P true σ t (.cas) = some σ') : Inv P σ' := by
  obtain ⟨a1,a1b,a2,a2b,a3,a4,a5,a6,a7,a8,a9,a10,a11,a12,a13,a14,a15,a16,a17,a18,a19,a20,a21,a22,a23⟩ := hi
  simp only [step?] at h
  split at h <;> try contradiction
  split at h
  · cases h
    constructor
    case owner =>
      intro y hy
      rcases a16 y hy with ⟨q, hq⟩ | ⟨t', j', p', m', k', ht'⟩ | ⟨h', H', hh', ho'⟩
      · exact Or.inl ⟨q, by simp only [upd]; grind⟩
      · exact Or.inr (Or.inl ⟨t', j', p', m', k', by simp only [upd]; grind⟩)
      · exact Or.inr (Or.inr ⟨h', H', by simp only [upd]; grind⟩)
    all_goals inv_auto
  · cases h
    constructor
    case owner =>
      intro y hy
      rcases a16 y hy with ⟨q, hq⟩ | ⟨t', j', p', m', k', ht'⟩ | ⟨h', H', hh', ho'⟩
      · exact Or.inl ⟨q, by simp only [upd]; grind⟩
      · exact Or.inr (Or.inl ⟨t', j', p', m', k', by simp only [upd]; grind⟩)
      · exact Or.inr (Or.inr ⟨h', H', by simp only [upd]; grind⟩)
    all_goals inv_auto

theorem inv_reload (P : Params Mem Job) (σ σ' : State Mem Job) (t : Tid)
    (hi : Inv P σ) (h : step? P true σ t (.reload) = some σ') : Inv P σ' := by
  obtain ⟨a1,a1b,a2,a2b,a3,a4,a5,a6,a7,a8,a9,a10,a11,a12,a13,a14,a15,a16,a17,a18,a19,a20,a21,a22,a23⟩ := hi
  simp only [step?] at h
  split at h <;> try contradiction
  split at h <;> try contradiction
  cases h
  constructor
  case owner =>
    intro y hy
    rcases a16 y hy with ⟨q, hq⟩ | ⟨t', j', p', m', k', ht'⟩ | ⟨h', H', hh', ho'⟩
    · exact Or.inl ⟨q, by simp only [upd]; grind⟩
    · exact Or.inr (Or.inl ⟨t', j', p', m', k', by simp only [upd]; grind⟩)
    · exact Or.inr (Or.inr ⟨h', H', by simp only [upd]; grind⟩)
  all_goals inv_auto

theorem inv_getFree (P : Params Mem Job) (σ σ' : State Mem Job) (t : Tid) (x : ScratchId)
    (hi : Inv P σ) (h : step? P true σ t (.getFree x) = some σ') : Inv P σ' := by
  obtain ⟨a1,a1b,a2,a2b,a3,a4,a5,a6,a7,a8,a9,a10,a11,a12,a13,a14,a15,a16,a17,a18,a19,a20,a21,a22,a23⟩ := hi
  simp only [step?] at h
  split at h <;> try contradiction
  split at h <;> try contradiction
  cases h
  constructor
  case owner =>
    intro y hy
    by_cases hyx : y = x
    · subst hyx; exact Or.inr (Or.inl ⟨t, _, _, _, _, by simp only [upd, ↓reduceIte]; rfl⟩)
    rcases a16 y hy with ⟨q, hq⟩ | ⟨t', j', p', m', k', ht'⟩ | ⟨h', H', hh', ho'⟩
    · exact Or.inl ⟨q, by simp only [upd]; grind⟩
    · exact Or.inr (Or.inl ⟨t', j', p', m', k', by simp only [upd]; grind⟩)
    · exact Or.inr (Or.inr ⟨h', H', by simp only [upd]; grind⟩)
  all_goals inv_auto

theorem inv_getNew (P : Params Mem Job) (σ σ' : State Mem Job) (t : Tid)
    (hi : Inv P σ) (h : step? P true σ t (.getNew) = some σ') : Inv P σ' := by
  obtain ⟨a1,a1b,a2,a2b,a3,a4,a5,a6,a7,a8,a9,a10,a11,a12,a13,a14,a15,a16,a17,a18,a19,a20,a21,a22,a23⟩ := hi
  simp only [step?] at h
  split at h <;> try contradiction
  cases h
  constructor
  case owner =>
    intro y hy
    by_cases hyx : y = σ.nScratch
    · subst hyx; exact Or.inr (Or.inl ⟨t, _, _, _, _, by simp only [upd, ↓reduceIte]; rfl⟩)
    rcases a16 y (by simp only at hy; omega) with ⟨q, hq⟩ | ⟨t', j', p', m', k', ht'⟩ | ⟨h', H', hh', ho'⟩
    · exact Or.inl ⟨q, by simp only [upd]; grind⟩
    · exact Or.inr (Or.inl ⟨t', j', p', m', k', by simp only [upd]; grind⟩)
    · exact Or.inr (Or.inr ⟨h', H', by simp only [upd]; grind⟩)
  all_goals inv_auto

theorem inv_write (P : Params Mem Job) (σ σ' : State Mem Job) (t : Tid)
    (hi : Inv P σ) (h : step? P true σ t (.write) = some σ') : Inv P σ' := by
  obtain ⟨a1,a1b,a2,a2b,a3,a4,a5,a6,a7,a8,a9,a10,a11,a12,a13,a14,a15,a16,a17,a18,a19,a20,a21,a22,a23⟩ := hi
  simp only [step?] at h
  split at h <;> try contradiction
  split at h <;> try contradiction
  rename_i j p x m0 k hpc _ f hf
  cases h
  constructor
  case runMem =>
    intro t' j' p' x' m0' k' hpc'
    simp only [upd] at hpc' ⊢
    by_cases htt : t' = t
    · subst htt
      simp only [if_true, PC.gRun.injEq] at hpc'
      obtain ⟨rfl, rfl, rfl, rfl, rfl⟩ := hpc'
      have h22 := a22 _ _ _ _ _ _ hpc
      simp only [if_true, runFrom_succ P _ _ _ f hf, h22.1, true_and]
      exact lt_length_of_getElem? _ _ _ hf
    · simp only [htt, if_false] at hpc'
      have hne : x' ≠ x := fun e => htt (a11 _ _ _ _ _ _ _ _ _ _ _ (e ▸ hpc') hpc)
      simp only [hne, if_false]
      exact a22 _ _ _ _ _ _ hpc'
  case owner =>
    intro y hy
    rcases a16 y hy with ⟨q, hq⟩ | ⟨t', j', p', m', k', ht'⟩ | ⟨h', H', hh', ho'⟩
    · exact Or.inl ⟨q, by simp only [upd]; grind⟩
    · by_cases htt : t' = t
      · exact Or.inr (Or.inl ⟨t, j, p, m0, k + 1, by simp only [upd]; grind⟩)
      · exact Or.inr (Or.inl ⟨t', j', p', m', k', by simp only [upd]; grind⟩)
    · exact Or.inr (Or.inr ⟨h', H', by simp only [upd]; grind⟩)
  all_goals inv_auto

theorem inv_abort (P : Params Mem Job) (σ σ' : State Mem Job) (t : Tid)
    (hi : Inv P σ) (h : step? P true σ t (.abort) = some σ') : Inv P σ' := by
  obtain ⟨a1,a1b,a2,a2b,a3,a4,a5,a6,a7,a8,a9,a10,a11,a12,a13,a14,a15,a16,a17,a18,a19,a20,a21,a22,a23⟩ := hi
  simp only [step?] at h
  split at h <;> try contradiction
  rename_i j p x m0 k hpc
  cases h
  constructor
  case owner =>
    intro y hy
    rcases a16 y hy with ⟨q, hq⟩ | ⟨t', j', p', m', k', ht'⟩ | ⟨h', H', hh', ho'⟩
    · exact Or.inl ⟨q, by simp only [upd]; grind⟩
    · by_cases htt : t' = t
      · exact Or.inl ⟨p, by simp only [upd]; grind⟩
      · exact Or.inr (Or.inl ⟨t', j', p', m', k', by simp only [upd]; grind⟩)
    · exact Or.inr (Or.inr ⟨h', H', by simp only [upd]; grind⟩)
  all_goals inv_auto

theorem inv_publish (P : Params Mem Job) (σ σ' : State Mem Job) (t : Tid)
    (hi : Inv P σ) (h : step? P true σ t (.publish) = some σ') : Inv P σ' := by
  obtain ⟨a1,a1b,a2,a2b,a3,a4,a5,a6,a7,a8,a9,a10,a11,a12,a13,a14,a15,a16,a17,a18,a19,a20,a21,a22,a23⟩ := hi
  simp only [step?] at h
  split at h <;> try contradiction
  split at h <;> try contradiction
  rename_i j p x m0 k hpc hk
  cases h
  constructor
  case owner =>
    intro y hy
    rcases a16 y hy with ⟨q, hq⟩ | ⟨t', j', p', m', k', ht'⟩ | ⟨h', H', hh', ho'⟩
    · exact Or.inl ⟨q, by simp only [upd]; grind⟩
    · by_cases htt : t' = t
      · exact Or.inr (Or.inr ⟨σ.nHandles, _, by simp only [upd]; simp; rfl, by simp only [Handle.owned]; grind⟩)
      · exact Or.inr (Or.inl ⟨t', j', p', m', k', by simp only [upd]; grind⟩)
    · exact Or.inr (Or.inr ⟨h', H', by simp only [upd]; grind, ho'⟩)
  all_goals inv_auto

theorem inv_read (P : Params Mem Job) (σ σ' : State Mem Job) (t : Tid) (hh : HandleId)
    (hi : Inv P σ) (h : step? P true σ t (.read hh) = some σ') : Inv P σ' := by
  obtain ⟨a1,a1b,a2,a2b,a3,a4,a5,a6,a7,a8,a9,a10,a11,a12,a13,a14,a15,a16,a17,a18,a19,a20,a21,a22,a23⟩ := hi
  simp only [step?] at h
  split at h <;> try contradiction
  split at h <;> try contradiction
  cases h; exact ⟨a1,a1b,a2,a2b,a3,a4,a5,a6,a7,a8,a9,a10,a11,a12,a13,a14,a15,a16,a17,a18,a19,a20,a21,a22,a23⟩

theorem inv_compute (P : Params Mem Job) (σ σ' : State Mem Job) (t : Tid)
    (hi : Inv P σ) (h : step? P true σ t (.compute) = some σ') : Inv P σ' := by
  obtain ⟨a1,a1b,a2,a2b,a3,a4,a5,a6,a7,a8,a9,a10,a11,a12,a13,a14,a15,a16,a17,a18,a19,a20,a21,a22,a23⟩ := hi
  simp only [step?] at h
  split at h <;> try contradiction
  cases h; exact ⟨a1,a1b,a2,a2b,a3,a4,a5,a6,a7,a8,a9,a10,a11,a12,a13,a14,a15,a16,a17,a18,a19,a20,a21,a22,a23⟩

theorem inv_relBegin (P : Params Mem Job) (σ σ' : State Mem Job) (t : Tid) (hh : HandleId)
    (hi : Inv P σ) (h : step? P true σ t (.relBegin hh) = some σ') : Inv P σ' := by
  obtain ⟨a1,a1b,a2,a2b,a3,a4,a5,a6,a7,a8,a9,a10,a11,a12,a13,a14,a15,a16,a17,a18,a19,a20,a21,a22,a23⟩ := hi
  simp only [step?] at h
  split at h <;> try contradiction
  split at h <;> try contradiction
  split at h
  · rename_i H hpc hH hu hp
    have hun : H.user = none := by
      cases hu' : H.user with
      | none => rfl
      | some u => simp [hu'] at hu
    cases h
    constructor
    case owner =>
      intro y hy
      rcases a16 y hy with ⟨q, hq⟩ | ⟨t', j', p', m', k', ht'⟩ | ⟨h', H', hh', ho'⟩
      · exact Or.inl ⟨q, by simp only [upd]; grind⟩
      · exact Or.inr (Or.inl ⟨t', j', p', m', k', by simp only [upd]; grind⟩)
      · by_cases hhh : h' = hh
        · exact Or.inr (Or.inr ⟨hh, _, by simp only [upd]; simp; rfl, by simp only [Handle.owned] at ho' ⊢; grind⟩)
        · exact Or.inr (Or.inr ⟨h', H', by simp only [upd]; grind, ho'⟩)
    all_goals inv_auto
  · cases h; exact ⟨a1,a1b,a2,a2b,a3,a4,a5,a6,a7,a8,a9,a10,a11,a12,a13,a14,a15,a16,a17,a18,a19,a20,a21,a22,a23⟩

theorem inv_relPut (P : Params Mem Job) (σ σ' : State Mem Job) (t : Tid)
    (hi : Inv P σ) (h : step? P true σ t (.relPut) = some σ') : Inv P σ' := by
  obtain ⟨a1,a1b,a2,a2b,a3,a4,a5,a6,a7,a8,a9,a10,a11,a12,a13,a14,a15,a16,a17,a18,a19,a20,a21,a22,a23⟩ := hi
  simp only [step?] at h
  split at h <;> try contradiction
  split at h <;> try contradiction
  split at h <;> try contradiction
  rename_i hh hpc _ H hH _ _ p x hp hx
  cases h
  constructor
  case owner =>
    intro y hy
    rcases a16 y hy with ⟨q, hq⟩ | ⟨t', j', p', m', k', ht'⟩ | ⟨h', H', hh', ho'⟩
    · exact Or.inl ⟨q, by simp only [upd]; grind⟩
    · exact Or.inr (Or.inl ⟨t', j', p', m', k', by simp only [upd]; grind⟩)
    · by_cases hhh : h' = hh
      · exact Or.inl ⟨p, by simp only [upd, Handle.owned] at ho' ⊢; grind⟩
      · exact Or.inr (Or.inr ⟨h', H', by simp only [upd]; grind, ho'⟩)
  all_goals inv_auto

theorem inv_relClear (P : Params Mem Job) (σ σ' : State Mem Job) (t : Tid)
    (hi : Inv P σ) (h : step? P true σ t (.relClear) = some σ') : Inv P σ' := by
  obtain ⟨a1,a1b,a2,a2b,a3,a4,a5,a6,a7,a8,a9,a10,a11,a12,a13,a14,a15,a16,a17,a18,a19,a20,a21,a22,a23⟩ := hi
  simp only [step?] at h
  split at h <;> try contradiction
  split at h <;> try contradiction
  rename_i hh hpc _ H hH
  cases h
  constructor
  case owner =>
    intro y hy
    rcases a16 y hy with ⟨q, hq⟩ | ⟨t', j', p', m', k', ht'⟩ | ⟨h', H', hh', ho'⟩
    · exact Or.inl ⟨q, by simp only [upd]; grind⟩
    · exact Or.inr (Or.inl ⟨t', j', p', m', k', by simp only [upd]; grind⟩)
    · by_cases hhh : h' = hh
      · exfalso; simp only [Handle.owned] at ho'; grind
      · exact Or.inr (Or.inr ⟨h', H', by simp only [upd]; grind, ho'⟩)
  all_goals inv_auto

theorem inv_copyHandle (P : Params Mem Job) (σ σ' : State Mem Job) (t : Tid) (hh : HandleId)
    (hi : Inv P σ) (h : step? P true σ t (.copyHandle hh) = some σ') : Inv P σ' := by
  obtain ⟨a1,a1b,a2,a2b,a3,a4,a5,a6,a7,a8,a9,a10,a11,a12,a13,a14,a15,a16,a17,a18,a19,a20,a21,a22,a23⟩ := hi
  simp only [step?] at h
  split at h <;> simp at h

/-- Every atomic step under the usage contract preserves the invariant. -/
theorem inv_step (P : Params Mem Job) (σ σ' : State Mem Job) (t : Tid) (a : Action Job)
    (hi : Inv P σ) (h : step? P true σ t a = some σ') : Inv P σ' := by
  cases a with
  | callGarble j => exact inv_callGarble P σ σ' t j hi h
  | load => exact inv_load P σ σ' t hi h
  | cas => exact inv_cas P σ σ' t hi h
  | reload => exact inv_reload P σ σ' t hi h
  | getFree x => exact inv_getFree P σ σ' t x hi h
  | getNew => exact inv_getNew P σ σ' t hi h
  | write => exact inv_write P σ σ' t hi h
  | abort => exact inv_abort P σ σ' t hi h
  | publish => exact inv_publish P σ σ' t hi h
  | read hh => exact inv_read P σ σ' t hh hi h
  | compute => exact inv_compute P σ σ' t hi h
  | relBegin hh => exact inv_relBegin P σ σ' t hh hi h
  | relPut => exact inv_relPut P σ σ' t hi h
  | relClear => exact inv_relClear P σ σ' t hi h
  | copyHandle hh => exact inv_copyHandle P σ σ' t hh hi h

/-- The invariant holds in every state reachable under the usage contract:
all interleavings, any number of goroutines, calls and handles. -/
theorem inv_reachable (P : Params Mem Job) (σ : State Mem Job) (h : Reachable P true σ) : Inv P σ := by
  induction h with
  | init => exact inv_init P
  | step t a _ hs ih => exact inv_step P _ _ t a ih hs

/-! ### Frame and stability lemmas -/


/-- Finite runs. -/
inductive Steps (P : Params Mem Job) (strict : Bool) : State Mem Job → State Mem Job → Prop where
  | refl (σ : State Mem Job) : Steps P strict σ σ
  | tail {σ σ' σ'' : State Mem Job} (t : Tid) (a : Action Job) :
      Steps P strict σ σ' → step? P strict σ' t a = some σ'' → Steps P strict σ σ''

theorem reachable_steps (P : Params Mem Job) (strict : Bool) (σ σ' : State Mem Job)
    (hr : Reachable P strict σ) (hs : Steps P strict σ σ') : Reachable P strict σ' := by
  induction hs with
  | refl => exact hr
  | tail t a _ h ih => exact .step t a ih h

/-- The pool pointer is written only by the successful CompareAndSwap, and only
when it is nil (holds with and without the usage contract). -/
theorem poolPtr_step (P : Params Mem Job) (strict : Bool) (σ σ' : State Mem Job) (t : Tid)
    (a : Action Job) (p : PoolId) (h : step? P strict σ t a = some σ') (hp : σ.poolPtr = some p) :
    σ'.poolPtr = some p := by
  cases a <;> simp only [step?] at h <;> (repeat' split at h) <;> (try contradiction) <;>
    (try (cases h; first | exact hp | simp_all))

/-- A step of another goroutine neither writes the scratch a goroutine holds
nor moves that goroutine. -/
theorem other_step_frame (P : Params Mem Job) (σ σ' : State Mem Job) (hi : Inv P σ)
    (t t' : Tid) (a : Action Job) (j : Job) (p : PoolId) (x : ScratchId) (m0 : Mem) (k : Nat)
    (hpc : σ.pc t = .gRun j p x m0 k) (hne : t' ≠ t) (h : step? P true σ t' a = some σ') :
    σ'.mem x = σ.mem x ∧ σ'.pc t = .gRun j p x m0 k := by
  have hne' : t ≠ t' := fun e => hne e.symm
  have a10 := hi.heldLt
  have a11 := hi.heldTT
  cases a <;> simp only [step?] at h <;> (repeat' split at h) <;> (try contradiction) <;>
    (try (cases h; simp only [upd, hne', if_false]; first | exact ⟨rfl, hpc⟩ | grind))



/-- Handles never disappear. -/
theorem handle_step_fwd (P : Params Mem Job) (σ σ' : State Mem Job) (hi : Inv P σ)
    (t : Tid) (a : Action Job) (h : HandleId) (H : Handle Mem Job)
    (hs : step? P true σ t a = some σ') (hH : σ.handle h = some H) :
    ∃ H', σ'.handle h = some H' := by
  have a15 := hi.hLt
  cases a <;> simp only [step?] at hs <;> (repeat' split at hs) <;> (try contradiction) <;>
    (try (cases hs; first | exact ⟨H, hH⟩ | (simp only [upd]; grind)))

/-- A handle that owns scratch `x` after a step existed before the step (or was
just published), owned `x` already and is the result of the same call. -/
theorem handle_step_back (P : Params Mem Job) (σ σ' : State Mem Job)
    (t : Tid) (a : Action Job) (h : HandleId) (H' : Handle Mem Job) (x : ScratchId)
    (hs : step? P true σ t a = some σ') (hlt : h < σ.nHandles)
    (hH : σ'.handle h = some H') (ho : H'.owned = some x) :
    ∃ H, σ.handle h = some H ∧ H.owned = some x ∧ H.job = H'.job ∧ H.init = H'.init := by
  cases a <;> simp only [step?] at hs <;> (repeat' split at hs) <;> (try contradiction) <;>
    (try (cases hs; first | exact ⟨H', hH, ho, rfl, rfl⟩ | (simp only [upd] at hH; grind [Handle.owned])))


/-- Handles never disappear along a run. -/
theorem handle_steps_fwd (P : Params Mem Job) (σ σ' : State Mem Job) (hr : Reachable P true σ)
    (hs : Steps P true σ σ') (h : HandleId) (H : Handle Mem Job) (hH : σ.handle h = some H) :
    ∃ H', σ'.handle h = some H' := by
  induction hs with
  | refl => exact ⟨H, hH⟩
  | tail t a hs' hstep ih =>
    obtain ⟨H2, hH2⟩ := ih
    exact handle_step_fwd P _ _ (inv_reachable P _ (reachable_steps P true σ _ hr hs')) t a h H2 hstep hH2

/-! ### A complete `Release` -/

@[simp] theorem upd_same {α : Type} (f : Nat → α) (i : Nat) (v : α) : upd f i v i = v := by simp [upd]

@[simp] theorem upd_upd {α : Type} (f : Nat → α) (i : Nat) (a b : α) :
    upd (upd f i a) i b = upd f i b := by
  funext x; simp only [upd]; split <;> rfl

/-- The state after a complete `Release` of live handle `h` (scratch `x`, pool `p`) by `t`. -/
def released (σ : State Mem Job) (t : Tid) (h : HandleId) (H : Handle Mem Job) (p : PoolId)
    (x : ScratchId) : State Mem Job :=
  { σ with free := upd σ.free p (x :: σ.free p),
           handle := upd σ.handle h
             (some { H with scratch := none, pool := none, user := none, putDone := false }),
           pc := upd σ.pc t .idle }

theorem release_runs (P : Params Mem Job) (σ : State Mem Job) (t : Tid) (h : HandleId)
    (H : Handle Mem Job) (p : PoolId) (x : ScratchId)
    (hpc : σ.pc t = .idle) (hH : σ.handle h = some H) (hu : H.user = none) (hp : H.pool = some p)
    (hx : H.scratch = some x) :
    runSched P true σ [(t, .relBegin h), (t, .relPut), (t, .relClear)] = some (released σ t h H p x) ∧
    step? P true (released σ t h H p x) t (.relBegin h) = some (released σ t h H p x) := by
  constructor
  · simp [runSched, step?, hpc, hH, hu, hp, hx, released]
  · simp [step?, released]

/-- A schedule reaches only reachable states. -/
theorem reachable_runSched (P : Params Mem Job) (strict : Bool) (σ σ' : State Mem Job)
    (l : List (Tid × Action Job)) (hr : Reachable P strict σ) (h : runSched P strict σ l = some σ') :
    Reachable P strict σ' := by
  induction l generalizing σ with
  | nil => simp only [runSched] at h; cases h; exact hr
  | cons ta rest ih =>
    obtain ⟨t, a⟩ := ta
    simp only [runSched] at h
    split at h
    · rename_i σ1 h1; exact ih σ1 (.step t a hr h1) h
    · contradiction

theorem runSched_append (P : Params Mem Job) (strict : Bool) (σ σ' : State Mem Job)
    (l l' : List (Tid × Action Job)) (h : runSched P strict σ l = some σ') :
    runSched P strict σ (l ++ l') = runSched P strict σ' l' := by
  induction l generalizing σ with
  | nil => simp only [runSched] at h; cases h; rfl
  | cons ta rest ih =>
    obtain ⟨t, a⟩ := ta
    simp only [runSched, List.cons_append] at h ⊢
    split at h
    · rename_i σ1 h1; exact ih σ1 h
    · contradiction

/-- A property of scratch contents that `New` establishes and every write
preserves holds of every scratch, of every remembered initial contents. -/
theorem good_reachable (P : Params Mem Job) (good : Mem → Prop) (hf : good P.fresh)
    (hp : ∀ j f, f ∈ P.prog j → ∀ m, good m → good (f m)) (strict : Bool)
    (σ : State Mem Job) (hr : Reachable P strict σ) :
    (∀ x, good (σ.mem x)) ∧ (∀ t j p x m0 k, σ.pc t = .gRun j p x m0 k → good m0) ∧
    (∀ h H, σ.handle h = some H → good H.init) := by
  induction hr with
  | init => simp [init, hf]
  | step t a _ hs ih =>
    obtain ⟨i1, i2, i3⟩ := ih
    cases a <;> simp only [step?] at hs <;> (repeat' split at hs) <;> (try contradiction) <;>
      (try (cases hs; first | exact ⟨i1, i2, i3⟩ | (refine ⟨?_, ?_, ?_⟩ <;> simp only [upd] <;> intros <;> grind)))
    -- the remaining case is `write`
    rename_i j p x m0 k hpc _ f hfk
    cases hs
    have hmem : f ∈ P.prog j := List.mem_of_getElem? hfk
    refine ⟨?_, ?_, i3⟩
    · intro y
      simp only [upd]
      split
      · exact hp j f hmem _ (i1 x)
      · exact i1 y
    · intro t' j' p' x' m0' k' h'
      simp only [upd] at h'
      split at h'
      · cases h'; exact i2 _ _ _ _ _ _ hpc
      · exact i2 _ _ _ _ _ _ h'

end Mpc.Pool

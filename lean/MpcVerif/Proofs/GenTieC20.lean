/-
T1 tie (DESIGN.md 1.3) of `vole.bytes32` (vole/vole.go: the fixed 32-byte big-endian encoding of
a field element in the y- and u-vectors) to `Mpc.Vole.bytes32` of the C20 model Model/Vole.lean: the
definition of MpcVerif/Gen/LeafC20.lean, regenerated from the current Go source by `gofacts
translate -group C20` on every run of checks/C20.py, returns the model's bytes, and `none` (Go: the
slice expression `out[32-len(b):]` panics) exactly when the model does.  `(*big.Int).Bytes()` is read
as the big-endian bytes of the absolute value (`bigBytes`, Gen/Prelude.lean).  Core Lean only.
-/
import MpcVerif.Gen.LeafC20
import MpcVerif.Proofs.GenTieLib
import MpcVerif.Model.Vole

namespace Mpc.GenTie
open Mpc Mpc.Gen Mpc.Gen.C20

theorem ofNat8_mod256 (n : Nat) : BitVec.ofNat 8 (n % 256) = BitVec.ofNat 8 n := by
  apply BitVec.eq_of_toNat_eq; simp

/-- The translator's reading of `big.Int.Bytes` is the model's `natToBytesBE`. -/
theorem natBytesBE_eq (n : Nat) : natBytesBE n = (natToBytesBE n).map UInt8.toBitVec := by
  induction n using Nat.strongRecOn with
  | _ n ih =>
    rw [natBytesBE, natToBytesBE]
    by_cases h : n = 0
    · simp [h]
    · have := ih (n / 256) (by omega)
      simp only [h, dite_false, this, List.map_append, List.map_cons, List.map_nil]
      congr 2
      rw [← ofNat8_mod256]; rfl

theorem tie_bytes32_nil : Gen.C20.bytes32 none = some (Array.replicate 32 0#8) := by
  simp [Gen.C20.bytes32]

theorem tie_bytes32 (v : Int) (hlen : (natToBytesBE v.natAbs).length < 2^63) :
    (Gen.C20.bytes32 (some v)).map (fun a => a.toList.map UInt8.ofBitVec) = Vole.bytes32 v.natAbs := by
  have hbb : bigBytes v = ((natToBytesBE v.natAbs).map UInt8.toBitVec).toArray := by simp [bigBytes, natBytesBE_eq]
  have h32 : (32#64).toNat = 32 := rfl
  simp only [Gen.C20.bytes32, Vole.bytes32, Option.isNone_some, Option.getD_some, Bool.false_eq_true, if_false, slt_zero,
    Array.size_replicate, h32]
  generalize natToBytesBE v.natAbs = b at hlen hbb ⊢
  have hsz : (bigBytes v).size = b.length := by simp [hbb]
  simp only [hsz]
  by_cases hl : b.length ≤ 32
  · have hsub : (32#64 - BitVec.ofNat 64 b.length).toNat = 32 - b.length := by
      simp only [BitVec.toNat_sub, BitVec.toNat_ofNat]; omega
    simp only [hsub, hl, show ¬ (2^63 ≤ 32 - b.length) by omega, show ¬ (32 < 32 - b.length) by omega, decide_false,
      Bool.false_eq_true, if_false, if_true, Option.map_some]
    refine congrArg some ?_
    apply List.ext_getElem
    · simp [size_copyAt]; omega
    · intro i h1 h2
      have hi : i < 32 := by simpa [size_copyAt] using h1
      simp only [List.getElem_map, Array.getElem_toList, getElem_copyAt, hbb]
      by_cases hlt : i < 32 - b.length
      · simp [hlt, List.getElem_append_left, show ¬ (32 - b.length ≤ i) by omega]
      · have h3 : i - (32 - b.length) < b.length := by omega
        simp [hlt, h3, show 32 - b.length ≤ i by omega, List.getElem_append_right]
  · have hsub : (32#64 - BitVec.ofNat 64 b.length).toNat = 2^64 + 32 - b.length := by
      simp only [BitVec.toNat_sub, BitVec.toNat_ofNat]; omega
    simp [hl, hsub, show 2^63 ≤ 2^64 + 32 - b.length by omega]

example : Gen.C20.bytes32 (some 258) = some (Array.replicate 30 0#8 ++ #[1#8, 2#8]) := by decide +kernel

end Mpc.GenTie

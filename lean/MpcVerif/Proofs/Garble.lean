/-
Helper lemmas for C01: per-gate correctness of garbling vs. garbled evaluation
and the lock-step induction over the gate list.
-/
import MpcVerif.Model.Garble

namespace Mpc
open LabelAlg

variable {L : Type} [LabelAlg L]

namespace LabelAlg

theorem xor_assoc' (a b c : L) : (a ^^^ b) ^^^ c = a ^^^ (b ^^^ c) := LabelAlg.xor_assoc a b c
theorem xor_comm' (a b : L) : a ^^^ b = b ^^^ a := LabelAlg.xor_comm a b
@[simp] theorem xor_self' (a : L) : a ^^^ a = (LabelAlg.zero : L) := LabelAlg.xor_self a
@[simp] theorem xor_zero' (a : L) : a ^^^ (LabelAlg.zero : L) = a := LabelAlg.xor_zero a
@[simp] theorem zero_xor' (a : L) : (LabelAlg.zero : L) ^^^ a = a := by
  rw [xor_comm', xor_zero']
theorem sbit_xor' (a b : L) : sbit (a ^^^ b) = (sbit a != sbit b) := LabelAlg.sbit_xor a b
@[simp] theorem xor_xor_cancel_left (a b : L) : a ^^^ (a ^^^ b) = b := by
  rw [← xor_assoc', xor_self', zero_xor']
@[simp] theorem xor_xor_cancel_right (a b : L) : (b ^^^ a) ^^^ a = b := by
  rw [xor_assoc', xor_self', xor_zero']
theorem xor_left_comm' (a b c : L) : a ^^^ (b ^^^ c) = b ^^^ (a ^^^ c) := by
  rw [← xor_assoc', xor_comm' a b, xor_assoc']

/-- If `a ^^^ b = zero` then `a = b`. -/
theorem eq_of_xor_eq_zero (a b : L) (h : a ^^^ b = (LabelAlg.zero : L)) : a = b := by
  have : (a ^^^ b) ^^^ b = (LabelAlg.zero : L) ^^^ b := by rw [h]
  simpa using this

/-- An offset with the select bit set is non-zero. -/
theorem ne_zero_of_sbit (r : L) (hr : sbit r = true) : r ≠ (LabelAlg.zero : L) := by
  intro h
  have h2 := sbit_xor' r r
  rw [xor_self', ← h, hr] at h2
  simp at h2

end LabelAlg

/-- The relation between a garbler wire pair, the evaluator's label and the
plain bit of one wire. -/
def Rel (r : L) (gw : WireL L) (e : L) (v : Bool) : Prop :=
  gw.l1 = gw.l0 ^^^ r ∧ e = gw.labelFor v

/-- Correctness of all five gate kinds, for arbitrary hash functions, for all
16 / 4 / 2 combinations of values and permute bits. -/
theorem core_correct (H : Hash L) (r : L) (hr : sbit r = true) (op : Op) (a b : WireL L)
    (ea eb : L) (va vb : Bool) (id : Nat) (ha : Rel r a ea va)
    (hb : op.binary = true → Rel r b eb vb) :
    ∃ e, evalCore H op (garbleCore H r op a b id).2 ea eb id = .ok e ∧
      Rel r (garbleCore H r op a b id).1 e (op.eval va vb) := by
  obtain ⟨ha1, ha2⟩ := ha
  subst ha2
  cases op
  case inv =>
    cases va <;> cases hpa : sbit a.l0 <;>
      simp [evalCore, garbleCore, Rel, WireL.labelFor, Op.eval, idxUnary, Tab.set, ha1,
        sbit_xor', hr, hpa, xor_assoc', xor_comm', xor_left_comm']
  all_goals
    obtain ⟨hb1, hb2⟩ := hb rfl
    subst hb2
  case xor =>
    cases va <;> cases vb <;>
      simp [evalCore, garbleCore, Rel, WireL.labelFor, Op.eval, ha1, hb1, xor_comm',
        xor_left_comm']
  case xnor =>
    cases va <;> cases vb <;>
      simp [evalCore, garbleCore, Rel, WireL.labelFor, Op.eval, ha1, hb1, xor_comm',
        xor_left_comm']
  case and =>
    cases va <;> cases vb <;> cases hpa : sbit a.l0 <;> cases hpb : sbit b.l0 <;>
      simp [evalCore, garbleCore, Rel, WireL.labelFor, Op.eval, ha1, hb1, sbit_xor', hr, hpa,
        hpb, xor_assoc', xor_comm', xor_left_comm']
  case or =>
    cases va <;> cases vb <;> cases hpa : sbit a.l0 <;> cases hpb : sbit b.l0 <;>
      simp [evalCore, garbleCore, Rel, WireL.labelFor, Op.eval, idx, Tab.set, ha1, hb1,
        sbit_xor', hr, hpa, hpb, xor_assoc', xor_comm', xor_left_comm']

/-- The number of rows produced for a gate is fixed by its kind. -/
theorem garbleCore_rows_length (H : Hash L) (r : L) (op : Op) (a b : WireL L) (id : Nat) :
    (garbleCore H r op a b id).2.length = op.rows := by
  cases op <;> simp [garbleCore, Op.rows]

/-- Lock-step invariant on a set `D` of defined wires. -/
def Inv (r : L) (D : Nat → Bool) (gw : Store (WireL L)) (ew : Store L) (pv : Store Bool) : Prop :=
  ∀ w, D w = true → Rel r (gw.get w) (ew.get w) (pv.get w)

theorem garbleGates_cons (H : Hash L) (r : L) (g : Gate) (gs : List Gate)
    (ws : Store (WireL L)) (id : Nat) :
    garbleGates H r (g :: gs) ws id =
      ((garbleGates H r gs (garbleGate H r g ws id).1 (garbleGate H r g ws id).2.1).1,
       (garbleGates H r gs (garbleGate H r g ws id).1 (garbleGate H r g ws id).2.1).2.1,
       (garbleGate H r g ws id).2.2 ::
         (garbleGates H r gs (garbleGate H r g ws id).1 (garbleGate H r g ws id).2.1).2.2) := by
  rfl

theorem garbleGates_size (H : Hash L) (r : L) (gs : List Gate) :
    ∀ (ws : Store (WireL L)) (id : Nat), (garbleGates H r gs ws id).1.size = ws.size := by
  induction gs with
  | nil => intro ws id; rfl
  | cons g gs ih =>
    intro ws id
    rw [garbleGates_cons]
    simp [ih, garbleGate]

/-- Wires that no gate writes keep their pair. -/
theorem garbleGates_frame (H : Hash L) (r : L) (gs : List Gate) (w : Nat) :
    ∀ (ws : Store (WireL L)) (id : Nat), (∀ g ∈ gs, g.out ≠ w) →
      (garbleGates H r gs ws id).1.get w = ws.get w := by
  induction gs with
  | nil => intro ws id _; rfl
  | cons g gs ih =>
    intro ws id h
    rw [garbleGates_cons]
    simp only
    rw [ih _ _ (fun g' hg' => h g' (List.mem_cons_of_mem _ hg'))]
    simp only [garbleGate]
    exact Store.get_set_ne _ _ _ _ (h g List.mem_cons_self)

/-- The tweak counter after garbling is the sum of the per-gate increments:
garbler and evaluator advance it identically. -/
theorem garbleGates_id (H : Hash L) (r : L) (gs : List Gate) :
    ∀ (ws : Store (WireL L)) (id : Nat),
      (garbleGates H r gs ws id).2.1 = id + (gs.map (fun g => g.op.tweaks)).sum := by
  induction gs with
  | nil => intro ws id; simp [garbleGates]
  | cons g gs ih =>
    intro ws id
    rw [garbleGates_cons]
    simp only [ih, garbleGate, List.map_cons, List.sum_cons]
    omega

theorem garbleGates_rows_length (H : Hash L) (r : L) (gs : List Gate) :
    ∀ (ws : Store (WireL L)) (id : Nat),
      (garbleGates H r gs ws id).2.2.map List.length = gs.map (fun g => g.op.rows) := by
  induction gs with
  | nil => intro ws id; simp [garbleGates]
  | cons g gs ih =>
    intro ws id
    rw [garbleGates_cons]
    simp [ih, garbleGate, garbleCore_rows_length]

theorem evalPlainGates_cons (g : Gate) (gs : List Gate) (pv : Store Bool) :
    evalPlainGates (g :: gs) pv = evalPlainGates gs (g.evalPlain pv) := rfl

/-- Garbler, evaluator and plain evaluation proceed in lock step over any
gate list: the evaluator never takes an error branch, ends with the same
tweak counter as the garbler, and the relation holds on every defined wire. -/
theorem gates_lockstep (H : Hash L) (r : L) (hr : sbit r = true) (n : Nat) (gs : List Gate) :
    ∀ (D : Nat → Bool) (gw : Store (WireL L)) (ew : Store L) (pv : Store Bool) (id : Nat),
      gw.size = n → ew.size = n → pv.size = n → wfFrom n gs D = true → Inv r D gw ew pv →
      ∃ ew', evalGates H gs (garbleGates H r gs gw id).2.2 ew id =
            .ok (ew', (garbleGates H r gs gw id).2.1) ∧
          ew'.size = n ∧
          Inv r (definedAfter gs D) (garbleGates H r gs gw id).1 ew' (evalPlainGates gs pv) := by
  induction gs with
  | nil =>
    intro D gw ew pv id _ he _ _ hinv
    exact ⟨ew, rfl, he, hinv⟩
  | cons g gs ih =>
    intro D gw ew pv id hg he hp hwf hinv
    simp only [wfFrom, Bool.and_eq_true, decide_eq_true_eq, Bool.or_eq_true,
      Bool.not_eq_true'] at hwf
    obtain ⟨⟨⟨⟨⟨hd0, hd1⟩, hi0⟩, hi1⟩, hout⟩, hrest⟩ := hwf
    have ha := hinv g.in0 hd0
    have hb : g.op.binary = true → Rel r (gw.get g.in1) (ew.get g.in1) (pv.get g.in1) := by
      intro hbin
      cases hd1 with
      | inl h => rw [hbin] at h; cases h
      | inr h => exact hinv g.in1 h
    obtain ⟨e, hev, hrel⟩ := core_correct H r hr g.op (gw.get g.in0) (gw.get g.in1)
      (ew.get g.in0) (ew.get g.in1) (pv.get g.in0) (pv.get g.in1) id ha hb
    -- state after this gate
    have hinv' : Inv r (fun w => w == g.out || D w) (garbleGate H r g gw id).1
        (ew.set g.out e) (g.evalPlain pv) := by
      intro w hw
      simp only [garbleGate, Gate.evalPlain]
      by_cases hwo : g.out = w
      · subst hwo
        rw [Store.get_set_eq _ _ _ (by omega), Store.get_set_eq _ _ _ (by omega),
          Store.get_set_eq _ _ _ (by omega)]
        exact hrel
      · rw [Store.get_set_ne _ _ _ _ hwo, Store.get_set_ne _ _ _ _ hwo,
          Store.get_set_ne _ _ _ _ hwo]
        have : D w = true := by
          simp only [Bool.or_eq_true, beq_iff_eq] at hw
          cases hw with
          | inl h => exact absurd h.symm hwo
          | inr h => exact h
        exact hinv w this
    obtain ⟨ew', hev', hsz', hinv''⟩ := ih (fun w => w == g.out || D w)
      (garbleGate H r g gw id).1 (ew.set g.out e) (g.evalPlain pv) (garbleGate H r g gw id).2.1
      (by simp [garbleGate, hg]) (by simp [he]) (by simp [Gate.evalPlain, hp]) hrest hinv'
    refine ⟨ew', ?_, hsz', ?_⟩
    · rw [garbleGates_cons]
      simp only [evalGates, evalGate]
      have : (garbleGate H r g gw id).2.2 =
          (garbleCore H r g.op (gw.get g.in0) (gw.get g.in1) id).2 := rfl
      rw [this, hev]
      simp only
      exact hev'
    · rw [garbleGates_cons, evalPlainGates_cons]
      exact hinv''


theorem get_range_map' {α : Type} [Inhabited α] (n : Nat) (f : Nat → α) (i : Nat) (h : i < n) :
    Store.get ((Array.range n).map f) i = f i := by
  simp [Store.get, Array.getD, h]

/-- In a well-formed circuit no gate overwrites an input wire, so after
garbling the input wires still carry the labels drawn for them. -/
theorem garble_input_wires (H : Hash L) (c : Circuit) (r : L) (inl : Nat → L)
    (hwf : c.WF = true) (i : Nat) (hi : i < c.nIn) :
    (c.garble H r inl).wires.get i = ⟨inl i, inl i ^^^ r⟩ := by
  simp only [Circuit.WF, Bool.and_eq_true, decide_eq_true_eq, List.all_eq_true] at hwf
  obtain ⟨⟨⟨hnin, _⟩, _⟩, hnoin⟩ := hwf
  simp only [Circuit.garble]
  rw [garbleGates_frame H r c.gates i _ 0 (fun g hg => by have := hnoin g hg; omega)]
  rw [get_range_map' _ _ _ (by omega)]
  simp [hi]


/-- Garbling a concatenation = garbling the first part, then the second from
the resulting wire store AND the resulting tweak counter. -/
theorem garbleGates_append (H : Hash L) (r : L) (gs1 gs2 : List Gate) :
    ∀ (ws : Store (WireL L)) (id : Nat),
      garbleGates H r (gs1 ++ gs2) ws id =
        ((garbleGates H r gs2 (garbleGates H r gs1 ws id).1 (garbleGates H r gs1 ws id).2.1).1,
         (garbleGates H r gs2 (garbleGates H r gs1 ws id).1 (garbleGates H r gs1 ws id).2.1).2.1,
         (garbleGates H r gs1 ws id).2.2 ++
           (garbleGates H r gs2 (garbleGates H r gs1 ws id).1 (garbleGates H r gs1 ws id).2.1).2.2) := by
  induction gs1 with
  | nil => intro ws id; rfl
  | cons g gs ih =>
    intro ws id
    rw [List.cons_append, garbleGates_cons, ih, garbleGates_cons]
    rfl

/-- Streaming mode garbles a list of instruction circuits one after the other
on one global wire store.  `persistent = true`: the tweak counter runs over
the whole stream (the code after fix 956e0fd); `false`: it restarts at 0 for
every instruction (the pinned tree). -/
def streamGarble (H : Hash L) (r : L) (persistent : Bool) :
    List (List Gate) → Store (WireL L) → Nat → Store (WireL L) × Nat × List (List L)
  | [], ws, id => (ws, id, [])
  | step :: steps, ws, id =>
    let (ws1, id1, rows) := garbleGates H r step ws (if persistent then id else 0)
    let (ws2, id2, rest) := streamGarble H r persistent steps ws1 id1
    (ws2, id2, rows ++ rest)

/-- With a persistent counter, streaming the instructions one by one is
exactly whole-circuit garbling of their concatenation: every theorem about
`garbleGates` (C01, C04) transfers to streaming mode. -/
theorem streamGarble_persistent (H : Hash L) (r : L) (steps : List (List Gate)) :
    ∀ (ws : Store (WireL L)) (id : Nat),
      streamGarble H r true steps ws id = garbleGates H r steps.flatten ws id := by
  induction steps with
  | nil => intro ws id; rfl
  | cons step steps ih =>
    intro ws id
    simp only [streamGarble, List.flatten_cons, if_true]
    rw [garbleGates_append, ih]

end Mpc

/-
T1 tie (DESIGN.md 1.3) of `circuit.bitLen` (circuit/ioarg.go) to the C13 model
Model/IoArg.lean: the definition of MpcVerif/Gen/LeafC13.lean, regenerated from the
current Go source by `gofacts translate` on every run of checks/t1.py, equals
`Mpc.IoArg.bitLen` (the loop with an early return is a fold whose state records
the returned value).  Core Lean only.
-/
import MpcVerif.Gen.LeafC13
import MpcVerif.Proofs.GenTieLib
import MpcVerif.Model.IoArg

namespace Mpc.GenTie
open Mpc Mpc.Gen Mpc.Gen.C13


theorem and_shl_one_ne_zero (v : BitVec 64) (n : Nat) (hn : n < 64) :
    (v &&& 1#64 <<< n != 0#64) = v.toNat.testBit n := by
  rw [← BitVec.twoPow_eq, and_twoPow_ne_zero v n hn]; rfl

/-- One iteration of the loop of `bitLen` on the fold state (`some r` = already returned `r`). -/
def blStep (v : BitVec 64) (st : Option (BitVec 64)) (k : Nat) : Option (BitVec 64) :=
  if st.isSome then st else if v.toNat.testBit (63 - k) then some (BitVec.ofNat 64 (63 - k) + 1#64) else none

theorem bl_inv (v : BitVec 64) (k : Nat) (hk : k ≤ 63) :
    (match (List.range k).foldl (blStep v) none with
      | some r => r.toNat
      | none => Mpc.IoArg.bitLenFrom v.toNat (63 - k)) = Mpc.IoArg.bitLenFrom v.toNat 63 := by
  induction k with
  | zero => rfl
  | succ k ih0 =>
    have ih := ih0 (by omega)
    clear ih0
    rw [List.range_succ, List.foldl_append]
    simp only [List.foldl_cons, List.foldl_nil]
    cases h : (List.range k).foldl (blStep v) none with
    | some r => rw [h] at ih; simpa [blStep] using ih
    | none =>
      rw [h] at ih
      dsimp only at ih
      have e : 63 - k = (63 - (k + 1)) + 1 := by omega
      rw [e, Mpc.IoArg.bitLenFrom] at ih
      rw [← e] at ih
      by_cases hb : v.toNat.testBit (63 - k) = true
      · have hv : (BitVec.ofNat 64 (63 - k) + 1#64).toNat = 63 - (k + 1) + 2 := by
          simp only [BitVec.toNat_add, BitVec.toNat_ofNat]; omega
        simp only [blStep, Option.isSome_none, hb, if_true, Bool.false_eq_true, if_false, hv] at ih ⊢
        exact ih
      · simp only [blStep, Option.isSome_none, hb, if_false, Bool.false_eq_true] at ih ⊢
        exact ih

theorem bl_final (v : BitVec 64) (F : Option (BitVec 64) → Nat → Option (BitVec 64))
    (hF : ∀ st k, k < 63 → F st k = blStep v st k) :
    (Option.elim ((List.range 63).foldl F none) 1#64 (fun r => r)).toNat = Mpc.IoArg.bitLen v.toNat := by
  have hfold : ∀ n, n ≤ 63 → (List.range n).foldl F none = (List.range n).foldl (blStep v) none := by
    intro n hn
    induction n with
    | zero => rfl
    | succ m ih =>
      rw [List.range_succ, List.foldl_append, List.foldl_append, ih (by omega)]
      simp only [List.foldl_cons, List.foldl_nil]
      exact hF _ m (by omega)
  rw [hfold 63 (by omega)]
  have := bl_inv v 63 (by omega)
  unfold Mpc.IoArg.bitLen
  rw [← this]
  cases (List.range 63).foldl (blStep v) none <;> rfl

theorem ofNat_down_toNat (c k : Nat) (hc : c < 2^64) : (BitVec.ofNat 64 (c - k)).toNat = c - k := by
  simp only [BitVec.toNat_ofNat]; omega

theorem tie_bitLen (v : BitVec 64) : (Gen.C13.bitLen v).toNat = Mpc.IoArg.bitLen v.toNat := by
  unfold Gen.C13.bitLen
  dsimp only
  refine bl_final v _ (fun st k hk => ?_)
  have hget : ∀ n, v.getLsbD n = v.toNat.testBit n := fun _ => rfl
  simp only [blStep, ofNat_down_toNat 63 k (by omega), and_shl_one_ne_zero v (63 - k) (by omega),
    and_one_ne_zero, and_one_eq_one, hget]

example : Gen.C13.bitLen 0#64 = 1#64 ∧ Gen.C13.bitLen 3#64 = 2#64 ∧ Gen.C13.bitLen 0x8000000000000000#64 = 64#64 := by decide +kernel

end Mpc.GenTie

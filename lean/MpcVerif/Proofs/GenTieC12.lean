/-
T1 tie (DESIGN.md 1.3) of the SMALL paths of `mpa.Int` (compiler/mpa/mpint.go: `isSmall`,
`small`, `setSmall`, `Add Sub Mul Div Mod And AndNot Or Xor Lsh Rsh`, `Cmp`, `Int64`, `Bit`,
`BitLen`, `Sign`) to the C12 model Model/Mpa.lean: the definitions of MpcVerif/Gen/LeafC12.lean,
regenerated from the current Go source by `gofacts translate -group C12` on every run of
checks/C12.py, equal `Mpc.Mpa.add` … for receivers with `0 ≤ bits ≤ 64`.

A `*mpa.Int` is the triple `(bits, i64, values)`; `toM` reads it as the model's `MInt`
(`bits` is a Go `int32`: the ties assume it is not negative).  The code of the large paths
(math/big, evaluated circuits) is outside the translator's subset: it is the universally
quantified parameter `large'N` of the generated definition, and every tie is stated for ALL
values of it under the hypothesis that selects the small path.  `none` = the Go function
panics.  Core Lean only.
-/
import MpcVerif.Gen.LeafC12
import MpcVerif.Proofs.GenTieLib
import MpcVerif.Model.Mpa

namespace Mpc.GenTie
open Mpc Mpc.Gen Mpc.Gen.C12 Mpc.Mpa

/-- The model's reading of a `*mpa.Int`. -/
def toM (z : MpaInt) : MInt := { bits := z.1.toNat, i64 := z.2.1, big := z.2.2 }

/-- `bits` (an `int32`) is not negative. -/
abbrev BitsOk (z : MpaInt) : Prop := z.1.toNat < 2^31

theorem sle32_lit (b : BitVec 32) (c : Nat) (hb : b.toNat < 2^31) (hc : c < 2^31) :
    BitVec.sle b (BitVec.ofNat 32 c) = decide (b.toNat ≤ c) := by
  rw [Bool.eq_iff_iff]
  simp only [BitVec.sle, BitVec.toInt_eq_toNat_cond, BitVec.toNat_ofNat, decide_eq_true_eq]
  rw [Nat.mod_eq_of_lt (show c < 2 ^ 32 by omega)]
  split <;> split <;> omega
theorem slt32_lit (b : BitVec 32) (c : Nat) (hb : b.toNat < 2^31) (hc : c < 2^31) :
    BitVec.slt (BitVec.ofNat 32 c) b = decide (c < b.toNat) := by
  rw [Bool.eq_iff_iff]
  simp only [BitVec.slt, BitVec.toInt_eq_toNat_cond, BitVec.toNat_ofNat, decide_eq_true_eq]
  rw [Nat.mod_eq_of_lt (show c < 2 ^ 32 by omega)]
  split <;> split <;> omega
theorem slt32_zero (b : BitVec 32) : BitVec.slt b 0#32 = decide (2^31 ≤ b.toNat) := by
  have := b.isLt
  rw [Bool.eq_iff_iff]
  simp only [BitVec.slt, BitVec.toInt_eq_toNat_cond, BitVec.toNat_ofNat, decide_eq_true_eq]
  split <;> omega
theorem sub32_toNat (c : Nat) (b : BitVec 32) (hc : c < 2^31) (hb : b.toNat ≤ c) :
    (BitVec.ofNat 32 c - b).toNat = c - b.toNat := by
  have := b.isLt
  simp only [BitVec.toNat_sub, BitVec.toNat_ofNat]; omega

theorem isSmall_toM (z : MpaInt) : (toM z).isSmall = decide (z.1.toNat ≤ 64) := rfl
theorem tie_isSmall (z : MpaInt) (hz : BitsOk z) : Int.isSmall z = (toM z).isSmall := by
  rw [isSmall_toM, Int.isSmall]
  -- `z.bits <= 64`, `!(z.bits > 64)`, `64 >= z.bits`, ...
  by_cases h : z.1.toNat ≤ 64
  · simp [sle32_lit z.1 64 hz (by omega), slt32_lit z.1 64 hz (by omega), h, show ¬ (64 < z.1.toNat) by omega]
  · simp [sle32_lit z.1 64 hz (by omega), slt32_lit z.1 64 hz (by omega), h, show 64 < z.1.toNat by omega]

theorem tie_small (z : MpaInt) : Int.small z = (toM z).small := by
  obtain ⟨b, i, v⟩ := z
  cases v <;> simp [Int.small, MInt.small, toM]

theorem tie_setSmall (z : MpaInt) (x : BitVec 64) (hz : BitsOk z) :
    (Int.setSmall z x).map toM = Mpa.setSmall z.1.toNat x := by
  have hall : (0xffffffffffffffff#64) = BitVec.allOnes 64 := by decide
  simp only [Int.setSmall, Mpa.setSmall, Mpa.mask, slt32_lit z.1 64 hz (by omega), slt32_zero, hall]
  by_cases h : 64 < z.1.toNat
  · simp [h]
  · have h2 := sub32_toNat 64 z.1 (by omega) (by omega)
    simp [h, h2, toM, show ¬ (2^31 ≤ 64 - z.1.toNat) by omega]

/-- Every `z.setSmall(v); return z` method: `Op z x y large = setSmall z.bits v` on the small path. -/
theorem small_op (z : MpaInt) (v : BitVec 64) (hz : BitsOk z) :
    (Option.elim (Int.setSmall z v) none (fun c => some c)).map toM = Mpa.setSmall (toM z).bits v := by
  rw [show (toM z).bits = z.1.toNat from rfl, ← tie_setSmall z v hz]
  cases Int.setSmall z v <;> rfl

/-- The same when the value is written differently (`y*x` for `x*y`, ...). -/
theorem small_op' (z : MpaInt) (v v' : BitVec 64) (hz : BitsOk z) (h : v = v') :
    (Option.elim (Int.setSmall z v) none (fun c => some c)).map toM = Mpa.setSmall (toM z).bits v' := h ▸ small_op z v hz

/-- `if z.isSmall() { z.setSmall(v); return z }; <large path>`: selects the small path whether the test is the call of
`isSmall` or its body inlined, and closes the goal up to associativity / commutativity of the value. -/
macro "small_path" z:term "," hz:term "," hs:term : tactic =>
  `(tactic| (have hb : ($z : MpaInt).1.toNat ≤ 64 := by simpa [isSmall_toM] using $hs
             simp only [tie_isSmall $z $hz, $hs:term, sle32_lit ($z : MpaInt).1 64 $hz (by omega),
               slt32_lit ($z : MpaInt).1 64 $hz (by omega), hb, decide_true, Bool.not_true, Bool.not_false, Bool.false_eq_true,
               show ¬ (64 < ($z : MpaInt).1.toNat) by omega, decide_false, if_true, if_false, tie_small]
             refine small_op' $z _ _ $hz ?_
             first | rfl | ac_rfl | (simp only [BitVec.mul_comm, BitVec.add_comm, BitVec.and_comm, BitVec.or_comm, BitVec.xor_comm])))

theorem tie_Add (z x y : MpaInt) (large : Option MpaInt) (hz : BitsOk z) (hs : (toM z).isSmall = true) :
    (Int.Add z x y large).map toM = Mpa.add (toM z) (toM x) (toM y) := by
  simp only [Int.Add, Mpa.add]
  small_path z, hz, hs
theorem tie_Sub (z x y : MpaInt) (large : Option MpaInt) (hz : BitsOk z) (hs : (toM z).isSmall = true) :
    (Int.Sub z x y large).map toM = Mpa.sub (toM z) (toM x) (toM y) := by
  simp only [Int.Sub, Mpa.sub]
  small_path z, hz, hs
theorem tie_Mul (z x y : MpaInt) (large : Option MpaInt) (hz : BitsOk z) (hs : (toM z).isSmall = true) :
    (Int.Mul z x y large).map toM = Mpa.mul (toM z) (toM x) (toM y) := by
  simp only [Int.Mul, Mpa.mul]
  small_path z, hz, hs
theorem tie_And (z x y : MpaInt) (large : Option MpaInt) (hz : BitsOk z) (hs : (toM z).isSmall = true) :
    (Int.And z x y large).map toM = Mpa.and (toM z) (toM x) (toM y) := by
  simp only [Int.And, Mpa.and, Mpa.bitwise]
  small_path z, hz, hs
theorem tie_Or (z x y : MpaInt) (large : Option MpaInt) (hz : BitsOk z) (hs : (toM z).isSmall = true) :
    (Int.Or z x y large).map toM = Mpa.or (toM z) (toM x) (toM y) := by
  simp only [Int.Or, Mpa.or, Mpa.bitwise]
  small_path z, hz, hs
theorem tie_Xor (z x y : MpaInt) (large : Option MpaInt) (hz : BitsOk z) (hs : (toM z).isSmall = true) :
    (Int.Xor z x y large).map toM = Mpa.xor (toM z) (toM x) (toM y) := by
  simp only [Int.Xor, Mpa.xor, Mpa.bitwise]
  small_path z, hz, hs
theorem tie_AndNot (z x y : MpaInt) (large : Option MpaInt) (hz : BitsOk z) (hs : (toM z).isSmall = true) :
    (Int.AndNot z x y large).map toM = Mpa.andNot (toM z) (toM x) (toM y) := by
  simp only [Int.AndNot, Mpa.andNot, Mpa.bitwise]
  small_path z, hz, hs
theorem tie_Lsh (z x : MpaInt) (n : BitVec 64) (large : Option MpaInt) (hz : BitsOk z) (hs : (toM z).isSmall = true) :
    (Int.Lsh z x n large).map toM = Mpa.lsh (toM z) (toM x) n.toNat := by
  simp only [Int.Lsh, Mpa.lsh]
  small_path z, hz, hs
theorem tie_Rsh (z x : MpaInt) (n : BitVec 64) (alias : Bool) (large : Option MpaInt) (hz : BitsOk z)
    (hs : (toM z).isSmall = true) :
    (Int.Rsh z x n large).map toM = Mpa.rsh (toM z) (toM x) n.toNat alias := by
  simp only [Int.Rsh, Mpa.rsh]
  small_path z, hz, hs



theorem tie_Div (z x y : MpaInt) (large : Option MpaInt) (hz : BitsOk z) (hs : (toM z).isSmall = true) :
    (Int.Div z x y large).map toM = Mpa.div (toM z) (toM x) (toM y) := by
  have hm1 : (-1#64) = BitVec.allOnes 64 := by decide
  simp only [Int.Div, Mpa.div, tie_isSmall z hz, hs, if_true, tie_small, hm1]
  by_cases h0 : (toM y).small = 0#64
  · simp only [h0, bne, beq_self_eq_true, Bool.not_true, Bool.false_eq_true, if_true, if_false]; exact small_op z _ hz
  · have hb : ((toM y).small == 0#64) = false := by simpa using h0
    simp only [h0, hb, bne, Bool.not_false, Bool.false_eq_true, if_true, if_false]; exact small_op z _ hz

theorem tie_Mod (z x y : MpaInt) (large : Option MpaInt) (hz : BitsOk z) (hs : (toM z).isSmall = true) :
    (Int.Mod z x y large).map toM = Mpa.mod (toM z) (toM x) (toM y) := by
  simp only [Int.Mod, Mpa.mod, tie_isSmall z hz, hs, if_true, tie_small]
  by_cases h0 : (toM y).small = 0#64
  · simp only [h0, bne, beq_self_eq_true, Bool.not_true, Bool.false_eq_true, if_true, if_false]; exact small_op z _ hz
  · have hb : ((toM y).small == 0#64) = false := by simpa using h0
    simp only [h0, hb, bne, Bool.not_false, Bool.false_eq_true, if_true, if_false]; exact small_op z _ hz

theorem tie_Bit (z : MpaInt) (i : BitVec 64) (large : BitVec 64) (hz : BitsOk z) (hs : (toM z).isSmall = true) :
    Int.Bit z i large = if (toM z).bit i.toNat then 1#64 else 0#64 := by
  have h1 : (0x1#64) = 1#64 := rfl
  simp only [Int.Bit, MInt.bit, tie_isSmall z hz, hs, if_true, tie_small, h1]
  have := and_one ((toM z).small.sshiftRight i.toNat) 0
  simpa using this

theorem tie_Sign (z : MpaInt) (large : BitVec 64) (hz : BitsOk z) (hs : (toM z).isSmall = true) :
    (Int.Sign z large).toInt = (toM z).sign := by
  simp only [Int.Sign, MInt.sign, tie_isSmall z hz, hs, if_true, tie_small]
  generalize (toM z).small = v
  have h0 : (0#64).toInt = 0 := by decide
  simp only [BitVec.slt, h0]
  by_cases h1 : v.toInt < 0
  · simp [h1]
  · by_cases h2 : 0 < v.toInt
    · simp [h1, h2]
    · simp [h1, h2]

theorem sub32_one (b : BitVec 32) (h : 0 < b.toNat) : (b - 1#32).toNat = b.toNat - 1 := by
  have := b.isLt
  simp only [BitVec.toNat_sub, BitVec.toNat_ofNat]; omega

theorem tie_Int64 (z : MpaInt) (large : Option (BitVec 64)) (hz : BitsOk z) (hs : (toM z).isSmall = true) :
    Int.Int64 z large = (toM z).int64 := by
  have hb : z.1.toNat ≤ 64 := by simpa [isSmall_toM] using hs
  have h1 : (0x1#64) = 1#64 := rfl
  simp only [Int.Int64, MInt.int64, tie_isSmall z hz, hs, if_true, tie_small, slt32_zero, h1]
  rw [show (toM z).bits = z.1.toNat from rfl]
  by_cases h0 : z.1.toNat = 0
  · have hz0 : z.1 = 0#32 := BitVec.eq_of_toNat_eq (by simpa using h0)
    simp [h0, hz0]
  · have hs1 := sub32_one z.1 (by omega)
    have h64 : (z.1 == 64#32) = decide (z.1.toNat = 64) := by
      rw [Bool.eq_iff_iff]; simp only [beq_iff_eq, decide_eq_true_eq]
      constructor
      · intro h; rw [h]; rfl
      · intro h; exact BitVec.eq_of_toNat_eq (by simpa using h)
    have hne : (z.1 = 64#32) ↔ z.1.toNat = 64 := by simpa using congrArg (· = true) h64
    simp only [h0, hs1, h64, bne, show ¬ (2^31 ≤ z.1.toNat - 1) by omega, decide_false, Bool.false_eq_true, if_false]
    by_cases hA : z.1.toNat = 64
    · simp [hA, hne]
    · by_cases hB : (toM z).small &&& 1#64 <<< (z.1.toNat - 1) = 0#64
      · simp [hA, hB, hne]
      · simp [hA, hB, hne]

theorem tie_Cmp (z x : MpaInt) (l1 l2 l3 : Option (BitVec 64)) (hz : BitsOk z) (hx : BitsOk x)
    (hs : (toM z).isSmall = true) (hsx : (toM x).isSmall = true) :
    (Int.Cmp z x l1 l2 l3).map BitVec.toInt = Mpa.cmp (toM z) (toM x) := by
  simp only [Int.Cmp, Mpa.cmp, tie_isSmall z hz, tie_isSmall x hx, hs, hsx, Bool.and_self, and_self, if_true,
    tie_Int64 z l1 hz hs, tie_Int64 x l2 hx hsx]
  cases (toM z).int64 with
  | none => rfl
  | some a =>
    cases (toM x).int64 with
    | none => rfl
    | some b =>
      simp only [Option.elim, BitVec.slt, cmpInt, bind, Option.bind, pure]
      by_cases h1 : a.toInt < b.toInt
      · simp [h1]
      · by_cases h2 : b.toInt < a.toInt
        · simp [h1, h2]
        · simp [h1, h2]


/-- `(0xffffffffffffffff << L) & v == 0` says that `v` has at most `L` bits. -/
theorem high_mask_eq_zero (v : BitVec 64) (L : Nat) :
    ((BitVec.allOnes 64 <<< L) &&& v == 0#64) = decide (v.toNat < 2 ^ L) := by
  rw [Bool.eq_iff_iff]
  simp only [beq_iff_eq, decide_eq_true_eq]
  constructor
  · intro h
    apply Nat.lt_pow_two_of_testBit
    intro i hi
    have := congrArg (fun x => x.getLsbD i) h
    simp only [BitVec.getLsbD_and, BitVec.getLsbD_shiftLeft, BitVec.getLsbD_allOnes, BitVec.getLsbD_zero] at this
    by_cases h64 : i < 64
    · have hl : ¬ (i < L) := by omega
      simp only [h64, hl, decide_true, decide_false, Bool.not_false, Bool.true_and, show i - L < 64 by omega] at this
      exact this
    · exact BitVec.getLsbD_of_ge _ _ (by omega)
  · intro h
    apply BitVec.eq_of_getLsbD_eq
    intro i hi
    simp only [BitVec.getLsbD_and, BitVec.getLsbD_shiftLeft, BitVec.getLsbD_allOnes, BitVec.getLsbD_zero]
    by_cases hl : i < L
    · simp [hl]
    · have : v.toNat.testBit i = false :=
        Nat.testBit_lt_two_pow (Nat.lt_of_lt_of_le h (Nat.pow_le_pow_right (by omega) (by omega)))
      simp [BitVec.getLsbD, this]

theorem bitLen64_le_of_lt' (v : BitVec 64) (h : v.toNat < 2 ^ 63) : bitLen64 v ≤ 63 := by
  unfold bitLen64
  by_cases h0 : v.toNat = 0
  · simp [h0]
  · rw [if_neg h0]
    have := (Nat.log2_lt h0).mpr h
    omega

theorem high_mask_eq_zero' (v : BitVec 64) (L : Nat) :
    (v &&& (BitVec.allOnes 64 <<< L) == 0#64) = decide (v.toNat < 2 ^ L) := by
  rw [BitVec.and_comm, high_mask_eq_zero]

/-- State of the loop of `BitLen` after `k` iterations. -/
def blState (v : BitVec 64) (k : Nat) : Bool × BitVec 64 :=
  if 0 < k ∧ v.toNat < 2 ^ k then (true, BitVec.ofNat 64 (bitLen64 v)) else (false, BitVec.ofNat 64 (k + 1))

theorem bitLen64_of_range (v : BitVec 64) (k : Nat) (h1 : 2 ^ k ≤ v.toNat ∨ k = 0) (h2 : v.toNat < 2 ^ (k + 1)) :
    bitLen64 v = k + 1 := by
  unfold bitLen64
  by_cases h0 : v.toNat = 0
  · rcases h1 with h1 | h1
    · have : 0 < 2 ^ k := Nat.two_pow_pos k
      omega
    · simp [h0, h1]
  · rw [if_neg h0]
    rcases h1 with h1 | h1
    · rw [(Nat.log2_eq_iff h0).mpr ⟨h1, h2⟩]
    · subst h1
      have : v.toNat = 1 := by omega
      rw [this]; decide

theorem tie_BitLen (z : MpaInt) (large : BitVec 64) (hz : BitsOk z) (hs : (toM z).isSmall = true) :
    (Int.BitLen z large).toNat = (toM z).bitLen := by
  have hall : (0xffffffffffffffff#64) = BitVec.allOnes 64 := by decide
  simp only [Int.BitLen, MInt.bitLen, tie_isSmall z hz, hs, if_true, tie_small, hall]
  generalize (toM z).small = v
  rw [foldl_range_eq _ (blState v) 63 (false, 1#64)]
  · -- the value after the loop
    have hv := v.isLt
    simp only [blState]
    by_cases h : v.toNat < 2 ^ 63
    · have := bitLen64_le_of_lt' v h
      simp only [h, show 0 < 63 by omega, and_self, if_true, BitVec.toNat_ofNat]; omega
    · have := bitLen64_of_range v 63 (Or.inl (by omega)) (by omega)
      simp [h, this]
  · simp [blState]
  · intro k hk
    simp only [blState]
    by_cases hb : 0 < k ∧ v.toNat < 2 ^ k
    · have : v.toNat < 2 ^ (k + 1) := by rw [Nat.pow_succ]; omega
      simp [hb, this]
    · have hL : (BitVec.ofNat 64 (k + 1)).toNat = k + 1 := by simp only [BitVec.toNat_ofNat]; omega
      simp only [hb, if_false, Bool.false_eq_true, hL, high_mask_eq_zero, high_mask_eq_zero']
      by_cases ht : v.toNat < 2 ^ (k + 1)
      · have h1 : 2 ^ k ≤ v.toNat ∨ k = 0 := by
          by_cases hk0 : k = 0
          · exact Or.inr hk0
          · exact Or.inl (by have : 0 < k := by omega
                             simp only [this, true_and] at hb; omega)
        have := bitLen64_of_range v k h1 ht
        simp [ht, this]
      · simp [ht, BitVec.ofNat_add]

/-! ### Concrete values of the generated definitions -/

example : Int.setSmall (8#32, 0#64, none) 0x1ff#64 = some (8#32, 0xff#64, none) := by decide
example : Int.Add (8#32, 0#64, none) (8#32, 200#64, none) (8#32, 100#64, none) none = some (8#32, 44#64, none) := by decide
example : Int.Int64 (8#32, 0xff#64, none) none = some (-1#64) := by decide
example : Int.setSmall (65#32, 0#64, none) 1#64 = none := by decide
example : Int.BitLen (64#32, 5#64, none) 0#64 = 3#64 := by decide +kernel

end Mpc.GenTie

/-
Lemmas about package-level declarations (`Model/MpclPkg.lean`): the
elaboration is conservative, the prelude builds the package-level environment
underneath everything the body declares, lookups resolve to the most recent
declaration.
-/
import MpcVerif.Model.MpclPkg

namespace Mpc.Mpcl

theorem elabFunc_nil (fn : Func) : elabFunc [] fn = fn := by
  cases fn
  simp [elabFunc, prelude, visibleGlobals]

theorem elab_nil (P : Prog) : (Pkg.mk [] P).elab = P := by
  simp only [Pkg.elab]
  induction P with
  | nil => rfl
  | cons fn r ih => simp [List.map, elabFunc_nil, ih] at *

/-- One package-level declaration executed as a statement declares its name
with its start value in the innermost scope. -/
theorem exec_gdecl (P : Prog) (k : Nat) (g : GDecl) (v : Val) (env : Env)
    (hv : g.val = some v) (ht : v.hasTy g.t = true) :
    execS P (k + 2) g.stmt env = some (.normal (env.declare g.x v)) := by
  cases g with
  | mk x t init isConst =>
    cases init with
    | none =>
      simp only [GDecl.val] at hv
      simp only [Option.some.injEq] at hv
      subst hv
      simp [GDecl.stmt, execS]
    | some n =>
      simp only [GDecl.val] at hv
      simp only [GDecl.stmt, Option.map, execS, evalE, hv]
      simp only at ht
      simp [ht]

/-- Executing the declarations `gs` in front of `body` from the scope `sc`
(parameters) is executing `body` in the scope `globalScope gs sc`: the
package-level names with their start values, then the parameters.  The prelude
consumes one unit of fuel per declaration. -/
theorem exec_prelude (P : Prog) (body : List Stmt) (f : Nat) :
    ∀ (gs : List GDecl) (sc : Scope), (∀ g ∈ gs, g.ok = true) →
      ∃ sc', globalScope gs sc = some sc' ∧
        execB P (f + 2 + gs.length) (gs.map GDecl.stmt ++ body) [sc] = execB P (f + 2) body [sc'] := by
  intro gs
  induction gs with
  | nil => intro sc _; exact ⟨sc, rfl, by simp⟩
  | cons g gs ih =>
    intro sc hok
    have hg : g.ok = true := hok g (by simp)
    have hrest : ∀ g' ∈ gs, g'.ok = true := fun g' hg' => hok g' (by simp [hg'])
    simp only [GDecl.ok] at hg
    cases hv : g.val with
    | none => simp [hv] at hg
    | some v =>
      simp only [hv] at hg
      obtain ⟨sc', hsc', hex⟩ := ih ((g.x, v) :: sc) hrest
      refine ⟨sc', by simp [globalScope, hv, hg, hsc'], ?_⟩
      have e : f + 2 + (g :: gs).length = (f + gs.length + 2) + 1 := by simp; omega
      rw [e]
      simp only [List.map_cons, List.cons_append, execB]
      rw [exec_gdecl P (f + gs.length) g v [sc] hv hg]
      simp only [Env.declare]
      have e2 : f + gs.length + 2 = f + 2 + gs.length := by omega
      rw [e2]
      exact hex

/-- A name no declaration of `gs` declares keeps its binding in `globalScope`. -/
theorem globalScope_lookup_other : ∀ (gs : List GDecl) (sc gsc : Scope) (x : String),
    globalScope gs sc = some gsc → (∀ g ∈ gs, g.x ≠ x) → Scope.lookup gsc x = Scope.lookup sc x := by
  intro gs
  induction gs with
  | nil => intro sc gsc x h _; simp [globalScope] at h; subst h; rfl
  | cons g gs ih =>
    intro sc gsc x h hx
    simp only [globalScope] at h
    cases hv : g.val with
    | none => simp [hv] at h
    | some v =>
      simp only [hv] at h
      by_cases ht : v.hasTy g.t = true
      · simp only [ht, if_true] at h
        rw [ih ((g.x, v) :: sc) gsc x h (fun g' hg' => hx g' (by simp [hg']))]
        have hne : x ≠ g.x := fun e => hx g (by simp) e.symm
        simp [Scope.lookup, hne]
      · simp [ht] at h

/-- A declared name is bound to its start value (names distinct). -/
theorem globalScope_lookup_declared : ∀ (gs : List GDecl) (sc gsc : Scope) (g : GDecl),
    distinctNames (gs.map (·.x)) = true → g ∈ gs → globalScope gs sc = some gsc →
      Scope.lookup gsc g.x = g.val := by
  intro gs
  induction gs with
  | nil => intro sc gsc g _ hg; simp at hg
  | cons g0 gs ih =>
    intro sc gsc g hd hg h
    simp only [List.map_cons, distinctNames, Bool.and_eq_true, Bool.not_eq_true'] at hd
    simp only [globalScope] at h
    cases hv : g0.val with
    | none => simp [hv] at h
    | some v =>
      simp only [hv] at h
      by_cases ht : v.hasTy g0.t = true
      · simp only [ht, if_true] at h
        rcases List.mem_cons.1 hg with e | hin
        · subst e
          have hnot : ∀ g' ∈ gs, g'.x ≠ g.x := by
            intro g' hg' e
            have hc : (gs.map (·.x)).contains g.x = true := by
              simp only [List.contains_eq_mem, List.mem_map, decide_eq_true_eq]
              exact ⟨g', hg', e⟩
            have h1 := hd.1
            rw [hc] at h1
            exact Bool.noConfusion h1
          rw [globalScope_lookup_other gs _ gsc g.x h hnot]
          simp [Scope.lookup, hv]
        · exact ih _ gsc g hd.2 hin h
      · simp [ht] at h

/-- A name declared in a scope is found there first ... -/
theorem lookup_declare_same (env : Env) (x : String) (v : Val) :
    (env.declare x v).lookup x = some v := by
  cases env with
  | nil => simp [Env.declare, Env.lookup, Scope.lookup]
  | cons s r => simp [Env.declare, Env.lookup, Scope.lookup]

/-- ... and no other name is affected. -/
theorem lookup_declare_other (env : Env) (x y : String) (v : Val) (h : y ≠ x) :
    (env.declare x v).lookup y = env.lookup y := by
  cases env with
  | nil => simp [Env.declare, Env.lookup, Scope.lookup, h]
  | cons s r => simp [Env.declare, Env.lookup, Scope.lookup, h]

/-- Assignment to a name goes to its most recent declaration: the shadowed
(package-level) binding underneath keeps its value. -/
theorem set_declare_same (env : Env) (x : String) (v v' : Val) :
    (env.declare x v).set x v' = some (env.declare x v') := by
  cases env with
  | nil => simp [Env.declare, Env.set, Scope.set]
  | cons s r => simp [Env.declare, Env.set, Scope.set]

/-- Lookup in a scope built by appending: the front part (declared later) wins. -/
theorem scope_lookup_append (a b : Scope) (x : String) :
    Scope.lookup (a ++ b) x = match Scope.lookup a x with
      | some v => some v
      | none => Scope.lookup b x := by
  induction a with
  | nil => simp [Scope.lookup]
  | cons p a ih =>
    obtain ⟨y, w⟩ := p
    simp only [List.cons_append, Scope.lookup]
    by_cases h : x = y
    · simp [h]
    · simp [h, ih]

/-- Lookup through a stack of scopes: inner scopes first. -/
theorem env_lookup_append (a b : Env) (x : String) :
    Env.lookup (a ++ b) x = match Env.lookup a x with
      | some v => some v
      | none => Env.lookup b x := by
  induction a with
  | nil => simp [Env.lookup]
  | cons s a ih =>
    simp only [List.cons_append, Env.lookup]
    cases Scope.lookup s x with
    | some v => simp
    | none => simpa using ih

end Mpc.Mpcl

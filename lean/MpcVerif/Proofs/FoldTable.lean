/-
Helper lemmas for the constant-table theorems of Props/C12.lean
(Model/FoldTable.lean): what `table` keeps, what `lookup` finds, and the
injectivity of the decimal naming.
-/
import MpcVerif.Model.FoldTable
import Std.Data.String.ToNat
import Std.Data.String.ToInt

namespace Mpc.Fold
open Mpc.Mpa

section Generic
variable {α : Type}

theorem mem_register (nm : α → String) (tbl : List α) (c x : α) :
    x ∈ register nm tbl c → x ∈ tbl ∨ x = c := by
  unfold register
  split
  · exact Or.inl
  · intro h
    rcases List.mem_append.mp h with h | h
    · exact Or.inl h
    · exact Or.inr (by simpa using h)

theorem mem_register_of_mem (nm : α → String) (tbl : List α) (c x : α) (h : x ∈ tbl) : x ∈ register nm tbl c := by
  unfold register
  split
  · exact h
  · exact List.mem_append.mpr (Or.inl h)

/-- After registering `c` some entry carries `c`'s name. -/
theorem register_has (nm : α → String) (tbl : List α) (c : α) : ∃ e ∈ register nm tbl c, nm e = nm c := by
  unfold register
  split
  · rename_i h
    obtain ⟨e, he, hn⟩ := List.any_eq_true.mp h
    exact ⟨e, he, by simpa using hn⟩
  · exact ⟨c, List.mem_append.mpr (Or.inr (by simp)), rfl⟩

theorem foldl_register_sub (nm : α → String) (regs : List α) :
    ∀ (acc : List α) (x : α), x ∈ regs.foldl (register nm) acc → x ∈ acc ∨ x ∈ regs := by
  induction regs with
  | nil => intro acc x h; exact Or.inl h
  | cons r rest ih =>
    intro acc x h
    rcases ih (register nm acc r) x h with h | h
    · rcases mem_register nm acc r x h with h | h
      · exact Or.inl h
      · exact Or.inr (by simp [h])
    · exact Or.inr (List.mem_cons_of_mem _ h)

theorem foldl_register_keeps (nm : α → String) (regs : List α) :
    ∀ (acc : List α) (x : α), x ∈ acc → x ∈ regs.foldl (register nm) acc := by
  induction regs with
  | nil => intro acc x h; exact h
  | cons r rest ih => intro acc x h; exact ih _ x (mem_register_of_mem nm acc r x h)

theorem foldl_register_has (nm : α → String) (regs : List α) :
    ∀ (acc : List α) (c : α), c ∈ regs → ∃ e ∈ regs.foldl (register nm) acc, nm e = nm c := by
  induction regs with
  | nil => intro acc c h; cases h
  | cons r rest ih =>
    intro acc c h
    rcases List.mem_cons.mp h with h | h
    · subst h
      obtain ⟨e, he, hn⟩ := register_has nm acc c
      exact ⟨e, foldl_register_keeps nm rest _ e he, hn⟩
    · exact ih _ c h

/-- A registered constant finds an entry of its name, and that entry is one of the registered constants. -/
theorem lookup_table (nm : α → String) (regs : List α) (c : α) (hc : c ∈ regs) :
    ∃ e, lookup nm (table nm regs) c = some e ∧ nm e = nm c ∧ e ∈ regs := by
  obtain ⟨e₀, he₀, hn₀⟩ := foldl_register_has nm regs [] c hc
  unfold lookup
  cases hf : (table nm regs).find? (fun e => nm e == nm c) with
  | none =>
    have := List.find?_eq_none.mp hf e₀ he₀
    simp [hn₀] at this
  | some e =>
    have hp := List.find?_some hf
    have hm := List.mem_of_find?_eq_some hf
    refine ⟨e, rfl, by simpa using hp, ?_⟩
    rcases foldl_register_sub nm regs [] e hm with h | h
    · cases h
    · exact h

/-- **Every registered constant, used at its registered width, gets its own wires — for every program —
exactly when the naming separates constants of one width that have different wires.** -/
theorem const_table_exact_iff (nm : α → String) (bits wires : α → Nat) :
    (∀ (regs : List α) (c : α), c ∈ regs →
        seenWires nm bits wires (table nm regs) c (bits c) (wires c) = wires c)
    ↔ (∀ c d : α, nm c = nm d → bits c = bits d → wires c = wires d) := by
  constructor
  · intro h c d hn hb
    have := h [d, c] c (by simp)
    have ht : table nm [d, c] = [d] := by simp [table, register, hn]
    rw [ht] at this
    simp [seenWires, lookup, hn, hb] at this
    exact this.symm
  · intro h regs c hc
    obtain ⟨e, hl, hn, _⟩ := lookup_table nm regs c hc
    simp only [seenWires, hl]
    split
    · rename_i hb
      exact h e c hn hb
    · rfl

end Generic

/-! ## The decimal naming is injective; a naming that mixes two bases is not -/

theorem decName_injective {a b : Nat} (h : decName a = decName b) : a = b := by
  unfold decName at h
  exact Nat.repr_inj.mp ((String.append_right_inj "$").mp h)

theorem mixedName_collision : mixedName (2 ^ 64) = mixedName (10 ^ 16) ∧ (2 : Nat) ^ 64 ≠ 10 ^ 16 := by decide

/-- Integer constants of one Name have one printed value. -/
theorem cvName_int_injective {t t' : TInfo} {v v' : MInt} (h : cvName (.int t v) = cvName (.int t' v')) :
    v.value = v'.value := by
  simp only [cvName] at h
  exact Int.repr_inj.mp ((String.append_right_inj "$").mp h)

/-! ## The result of every item of a `multi` program is among the program's registrations -/

theorem result_mem_item_registrations (it : Item) (vars : Bool) (l : List CV) (s : CV)
    (hl : it.registrations vars = .ok l) (hs : it.result = .ok s) : s ∈ l := by
  unfold Item.registrations at hl
  rw [hs] at hl
  simp only [bind, Except.bind, pure, Except.pure] at hl
  cases vars with
  | false => simp at hl; subst hl; simp
  | true =>
    simp only [Bool.not_true, Bool.false_eq_true, if_false] at hl
    cases hop : it.op with
    | none => rw [hop] at hl; simp at hl; subst hl; simp
    | some op =>
      rw [hop] at hl
      simp only at hl
      cases hl1 : typedConst it.k it.n it.a it.af with
      | error e => rw [hl1] at hl; simp at hl
      | ok l1 =>
        rw [hl1] at hl
        simp only at hl
        split at hl
        · simp at hl; subst hl; simp
        · cases hr1 : typedConst it.k it.n it.b it.bf with
          | error e => rw [hr1] at hl; simp at hl
          | ok r1 => rw [hr1] at hl; simp at hl; subst hl; simp

theorem result_mem_registrations (vars : Bool) :
    ∀ (items : List Item) (regs : List CV), registrations vars items = .ok regs →
      ∀ (it : Item) (s : CV), it ∈ items → it.result = .ok s → s ∈ regs := by
  intro items
  induction items with
  | nil => intro regs _ it s h; cases h
  | cons i rest ih =>
    intro regs hr it s hit hs
    unfold registrations at hr
    simp only [bind, Except.bind, pure, Except.pure] at hr
    cases ha : i.registrations vars with
    | error e => rw [ha] at hr; simp at hr
    | ok a =>
      rw [ha] at hr
      simp only at hr
      cases hb : registrations vars rest with
      | error e => rw [hb] at hr; simp at hr
      | ok b =>
        rw [hb] at hr
        simp only [Except.ok.injEq] at hr
        subst hr
        rcases List.mem_cons.mp hit with h | h
        · subst h
          exact List.mem_append.mpr (Or.inl (result_mem_item_registrations it vars a s ha hs))
        · exact List.mem_append.mpr (Or.inr (ih b hb it s h hs))

end Mpc.Fold

/-
Helper lemmas for Props/C12.lean: masking (`setSmall`), `Generator.Constant`
never panics, the low wires of a small constant, and per operator the shape of
`Binary.evalConst`'s result on the small path together with the bit-vector
facts that relate Go's int64 arithmetic on the (masked / extended) operands to
the run-time instruction on `n`-bit operands.
-/
import MpcVerif.Model.Fold
namespace Mpc.Fold
open Mpc.Mpa

instance {α} [DecidableEq α] : DecidableEq (Res α) := fun a b =>
  match a, b with
  | .ok x, .ok y => if h : x = y then isTrue (by rw [h]) else isFalse (by intro h'; cases h'; exact h rfl)
  | .error x, .error y => if h : x = y then isTrue (by rw [h]) else isFalse (by intro h'; cases h'; exact h rfl)
  | .ok _, .error _ => isFalse (by intro h; cases h)
  | .error _, .ok _ => isFalse (by intro h; cases h)

theorem getLsbD_mask (B i : Nat) (hB : B ≤ 64) : (mask B).getLsbD i = decide (i < B) := by
  unfold mask
  rw [BitVec.getLsbD_ushiftRight, BitVec.getLsbD_allOnes]
  by_cases h : i < B <;> simp [h] <;> omega

theorem setWidth_and_mask (x : BitVec 64) (n B : Nat) (hn : n ≤ B) (hB : B ≤ 64) :
    (x &&& mask B).setWidth n = x.setWidth n := by
  apply BitVec.eq_of_getLsbD_eq
  intro i hi
  simp [BitVec.getLsbD_setWidth, getLsbD_mask B i hB]
  intro _ _
  omega

theorem setSmall_eq (B : Nat) (x : BitVec 64) (hB : B ≤ 64) :
    setSmall B x = some { bits := B, i64 := x &&& mask B, big := none } := by
  unfold setSmall
  simp
  omega

theorem le_constSize (b : Nat) : b ≤ constSize b := by
  unfold constSize
  split
  · omega
  · split <;> omega

theorem constSize_le_64 (b : Nat) (h : b ≤ 64) : constSize b ≤ 64 := by
  unfold constSize
  split
  · omega
  · split <;> omega

theorem bitLen64_le (v : BitVec 64) : bitLen64 v ≤ 64 := by
  unfold bitLen64
  split
  · omega
  · have h := v.isLt
    have : Nat.log2 v.toNat < 64 := by
      rw [Nat.log2_lt (by omega)]; exact h
    omega

/-- `Generator.Constant` never takes its panic branch. -/
theorem constantMpa_ok (val : MInt) (t : TInfo) :
    constantMpa val (some t) =
      .ok (.int ⟨t.kind, if t.bits < constSize val.bitLen then constSize val.bitLen else t.bits, val.bitLen⟩
        { val with bits := constSize val.bitLen }) := by
  unfold constantMpa
  have := le_constSize val.bitLen
  simp only []
  split
  · rw [if_neg (by omega)]
  · rw [if_neg (by omega)]

theorem seenBV_small (n : Nat) (t : TInfo) (v : MInt) (hs : v.bits ≤ 64) (hn : n ≤ t.bits) :
    seenBV n (.int t v) = v.small.setWidth n := by
  unfold seenBV constWires
  have : v.isSmall = true := by simp [MInt.isSmall, hs]
  simp only [this, if_true]
  apply BitVec.eq_of_toNat_eq
  simp only [BitVec.toNat_ofNat, BitVec.toNat_setWidth]
  exact Nat.mod_mod_of_dvd _ (Nat.pow_dvd_pow 2 hn)


/-- The seven operators whose small path is `setSmall z.bits (x op y)`. -/
def wrap64 (op : Op) (x y : BitVec 64) : BitVec 64 :=
  match op with
  | .add => x + y
  | .sub => x - y
  | .mul => x * y
  | .band => x &&& y
  | .bor => x ||| y
  | .bxor => x ^^^ y
  | _ => x &&& ~~~y

def Op.isWrap : Op → Bool
  | .add | .sub | .mul | .band | .bor | .bxor | .bclr => true
  | _ => false

theorem setWidth_sub' {w i : Nat} (x y : BitVec w) (h : i ≤ w) :
    (x - y).setWidth i = x.setWidth i - y.setWidth i := by
  rw [BitVec.sub_eq_add_neg, BitVec.setWidth_add _ _ h, BitVec.setWidth_neg_of_le h, ← BitVec.sub_eq_add_neg]

theorem setWidth_wrap64 (op : Op) (hop : op.isWrap = true) (signed : Bool) (x y : BitVec 64) (n cnt : Nat) (hn : n ≤ 64) :
    (wrap64 op x y).setWidth n = circuitOp op signed (x.setWidth n) (y.setWidth n) cnt := by
  cases op <;> simp [Op.isWrap] at hop <;> simp only [wrap64, circuitOp]
  · exact BitVec.setWidth_add x y hn
  · exact setWidth_sub' x y hn
  · exact BitVec.setWidth_mul x y hn
  · exact BitVec.setWidth_and
  · exact BitVec.setWidth_or
  · exact BitVec.setWidth_xor
  · rw [BitVec.setWidth_and, BitVec.setWidth_not hn]

theorem evalBin_wrap (op : Op) (hop : op.isWrap = true) (lt rt : TInfo) (lv rv : MInt)
    (hk : lt.kind = rt.kind) (h0 : 0 < lt.bits) (h64 : lt.bits ≤ 64) :
    evalBin op (.int lt lv) (.int rt rv) =
      constantMpa { bits := lt.bits, i64 := wrap64 op lv.small rv.small &&& mask lt.bits, big := none } (some lt) := by
  have hne : lt.bits ≠ 0 := by omega
  have hsm : (({ bits := lt.bits } : MInt).isSmall) = true := by simp [MInt.isSmall, h64]
  cases op <;> simp [Op.isWrap] at hop <;>
    simp [evalBin, Op.isCmp, Op.isShift, Op.isArith, hk, Mpa.new, hne, liftP, Mpa.add, Mpa.sub, Mpa.mul, Mpa.and, Mpa.or,
      Mpa.xor, Mpa.andNot, Mpa.bitwise, hsm, setSmall_eq _ _ h64, wrap64, bind, Except.bind]


theorem and_mask_eq (x : BitVec 64) (B : Nat) (hB : B ≤ 64) : x &&& mask B = (x.setWidth B).setWidth 64 := by
  apply BitVec.eq_of_getLsbD_eq
  intro i hi
  rw [BitVec.getLsbD_and, getLsbD_mask B i hB, BitVec.getLsbD_setWidth, BitVec.getLsbD_setWidth]
  by_cases h : i < B <;> simp [h, hi]

theorem and_mask_lt (x : BitVec 64) (B : Nat) (hB : B ≤ 64) : (x &&& mask B).toNat < 2 ^ B := by
  rw [and_mask_eq x B hB]
  simp only [BitVec.toNat_setWidth]
  exact Nat.lt_of_le_of_lt (Nat.mod_le _ _) (Nat.mod_lt _ (Nat.two_pow_pos B))

theorem bitLen64_le_of_lt (v : BitVec 64) (B : Nat) (h0 : 0 < B) (h : v.toNat < 2 ^ B) : bitLen64 v ≤ B := by
  unfold bitLen64
  split
  · omega
  · rename_i hv
    have : Nat.log2 v.toNat < B := (Nat.log2_lt hv).2 h
    omega

/-- `- * & | ^ &^` on the small path: for every width `n ≤ lt.bits ≤ 64` and all operand constants
whose `mpa` values are small, folding succeeds, the result keeps the kind, is at least as wide as the left type,
needs at most `lt.bits` bits (so it is assignable to the declared type when `lt.bits = n`) and its low `n`
wires are the run-time instruction applied to the operands' low `n` wires. -/
theorem fold_wrap (op : Op) (hop : op.isWrap = true) (signed : Bool) (n cnt : Nat) (lt rt : TInfo) (lv rv : MInt)
    (hk : lt.kind = rt.kind) (h0 : 0 < lt.bits) (h64 : lt.bits ≤ 64) (hn : n ≤ lt.bits) (hnr : n ≤ rt.bits)
    (hlv : lv.bits ≤ 64) (hrv : rv.bits ≤ 64) :
    ∃ t v, evalBin op (.int lt lv) (.int rt rv) = .ok (.int t v) ∧ t.kind = lt.kind ∧ lt.bits ≤ t.bits ∧
      t.minBits ≤ lt.bits ∧ v.bits ≤ 64 ∧
      seenBV n (.int t v) = circuitOp op signed (seenBV n (.int lt lv)) (seenBV n (.int rt rv)) cnt := by
  rw [evalBin_wrap op hop lt rt lv rv hk h0 h64, constantMpa_ok]
  refine ⟨_, _, rfl, rfl, ?_, ?_, ?_, ?_⟩
  · simp only []; split <;> omega
  · show MInt.bitLen _ ≤ lt.bits
    simp only [MInt.bitLen, MInt.isSmall, h64, decide_true, if_true, MInt.small]
    exact bitLen64_le_of_lt _ _ h0 (and_mask_lt _ _ h64)
  · show constSize (MInt.bitLen _) ≤ 64
    apply constSize_le_64
    simp only [MInt.bitLen, MInt.isSmall, h64, decide_true, if_true, MInt.small]
    exact bitLen64_le _
  · rw [seenBV_small n lt lv hlv hn, seenBV_small n rt rv hrv hnr, seenBV_small]
    · show BitVec.setWidth n (wrap64 op lv.small rv.small &&& mask lt.bits) = _
      rw [setWidth_and_mask _ _ _ hn h64]
      exact setWidth_wrap64 op hop signed _ _ n cnt (by omega)
    · show constSize (MInt.bitLen _) ≤ 64
      apply constSize_le_64
      simp only [MInt.bitLen, MInt.isSmall, h64, decide_true, if_true, MInt.small]
      exact bitLen64_le _
    · simp only []; split <;> omega


/-! ### Result of `constantMpa` on a masked small value -/

theorem seen_const_masked (n B : Nat) (t : TInfo) (x : BitVec 64) (hB : B ≤ 64) (hn : n ≤ B) (hnt : n ≤ t.bits) :
    ∃ t' v, constantMpa { bits := B, i64 := x &&& mask B, big := none } (some t) = .ok (.int t' v) ∧
      t'.kind = t.kind ∧ t.bits ≤ t'.bits ∧ (0 < B → t'.minBits ≤ B) ∧ v.bits ≤ 64 ∧ 0 < v.bits ∧ t'.bits ≤ max t.bits 64 ∧
      v.small = x &&& mask B ∧
      seenBV n (.int t' v) = x.setWidth n := by
  rw [constantMpa_ok]
  have hbl : MInt.bitLen { bits := B, i64 := x &&& mask B, big := none } = bitLen64 (x &&& mask B) := by
    simp only [MInt.bitLen, MInt.isSmall, hB, decide_true, if_true, MInt.small]
  have hcs : constSize (bitLen64 (x &&& mask B)) ≤ 64 := constSize_le_64 _ (bitLen64_le _)
  have hcs0 : 0 < constSize (bitLen64 (x &&& mask B)) := by
    unfold constSize; split; · omega
    split <;> omega
  refine ⟨_, _, rfl, rfl, ?_, ?_, ?_, ?_, ?_, rfl, ?_⟩
  · simp only []; split <;> omega
  · intro h0
    show MInt.bitLen _ ≤ B
    rw [hbl]
    exact bitLen64_le_of_lt _ _ h0 (and_mask_lt _ _ hB)
  · show constSize (MInt.bitLen _) ≤ 64
    rw [hbl]; exact hcs
  · show 0 < constSize (MInt.bitLen _)
    rw [hbl]; exact hcs0
  · simp only [hbl]; split <;> omega
  · rw [seenBV_small]
    · show BitVec.setWidth n (x &&& mask B) = _
      exact setWidth_and_mask _ _ _ hn hB
    · show constSize (MInt.bitLen _) ≤ 64
      rw [hbl]; exact hcs
    · simp only []; split <;> omega

/-! ### shifts -/

theorem evalBin_shl (lt rt : TInfo) (lv rv : MInt) (c : BitVec 64) (hc : rv.int64 = some c) (h0 : 0 < lt.bits)
    (h64 : lt.bits ≤ 64) :
    evalBin .shl (.int lt lv) (.int rt rv) =
      constantMpa { bits := lt.bits, i64 := (lv.small <<< c.toNat) &&& mask lt.bits, big := none } (some lt) := by
  have hne : lt.bits ≠ 0 := by omega
  have hsm : (({ bits := lt.bits } : MInt).isSmall) = true := by simp [MInt.isSmall, h64]
  simp [evalBin, Op.isCmp, Op.isShift, Mpa.new, hne, liftP, hc, Mpa.lsh, hsm, setSmall_eq _ _ h64, bind, Except.bind]

theorem evalBin_shr (lt rt : TInfo) (lv rv : MInt) (c : BitVec 64) (hc : rv.int64 = some c) (h0 : 0 < lt.bits)
    (h64 : lt.bits ≤ 64) :
    evalBin .shr (.int lt lv) (.int rt rv) =
      constantMpa { bits := lt.bits, i64 := (lv.small.sshiftRight c.toNat) &&& mask lt.bits, big := none } (some lt) := by
  have hne : lt.bits ≠ 0 := by omega
  have hsm : (({ bits := lt.bits } : MInt).isSmall) = true := by simp [MInt.isSmall, h64]
  simp [evalBin, Op.isCmp, Op.isShift, Mpa.new, hne, liftP, hc, Mpa.rsh, hsm, setSmall_eq _ _ h64, bind, Except.bind]

theorem setWidth_sshiftRight_signExtend (n c : Nat) (s : BitVec n) (hn : n ≤ 64) :
    ((s.signExtend 64).sshiftRight c).setWidth n = s.sshiftRight c := by
  apply BitVec.eq_of_getLsbD_eq
  intro i hi
  rw [BitVec.getLsbD_setWidth, BitVec.getLsbD_sshiftRight, BitVec.getLsbD_sshiftRight, BitVec.getLsbD_signExtend,
    BitVec.msb_signExtend]
  have h1 : ¬ (64 ≤ i) := by omega
  have h2 : ¬ (n ≤ i) := by omega
  simp only [hi, h1, h2, decide_true, decide_false, Bool.not_false, Bool.true_and]
  by_cases hc : c + i < n
  · have : c + i < 64 := by omega
    simp [hc, this]
  · simp only [hc, if_false]
    by_cases h64 : c + i < 64
    · simp [h64]
    · simp only [h64, if_false]
      by_cases hge : n ≥ 64
      · have : n = 64 := by omega
        subst this
        simp [BitVec.msb]
      · simp [hge]

theorem setWidth_ushiftRight_zeroExtend (n c : Nat) (s : BitVec n) (hn : n ≤ 64) :
    ((s.setWidth 64) >>> c).setWidth n = s >>> c := by
  apply BitVec.eq_of_getLsbD_eq
  intro i hi
  rw [BitVec.getLsbD_setWidth, BitVec.getLsbD_ushiftRight, BitVec.getLsbD_ushiftRight, BitVec.getLsbD_setWidth]
  simp only [hi, decide_true, Bool.true_and]
  by_cases h : c + i < 64
  · simp [h]
  · have : n ≤ c + i := by omega
    simp [h, BitVec.getLsbD_of_ge _ _ this]


/-! ### `/`, `%` on exactly held non-negative operands -/

theorem setWidth_allOnes64 (n : Nat) (hn : n ≤ 64) : (BitVec.allOnes 64).setWidth n = BitVec.allOnes n := by
  apply BitVec.eq_of_getLsbD_eq
  intro i hi
  rw [BitVec.getLsbD_setWidth, BitVec.getLsbD_allOnes, BitVec.getLsbD_allOnes]
  have : i < 64 := by omega
  simp [hi, this]

theorem zext_eq_zero {n : Nat} (s : BitVec n) (hn : n ≤ 64) : s.setWidth 64 = 0#64 ↔ s = 0#n := by
  constructor
  · intro h
    apply BitVec.eq_of_toNat_eq
    have := congrArg BitVec.toNat h
    simp only [BitVec.toNat_setWidth, BitVec.toNat_ofNat, Nat.zero_mod] at this
    have h2 : s.toNat < 2 ^ 64 := Nat.lt_of_lt_of_le s.isLt (Nat.pow_le_pow_right (by omega) hn)
    rw [Nat.mod_eq_of_lt h2] at this
    simp [this]
  · intro h; subst h; simp

theorem zext_toNat {n : Nat} (s : BitVec n) (hn : n ≤ 64) : (s.setWidth 64).toNat = s.toNat := by
  simp only [BitVec.toNat_setWidth]
  exact Nat.mod_eq_of_lt (Nat.lt_of_lt_of_le s.isLt (Nat.pow_le_pow_right (by omega) hn))

theorem setWidth_udiv_zext {n : Nat} (a b : BitVec n) (hn : n ≤ 64) :
    ((a.setWidth 64) / (b.setWidth 64)).setWidth n = a / b := by
  apply BitVec.eq_of_toNat_eq
  simp only [BitVec.toNat_setWidth, BitVec.toNat_udiv]
  rw [Nat.mod_eq_of_lt (Nat.lt_of_lt_of_le a.isLt (Nat.pow_le_pow_right (by omega) hn)),
      Nat.mod_eq_of_lt (Nat.lt_of_lt_of_le b.isLt (Nat.pow_le_pow_right (by omega) hn))]
  exact Nat.mod_eq_of_lt (Nat.lt_of_le_of_lt (Nat.div_le_self _ _) a.isLt)

theorem setWidth_umod_zext {n : Nat} (a b : BitVec n) (hn : n ≤ 64) :
    ((a.setWidth 64) % (b.setWidth 64)).setWidth n = a % b := by
  apply BitVec.eq_of_toNat_eq
  simp only [BitVec.toNat_setWidth, BitVec.toNat_umod]
  rw [Nat.mod_eq_of_lt (Nat.lt_of_lt_of_le a.isLt (Nat.pow_le_pow_right (by omega) hn)),
      Nat.mod_eq_of_lt (Nat.lt_of_lt_of_le b.isLt (Nat.pow_le_pow_right (by omega) hn))]
  exact Nat.mod_eq_of_lt (Nat.lt_of_le_of_lt (Nat.mod_le _ _) a.isLt)

theorem sdiv_nonneg (x y : BitVec 64) (hx : x.msb = false) (hy : y.msb = false) : x.sdiv y = x / y := by
  rw [BitVec.sdiv_eq, hx, hy]; simp [BitVec.udiv_eq]

theorem srem_nonneg (x y : BitVec 64) (hx : x.msb = false) (hy : y.msb = false) : x.srem y = x % y := by
  rw [BitVec.srem_eq, hx, hy]

theorem evalBin_div (lt rt : TInfo) (lv rv : MInt) (hk : lt.kind = rt.kind) (h0 : 0 < lt.bits) (h64 : lt.bits ≤ 64) :
    evalBin .div (.int lt lv) (.int rt rv) =
      constantMpa { bits := lt.bits,
                    i64 := (if rv.small = 0#64 then BitVec.allOnes 64 else lv.small.sdiv rv.small) &&& mask lt.bits,
                    big := none } (some lt) := by
  have hne : lt.bits ≠ 0 := by omega
  have hsm : (({ bits := lt.bits } : MInt).isSmall) = true := by simp [MInt.isSmall, h64]
  by_cases hz : rv.small = 0#64 <;>
  simp [evalBin, Op.isCmp, Op.isShift, Op.isArith, hk, Mpa.new, hne, liftP, Mpa.div, hsm, setSmall_eq _ _ h64, bind,
    Except.bind, hz]

theorem evalBin_mod (lt rt : TInfo) (lv rv : MInt) (hk : lt.kind = rt.kind) (h0 : 0 < lt.bits) (h64 : lt.bits ≤ 64) :
    evalBin .mod (.int lt lv) (.int rt rv) =
      constantMpa { bits := lt.bits,
                    i64 := (if rv.small = 0#64 then lv.small else lv.small.srem rv.small) &&& mask lt.bits,
                    big := none } (some lt) := by
  have hne : lt.bits ≠ 0 := by omega
  have hsm : (({ bits := lt.bits } : MInt).isSmall) = true := by simp [MInt.isSmall, h64]
  by_cases hz : rv.small = 0#64 <;>
  simp [evalBin, Op.isCmp, Op.isShift, Op.isArith, hk, Mpa.new, hne, liftP, Mpa.mod, hsm, setSmall_eq _ _ h64, bind,
    Except.bind, hz]

/-- The run-time divider on operands without the sign bit: signed = unsigned. -/
theorem circuit_div_nonneg {n : Nat} (signed : Bool) (a b : BitVec n) (ha : signed = true → a.msb = false)
    (hb : signed = true → b.msb = false) (cnt : Nat) :
    circuitOp .div signed a b cnt = udivBV a b ∧ circuitOp .mod signed a b cnt = umodBV a b := by
  cases signed
  · simp [circuitOp]
  · simp [circuitOp, idivBV, imodBV, absBV, ha rfl, hb rfl]

theorem div_core {n : Nat} (a b : BitVec n) (hn : n ≤ 64) (ha : (a.setWidth 64).msb = false)
    (hb : (b.setWidth 64).msb = false) :
    (if b.setWidth 64 = 0#64 then BitVec.allOnes 64 else (a.setWidth 64).sdiv (b.setWidth 64)).setWidth n = udivBV a b ∧
    (if b.setWidth 64 = 0#64 then a.setWidth 64 else (a.setWidth 64).srem (b.setWidth 64)).setWidth n = umodBV a b := by
  unfold udivBV umodBV
  by_cases hz : b = 0#n
  · have h0 : b.setWidth 64 = 0#64 := (zext_eq_zero b hn).2 hz
    rw [if_pos h0, if_pos hz, if_pos h0, if_pos hz]
    refine ⟨setWidth_allOnes64 n hn, ?_⟩
    rw [BitVec.setWidth_setWidth_of_le a (by omega : n ≤ 64), BitVec.setWidth_eq]
  · have h0 : ¬ b.setWidth 64 = 0#64 := fun h => hz ((zext_eq_zero b hn).1 h)
    rw [if_neg h0, if_neg hz, if_neg h0, if_neg hz]
    rw [sdiv_nonneg _ _ ha hb, srem_nonneg _ _ ha hb]
    exact ⟨setWidth_udiv_zext a b hn, setWidth_umod_zext a b hn⟩


/-! ### comparisons -/

theorem cmpInt_lt (a b : Int) : (cmpInt a b == -1) = decide (a < b) := by
  unfold cmpInt; by_cases h : a < b <;> simp [h]; split <;> simp
theorem cmpInt_gt (a b : Int) : (cmpInt a b == 1) = decide (b < a) := by
  unfold cmpInt
  by_cases h : a < b
  · have : ¬ b < a := by omega
    simp [h, this]
  · by_cases h2 : b < a <;> simp [h, h2]
theorem cmpInt_eq (a b : Int) : (cmpInt a b == 0) = decide (a = b) := by
  unfold cmpInt
  by_cases h : a < b
  · have : ¬ a = b := by omega
    simp [h, this]
  · by_cases h2 : b < a
    · have : ¬ a = b := by omega
      simp [h, h2, this]
    · have : a = b := by omega
      simp [this]

theorem cmpResult_eq (op : Op) (a b : Int) :
    cmpResult op (cmpInt a b) =
      match op with
      | .eq => decide (a = b) | .ne => !decide (a = b) | .lt => decide (a < b) | .le => !decide (b < a)
      | .gt => decide (b < a) | .ge => !decide (a < b) | _ => false := by
  cases op <;> simp only [cmpResult, cmpInt_lt, cmpInt_gt, cmpInt_eq, bne]

theorem cmpResult_signed {n : Nat} (op : Op) (hop : op.isCmp = true) (a b : BitVec n) :
    cmpResult op (cmpInt a.toInt b.toInt) = circuitCmp op true a b := by
  rw [cmpResult_eq]
  cases op <;> simp [Op.isCmp] at hop <;>
    simp only [circuitCmp, if_true, BitVec.slt_eq_decide, BitVec.sle_eq_decide, BitVec.toInt_inj] <;>
    first
    | rfl
    | (simp only [Bool.beq_eq_decide_eq, bne])
    | (by_cases h : b.toInt < a.toInt <;> simp [h] <;> omega)
    | (by_cases h : a.toInt < b.toInt <;> simp [h] <;> omega)

theorem cmpResult_unsigned {n : Nat} (op : Op) (hop : op.isCmp = true) (a b : BitVec n) :
    cmpResult op (cmpInt (a.toNat : Int) (b.toNat : Int)) = circuitCmp op false a b := by
  rw [cmpResult_eq]
  have hinj : ((a.toNat : Int) = (b.toNat : Int)) ↔ a = b := by
    rw [← BitVec.toNat_inj]; omega
  cases op <;> simp [Op.isCmp] at hop <;>
    simp only [circuitCmp, Bool.false_eq_true, if_false, BitVec.ult_eq_decide, BitVec.ule_eq_decide, hinj] <;>
    first
    | (simp only [Bool.beq_eq_decide_eq, bne])
    | (by_cases h : b.toNat < a.toNat <;> simp [h] <;> omega)
    | (by_cases h : a.toNat < b.toNat <;> simp [h] <;> omega)


theorem evalBin_cmp (op : Op) (hop : op.isCmp = true) (lt rt : TInfo) (lv rv : MInt) (hlv : lv.bits ≤ 64)
    (hrv : rv.bits ≤ 64) (a b : BitVec 64) (ha : lv.int64 = some a) (hb : rv.int64 = some b) :
    evalBin op (.int lt lv) (.int rt rv) = .ok (.bool (cmpResult op (cmpInt a.toInt b.toInt))) := by
  have h1 : lv.isSmall = true := by simp [MInt.isSmall, hlv]
  have h2 : rv.isSmall = true := by simp [MInt.isSmall, hrv]
  simp [evalBin, hop, Mpa.cmp, h1, h2, ha, hb, liftP, bind, Except.bind, Option.bind]

/-! ### unary minus -/

theorem negate_small (t : TInfo) (v : MInt) (h0 : 0 < t.bits) (h64 : t.bits ≤ 64) :
    negate (.int t v) =
      constantMpa { bits := t.bits, i64 := (0#64 - v.small) &&& mask t.bits, big := none } (some t) := by
  have hne : t.bits ≠ 0 := by omega
  have hsm : (({ bits := t.bits, i64 := 0#64 } : MInt).isSmall) = true := by simp [MInt.isSmall, h64]
  simp [negate, newInt, hne, Mpa.sub, hsm, setSmall_eq _ _ h64, liftP, bind, Except.bind, MInt.small]

/-! ### Literals and typed non-negative constants -/

theorem constSize_pos (b : Nat) : 0 < constSize b := by
  unfold constSize; split
  · omega
  · split <;> omega

theorem constantMpa_none (val : MInt) :
    constantMpa val none =
      .ok (.int ⟨.int, constSize val.bitLen, val.bitLen⟩ { val with bits := constSize val.bitLen }) := by
  unfold constantMpa
  have := le_constSize val.bitLen
  have hp := constSize_pos val.bitLen
  simp only []
  rw [if_pos hp, if_neg (by omega)]

theorem constantMpa_none_small (val : MInt) (hbl : val.bitLen ≤ 64) :
    ∃ t v, constantMpa val none = .ok (.int t v) ∧ t.kind = .int ∧ 0 < v.bits ∧ v.bits ≤ 64 ∧ v.small = val.small := by
  rw [constantMpa_none]
  exact ⟨_, _, rfl, rfl, constSize_pos _, constSize_le_64 _ hbl, rfl⟩

theorem natBitLen_le_64 (a : Nat) (h : a < 2 ^ 64) : natBitLen a ≤ 64 := by
  unfold natBitLen
  split
  · omega
  · rename_i h0
    have : Nat.log2 a < 64 := (Nat.log2_lt h0).2 h
    omega

theorem setBig_nat (a : Nat) (ha : a < 2 ^ 64) : (setBig (a : Int)).bitLen ≤ 64 ∧ (setBig (a : Int)).small.toNat = a := by
  have hmod : ((a : Int) % ((2 ^ 64 : Nat) : Int)).toNat = a := by
    have : ((a : Int) % ((2 ^ 64 : Nat) : Int)) = (a : Int) :=
      Int.emod_eq_of_lt (Int.natCast_nonneg a) (by exact_mod_cast ha)
    rw [this]; simp
  unfold setBig
  split
  · constructor
    · simp only [MInt.bitLen, MInt.isSmall, Nat.le_refl, decide_true, if_true]
      exact bitLen64_le _
    · simp only [MInt.small]
      rw [BitVec.toNat_ofInt]; exact hmod
  · constructor
    · simp only [MInt.bitLen, MInt.isSmall, MInt.bigv, Int.natAbs_natCast]
      split
      · split
        · exact bitLen64_le _
        · exact natBitLen_le_64 a ha
      · split
        · exact bitLen64_le _
        · exact natBitLen_le_64 a ha
    · simp only [MInt.small]
      rw [BitVec.toNat_ofInt]; exact hmod

/-- The literal `a` (0 ≤ a < 2^64) is a small constant holding exactly `a`. -/
theorem literal_small (a : Nat) (ha : a < 2 ^ 64) :
    ∃ t v, literal a = .ok (.int t v) ∧ t.kind = .int ∧ 0 < v.bits ∧ v.bits ≤ 64 ∧ v.small.toNat = a := by
  obtain ⟨h1, h2⟩ := setBig_nat a ha
  obtain ⟨t, v, e, hk, h0, h64, hs⟩ := constantMpa_none_small _ h1
  exact ⟨t, v, e, hk, h0, h64, by rw [hs]; exact h2⟩

/-- `T(a)` for `0 ≤ a < 2^n`, `n ≤ 64`: a small constant of type `T` holding exactly `a`. -/
theorem typedConst_pos (k : Kind) (n a : Nat) (hn : n ≤ 64) (ha : a < 2 ^ n) :
    ∃ t v, typedConst k n (a : Int) .pos = .ok (.int t v) ∧ t.kind = k ∧ t.bits = n ∧ 0 < v.bits ∧ v.bits ≤ 64 ∧
      v.small.toNat = a ∧ seenBV n (.int t v) = BitVec.ofNat n a := by
  have ha64 : a < 2 ^ 64 := Nat.lt_of_lt_of_le ha (Nat.pow_le_pow_right (by omega) hn)
  obtain ⟨t, v, e, _, h0, h64, hs⟩ := literal_small a ha64
  have e' : literal (a : Int).natAbs = .ok (.int t v) := by rw [Int.natAbs_natCast]; exact e
  refine ⟨⟨k, n, if t.minBits > n then n else t.minBits⟩, v, ?_, rfl, rfl, h0, h64, hs, ?_⟩
  · unfold typedConst
    simp only []
    rw [e']
    rfl
  · rw [seenBV_small n _ v h64 (Nat.le_refl n)]
    apply BitVec.eq_of_toNat_eq
    rw [BitVec.toNat_setWidth, hs, BitVec.toNat_ofNat]

/-! ## The large path (types wider than 64 bits) -/

theorem lt_two_pow_natBitLen (r : Nat) : r < 2 ^ natBitLen r := by
  unfold natBitLen
  split
  · rename_i h; subst h; simp
  · exact Nat.lt_log2_self

theorem ofNat_mod_two_pow (n m a : Nat) (h : n ≤ m) : BitVec.ofNat n (a % 2 ^ m) = BitVec.ofNat n a := by
  apply BitVec.eq_of_toNat_eq
  simp only [BitVec.toNat_ofNat]
  exact Nat.mod_mod_of_dvd _ (Nat.pow_dvd_pow 2 h)

theorem ofInt_emod_two_pow (n m : Nat) (a : Int) (h : n ≤ m) :
    BitVec.ofInt n (a % ((2 ^ m : Nat) : Int)) = BitVec.ofInt n a := by
  apply BitVec.eq_of_toNat_eq
  simp only [BitVec.toNat_ofInt]
  congr 1
  apply Int.emod_emod_of_dvd
  exact Int.natCast_dvd_natCast.2 (Nat.pow_dvd_pow 2 h)

theorem wires_nonneg (x : Int) (w : Nat) (hx : 0 ≤ x) : wires x w = x.toNat % 2 ^ w := by
  unfold wires
  rw [Int.toNat_emod hx (Int.natCast_nonneg _)]
  rfl

theorem ofNat_toNat_eq_ofInt (n : Nat) (x : Int) (hx : 0 ≤ x) : BitVec.ofNat n x.toNat = BitVec.ofInt n x := by
  rw [← BitVec.ofInt_natCast, Int.toNat_of_nonneg hx]

/-- an exact image is what the wires show -/
theorem seen_of_imageExact (n : Nat) (t : TInfo) (v : MInt) (hi : imageExact (.int t v) = true) (hn : n ≤ t.bits) :
    seenBV n (.int t v) = BitVec.ofNat n v.bigv.toNat := by
  simp only [imageExact, decide_eq_true_eq] at hi
  obtain ⟨h0, hlt⟩ := hi
  show BitVec.ofNat n ((if v.isSmall = true then v.small.toNat else wires v.bigv v.bitLen) % 2 ^ t.bits) = _
  rw [ofNat_mod_two_pow _ _ _ hn]
  by_cases hs : v.isSmall = true
  · simp only [hs, if_true]
    have h64 : v.bits ≤ 64 := by simpa [MInt.isSmall] using hs
    have hlt64 : v.bigv < ((2 ^ 64 : Nat) : Int) :=
      Int.lt_of_lt_of_le hlt (by exact_mod_cast Nat.pow_le_pow_right (by omega) h64)
    have : v.small = BitVec.ofInt 64 v.bigv := by
      unfold MInt.small MInt.bigv
      cases v.big with
      | none => simp
      | some w => rfl
    rw [this]
    congr 1
    rw [BitVec.toNat_ofInt, Int.emod_eq_of_lt h0 hlt64]
  · simp only [hs, Bool.false_eq_true, if_false]
    congr 1
    unfold wires
    have hbl : v.bitLen = natBitLen v.bigv.natAbs := by simp [MInt.bitLen, hs]
    rw [hbl]
    have : v.bigv < ((2 ^ natBitLen v.bigv.natAbs : Nat) : Int) := by
      have := lt_two_pow_natBitLen v.bigv.natAbs
      omega
    rw [Int.emod_eq_of_lt h0 this]


/-- `Generator.Constant` on a large-path result `r ≥ 0` held in a receiver of more than 64 bits. -/
theorem const_big (n B : Nat) (t : TInfo) (i : BitVec 64) (r : Nat) (hB : 64 < B) (hn : n ≤ t.bits) :
    ∃ t' v, constantMpa { bits := B, i64 := i, big := some (r : Int) } (some t) = .ok (.int t' v) ∧
      t'.kind = t.kind ∧ t.bits ≤ t'.bits ∧ imageExact (.int t' v) = true ∧ v.bigv = (r : Int) ∧
      seenBV n (.int t' v) = BitVec.ofNat n r := by
  rw [constantMpa_ok]
  have hns : (({ bits := B, i64 := i, big := some (r : Int) } : MInt).isSmall) = false := by
    simp [MInt.isSmall]; omega
  have hbl : MInt.bitLen { bits := B, i64 := i, big := some (r : Int) } = natBitLen r := by
    simp [MInt.bitLen, hns, MInt.bigv]
  have himg : imageExact (.int ⟨t.kind, if t.bits < constSize (natBitLen r) then constSize (natBitLen r) else t.bits,
      natBitLen r⟩ { bits := constSize (natBitLen r), i64 := i, big := some (r : Int) }) = true := by
    simp only [imageExact, MInt.bigv]
    apply decide_eq_true
    refine ⟨Int.natCast_nonneg _, ?_⟩
    have h1 := lt_two_pow_natBitLen r
    have h2 : 2 ^ natBitLen r ≤ 2 ^ constSize (natBitLen r) := Nat.pow_le_pow_right (by omega) (le_constSize _)
    exact_mod_cast Nat.lt_of_lt_of_le h1 h2
  simp only [hbl]
  refine ⟨_, _, rfl, rfl, ?_, himg, rfl, ?_⟩
  · simp only []; split <;> omega
  · rw [seen_of_imageExact n _ _ himg (by simp only []; split <;> omega)]
    simp [MInt.bigv]

/-- `mpa.New(B)`, `B > 64`, is a large-path receiver. -/
theorem new_large (B : Nat) (hB : 64 < B) :
    Mpa.new B = some { bits := B } ∧ (({ bits := B } : MInt).isSmall) = false := by
  constructor
  · simp [Mpa.new]; omega
  · simp [MInt.isSmall]; omega

theorem ofNat_wires (n nz : Nat) (x : Int) (hx : 0 ≤ x) (h : n ≤ nz) :
    BitVec.ofNat n (wires x nz) = BitVec.ofNat n x.toNat := by
  rw [wires_nonneg x nz hx, ofNat_mod_two_pow _ _ _ h]

theorem ofInt_sub' (n : Nat) (a b : Int) : BitVec.ofInt n (a - b) = BitVec.ofInt n a - BitVec.ofInt n b := by
  rw [Int.sub_eq_add_neg, BitVec.ofInt_add, BitVec.ofInt_neg, BitVec.sub_eq_add_neg]

/-- adder / subtractor / multiplier at the result width on exact images -/
theorem large_arith (n nz : Nat) (x y : Int) (hx : 0 ≤ x) (hy : 0 ≤ y) (h : n ≤ nz) :
    BitVec.ofNat n ((wires x nz + wires y nz) % 2 ^ nz) = BitVec.ofNat n x.toNat + BitVec.ofNat n y.toNat ∧
    BitVec.ofNat n ((wires x nz * wires y nz) % 2 ^ nz) = BitVec.ofNat n x.toNat * BitVec.ofNat n y.toNat ∧
    BitVec.ofNat n ((((wires x nz : Nat) : Int) - (wires y nz : Nat)) % ((2 ^ nz : Nat) : Int)).toNat =
      BitVec.ofNat n x.toNat - BitVec.ofNat n y.toNat := by
  refine ⟨?_, ?_, ?_⟩
  · rw [ofNat_mod_two_pow _ _ _ h, BitVec.ofNat_add, ofNat_wires n nz x hx h, ofNat_wires n nz y hy h]
  · rw [ofNat_mod_two_pow _ _ _ h, BitVec.ofNat_mul, ofNat_wires n nz x hx h, ofNat_wires n nz y hy h]
  · have hnn : 0 ≤ (((wires x nz : Nat) : Int) - (wires y nz : Nat)) % ((2 ^ nz : Nat) : Int) :=
      Int.emod_nonneg _ (by exact_mod_cast (Nat.pos_iff_ne_zero.1 (Nat.two_pow_pos nz)))
    rw [ofNat_toNat_eq_ofInt n _ hnn, ofInt_emod_two_pow n nz _ h, ofInt_sub', BitVec.ofInt_natCast,
      BitVec.ofInt_natCast, ofNat_wires n nz x hx h, ofNat_wires n nz y hy h]


/-- math/big bitwise operations on non-negative values are the `Nat` operations. -/
theorem intBitwise_nonneg (f : Nat → Nat → Nat) (hf : ∀ a b k, a < 2 ^ k → b < 2 ^ k → f a b < 2 ^ k)
    (x y : Int) (hx : 0 ≤ x) (hy : 0 ≤ y) : intBitwise f x y = ((f x.toNat y.toNat : Nat) : Int) := by
  unfold intBitwise
  have hX : x.natAbs = x.toNat := by omega
  have hY : y.natAbs = y.toNat := by omega
  rw [hX, hY]
  generalize hw : max (natBitLen x.toNat) (natBitLen y.toNat) = m
  have h1 : x.toNat < 2 ^ m :=
    Nat.lt_of_lt_of_le (lt_two_pow_natBitLen _) (Nat.pow_le_pow_right (by omega) (by omega))
  have h2 : y.toNat < 2 ^ m :=
    Nat.lt_of_lt_of_le (lt_two_pow_natBitLen _) (Nat.pow_le_pow_right (by omega) (by omega))
  have hm : 2 ^ m < 2 ^ (m + 1) := Nat.pow_lt_pow_right (by omega) (by omega)
  have hwx : wires x (m + 1) = x.toNat := by
    rw [wires_nonneg x _ hx]; exact Nat.mod_eq_of_lt (by omega)
  have hwy : wires y (m + 1) = y.toNat := by
    rw [wires_nonneg y _ hy]; exact Nat.mod_eq_of_lt (by omega)
  have hr : f x.toNat y.toNat < 2 ^ m := hf _ _ _ h1 h2
  simp only [hwx, hwy, Nat.add_sub_cancel]
  rw [Nat.mod_eq_of_lt (by omega)]
  rw [if_neg (by omega)]

theorem hf_and : ∀ a b k, a < 2 ^ k → b < 2 ^ k → a &&& b < 2 ^ k := fun a _ _ _ hb => Nat.and_lt_two_pow a hb
theorem hf_or : ∀ a b k, a < 2 ^ k → b < 2 ^ k → a ||| b < 2 ^ k := fun _ _ _ ha hb => Nat.or_lt_two_pow ha hb
theorem hf_xor : ∀ a b k, a < 2 ^ k → b < 2 ^ k → a ^^^ b < 2 ^ k := fun _ _ _ ha hb => Nat.xor_lt_two_pow ha hb
theorem hf_andnot : ∀ a b k, a < 2 ^ k → b < 2 ^ k → a ^^^ (a &&& b) < 2 ^ k :=
  fun a _ _ ha hb => Nat.xor_lt_two_pow ha (Nat.and_lt_two_pow a hb)

theorem ofNat_or (n x y : Nat) : BitVec.ofNat n (x ||| y) = BitVec.ofNat n x ||| BitVec.ofNat n y := by
  apply BitVec.eq_of_toNat_eq; simp [BitVec.toNat_ofNat]
theorem ofNat_xor (n x y : Nat) : BitVec.ofNat n (x ^^^ y) = BitVec.ofNat n x ^^^ BitVec.ofNat n y := by
  apply BitVec.eq_of_toNat_eq; simp [BitVec.toNat_ofNat]
theorem bv_andnot {n : Nat} (a b : BitVec n) : a ^^^ (a &&& b) = a &&& ~~~b := by
  apply BitVec.eq_of_getLsbD_eq
  intro i hi
  simp only [BitVec.getLsbD_xor, BitVec.getLsbD_and, BitVec.getLsbD_not, hi, decide_true, Bool.true_and]
  cases a.getLsbD i <;> cases b.getLsbD i <;> rfl


/-- What the large path stores for a wrap operator: a non-negative number congruent to `x op y`. -/
def wrapNat (op : Op) (nz : Nat) (x y : Int) : Nat :=
  match op with
  | .add => (wires x nz + wires y nz) % 2 ^ nz
  | .sub => ((((wires x nz : Nat) : Int) - (wires y nz : Nat)) % ((2 ^ nz : Nat) : Int)).toNat
  | .mul => (wires x nz * wires y nz) % 2 ^ nz
  | .band => x.toNat &&& y.toNat
  | .bor => x.toNat ||| y.toNat
  | .bxor => x.toNat ^^^ y.toNat
  | _ => x.toNat ^^^ (x.toNat &&& y.toNat)

theorem evalBin_wrap_wide (op : Op) (hop : op.isWrap = true) (lt rt : TInfo) (lv rv : MInt)
    (hk : lt.kind = rt.kind) (hL : 64 < lt.bits) (hx : 0 ≤ lv.bigv) (hy : 0 ≤ rv.bigv) :
    ∃ B i, 64 < B ∧ lt.bits ≤ B ∧ evalBin op (.int lt lv) (.int rt rv) =
      constantMpa { bits := B, i64 := i, big := some ((wrapNat op (max (max lv.bits rv.bits) lt.bits) lv.bigv rv.bigv : Nat) : Int) }
        (some lt) := by
  obtain ⟨hnew, hns⟩ := new_large lt.bits hL
  have hnn : 0 ≤ (((wires lv.bigv (max (max lv.bits rv.bits) lt.bits) : Nat) : Int) -
      (wires rv.bigv (max (max lv.bits rv.bits) lt.bits) : Nat)) % ((2 ^ (max (max lv.bits rv.bits) lt.bits) : Nat) : Int) :=
    Int.emod_nonneg _ (by exact_mod_cast (Nat.pos_iff_ne_zero.1 (Nat.two_pow_pos _)))
  cases op <;> simp [Op.isWrap] at hop
  · exact ⟨max (max lv.bits rv.bits) lt.bits, 0#64, by omega, by omega, by
      simp [evalBin, Op.isCmp, Op.isShift, Op.isArith, hk, hnew, hns, liftP, Mpa.add, largeAdd, wrapNat, bind, Except.bind]⟩
  · refine ⟨max (max lv.bits rv.bits) lt.bits, 0#64, by omega, by omega, ?_⟩
    have hcast : ((wrapNat .sub (max (max lv.bits rv.bits) lt.bits) lv.bigv rv.bigv : Nat) : Int) =
        (((wires lv.bigv (max (max lv.bits rv.bits) lt.bits) : Nat) : Int) -
          (wires rv.bigv (max (max lv.bits rv.bits) lt.bits) : Nat)) % ((2 ^ (max (max lv.bits rv.bits) lt.bits) : Nat) : Int) := by
      simp only [wrapNat]; exact Int.toNat_of_nonneg hnn
    rw [hcast]
    simp [evalBin, Op.isCmp, Op.isShift, Op.isArith, hk, hnew, hns, liftP, Mpa.sub, largeSub, bind, Except.bind]
  · exact ⟨max (max lv.bits rv.bits) lt.bits, 0#64, by omega, by omega, by
      simp [evalBin, Op.isCmp, Op.isShift, Op.isArith, hk, hnew, hns, liftP, Mpa.mul, largeMul, wrapNat, bind, Except.bind]⟩
  · exact ⟨lt.bits, 0#64, hL, Nat.le_refl _, by
      simp [evalBin, Op.isCmp, Op.isShift, Op.isArith, hk, hnew, hns, liftP, Mpa.and, Mpa.bitwise, wrapNat, bind, Except.bind,
        intBitwise_nonneg _ hf_and _ _ hx hy]⟩
  · exact ⟨lt.bits, 0#64, hL, Nat.le_refl _, by
      simp [evalBin, Op.isCmp, Op.isShift, Op.isArith, hk, hnew, hns, liftP, Mpa.or, Mpa.bitwise, wrapNat, bind, Except.bind,
        intBitwise_nonneg _ hf_or _ _ hx hy]⟩
  · exact ⟨lt.bits, 0#64, hL, Nat.le_refl _, by
      simp [evalBin, Op.isCmp, Op.isShift, Op.isArith, hk, hnew, hns, liftP, Mpa.xor, Mpa.bitwise, wrapNat, bind, Except.bind,
        intBitwise_nonneg _ hf_xor _ _ hx hy]⟩
  · exact ⟨lt.bits, 0#64, hL, Nat.le_refl _, by
      simp [evalBin, Op.isCmp, Op.isShift, Op.isArith, hk, hnew, hns, liftP, Mpa.andNot, Mpa.bitwise, wrapNat, bind, Except.bind,
        intBitwise_nonneg _ hf_andnot _ _ hx hy]⟩

theorem wrapNat_spec (op : Op) (hop : op.isWrap = true) (signed : Bool) (n nz cnt : Nat) (x y : Int) (hx : 0 ≤ x) (hy : 0 ≤ y)
    (h : n ≤ nz) :
    BitVec.ofNat n (wrapNat op nz x y) = circuitOp op signed (BitVec.ofNat n x.toNat) (BitVec.ofNat n y.toNat) cnt := by
  obtain ⟨h1, h2, h3⟩ := large_arith n nz x y hx hy h
  cases op <;> simp [Op.isWrap] at hop <;> simp only [wrapNat, circuitOp]
  · exact h1
  · exact h3
  · exact h2
  · exact BitVec.ofNat_and
  · exact ofNat_or _ _ _
  · exact ofNat_xor _ _ _
  · rw [ofNat_xor, BitVec.ofNat_and, bv_andnot]

/-- `+ - * & | ^ &^` on the LARGE path (left type wider than 64 bits): for every `n ≤ Bits` and all operand
constants with exact images, folding succeeds, the result again has an exact image, and its low `n` wires are the
run-time instruction on the operands' low `n` wires. -/
theorem fold_wrap_wide (op : Op) (hop : op.isWrap = true) (signed : Bool) (n cnt : Nat) (lt rt : TInfo) (lv rv : MInt)
    (hk : lt.kind = rt.kind) (hL : 64 < lt.bits) (hn : n ≤ lt.bits) (hnr : n ≤ rt.bits)
    (hil : imageExact (.int lt lv) = true) (hir : imageExact (.int rt rv) = true) :
    ∃ t v, evalBin op (.int lt lv) (.int rt rv) = .ok (.int t v) ∧ t.kind = lt.kind ∧ lt.bits ≤ t.bits ∧
      imageExact (.int t v) = true ∧
      seenBV n (.int t v) = circuitOp op signed (seenBV n (.int lt lv)) (seenBV n (.int rt rv)) cnt := by
  have hx : 0 ≤ lv.bigv := by simp only [imageExact, decide_eq_true_eq] at hil; exact hil.1
  have hy : 0 ≤ rv.bigv := by simp only [imageExact, decide_eq_true_eq] at hir; exact hir.1
  obtain ⟨B, i, hB, hBl, he⟩ := evalBin_wrap_wide op hop lt rt lv rv hk hL hx hy
  obtain ⟨t, v, h1, h2, h3, h4, _, h6⟩ := const_big n B lt i _ hB hn
  refine ⟨t, v, by rw [he, h1], h2, h3, h4, ?_⟩
  rw [h6, seen_of_imageExact n lt lv hil hn, seen_of_imageExact n rt rv hir hnr]
  exact wrapNat_spec op hop signed n _ cnt _ _ hx hy (by omega)


theorem ofNat_shl (n x c : Nat) : BitVec.ofNat n (x * 2 ^ c) = BitVec.ofNat n x <<< c := by
  apply BitVec.eq_of_toNat_eq
  simp [BitVec.toNat_shiftLeft, Nat.shiftLeft_eq, Nat.mul_mod]

/-- `<<` on the large path. -/
theorem fold_shl_wide (signed : Bool) (n : Nat) (lt rt : TInfo) (lv rv : MInt) (c : BitVec 64) (hc : rv.int64 = some c)
    (hL : 64 < lt.bits) (hn : n ≤ lt.bits) (hil : imageExact (.int lt lv) = true) :
    ∃ t v, evalBin .shl (.int lt lv) (.int rt rv) = .ok (.int t v) ∧ t.kind = lt.kind ∧ lt.bits ≤ t.bits ∧
      imageExact (.int t v) = true ∧
      seenBV n (.int t v) = circuitOp .shl signed (seenBV n (.int lt lv)) (seenBV n (.int rt rv)) c.toNat := by
  have hx : 0 ≤ lv.bigv := by simp only [imageExact, decide_eq_true_eq] at hil; exact hil.1
  obtain ⟨hnew, hns⟩ := new_large lt.bits hL
  have hv : lv.bigv <<< c.toNat = ((lv.bigv.toNat * 2 ^ c.toNat : Nat) : Int) := by
    rw [Int.shiftLeft_eq]; push_cast; rw [Int.toNat_of_nonneg hx]
  have hv0 : (0 : Int) ≤ ((lv.bigv.toNat * 2 ^ c.toNat : Nat) : Int) := Int.natCast_nonneg _
  have he : evalBin .shl (.int lt lv) (.int rt rv) =
      constantMpa { bits := lt.bits, i64 := 0#64, big := some (((lv.bigv.toNat * 2 ^ c.toNat) % 2 ^ lt.bits : Nat) : Int) }
        (some lt) := by
    simp only [evalBin, Op.isCmp, Op.isShift, hnew, hc, liftP, Mpa.lsh, hns, hv, hv0, bind, Except.bind, if_true,
      Bool.false_eq_true, if_false, beq_self_eq_true]
    rw [← Int.natCast_emod]
  obtain ⟨t, v, h1, h2, h3, h4, _, h6⟩ := const_big n lt.bits lt 0#64 _ hL hn
  refine ⟨t, v, by rw [he, h1], h2, h3, h4, ?_⟩
  rw [h6, seen_of_imageExact n lt lv hil hn, ofNat_mod_two_pow _ _ _ hn]
  exact ofNat_shl _ _ _

/-- unary minus on the large path: `NewInt(0, Bits).Sub(r, val)` -/
theorem fold_neg_wide (signed : Bool) (n cnt : Nat) (t : TInfo) (v : MInt) (hL : 64 < t.bits) (hn : n ≤ t.bits)
    (hi : imageExact (.int t v) = true) :
    ∃ t' v', negate (.int t v) = .ok (.int t' v') ∧ t'.kind = t.kind ∧ t.bits ≤ t'.bits ∧
      imageExact (.int t' v') = true ∧
      seenBV n (.int t' v') = circuitOp .neg signed (seenBV n (.int t v)) (seenBV n (.int t v)) cnt := by
  have hx : 0 ≤ v.bigv := by simp only [imageExact, decide_eq_true_eq] at hi; exact hi.1
  have hne : t.bits ≠ 0 := by omega
  have hns : (({ bits := t.bits, i64 := 0#64 } : MInt).isSmall) = false := by simp [MInt.isSmall]; omega
  have hnn : 0 ≤ (((wires 0 (max (max t.bits v.bits) t.bits) : Nat) : Int) -
      (wires v.bigv (max (max t.bits v.bits) t.bits) : Nat)) % ((2 ^ (max (max t.bits v.bits) t.bits) : Nat) : Int) :=
    Int.emod_nonneg _ (by exact_mod_cast (Nat.pos_iff_ne_zero.1 (Nat.two_pow_pos _)))
  have he : negate (.int t v) =
      constantMpa { bits := max (max t.bits v.bits) t.bits, i64 := 0#64,
                    big := some ((wrapNat .sub (max (max t.bits v.bits) t.bits) 0 v.bigv : Nat) : Int) } (some t) := by
    have hcast : ((wrapNat .sub (max (max t.bits v.bits) t.bits) 0 v.bigv : Nat) : Int) =
        (((wires 0 (max (max t.bits v.bits) t.bits) : Nat) : Int) -
          (wires v.bigv (max (max t.bits v.bits) t.bits) : Nat)) % ((2 ^ (max (max t.bits v.bits) t.bits) : Nat) : Int) := by
      simp only [wrapNat]; exact Int.toNat_of_nonneg hnn
    rw [hcast]
    simp [negate, newInt, hne, Mpa.sub, hns, largeSub, liftP, bind, Except.bind, MInt.bigv]
  obtain ⟨t', v', h1, h2, h3, h4, _, h6⟩ := const_big n (max (max t.bits v.bits) t.bits) t 0#64
    (wrapNat .sub (max (max t.bits v.bits) t.bits) 0 v.bigv) (by omega) hn
  refine ⟨t', v', by rw [he, h1], h2, h3, h4, ?_⟩
  rw [h6, seen_of_imageExact n t v hi hn]
  have := wrapNat_spec .sub rfl signed n (max (max t.bits v.bits) t.bits) cnt 0 v.bigv (Int.le_refl 0) hx (by omega)
  rw [this]
  simp [circuitOp]


/-- Comparisons, EVERY width: when `Cmp` (small: `Int64()`, large: `signed(bits-1)`) sees the typed values the
folded boolean is the run-time comparator's output. -/
theorem fold_cmp_all (op : Op) (hop : op.isCmp = true) (signed : Bool) (n : Nat) (lt rt : TInfo) (lv rv : MInt)
    (h : cmpAgrees signed n (.int lt lv) (.int rt rv) = true) :
    evalBin op (.int lt lv) (.int rt rv) =
      .ok (.bool (circuitCmp op signed (seenBV n (.int lt lv)) (seenBV n (.int rt rv)))) := by
  by_cases hs : (lv.isSmall && rv.isSmall) = true
  · simp only [cmpAgrees, mpaOf, hs, if_true] at h
    simp only [Bool.and_eq_true] at hs h
    have hlv : lv.bits ≤ 64 := by simpa [MInt.isSmall] using hs.1
    have hrv : rv.bits ≤ 64 := by simpa [MInt.isSmall] using hs.2
    obtain ⟨hil, hir⟩ := h
    simp only [int64Agrees] at hil hir
    cases ha : lv.int64 with
    | none => simp [ha] at hil
    | some a =>
      cases hb : rv.int64 with
      | none => simp [hb] at hir
      | some b =>
        rw [evalBin_cmp op hop lt rt lv rv hlv hrv a b ha hb]
        simp only [ha, hb] at hil hir
        cases signed
        · simp only [Bool.false_eq_true, if_false, beq_iff_eq] at hil hir
          rw [hil, hir, cmpResult_unsigned op hop]
        · simp only [if_true, beq_iff_eq] at hil hir
          rw [hil, hir, cmpResult_signed op hop]
  · simp only [cmpAgrees, mpaOf, hs, Bool.false_eq_true, if_false] at h
    simp only [Bool.and_eq_true, beq_iff_eq] at h
    have hcmp : Mpa.cmp lv rv = some (cmpInt lv.signedVal rv.signedVal) := by
      unfold Mpa.cmp
      rw [if_neg]
      intro hc
      apply hs
      simp [hc.1, hc.2]
    simp only [evalBin, hop, hcmp, liftP, bind, Except.bind, if_true]
    cases signed
    · simp only [Bool.false_eq_true, if_false] at h
      rw [h.1, h.2, cmpResult_unsigned op hop]
    · simp only [if_true] at h
      rw [h.1, h.2, cmpResult_signed op hop]


/-- `Generator.Constant` on a non-negative big value `r < 2^B` in a receiver of any size `B`. -/
theorem const_nat (n B : Nat) (t : TInfo) (i : BitVec 64) (r : Nat) (hr : r < 2 ^ B) (hn : n ≤ t.bits) :
    ∃ t' v, constantMpa { bits := B, i64 := i, big := some (r : Int) } (some t) = .ok (.int t' v) ∧
      t'.kind = t.kind ∧ t.bits ≤ t'.bits ∧ imageExact (.int t' v) = true ∧
      seenBV n (.int t' v) = BitVec.ofNat n r := by
  by_cases hB : 64 < B
  · obtain ⟨t', v, h1, h2, h3, h4, _, h6⟩ := const_big n B t i r hB hn
    exact ⟨t', v, h1, h2, h3, h4, h6⟩
  · rw [constantMpa_ok]
    have hs : (({ bits := B, i64 := i, big := some (r : Int) } : MInt).isSmall) = true := by
      simp [MInt.isSmall]; omega
    have hr64 : r < 2 ^ 64 := Nat.lt_of_lt_of_le hr (Nat.pow_le_pow_right (by omega) (by omega))
    have hsm : MInt.small { bits := B, i64 := i, big := some (r : Int) } = BitVec.ofNat 64 r := by
      simp [MInt.small, BitVec.ofInt_natCast]
    have hbl : MInt.bitLen { bits := B, i64 := i, big := some (r : Int) } = bitLen64 (BitVec.ofNat 64 r) := by
      simp only [MInt.bitLen, hs, if_true, hsm]
    have hlt : r < 2 ^ bitLen64 (BitVec.ofNat 64 r) := by
      unfold bitLen64
      simp only [BitVec.toNat_ofNat, Nat.mod_eq_of_lt hr64]
      split
      · rename_i h0; omega
      · exact Nat.lt_log2_self
    have himg : imageExact (.int ⟨t.kind, if t.bits < constSize (bitLen64 (BitVec.ofNat 64 r)) then
        constSize (bitLen64 (BitVec.ofNat 64 r)) else t.bits, bitLen64 (BitVec.ofNat 64 r)⟩
        { bits := constSize (bitLen64 (BitVec.ofNat 64 r)), i64 := i, big := some (r : Int) }) = true := by
      simp only [imageExact, MInt.bigv]
      apply decide_eq_true
      refine ⟨Int.natCast_nonneg _, ?_⟩
      have h2 : 2 ^ bitLen64 (BitVec.ofNat 64 r) ≤ 2 ^ constSize (bitLen64 (BitVec.ofNat 64 r)) :=
        Nat.pow_le_pow_right (by omega) (le_constSize _)
      exact_mod_cast Nat.lt_of_lt_of_le hlt h2
    simp only [hbl]
    refine ⟨_, _, rfl, rfl, ?_, himg, ?_⟩
    · simp only []; split <;> omega
    · rw [seen_of_imageExact n _ _ himg (by simp only []; split <;> omega)]
      simp [MInt.bigv]

theorem ofNat_ushr (n x c : Nat) (hx : x < 2 ^ n) : BitVec.ofNat n (x / 2 ^ c) = BitVec.ofNat n x >>> c := by
  apply BitVec.eq_of_toNat_eq
  simp only [BitVec.toNat_ofNat, BitVec.toNat_ushiftRight, Nat.shiftRight_eq_div_pow, Nat.mod_eq_of_lt hx]
  exact Nat.mod_eq_of_lt (Nat.lt_of_le_of_lt (Nat.div_le_self _ _) hx)

/-- `>>` on the large path (`big.Rsh` of the image): right for operands that fit `n` bits and are not negative. -/
theorem fold_shr_wide (signed : Bool) (n : Nat) (lt rt : TInfo) (lv rv : MInt) (c : BitVec 64) (hc : rv.int64 = some c)
    (hL : 64 < lt.bits) (hn : n ≤ lt.bits) (he : extendedWide signed n (.int lt lv) = true) :
    ∃ t v, evalBin .shr (.int lt lv) (.int rt rv) = .ok (.int t v) ∧ t.kind = lt.kind ∧
      seenBV n (.int t v) = circuitOp .shr signed (seenBV n (.int lt lv)) (seenBV n (.int rt rv)) c.toNat := by
  simp only [extendedWide, Bool.and_eq_true, decide_eq_true_eq, Bool.or_eq_true, Bool.not_eq_true'] at he
  obtain ⟨⟨hil, hfit⟩, hsg⟩ := he
  have hil' := hil
  simp only [imageExact, decide_eq_true_eq] at hil'
  obtain ⟨hx, hxb⟩ := hil'
  obtain ⟨hnew, hns⟩ := new_large lt.bits hL
  have hX : lv.bigv = ((lv.bigv.toNat : Nat) : Int) := (Int.toNat_of_nonneg hx).symm
  have hq : lv.bigv >>> c.toNat = ((lv.bigv.toNat / 2 ^ c.toNat : Nat) : Int) := by
    rw [Int.shiftRight_eq_div_pow]
    conv => lhs; rw [hX]
    exact (Int.natCast_ediv _ _).symm
  have hXn : lv.bigv.toNat < 2 ^ n := by
    have : ((lv.bigv.toNat : Nat) : Int) < ((2 ^ n : Nat) : Int) := by rw [← hX]; exact hfit
    exact_mod_cast this
  have hXb : lv.bigv.toNat < 2 ^ lv.bits := by
    have : ((lv.bigv.toNat : Nat) : Int) < ((2 ^ lv.bits : Nat) : Int) := by rw [← hX]; exact hxb
    exact_mod_cast this
  have heq : evalBin .shr (.int lt lv) (.int rt rv) =
      constantMpa { bits := lv.bits, i64 := 0#64, big := some ((lv.bigv.toNat / 2 ^ c.toNat : Nat) : Int) } (some lt) := by
    simp [evalBin, Op.isCmp, Op.isShift, hnew, hc, liftP, Mpa.rsh, hns, hq, bind, Except.bind]
  obtain ⟨t, v, h1, h2, _, _, h5⟩ := const_nat n lv.bits lt 0#64 (lv.bigv.toNat / 2 ^ c.toNat)
    (Nat.lt_of_le_of_lt (Nat.div_le_self _ _) hXb) hn
  refine ⟨t, v, by rw [heq, h1], h2, ?_⟩
  rw [h5, seen_of_imageExact n lt lv hil hn, ofNat_ushr n _ _ hXn]
  simp only [circuitOp]
  cases signed
  · simp
  · have hm : (seenBV n (CV.int lt lv)).msb = false := by
      cases hsg with
      | inl h => exact absurd h (by decide)
      | inr h => exact h
    rw [seen_of_imageExact n lt lv hil hn] at hm
    simp [BitVec.sshiftRight_eq_of_msb_false hm]


theorem idivC_nonneg (m a b : Nat) (ha : a < 2 ^ (m - 1)) (hb : b < 2 ^ (m - 1)) (hb0 : b ≠ 0) :
    idivC m a b = (a / b, a % b) := by
  unfold idivC
  simp [Nat.testBit_lt_two_pow ha, Nat.testBit_lt_two_pow hb, udivC, umodC, hb0]

theorem ofNat_udiv (n a b : Nat) (ha : a < 2 ^ n) (hb : b < 2 ^ n) (hb0 : b ≠ 0) :
    BitVec.ofNat n (a / b) = udivBV (BitVec.ofNat n a) (BitVec.ofNat n b) ∧
    BitVec.ofNat n (a % b) = umodBV (BitVec.ofNat n a) (BitVec.ofNat n b) := by
  have hne : BitVec.ofNat n b ≠ 0#n := by
    intro h
    have := congrArg BitVec.toNat h
    simp [Nat.mod_eq_of_lt hb] at this
    exact hb0 this
  unfold udivBV umodBV
  rw [if_neg hne, if_neg hne]
  constructor <;> apply BitVec.eq_of_toNat_eq
  · simp only [BitVec.toNat_ofNat, BitVec.toNat_udiv, Nat.mod_eq_of_lt ha, Nat.mod_eq_of_lt hb]
    exact Nat.mod_eq_of_lt (Nat.lt_of_le_of_lt (Nat.div_le_self _ _) ha)
  · simp only [BitVec.toNat_ofNat, BitVec.toNat_umod, Nat.mod_eq_of_lt ha, Nat.mod_eq_of_lt hb]
    exact Nat.mod_eq_of_lt (Nat.lt_of_le_of_lt (Nat.mod_le _ _) ha)

/-- `/` and `%` on the large path: a signed divider of `max(x.bits, y.bits)` bits; right for non-negative operands
below half their own `mpa` size that fit `n` bits (and are non-negative as `intN`), divisor not zero. -/
theorem fold_div_mod_wide (op : Op) (hop : op = .div ∨ op = .mod) (signed : Bool) (n cnt : Nat) (lt rt : TInfo)
    (lv rv : MInt) (hk : lt.kind = rt.kind) (hL : 64 < lt.bits) (hn : n ≤ lt.bits) (hnr : n ≤ rt.bits)
    (hd : divWide signed n (.int lt lv) (.int rt rv) = true) :
    ∃ t v, evalBin op (.int lt lv) (.int rt rv) = .ok (.int t v) ∧ t.kind = lt.kind ∧
      seenBV n (.int t v) = circuitOp op signed (seenBV n (.int lt lv)) (seenBV n (.int rt rv)) cnt := by
  simp only [divWide, mpaOf, Bool.and_eq_true, Bool.or_eq_true, Bool.not_eq_true'] at hd
  obtain ⟨⟨⟨hil, hir⟩, hdec⟩, hsg⟩ := hd
  obtain ⟨hxm, hym, hy0, hxn, hyn⟩ := of_decide_eq_true hdec
  have hil' := hil
  have hir' := hir
  simp only [imageExact, decide_eq_true_eq] at hil' hir'
  obtain ⟨hx, hxb⟩ := hil'
  obtain ⟨hy, hyb⟩ := hir'
  obtain ⟨hnew, hns⟩ := new_large lt.bits hL
  have hX : lv.bigv = ((lv.bigv.toNat : Nat) : Int) := (Int.toNat_of_nonneg hx).symm
  have hY : rv.bigv = ((rv.bigv.toNat : Nat) : Int) := (Int.toNat_of_nonneg hy).symm
  have cast_lt : ∀ (z : Int) (k : Nat), 0 ≤ z → z < ((2 ^ k : Nat) : Int) → z.toNat < 2 ^ k := by
    intro z k hz h
    have : ((z.toNat : Nat) : Int) < ((2 ^ k : Nat) : Int) := by rw [Int.toNat_of_nonneg hz]; exact h
    exact_mod_cast this
  have hXb := cast_lt _ _ hx hxb
  have hYb := cast_lt _ _ hy hyb
  have hXo := cast_lt _ _ hx hxm
  have hYo := cast_lt _ _ hy hym
  have hXn := cast_lt _ _ hx hxn
  have hYn := cast_lt _ _ hy hyn
  have hY0 : rv.bigv.toNat ≠ 0 := by omega
  have hwx : wires lv.bigv lv.bits = lv.bigv.toNat := by
    rw [wires_nonneg _ _ hx]; exact Nat.mod_eq_of_lt hXb
  have hwy : wires rv.bigv rv.bits = rv.bigv.toNat := by
    rw [wires_nonneg _ _ hy]; exact Nat.mod_eq_of_lt hYb
  have hXm : lv.bigv.toNat < 2 ^ (max lv.bits rv.bits - 1) :=
    Nat.lt_of_lt_of_le hXo (Nat.pow_le_pow_right (by omega) (by omega))
  have hYm : rv.bigv.toNat < 2 ^ (max lv.bits rv.bits - 1) :=
    Nat.lt_of_lt_of_le hYo (Nat.pow_le_pow_right (by omega) (by omega))
  have hspx : padOperand lv.bigv.toNat lv.bits (max lv.bits rv.bits) = lv.bigv.toNat := by
    unfold padOperand signPad
    by_cases hp : idivSignPads = true
    · rw [if_pos hp, if_neg]; intro h; rw [Nat.testBit_lt_two_pow hXo] at h; exact absurd h.2 (by decide)
    · rw [if_neg hp]
  have hspy : padOperand rv.bigv.toNat rv.bits (max lv.bits rv.bits) = rv.bigv.toNat := by
    unfold padOperand signPad
    by_cases hp : idivSignPads = true
    · rw [if_pos hp, if_neg]; intro h; rw [Nat.testBit_lt_two_pow hYo] at h; exact absurd h.2 (by decide)
    · rw [if_neg hp]
  have hldm : largeDivMod lv.bits rv.bits lv.bigv rv.bigv =
      (max lv.bits rv.bits, lv.bigv.toNat / rv.bigv.toNat, lv.bigv.toNat % rv.bigv.toNat) := by
    unfold largeDivMod
    simp only [hwx, hwy, hspx, hspy, idivC_nonneg _ _ _ hXm hYm hY0]
  have hsa : signed = true → (seenBV n (CV.int lt lv)).msb = false ∧ (seenBV n (CV.int rt rv)).msb = false := by
    intro h
    cases hsg with
    | inl h' => rw [h] at h'; exact absurd h' (by decide)
    | inr h' => exact h'
  obtain ⟨hcd, hcm⟩ := circuit_div_nonneg signed (seenBV n (CV.int lt lv)) (seenBV n (CV.int rt rv))
    (fun h => (hsa h).1) (fun h => (hsa h).2) cnt
  obtain ⟨hud, hum⟩ := ofNat_udiv n _ _ hXn hYn hY0
  have hq : lv.bigv.toNat / rv.bigv.toNat < 2 ^ max lv.bits rv.bits :=
    Nat.lt_of_le_of_lt (Nat.div_le_self _ _) (Nat.lt_of_lt_of_le hXb (Nat.pow_le_pow_right (by omega) (by omega)))
  have hr : lv.bigv.toNat % rv.bigv.toNat < 2 ^ max lv.bits rv.bits :=
    Nat.lt_of_le_of_lt (Nat.mod_le _ _) (Nat.lt_of_lt_of_le hXb (Nat.pow_le_pow_right (by omega) (by omega)))
  cases hop with
  | inl h =>
    subst h
    have heq : evalBin .div (.int lt lv) (.int rt rv) = constantMpa
        (⟨max lv.bits rv.bits, 0#64, some ((lv.bigv.toNat / rv.bigv.toNat : Nat) : Int)⟩ : MInt) (some lt) := by
      simp [evalBin, Op.isCmp, Op.isShift, Op.isArith, hk, hnew, hns, liftP, Mpa.div, hldm, bind, Except.bind]
    obtain ⟨t, v, h1, h2, _, _, h5⟩ := const_nat n _ lt 0#64 _ hq hn
    exact ⟨t, v, by rw [heq, h1], h2, by
      rw [h5, hcd, seen_of_imageExact n lt lv hil hn, seen_of_imageExact n rt rv hir hnr]; exact hud⟩
  | inr h =>
    subst h
    have heq : evalBin .mod (.int lt lv) (.int rt rv) = constantMpa
        (⟨max lv.bits rv.bits, 0#64, some ((lv.bigv.toNat % rv.bigv.toNat : Nat) : Int)⟩ : MInt) (some lt) := by
      simp [evalBin, Op.isCmp, Op.isShift, Op.isArith, hk, hnew, hns, liftP, Mpa.mod, hldm, bind, Except.bind]
    obtain ⟨t, v, h1, h2, _, _, h5⟩ := const_nat n _ lt 0#64 _ hr hn
    exact ⟨t, v, by rw [heq, h1], h2, by
      rw [h5, hcm, seen_of_imageExact n lt lv hil hn, seen_of_imageExact n rt rv hir hnr]; exact hum⟩


end Mpc.Fold

/-
Helper lemmas for Props/C12.lean: masking (`setSmall`), `Generator.Constant`
never panics, the low wires of a small constant, and per operator the shape of
`Binary.evalConst`'s result on the small path together with the bit-vector
facts that relate Go's int64 arithmetic on the (masked / extended) operands to
the run-time instruction on `n`-bit operands.
-/
import MpcVerif.Model.Fold
namespace Mpc.Fold
open Mpc.Mpa

instance {α} [DecidableEq α] : DecidableEq (Res α) := fun a b =>
  match a, b with
  | .ok x, .ok y => if h : x = y then isTrue (by rw [h]) else isFalse (by intro h'; cases h'; exact h rfl)
  | .error x, .error y => if h : x = y then isTrue (by rw [h]) else isFalse (by intro h'; cases h'; exact h rfl)
  | .ok _, .error _ => isFalse (by intro h; cases h)
  | .error _, .ok _ => isFalse (by intro h; cases h)

theorem getLsbD_mask (B i : Nat) (hB : B ≤ 64) : (mask B).getLsbD i = decide (i < B) := by
  unfold mask
  rw [BitVec.getLsbD_ushiftRight, BitVec.getLsbD_allOnes]
  by_cases h : i < B <;> simp [h] <;> omega

theorem setWidth_and_mask (x : BitVec 64) (n B : Nat) (hn : n ≤ B) (hB : B ≤ 64) :
    (x &&& mask B).setWidth n = x.setWidth n := by
  apply BitVec.eq_of_getLsbD_eq
  intro i hi
  simp [BitVec.getLsbD_setWidth, getLsbD_mask B i hB]
  intro _ _
  omega

theorem setSmall_eq (B : Nat) (x : BitVec 64) (hB : B ≤ 64) :
    setSmall B x = some { bits := B, i64 := x &&& mask B, big := none } := by
  unfold setSmall
  simp
  omega

theorem le_constSize (b : Nat) : b ≤ constSize b := by
  unfold constSize
  split
  · omega
  · split <;> omega

theorem constSize_le_64 (b : Nat) (h : b ≤ 64) : constSize b ≤ 64 := by
  unfold constSize
  split
  · omega
  · split <;> omega

theorem bitLen64_le (v : BitVec 64) : bitLen64 v ≤ 64 := by
  unfold bitLen64
  split
  · omega
  · have h := v.isLt
    have : Nat.log2 v.toNat < 64 := by
      rw [Nat.log2_lt (by omega)]; exact h
    omega

/-- `Generator.Constant` never takes its panic branch. -/
theorem constantMpa_ok (val : MInt) (t : TInfo) :
    constantMpa val (some t) =
      .ok (.int ⟨t.kind, if t.bits < constSize val.bitLen then constSize val.bitLen else t.bits, val.bitLen⟩
        { val with bits := constSize val.bitLen }) := by
  unfold constantMpa
  have := le_constSize val.bitLen
  simp only []
  split
  · rw [if_neg (by omega)]
  · rw [if_neg (by omega)]

theorem seenBV_small (n : Nat) (t : TInfo) (v : MInt) (hs : v.bits ≤ 64) (hn : n ≤ t.bits) :
    seenBV n (.int t v) = v.small.setWidth n := by
  unfold seenBV constWires
  have : v.isSmall = true := by simp [MInt.isSmall, hs]
  simp only [this, if_true]
  apply BitVec.eq_of_toNat_eq
  simp only [BitVec.toNat_ofNat, BitVec.toNat_setWidth]
  exact Nat.mod_mod_of_dvd _ (Nat.pow_dvd_pow 2 hn)


/-- The seven operators whose small path is `setSmall z.bits (x op y)`. -/
def wrap64 (op : Op) (x y : BitVec 64) : BitVec 64 :=
  match op with
  | .add => x + y
  | .sub => x - y
  | .mul => x * y
  | .band => x &&& y
  | .bor => x ||| y
  | .bxor => x ^^^ y
  | _ => x &&& ~~~y

def Op.isWrap : Op → Bool
  | .add | .sub | .mul | .band | .bor | .bxor | .bclr => true
  | _ => false

theorem setWidth_sub' {w i : Nat} (x y : BitVec w) (h : i ≤ w) :
    (x - y).setWidth i = x.setWidth i - y.setWidth i := by
  rw [BitVec.sub_eq_add_neg, BitVec.setWidth_add _ _ h, BitVec.setWidth_neg_of_le h, ← BitVec.sub_eq_add_neg]

theorem setWidth_wrap64 (op : Op) (hop : op.isWrap = true) (signed : Bool) (x y : BitVec 64) (n cnt : Nat) (hn : n ≤ 64) :
    (wrap64 op x y).setWidth n = circuitOp op signed (x.setWidth n) (y.setWidth n) cnt := by
  cases op <;> simp [Op.isWrap] at hop <;> simp only [wrap64, circuitOp]
  · exact BitVec.setWidth_add x y hn
  · exact setWidth_sub' x y hn
  · exact BitVec.setWidth_mul x y hn
  · exact BitVec.setWidth_and
  · exact BitVec.setWidth_or
  · exact BitVec.setWidth_xor
  · rw [BitVec.setWidth_and, BitVec.setWidth_not hn]

theorem evalBin_wrap (op : Op) (hop : op.isWrap = true) (lt rt : TInfo) (lv rv : MInt)
    (hk : lt.kind = rt.kind) (h0 : 0 < lt.bits) (h64 : lt.bits ≤ 64) :
    evalBin op (.int lt lv) (.int rt rv) =
      constantMpa { bits := lt.bits, i64 := wrap64 op lv.small rv.small &&& mask lt.bits, big := none } (some lt) := by
  have hne : lt.bits ≠ 0 := by omega
  have hsm : (({ bits := lt.bits } : MInt).isSmall) = true := by simp [MInt.isSmall, h64]
  cases op <;> simp [Op.isWrap] at hop <;>
    simp [evalBin, Op.isCmp, Op.isShift, Op.isArith, hk, Mpa.new, hne, liftP, Mpa.add, Mpa.sub, Mpa.mul, Mpa.and, Mpa.or,
      Mpa.xor, Mpa.andNot, Mpa.bitwise, hsm, setSmall_eq _ _ h64, wrap64, bind, Except.bind]


theorem and_mask_eq (x : BitVec 64) (B : Nat) (hB : B ≤ 64) : x &&& mask B = (x.setWidth B).setWidth 64 := by
  apply BitVec.eq_of_getLsbD_eq
  intro i hi
  rw [BitVec.getLsbD_and, getLsbD_mask B i hB, BitVec.getLsbD_setWidth, BitVec.getLsbD_setWidth]
  by_cases h : i < B <;> simp [h, hi]

theorem and_mask_lt (x : BitVec 64) (B : Nat) (hB : B ≤ 64) : (x &&& mask B).toNat < 2 ^ B := by
  rw [and_mask_eq x B hB]
  simp only [BitVec.toNat_setWidth]
  exact Nat.lt_of_le_of_lt (Nat.mod_le _ _) (Nat.mod_lt _ (Nat.two_pow_pos B))

theorem bitLen64_le_of_lt (v : BitVec 64) (B : Nat) (h0 : 0 < B) (h : v.toNat < 2 ^ B) : bitLen64 v ≤ B := by
  unfold bitLen64
  split
  · omega
  · rename_i hv
    have : Nat.log2 v.toNat < B := (Nat.log2_lt hv).2 h
    omega

/-- `- * & | ^ &^` on the small path: for every width `n ≤ lt.bits ≤ 64` and all operand constants
whose `mpa` values are small, folding succeeds, the result keeps the kind, is at least as wide as the left type,
needs at most `lt.bits` bits (so it is assignable to the declared type when `lt.bits = n`) and its low `n`
wires are the run-time instruction applied to the operands' low `n` wires. -/
theorem fold_wrap (op : Op) (hop : op.isWrap = true) (signed : Bool) (n cnt : Nat) (lt rt : TInfo) (lv rv : MInt)
    (hk : lt.kind = rt.kind) (h0 : 0 < lt.bits) (h64 : lt.bits ≤ 64) (hn : n ≤ lt.bits) (hnr : n ≤ rt.bits)
    (hlv : lv.bits ≤ 64) (hrv : rv.bits ≤ 64) :
    ∃ t v, evalBin op (.int lt lv) (.int rt rv) = .ok (.int t v) ∧ t.kind = lt.kind ∧ lt.bits ≤ t.bits ∧
      t.minBits ≤ lt.bits ∧ v.bits ≤ 64 ∧
      seenBV n (.int t v) = circuitOp op signed (seenBV n (.int lt lv)) (seenBV n (.int rt rv)) cnt := by
  rw [evalBin_wrap op hop lt rt lv rv hk h0 h64, constantMpa_ok]
  refine ⟨_, _, rfl, rfl, ?_, ?_, ?_, ?_⟩
  · simp only []; split <;> omega
  · show MInt.bitLen _ ≤ lt.bits
    simp only [MInt.bitLen, MInt.isSmall, h64, decide_true, if_true, MInt.small]
    exact bitLen64_le_of_lt _ _ h0 (and_mask_lt _ _ h64)
  · show constSize (MInt.bitLen _) ≤ 64
    apply constSize_le_64
    simp only [MInt.bitLen, MInt.isSmall, h64, decide_true, if_true, MInt.small]
    exact bitLen64_le _
  · rw [seenBV_small n lt lv hlv hn, seenBV_small n rt rv hrv hnr, seenBV_small]
    · show BitVec.setWidth n (wrap64 op lv.small rv.small &&& mask lt.bits) = _
      rw [setWidth_and_mask _ _ _ hn h64]
      exact setWidth_wrap64 op hop signed _ _ n cnt (by omega)
    · show constSize (MInt.bitLen _) ≤ 64
      apply constSize_le_64
      simp only [MInt.bitLen, MInt.isSmall, h64, decide_true, if_true, MInt.small]
      exact bitLen64_le _
    · simp only []; split <;> omega


/-! ### Result of `constantMpa` on a masked small value -/

theorem seen_const_masked (n B : Nat) (t : TInfo) (x : BitVec 64) (hB : B ≤ 64) (hn : n ≤ B) (hnt : n ≤ t.bits) :
    ∃ t' v, constantMpa { bits := B, i64 := x &&& mask B, big := none } (some t) = .ok (.int t' v) ∧
      t'.kind = t.kind ∧ t.bits ≤ t'.bits ∧ (0 < B → t'.minBits ≤ B) ∧ v.bits ≤ 64 ∧ 0 < v.bits ∧ t'.bits ≤ max t.bits 64 ∧
      v.small = x &&& mask B ∧
      seenBV n (.int t' v) = x.setWidth n := by
  rw [constantMpa_ok]
  have hbl : MInt.bitLen { bits := B, i64 := x &&& mask B, big := none } = bitLen64 (x &&& mask B) := by
    simp only [MInt.bitLen, MInt.isSmall, hB, decide_true, if_true, MInt.small]
  have hcs : constSize (bitLen64 (x &&& mask B)) ≤ 64 := constSize_le_64 _ (bitLen64_le _)
  have hcs0 : 0 < constSize (bitLen64 (x &&& mask B)) := by
    unfold constSize; split; · omega
    split <;> omega
  refine ⟨_, _, rfl, rfl, ?_, ?_, ?_, ?_, ?_, rfl, ?_⟩
  · simp only []; split <;> omega
  · intro h0
    show MInt.bitLen _ ≤ B
    rw [hbl]
    exact bitLen64_le_of_lt _ _ h0 (and_mask_lt _ _ hB)
  · show constSize (MInt.bitLen _) ≤ 64
    rw [hbl]; exact hcs
  · show 0 < constSize (MInt.bitLen _)
    rw [hbl]; exact hcs0
  · simp only [hbl]; split <;> omega
  · rw [seenBV_small]
    · show BitVec.setWidth n (x &&& mask B) = _
      exact setWidth_and_mask _ _ _ hn hB
    · show constSize (MInt.bitLen _) ≤ 64
      rw [hbl]; exact hcs
    · simp only []; split <;> omega

/-! ### shifts -/

theorem evalBin_shl (lt rt : TInfo) (lv rv : MInt) (c : BitVec 64) (hc : rv.int64 = some c) (h0 : 0 < lt.bits)
    (h64 : lt.bits ≤ 64) :
    evalBin .shl (.int lt lv) (.int rt rv) =
      constantMpa { bits := lt.bits, i64 := (lv.small <<< c.toNat) &&& mask lt.bits, big := none } (some lt) := by
  have hne : lt.bits ≠ 0 := by omega
  have hsm : (({ bits := lt.bits } : MInt).isSmall) = true := by simp [MInt.isSmall, h64]
  simp [evalBin, Op.isCmp, Op.isShift, Mpa.new, hne, liftP, hc, Mpa.lsh, hsm, setSmall_eq _ _ h64, bind, Except.bind]

theorem evalBin_shr (lt rt : TInfo) (lv rv : MInt) (c : BitVec 64) (hc : rv.int64 = some c) (h0 : 0 < lt.bits)
    (h64 : lt.bits ≤ 64) :
    evalBin .shr (.int lt lv) (.int rt rv) =
      constantMpa { bits := lt.bits, i64 := (lv.small.sshiftRight c.toNat) &&& mask lt.bits, big := none } (some lt) := by
  have hne : lt.bits ≠ 0 := by omega
  have hsm : (({ bits := lt.bits } : MInt).isSmall) = true := by simp [MInt.isSmall, h64]
  simp [evalBin, Op.isCmp, Op.isShift, Mpa.new, hne, liftP, hc, Mpa.rsh, hsm, setSmall_eq _ _ h64, bind, Except.bind]

theorem setWidth_sshiftRight_signExtend (n c : Nat) (s : BitVec n) (hn : n ≤ 64) :
    ((s.signExtend 64).sshiftRight c).setWidth n = s.sshiftRight c := by
  apply BitVec.eq_of_getLsbD_eq
  intro i hi
  rw [BitVec.getLsbD_setWidth, BitVec.getLsbD_sshiftRight, BitVec.getLsbD_sshiftRight, BitVec.getLsbD_signExtend,
    BitVec.msb_signExtend]
  have h1 : ¬ (64 ≤ i) := by omega
  have h2 : ¬ (n ≤ i) := by omega
  simp only [hi, h1, h2, decide_true, decide_false, Bool.not_false, Bool.true_and]
  by_cases hc : c + i < n
  · have : c + i < 64 := by omega
    simp [hc, this]
  · simp only [hc, if_false]
    by_cases h64 : c + i < 64
    · simp [h64]
    · simp only [h64, if_false]
      by_cases hge : n ≥ 64
      · have : n = 64 := by omega
        subst this
        simp [BitVec.msb]
      · simp [hge]

theorem setWidth_ushiftRight_zeroExtend (n c : Nat) (s : BitVec n) (hn : n ≤ 64) :
    ((s.setWidth 64) >>> c).setWidth n = s >>> c := by
  apply BitVec.eq_of_getLsbD_eq
  intro i hi
  rw [BitVec.getLsbD_setWidth, BitVec.getLsbD_ushiftRight, BitVec.getLsbD_ushiftRight, BitVec.getLsbD_setWidth]
  simp only [hi, decide_true, Bool.true_and]
  by_cases h : c + i < 64
  · simp [h]
  · have : n ≤ c + i := by omega
    simp [h, BitVec.getLsbD_of_ge _ _ this]


/-! ### `/`, `%` on exactly held non-negative operands -/

theorem setWidth_allOnes64 (n : Nat) (hn : n ≤ 64) : (BitVec.allOnes 64).setWidth n = BitVec.allOnes n := by
  apply BitVec.eq_of_getLsbD_eq
  intro i hi
  rw [BitVec.getLsbD_setWidth, BitVec.getLsbD_allOnes, BitVec.getLsbD_allOnes]
  have : i < 64 := by omega
  simp [hi, this]

theorem zext_eq_zero {n : Nat} (s : BitVec n) (hn : n ≤ 64) : s.setWidth 64 = 0#64 ↔ s = 0#n := by
  constructor
  · intro h
    apply BitVec.eq_of_toNat_eq
    have := congrArg BitVec.toNat h
    simp only [BitVec.toNat_setWidth, BitVec.toNat_ofNat, Nat.zero_mod] at this
    have h2 : s.toNat < 2 ^ 64 := Nat.lt_of_lt_of_le s.isLt (Nat.pow_le_pow_right (by omega) hn)
    rw [Nat.mod_eq_of_lt h2] at this
    simp [this]
  · intro h; subst h; simp

theorem zext_toNat {n : Nat} (s : BitVec n) (hn : n ≤ 64) : (s.setWidth 64).toNat = s.toNat := by
  simp only [BitVec.toNat_setWidth]
  exact Nat.mod_eq_of_lt (Nat.lt_of_lt_of_le s.isLt (Nat.pow_le_pow_right (by omega) hn))

theorem setWidth_udiv_zext {n : Nat} (a b : BitVec n) (hn : n ≤ 64) :
    ((a.setWidth 64) / (b.setWidth 64)).setWidth n = a / b := by
  apply BitVec.eq_of_toNat_eq
  simp only [BitVec.toNat_setWidth, BitVec.toNat_udiv]
  rw [Nat.mod_eq_of_lt (Nat.lt_of_lt_of_le a.isLt (Nat.pow_le_pow_right (by omega) hn)),
      Nat.mod_eq_of_lt (Nat.lt_of_lt_of_le b.isLt (Nat.pow_le_pow_right (by omega) hn))]
  exact Nat.mod_eq_of_lt (Nat.lt_of_le_of_lt (Nat.div_le_self _ _) a.isLt)

theorem setWidth_umod_zext {n : Nat} (a b : BitVec n) (hn : n ≤ 64) :
    ((a.setWidth 64) % (b.setWidth 64)).setWidth n = a % b := by
  apply BitVec.eq_of_toNat_eq
  simp only [BitVec.toNat_setWidth, BitVec.toNat_umod]
  rw [Nat.mod_eq_of_lt (Nat.lt_of_lt_of_le a.isLt (Nat.pow_le_pow_right (by omega) hn)),
      Nat.mod_eq_of_lt (Nat.lt_of_lt_of_le b.isLt (Nat.pow_le_pow_right (by omega) hn))]
  exact Nat.mod_eq_of_lt (Nat.lt_of_le_of_lt (Nat.mod_le _ _) a.isLt)

theorem sdiv_nonneg (x y : BitVec 64) (hx : x.msb = false) (hy : y.msb = false) : x.sdiv y = x / y := by
  rw [BitVec.sdiv_eq, hx, hy]; simp [BitVec.udiv_eq]

theorem srem_nonneg (x y : BitVec 64) (hx : x.msb = false) (hy : y.msb = false) : x.srem y = x % y := by
  rw [BitVec.srem_eq, hx, hy]

theorem evalBin_div (lt rt : TInfo) (lv rv : MInt) (hk : lt.kind = rt.kind) (h0 : 0 < lt.bits) (h64 : lt.bits ≤ 64) :
    evalBin .div (.int lt lv) (.int rt rv) =
      constantMpa { bits := lt.bits,
                    i64 := (if rv.small = 0#64 then BitVec.allOnes 64 else lv.small.sdiv rv.small) &&& mask lt.bits,
                    big := none } (some lt) := by
  have hne : lt.bits ≠ 0 := by omega
  have hsm : (({ bits := lt.bits } : MInt).isSmall) = true := by simp [MInt.isSmall, h64]
  by_cases hz : rv.small = 0#64 <;>
  simp [evalBin, Op.isCmp, Op.isShift, Op.isArith, hk, Mpa.new, hne, liftP, Mpa.div, hsm, setSmall_eq _ _ h64, bind,
    Except.bind, hz]

theorem evalBin_mod (lt rt : TInfo) (lv rv : MInt) (hk : lt.kind = rt.kind) (h0 : 0 < lt.bits) (h64 : lt.bits ≤ 64) :
    evalBin .mod (.int lt lv) (.int rt rv) =
      constantMpa { bits := lt.bits,
                    i64 := (if rv.small = 0#64 then lv.small else lv.small.srem rv.small) &&& mask lt.bits,
                    big := none } (some lt) := by
  have hne : lt.bits ≠ 0 := by omega
  have hsm : (({ bits := lt.bits } : MInt).isSmall) = true := by simp [MInt.isSmall, h64]
  by_cases hz : rv.small = 0#64 <;>
  simp [evalBin, Op.isCmp, Op.isShift, Op.isArith, hk, Mpa.new, hne, liftP, Mpa.mod, hsm, setSmall_eq _ _ h64, bind,
    Except.bind, hz]

/-- The run-time divider on operands without the sign bit: signed = unsigned. -/
theorem circuit_div_nonneg {n : Nat} (signed : Bool) (a b : BitVec n) (ha : signed = true → a.msb = false)
    (hb : signed = true → b.msb = false) (cnt : Nat) :
    circuitOp .div signed a b cnt = udivBV a b ∧ circuitOp .mod signed a b cnt = umodBV a b := by
  cases signed
  · simp [circuitOp]
  · simp [circuitOp, idivBV, imodBV, absBV, ha rfl, hb rfl]

theorem div_core {n : Nat} (a b : BitVec n) (hn : n ≤ 64) (ha : (a.setWidth 64).msb = false)
    (hb : (b.setWidth 64).msb = false) :
    (if b.setWidth 64 = 0#64 then BitVec.allOnes 64 else (a.setWidth 64).sdiv (b.setWidth 64)).setWidth n = udivBV a b ∧
    (if b.setWidth 64 = 0#64 then a.setWidth 64 else (a.setWidth 64).srem (b.setWidth 64)).setWidth n = umodBV a b := by
  unfold udivBV umodBV
  by_cases hz : b = 0#n
  · have h0 : b.setWidth 64 = 0#64 := (zext_eq_zero b hn).2 hz
    rw [if_pos h0, if_pos hz, if_pos h0, if_pos hz]
    refine ⟨setWidth_allOnes64 n hn, ?_⟩
    rw [BitVec.setWidth_setWidth_of_le a (by omega : n ≤ 64), BitVec.setWidth_eq]
  · have h0 : ¬ b.setWidth 64 = 0#64 := fun h => hz ((zext_eq_zero b hn).1 h)
    rw [if_neg h0, if_neg hz, if_neg h0, if_neg hz]
    rw [sdiv_nonneg _ _ ha hb, srem_nonneg _ _ ha hb]
    exact ⟨setWidth_udiv_zext a b hn, setWidth_umod_zext a b hn⟩


/-! ### comparisons -/

theorem cmpInt_lt (a b : Int) : (cmpInt a b == -1) = decide (a < b) := by
  unfold cmpInt; by_cases h : a < b <;> simp [h]; split <;> simp
theorem cmpInt_gt (a b : Int) : (cmpInt a b == 1) = decide (b < a) := by
  unfold cmpInt
  by_cases h : a < b
  · have : ¬ b < a := by omega
    simp [h, this]
  · by_cases h2 : b < a <;> simp [h, h2]
theorem cmpInt_eq (a b : Int) : (cmpInt a b == 0) = decide (a = b) := by
  unfold cmpInt
  by_cases h : a < b
  · have : ¬ a = b := by omega
    simp [h, this]
  · by_cases h2 : b < a
    · have : ¬ a = b := by omega
      simp [h, h2, this]
    · have : a = b := by omega
      simp [this]

theorem cmpResult_eq (op : Op) (a b : Int) :
    cmpResult op (cmpInt a b) =
      match op with
      | .eq => decide (a = b) | .ne => !decide (a = b) | .lt => decide (a < b) | .le => !decide (b < a)
      | .gt => decide (b < a) | .ge => !decide (a < b) | _ => false := by
  cases op <;> simp only [cmpResult, cmpInt_lt, cmpInt_gt, cmpInt_eq, bne]

theorem cmpResult_signed {n : Nat} (op : Op) (hop : op.isCmp = true) (a b : BitVec n) :
    cmpResult op (cmpInt a.toInt b.toInt) = circuitCmp op true a b := by
  rw [cmpResult_eq]
  cases op <;> simp [Op.isCmp] at hop <;>
    simp only [circuitCmp, if_true, BitVec.slt_eq_decide, BitVec.sle_eq_decide, BitVec.toInt_inj] <;>
    first
    | rfl
    | (simp only [Bool.beq_eq_decide_eq, bne])
    | (by_cases h : b.toInt < a.toInt <;> simp [h] <;> omega)
    | (by_cases h : a.toInt < b.toInt <;> simp [h] <;> omega)

theorem cmpResult_unsigned {n : Nat} (op : Op) (hop : op.isCmp = true) (a b : BitVec n) :
    cmpResult op (cmpInt (a.toNat : Int) (b.toNat : Int)) = circuitCmp op false a b := by
  rw [cmpResult_eq]
  have hinj : ((a.toNat : Int) = (b.toNat : Int)) ↔ a = b := by
    rw [← BitVec.toNat_inj]; omega
  cases op <;> simp [Op.isCmp] at hop <;>
    simp only [circuitCmp, Bool.false_eq_true, if_false, BitVec.ult_eq_decide, BitVec.ule_eq_decide, hinj] <;>
    first
    | (simp only [Bool.beq_eq_decide_eq, bne])
    | (by_cases h : b.toNat < a.toNat <;> simp [h] <;> omega)
    | (by_cases h : a.toNat < b.toNat <;> simp [h] <;> omega)


theorem evalBin_cmp (op : Op) (hop : op.isCmp = true) (lt rt : TInfo) (lv rv : MInt) (hlv : lv.bits ≤ 64)
    (hrv : rv.bits ≤ 64) (a b : BitVec 64) (ha : lv.int64 = some a) (hb : rv.int64 = some b) :
    evalBin op (.int lt lv) (.int rt rv) = .ok (.bool (cmpResult op (cmpInt a.toInt b.toInt))) := by
  have h1 : lv.isSmall = true := by simp [MInt.isSmall, hlv]
  have h2 : rv.isSmall = true := by simp [MInt.isSmall, hrv]
  simp [evalBin, hop, Mpa.cmp, h1, h2, ha, hb, liftP, bind, Except.bind, Option.bind]

/-! ### unary minus -/

theorem negate_small (t : TInfo) (v : MInt) (h0 : 0 < t.bits) (h64 : t.bits ≤ 64) :
    negate (.int t v) =
      constantMpa { bits := t.bits, i64 := (0#64 - v.small) &&& mask t.bits, big := none } (some t) := by
  have hne : t.bits ≠ 0 := by omega
  have hsm : (({ bits := t.bits, i64 := 0#64 } : MInt).isSmall) = true := by simp [MInt.isSmall, h64]
  simp [negate, newInt, hne, Mpa.sub, hsm, setSmall_eq _ _ h64, liftP, bind, Except.bind, MInt.small]

/-! ### Literals and typed non-negative constants -/

theorem constSize_pos (b : Nat) : 0 < constSize b := by
  unfold constSize; split
  · omega
  · split <;> omega

theorem constantMpa_none (val : MInt) :
    constantMpa val none =
      .ok (.int ⟨.int, constSize val.bitLen, val.bitLen⟩ { val with bits := constSize val.bitLen }) := by
  unfold constantMpa
  have := le_constSize val.bitLen
  have hp := constSize_pos val.bitLen
  simp only []
  rw [if_pos hp, if_neg (by omega)]

theorem constantMpa_none_small (val : MInt) (hbl : val.bitLen ≤ 64) :
    ∃ t v, constantMpa val none = .ok (.int t v) ∧ t.kind = .int ∧ 0 < v.bits ∧ v.bits ≤ 64 ∧ v.small = val.small := by
  rw [constantMpa_none]
  exact ⟨_, _, rfl, rfl, constSize_pos _, constSize_le_64 _ hbl, rfl⟩

theorem natBitLen_le_64 (a : Nat) (h : a < 2 ^ 64) : natBitLen a ≤ 64 := by
  unfold natBitLen
  split
  · omega
  · rename_i h0
    have : Nat.log2 a < 64 := (Nat.log2_lt h0).2 h
    omega

theorem setBig_nat (a : Nat) (ha : a < 2 ^ 64) : (setBig (a : Int)).bitLen ≤ 64 ∧ (setBig (a : Int)).small.toNat = a := by
  have hmod : ((a : Int) % ((2 ^ 64 : Nat) : Int)).toNat = a := by
    have : ((a : Int) % ((2 ^ 64 : Nat) : Int)) = (a : Int) :=
      Int.emod_eq_of_lt (Int.natCast_nonneg a) (by exact_mod_cast ha)
    rw [this]; simp
  unfold setBig
  split
  · constructor
    · simp only [MInt.bitLen, MInt.isSmall, Nat.le_refl, decide_true, if_true]
      exact bitLen64_le _
    · simp only [MInt.small]
      rw [BitVec.toNat_ofInt]; exact hmod
  · constructor
    · simp only [MInt.bitLen, MInt.isSmall, MInt.bigv, Int.natAbs_natCast]
      split
      · split
        · exact bitLen64_le _
        · exact natBitLen_le_64 a ha
      · split
        · exact bitLen64_le _
        · exact natBitLen_le_64 a ha
    · simp only [MInt.small]
      rw [BitVec.toNat_ofInt]; exact hmod

/-- The literal `a` (0 ≤ a < 2^64) is a small constant holding exactly `a`. -/
theorem literal_small (a : Nat) (ha : a < 2 ^ 64) :
    ∃ t v, literal a = .ok (.int t v) ∧ t.kind = .int ∧ 0 < v.bits ∧ v.bits ≤ 64 ∧ v.small.toNat = a := by
  obtain ⟨h1, h2⟩ := setBig_nat a ha
  obtain ⟨t, v, e, hk, h0, h64, hs⟩ := constantMpa_none_small _ h1
  exact ⟨t, v, e, hk, h0, h64, by rw [hs]; exact h2⟩

/-- `T(a)` for `0 ≤ a < 2^n`, `n ≤ 64`: a small constant of type `T` holding exactly `a`. -/
theorem typedConst_pos (k : Kind) (n a : Nat) (hn : n ≤ 64) (ha : a < 2 ^ n) :
    ∃ t v, typedConst k n (a : Int) .pos = .ok (.int t v) ∧ t.kind = k ∧ t.bits = n ∧ 0 < v.bits ∧ v.bits ≤ 64 ∧
      v.small.toNat = a ∧ seenBV n (.int t v) = BitVec.ofNat n a := by
  have ha64 : a < 2 ^ 64 := Nat.lt_of_lt_of_le ha (Nat.pow_le_pow_right (by omega) hn)
  obtain ⟨t, v, e, _, h0, h64, hs⟩ := literal_small a ha64
  have e' : literal (a : Int).natAbs = .ok (.int t v) := by rw [Int.natAbs_natCast]; exact e
  refine ⟨⟨k, n, if t.minBits > n then n else t.minBits⟩, v, ?_, rfl, rfl, h0, h64, hs, ?_⟩
  · unfold typedConst
    simp only []
    rw [e']
    rfl
  · rw [seenBV_small n _ v h64 (Nat.le_refl n)]
    apply BitVec.eq_of_toNat_eq
    rw [BitVec.toNat_setWidth, hs, BitVec.toNat_ofNat]

end Mpc.Fold

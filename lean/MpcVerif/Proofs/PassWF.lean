/-
C09: the executable well-formedness checkers of `Model/PassesWF.lean` imply
the hypotheses of the pass theorems.
-/
import MpcVerif.Model.PassesWF
import MpcVerif.Proofs.PassCP
import MpcVerif.Proofs.PassSC

set_option linter.unusedSimpArgs false
set_option linter.unusedVariables false

namespace Mpc
namespace Graph

/-! ### `gwfCheck` -/

/-- Index-form well-formedness of a gate list (hypotheses of `listWF_of_index`). -/
structure IndexWF (nIn n : Nat) (l : List BGate) : Prop where
  bound : ∀ i, i < l.length → (l.getD i default).dead = false →
            nIn ≤ (l.getD i default).o ∧ (l.getD i default).o < n
  dist  : ∀ i j, i < l.length → j < l.length → (l.getD i default).dead = false →
            (l.getD j default).dead = false → (l.getD i default).o = (l.getD j default).o → i = j
  topo  : ∀ i j, i ≤ j → j < l.length → (l.getD i default).dead = false → (l.getD j default).dead = false →
            (l.getD j default).o ≠ (l.getD i default).a ∧
            ((l.getD i default).op ≠ .inv → (l.getD j default).o ≠ (l.getD i default).b)

theorem foldr_wf (nIn n : Nat) : ∀ (l : List BGate) (W : Array Bool),
    l.foldr (wfStep nIn) (some (Array.replicate n false)) = some W →
    W.size = n ∧
    (∀ i, i < l.length → (l.getD i default).dead = false → W.getD (l.getD i default).o false = true) ∧
    IndexWF nIn n l := by
  intro l
  induction l with
  | nil =>
    intro W h
    simp only [List.foldr_nil, Option.some.injEq] at h
    subst h
    exact ⟨by simp, fun i hi => by simp at hi,
      ⟨fun i hi => by simp at hi, fun i j hi => by simp at hi, fun i j _ hj => by simp at hj⟩⟩
  | cons g t ih =>
    intro W h
    simp only [List.foldr_cons] at h
    cases hacc : t.foldr (wfStep nIn) (some (Array.replicate n false)) with
    | none => rw [hacc] at h; simp [wfStep] at h
    | some Wt =>
      rw [hacc] at h
      obtain ⟨hsz, hmark, hwf⟩ := ih Wt hacc
      simp only [wfStep] at h
      by_cases hd : g.dead = true
      · -- dead head: nothing changes
        rw [if_pos hd] at h
        simp only [Option.some.injEq] at h
        subst h
        have hd0 : ¬ ((g :: t).getD 0 default).dead = false := by simp [hd]
        refine ⟨hsz, fun i hi hl => ?_, ⟨fun i hi hl => ?_, fun i j hi hj hli hlj ho => ?_,
          fun i j hij hj hli hlj => ?_⟩⟩
        · cases i with
          | zero => exact absurd hl hd0
          | succ i => simpa using hmark i (by simp at hi; omega) (by simpa using hl)
        · cases i with
          | zero => exact absurd hl hd0
          | succ i => simpa using hwf.bound i (by simp at hi; omega) (by simpa using hl)
        · cases i with
          | zero => exact absurd hli hd0
          | succ i =>
            cases j with
            | zero => exact absurd hlj hd0
            | succ j =>
              have := hwf.dist i j (by simp at hi; omega) (by simp at hj; omega) (by simpa using hli)
                (by simpa using hlj) (by simpa using ho)
              omega
        · cases i with
          | zero => exact absurd hli hd0
          | succ i =>
            cases j with
            | zero => omega
            | succ j =>
              simpa using hwf.topo i j (by omega) (by simp at hj; omega) (by simpa using hli)
                (by simpa using hlj)
      · -- live head
        have hdf : g.dead = false := by cases hg : g.dead <;> simp_all
        rw [if_neg hd] at h
        split at h
        · rename_i hc1
          simp only [Bool.and_eq_true, decide_eq_true_eq, Bool.not_eq_true'] at hc1
          obtain ⟨⟨hnin, hosz⟩, hfree⟩ := hc1
          split at h
          · rename_i hc2
            simp only [Option.some.injEq] at h
            subst h
            simp only [Bool.and_eq_true, Bool.not_eq_true', Bool.or_eq_true, beq_iff_eq] at hc2
            obtain ⟨hca, hcb⟩ := hc2
            -- marks after setting o
            have hset : ∀ w, Wt.getD w false = true → (Wt.setIfInBounds g.o true).getD w false = true := by
              intro w hw
              by_cases e : g.o = w
              · subst e; exact getD_set_eq _ _ _ _ hosz
              · rw [getD_set_ne _ _ _ _ _ e]; exact hw
            have hself : (Wt.setIfInBounds g.o true).getD g.o false = true := getD_set_eq _ _ _ _ hosz
            have hlater : ∀ j, j < t.length → (t.getD j default).dead = false →
                (Wt.setIfInBounds g.o true).getD (t.getD j default).o false = true :=
              fun j hj hl => hset _ (hmark j hj hl)
            refine ⟨by simp [hsz], fun i hi hl => ?_, ⟨fun i hi hl => ?_, fun i j hi hj hli hlj ho => ?_,
              fun i j hij hj hli hlj => ?_⟩⟩
            · cases i with
              | zero => simpa using hself
              | succ i => simpa using hlater i (by simp at hi; omega) (by simpa using hl)
            · cases i with
              | zero => simp only [List.getD_cons_zero]; exact ⟨hnin, by rw [← hsz]; exact hosz⟩
              | succ i => simpa using hwf.bound i (by simp at hi; omega) (by simpa using hl)
            · cases i with
              | zero =>
                cases j with
                | zero => rfl
                | succ j =>
                  exfalso
                  simp only [List.getD_cons_zero, List.getD_cons_succ] at ho hlj
                  have := hmark j (by simp at hj; omega) hlj
                  rw [← ho, hfree] at this
                  exact Bool.false_ne_true this
              | succ i =>
                cases j with
                | zero =>
                  exfalso
                  simp only [List.getD_cons_zero, List.getD_cons_succ] at ho hli
                  have := hmark i (by simp at hi; omega) hli
                  rw [ho, hfree] at this
                  exact Bool.false_ne_true this
                | succ j =>
                  have := hwf.dist i j (by simp at hi; omega) (by simp at hj; omega) (by simpa using hli)
                    (by simpa using hlj) (by simpa using ho)
                  omega
            · cases i with
              | zero =>
                simp only [List.getD_cons_zero]
                have hw : ∀ w, (Wt.setIfInBounds g.o true).getD w false = true →
                    ((Wt.setIfInBounds g.o true).getD g.a false = false) → w ≠ g.a := by
                  intro w h1 h2 e; rw [e, h2] at h1; exact Bool.false_ne_true h1
                have hwb : ∀ w, (Wt.setIfInBounds g.o true).getD w false = true → g.op ≠ .inv → w ≠ g.b := by
                  intro w h1 hop e
                  rcases hcb with hcb | hcb
                  · exact hop hcb
                  · rw [e, hcb] at h1; exact Bool.false_ne_true h1
                cases j with
                | zero =>
                  simp only [List.getD_cons_zero]
                  exact ⟨hw _ hself hca, hwb _ hself⟩
                | succ j =>
                  simp only [List.getD_cons_succ] at hlj ⊢
                  have hm := hlater j (by simp at hj; omega) hlj
                  exact ⟨hw _ hm hca, hwb _ hm⟩
              | succ i =>
                cases j with
                | zero => omega
                | succ j =>
                  simpa using hwf.topo i j (by omega) (by simp at hj; omega) (by simpa using hli)
                    (by simpa using hlj)
          · simp at h
        · simp at h

theorem gwfCheck_sound (G : Graph) (h : G.gwfCheck = true) : G.GWF := by
  unfold gwfCheck at h
  simp only [Bool.and_eq_true, decide_eq_true_eq, Option.isSome_iff_exists] at h
  obtain ⟨hnin, W, hW⟩ := h
  obtain ⟨_, _, hwf⟩ := foldr_wf G.nIn G.wires.size _ W hW
  refine ⟨hnin, fun i hi => ?_, fun i j hi hj ho => ?_, fun i j hij hi hj => ?_⟩
  · rw [gate_eq_getD]
    exact hwf.bound i (by simpa using hi.1) (by rw [← gate_eq_getD]; exact hi.2)
  · rw [gate_eq_getD, gate_eq_getD] at ho
    exact hwf.dist i j (by simpa using hi.1) (by simpa using hj.1) (by rw [← gate_eq_getD]; exact hi.2)
      (by rw [← gate_eq_getD]; exact hj.2) ho
  · rw [gate_eq_getD, gate_eq_getD]
    exact hwf.topo i j hij (by simpa using hj.1) (by rw [← gate_eq_getD]; exact hi.2)
      (by rw [← gate_eq_getD]; exact hj.2)

/-! ### list membership helpers -/

theorem gate_mem (G : Graph) (i : Nat) (hi : i < G.gates.size) : G.gate i ∈ G.gates.toList := by
  rw [gate_eq_getD, List.getD_eq_getElem?_getD, List.getElem?_eq_getElem (by simpa using hi)]
  simp

theorem allLiveCheck_sound (G : Graph) (h : G.allLiveCheck = true) :
    ∀ i, i < G.gates.size → (G.gate i).dead = false := by
  intro i hi
  unfold allLiveCheck at h
  simp only [List.all_eq_true, Bool.not_eq_true'] at h
  exact h _ (gate_mem G i hi)

theorem iboundCheck_sound (G : Graph) (h : G.iboundCheck = true) :
    ∀ i, i < G.gates.size → (G.gate i).a < G.wires.size ∧
      ((G.gate i).op ≠ .inv → (G.gate i).b < G.wires.size) := by
  intro i hi
  unfold iboundCheck at h
  simp only [List.all_eq_true, Bool.and_eq_true, decide_eq_true_eq, Bool.or_eq_true, beq_iff_eq] at h
  have := h _ (gate_mem G i hi)
  refine ⟨this.1, fun hop => ?_⟩
  rcases this.2 with e | e
  · exact absurd e hop
  · exact e

/-! ### the fan-out counts -/

theorem cntStep_size (c : Array Nat) (g : BGate) : (cntStep c g).size = c.size := by
  unfold cntStep
  split
  · rfl
  · split <;> simp

theorem foldl_cnt_size : ∀ (l : List BGate) (c : Array Nat), (l.foldl cntStep c).size = c.size := by
  intro l
  induction l with
  | nil => intro c; rfl
  | cons g t ih => intro c; simp only [List.foldl_cons]; rw [ih, cntStep_size]

theorem getD_modify_add (c : Array Nat) (a w : Nat) (ha : a < c.size) :
    (c.modify a fun x => x + 1).getD w 0 = c.getD w 0 + (if a = w then 1 else 0) := by
  rw [getD_modify]
  by_cases e : w = a
  · subst e; simp [ha]
  · have : ¬ a = w := fun h => e h.symm
    simp [e, this]

theorem cntStep_getD (c : Array Nat) (g : BGate) (w : Nat)
    (hb : g.dead = false → g.a < c.size ∧ (g.op ≠ .inv → g.b < c.size)) :
    (cntStep c g).getD w 0 = c.getD w 0 + (if g.dead then 0 else slots w g) := by
  unfold cntStep slots
  by_cases hd : g.dead = true
  · simp [hd]
  · have hdf : g.dead = false := by cases hg : g.dead <;> simp_all
    obtain ⟨ha, hbb⟩ := hb hdf
    rw [if_neg hd, if_neg hd]
    by_cases hop : g.op = .inv
    · simp only [hop, if_true, ne_eq, not_true_eq_false, false_and, if_false, Nat.add_zero]
      exact getD_modify_add c g.a w ha
    · simp only [hop, if_false, ne_eq, not_false_eq_true, true_and]
      rw [getD_modify_add _ g.b w (by simp; exact hbb hop), getD_modify_add c g.a w ha]
      omega

theorem foldl_cnt_getD (w : Nat) : ∀ (l : List BGate) (c : Array Nat),
    (∀ g ∈ l, g.dead = false → g.a < c.size ∧ (g.op ≠ .inv → g.b < c.size)) →
    (l.foldl cntStep c).getD w 0 = c.getD w 0 + rdL w l := by
  intro l
  induction l with
  | nil => intro c _; simp [rdL]
  | cons g t ih =>
    intro c hb
    simp only [List.foldl_cons, rdL]
    rw [ih (cntStep c g) (fun g' hg' hd => by
      rw [cntStep_size]; exact hb g' (List.mem_cons_of_mem _ hg') hd)]
    rw [cntStep_getD c g w (hb g List.mem_cons_self)]
    omega

theorem readerCounts_spec (G : Graph) (hib : G.iboundCheck = true) (w : Nat) :
    G.readerCounts.getD w 0 = G.readers w := by
  unfold readerCounts readers
  rw [foldl_cnt_getD w _ _ (fun g hg _ => by
    unfold iboundCheck at hib
    simp only [List.all_eq_true, Bool.and_eq_true, decide_eq_true_eq, Bool.or_eq_true, beq_iff_eq] at hib
    have := hib g hg
    simp only [Array.size_replicate]
    refine ⟨this.1, fun hop => ?_⟩
    rcases this.2 with e | e
    · exact absurd e hop
    · exact e)]
  simp [Array.getD]

theorem countCheck_sound (G : Graph) (hib : G.iboundCheck = true) (h : G.countCheck = true) :
    ∀ w, G.readers w ≤ (G.wire w).numOut := by
  intro w
  rw [← readerCounts_spec G hib]
  by_cases hw : w < G.wires.size
  · unfold countCheck at h
    simp only [List.all_eq_true, List.mem_range, decide_eq_true_eq] at h
    exact h w hw
  · have : G.readerCounts.getD w 0 = 0 := by
      have hs : G.readerCounts.size = G.wires.size := by
        unfold readerCounts; rw [foldl_cnt_size]; simp
      simp [Array.getD, hs, hw]
    rw [this]; exact Nat.zero_le _

theorem unreadCheck_sound (G : Graph) (hib : G.iboundCheck = true) (h : G.unreadCheck = true) :
    ∀ w ∈ G.outputs, ∀ j, j < G.gates.size → (G.gate j).dead = false → ¬ reads (G.gate j) w := by
  intro w hw j hj hd hr
  unfold unreadCheck at h
  simp only [List.all_eq_true, Bool.and_eq_true, decide_eq_true_eq, beq_iff_eq] at h
  have h0 := (h w hw).2
  rw [readerCounts_spec G hib] at h0
  have := no_reader_of_count G w h0 j ⟨hj, hd⟩
  rcases hr with e | ⟨hop, e⟩
  · exact this.1 e
  · exact this.2 hop e

/-! ### the constants -/

structure ConstShape (G : Graph) : Prop where
  nin1 : 1 ≤ G.nIn
  size : 3 ≤ G.gates.size
  g0 : (G.gate 0).op = .inv ∧ (G.gate 0).a = 0 ∧ (G.gate 0).dead = false
  g1 : (G.gate 1).op = .and ∧ (G.gate 1).a = 0 ∧ (G.gate 1).b = (G.gate 0).o ∧ (G.gate 1).o = G.zero ∧
        (G.gate 1).dead = false
  g2 : (G.gate 2).op = .xor ∧ (G.gate 2).a = 0 ∧ (G.gate 2).b = (G.gate 0).o ∧ (G.gate 2).o = G.one ∧
        (G.gate 2).dead = false

theorem constShapeCheck_sound (G : Graph) (h : G.constShapeCheck = true) : ConstShape G := by
  unfold constShapeCheck at h
  simp only [Bool.and_eq_true, decide_eq_true_eq, beq_iff_eq, Bool.not_eq_true'] at h
  obtain ⟨⟨h1, h3⟩, hg⟩ := h
  obtain ⟨⟨⟨⟨⟨⟨⟨⟨⟨⟨⟨⟨a1, a2⟩, a3⟩, b1⟩, b2⟩, b3⟩, b4⟩, b5⟩, c1⟩, c2⟩, c3⟩, c4⟩, c5⟩ := hg
  exact ⟨h1, h3, ⟨a1, a2, a3⟩, ⟨b1, b2, b3, b4, b5⟩, ⟨c1, c2, c3, c4, c5⟩⟩

/-- In every solution the zero wire is 0 and the one wire is 1. -/
theorem ConstShape.csem {G : Graph} (h : ConstShape G) (x : List Bool) (s : Store Bool) (hs : G.GSol x s) :
    s.get G.zero = false ∧ s.get G.one = true := by
  have e0 := hs.sem 0 ⟨by have := h.size; omega, h.g0.2.2⟩
  have e1 := hs.sem 1 ⟨by have := h.size; omega, h.g1.2.2.2.2⟩
  have e2 := hs.sem 2 ⟨by have := h.size; omega, h.g2.2.2.2.2⟩
  simp only [gateEq, h.g0.1, h.g0.2.1, Op.eval] at e0
  simp only [gateEq, h.g1.1, h.g1.2.1, h.g1.2.2.1, h.g1.2.2.2.1, Op.eval] at e1
  simp only [gateEq, h.g2.1, h.g2.2.1, h.g2.2.2.1, h.g2.2.2.2.1, Op.eval] at e2
  rw [e1, e2, e0]
  cases s.get 0 <;> simp

/-! ### hypotheses of the pass theorems -/

theorem wval_oob (G : Graph) (w : Nat) (h : ¬ w < G.wires.size) : G.wval w = .unknown := by
  simp [wval, wire, Array.getD, h]
  rfl

theorem wfCPCheck_sound (G : Graph) (h : G.wfCPCheck = true) : G.WFcp := by
  unfold wfCPCheck at h
  simp only [Bool.and_eq_true, decide_eq_true_eq] at h
  obtain ⟨⟨⟨⟨⟨hg, hl⟩, hs⟩, hv⟩, hv0⟩, hvt⟩ := h
  have hsh := constShapeCheck_sound G hs
  have hval : ∀ w, (G.wval w = .zero → w = G.zero) ∧ (G.wval w = .one → w = G.one) := by
    intro w
    by_cases hw : w < G.wires.size
    · unfold valuesCheck at hv
      simp only [List.all_eq_true, List.mem_range] at hv
      have := hv w hw
      cases hvw : G.wval w <;> rw [hvw] at this <;> simp at this ⊢
      · exact this
      · exact this
    · rw [wval_oob G w hw]; simp
  refine ⟨gwfCheck_sound G hg, hsh.nin1, allLiveCheck_sound G hl, fun w => (hval w).1, fun w => (hval w).2,
    ⟨3, ⟨1, by omega, by have := hsh.size; omega, hsh.g1.2.2.2.1⟩,
      ⟨2, by omega, by have := hsh.size; omega, hsh.g2.2.2.2.1⟩, fun i hi _ => ?_⟩,
    fun x s hsol => hsh.csem x s hsol⟩
  have : i = 0 ∨ i = 1 ∨ i = 2 := by omega
  rcases this with rfl | rfl | rfl
  · exact ⟨by rw [hsh.g0.2.1]; exact hv0, fun hop => absurd hsh.g0.1 hop⟩
  · exact ⟨by rw [hsh.g1.2.1]; exact hv0, fun _ => by rw [hsh.g1.2.2.1]; exact hvt⟩
  · exact ⟨by rw [hsh.g2.2.1]; exact hv0, fun _ => by rw [hsh.g2.2.2.1]; exact hvt⟩

theorem wfPruneCheck_sound (G : Graph) (h : G.wfPruneCheck = true) : G.PInv := by
  unfold wfPruneCheck at h
  simp only [Bool.and_eq_true] at h
  obtain ⟨⟨⟨hg, hib⟩, hf⟩, hc⟩ := h
  refine ⟨gwfCheck_sound G hg, fun w hw => ?_, countCheck_sound G hib hc⟩
  unfold flagsCheck at hf
  simp only [List.all_eq_true] at hf
  exact hf w hw

theorem wfSCCheck_sound (G : Graph) (h : G.wfSCCheck = true) : G.SCInv 0 := by
  unfold wfSCCheck at h
  simp only [Bool.and_eq_true] at h
  obtain ⟨⟨⟨⟨⟨⟨⟨hg, hl⟩, hib⟩, hc⟩, hu⟩, hs⟩, hxz⟩, hp⟩ := h
  have hwf := gwfCheck_sound G hg
  have hlive := allLiveCheck_sound G hl
  have hsh := constShapeCheck_sound G hs
  refine ⟨⟨hwf, hlive, iboundCheck_sound G hib, countCheck_sound G hib hc,
    fun w hw j hj => unreadCheck_sound G hib hu w hw j hj (hlive j hj)⟩, ?_, ?_⟩
  · -- Zero annotations on XOR inputs
    intro x i hi hx
    have hz := (hsh.csem x _ (evalStore_gsol hwf x)).1
    unfold xorZeroCheck at hxz
    simp only [List.all_eq_true, Bool.or_eq_true, Bool.and_eq_true, bne_iff_ne, ne_eq, beq_iff_eq] at hxz
    have := hxz _ (gate_mem G i hi)
    rcases this with hne | ⟨ha, hb⟩
    · exact absurd hx hne
    · constructor
      · intro hv
        rcases ha with ha | ha
        · exact absurd hv ha
        · rw [ha]; exact hz
      · intro hv
        rcases hb with hb | hb
        · exact absurd hv hb
        · rw [hb]; exact hz
  · -- input-gate pointers
    intro w q hin
    by_cases hw : w < G.wires.size
    · unfold ptrCheck at hp
      simp only [List.all_eq_true, List.mem_range] at hp
      have := hp w hw
      rw [hin] at this
      simp only [Bool.and_eq_true, decide_eq_true_eq, Bool.or_eq_true, beq_iff_eq] at this
      refine ⟨this.1, ?_⟩
      rcases this.2 with (e | e) | e
      · exact Or.inl e
      · exact Or.inr (Or.inl e)
      · right; right
        intro j _ hj hr
        rw [readerCounts_spec G hib] at e
        have := no_reader_of_count G w e j ⟨hj, hlive j hj⟩
        rcases hr with e' | ⟨hop, e'⟩
        · exact this.1 e'
        · exact this.2 hop e'
    · exfalso
      have : (G.wire w).input = none := by simp [wire, Array.getD, hw]; rfl
      rw [this] at hin; cases hin

end Graph
end Mpc

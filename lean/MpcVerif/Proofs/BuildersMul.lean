/-
Array multiplier (C07): row-accumulation invariant and the all-width theorem
for the recursive generator of Model/Builders.lean.
-/
import MpcVerif.Proofs.BuildersKS

namespace Mpc.Bld
open Mpc

/-! ### arithmetic helpers -/

theorem toNat_map_and (xs : List Bool) (b : Bool) : toNat (xs.map (· && b)) = toNat xs * b.toNat := by
  induction xs with
  | nil => simp
  | cons x r ih =>
    simp only [List.map_cons, toNat_cons, ih]
    cases x <;> cases b <;> simp <;> omega

/-- `(Z + 2^k·T) mod 2^(k+l) = Z + 2^k·(T mod 2^l)` for `Z < 2^k`. -/
theorem add_mul_mod_pow (Z T k l : Nat) (hZ : Z < 2 ^ k) :
    (Z + 2 ^ k * T) % 2 ^ (k + l) = Z + 2 ^ k * (T % 2 ^ l) := by
  have h := Nat.mod_add_div T (2 ^ l)
  have hr := Nat.mod_lt T (Nat.two_pow_pos l)
  generalize T % 2 ^ l = r at *
  generalize T / 2 ^ l = q at *
  subst h
  have e : Z + 2 ^ k * (r + 2 ^ l * q) = (Z + 2 ^ k * r) + 2 ^ (k + l) * q := by
    rw [Nat.pow_add]; grind
  rw [e, Nat.add_mul_mod_self_left, Nat.mod_eq_of_lt]
  rw [Nat.pow_add]
  have : 2 ^ k * r + 2 ^ k ≤ 2 ^ k * 2 ^ l := by
    have : 2 ^ k * (r + 1) ≤ 2 ^ k * 2 ^ l := Nat.mul_le_mul_left _ (by omega)
    rw [Nat.mul_add] at this; omega
  omega

/-! ### adder cells -/

theorem halfAdder_spec {s : St} {inp : List Bool} (hwf : WF s inp) {a b : Nat} (ha : a < s.next) (hb : b < s.next) :
    Spec inp s (halfAdder a b) (fun r s' => Holds s' inp r.1 (s.val inp a != s.val inp b) ∧
      Holds s' inp r.2 (s.val inp a && s.val inp b)) := by
  unfold halfAdder
  refine Spec.bind (gateF_spec .xor s a b hwf ha hb) ?_
  intro sm s1 e1 hs
  refine (gate_spec .and e1.wf (Holds.mono e1 ⟨ha, rfl⟩) (Holds.mono e1 ⟨hb, rfl⟩)).map ?_
  intro c s2 e2 hc
  exact ⟨hs.mono e2, hc⟩

theorem halfAdder_sum (a b : Bool) : (a != b).toNat + 2 * (a && b).toNat = a.toNat + b.toNat := by
  cases a <;> cases b <;> rfl

theorem amAnds_spec {inp : List Bool} (yj : Nat) (x : List Nat) :
    ∀ {s : St} (_ : WF s inp), Bnd s x → yj < s.next →
    Spec inp s (amAnds yj x) (fun r s' => Bnd s' r ∧
      busVal s' inp r = (busVal s inp x).map (· && s.val inp yj)) := by
  induction x with
  | nil => intro s hwf _ _; exact Spec.pure hwf ⟨Bnd.nil s, rfl⟩
  | cons xb xs ih =>
    intro s hwf hx hy
    simp only [amAnds]
    refine Spec.bind (gateF_spec .and s xb yj hwf hx.head hy) ?_
    intro a s1 e1 ha
    refine Spec.bind (ih e1.wf (hx.tail.mono e1) (Nat.lt_of_lt_of_le hy e1.next)) ?_
    intro r s2 e2 ⟨hr, hrv⟩
    refine Spec.pure e2.wf ⟨Bnd.cons (ha.mono e2).1 hr, ?_⟩
    simp [busVal_cons, (ha.mono e2).2, hrv, busVal_ext e1 hx.tail, e1.val yj hy]

/-- Cells `i ≥ 1` of a row: a ripple addition of the AND bits, the previous
sums and the carry. -/
theorem amRowCells_spec {inp : List Bool} : ∀ (as ss : List Nat) (c : Nat) {s : St} (_ : WF s inp),
    Bnd s as → Bnd s ss → c < s.next → ss.length ≤ as.length →
    Spec inp s (amRowCells as ss c) (fun r s' => Bnd s' r.1 ∧ r.2 < s'.next ∧ r.1.length = as.length ∧
      toNat (busVal s' inp r.1) + 2 ^ as.length * (s'.val inp r.2).toNat =
        toNat (busVal s inp as) + toNat (busVal s inp ss) + (s.val inp c).toNat)
  | [], ss, c, s, hwf, _, _, hc, hl => by
    simp only [amRowCells]
    have : ss = [] := by cases ss with
      | nil => rfl
      | cons _ _ => simp at hl
    subst this
    exact Spec.pure hwf ⟨Bnd.nil s, hc, rfl, by simp⟩
  | a :: as, [], c, s, hwf, ha, _, hc, _ => by
    simp only [amRowCells]
    refine Spec.bind (halfAdder_spec hwf ha.head hc) ?_
    intro r s1 e1 ⟨hr1, hr2⟩
    refine Spec.bind (amRowCells_spec as [] r.2 e1.wf (ha.tail.mono e1) (Bnd.nil _) hr2.1 (by simp)) ?_
    intro t s2 e2 ⟨ht1, ht2, htl, htv⟩
    refine Spec.pure e2.wf ⟨Bnd.cons (hr1.mono e2).1 ht1, ht2, by simp [htl], ?_⟩
    simp only [busVal_cons, busVal_nil, toNat_cons, toNat_nil, (hr1.mono e2).2, List.length_cons,
      Nat.pow_succ] at htv ⊢
    rw [hr2.2, busVal_ext e1 ha.tail] at htv
    have := halfAdder_sum (s.val inp a) (s.val inp c)
    generalize 2 ^ as.length = P at *
    have e : P * 2 * (s2.val inp t.2).toNat = 2 * (P * (s2.val inp t.2).toNat) := by grind
    omega
  | a :: as, sm :: sms, c, s, hwf, ha, hs, hc, hl => by
    simp only [amRowCells, fullAdder']
    refine Spec.bind (fullAdder_spec hwf ha.head hs.head hc true) ?_
    intro r s1 e1 ⟨hr1, hr2, hr2v⟩
    refine Spec.bind (amRowCells_spec as sms r.2 e1.wf (ha.tail.mono e1) (hs.tail.mono e1) hr2
      (by simpa using hl)) ?_
    intro t s2 e2 ⟨ht1, ht2, htl, htv⟩
    refine Spec.pure e2.wf ⟨Bnd.cons (hr1.mono e2).1 ht1, ht2, by simp [htl], ?_⟩
    simp only [busVal_cons, toNat_cons, (hr1.mono e2).2, List.length_cons, Nat.pow_succ] at htv ⊢
    rw [hr2v rfl, busVal_ext e1 ha.tail, busVal_ext e1 hs.tail] at htv
    have := fullAdder_sum (s.val inp a) (s.val inp sm) (s.val inp c)
    generalize 2 ^ as.length = P at *
    have e : P * 2 * (s2.val inp t.2).toNat = 2 * (P * (s2.val inp t.2).toNat) := by grind
    omega

/-- One row: `z_j + 2·sums' = ands + sums`. -/
theorem amRow_spec {inp : List Bool} {s : St} (hwf : WF s inp) {ands sums : List Nat}
    (ha : Bnd s ands) (hs : Bnd s sums) (hane : 0 < ands.length) (hsne : 0 < sums.length)
    (hl : sums.length ≤ ands.length) :
    Spec inp s (amRow ands sums) (fun r s' => r.1 < s'.next ∧ Bnd s' r.2 ∧ r.2.length = ands.length ∧
      (s'.val inp r.1).toNat + 2 * toNat (busVal s' inp r.2) =
        toNat (busVal s inp ands) + toNat (busVal s inp sums)) := by
  obtain ⟨a0, as, rfl⟩ : ∃ a0 as, ands = a0 :: as := by
    cases ands with
    | nil => simp at hane
    | cons a0 as => exact ⟨a0, as, rfl⟩
  obtain ⟨s0, ss, rfl⟩ : ∃ s0 ss, sums = s0 :: ss := by
    cases sums with
    | nil => simp at hsne
    | cons s0 ss => exact ⟨s0, ss, rfl⟩
  simp only [amRow]
  refine Spec.bind (halfAdder_spec hwf ha.head hs.head) ?_
  intro r s1 e1 ⟨hr1, hr2⟩
  refine Spec.bind (amRowCells_spec as ss r.2 e1.wf (ha.tail.mono e1) (hs.tail.mono e1) hr2.1
    (by simpa using hl)) ?_
  intro t s2 e2 ⟨ht1, ht2, htl, htv⟩
  refine Spec.pure e2.wf ⟨(hr1.mono e2).1, ht1.append (Bnd.cons ht2 (Bnd.nil _)), by simp [htl], ?_⟩
  rw [(hr1.mono e2).2, busVal_append, toNat_append, busVal_length, htl]
  simp only [busVal_cons, busVal_nil, toNat_cons, toNat_nil, Nat.mul_zero, Nat.add_zero]
  rw [hr2.2, busVal_ext e1 ha.tail, busVal_ext e1 hs.tail] at htv
  have := halfAdder_sum (s.val inp a0) (s.val inp s0)
  omega

/-- The intermediate rows: `zs + 2^k·sums_k = sums_0 + X·(y_1 … y_k)`. -/
theorem amRows_spec {inp : List Bool} (x : List Nat) (hxne : 0 < x.length) :
    ∀ (ys sums : List Nat) {s : St} (_ : WF s inp), Bnd s x → Bnd s ys → Bnd s sums →
    0 < sums.length → sums.length ≤ x.length →
    Spec inp s (amRows x ys sums) (fun r s' => Bnd s' r.1 ∧ Bnd s' r.2 ∧ r.1.length = ys.length ∧
      r.2.length = (if ys = [] then sums.length else x.length) ∧
      toNat (busVal s' inp r.1) + 2 ^ ys.length * toNat (busVal s' inp r.2) =
        toNat (busVal s inp sums) + toNat (busVal s inp x) * toNat (busVal s inp ys))
  | [], sums, s, hwf, _, _, hs, hs0, hsl => by
    simp only [amRows]
    exact Spec.pure hwf ⟨Bnd.nil s, hs, rfl, by simp, by simp⟩
  | yj :: ys, sums, s, hwf, hx, hy, hs, hs0, hsl => by
    simp only [amRows]
    refine Spec.bind (amAnds_spec yj x hwf hx hy.head) ?_
    intro ands s1 e1 ⟨hab, hav⟩
    have hal : ands.length = x.length := by
      have := congrArg List.length hav; simpa using this
    refine Spec.bind (amRow_spec e1.wf hab (hs.mono e1) (by omega) hs0 (by omega)) ?_
    intro r s2 e2 ⟨hr1, hr2, hr2l, hrv⟩
    have e12 := e1.trans e2
    refine Spec.bind (amRows_spec x hxne ys r.2 e2.wf (hx.mono e12) (hy.tail.mono e12) hr2 (by omega)
      (by omega)) ?_
    intro t s3 e3 ⟨ht1, ht2, htl, hteq, htv⟩
    refine Spec.pure e3.wf ⟨Bnd.cons (Nat.lt_of_lt_of_le hr1 e3.next) ht1, ht2, by simp [htl], ?_, ?_⟩
    · simp only [List.cons_ne_nil, if_false]
      rw [hteq]; split <;> omega
    · simp only [busVal_cons, toNat_cons, e3.val r.1 hr1, List.length_cons, Nat.pow_succ]
      rw [busVal_ext e12 hx, busVal_ext e12 hy.tail] at htv
      rw [hav, toNat_map_and, busVal_ext e1 hs] at hrv
      generalize toNat (busVal s inp x) = X at *
      generalize toNat (busVal s inp ys) = Y at *
      generalize toNat (busVal s3 inp t.1) = Zs at *
      generalize toNat (busVal s3 inp t.2) = SF at *
      generalize toNat (busVal s2 inp r.2) = S1 at *
      generalize 2 ^ ys.length = P at *
      have e1' : X * ((s.val inp yj).toNat + 2 * Y) = X * (s.val inp yj).toNat + 2 * (X * Y) := by grind
      have e2' : P * 2 * SF = 2 * (P * SF) := by grind
      omega

theorem add_two_mul_mod (Z T m : Nat) (hZ : Z < 2) : (Z + 2 * T) % 2 ^ (m + 1) = Z + 2 * (T % 2 ^ m) := by
  have := add_mul_mod_pow Z T 1 m (by simpa using hZ)
  rw [Nat.add_comm 1 m] at this
  simpa using this

/-- Cells `i ≥ 1` of the final row, `lim` result positions left. -/
theorem amFinalCells_spec {inp : List Bool} (yl : Nat) : ∀ (xs sums : List Nat) (c lim : Nat) {s : St}
    (_ : WF s inp), Bnd s xs → Bnd s sums → c < s.next → yl < s.next → sums.length ≤ xs.length →
    Spec inp s (amFinalCells yl xs sums c lim) (fun r s' => Bnd s' r.1 ∧ r.2 < s'.next ∧
      r.1.length = min lim xs.length ∧
      toNat (busVal s' inp r.1) =
        (toNat ((busVal s inp xs).map (· && s.val inp yl)) + toNat (busVal s inp sums) + (s.val inp c).toNat) %
          2 ^ min lim xs.length ∧
      (xs.length ≤ lim → toNat (busVal s' inp r.1) + 2 ^ xs.length * (s'.val inp r.2).toNat =
        toNat ((busVal s inp xs).map (· && s.val inp yl)) + toNat (busVal s inp sums) + (s.val inp c).toNat))
  | [], sums, c, lim, s, hwf, _, _, hc, _, hl => by
    simp only [amFinalCells]
    have : sums = [] := by cases sums with
      | nil => rfl
      | cons _ _ => simp at hl
    subst this
    exact Spec.pure hwf ⟨Bnd.nil s, hc, by simp, by simp [Nat.mod_one], by simp⟩
  | xb :: xs, sums, c, 0, s, hwf, hx, hs, hc, hy, hl => by
    simp only [amFinalCells]
    refine Spec.bind (gateF_spec .and s xb yl hwf hx.head hy) ?_
    intro a s1 e1 _
    have hst : Bnd s1 sums.tail := fun w hw => (hs.mono e1) w (List.mem_of_mem_tail hw)
    refine (amFinalCells_spec yl xs sums.tail c 0 e1.wf (hx.tail.mono e1) hst
      (Nat.lt_of_lt_of_le hc e1.next) (Nat.lt_of_lt_of_le hy e1.next) (by simp at hl ⊢; omega)).mono ?_
    intro r s2 _ ⟨hr1, hr2, hrl, hrv, _⟩
    simp only [Nat.zero_min, Nat.pow_zero, Nat.mod_one] at hrl hrv
    refine ⟨hr1, hr2, by simp [hrl], by simp [hrv, Nat.mod_one], ?_⟩
    intro h; simp at h
  | xb :: xs, sums, c, lim + 1, s, hwf, hx, hs, hc, hy, hl => by
    simp only [amFinalCells]
    refine Spec.bind (gateF_spec .and s xb yl hwf hx.head hy) ?_
    intro a s1 e1 ha
    have hst : Bnd s1 sums.tail := fun w hw => (hs.mono e1) w (List.mem_of_mem_tail hw)
    have hc1 : c < s1.next := Nat.lt_of_lt_of_le hc e1.next
    -- the adder of this position
    have hadd : Spec inp s1 (match sums with
        | [] => halfAdder a c
        | sm :: _ => fullAdder' a sm c)
        (fun r s' => Holds s' inp r.1 (s'.val inp r.1) ∧ r.2 < s'.next ∧
          (s'.val inp r.1).toNat + 2 * (s'.val inp r.2).toNat =
            (s.val inp xb && s.val inp yl).toNat + toNat (busVal s inp (sums.take 1)) + (s.val inp c).toNat) := by
      cases sums with
      | nil =>
        refine (halfAdder_spec e1.wf ha.1 hc1).mono ?_
        intro r s2 _ ⟨h1, h2⟩
        refine ⟨⟨h1.1, rfl⟩, h2.1, ?_⟩
        rw [h1.2, h2.2, ha.2, e1.val c hc]
        simpa using halfAdder_sum _ _
      | cons sm sms =>
        refine (fullAdder_spec e1.wf ha.1 (Nat.lt_of_lt_of_le hs.head e1.next) hc1 true).mono ?_
        intro r s2 _ ⟨h1, h2, h3⟩
        refine ⟨⟨h1.1, rfl⟩, h2, ?_⟩
        rw [h1.2, h3 rfl, ha.2, e1.val c hc, e1.val sm hs.head]
        simpa using fullAdder_sum _ _ _
    refine Spec.bind hadd ?_
    intro r s2 e2 ⟨hr1, hr2, hrv⟩
    have e12 := e1.trans e2
    refine Spec.bind (amFinalCells_spec yl xs sums.tail r.2 lim e2.wf (hx.tail.mono e12) (hst.mono e2) hr2
      (Nat.lt_of_lt_of_le hy e12.next) (by simp at hl ⊢; omega)) ?_
    intro t s3 e3 ⟨ht1, ht2, htl, htv, htv2⟩
    have hsplit : toNat (busVal s inp sums) = toNat (busVal s inp (sums.take 1)) + 2 * toNat (busVal s inp sums.tail) := by
      cases sums with
      | nil => simp
      | cons sm sms => simp
    have hT : toNat ((busVal s inp (xb :: xs)).map (· && s.val inp yl)) + toNat (busVal s inp sums) +
        (s.val inp c).toNat = (s2.val inp r.1).toNat + 2 *
        (toNat ((busVal s2 inp xs).map (· && s2.val inp yl)) + toNat (busVal s2 inp sums.tail) +
          (s2.val inp r.2).toNat) := by
      rw [busVal_ext e12 hx.tail, e12.val yl hy, busVal_ext e2 hst,
        busVal_ext e1 (fun w hw => hs w (List.mem_of_mem_tail hw)), hsplit]
      simp only [busVal_cons, List.map_cons, toNat_cons]
      omega
    refine Spec.pure e3.wf ⟨Bnd.cons (hr1.mono e3).1 ht1, ht2, by simp [htl] <;> omega, ?_, ?_⟩
    · rw [hT]
      simp only [busVal_cons, toNat_cons, e3.val r.1 hr1.1, htv, List.length_cons]
      have hm : min (lim + 1) (xs.length + 1) = min lim xs.length + 1 := by omega
      rw [hm, add_two_mul_mod _ _ _ (by have := Bool.toNat_le (s2.val inp r.1); omega)]
    · intro hle
      rw [hT]
      have := htv2 (by simp at hle; omega)
      simp only [busVal_cons, toNat_cons, e3.val r.1 hr1.1, List.length_cons, Nat.pow_succ]
      generalize 2 ^ xs.length = P at *
      have e : P * 2 * (s3.val inp t.2).toNat = 2 * (P * (s3.val inp t.2).toNat) := by grind
      omega

/-- The final row: the low `lim` bits of `x·y_last + sums`. -/
theorem amFinal_spec {inp : List Bool} {s : St} (hwf : WF s inp) (yl : Nat) {x sums : List Nat} (lim : Nat)
    (hx : Bnd s x) (hs : Bnd s sums) (hy : yl < s.next) (hx2 : 2 ≤ x.length) (hs0 : 0 < sums.length)
    (hsl : sums.length ≤ x.length) (hlim : 0 < lim) :
    Spec inp s (amFinal yl x sums lim) (fun r s' => Bnd s' r ∧ r.length = min lim (x.length + 1) ∧
      toNat (busVal s' inp r) =
        (toNat (busVal s inp x) * (s.val inp yl).toNat + toNat (busVal s inp sums)) % 2 ^ lim) := by
  obtain ⟨x0, xs, rfl⟩ : ∃ x0 xs, x = x0 :: xs := by
    cases x with
    | nil => simp at hx2
    | cons x0 xs => exact ⟨x0, xs, rfl⟩
  obtain ⟨s0, ss, rfl⟩ : ∃ s0 ss, sums = s0 :: ss := by
    cases sums with
    | nil => simp at hs0
    | cons s0 ss => exact ⟨s0, ss, rfl⟩
  obtain ⟨l, rfl⟩ : ∃ l, lim = l + 1 := ⟨lim - 1, by omega⟩
  simp only [amFinal]
  refine Spec.bind (gateF_spec .and s x0 yl hwf hx.head hy) ?_
  intro a s1 e1 ha
  refine Spec.bind (halfAdder_spec e1.wf ha.1 (Nat.lt_of_lt_of_le hs.head e1.next)) ?_
  intro r s2 e2 ⟨hr1, hr2⟩
  have e12 := e1.trans e2
  refine Spec.bind (amFinalCells_spec yl xs ss r.2 l e2.wf (hx.tail.mono e12) (hs.tail.mono e12) hr2.1
    (Nat.lt_of_lt_of_le hy e12.next) (by simp at hsl ⊢; omega)) ?_
  intro t s3 e3 ⟨ht1, ht2, htl, htv, htv2⟩
  -- T0 = sb + 2·T'
  have hT : toNat (busVal s inp (x0 :: xs)) * (s.val inp yl).toNat + toNat (busVal s inp (s0 :: ss)) =
      (s2.val inp r.1).toNat + 2 * (toNat ((busVal s2 inp xs).map (· && s2.val inp yl)) +
        toNat (busVal s2 inp ss) + (s2.val inp r.2).toNat) := by
    rw [← toNat_map_and, busVal_ext e12 hx.tail, e12.val yl hy, busVal_ext e12 hs.tail, hr1.2, hr2.2, ha.2,
      e1.val s0 hs.head]
    simp only [busVal_cons, List.map_cons, toNat_cons, eval_and]
    have := halfAdder_sum (s.val inp x0 && s.val inp yl) (s.val inp s0)
    omega
  have hb0 : (s2.val inp r.1).toNat < 2 := by have := Bool.toNat_le (s2.val inp r.1); omega
  rw [hT]
  by_cases hc : l ≥ (x0 :: xs).length
  · simp only [hc, if_true]
    have hle : xs.length ≤ l := by simp at hc; omega
    have h2 := htv2 hle
    have hmin : min l xs.length = xs.length := by omega
    have hval : toNat (busVal s3 inp (r.1 :: t.1 ++ [t.2])) = (s2.val inp r.1).toNat + 2 *
        (toNat ((busVal s2 inp xs).map (· && s2.val inp yl)) + toNat (busVal s2 inp ss) +
          (s2.val inp r.2).toNat) := by
      rw [List.cons_append, busVal_cons, toNat_cons, busVal_append, toNat_append, busVal_length, htl, hmin,
        e3.val r.1 hr1.1]
      simp only [busVal_cons, busVal_nil, toNat_cons, toNat_nil, Nat.mul_zero, Nat.add_zero]
      omega
    refine Spec.pure e3.wf ⟨Bnd.append (Bnd.cons (hr1.mono e3).1 ht1) (Bnd.cons ht2 (Bnd.nil _)), ?_, ?_⟩
    · simp [htl]; simp at hc; omega
    · rw [hval]
      -- exact: the value has x.length+1 bits ≤ lim bits
      have hlt := toNat_lt (busVal s3 inp (r.1 :: t.1 ++ [t.2]))
      rw [hval] at hlt
      have hlen : (busVal s3 inp (r.1 :: t.1 ++ [t.2])).length ≤ l + 1 := by
        simp [htl]; simp at hc; omega
      rw [Nat.mod_eq_of_lt (Nat.lt_of_lt_of_le hlt (Nat.pow_le_pow_right (by omega) hlen))]
  · simp only [hc, if_false, List.append_nil]
    have hmin : min l xs.length = l := by simp at hc; omega
    refine Spec.pure e3.wf ⟨Bnd.cons (hr1.mono e3).1 ht1, ?_, ?_⟩
    · simp [htl]; simp at hc; omega
    · rw [busVal_cons, toNat_cons, e3.val r.1 hr1.1, htv, hmin, add_two_mul_mod _ _ _ hb0]

theorem toNat_dropLast_getLast (ys : List Bool) (h : ys ≠ []) :
    toNat ys = toNat ys.dropLast + 2 ^ (ys.length - 1) * (ys.getLastD false).toNat :=
  toNat_getLast ys h

theorem busVal_dropLast (s : St) (inp : List Bool) (ws : List Nat) :
    busVal s inp ws.dropLast = (busVal s inp ws).dropLast := by
  simp [busVal, List.map_dropLast]

/-- `NewArrayMultiplier` is exact for every operand width and every result
width: `(x·y) mod 2^nz`. -/
theorem arrayMultiplier_spec {s : St} {inp : List Bool} (hwf : WF s inp) {x y : List Nat} (nz : Nat)
    (hx : Bnd s x) (hy : Bnd s y) (hne : 0 < max x.length y.length) (hnz : 0 < nz) :
    Spec inp s (arrayMultiplier x y nz) (fun z s' => Bnd s' z ∧ z.length = nz ∧
      toNat (busVal s' inp z) = (toNat (busVal s inp x) * toNat (busVal s inp y)) % 2 ^ nz) := by
  unfold arrayMultiplier
  refine Spec.bind (zeroPad_spec hwf hx hy) ?_
  intro p s1 e1 ⟨hp1, hp2, hv1, hv2⟩
  simp only
  have hlen1 : p.1.length = max x.length y.length := by
    have := congrArg List.length hv1; simp at this; omega
  have hlen2 : p.2.length = max x.length y.length := by
    have := congrArg List.length hv2; simp at this; omega
  -- truncated operands
  generalize hxt : p.1.take nz = xt
  generalize hyt : p.2.take nz = yt
  have hxtb : Bnd s1 xt := hxt ▸ hp1.take nz
  have hytb : Bnd s1 yt := hyt ▸ hp2.take nz
  have hxtl : xt.length = min nz (max x.length y.length) := by rw [← hxt]; simp [hlen1]
  have hytl : yt.length = min nz (max x.length y.length) := by rw [← hyt]; simp [hlen2]
  have hXv : toNat (busVal s1 inp xt) = toNat (busVal s inp x) % 2 ^ nz := by
    rw [← hxt, busVal_take, hv1, toNat_take, toNat_padTo]
  have hYv : toNat (busVal s1 inp yt) = toNat (busVal s inp y) % 2 ^ nz := by
    rw [← hyt, busVal_take, hv2, toNat_take, toNat_padTo]
  have hfinal : ∀ R : Nat, R = (toNat (busVal s1 inp xt) * toNat (busVal s1 inp yt)) % 2 ^ nz →
      R = (toNat (busVal s inp x) * toNat (busVal s inp y)) % 2 ^ nz := by
    intro R hR; rw [hR, hXv, hYv, ← Nat.mul_mod]
  match xt, yt, hxtb, hytb, hxtl, hytl, hfinal with
  | [], _, _, _, hxtl, _, _ => simp at hxtl; omega
  | _ :: _, [], _, _, _, hytl, _ => simp at hytl; omega
  | [x0], y0 :: ys, hxtb, hytb, hxtl, hytl, hfinal =>
    have hys : ys = [] := by
      have : (y0 :: ys).length = 1 := by rw [hytl, ← hxtl]; rfl
      cases ys with
      | nil => rfl
      | cons _ _ => simp at this
    subst hys
    refine Spec.bind (gateF_spec .and s1 x0 y0 e1.wf hxtb.head hytb.head) ?_
    intro w s2 e2 hw
    refine Spec.bind (zeros_spec e2.wf _) ?_
    intro zs s3 e3 ⟨hzb, hzv⟩
    have hzl : zs.length = nz - 1 := by have := congrArg List.length hzv; simpa using this
    refine Spec.pure e3.wf ⟨Bnd.cons (hw.mono e3).1 hzb, by simp [hzl]; omega, ?_⟩
    apply hfinal
    rw [busVal_cons, hzv, toNat_cons, toNat_replicate_false, (hw.mono e3).2]
    simp only [busVal_cons, busVal_nil, toNat_cons, toNat_nil, eval_and]
    have h2 : 1 < 2 ^ nz := by
      have := Nat.pow_le_pow_right (by omega : 0 < 2) hnz
      have h1 : 2 ^ 1 = 2 := rfl
      omega
    cases s1.val inp x0 <;> cases s1.val inp y0 <;> simp [Nat.mod_eq_of_lt h2]
  | x0 :: x1 :: xs, y0 :: ys, hxtb, hytb, hxtl, hytl, hfinal =>
    -- n ≥ 2
    have hyne : ys ≠ [] := by
      intro h; subst h
      have : (x0 :: x1 :: xs).length = [y0].length := by rw [hxtl, hytl]
      simp at this
    have hn : (x0 :: x1 :: xs).length = (y0 :: ys).length := by rw [hxtl, hytl]
    simp only
    generalize hX : x0 :: x1 :: xs = X at *
    have hXl2 : 2 ≤ X.length := by rw [← hX]; simp
    refine Spec.bind (amAnds_spec y0 X e1.wf hxtb hytb.head) ?_
    intro row0 s2 e2 ⟨hr0b, hr0v⟩
    have hr0l : row0.length = X.length := by have := congrArg List.length hr0v; simpa using this
    obtain ⟨z0, sums0, rfl⟩ : ∃ z0 sums0, row0 = z0 :: sums0 := by
      cases row0 with
      | nil => simp at hr0l; omega
      | cons z0 sums0 => exact ⟨z0, sums0, rfl⟩
    simp only [List.tail_cons, List.headD_cons]
    have hmidb : Bnd s2 ys.dropLast := fun w hw => (hytb.tail.mono e2) w (List.dropLast_subset _ hw)
    refine Spec.bind (amRows_spec X (by omega) ys.dropLast sums0 e2.wf (hxtb.mono e2) hmidb hr0b.tail
      (by simp at hr0l; omega) (by simp at hr0l; omega)) ?_
    intro mid s3 e3 ⟨hm1, hm2, hm1l, hm2l, hmv⟩
    have e13 := e2.trans e3
    have hylast : ys.getLastD 0 < s3.next :=
      Nat.lt_of_lt_of_le (getLastD_mem_bnd hytb.tail hyne) e13.next
    have hm2pos : 0 < mid.2.length ∧ mid.2.length ≤ X.length := by
      rw [hm2l]; split <;> (simp at hr0l; omega)
    have hnle : X.length ≤ nz := by rw [hxtl]; omega
    refine Spec.bind (amFinal_spec e3.wf (ys.getLastD 0) (nz - (X.length - 1)) (hxtb.mono e13) hm2 hylast
      hXl2 hm2pos.1 hm2pos.2 (by omega)) ?_
    intro fin s4 e4 ⟨hfb, hfl, hfv⟩
    refine Spec.bind (zeros_spec e4.wf _) ?_
    intro zs s5 e5 ⟨hzb, hzv⟩
    have hzl : zs.length = nz - 2 * X.length := by have := congrArg List.length hzv; simpa using this
    have e25 := (e3.trans e4).trans e5
    have hysl : ys.length = X.length - 1 := by simp at hn; omega
    have hdl : ys.dropLast.length = X.length - 2 := by simp [hysl]; omega
    refine Spec.pure e5.wf ⟨?_, ?_, ?_⟩
    · exact Bnd.cons (Nat.lt_of_lt_of_le hr0b.head e25.next)
        (((hm1.mono (e4.trans e5)).append (hfb.mono e5)).append hzb)
    · simp only [List.length_cons, List.length_append, hm1l, hfl, hzl, hdl]
      omega
    · apply hfinal
      -- collect the values
      have hrow0 : (s2.val inp z0).toNat + 2 * toNat (busVal s2 inp sums0) =
          toNat (busVal s1 inp X) * (s1.val inp y0).toNat := by
        rw [← toNat_map_and, ← hr0v]; simp
      have hz0lt : (s2.val inp z0).toNat < 2 := by have := Bool.toNat_le (s2.val inp z0); omega
      rw [busVal_ext e2 hxtb, busVal_ext e2 (fun w hw => hytb.tail w (List.dropLast_subset _ hw)), busVal_dropLast] at hmv
      rw [busVal_ext e13 hxtb, e13.val _ (getLastD_mem_bnd hytb.tail hyne), val_getLastD _ hyne] at hfv
      have hys := toNat_dropLast_getLast (busVal s1 inp ys) (by
        intro h; have := congrArg List.length h; simp at this; exact hyne this)
      rw [busVal_length, hysl] at hys
      have hzlow : toNat (busVal s3 inp mid.1) < 2 ^ (X.length - 2) := by
        have := toNat_lt (busVal s3 inp mid.1); rwa [busVal_length, hm1l, hdl] at this
      have hres : toNat (busVal s5 inp (z0 :: mid.1 ++ fin ++ zs)) =
          (s2.val inp z0).toNat + 2 * (toNat (busVal s3 inp mid.1) + 2 ^ (X.length - 2) *
            ((toNat (busVal s1 inp X) * ((busVal s1 inp ys).getLastD false).toNat +
              toNat (busVal s3 inp mid.2)) % 2 ^ (nz - (X.length - 1)))) := by
        rw [List.cons_append, List.cons_append, busVal_cons, toNat_cons, busVal_append, hzv, toNat_append_zeros,
          busVal_append, toNat_append, busVal_length, hm1l, hdl, busVal_ext e5 hfb,
          busVal_ext (e4.trans e5) hm1, hfv, e25.val z0 hr0b.head]
      rw [hres]
      rw [hdl] at hmv
      simp only [busVal_cons, toNat_cons]
      generalize toNat (busVal s1 inp X) = XV at *
      generalize toNat (busVal s1 inp ys) = YS at *
      generalize toNat (busVal s1 inp ys).dropLast = YM at *
      generalize ((busVal s1 inp ys).getLastD false).toNat = yl at *
      generalize toNat (busVal s3 inp mid.1) = ZM at *
      generalize toNat (busVal s3 inp mid.2) = SF at *
      generalize toNat (busVal s2 inp sums0) = S0 at *
      generalize (s2.val inp z0).toNat = z0v at *
      generalize (s1.val inp y0).toNat = y0v at *
      -- X·Y = z0 + 2·ZM + 2^(n-1)·(SF + X·yl)
      have hk : nz = (X.length - 1) + (nz - (X.length - 1)) := by omega
      have hpow : 2 ^ (X.length - 1) = 2 * 2 ^ (X.length - 2) := by
        have : X.length - 1 = (X.length - 2) + 1 := by omega
        rw [this, Nat.pow_succ]; omega
      have hprod : XV * (y0v + 2 * YS) = (z0v + 2 * ZM) + 2 ^ (X.length - 1) * (XV * yl + SF) := by
        rw [hys, hpow]
        generalize 2 ^ (X.length - 2) = P at *
        have e1' : XV * (y0v + 2 * (YM + P * yl)) = XV * y0v + 2 * (XV * YM) + 2 * (P * (XV * yl)) := by grind
        have e2' : 2 * P * (XV * yl + SF) = 2 * (P * (XV * yl)) + 2 * (P * SF) := by grind
        omega
      rw [hprod, hk, add_mul_mod_pow _ _ _ _ (by rw [hpow]; omega), ← hk, hpow]
      generalize 2 ^ (X.length - 2) = P
      generalize (XV * yl + SF) % 2 ^ (nz - (X.length - 1)) = F
      grind

end Mpc.Bld

/-
Helper lemmas for property C13 (Model/IoArg.lean): bit-level behaviour of the
big.Int primitives, of the Parse element loop, of setInt / setBytes, of
bitLen and of the Result scalar decoders.
-/
import MpcVerif.Model.IoArg
set_option linter.unusedSimpArgs false

namespace Mpc.IoArg

instance {ε α : Type} [DecidableEq ε] [DecidableEq α] : DecidableEq (Except ε α)
  | .ok a, .ok b => if h : a = b then isTrue (by rw [h]) else isFalse (by intro e; cases e; exact h rfl)
  | .error a, .error b => if h : a = b then isTrue (by rw [h]) else isFalse (by intro e; cases e; exact h rfl)
  | .ok _, .error _ => isFalse (by intro e; cases e)
  | .error _, .ok _ => isFalse (by intro e; cases e)

theorem testBit_setBit (n i : Nat) (b : Bool) (j : Nat) :
    (setBit n i b).testBit j = if j = i then b else n.testBit j := by
  unfold setBit
  by_cases h : n.testBit i = b
  · simp only [h, if_true]
    by_cases hj : j = i
    · subst hj; simp [h]
    · simp [hj]
  · simp only [h, if_false, Nat.testBit_xor, Nat.one_shiftLeft, Nat.testBit_two_pow]
    by_cases hj : j = i
    · subst hj
      simp
      cases hb : n.testBit j <;> cases b <;> simp_all
    · have : ¬ i = j := fun h => hj h.symm
      simp [hj, this]

theorem testBit_writeBits (r off n : Nat) (f : Nat → Bool) (j : Nat) :
    (writeBits r off n f).testBit j =
      if off ≤ j ∧ j < off + n then f (j - off) else r.testBit j := by
  unfold writeBits
  induction n with
  | zero => simp; omega
  | succ n ih =>
    rw [List.range_succ, List.foldl_append]
    simp only [List.foldl_cons, List.foldl_nil, testBit_setBit, ih]
    by_cases h1 : j = off + n
    · subst h1; simp
    · simp only [h1, if_false]
      by_cases h2 : off ≤ j ∧ j < off + n
      · have : off ≤ j ∧ j < off + (n + 1) := by omega
        simp [h2, this]
      · have : ¬ (off ≤ j ∧ j < off + (n + 1)) := by omega
        simp [h2, this]

theorem ibit_ofNat (n i : Nat) : ibit (n : Int) i = n.testBit i := rfl

theorem testBit_lowBits (z : Int) (w i : Nat) :
    (lowBits z w).testBit i = (decide (i < w) && ibit z i) := by
  cases z with
  | ofNat n => simp [lowBits, ibit, Nat.testBit_mod_two_pow]
  | negSucc n =>
    simp only [lowBits, ibit]
    have hlt : n % 2 ^ w < 2 ^ w := Nat.mod_lt _ (Nat.two_pow_pos w)
    have : 2 ^ w - 1 - n % 2 ^ w = 2 ^ w - (n % 2 ^ w + 1) := by omega
    rw [this, Nat.testBit_two_pow_sub_succ hlt, Nat.testBit_mod_two_pow]
    by_cases h : i < w <;> simp [h]

theorem ibit_nonneg_lt {v : Int} {k j : Nat} (h0 : 0 ≤ v) (h : v < (2 ^ k : Nat)) (hj : k ≤ j) :
    ibit v j = false := by
  cases v with
  | ofNat n =>
    simp only [ibit]
    apply Nat.testBit_lt_two_pow
    have h' : n < 2 ^ k := Int.ofNat_lt.mp h
    exact Nat.lt_of_lt_of_le h' (Nat.pow_le_pow_right (by omega) hj)
  | negSucc n => exact absurd h0 (by simp)

/-- a negative value of a signed 64-bit kind has all bits from 63 upwards set -/
theorem ibit_neg_ge {v : Int} {j : Nat} (h0 : v < 0) (hlo : -((2 ^ 63 : Nat) : Int) ≤ v) (hj : 63 ≤ j) :
    ibit v j = true := by
  cases v with
  | ofNat n => exact absurd h0 (by simp)
  | negSucc n =>
    have hn : n < 2 ^ 63 := by rw [Int.negSucc_eq] at hlo; omega
    simp only [ibit]
    rw [Nat.testBit_lt_two_pow (Nat.lt_of_lt_of_le hn (Nat.pow_le_pow_right (by omega) hj))]
    rfl

/-- the bit `setInt` writes at index `i` is the two's complement bit of the
value, for every value of an `int8…uint64` kind (`s`: signed kind) -/
theorem setIntBit_eq (s : Bool) (v : Int) (hhi : v < (2 ^ 64 : Nat)) (hlo : -((2 ^ 63 : Nat) : Int) ≤ v)
    (hs : v < 0 → s = true) (i : Nat) :
    setIntBit (ival v) (s && decide (v < 0)) i = ibit v i := by
  unfold setIntBit
  by_cases h : i < 64
  · simp [h, ival, testBit_lowBits]
  · simp only [h, if_false]
    by_cases hneg : v < 0
    · simp [hneg, hs hneg, ibit_neg_ge hneg hlo (by omega : 63 ≤ i)]
    · simp [hneg, ibit_nonneg_lt (by omega : 0 ≤ v) hhi (by omega : 64 ≤ i)]

theorem wire_eq_iff (a b : Int) (n : Nat) :
    wire a n = wire b n ↔ ∀ j, j < n → ibit a j = ibit b j := by
  unfold wire
  constructor
  · intro h j hj
    have := congrArg (fun l => l[j]?) h
    simpa [hj] using this
  · intro h
    apply List.map_congr_left
    intro j hj
    exact h j (by simpa using hj)

theorem ibit_rsh (z : Int) (s b : Nat) : ibit (rsh z s) b = ibit z (s + b) := by
  cases z with
  | ofNat n => show (n >>> s).testBit b = n.testBit (s + b); exact Nat.testBit_shiftRight n
  | negSucc n => show (!(n >>> s).testBit b) = !n.testBit (s + b); rw [Nat.testBit_shiftRight]

/-- partial element loop of `Parse` (first `m` iterations, total `c`) -/
def packFold (val : Int) (c w m : Nat) : Nat :=
  (List.range m).foldl
    (fun r i => r ||| (lowBits (rsh val ((c - i - 1) * w)) w <<< (i * w))) 0

theorem packElems_eq (val : Int) (c w : Nat) : packElems val c w = packFold val c w c := rfl

theorem packFold_spec (val : Int) (c w m : Nat) :
    (∀ i b, i < m → b < w → (packFold val c w m).testBit (i * w + b) = ibit val ((c - i - 1) * w + b)) ∧
    (∀ j, m * w ≤ j → (packFold val c w m).testBit j = false) := by
  induction m with
  | zero => simp [packFold]
  | succ m ih =>
    obtain ⟨ih1, ih2⟩ := ih
    have hstep : packFold val c w (m + 1) =
        packFold val c w m ||| (lowBits (rsh val ((c - m - 1) * w)) w <<< (m * w)) := by
      simp [packFold, List.range_succ, List.foldl_append]
    constructor
    · intro i b hi hb
      rw [hstep, Nat.testBit_or, Nat.testBit_shiftLeft, testBit_lowBits, ibit_rsh]
      by_cases him : i < m
      · have h1 : (i + 1) * w ≤ m * w := Nat.mul_le_mul_right w (by omega)
        rw [Nat.add_mul, Nat.one_mul] at h1
        have : ¬ (i * w + b ≥ m * w) := by omega
        simp [ih1 i b him hb, this]
      · have him' : i = m := by omega
        subst him'
        have : i * w + b - i * w = b := by omega
        simp [ih2 (i * w + b) (by omega), this, hb]
    · intro j hj
      rw [Nat.add_mul, Nat.one_mul] at hj
      rw [hstep, Nat.testBit_or, Nat.testBit_shiftLeft, testBit_lowBits, ih2 j (by omega)]
      have : ¬ (j - m * w < w) := by omega
      simp [this]

theorem lt_two_pow_natBitLen (N : Nat) : N < 2 ^ natBitLen N := by
  unfold natBitLen
  by_cases h : N = 0
  · simp [h]
  · simp only [h, if_false]; exact Nat.lt_log2_self

theorem le_ceilDiv_mul (L w : Nat) (hw : 0 < w) : L ≤ ceilDiv L w * w := by
  unfold ceilDiv
  have h := Nat.div_add_mod L w
  have hm : L % w < w := Nat.mod_lt _ hw
  by_cases h0 : L % w = 0
  · simp only [h0, ne_eq, not_true_eq_false, if_false, Nat.add_zero]
    rw [Nat.mul_comm]; omega
  · simp only [h0, ne_eq, not_false_eq_true, if_true]
    rw [Nat.add_mul, Nat.one_mul, Nat.mul_comm]; omega

theorem lsh_ofNat (N s : Nat) : lsh (N : Int) s = ((N <<< s : Nat) : Int) := by
  simp [lsh, Nat.shiftLeft_eq]

theorem parse_array_elements
    (tag : Tag) (htag : tag = .array ∨ tag = .slice) (bits arraySize : Nat) (el : Info)
    (st : StrFacts) (N : Nat) (hnum : st.num = some (N : Int))
    (hw : 0 < el.bits)
    (hhex : st.hex0x = true → N < 2 ^ ((st.len - 2) * 4))
    (hk : ceilDiv (if st.hex0x then (st.len - 2) * 4 else natBitLen N) el.bits ≤
            (if tag = .slice then ceilDiv (if st.hex0x then (st.len - 2) * 4 else natBitLen N) el.bits else arraySize)) :
    ∃ z : Nat, parseLeaf (.elem tag bits arraySize el) st = .ok (z : Int) ∧
      (∀ i b, i < (if tag = .slice then ceilDiv (if st.hex0x then (st.len - 2) * 4 else natBitLen N) el.bits else arraySize) →
          b < el.bits →
          z.testBit (i * el.bits + b) =
            (decide (i < ceilDiv (if st.hex0x then (st.len - 2) * 4 else natBitLen N) el.bits) &&
              N.testBit ((ceilDiv (if st.hex0x then (st.len - 2) * 4 else natBitLen N) el.bits - i - 1) * el.bits + b))) ∧
      (∀ j, (if tag = .slice then ceilDiv (if st.hex0x then (st.len - 2) * 4 else natBitLen N) el.bits else arraySize) * el.bits ≤ j →
          z.testBit j = false) ∧
      N < 2 ^ (ceilDiv (if st.hex0x then (st.len - 2) * 4 else natBitLen N) el.bits * el.bits) := by
  generalize hL : (if st.hex0x then (st.len - 2) * 4 else natBitLen N) = L at *
  generalize hkk : ceilDiv L el.bits = k at *
  generalize hcc : (if tag = .slice then k else arraySize) = count at *
  have hNL : N < 2 ^ L := by
    by_cases hx : st.hex0x = true
    · simp only [hx, if_true] at hL; rw [← hL]; exact hhex hx
    · simp only [hx] at hL; rw [← hL]; exact lt_two_pow_natBitLen N
  have hN : N < 2 ^ (k * el.bits) :=
    Nat.lt_of_lt_of_le hNL (Nat.pow_le_pow_right (by omega) (hkk ▸ le_ceilDiv_mul L el.bits hw))
  by_cases hz : tag = .array ∧ arraySize = 0
  · -- empty array: Parse returns 0 without reading the string
    refine ⟨0, ?_, ?_, ?_, hN⟩
    · simp [parseLeaf, Info.tag, hz]
    · intro i b hi
      have : count = 0 := by rw [← hcc]; simp [hz]
      omega
    · intro j _; simp
  · generalize hwdef : el.bits = w at *
    have hbl : bitLength (N : Int) = natBitLen N := by simp [bitLength]
    refine ⟨packElems (lsh (N : Int) ((count - k) * w)) count w, ?_, ?_, ?_, hN⟩
    · have hw0 : w ≠ 0 := by omega
      have hkc : ¬ (k > count) := by omega
      rcases htag with ht | ht
      · subst ht
        simp only [parseLeaf, Info.tag]
        simp [hnum, hbl, hL, hw0, hwdef] at *
        simp [ceilDiv] at hkk
        subst hcc
        have hck : ¬ arraySize < k := by omega
        simp [hkk, hz, hck]
      · subst ht
        simp only [parseLeaf, Info.tag]
        simp [hnum, hbl, hL, hw0, hwdef] at *
        simp [ceilDiv] at hkk
        simp [hkk, hcc]
    · intro i b hi hb
      rw [packElems_eq, (packFold_spec _ count w count).1 i b hi hb, lsh_ofNat, ibit_ofNat,
        Nat.testBit_shiftLeft]
      by_cases hik : i < k
      · have e1 : count - i - 1 = (count - k) + (k - i - 1) := by omega
        have e2 : (count - i - 1) * w = (count - k) * w + (k - i - 1) * w := by rw [e1, Nat.add_mul]
        have : (count - i - 1) * w + b ≥ (count - k) * w := by omega
        have e3 : (count - i - 1) * w + b - (count - k) * w = (k - i - 1) * w + b := by omega
        simp [hik, this, e3]
      · have h1 : (count - i - 1 + 1) * w ≤ (count - k) * w := Nat.mul_le_mul_right w (by omega)
        rw [Nat.add_mul, Nat.one_mul] at h1
        have : ¬ ((count - i - 1) * w + b ≥ (count - k) * w) := by omega
        simp [hik, this]
    · intro j hj
      rw [packElems_eq, (packFold_spec _ count w count).2 j hj]

/-- no bit at or above `o` is set: `Set` starts from 0 and every member writes
only its own wires, so the wires of the members still to come are zero -/
def Clean (r o : Nat) : Prop := ∀ j, o ≤ j → r.testBit j = false

theorem clean_zero (o : Nat) : Clean 0 o := by intro j _; simp

theorem testBit_lt_256 {x c : Nat} (hx : x < 256) (hc : 8 ≤ c) : x.testBit c = false := by
  apply Nat.testBit_lt_two_pow
  exact Nat.lt_of_lt_of_le hx (Nat.pow_le_pow_right (by omega) hc : 2 ^ 8 ≤ 2 ^ c)

theorem setIntBit_byte (x c : Nat) (hx : x < 256) : setIntBit x false c = x.testBit c := by
  unfold setIntBit
  by_cases h : c < 64
  · simp [h]
  · simp [h, testBit_lt_256 hx (by omega : 8 ≤ c)]

theorem setBytes_cons (el : Info) (r : Nat) (b : Nat) (bs : List Nat) (ofs : Nat) :
    setBytes el r (b :: bs) ofs =
      setBytes el (writeBits r ofs el.bits (setIntBit (b % 256) false)) bs (ofs + el.bits) := by
  simp [setBytes]

theorem setBytes_spec (el : Info) (bs : List Nat) :
    ∀ (r ofs : Nat), Clean r ofs →
      (setBytes el r bs ofs).2 = ofs + bs.length * el.bits ∧
      (∀ j, j < ofs → (setBytes el r bs ofs).1.testBit j = r.testBit j) ∧
      (∀ e c, (h : e < bs.length) → c < el.bits →
        (setBytes el r bs ofs).1.testBit (ofs + e * el.bits + c) = (bs[e] % 256).testBit c) ∧
      (∀ j, ofs + bs.length * el.bits ≤ j → (setBytes el r bs ofs).1.testBit j = false) := by
  induction bs with
  | nil =>
    intro r ofs hc
    exact ⟨by simp [setBytes], fun _ _ => rfl, fun e c h => absurd h (by simp),
      fun j hj => by simpa [setBytes] using hc j (by simpa using hj)⟩
  | cons b bs ih =>
    intro r ofs hclean
    rw [setBytes_cons]
    generalize hw' : el.bits = w at *
    have hx : b % 256 < 256 := Nat.mod_lt _ (by omega)
    have hr1 : ∀ j, (writeBits r ofs w (setIntBit (b % 256) false)).testBit j =
        if ofs ≤ j ∧ j < ofs + w then (b % 256).testBit (j - ofs) else r.testBit j := by
      intro j; rw [testBit_writeBits]; simp only [setIntBit_byte _ _ hx]
    have hclean1 : Clean (writeBits r ofs w (setIntBit (b % 256) false)) (ofs + w) := by
      intro j hj
      rw [hr1]
      have : ¬ (ofs ≤ j ∧ j < ofs + w) := by omega
      simp only [this, if_false]
      exact hclean j (by omega)
    obtain ⟨i1, i2, i3, i4⟩ := ih _ (ofs + w) hclean1
    have hlen : (b :: bs).length * w = w + bs.length * w := by
      simp [Nat.add_mul]; omega
    refine ⟨?_, ?_, ?_, ?_⟩
    · rw [i1, hlen]; omega
    · intro j hj
      rw [i2 j (by omega), hr1]
      have : ¬ (ofs ≤ j ∧ j < ofs + w) := by omega
      simp [this]
    · intro e c he hc
      cases e with
      | zero =>
        simp only [Nat.zero_mul, Nat.add_zero, List.getElem_cons_zero]
        rw [i2 _ (by omega), hr1]
        have : ofs ≤ ofs + c ∧ ofs + c < ofs + w := by omega
        simp [this]
      | succ e =>
        have he' : e < bs.length := by simpa using he
        have := i3 e c he' hc
        simp only [List.getElem_cons_succ]
        rw [← this]
        congr 1
        rw [Nat.add_mul, Nat.one_mul]; omega
    · intro j hj
      rw [hlen] at hj
      exact i4 j (by omega)

@[simp] theorem Info.tag_base (t : Tag) (b n : Nat) : (Info.base t b n).tag = t := rfl
@[simp] theorem Info.tag_elem (t : Tag) (b n : Nat) (e : Info) : (Info.elem t b n e).tag = t := rfl
@[simp] theorem Info.bits_base (t : Tag) (b n : Nat) : (Info.base t b n).bits = b := rfl
@[simp] theorem Info.bits_elem (t : Tag) (b n : Nat) (e : Info) : (Info.elem t b n e).bits = b := rfl
@[simp] theorem Info.arraySize_base (t : Tag) (b n : Nat) : (Info.base t b n).arraySize = n := rfl
@[simp] theorem Info.arraySize_elem (t : Tag) (b n : Nat) (e : Info) : (Info.elem t b n e).arraySize = n := rfl

/-- Specification of the wires of one leaf argument for a Go-typed value:
little-endian two's complement per element, elements in order, short arrays
padded with zeros. -/
def encLeaf (t : Info) (v : GoVal) (i : Nat) : Bool :=
  match v with
  | .num _ _ z => ibit z i
  | .bool b => decide (i = 0) && b
  | .bytes bs =>
    match t with
    | .elem _ _ _ el => (bs.getD (i / el.bits) 0 % 256).testBit (i % el.bits)
    | _ => false
  | _ => false

/-- `(t, v)`: `v` is a value of type `t` in a form `Set` accepts: an
`int8…uint64` value (`s`: signed kind) for an integer type of ANY width, a
bool, a `[]byte` no longer than the array (element width ≥ 8) or `nil`. -/
inductive Fits : Info → GoVal → Prop
  | num (tag : Tag) (bits n : Nat) (s : Bool) (w : Nat) (z : Int) :
      (tag = .int ∨ tag = .uint) → z < (2 ^ 64 : Nat) → -((2 ^ 63 : Nat) : Int) ≤ z → (z < 0 → s = true) →
      Fits (.base tag bits n) (.num s w z)
  | bool (n : Nat) (b : Bool) : Fits (.base .bool 1 n) (.bool b)
  | arrayBytes (count : Nat) (el : Info) (bs : List Nat) :
      (el.tag = .int ∨ el.tag = .uint) → 8 ≤ el.bits → bs.length ≤ count →
      Fits (.elem .array (count * el.bits) count el) (.bytes bs)
  | arrayNil (count : Nat) (el : Info) : (el.tag = .int ∨ el.tag = .uint) →
      Fits (.elem .array (count * el.bits) count el) .nil
  | sliceBytes (el : Info) (bs : List Nat) :
      (el.tag = .int ∨ el.tag = .uint) → 8 ≤ el.bits →
      Fits (.elem .slice (bs.length * el.bits) bs.length el) (.bytes bs)
  | sliceNil (el : Info) : (el.tag = .int ∨ el.tag = .uint) → Fits (.elem .slice 0 0 el) .nil

theorem encLeaf_bytes_region (el : Info) (hw : 8 ≤ el.bits) (bs : List Nat) (count r o : Nat) (hc : Clean r o)
    (tag : Tag) (bits : Nat) :
    ∀ i, i < count * el.bits →
      (setBytes el r bs o).1.testBit (o + i) = encLeaf (.elem tag bits count el) (.bytes bs) i := by
  intro i hi
  obtain ⟨_, _, i3, i4⟩ := setBytes_spec el bs r o hc
  generalize hwd : el.bits = w at *
  have hw0 : 0 < w := by omega
  have hdm := Nat.div_add_mod i w
  have hml : i % w < w := Nat.mod_lt _ hw0
  simp only [encLeaf, hwd]
  have hpos : o + i = o + (i / w) * w + i % w := by rw [Nat.mul_comm]; omega
  by_cases he : i / w < bs.length
  · rw [hpos, i3 (i / w) (i % w) he hml]
    simp [List.getD, he]
  · have hge : bs.length * w ≤ (i / w) * w := Nat.mul_le_mul_right w (by omega)
    rw [i4 (o + i) (by rw [Nat.mul_comm] at hdm; omega)]
    have : bs[i / w]?.getD 0 = 0 := by rw [List.getElem?_eq_none (by omega)]; rfl
    simp [this]

theorem setLeaf_spec (t : Info) (v : GoVal) (hf : Fits t v) (r o : Nat) (hc : Clean r o) :
    ∃ r', setLeaf t r v o = .ok (r', o + t.bits) ∧
      (∀ j, j < o → r'.testBit j = r.testBit j) ∧
      Clean r' (o + t.bits) ∧
      (∀ i, i < t.bits → r'.testBit (o + i) = encLeaf t v i) := by
  cases hf with
  | num tag bits n s w z htag hz hlo hs =>
    refine ⟨writeBits r o bits (setIntBit (ival z) (s && decide (z < 0))), ?_, ?_, ?_, ?_⟩
    · rcases htag with h | h <;> subst h <;> simp [setLeaf, setInt]
    · intro j hj; rw [testBit_writeBits]
      have : ¬ (o ≤ j ∧ j < o + bits) := by omega
      simp [this]
    · intro j hj; rw [testBit_writeBits]
      simp only [Info.bits_base] at hj
      have : ¬ (o ≤ j ∧ j < o + bits) := by omega
      simp only [this, if_false]; exact hc j (by omega)
    · intro i hi
      simp only [Info.bits_base] at hi
      rw [testBit_writeBits]
      have : o ≤ o + i ∧ o + i < o + bits := by omega
      simp only [this, and_self, if_true, Nat.add_sub_cancel_left, encLeaf]
      exact setIntBit_eq s z hz hlo hs i
  | bool n b =>
    refine ⟨setBit r o b, ?_, ?_, ?_, ?_⟩
    · simp [setLeaf, setBool]
    · intro j hj; rw [testBit_setBit]; have : j ≠ o := by omega
      simp [this]
    · intro j hj; rw [testBit_setBit]
      simp only [Info.bits_base] at hj
      have : j ≠ o := by omega
      simp only [this, if_false]; exact hc j (by omega)
    · intro i hi
      simp only [Info.bits_base] at hi
      have : i = 0 := by omega
      subst this
      simp [testBit_setBit, encLeaf]
  | arrayBytes count el bs htag hw hk =>
    by_cases h0 : count = 0
    · subst h0
      refine ⟨r, ?_, fun _ _ => rfl, ?_, ?_⟩
      · simp [setLeaf]
      · simpa using hc
      · intro i hi; simp at hi
    · obtain ⟨i1, i2, i3, i4⟩ := setBytes_spec el bs r o hc
      refine ⟨(setBytes el r bs o).1, ?_, i2, ?_, ?_⟩
      · have h8 : ¬ el.bits < 8 := by omega
        have hk' : ¬ bs.length > count := by omega
        rcases htag with h | h <;>
          simp [setLeaf, h0, setArray, h, h8, hk']
      · intro j hj
        simp only [Info.bits_elem] at hj
        have : bs.length * el.bits ≤ count * el.bits := Nat.mul_le_mul_right _ hk
        exact i4 j (by omega)
      · intro i hi
        simp only [Info.bits_elem] at hi
        exact encLeaf_bytes_region el hw bs count r o hc _ _ i hi
  | arrayNil count el htag =>
    refine ⟨r, ?_, fun _ _ => rfl, ?_, ?_⟩
    · by_cases h0 : count = 0
      · subst h0; simp [setLeaf]
      · rcases htag with h | h <;> simp [setLeaf, h0, setArray, h]
    · intro j hj; exact hc j (by simp only [Info.bits_elem] at hj; omega)
    · intro i hi
      simp only [Info.bits_elem] at hi
      simp only [encLeaf]
      exact hc (o + i) (by omega)
  | sliceBytes el bs htag hw =>
    obtain ⟨i1, i2, i3, i4⟩ := setBytes_spec el bs r o hc
    refine ⟨(setBytes el r bs o).1, ?_, i2, ?_, ?_⟩
    · have h8 : ¬ el.bits < 8 := by omega
      rcases htag with h | h <;>
        simp [setLeaf, setArray, h, h8, i1]
    · intro j hj
      simp only [Info.bits_elem] at hj
      exact i4 j (by omega)
    · intro i hi
      simp only [Info.bits_elem] at hi
      exact encLeaf_bytes_region el hw bs bs.length r o hc _ _ i hi
  | sliceNil el htag =>
    refine ⟨r, ?_, fun _ _ => rfl, ?_, ?_⟩
    · rcases htag with h | h <;> simp [setLeaf, setArray, h]
    · simpa using hc
    · intro i hi; simp at hi

/-- a non-compound argument -/
def leaf (t : Info) : Arg := .mk t []

/-- wires of consecutive members: member `k` occupies the `t_k.bits` wires
after those of the members before it -/
def encMembers : List (Info × GoVal) → Nat → Bool
  | [], _ => false
  | (t, v) :: rest, j => if j < t.bits then encLeaf t v j else encMembers rest (j - t.bits)

def totalBits : List (Info × GoVal) → Nat
  | [] => 0
  | (t, _) :: rest => t.bits + totalBits rest

theorem setMembers_spec (ms : List (Info × GoVal)) (hf : ∀ m, m ∈ ms → Fits m.1 m.2) :
    ∀ r o, Clean r o →
      ∃ r', setMembers (ms.map fun m => leaf m.1) r (ms.map (·.2)) o = .ok (r', o + totalBits ms) ∧
        (∀ j, j < o → r'.testBit j = r.testBit j) ∧
        (∀ j, j < totalBits ms → r'.testBit (o + j) = encMembers ms j) := by
  induction ms with
  | nil => intro r o _; exact ⟨r, by simp [setMembers, totalBits], fun _ _ => rfl, by simp [totalBits]⟩
  | cons m ms ih =>
    intro r o hc
    obtain ⟨t, v⟩ := m
    obtain ⟨r1, h1, hl1, hc1, he1⟩ := setLeaf_spec t v (hf (t, v) (by simp)) r o hc
    obtain ⟨r2, h2, hl2, he2⟩ := ih (fun m hm => hf m (by simp [hm])) r1 (o + t.bits) hc1
    refine ⟨r2, ?_, ?_, ?_⟩
    · simp only [List.map_cons, setMembers, leaf, List.take, Arg.setAt, h1]
      simp only [leaf] at h2
      simp [h2, totalBits, Nat.add_assoc]
    · intro j hj; rw [hl2 j (by omega), hl1 j hj]
    · intro j hj
      simp only [totalBits] at hj
      simp only [encMembers]
      by_cases hjt : j < t.bits
      · simp only [hjt, if_true]
        rw [hl2 (o + j) (by omega), he1 j hjt]
      · simp only [hjt, if_false]
        have : o + j = o + t.bits + (j - t.bits) := by omega
        rw [this, he2 (j - t.bits) (by omega)]

/-- wires of consecutive members of widths `w_k` holding the values `x_k` -/
def concatWires : List (Nat × Int) → Nat → Bool
  | [], _ => false
  | (w, x) :: rest, j => if j < w then ibit x j else concatWires rest (j - w)

theorem parseMembers_spec (ms : List (Info × StrFacts × Int))
    (h : ∀ m, m ∈ ms → parseLeaf m.1 m.2.1 = .ok m.2.2) :
    ∀ r o, (∀ j, o ≤ j → r.testBit j = false) →
      ∃ r', parseMembers (ms.map fun m => leaf m.1) (ms.map fun m => m.2.1) o r = .ok r' ∧
        (∀ j, j < o → r'.testBit j = r.testBit j) ∧
        (∀ j, r'.testBit (o + j) = concatWires (ms.map fun m => (m.1.bits, m.2.2)) j) := by
  induction ms with
  | nil =>
    intro r o hz
    exact ⟨r, by simp [parseMembers], fun _ _ => rfl, fun j => by simp [concatWires, hz (o + j) (by omega)]⟩
  | cons m ms ih =>
    intro r o hz
    obtain ⟨t, st, x⟩ := m
    have hp : parseLeaf t st = .ok x := h (t, st, x) (by simp)
    have hr1 : ∀ j, (copyBits r x o t.bits).testBit j =
        if o ≤ j ∧ j < o + t.bits then ibit x (j - o) else r.testBit j :=
      fun j => testBit_writeBits _ _ _ _ _
    obtain ⟨r2, h2, hl2, he2⟩ := ih (fun m hm => h m (by simp [hm])) (copyBits r x o t.bits) (o + t.bits)
      (by intro j hj; rw [hr1]; have : ¬ (o ≤ j ∧ j < o + t.bits) := by omega
          simp only [this, if_false]; exact hz j (by omega))
    refine ⟨r2, ?_, ?_, ?_⟩
    · simp only [List.map_cons, parseMembers, leaf, List.take, Arg.parse, hp, List.drop, Arg.ty]
      simpa [leaf] using h2
    · intro j hj
      rw [hl2 j (by omega), hr1]
      have : ¬ (o ≤ j ∧ j < o + t.bits) := by omega
      simp [this]
    · intro j
      simp only [List.map_cons, concatWires]
      by_cases hjt : j < t.bits
      · simp only [hjt, if_true]
        rw [hl2 (o + j) (by omega), hr1]
        have : o ≤ o + j ∧ o + j < o + t.bits := by omega
        simp [this]
      · simp only [hjt, if_false]
        have : o + j = o + t.bits + (j - t.bits) := by omega
        rw [this, he2]

theorem bitLenFrom_spec (v : Nat) (h1 : 1 ≤ v) :
    ∀ i, (∀ j, i < j → v.testBit j = false) → bitLenFrom v i = v.log2 + 1 := by
  have hv0 : v ≠ 0 := by omega
  intro i
  induction i with
  | zero =>
    intro h
    have : v < 2 ^ 1 := Nat.lt_pow_two_of_testBit v (fun j hj => h j (by omega))
    have hv1 : v = 1 := by omega
    subst hv1
    rfl
  | succ m ih =>
    intro h
    simp only [bitLenFrom]
    by_cases hb : v.testBit (m + 1) = true
    · simp only [hb, if_true]
      have h1 : 2 ^ (m + 1) ≤ v := Nat.ge_two_pow_of_testBit hb
      have h2 : v < 2 ^ (m + 2) := Nat.lt_pow_two_of_testBit v (fun j hj => h j (by omega))
      have h3 : m + 1 ≤ v.log2 := (Nat.le_log2 hv0).2 h1
      have h4 : v.log2 < m + 2 := (Nat.log2_lt hv0).2 h2
      omega
    · simp only [hb]
      apply ih
      intro j hj
      by_cases hj2 : j = m + 1
      · subst hj2; simpa using hb
      · exact h j (by omega)

theorem bitLen_spec (v : Nat) (hv : v < 2 ^ 64) (h1 : 1 ≤ v) : bitLen v = natBitLen v := by
  have hv0 : v ≠ 0 := by omega
  simp only [bitLen, natBitLen, hv0, if_false]
  apply bitLenFrom_spec v h1
  intro j hj
  exact Nat.testBit_lt_two_pow (Nat.lt_of_lt_of_le hv (Nat.pow_le_pow_right (by omega) (by omega)))

theorem bitLen_zero : bitLen 0 = 1 := by decide

/-! ### Definitions of the code BEFORE the fix commits (kept only to state
what was wrong; nothing in the model uses them) -/

/-- `bitLen` before commit 485d3fb: `for i := 63; i > 1; i--` -/
def bitLenFromOld (v : Nat) : Nat → Nat
  | 0 => 1
  | 1 => 1
  | i + 2 => if v.testBit (i + 2) then i + 3 else bitLenFromOld v (i + 1)

def bitLenOld (v : Nat) : Nat := bitLenFromOld v 63

/-- `setInt` before commit 95af76e: a fixed 64-bit window at `ofs`, whatever
the width of the type -/
def setIntOld (r : Nat) (v : Int) (ofs : Nat) : Nat := writeBits r ofs 64 ((ival v).testBit)

/-- the `TInt` branch of `mpc.Result` before commit 66e4e03
(`result.Sub(tmp, result); result.Neg(result)` in place): returned value and
content of the caller's `*big.Int` afterwards -/
def resultIntOld (bits : Nat) (z : Int) : RVal × Int :=
  let z' := if ibit z (bits - 1) then -((2 ^ bits : Nat) - z) else z
  if widthClass bits = 0 then (.big z', z') else (.i (widthClass bits) (toIntW (widthClass bits) z'), z')

theorem ival_ofNat (n : Nat) (hn : n < 2 ^ 64) : ival (n : Int) = n := by
  show n % 2 ^ 64 = n
  exact Nat.mod_eq_of_lt hn

theorem widthClass_le {n : Nat} (h : n ≤ 64) : n ≤ widthClass n ∧ widthClass n ≤ 64 ∧ 8 ≤ widthClass n := by
  unfold widthClass; split <;> (try split) <;> (try split) <;> (try split) <;> omega

theorem widthClass_gt {n : Nat} (h : 64 < n) : widthClass n = 0 := by
  unfold widthClass
  have h1 : ¬ n ≤ 8 := by omega
  have h2 : ¬ n ≤ 16 := by omega
  have h3 : ¬ n ≤ 32 := by omega
  have h4 : ¬ n ≤ 64 := by omega
  simp [h1, h2, h3, h4]

theorem result_uint (n a : Nat) (v : Nat) (hv : v < 2 ^ n) :
    result (.base .uint n a) (v : Int) =
      .ok (if n ≤ 64 then .u (widthClass n) v else .big v, (v : Int)) := by
  by_cases h : n ≤ 64
  · obtain ⟨h1, h2, h3⟩ := widthClass_le h
    have hc0 : widthClass n ≠ 0 := by omega
    have hvc : v < 2 ^ widthClass n := Nat.lt_of_lt_of_le hv (Nat.pow_le_pow_right (by omega) h1)
    have hv64 : v < 2 ^ 64 := Nat.lt_of_lt_of_le hvc (Nat.pow_le_pow_right (by omega) h2)
    simp [result, hc0, h, toUint64, Nat.mod_eq_of_lt hv64, Nat.mod_eq_of_lt hvc]
  · have hc0 : widthClass n = 0 := widthClass_gt (by omega)
    simp [result, hc0, h]

theorem two_pow_pred {n : Nat} (hn : 1 ≤ n) : 2 ^ n = 2 * 2 ^ (n - 1) := by
  have : n = (n - 1) + 1 := by omega
  rw [this, Nat.pow_succ]; simp; omega

/-- `intW(x.Int64())` returns a value that already fits `c` bits unchanged -/
theorem toIntW_fits (c : Nat) (hc : 1 ≤ c) (v : Int) (hlo : -((2 ^ (c - 1) : Nat) : Int) ≤ v)
    (hhi : v < ((2 ^ (c - 1) : Nat) : Int)) : toIntW c v = v := by
  have h2 := two_pow_pred hc
  unfold toIntW toSigned
  cases v with
  | ofNat m =>
    have hm : m < 2 ^ (c - 1) := Int.ofNat_lt.mp hhi
    have : m % 2 ^ c = m := Nat.mod_eq_of_lt (by omega)
    simp only [lowBits, this, hm, if_true]; rfl
  | negSucc m =>
    have hm : m < 2 ^ (c - 1) := by
      have := hlo; rw [Int.negSucc_eq] at this; omega
    have hmod : m % 2 ^ c = m := Nat.mod_eq_of_lt (by omega)
    simp only [lowBits, hmod]
    have hnot : ¬ (2 ^ c - 1 - m < 2 ^ (c - 1)) := by omega
    simp only [hnot, if_false]
    rw [Int.negSucc_eq]
    generalize 2 ^ c = P at *
    generalize 2 ^ (c - 1) = Q at *
    omega

theorem result_int_aux (t : Info) (ht : t.tag = .int) (hn : 1 ≤ t.bits) (v : Int)
    (hlo : -((2 ^ (t.bits - 1) : Nat) : Int) ≤ v) (hhi : v < ((2 ^ (t.bits - 1) : Nat) : Int)) :
    result t ((lowBits v t.bits : Nat) : Int) =
      .ok (if t.bits ≤ 64 then .i (widthClass t.bits) v else .big v, ((lowBits v t.bits : Nat) : Int)) := by
  generalize hnn : t.bits = n at *
  have h2 := two_pow_pred hn
  have hn0 : n ≠ 0 := by omega
  have hcell : (if ibit ((lowBits v n : Nat) : Int) (n - 1) = true
      then -(((2 ^ n : Nat) : Int) - ((lowBits v n : Nat) : Int)) else ((lowBits v n : Nat) : Int)) = v := by
    rw [ibit_ofNat, testBit_lowBits]
    have hlt : n - 1 < n := by omega
    simp only [hlt, decide_true, Bool.true_and]
    cases v with
    | ofNat m =>
      have hm : m < 2 ^ (n - 1) := Int.ofNat_lt.mp hhi
      have : m % 2 ^ n = m := Nat.mod_eq_of_lt (by omega)
      have hb : ibit (Int.ofNat m) (n - 1) = false := Nat.testBit_lt_two_pow hm
      simp only [hb, lowBits, this]; rfl
    | negSucc m =>
      have hm : m < 2 ^ (n - 1) := by
        have := hlo; rw [Int.negSucc_eq] at this; omega
      have hmod : m % 2 ^ n = m := Nat.mod_eq_of_lt (by omega)
      have hb : ibit (Int.negSucc m) (n - 1) = true := by
        simp only [ibit, Nat.testBit_lt_two_pow hm]; rfl
      simp only [hb, if_true, lowBits, hmod]
      rw [Int.negSucc_eq]
      generalize 2 ^ n = P at *
      generalize 2 ^ (n - 1) = Q at *
      omega
  rw [result.eq_def]; simp only [ht]
  simp only [hnn, hn0, if_false]
  by_cases h : n ≤ 64
  · obtain ⟨h1, h2', h3⟩ := widthClass_le h
    have hc0 : widthClass n ≠ 0 := by omega
    have hpow : 2 ^ (n - 1) ≤ 2 ^ (widthClass n - 1) := Nat.pow_le_pow_right (by omega) (by omega)
    have hpow' : ((2 ^ (n - 1) : Nat) : Int) ≤ ((2 ^ (widthClass n - 1) : Nat) : Int) := Int.ofNat_le.mpr hpow
    have hfit : toIntW (widthClass n) v = v := toIntW_fits _ (by omega) v (by omega) (by omega)
    simp only [hc0, h, if_true, if_false, hcell, hfit]
  · have hc0 : widthClass n = 0 := widthClass_gt (by omega)
    simp only [hc0, h, if_true, if_false, hcell]

theorem result_int (n a : Nat) (hn : 1 ≤ n) (v : Int) (hlo : -((2 ^ (n - 1) : Nat) : Int) ≤ v)
    (hhi : v < ((2 ^ (n - 1) : Nat) : Int)) :
    result (.base .int n a) ((lowBits v n : Nat) : Int) =
      .ok (if n ≤ 64 then .i (widthClass n) v else .big v, ((lowBits v n : Nat) : Int)) :=
  result_int_aux (.base .int n a) rfl hn v hlo hhi

theorem mapM_ok {α β : Type} (l : List α) (f : α → Except Err β) (g : α → β)
    (h : ∀ a, a ∈ l → f a = .ok (g a)) : l.mapM f = .ok (l.map g) := by
  induction l with
  | nil => rfl
  | cons a l ih =>
    rw [List.mapM_cons, h a (by simp), ih (fun b hb => h b (by simp [hb]))]
    rfl

/-- bits of the `i`-th `w`-bit group that `Result` hands to the element decoder -/
theorem testBit_group (z : Int) (i w b : Nat) :
    (lowBits (rsh z (i * w)) w).testBit b = (decide (b < w) && ibit z (i * w + b)) := by
  rw [testBit_lowBits, ibit_rsh]

/-- Array decoding: every element is decoded from its own `w`-bit group by the
element decoder; the cell is not modified. -/
theorem result_array (tag : Tag) (htag : tag = .array ∨ tag = .slice) (bits count : Nat) (el : Info)
    (name : String) (hname : elemName el (result el 0) = .ok name) (z : Int) (vs : Nat → RVal)
    (h : ∀ i, i < count → ∃ c, result el ((lowBits (rsh z (i * el.bits)) el.bits : Nat) : Int) = .ok (vs i, c)) :
    result (.elem tag bits count el) z = .ok (.slice name ((List.range count).map vs), z) := by
  have hm : (List.range count).mapM (fun i =>
      dropCell (result el ((lowBits (rsh z (i * el.bits)) el.bits : Nat) : Int))) =
        .ok ((List.range count).map vs) := by
    apply mapM_ok
    intro i hi
    obtain ⟨c, hc⟩ := h i (by simpa using hi)
    simp [hc, dropCell]
  rcases htag with ht | ht <;> subst ht <;>
    (rw [result.eq_def]; simp only [Info.tag_elem, hname, hm])

theorem result_bool (a : Nat) (b : Bool) :
    result (.base .bool 1 a) (if b then 1 else 0) = .ok (.bool b, if b then 1 else 0) := by
  cases b <;> rfl

/-- Whenever `Result` returns, the cell is unchanged (every type, every content). -/
theorem result_cell (t : Info) (z : Int) (rv : RVal) (c : Int) (h : result t z = .ok (rv, c)) : c = z := by
  rw [result.eq_def] at h
  cases htag : t.tag <;> simp only [htag] at h
  all_goals try (simp at h; exact h.2.symm)
  all_goals try (split at h <;> (simp at h; exact h.2.symm))
  · -- int
    split at h
    · simp at h
    · split at h <;> (simp at h; exact h.2.symm)
  all_goals
    split at h
    · simp at h
    · split at h
      · simp at h
      · split at h
        · simp at h; exact h.2.symm
        · simp at h

theorem elemName_explicit (el : Info) (n : String) (x : Except Err (RVal × Int))
    (h : elemTypeName el = some n) : elemName el x = .ok n := by
  simp [elemName, h]

theorem elemName_default (el : Info) (v : RVal) (c : Int)
    (h : elemTypeName el = none) (hz : result el 0 = .ok (v, c)) :
    elemName el (result el 0) = .ok (rvalTypeName v) := by
  simp [elemName, h, hz]

theorem split_spec (ns : List Nat) : ∀ (z : Int) (bit k : Nat) (hk : k < ns.length) (i : Nat),
    ((split ns z bit).getD k 0).testBit i =
      (decide (i < ns[k]) && ibit z (bit + (ns.take k).sum + i)) := by
  induction ns with
  | nil => intro z bit k hk; simp at hk
  | cons n ns ih =>
    intro z bit k hk i
    cases k with
    | zero =>
      simp only [split, List.getD_cons_zero, List.getElem_cons_zero, List.take_zero, List.sum_nil, Nat.add_zero]
      rw [testBit_writeBits]
      by_cases hi : i < n
      · simp [hi]
      · simp [hi]
    | succ k =>
      have hk' : k < ns.length := by simpa using hk
      simp only [split, List.getD_cons_succ, List.getElem_cons_succ, List.take_succ_cons, List.sum_cons]
      rw [ih z (bit + n) k hk' i, Nat.add_assoc bit n]

/-- number of bits `Parse` takes as written: 4 per hex digit after `0x`,
else the bit length of the number -/
def writtenBits (st : StrFacts) (N : Nat) : Nat :=
  if st.hex0x then (st.len - 2) * 4 else natBitLen N

def widthSum : List (Nat × Int) → Nat
  | [] => 0
  | (w, _) :: rest => w + widthSum rest

theorem concatWires_append (A B : List (Nat × Int)) (j : Nat) :
    concatWires (A ++ B) j =
      if j < widthSum A then concatWires A j else concatWires B (j - widthSum A) := by
  induction A generalizing j with
  | nil => simp [widthSum]
  | cons a A ih =>
    obtain ⟨w, x⟩ := a
    simp only [List.cons_append, concatWires, widthSum]
    by_cases h : j < w
    · have : j < w + widthSum A := by omega
      simp [h, this]
    · simp only [h, if_false, ih]
      by_cases h2 : j - w < widthSum A
      · have : j < w + widthSum A := by omega
        simp [h2, this]
      · have : ¬ j < w + widthSum A := by omega
        have e : j - w - widthSum A = j - (w + widthSum A) := by omega
        simp [h2, this, e]

theorem lowBits_lt (z : Int) (w : Nat) : lowBits z w < 2 ^ w := by
  apply Nat.lt_pow_two_of_testBit
  intro i hi
  rw [testBit_lowBits]
  have : ¬ i < w := by omega
  simp [this]

theorem arg_parse_compound (t : Info) (ms : List (Info × StrFacts × Int)) (hne : ms ≠ [])
    (h : ∀ m, m ∈ ms → parseLeaf m.1 m.2.1 = .ok m.2.2) :
    ∃ z : Nat, (Arg.mk t (ms.map fun m => leaf m.1)).parse (ms.map fun m => m.2.1) = .ok (z : Int) ∧
      ∀ j, z.testBit j = concatWires (ms.map fun m => (m.1.bits, m.2.2)) j := by
  obtain ⟨r, h1, _, h3⟩ := parseMembers_spec ms h 0 0 (by intro j _; simp)
  refine ⟨r, ?_, fun j => by simpa using h3 j⟩
  cases ms with
  | nil => exact absurd rfl hne
  | cons m ms =>
    simp only [List.map_cons, Arg.parse, List.length_cons, List.length_map, ne_eq, not_true_eq_false, if_false]
    simp only [List.map_cons] at h1
    rw [h1]

theorem arg_set_compound (t : Info) (ms : List (Info × GoVal)) (hne : ms ≠ [])
    (hf : ∀ m, m ∈ ms → Fits m.1 m.2) :
    ∃ r : Nat, (Arg.mk t (ms.map fun m => leaf m.1)).set (ms.map (·.2)) = .ok r ∧
      ∀ j, j < totalBits ms → r.testBit j = encMembers ms j := by
  obtain ⟨r, h1, _, h3⟩ := setMembers_spec ms hf 0 0 (clean_zero 0)
  refine ⟨r, ?_, fun j hj => by simpa using h3 j hj⟩
  cases ms with
  | nil => exact absurd rfl hne
  | cons m ms =>
    simp only [Arg.set, List.map_cons, Arg.setAt, List.length_cons, List.length_map, ne_eq, not_true_eq_false, if_false]
    simp only [List.map_cons] at h1
    rw [h1]

theorem totalBits_append (A B : List (Info × GoVal)) : totalBits (A ++ B) = totalBits A + totalBits B := by
  induction A with
  | nil => simp [totalBits]
  | cons a A ih => obtain ⟨t, v⟩ := a; simp [totalBits, ih, Nat.add_assoc]

theorem encMembers_append (A B : List (Info × GoVal)) (j : Nat) :
    encMembers (A ++ B) j = if j < totalBits A then encMembers A j else encMembers B (j - totalBits A) := by
  induction A generalizing j with
  | nil => simp [totalBits]
  | cons a A ih =>
    obtain ⟨t, v⟩ := a
    simp only [List.cons_append, encMembers, totalBits]
    by_cases h : j < t.bits
    · have : j < t.bits + totalBits A := by omega
      simp [h, this]
    · simp only [h, if_false, ih]
      by_cases h2 : j - t.bits < totalBits A
      · have : j < t.bits + totalBits A := by omega
        simp [h2, this]
      · have : ¬ j < t.bits + totalBits A := by omega
        have e : j - t.bits - totalBits A = j - (t.bits + totalBits A) := by omega
        simp [h2, this, e]

/-- value of a `w`-bit pattern read as two's complement lies in the signed range and has the
pattern as its low bits -/
theorem toSigned_range (w g : Nat) (hw : 1 ≤ w) (hg : g < 2 ^ w) :
    -((2 ^ (w - 1) : Nat) : Int) ≤ toSigned w g ∧ toSigned w g < ((2 ^ (w - 1) : Nat) : Int) ∧
      lowBits (toSigned w g) w = g := by
  have h2 := two_pow_pred hw
  unfold toSigned
  by_cases h : g < 2 ^ (w - 1)
  · simp only [h, if_true]
    refine ⟨by omega, by omega, ?_⟩
    show g % 2 ^ w = g
    exact Nat.mod_eq_of_lt hg
  · simp only [h, if_false]
    have hneg : ((g : Int) - ((2 ^ w : Nat) : Int)) = Int.negSucc (2 ^ w - g - 1) := by
      rw [Int.negSucc_eq]; omega
    refine ⟨by omega, by omega, ?_⟩
    rw [hneg]
    show 2 ^ w - 1 - (2 ^ w - g - 1) % 2 ^ w = g
    have : (2 ^ w - g - 1) % 2 ^ w = 2 ^ w - g - 1 := Nat.mod_eq_of_lt (by omega)
    rw [this]; omega

theorem concat_eq_enc (ms : List (Info × StrFacts × Int × GoVal))
    (hag : ∀ m, m ∈ ms → ∀ i, i < m.1.bits → ibit m.2.2.1 i = encLeaf m.1 m.2.2.2 i) :
    ∀ j, j < totalBits (ms.map fun m => (m.1, m.2.2.2)) →
      concatWires (ms.map fun m => (m.1.bits, m.2.2.1)) j = encMembers (ms.map fun m => (m.1, m.2.2.2)) j := by
  induction ms with
  | nil => intro j hj; simp [totalBits] at hj
  | cons m ms ih =>
    intro j hj
    simp only [List.map_cons, concatWires, encMembers, totalBits] at *
    by_cases h : j < m.1.bits
    · simp only [h, if_true]
      exact hag m (by simp) j h
    · simp only [h, if_false]
      exact ih (fun m' hm' => hag m' (by simp [hm'])) (j - m.1.bits) (by omega)

end Mpc.IoArg

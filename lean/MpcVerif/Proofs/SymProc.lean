/-
Symbolic values of a garbler PROCESS (C04): several sessions, each with its own
random tape (offset, input zero-labels) and its own hash key.  A value is a
formal GF(2)-combination of atoms TAGGED with the session whose tape / key made
them: the atoms of different sessions are different atoms (independent tapes;
`Circuit.Garble` keys the hash with the session's own 32-byte key, and the
arguments of the queries of different sessions are labels of different
sessions).  A session's labels (`SymL`, `Proofs/Sym.lean`) are embedded by
`lift s`.  Linear functionals of the process are a session's functional applied
to that session's component.  Proof-only, core Lean.
-/
import MpcVerif.Proofs.Sym

namespace Mpc.Sym
open Mpc LabelAlg
variable {Code : Type}

/-- A value of the process: indicator of its (session, atom) pairs. -/
structure PSym (Code : Type) where
  f : Nat → Atom Code → Bool

@[ext] theorem PSym.ext' {x y : PSym Code} (h : ∀ s a, x.f s a = y.f s a) : x = y := by
  cases x; cases y
  simp only [PSym.mk.injEq]
  funext s a; exact h s a

def PSym.xor (x y : PSym Code) : PSym Code := ⟨fun s a => x.f s a != y.f s a⟩
def PSym.zero : PSym Code := ⟨fun _ _ => false⟩

/-- A label of session `s` as a value of the process. -/
def lift (s : Nat) (x : SymL Code) : PSym Code := ⟨fun t a => decide (t = s) && x.f a⟩

theorem lift_xor (s : Nat) (x y : SymL Code) : lift s (x ^^^ y) = (lift s x).xor (lift s y) := by
  apply PSym.ext'
  intro t a
  simp only [lift, PSym.xor, xor_f]
  cases decide (t = s) <;> simp

theorem lift_injective (s : Nat) (x y : SymL Code) (h : lift s x = lift s y) : ∀ a, x.f a = y.f a := by
  intro a
  have := congrArg (fun v => v.f s a) h
  simpa [lift] using this

/-- `phi` looks at the atoms only. -/
theorem phi_congr (S : List (Atom Code)) (x y : SymL Code) (h : ∀ a, x.f a = y.f a) :
    phi S x = phi S y := by
  induction S with
  | nil => rfl
  | cons a S ih => simp only [phi_cons, ih, h a]

/-- Session `k`'s functional `S`, applied to the session-`k` component. -/
def pphi (k : Nat) (S : List (Atom Code)) (x : PSym Code) : Bool := phi S ⟨x.f k, false⟩

theorem pphi_xor (k : Nat) (S : List (Atom Code)) (x y : PSym Code) :
    pphi k S (x.xor y) = (pphi k S x != pphi k S y) := by
  simp only [pphi]
  rw [← phi_xor]
  apply phi_congr
  intro a; rfl

@[simp] theorem pphi_zero (k : Nat) (S : List (Atom Code)) : pphi k S (PSym.zero : PSym Code) = false := by
  simp only [pphi]
  exact (phi_congr S _ (LabelAlg.zero : SymL Code) (fun a => rfl)).trans (phi_zero S)

theorem pphi_lift_same (k : Nat) (S : List (Atom Code)) (t : SymL Code) :
    pphi k S (lift k t) = phi S t := by
  simp only [pphi]
  apply phi_congr
  intro a; simp [lift]

theorem pphi_lift_ne (k s : Nat) (S : List (Atom Code)) (t : SymL Code) (h : s ≠ k) :
    pphi k S (lift s t) = false := by
  simp only [pphi]
  exact (phi_congr S _ (LabelAlg.zero : SymL Code) (fun a => by
    have : ¬ k = s := fun e => h e.symm
    simp [lift, this, zero_f])).trans (phi_zero S)

/-- GF(2)-span of a set of process values. -/
inductive PSpan (T : PSym Code → Prop) : PSym Code → Prop where
  | zero : PSpan T PSym.zero
  | mem {x} : T x → PSpan T x
  | xor {x y} : PSpan T x → PSpan T y → PSpan T (x.xor y)

theorem pphi_span (k : Nat) (S : List (Atom Code)) (T : PSym Code → Prop)
    (hT : ∀ x, T x → pphi k S x = false) (x : PSym Code) (hx : PSpan T x) : pphi k S x = false := by
  induction hx with
  | zero => simp
  | mem h => exact hT _ h
  | xor _ _ ih1 ih2 => rw [pphi_xor, ih1, ih2]; rfl

end Mpc.Sym

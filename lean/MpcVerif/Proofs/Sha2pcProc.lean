/-
Lemmas for the process model (Model/Sha2pcProc.lean): frame, projection of a
history on one session, the result of a complete session inside any history.
-/
import MpcVerif.Model.Sha2pcProc
import MpcVerif.Proofs.Sha2pcCorrect

namespace Mpc.Sha2pc

variable {T : Ty}

/-! ## frame and projection (any round functions) -/

theorem Proc.step_other (cfg : Cfg T) (st : Proc T) (e : Nat × Act) (j : Nat) (h : j ≠ e.1) :
    Proc.step cfg st e j = st j := by
  simp [Proc.step, h]

theorem Proc.step_self (cfg : Cfg T) (st : Proc T) (e : Nat × Act) :
    Proc.step cfg st e e.1 = (st e.1).step (cfg e.1) e.2 := by
  simp [Proc.step]

theorem proj_cons_self (j : Nat) (a : Act) (es : List (Nat × Act)) : proj j ((j, a) :: es) = a :: proj j es := by
  simp [proj]

theorem proj_cons_other (j : Nat) (e : Nat × Act) (es : List (Nat × Act)) (h : j ≠ e.1) :
    proj j (e :: es) = proj j es := by
  have : (e.1 == j) = false := by simp; exact fun h' => h h'.symm
  simp [proj, this]

/-- The state of session `j` after a history is the state session `j` reaches
by its OWN steps, from its own initial state: no step of another session
contributes. -/
theorem Proc.run_proj (cfg : Cfg T) (sched : List (Nat × Act)) :
    ∀ (st : Proc T) (j : Nat), Proc.run cfg st sched j = (st j).run (cfg j) (proj j sched) := by
  induction sched with
  | nil => intro st j; rfl
  | cons e es ih =>
    intro st j
    have hrun : Proc.run cfg st (e :: es) = Proc.run cfg (Proc.step cfg st e) es := rfl
    rw [hrun, ih]
    by_cases h : j = e.1
    · obtain ⟨i, a⟩ := e
      simp only at h
      subst h
      rw [proj_cons_self]
      have := Proc.step_self cfg st (j, a)
      simp only at this
      rw [this]
      rfl
    · rw [proj_cons_other j e es h, Proc.step_other cfg st e j h]

theorem proj_nil_of_absent (j : Nat) (sched : List (Nat × Act)) (h : ∀ e ∈ sched, e.1 ≠ j) : proj j sched = [] := by
  induction sched with
  | nil => rfl
  | cons e es ih =>
    rw [proj_cons_other j e es (fun h' => h e (by simp) h'.symm)]
    exact ih (fun e' he' => h e' (by simp [he']))

/-! ## a complete session -/

/-- The values of the session when it runs alone, and the facts that make
every way of consuming them equivalent: each round succeeds on the values of
the rounds before, each trip through bytes returns the value. -/
structure Rounds.Sound (R : Rounds T) (m2 : T.M2) (es : T.ES) (m3 : T.M3) (d : T.D) : Prop where
  h2 : R.r2 R.r1.1 = .ok (m2, es)
  h3 : R.r3 R.r1.2 m2 = .ok m3
  h4 : R.r4 es m3 = .ok d
  b1 : R.t1 R.r1.1 = .ok R.r1.1
  bg : R.tg R.r1.2 = .ok R.r1.2
  b2 : R.t2 m2 = .ok m2
  be : R.te es = .ok es
  b3 : R.t3 m3 = .ok m3

theorem thru_ok {α : Type} (t : α → Res α) (v : α) (h : t v = .ok v) (b : Bool) : thru t b v = .ok v := by
  cases b <;> simp [thru, h]

theorem Sess.step_e4 (R : Rounds T) (s : Sess T) (es : T.ES) (m3 : T.M3) (d : T.D) (hes : s.es = some es)
    (hm3 : s.m3 = some m3) (be : R.te es = .ok es) (b3 : R.t3 m3 = .ok m3) (h4 : R.r4 es m3 = .ok d) (x y : Bool) :
    s.step R (.e4 x y) = { s with out := some d } := by
  simp only [Sess.step, Sess.stepRes, hes, hm3, thru_ok _ _ be, thru_ok _ _ b3, h4, Res.ok_bind, Res.pure_eq]

theorem Sess.run_e4s (R : Rounds T) (es : T.ES) (m3 : T.M3) (d : T.D) (be : R.te es = .ok es) (b3 : R.t3 m3 = .ok m3)
    (h4 : R.r4 es m3 = .ok d) :
    ∀ (acts : List Act) (s : Sess T), s.es = some es → s.m3 = some m3 → (∀ a ∈ acts, a.isE4 = true) → acts ≠ [] →
      s.run R acts = { s with out := some d } := by
  intro acts
  induction acts with
  | nil => intro s _ _ _ hne; exact absurd rfl hne
  | cons a l ih =>
    intro s hes hm3 hall _
    have ha : a.isE4 = true := hall a (by simp)
    have hstep : s.step R a = { s with out := some d } := by
      cases a with
      | e4 x y => exact Sess.step_e4 R s es m3 d hes hm3 be b3 h4 x y
      | g1 => cases ha
      | e2 _ => cases ha
      | g3 _ _ => cases ha
    have hrun : s.run R (a :: l) = (s.step R a).run R l := rfl
    rw [hrun, hstep]
    by_cases hl : l = []
    · subst hl; rfl
    · rw [ih { s with out := some d } hes hm3 (fun a' ha' => hall a' (by simp [ha'])) hl]

/-- A complete session — round 1, round 2, round 3, then round 4 any positive
number of times, every input consumed in memory or through bytes — ends with
exactly the values of the isolated run in every slot, whatever the slots held
before. -/
theorem Sess.run_complete (R : Rounds T) (m2 : T.M2) (es : T.ES) (m3 : T.M3) (d : T.D) (hs : R.Sound m2 es m3 d)
    (s : Sess T) (x y z : Bool) (e4s : List Act) (hall : ∀ a ∈ e4s, a.isE4 = true) (hne : e4s ≠ []) :
    s.run R (.g1 :: .e2 x :: .g3 y z :: e4s) =
      { m1 := some R.r1.1, gs := some R.r1.2, m2 := some m2, es := some es, m3 := some m3, out := some d } := by
  have h1 : s.step R .g1 = { s with m1 := some R.r1.1, gs := some R.r1.2 } := rfl
  have h2 : ({ s with m1 := some R.r1.1, gs := some R.r1.2 } : Sess T).step R (.e2 x) =
      { s with m1 := some R.r1.1, gs := some R.r1.2, m2 := some m2, es := some es } := by
    simp only [Sess.step, Sess.stepRes, thru_ok _ _ hs.b1, hs.h2, Res.ok_bind, Res.pure_eq]
  have h3 : ({ s with m1 := some R.r1.1, gs := some R.r1.2, m2 := some m2, es := some es } : Sess T).step R (.g3 y z) =
      { s with m1 := some R.r1.1, gs := some R.r1.2, m2 := some m2, es := some es, m3 := some m3 } := by
    simp only [Sess.step, Sess.stepRes, thru_ok _ _ hs.bg, thru_ok _ _ hs.b2, hs.h3, Res.ok_bind, Res.pure_eq]
  have hrun : s.run R (.g1 :: .e2 x :: .g3 y z :: e4s) =
      (((s.step R .g1).step R (.e2 x)).step R (.g3 y z)).run R e4s := rfl
  rw [hrun, h1, h2, h3, Sess.run_e4s R es m3 d hs.be hs.b3 hs.h4 e4s _ rfl rfl hall hne]

/-! ## the sha2pc rounds are sound -/

/-- What is assumed of one session: the hypotheses of `correct_given_circuit`
(well-formed embedded circuit with 256+256 inputs and 256 defined outputs,
32-byte inputs, no point at infinity) and that the produced values are
encodable: the curve description is sane, session id / key have their Go
widths, coordinates and scalars fit the field width and decompression returns
the ordinate of every choice point. -/
structure SessCfg.Good (c : SessCfg) : Prop where
  hwf : c.P.circ.WF = true
  hnin : c.P.circ.nIn = nBits + nBits
  hnout : c.P.circ.nOut = nBits
  hod : c.P.circ.outputsDefined = true
  ha : c.a.length = 32
  hb : c.b.length = 32
  hA : c.P.crypto.onCurve (Co.senderSetup c.P.crypto.Γ c.P.crypto.g c.aS).A
  hI : c.P.crypto.onCurve (Co.senderSetup c.P.crypto.Γ c.P.crypto.g c.aS).AaInv
  hP : ∀ i, i < nBits → c.P.crypto.onCurve (Co.choicePoint c.P.crypto.Γ c.P.crypto.g
      (Co.senderSetup c.P.crypto.Γ c.P.crypto.g c.aS).A (c.scalars.getD i 0) ((bytesToBits c.b).getD i false))
  curve : c.P.curve.WF
  key : c.key.length = keyLen
  m1wf : (round1 c.P c.aS c.sid).1.WF c.P.curve
  gswf : (round1 c.P c.aS c.sid).2.WF c.P.curve
  r2wf : ∀ m2 es, round2 c.P (round1 c.P c.aS c.sid).1 c.b c.scalars = .ok (m2, es) → m2.WF c.P.curve ∧ es.WF c.P.curve

/-- the digest position of the embedded circuit's plain evaluation -/
def SessCfg.result (c : SessCfg) : Bytes :=
  bitsToBytes (c.P.circ.compute (bytesToBits c.a ++ bytesToBits c.b))

theorem SessCfg.rounds_sound (c : SessCfg) (hg : c.Good) :
    ∃ m2 es m3, c.rounds.Sound (T := sha2pcTy) m2 es m3 c.result := by
  obtain ⟨m2, es, m3, h2, h3, h4⟩ := correct_given_circuit c.P c.a c.b c.aS c.sid c.scalars c.key c.r0 c.inl
    hg.hwf hg.hnin hg.hnout hg.hod hg.ha hg.hb hg.hA hg.hI hg.hP
  obtain ⟨hm2, hes⟩ := hg.r2wf m2 es h2
  have hm3 : m3.WF (countsOf c.P.circ) :=
    round3_WF c.P _ c.a m2 c.key c.r0 c.inl m3 hg.gswf.sid hg.key hg.hnout h3
  refine ⟨m2, es, m3, ⟨h2, h3, h4, ?_, ?_, ?_, ?_, ?_⟩⟩
  · show (encodeRound1 c.P.curve (round1 c.P c.aS c.sid).1 >>= decodeRound1 c.P.curve) = .ok (round1 c.P c.aS c.sid).1
    rw [encodeRound1_eq _ _ hg.m1wf.name, Res.ok_bind]
    exact decodeRound1_encode _ hg.curve _ hg.m1wf _ (encodeRound1_eq _ _ hg.m1wf.name)
  · show (encodeGarblerSession c.P.curve (round1 c.P c.aS c.sid).2 >>= decodeGarblerSession c.P.curve) =
      .ok (round1 c.P c.aS c.sid).2
    have he : ∃ enc, encodeGarblerSession c.P.curve (round1 c.P c.aS c.sid).2 = .ok enc := by
      unfold encodeGarblerSession
      rw [encodeSenderSetup_eq _ _ hg.gswf.name]
      exact ⟨_, rfl⟩
    obtain ⟨enc, he⟩ := he
    rw [he, Res.ok_bind]
    exact decodeGarblerSession_encode _ hg.curve _ hg.gswf enc he
  · show (encodeRound2 c.P.curve m2 >>= decodeRound2 c.P.curve) = .ok m2
    rw [encodeRound2_eq _ _ hm2.count, Res.ok_bind]
    exact decodeRound2_encode _ hg.curve _ hm2 _ (encodeRound2_eq _ _ hm2.count)
  · show (encodeEvaluatorSession c.P.curve es >>= decodeEvaluatorSession c.P.curve) = .ok es
    have he : ∃ enc, encodeEvaluatorSession c.P.curve es = .ok enc := by
      unfold encodeEvaluatorSession
      rw [encodeChoiceBundle_eq _ _ hes]
      exact ⟨_, rfl⟩
    obtain ⟨enc, he⟩ := he
    rw [he, Res.ok_bind]
    exact decodeEvaluatorSession_encode _ hg.curve _ hes enc he
  · show (encodeRound3 (countsOf c.P.circ) m3 >>= decodeRound3 (countsOf c.P.circ)) = .ok m3
    rw [encodeRound3_eq _ _ hm3, Res.ok_bind]
    exact decodeRound3_encode _ _ hm3 _ (encodeRound3_eq _ _ hm3)

/-! ## histories with failing steps (any round functions) -/

theorem Proc.stepD_other (cfg : Cfg T) (st : Proc T) (e : Ev) (j : Nat) (h : j ≠ e.sess) :
    Proc.stepD cfg st e j = st j := by
  unfold Proc.stepD
  cases Proc.stepResD cfg st e with
  | none => rfl
  | some r =>
    cases r with
    | ok s' => simp [h]
    | error => rfl
    | panic => rfl

/-- A step that does not succeed leaves the whole process as it was. -/
theorem Proc.stepD_failed (cfg : Cfg T) (st : Proc T) (e : Ev) (h : Proc.okAt cfg st e = false) :
    Proc.stepD cfg st e = st := by
  unfold Proc.okAt at h
  unfold Proc.stepD
  split
  · rename_i s' hs
    rw [hs] at h
    cases h
  · rfl

/-- An undisturbed event is a step of the failure-free model. -/
theorem Proc.stepD_clean (cfg : Cfg T) (st : Proc T) (e : Ev) (h : e.dist = none) :
    Proc.stepD cfg st e = Proc.step cfg st (e.sess, e.act) := by
  funext j
  have hres : Proc.stepResD cfg st e = (st e.sess).stepRes (cfg e.sess) e.act := by
    simp [Proc.stepResD, Sess.stepResD, h]
  unfold Proc.stepD Proc.step Sess.step
  rw [hres]
  by_cases hj : j = e.sess
  · subst hj
    cases hr : (st e.sess).stepRes (cfg e.sess) e.act with
    | none => simp
    | some r => cases r <;> simp
  · cases hr : (st e.sess).stepRes (cfg e.sess) e.act with
    | none => simp [hj]
    | some r => cases r <;> simp [hj]

theorem Proc.runD_cons (cfg : Cfg T) (st : Proc T) (e : Ev) (es : List Ev) :
    Proc.runD cfg st (e :: es) = Proc.runD cfg (Proc.stepD cfg st e) es := rfl

/-- A history is the history of its successful events. -/
theorem Proc.runD_effective (cfg : Cfg T) (sched : List Ev) :
    ∀ st : Proc T, Proc.runD cfg st sched = Proc.runD cfg st (Proc.effective cfg st sched) := by
  induction sched with
  | nil => intro st; rfl
  | cons e es ih =>
    intro st
    by_cases hok : Proc.okAt cfg st e = true
    · have : Proc.effective cfg st (e :: es) = e :: Proc.effective cfg (Proc.stepD cfg st e) es := by
        simp [Proc.effective, hok]
      rw [this, Proc.runD_cons, Proc.runD_cons, ← ih]
    · have hok' : Proc.okAt cfg st e = false := by simpa using hok
      have : Proc.effective cfg st (e :: es) = Proc.effective cfg st es := by
        simp [Proc.effective, hok']
      rw [this, Proc.runD_cons, Proc.stepD_failed cfg st e hok', ← ih]

theorem Proc.runD_frame (cfg : Cfg T) (sched : List Ev) (j : Nat) :
    ∀ st : Proc T, (∀ e ∈ sched, e.sess ≠ j) → Proc.runD cfg st sched j = st j := by
  induction sched with
  | nil => intro st _; rfl
  | cons e es ih =>
    intro st h
    rw [Proc.runD_cons, ih _ (fun e' he' => h e' (by simp [he']))]
    exact Proc.stepD_other cfg st e j (fun h' => h e (by simp) h'.symm)

theorem cleanSched_cons_clean (e : Ev) (es : List Ev) (h : e.dist = none) :
    cleanSched (e :: es) = (e.sess, e.act) :: cleanSched es := by
  simp [cleanSched, h]

theorem cleanSched_cons_dist (e : Ev) (es : List Ev) (h : e.dist.isSome = true) :
    cleanSched (e :: es) = cleanSched es := by
  cases hd : e.dist with
  | none => rw [hd] at h; cases h
  | some d => simp [cleanSched, hd]

/-- FAILURE ERASURE.  When every disturbed event fails where it runs, the
history ends in the state of the failure-free history of its undisturbed
events. -/
theorem Proc.runD_erase (cfg : Cfg T) (sched : List Ev) :
    ∀ st : Proc T, Proc.DistFail cfg st sched → Proc.runD cfg st sched = Proc.run cfg st (cleanSched sched) := by
  induction sched with
  | nil => intro st _; rfl
  | cons e es ih =>
    intro st hf
    obtain ⟨h1, h2⟩ := hf
    rw [Proc.runD_cons, ih _ h2]
    cases hd : e.dist with
    | none =>
      rw [cleanSched_cons_clean e es hd, Proc.stepD_clean cfg st e hd]
      rfl
    | some d =>
      have hs : e.dist.isSome = true := by simp [hd]
      rw [cleanSched_cons_dist e es hs, Proc.stepD_failed cfg st e (h1 hs)]

/-! ### which disturbances the sha2pc rounds reject whatever the state -/

theorem Res.bind_ne_ok_left {α β : Type} (r : Res α) (f : α → Res β) (h : ∀ a, r ≠ .ok a) (b : β) :
    (r >>= f) ≠ .ok b := by
  cases r with
  | ok a => exact absurd rfl (h a)
  | error => intro h'; cases h'
  | panic => intro h'; cases h'

theorem Res.bind_ne_ok_right {α β : Type} (r : Res α) (f : α → Res β) (h : ∀ a b, f a ≠ .ok b) (b : β) :
    (r >>= f) ≠ .ok b := by
  cases r with
  | ok a => exact h a b
  | error => intro h'; cases h'
  | panic => intro h'; cases h'

theorem mutate_length_ne (mu : Nat) (bs : Bytes) (h : 0 < bs.length) : (mutate mu bs).length ≠ bs.length := by
  unfold mutate
  split
  · have := Nat.mod_lt (mu / 2) h
    simp only [List.length_take]
    omega
  · simp

/-- A disturbance the sha2pc rounds answer with an error (or a decoder error)
in EVERY process state: a failing random source, a message whose bytes were cut
or extended in transit.  (A foreign message is rejected when the session ids
differ: `foreign_g3_fails`, `foreign_e4_fails`.) -/
def Ev.unconditional (e : Ev) : Bool :=
  match e.dist with
  | none => true
  | some (.rng _ _) => true
  | some (.malformed _) => true
  | some _ => false

theorem okAt_false_of {cfg : Cfg T} {st : Proc T} {e : Ev}
    (h : ∀ s', Proc.stepResD cfg st e ≠ some (.ok s')) : Proc.okAt cfg st e = false := by
  unfold Proc.okAt
  split
  · rename_i s' hs; exact absurd hs (h s')
  · rfl

theorem SessCfg.u1_fails (c : SessCfg) (hc : c.P.curve.WF) (mu : Nat) (m : Round1) (m' : Round1) :
    c.rounds.u1 mu m ≠ .ok m' := by
  show (encodeRound1 c.P.curve m >>= fun bs => decodeRound1 c.P.curve (mutate mu bs)) ≠ .ok m'
  cases he : encodeRound1 c.P.curve m with
  | ok bs =>
    rw [Res.ok_bind]
    intro hd
    have h1 := encodeRound1_length c.P.curve hc m bs he
    have h2 := encodeRound1_length c.P.curve hc m' _ (encodeRound1_decode c.P.curve _ m' hd).1
    exact mutate_length_ne mu bs (by omega) (by omega)
  | error => intro h'; cases h'
  | panic => intro h'; cases h'

theorem SessCfg.u2_fails (c : SessCfg) (hc : c.P.curve.WF) (hp : c.P.curve.ParitySound) (mu : Nat) (m m' : Round2) :
    c.rounds.u2 mu m ≠ .ok m' := by
  show (encodeRound2 c.P.curve m >>= fun bs => decodeRound2 c.P.curve (mutate mu bs)) ≠ .ok m'
  cases he : encodeRound2 c.P.curve m with
  | ok bs =>
    rw [Res.ok_bind]
    intro hd
    have h1 := encodeRound2_length c.P.curve hc m bs he
    have h2 := encodeRound2_length c.P.curve hc m' _ (encodeRound2_decode c.P.curve hp _ m' hd).1
    exact mutate_length_ne mu bs (by omega) (by omega)
  | error => intro h'; cases h'
  | panic => intro h'; cases h'

theorem encodeRound3_length (counts : List Nat) (m : Round3) (bs : Bytes) (he : encodeRound3 counts m = .ok bs) :
    bs.length = round3Len counts := by
  unfold encodeRound3 at he
  split at he; · cases he
  split at he; · cases he
  split at he; · cases he
  split at he; · cases he
  split at he; · cases he
  simp only at he
  split at he
  · cases he
  · rename_i hl
    cases he
    exact Decidable.of_not_not hl

theorem decodeRound3_length (counts : List Nat) (data : Bytes) (m : Round3) (h : decodeRound3 counts data = .ok m) :
    data.length = round3Len counts := by
  unfold decodeRound3 at h
  split at h
  · cases h
  · rename_i hne; exact Decidable.of_not_not hne

theorem round3Len_pos (counts : List Nat) : 0 < round3Len counts := by
  simp [round3Len]
  omega

theorem SessCfg.u3_fails (c : SessCfg) (mu : Nat) (m m' : Round3) : c.rounds.u3 mu m ≠ .ok m' := by
  show (encodeRound3 (countsOf c.P.circ) m >>= fun bs => decodeRound3 (countsOf c.P.circ) (mutate mu bs)) ≠ .ok m'
  cases he : encodeRound3 (countsOf c.P.circ) m with
  | ok bs =>
    rw [Res.ok_bind]
    intro hd
    have h1 := encodeRound3_length _ m bs he
    have h2 := decodeRound3_length _ _ m' hd
    have h3 := round3Len_pos (countsOf c.P.circ)
    exact mutate_length_ne mu bs (by omega) (by omega)
  | error => intro h'; cases h'
  | panic => intro h'; cases h'

theorem Res.error_ne_ok {α : Type} (a : α) : (Res.error : Res α) ≠ .ok a := by intro h; cases h

theorem some_ne_some_of {α : Type} {a b : α} (h : a ≠ b) : some a ≠ some b := by
  intro h'; injection h' with h'; exact h h'

/-- A round whose random source fails returns no value, whatever the session
holds and whichever round it is. -/
theorem SessCfg.rng_fails (c : SessCfg) (st : Nat → Sess sha2pcTy) (s : Sess sha2pcTy) (a : Act) (off kind : Nat)
    (s' : Sess sha2pcTy) : s.stepResD c.rounds st a (some (.rng off kind)) ≠ some (.ok s') := by
  cases a with
  | g1 =>
    apply some_ne_some_of
    exact Res.bind_ne_ok_left _ _ (fun r => Res.error_ne_ok r) s'
  | e2 x =>
    simp only [Sess.stepResD]
    cases s.m1 with
    | none => simp
    | some m1 =>
      apply some_ne_some_of
      exact Res.bind_ne_ok_right _ _ (fun m b => Res.bind_ne_ok_left _ _ (fun r => Res.error_ne_ok r) b) s'
  | g3 x y =>
    simp only [Sess.stepResD]
    cases s.gs with
    | none => simp
    | some gs =>
      cases s.m2 with
      | none => simp
      | some m2 =>
        apply some_ne_some_of
        exact Res.bind_ne_ok_right _ _ (fun g b => Res.bind_ne_ok_right _ _
          (fun m b => Res.bind_ne_ok_left _ _ (fun r => Res.error_ne_ok r) b) b) s'
  | e4 x y => simp [Sess.stepResD]

/-- A message whose bytes were cut or extended in transit is rejected by the
decoder of the receiving round: the round does not run. -/
theorem SessCfg.malformed_fails (c : SessCfg) (hc : c.P.curve.WF) (hp : c.P.curve.ParitySound)
    (st : Nat → Sess sha2pcTy) (s : Sess sha2pcTy) (a : Act) (mu : Nat) (s' : Sess sha2pcTy) :
    s.stepResD c.rounds st a (some (.malformed mu)) ≠ some (.ok s') := by
  cases a with
  | g1 => simp [Sess.stepResD]
  | e2 x =>
    simp only [Sess.stepResD]
    cases s.m1 with
    | none => simp
    | some m1 =>
      apply some_ne_some_of
      exact Res.bind_ne_ok_left _ _ (fun m => c.u1_fails hc mu m1 m) s'
  | g3 x y =>
    simp only [Sess.stepResD]
    cases s.gs with
    | none => simp
    | some gs =>
      cases s.m2 with
      | none => simp
      | some m2 =>
        apply some_ne_some_of
        exact Res.bind_ne_ok_right _ _ (fun g b => Res.bind_ne_ok_left _ _ (fun m => c.u2_fails hc hp mu m2 m) b) s'
  | e4 x y =>
    simp only [Sess.stepResD]
    cases s.es with
    | none => simp
    | some es =>
      cases s.m3 with
      | none => simp
      | some m3 =>
        apply some_ne_some_of
        exact Res.bind_ne_ok_right _ _ (fun g b => Res.bind_ne_ok_left _ _ (fun m => c.u3_fails mu m3 m) b) s'

theorem SessCfg.unconditional_fails (cfg : Nat → SessCfg) (hc : ∀ i, (cfg i).P.curve.WF)
    (hp : ∀ i, (cfg i).P.curve.ParitySound) (st : Proc sha2pcTy) (e : Ev) (hd : e.dist.isSome = true)
    (hu : e.unconditional = true) : Proc.okAt (fun i => (cfg i).rounds) st e = false := by
  apply okAt_false_of
  intro s'
  obtain ⟨i, a, d⟩ := e
  cases d with
  | none => cases hd
  | some d =>
    cases d with
    | rng off kind => exact (cfg i).rng_fails st (st i) a off kind s'
    | malformed mu => exact (cfg i).malformed_fails (hc i) (hp i) st (st i) a mu s'
    | foreignMsg src => cases hu
    | foreignState src => cases hu

/-- Histories whose disturbances are failing random sources and messages cut
or extended in transit: every disturbed event fails, from every state. -/
theorem SessCfg.distFail_of_unconditional (cfg : Nat → SessCfg) (hc : ∀ i, (cfg i).P.curve.WF)
    (hp : ∀ i, (cfg i).P.curve.ParitySound) (sched : List Ev) :
    ∀ st : Proc sha2pcTy, (∀ e ∈ sched, e.unconditional = true) → Proc.DistFail (fun i => (cfg i).rounds) st sched := by
  induction sched with
  | nil => intro _ _; trivial
  | cons e es ih =>
    intro st h
    exact ⟨fun hd => SessCfg.unconditional_fails cfg hc hp st e hd (h e (by simp)),
      ih _ (fun e' he' => h e' (by simp [he']))⟩

/-- The round-2 message of ANOTHER session fed to round 3 (in memory): an
error as soon as the session ids differ. -/
theorem SessCfg.foreign_g3_fails (c : SessCfg) (st : Nat → Sess sha2pcTy) (s : Sess sha2pcTy) (src : Nat)
    (gs : GarblerSession) (m2 : Round2) (hgs : s.gs = some gs) (hm : (st src).m2 = some m2) (hsid : m2.sid ≠ gs.sid) :
    s.stepResD c.rounds st (.g3 false false) (some (.foreignMsg src)) = some .error := by
  simp only [Sess.stepResD, hgs, hm, thru]
  have : c.rounds.r3 gs m2 = .error := round3_sid_mismatch c.P gs c.a m2 c.key c.r0 c.inl hsid
  simp [this]

/-- The round-3 message of another session, or the evaluator state of another
session, fed to round 4 (in memory): an error as soon as the session ids
differ. -/
theorem SessCfg.foreign_e4_fails (c : SessCfg) (st : Nat → Sess sha2pcTy) (s : Sess sha2pcTy) (src : Nat)
    (es : EvaluatorSession) (m3 : Round3) (hsid : m3.sid ≠ es.sid) :
    (s.es = some es → (st src).m3 = some m3 →
      s.stepResD c.rounds st (.e4 false false) (some (.foreignMsg src)) = some .error) ∧
    ((st src).es = some es → s.m3 = some m3 →
      s.stepResD c.rounds st (.e4 false false) (some (.foreignState src)) = some .error) := by
  have : c.rounds.r4 es m3 = .error := round4_sid_mismatch c.P es m3 hsid
  constructor
  · intro h1 h2
    simp only [Sess.stepResD, h1, h2, thru]
    simp [this]
  · intro h1 h2
    simp only [Sess.stepResD, h1, h2, thru]
    simp [this]

end Mpc.Sha2pc

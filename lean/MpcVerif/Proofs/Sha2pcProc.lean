/-
Lemmas for the process model (Model/Sha2pcProc.lean): frame, projection of a
history on one session, the result of a complete session inside any history.
-/
import MpcVerif.Model.Sha2pcProc
import MpcVerif.Proofs.Sha2pcCorrect

namespace Mpc.Sha2pc

variable {T : Ty}

/-! ## frame and projection (any round functions) -/

theorem Proc.step_other (cfg : Cfg T) (st : Proc T) (e : Nat × Act) (j : Nat) (h : j ≠ e.1) :
    Proc.step cfg st e j = st j := by
  simp [Proc.step, h]

theorem Proc.step_self (cfg : Cfg T) (st : Proc T) (e : Nat × Act) :
    Proc.step cfg st e e.1 = (st e.1).step (cfg e.1) e.2 := by
  simp [Proc.step]

theorem proj_cons_self (j : Nat) (a : Act) (es : List (Nat × Act)) : proj j ((j, a) :: es) = a :: proj j es := by
  simp [proj]

theorem proj_cons_other (j : Nat) (e : Nat × Act) (es : List (Nat × Act)) (h : j ≠ e.1) :
    proj j (e :: es) = proj j es := by
  have : (e.1 == j) = false := by simp; exact fun h' => h h'.symm
  simp [proj, this]

/-- The state of session `j` after a history is the state session `j` reaches
by its OWN steps, from its own initial state: no step of another session
contributes. -/
theorem Proc.run_proj (cfg : Cfg T) (sched : List (Nat × Act)) :
    ∀ (st : Proc T) (j : Nat), Proc.run cfg st sched j = (st j).run (cfg j) (proj j sched) := by
  induction sched with
  | nil => intro st j; rfl
  | cons e es ih =>
    intro st j
    have hrun : Proc.run cfg st (e :: es) = Proc.run cfg (Proc.step cfg st e) es := rfl
    rw [hrun, ih]
    by_cases h : j = e.1
    · obtain ⟨i, a⟩ := e
      simp only at h
      subst h
      rw [proj_cons_self]
      have := Proc.step_self cfg st (j, a)
      simp only at this
      rw [this]
      rfl
    · rw [proj_cons_other j e es h, Proc.step_other cfg st e j h]

theorem proj_nil_of_absent (j : Nat) (sched : List (Nat × Act)) (h : ∀ e ∈ sched, e.1 ≠ j) : proj j sched = [] := by
  induction sched with
  | nil => rfl
  | cons e es ih =>
    rw [proj_cons_other j e es (fun h' => h e (by simp) h'.symm)]
    exact ih (fun e' he' => h e' (by simp [he']))

/-! ## a complete session -/

/-- The values of the session when it runs alone, and the facts that make
every way of consuming them equivalent: each round succeeds on the values of
the rounds before, each trip through bytes returns the value. -/
structure Rounds.Sound (R : Rounds T) (m2 : T.M2) (es : T.ES) (m3 : T.M3) (d : T.D) : Prop where
  h2 : R.r2 R.r1.1 = .ok (m2, es)
  h3 : R.r3 R.r1.2 m2 = .ok m3
  h4 : R.r4 es m3 = .ok d
  b1 : R.t1 R.r1.1 = .ok R.r1.1
  bg : R.tg R.r1.2 = .ok R.r1.2
  b2 : R.t2 m2 = .ok m2
  be : R.te es = .ok es
  b3 : R.t3 m3 = .ok m3

theorem thru_ok {α : Type} (t : α → Res α) (v : α) (h : t v = .ok v) (b : Bool) : thru t b v = .ok v := by
  cases b <;> simp [thru, h]

theorem Sess.step_e4 (R : Rounds T) (s : Sess T) (es : T.ES) (m3 : T.M3) (d : T.D) (hes : s.es = some es)
    (hm3 : s.m3 = some m3) (be : R.te es = .ok es) (b3 : R.t3 m3 = .ok m3) (h4 : R.r4 es m3 = .ok d) (x y : Bool) :
    s.step R (.e4 x y) = { s with out := some d } := by
  simp only [Sess.step, Sess.stepRes, hes, hm3, thru_ok _ _ be, thru_ok _ _ b3, h4, Res.ok_bind, Res.pure_eq]

theorem Sess.run_e4s (R : Rounds T) (es : T.ES) (m3 : T.M3) (d : T.D) (be : R.te es = .ok es) (b3 : R.t3 m3 = .ok m3)
    (h4 : R.r4 es m3 = .ok d) :
    ∀ (acts : List Act) (s : Sess T), s.es = some es → s.m3 = some m3 → (∀ a ∈ acts, a.isE4 = true) → acts ≠ [] →
      s.run R acts = { s with out := some d } := by
  intro acts
  induction acts with
  | nil => intro s _ _ _ hne; exact absurd rfl hne
  | cons a l ih =>
    intro s hes hm3 hall _
    have ha : a.isE4 = true := hall a (by simp)
    have hstep : s.step R a = { s with out := some d } := by
      cases a with
      | e4 x y => exact Sess.step_e4 R s es m3 d hes hm3 be b3 h4 x y
      | g1 => cases ha
      | e2 _ => cases ha
      | g3 _ _ => cases ha
    have hrun : s.run R (a :: l) = (s.step R a).run R l := rfl
    rw [hrun, hstep]
    by_cases hl : l = []
    · subst hl; rfl
    · rw [ih { s with out := some d } hes hm3 (fun a' ha' => hall a' (by simp [ha'])) hl]

/-- A complete session — round 1, round 2, round 3, then round 4 any positive
number of times, every input consumed in memory or through bytes — ends with
exactly the values of the isolated run in every slot, whatever the slots held
before. -/
theorem Sess.run_complete (R : Rounds T) (m2 : T.M2) (es : T.ES) (m3 : T.M3) (d : T.D) (hs : R.Sound m2 es m3 d)
    (s : Sess T) (x y z : Bool) (e4s : List Act) (hall : ∀ a ∈ e4s, a.isE4 = true) (hne : e4s ≠ []) :
    s.run R (.g1 :: .e2 x :: .g3 y z :: e4s) =
      { m1 := some R.r1.1, gs := some R.r1.2, m2 := some m2, es := some es, m3 := some m3, out := some d } := by
  have h1 : s.step R .g1 = { s with m1 := some R.r1.1, gs := some R.r1.2 } := rfl
  have h2 : ({ s with m1 := some R.r1.1, gs := some R.r1.2 } : Sess T).step R (.e2 x) =
      { s with m1 := some R.r1.1, gs := some R.r1.2, m2 := some m2, es := some es } := by
    simp only [Sess.step, Sess.stepRes, thru_ok _ _ hs.b1, hs.h2, Res.ok_bind, Res.pure_eq]
  have h3 : ({ s with m1 := some R.r1.1, gs := some R.r1.2, m2 := some m2, es := some es } : Sess T).step R (.g3 y z) =
      { s with m1 := some R.r1.1, gs := some R.r1.2, m2 := some m2, es := some es, m3 := some m3 } := by
    simp only [Sess.step, Sess.stepRes, thru_ok _ _ hs.bg, thru_ok _ _ hs.b2, hs.h3, Res.ok_bind, Res.pure_eq]
  have hrun : s.run R (.g1 :: .e2 x :: .g3 y z :: e4s) =
      (((s.step R .g1).step R (.e2 x)).step R (.g3 y z)).run R e4s := rfl
  rw [hrun, h1, h2, h3, Sess.run_e4s R es m3 d hs.be hs.b3 hs.h4 e4s _ rfl rfl hall hne]

/-! ## the sha2pc rounds are sound -/

/-- What is assumed of one session: the hypotheses of `correct_given_circuit`
(well-formed embedded circuit with 256+256 inputs and 256 defined outputs,
32-byte inputs, no point at infinity) and that the produced values are
encodable: the curve description is sane, session id / key have their Go
widths, coordinates and scalars fit the field width and decompression returns
the ordinate of every choice point. -/
structure SessCfg.Good (c : SessCfg) : Prop where
  hwf : c.P.circ.WF = true
  hnin : c.P.circ.nIn = nBits + nBits
  hnout : c.P.circ.nOut = nBits
  hod : c.P.circ.outputsDefined = true
  ha : c.a.length = 32
  hb : c.b.length = 32
  hA : c.P.crypto.onCurve (Co.senderSetup c.P.crypto.Γ c.P.crypto.g c.aS).A
  hI : c.P.crypto.onCurve (Co.senderSetup c.P.crypto.Γ c.P.crypto.g c.aS).AaInv
  hP : ∀ i, i < nBits → c.P.crypto.onCurve (Co.choicePoint c.P.crypto.Γ c.P.crypto.g
      (Co.senderSetup c.P.crypto.Γ c.P.crypto.g c.aS).A (c.scalars.getD i 0) ((bytesToBits c.b).getD i false))
  curve : c.P.curve.WF
  key : c.key.length = keyLen
  m1wf : (round1 c.P c.aS c.sid).1.WF c.P.curve
  gswf : (round1 c.P c.aS c.sid).2.WF c.P.curve
  r2wf : ∀ m2 es, round2 c.P (round1 c.P c.aS c.sid).1 c.b c.scalars = .ok (m2, es) → m2.WF c.P.curve ∧ es.WF c.P.curve

/-- the digest position of the embedded circuit's plain evaluation -/
def SessCfg.result (c : SessCfg) : Bytes :=
  bitsToBytes (c.P.circ.compute (bytesToBits c.a ++ bytesToBits c.b))

theorem SessCfg.rounds_sound (c : SessCfg) (hg : c.Good) :
    ∃ m2 es m3, c.rounds.Sound (T := sha2pcTy) m2 es m3 c.result := by
  obtain ⟨m2, es, m3, h2, h3, h4⟩ := correct_given_circuit c.P c.a c.b c.aS c.sid c.scalars c.key c.r0 c.inl
    hg.hwf hg.hnin hg.hnout hg.hod hg.ha hg.hb hg.hA hg.hI hg.hP
  obtain ⟨hm2, hes⟩ := hg.r2wf m2 es h2
  have hm3 : m3.WF (countsOf c.P.circ) :=
    round3_WF c.P _ c.a m2 c.key c.r0 c.inl m3 hg.gswf.sid hg.key hg.hnout h3
  refine ⟨m2, es, m3, ⟨h2, h3, h4, ?_, ?_, ?_, ?_, ?_⟩⟩
  · show (encodeRound1 c.P.curve (round1 c.P c.aS c.sid).1 >>= decodeRound1 c.P.curve) = .ok (round1 c.P c.aS c.sid).1
    rw [encodeRound1_eq _ _ hg.m1wf.name, Res.ok_bind]
    exact decodeRound1_encode _ hg.curve _ hg.m1wf _ (encodeRound1_eq _ _ hg.m1wf.name)
  · show (encodeGarblerSession c.P.curve (round1 c.P c.aS c.sid).2 >>= decodeGarblerSession c.P.curve) =
      .ok (round1 c.P c.aS c.sid).2
    have he : ∃ enc, encodeGarblerSession c.P.curve (round1 c.P c.aS c.sid).2 = .ok enc := by
      unfold encodeGarblerSession
      rw [encodeSenderSetup_eq _ _ hg.gswf.name]
      exact ⟨_, rfl⟩
    obtain ⟨enc, he⟩ := he
    rw [he, Res.ok_bind]
    exact decodeGarblerSession_encode _ hg.curve _ hg.gswf enc he
  · show (encodeRound2 c.P.curve m2 >>= decodeRound2 c.P.curve) = .ok m2
    rw [encodeRound2_eq _ _ hm2.count, Res.ok_bind]
    exact decodeRound2_encode _ hg.curve _ hm2 _ (encodeRound2_eq _ _ hm2.count)
  · show (encodeEvaluatorSession c.P.curve es >>= decodeEvaluatorSession c.P.curve) = .ok es
    have he : ∃ enc, encodeEvaluatorSession c.P.curve es = .ok enc := by
      unfold encodeEvaluatorSession
      rw [encodeChoiceBundle_eq _ _ hes]
      exact ⟨_, rfl⟩
    obtain ⟨enc, he⟩ := he
    rw [he, Res.ok_bind]
    exact decodeEvaluatorSession_encode _ hg.curve _ hes enc he
  · show (encodeRound3 (countsOf c.P.circ) m3 >>= decodeRound3 (countsOf c.P.circ)) = .ok m3
    rw [encodeRound3_eq _ _ hm3, Res.ok_bind]
    exact decodeRound3_encode _ _ hm3 _ (encodeRound3_eq _ _ hm3)

end Mpc.Sha2pc

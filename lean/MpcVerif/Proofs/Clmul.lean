/-
Lemmas about the carry-less product (Model/Clmul.lean): the coefficient
characterisation of `clmul64` and `mul128Generic` (coefficient `k` of the
result is the XOR over `i` of `b_i ∧ a_(k-i)`), from it GF(2)-bilinearity and
the absence of zero divisors, the equality of the Karatsuba form used by the
CLMUL assembly, and the XOR algebra of 256-bit pairs.  Core Lean only.
-/
import MpcVerif.Model.Clmul
import MpcVerif.Proofs.Iknp
namespace Mpc.Clmul
open Mpc.Iknp

/-- XOR of `f 0 .. f (n-1)`. -/
def xsum : Nat → (Nat → Bool) → Bool
  | 0, _ => false
  | n + 1, f => xsum n f ^^ f n

theorem xsum_congr (n : Nat) (f g : Nat → Bool) (h : ∀ i, i < n → f i = g i) : xsum n f = xsum n g := by
  induction n with
  | zero => rfl
  | succ n ih =>
    simp only [xsum]
    rw [ih (fun i hi => h i (by omega)), h n (by omega)]

theorem xsum_false (n : Nat) (f : Nat → Bool) (h : ∀ i, i < n → f i = false) : xsum n f = false := by
  induction n with
  | zero => rfl
  | succ n ih =>
    simp only [xsum]
    rw [ih (fun i hi => h i (by omega)), h n (by omega)]; rfl

theorem xsum_xor (n : Nat) (f g : Nat → Bool) : xsum n (fun i => f i ^^ g i) = (xsum n f ^^ xsum n g) := by
  induction n with
  | zero => rfl
  | succ n ih =>
    simp only [xsum, ih]
    generalize xsum n f = a; generalize xsum n g = b; generalize f n = c; generalize g n = d
    cases a <;> cases b <;> cases c <;> cases d <;> rfl

theorem xsum_add (n m : Nat) (f : Nat → Bool) : xsum (n + m) f = (xsum n f ^^ xsum m fun i => f (n + i)) := by
  induction m with
  | zero => simp [xsum]
  | succ m ih =>
    rw [← Nat.add_assoc]
    simp only [xsum, ih, Bool.xor_assoc]

/-- Only one index contributes. -/
theorem xsum_single (n : Nat) (f : Nat → Bool) (i0 : Nat) (h0 : i0 < n) (h : ∀ i, i < n → i ≠ i0 → f i = false) :
    xsum n f = f i0 := by
  induction n with
  | zero => omega
  | succ n ih =>
    simp only [xsum]
    by_cases he : i0 = n
    · subst he
      rw [xsum_false _ _ (fun i hi => h i (by omega) (by omega))]; simp
    · rw [ih (by omega) (fun i hi hne => h i (by omega) hne), h n (by omega) (fun e => he e.symm)]; simp

theorem xsum_and (n : Nat) (c : Bool) (f : Nat → Bool) : xsum n (fun i => c && f i) = (c && xsum n f) := by
  cases c
  · simp; exact xsum_false _ _ (fun _ _ => rfl)
  · simp

/-- Coefficient `k` of the 128-bit result `(lo, hi)` of `clmul64`. -/
def c64 (p : W64 × W64) (k : Nat) : Bool := if k < 64 then p.1.getLsbD k else p.2.getLsbD (k - 64)

/-- Coefficient `k` of the product of the polynomials with coefficients `a`, `b`
(sum over the bits `i < N` of the second operand). -/
def conv (N : Nat) (a b : Nat → Bool) (k : Nat) : Bool := xsum N fun i => b i && decide (i ≤ k) && a (k - i)

theorem c64_clmulLoop (a b : W64) (cnt : Nat) (hc : cnt ≤ 64) (k : Nat) :
    c64 (clmulLoop a b cnt) k = conv cnt a.getLsbD b.getLsbD k := by
  induction cnt with
  | zero => simp [clmulLoop, c64, conv, xsum]
  | succ i ih =>
    have ih := ih (by omega)
    unfold conv at ih ⊢
    simp only [clmulLoop, xsum]
    rw [← ih]
    unfold clmulStep
    by_cases hb : b.getLsbD i
    · simp only [hb, if_true, Bool.true_and]
      by_cases h0 : i = 0
      · subst h0
        simp only [if_true, c64]
        by_cases hk : k < 64
        · simp [hk]
        · simp only [hk, if_false]
          have : a.getLsbD k = false := by apply BitVec.getLsbD_of_ge; omega
          simp [this]
      · simp only [h0, if_false, c64]
        by_cases hk : k < 64
        · simp only [hk, if_true, BitVec.getLsbD_xor, BitVec.getLsbD_shiftLeft]
          congr 1
          by_cases hik : i ≤ k
          · have : ¬ (k < i) := by omega
            simp [hik, this]
          · have : k < i := by omega
            simp [hik, this]
        · simp only [hk, if_false, BitVec.getLsbD_xor, BitVec.getLsbD_ushiftRight]
          have hik : i ≤ k := by omega
          have e : 64 - i + (k - 64) = k - i := by omega
          simp [hik, e]
    · simp [hb]

theorem c64_clmul64 (a b : W64) (k : Nat) : c64 (clmul64 a b) k = conv 64 a.getLsbD b.getLsbD k :=
  c64_clmulLoop a b 64 (Nat.le_refl _) k


/-- Coefficient function of two 64-bit words `(x, y)` = `x + X^64 y`. -/
def wcoef (x y : W64) (m : Nat) : Bool := x.getLsbD m ^^ (decide (64 ≤ m) && y.getLsbD (m - 64))

theorem conv_split (a0 a1 b0 b1 : W64) (k : Nat) :
    conv 128 (wcoef a0 a1) (wcoef b0 b1) k =
      (conv 64 a0.getLsbD b0.getLsbD k ^^
        (decide (64 ≤ k) && (conv 64 a1.getLsbD b0.getLsbD (k - 64) ^^ conv 64 a0.getLsbD b1.getLsbD (k - 64))) ^^
        (decide (128 ≤ k) && conv 64 a1.getLsbD b1.getLsbD (k - 128))) := by
  unfold conv
  rw [show (128 : Nat) = 64 + 64 from rfl, xsum_add]
  have h1 : (xsum 64 fun i => wcoef b0 b1 i && decide (i ≤ k) && wcoef a0 a1 (k - i)) =
      ((xsum 64 fun i => b0.getLsbD i && decide (i ≤ k) && a0.getLsbD (k - i)) ^^
       (decide (64 ≤ k) && xsum 64 fun i => b0.getLsbD i && decide (i ≤ k - 64) && a1.getLsbD (k - 64 - i))) := by
    rw [← xsum_and, ← xsum_xor]
    apply xsum_congr
    intro i hi
    unfold wcoef
    have e1 : decide (64 ≤ i) = false := by simp; omega
    simp only [e1, Bool.false_and, Bool.xor_false]
    by_cases c1 : i ≤ k <;> by_cases c2 : 64 ≤ k - i
    · have c3 : 64 ≤ k := by omega
      have c4 : i ≤ k - 64 := by omega
      have e : k - i - 64 = k - 64 - i := by omega
      simp only [c1, c2, c3, c4, e, decide_true, Bool.true_and, Bool.and_true]
      generalize b0.getLsbD i = x; generalize a0.getLsbD (k - i) = y; generalize a1.getLsbD (k - 64 - i) = z
      cases x <;> cases y <;> cases z <;> rfl
    · have c3 : ¬ (64 ≤ k ∧ i ≤ k - 64) := by omega
      have : (decide (64 ≤ k) && (b0.getLsbD i && decide (i ≤ k - 64) && a1.getLsbD (k - 64 - i))) = false := by
        by_cases c5 : 64 ≤ k
        · have : ¬ (i ≤ k - 64) := by omega
          simp [this]
        · simp [c5]
      rw [this]
      simp [c1, c2]
    · omega
    · simp [c1]
      intro h1 h2 h3; omega
  have h2 : (xsum 64 fun i => wcoef b0 b1 (64 + i) && decide (64 + i ≤ k) && wcoef a0 a1 (k - (64 + i))) =
      ((decide (64 ≤ k) && xsum 64 fun i => b1.getLsbD i && decide (i ≤ k - 64) && a0.getLsbD (k - 64 - i)) ^^
       (decide (128 ≤ k) && xsum 64 fun i => b1.getLsbD i && decide (i ≤ k - 128) && a1.getLsbD (k - 128 - i))) := by
    rw [← xsum_and, ← xsum_and, ← xsum_xor]
    apply xsum_congr
    intro i hi
    unfold wcoef
    have e0 : b0.getLsbD (64 + i) = false := by apply BitVec.getLsbD_of_ge; omega
    have e1 : decide (64 ≤ 64 + i) = true := by simp
    have e2 : 64 + i - 64 = i := by omega
    simp only [e0, e1, e2, Bool.true_and, Bool.false_xor]
    by_cases c1 : 64 + i ≤ k
    · have c3 : 64 ≤ k := by omega
      have c4 : i ≤ k - 64 := by omega
      have e3 : k - (64 + i) = k - 64 - i := by omega
      simp only [c1, c3, c4, e3, decide_true, Bool.true_and, Bool.and_true]
      by_cases c2 : 64 ≤ k - 64 - i
      · have c5 : 128 ≤ k := by omega
        have c6 : i ≤ k - 128 := by omega
        have e4 : k - 64 - i - 64 = k - 128 - i := by omega
        simp only [c2, c5, c6, e4, decide_true, Bool.true_and, Bool.and_true]
        generalize b1.getLsbD i = x; generalize a0.getLsbD (k - 64 - i) = y; generalize a1.getLsbD (k - 128 - i) = z
        cases x <;> cases y <;> cases z <;> rfl
      · have : (decide (128 ≤ k) && (b1.getLsbD i && decide (i ≤ k - 128) && a1.getLsbD (k - 128 - i))) = false := by
          by_cases c5 : 128 ≤ k
          · have : ¬ (i ≤ k - 128) := by omega
            simp [this]
          · simp [c5]
        rw [this]
        simp [c2]
    · have : (decide (64 ≤ k) && (b1.getLsbD i && decide (i ≤ k - 64) && a0.getLsbD (k - 64 - i))) = false := by
        by_cases c5 : 64 ≤ k
        · have : ¬ (i ≤ k - 64) := by omega
          simp [this]
        · simp [c5]
      rw [this]
      have : (decide (128 ≤ k) && (b1.getLsbD i && decide (i ≤ k - 128) && a1.getLsbD (k - 128 - i))) = false := by
        by_cases c5 : 128 ≤ k
        · have : ¬ (i ≤ k - 128) := by omega
          simp [this]
        · simp [c5]
      rw [this]
      simp [c1]
  rw [h1, h2]
  generalize (xsum 64 fun i => b0.getLsbD i && decide (i ≤ k) && a0.getLsbD (k - i)) = s00
  generalize (xsum 64 fun i => b0.getLsbD i && decide (i ≤ k - 64) && a1.getLsbD (k - 64 - i)) = s10
  generalize (xsum 64 fun i => b1.getLsbD i && decide (i ≤ k - 64) && a0.getLsbD (k - 64 - i)) = s01
  generalize (xsum 64 fun i => b1.getLsbD i && decide (i ≤ k - 128) && a1.getLsbD (k - 128 - i)) = s11
  generalize decide (64 ≤ k) = u; generalize decide (128 ≤ k) = v
  cases s00 <;> cases s10 <;> cases s01 <;> cases s11 <;> cases u <;> cases v <;> rfl


/-- Polynomial coefficient `j` of a label (`Label.Bit(j)`, 0 for `j ≥ 128`). -/
def coef (l : Label) (j : Nat) : Bool := decide (j < 128) && labelBit l j

/-- Coefficient `k` of the 256-bit product `(lo, hi)`. -/
def c256 (p : P) (k : Nat) : Bool := if k < 128 then coef p.1 k else coef p.2 (k - 128)

theorem getLsbD_d0 (l : Label) (m : Nat) : (d0 l).getLsbD m = (decide (m < 64) && l.getLsbD (64 + m)) := by
  simp [d0, BitVec.getLsbD_extractLsb']

theorem getLsbD_d1 (l : Label) (m : Nat) : (d1 l).getLsbD m = (decide (m < 64) && l.getLsbD m) := by
  simp [d1, BitVec.getLsbD_extractLsb']

theorem coef_eq (l : Label) (j : Nat) : coef l j = wcoef (d0 l) (d1 l) j := by
  unfold coef wcoef labelBit labelPos
  rw [getLsbD_d0, getLsbD_d1]
  by_cases h : j < 64
  · have : ¬ (64 ≤ j) := by omega
    have h2 : j < 128 := by omega
    simp [h, this, h2, Nat.add_comm]
  · by_cases h2 : j < 128
    · have : 64 ≤ j := by omega
      have h3 : j - 64 < 64 := by omega
      simp [h, this, h2, h3]
    · have : 64 ≤ j := by omega
      have h3 : ¬ (j - 64 < 64) := by omega
      simp [h, h2, h3]

theorem d0_ofD (x y : W64) : d0 (ofD x y) = x := by
  apply BitVec.eq_of_getLsbD_eq
  intro i hi
  unfold d0 ofD
  rw [BitVec.getLsbD_extractLsb', BitVec.getLsbD_append]
  have : ¬ (64 + i < 64) := by omega
  have e : 64 + i - 64 = i := by omega
  simp only [hi, this, e, decide_true, Bool.true_and, if_false]

theorem d1_ofD (x y : W64) : d1 (ofD x y) = y := by
  apply BitVec.eq_of_getLsbD_eq
  intro i hi
  unfold d1 ofD
  rw [BitVec.getLsbD_extractLsb', BitVec.getLsbD_append]
  simp only [hi, Nat.zero_add, decide_true, Bool.true_and, if_true]

theorem coef_ofD (x y : W64) (j : Nat) : coef (ofD x y) j = wcoef x y j := by
  rw [coef_eq, d0_ofD, d1_ofD]

theorem c64_ge (p : W64 × W64) (k : Nat) (h : 128 ≤ k) : c64 p k = false := by
  unfold c64
  have : ¬ k < 64 := by omega
  simp only [this, if_false]
  apply BitVec.getLsbD_of_ge; omega

/-- The coefficients of `mul128Generic(a, b)` are those of the polynomial product. -/
theorem c256_mul128Generic (a b : Label) (k : Nat) :
    c256 (mul128Generic a b) k = conv 128 (coef a) (coef b) k := by
  have ea : coef a = wcoef (d0 a) (d1 a) := funext (coef_eq a)
  have eb : coef b = wcoef (d0 b) (d1 b) := funext (coef_eq b)
  rw [ea, eb, conv_split]
  simp only [← c64_clmul64]
  unfold mul128Generic c256
  simp only [coef_ofD]
  generalize clmul64 (d0 a) (d0 b) = p00
  generalize clmul64 (d0 a) (d1 b) = p01
  generalize clmul64 (d1 a) (d0 b) = p10
  generalize clmul64 (d1 a) (d1 b) = p11
  unfold wcoef c64
  by_cases h1 : k < 64
  · have h2 : k < 128 := by omega
    have h3 : ¬ (64 ≤ k) := by omega
    have h4 : ¬ (128 ≤ k) := by omega
    simp [h1, h2, h3, h4]
  · by_cases h2 : k < 128
    · have h3 : 64 ≤ k := by omega
      have h4 : ¬ (128 ≤ k) := by omega
      have h5 : k - 64 < 64 := by omega
      have e : p00.1.getLsbD k = false := by apply BitVec.getLsbD_of_ge; omega
      simp only [h1, h2, h3, h4, h5, e, if_true, if_false, decide_true, decide_false, Bool.true_and, Bool.false_and,
        Bool.false_xor, Bool.xor_false, BitVec.getLsbD_xor]
      generalize p00.2.getLsbD (k - 64) = x; generalize p01.1.getLsbD (k - 64) = y; generalize p10.1.getLsbD (k - 64) = z
      cases x <;> cases y <;> cases z <;> rfl
    · by_cases h6 : k < 192
      · have h3 : 64 ≤ k := by omega
        have h4 : 128 ≤ k := by omega
        have h5 : ¬ (k - 64 < 64) := by omega
        have h7 : k - 128 < 64 := by omega
        have h8 : ¬ (64 ≤ k - 128) := by omega
        have e : p00.2.getLsbD (k - 64) = false := by apply BitVec.getLsbD_of_ge; omega
        have e2 : k - 64 - 64 = k - 128 := by omega
        simp only [h1, h2, h3, h4, h5, h7, h8, e, e2, if_true, if_false, decide_true, decide_false, Bool.true_and,
          Bool.false_and, Bool.false_xor, Bool.xor_false, BitVec.getLsbD_xor]
        generalize p01.2.getLsbD (k - 128) = x; generalize p10.2.getLsbD (k - 128) = y; generalize p11.1.getLsbD (k - 128) = z
        cases x <;> cases y <;> cases z <;> rfl
      · have h3 : 64 ≤ k := by omega
        have h4 : 128 ≤ k := by omega
        have h5 : ¬ (k - 64 < 64) := by omega
        have h7 : ¬ (k - 128 < 64) := by omega
        have h8 : 64 ≤ k - 128 := by omega
        have e : p00.2.getLsbD (k - 64) = false := by apply BitVec.getLsbD_of_ge; omega
        have e2 : k - 64 - 64 = k - 128 := by omega
        have e3 : p01.2.getLsbD (k - 128) = false := by apply BitVec.getLsbD_of_ge; omega
        have e4 : p10.2.getLsbD (k - 128) = false := by apply BitVec.getLsbD_of_ge; omega
        have e5 : p11.1.getLsbD (k - 128) = false := by apply BitVec.getLsbD_of_ge; omega
        have e6 : k - 128 - 64 = k - 192 := by omega
        simp only [h1, h2, h3, h4, h5, h7, h8, e, e2, e3, e4, e5, e6, if_false, decide_true,
          Bool.true_and, Bool.false_xor, Bool.xor_false, BitVec.getLsbD_xor]


theorem coef_lt (l : Label) (j : Nat) (h : j < 128) : coef l j = labelBit l j := by simp [coef, h]

theorem coef_xor (a b : Label) (j : Nat) : coef (a ^^^ b) j = (coef a j ^^ coef b j) := by
  unfold coef
  rw [labelBit_xor]
  cases decide (j < 128) <;> rfl

theorem coef_zero (j : Nat) : coef 0#128 j = false := by simp [coef]

theorem c256_pxor (p q : P) (k : Nat) : c256 (pxor p q) k = (c256 p k ^^ c256 q k) := by
  unfold c256 pxor
  split <;> simp [coef_xor]

theorem c256_pzero (k : Nat) : c256 pzero k = false := by
  unfold c256 pzero
  split <;> simp [coef_zero]

theorem P_ext (p q : P) (h : ∀ k, k < 256 → c256 p k = c256 q k) : p = q := by
  apply Prod.ext
  · apply label_ext
    intro j hj
    have := h j (by omega)
    simpa [c256, hj, coef_lt] using this
  · apply label_ext
    intro j hj
    have := h (128 + j) (by omega)
    have e : ¬ (128 + j < 128) := by omega
    simpa [c256, e, hj, coef_lt] using this

theorem conv_xor_left (N : Nat) (a a' b : Nat → Bool) (k : Nat) :
    conv N (fun j => a j ^^ a' j) b k = (conv N a b k ^^ conv N a' b k) := by
  unfold conv
  rw [← xsum_xor]
  apply xsum_congr
  intro i _
  simp only []
  generalize b i = x; generalize decide (i ≤ k) = y; generalize a (k - i) = z; generalize a' (k - i) = w
  cases x <;> cases y <;> cases z <;> cases w <;> rfl

theorem conv_xor_right (N : Nat) (a b b' : Nat → Bool) (k : Nat) :
    conv N a (fun j => b j ^^ b' j) k = (conv N a b k ^^ conv N a b' k) := by
  unfold conv
  rw [← xsum_xor]
  apply xsum_congr
  intro i _
  simp only []
  generalize b i = x; generalize decide (i ≤ k) = y; generalize a (k - i) = z; generalize b' i = w
  cases x <;> cases y <;> cases z <;> cases w <;> rfl

/-- `clmul_bilinear`, first argument. -/
theorem mul128_xor_left (a a' b : Label) : mul128 (a ^^^ a') b = pxor (mul128 a b) (mul128 a' b) := by
  apply P_ext
  intro k _
  unfold mul128
  rw [c256_pxor, c256_mul128Generic, c256_mul128Generic, c256_mul128Generic, ← conv_xor_left]
  congr 1
  funext j
  exact coef_xor a a' j

/-- `clmul_bilinear`, second argument. -/
theorem mul128_xor_right (a b b' : Label) : mul128 a (b ^^^ b') = pxor (mul128 a b) (mul128 a b') := by
  apply P_ext
  intro k _
  unfold mul128
  rw [c256_pxor, c256_mul128Generic, c256_mul128Generic, c256_mul128Generic, ← conv_xor_right]
  congr 1
  funext j
  exact coef_xor b b' j

theorem mul128_zero_left (b : Label) : mul128 0#128 b = pzero := by
  apply P_ext
  intro k _
  unfold mul128
  rw [c256_mul128Generic, c256_pzero]
  unfold conv
  apply xsum_false
  intro i _
  simp [coef_zero]

theorem mul128_zero_right (a : Label) : mul128 a 0#128 = pzero := by
  apply P_ext
  intro k _
  unfold mul128
  rw [c256_mul128Generic, c256_pzero]
  unfold conv
  apply xsum_false
  intro i _
  simp [coef_zero]

/-- A non-empty finite set of indices has a least element. -/
theorem exists_lowest (f : Nat → Bool) : ∀ N, (∃ j, j < N ∧ f j = true) →
    ∃ j0, j0 < N ∧ f j0 = true ∧ ∀ j, j < j0 → f j = false := by
  intro N
  induction N with
  | zero => rintro ⟨j, hj, _⟩; omega
  | succ N ih =>
    rintro ⟨j, hj, hf⟩
    by_cases h : ∃ j, j < N ∧ f j = true
    · obtain ⟨j0, h1, h2, h3⟩ := ih h
      exact ⟨j0, by omega, h2, h3⟩
    · have hjN : j = N := by
        by_cases e : j = N
        · exact e
        · exact absurd ⟨j, by omega, hf⟩ h
      subst hjN
      refine ⟨j, by omega, hf, ?_⟩
      intro i hi
      cases hfi : f i
      · rfl
      · exact absurd ⟨i, hi, hfi⟩ h

theorem exists_coef_of_ne_zero (a : Label) (h : a ≠ 0#128) : ∃ j, j < 128 ∧ coef a j = true := by
  apply Classical.byContradiction
  intro hn
  apply h
  apply label_ext
  intro j hj
  rw [labelBit_zero]
  cases hc : labelBit a j
  · rfl
  · exact absurd ⟨j, hj, by rw [coef_lt _ _ hj]; exact hc⟩ hn

/-- `clmul_no_zero_div`: the coefficient at the sum of the lowest set positions
of the operands is 1. -/
theorem mul128_ne_zero (a b : Label) (ha : a ≠ 0#128) (hb : b ≠ 0#128) : mul128 a b ≠ pzero := by
  obtain ⟨i0, hi0, hai, hal⟩ := exists_lowest (coef a) 128 (exists_coef_of_ne_zero a ha)
  obtain ⟨j0, hj0, hbj, hbl⟩ := exists_lowest (coef b) 128 (exists_coef_of_ne_zero b hb)
  intro h
  have hc : c256 (mul128 a b) (i0 + j0) = true := by
    unfold mul128
    rw [c256_mul128Generic]
    unfold conv
    rw [xsum_single _ _ j0 hj0]
    · have e : i0 + j0 - j0 = i0 := by omega
      simp [hbj, e, hai]
    · intro i hi hne
      by_cases hlt : i < j0
      · simp [hbl i hlt]
      · by_cases hik : i ≤ i0 + j0
        · have : i0 + j0 - i < i0 := by omega
          simp [hal _ this]
        · simp [hik]
  rw [h, c256_pzero] at hc
  exact Bool.false_ne_true hc


/-! ### The Karatsuba form used by the CLMUL assembly -/

def wxor (p q : W64 × W64) : W64 × W64 := (p.1 ^^^ q.1, p.2 ^^^ q.2)

theorem c64_wxor (p q : W64 × W64) (k : Nat) : c64 (wxor p q) k = (c64 p k ^^ c64 q k) := by
  unfold c64 wxor
  split <;> simp

theorem W_ext (p q : W64 × W64) (h : ∀ k, k < 128 → c64 p k = c64 q k) : p = q := by
  apply Prod.ext
  · apply BitVec.eq_of_getLsbD_eq
    intro i hi
    have := h i (by omega)
    simpa [c64, hi] using this
  · apply BitVec.eq_of_getLsbD_eq
    intro i hi
    have := h (64 + i) (by omega)
    have e : ¬ (64 + i < 64) := by omega
    simpa [c64, e] using this

theorem clmul64_xor_left (a a' b : W64) : clmul64 (a ^^^ a') b = wxor (clmul64 a b) (clmul64 a' b) := by
  apply W_ext
  intro k _
  rw [c64_wxor, c64_clmul64, c64_clmul64, c64_clmul64, ← conv_xor_left]
  congr 1
  funext j
  simp

theorem clmul64_xor_right (a b b' : W64) : clmul64 a (b ^^^ b') = wxor (clmul64 a b) (clmul64 a b') := by
  apply W_ext
  intro k _
  rw [c64_wxor, c64_clmul64, c64_clmul64, c64_clmul64, ← conv_xor_right]
  congr 1
  funext j
  simp

/-- The three-multiplication algorithm of mul128_amd64.s computes `mul128Generic`. -/
theorem mul128Karatsuba_eq (a b : Label) : mul128Karatsuba a b = mul128Generic a b := by
  unfold mul128Karatsuba mul128Generic
  simp only [clmul64_xor_left, clmul64_xor_right, wxor]
  generalize clmul64 (d0 a) (d0 b) = p00
  generalize clmul64 (d0 a) (d1 b) = p01
  generalize clmul64 (d1 a) (d0 b) = p10
  generalize clmul64 (d1 a) (d1 b) = p11
  have e1 : p00.1 ^^^ p10.1 ^^^ (p01.1 ^^^ p11.1) ^^^ p00.1 ^^^ p11.1 = p01.1 ^^^ p10.1 := by grind
  have e2 : p11.1 ^^^ (p00.2 ^^^ p10.2 ^^^ (p01.2 ^^^ p11.2) ^^^ p00.2 ^^^ p11.2) = p01.2 ^^^ p10.2 ^^^ p11.1 := by grind
  rw [e1, e2]


/-! ### XOR algebra of pairs and indexed sums -/

theorem pxor_assoc (a b c : P) : pxor (pxor a b) c = pxor a (pxor b c) := by
  simp [pxor, BitVec.xor_assoc]

theorem pxor_comm (a b : P) : pxor a b = pxor b a := by
  simp [pxor, BitVec.xor_comm]

@[simp] theorem pxor_self (a : P) : pxor a a = pzero := by simp [pxor, pzero]
@[simp] theorem pxor_zero (a : P) : pxor a pzero = a := by simp [pxor, pzero]
@[simp] theorem zero_pxor (a : P) : pxor pzero a = a := by simp [pxor, pzero]

instance : Std.Associative pxor := ⟨pxor_assoc⟩
instance : Std.Commutative pxor := ⟨pxor_comm⟩

theorem pxor_eq_zero_iff (a b : P) : pxor a b = pzero ↔ a = b := by
  constructor
  · intro h
    have h1 : a.1 ^^^ b.1 = 0#128 := congrArg Prod.fst h
    have h2 : a.2 ^^^ b.2 = 0#128 := congrArg Prod.snd h
    exact Prod.ext (BitVec.xor_eq_zero_iff.mp h1) (BitVec.xor_eq_zero_iff.mp h2)
  · rintro rfl; simp

theorem pxor_left_cancel (a b c : P) : pxor a b = pxor a c ↔ b = c := by
  constructor
  · intro h
    have := congrArg (pxor a) h
    rw [← pxor_assoc, ← pxor_assoc, pxor_self, zero_pxor, zero_pxor] at this
    exact this
  · rintro rfl; rfl

theorem psum_congr (n : Nat) (f g : Nat → P) (h : ∀ i, i < n → f i = g i) : psum n f = psum n g := by
  induction n with
  | zero => rfl
  | succ n ih => simp only [psum]; rw [ih (fun i hi => h i (by omega)), h n (by omega)]

theorem psum_zero (n : Nat) (f : Nat → P) (h : ∀ i, i < n → f i = pzero) : psum n f = pzero := by
  induction n with
  | zero => rfl
  | succ n ih => simp only [psum]; rw [ih (fun i hi => h i (by omega)), h n (by omega)]; simp

theorem psum_pxor (n : Nat) (f g : Nat → P) : psum n (fun i => pxor (f i) (g i)) = pxor (psum n f) (psum n g) := by
  induction n with
  | zero => simp [psum]
  | succ n ih => simp only [psum, ih]; ac_rfl

theorem psum_add (n m : Nat) (f : Nat → P) : psum (n + m) f = pxor (psum n f) (psum m fun i => f (n + i)) := by
  induction m with
  | zero => simp [psum]
  | succ m ih => rw [← Nat.add_assoc]; simp only [psum, ih, pxor_assoc]

theorem psum_single (n : Nat) (f : Nat → P) (i0 : Nat) (h0 : i0 < n) (h : ∀ i, i < n → i ≠ i0 → f i = pzero) :
    psum n f = f i0 := by
  induction n with
  | zero => omega
  | succ n ih =>
    simp only [psum]
    by_cases he : i0 = n
    · subst he
      rw [psum_zero _ _ (fun i hi => h i (by omega) (by omega))]; simp
    · rw [ih (by omega) (fun i hi hne => h i (by omega) hne), h n (by omega) (fun e => he e.symm)]; simp

theorem lsum_congr (n : Nat) (f g : Nat → Label) (h : ∀ i, i < n → f i = g i) : lsum n f = lsum n g := by
  induction n with
  | zero => rfl
  | succ n ih => simp only [lsum]; rw [ih (fun i hi => h i (by omega)), h n (by omega)]

theorem lsum_add (n m : Nat) (f : Nat → Label) : lsum (n + m) f = lsum n f ^^^ lsum m fun i => f (n + i) := by
  induction m with
  | zero => simp [lsum]
  | succ m ih => rw [← Nat.add_assoc]; simp only [lsum, ih, BitVec.xor_assoc]

/-- `(Σ_i c_i)·Δ = Σ_i c_i·Δ`. -/
theorem mul128_lsum_left (n : Nat) (c : Nat → Label) (d : Label) :
    mul128 (lsum n c) d = psum n fun i => mul128 (c i) d := by
  induction n with
  | zero => simp [lsum, psum, mul128_zero_left]
  | succ n ih => simp only [lsum, psum, mul128_xor_left, ih]

end Mpc.Clmul

/-
Helper lemmas for the integer input layer of C10 (Model/GmwInt.lean):
`big.Int.Xor` followed by `big.Int.Bit` on every integer is the bitwise XOR of
two's-complement bits; the integer-input run IS the natural-number run on the
residues `x mod 2^Bits`.
-/
import MpcVerif.Model.GmwInt
import MpcVerif.Proofs.Proto2Int
import MpcVerif.Proofs.GmwHist

namespace Mpc.Gmw

/-- `Xor(a, b).Bit(i) = a.Bit(i) xor b.Bit(i)` for ALL integers. -/
theorem bigIntBit_xor (a b : Int) (i : Nat) :
    bigIntBit (bigIntXor a b) i = (bigIntBit a i != bigIntBit b i) := by
  cases a <;> cases b <;> simp only [bigIntXor, bigIntBit, Nat.testBit_xor] <;>
    (rename_i m n; cases m.testBit i <;> cases n.testBit i <;> rfl)

theorem foldl_congr_mem {α β : Type} (f g : β → α → β) (l : List α) (h : ∀ a ∈ l, ∀ b, f b a = g b a) (b : β) :
    l.foldl f b = l.foldl g b := by
  induction l generalizing b with
  | nil => rfl
  | cons a l ih =>
    simp only [List.foldl_cons]
    rw [h a List.mem_cons_self b]
    exact ih (fun a' ha' => h a' (List.mem_cons_of_mem _ ha')) _

/-- bit `i < w` of the residue `v mod 2^w` is `v.Bit(i)` -/
theorem testBit_residue (w : Nat) (v : Int) (i : Nat) (hi : i < w) : (residue w v).testBit i = bigIntBit v i := by
  have h := bitsOfInt_eq_natBits w v
  simp only [bitsOfInt, natBits] at h
  exact ((List.map_inj_left.mp h) i (List.mem_range.mpr hi)).symm

theorem natBits_residue (w : Nat) (v : Int) : natBits w (residue w v) = bitsOfInt w v :=
  (bitsOfInt_eq_natBits w v).symm

/-- What `setWires(self, shared.Xor(shared, input))` stores is what the
natural-number model stores for the residue of `input`. -/
theorem setWiresInt_xor (w : Store Bool) (ofs bits s : Nat) (v : Int) :
    setWiresInt w ofs bits (bigIntXor (Int.ofNat s) v) = setWires w ofs bits (s ^^^ residue bits v) := by
  unfold setWiresInt setWires
  apply foldl_congr_mem
  intro i hi w'
  have hi' := List.mem_range.mp hi
  rw [bigIntBit_xor, Nat.testBit_xor, testBit_residue bits v i hi']
  rfl

theorem shareInputsFromInt_eq (w0 : Store Bool) (sizes : List Nat) (x : Nat → Int) (rnd : Nat → Nat → Nat) (p : Nat) :
    shareInputsFromInt w0 sizes x rnd p = shareInputsFrom w0 sizes (natInputs sizes x) rnd p := by
  simp only [shareInputsFromInt, shareInputsFrom, natInputs]
  rw [setWiresInt_xor]

/-- The integer-input call is the natural-number call on the residues. -/
theorem runFromInt_eq (c : Circuit) (sizes : List Nat) (x : Nat → Int) (rnd : Nat → Nat → Nat) (ps : List Party) :
    runFromInt c sizes x rnd ps = runFrom c sizes (natInputs sizes x) rnd ps := by
  simp only [runFromInt, runFrom, shareInputsFromInt_eq]
  rfl

theorem runInt_eq (c : Circuit) (sizes : List Nat) (x : Nat → Int) (rnd : Nat → Nat → Nat) (pools : Nat → Triples) :
    runInt c sizes x rnd pools = run c sizes (natInputs sizes x) rnd pools := by
  rw [runInt, runFromInt_eq, run_eq_runFrom]

theorem runHistInt_eq : ∀ (ks : List CallInt) (ps : List Party),
    runHistInt ks ps = runHist (ks.map CallInt.toCall) ps := by
  intro ks
  induction ks with
  | nil => intro ps; rfl
  | cons k ks ih =>
    intro ps
    simp only [runHistInt, List.map_cons, runHist, CallInt.toCall, runFromInt_eq]
    cases h : runFrom k.c k.sizes (natInputs k.sizes k.x) k.rnd ps with
    | ok ps' outs => simp only [ih ps']
    | unsupported => rfl
    | blocked => rfl

theorem flatMap_congr_mem {α β : Type} (f g : α → List β) (l : List α) (h : ∀ a ∈ l, f a = g a) :
    l.flatMap f = l.flatMap g := by
  induction l with
  | nil => rfl
  | cons a l ih =>
    simp only [List.flatMap_cons]
    rw [h a List.mem_cons_self, ih (fun a' ha' => h a' (List.mem_cons_of_mem _ ha'))]

/-- The circuit input bits of the residues are the `Bit`s of the integers. -/
theorem inputBits_natInputs (sizes : List Nat) (x : Nat → Int) :
    inputBits sizes (natInputs sizes x) = inputBitsInt sizes x := by
  unfold inputBits inputBitsInt
  apply flatMap_congr_mem
  intro p _
  exact natBits_residue (sizes.getD p 0) (x p)

/-- Reading the value `IOArg.Parse` packs for an argument gives the members'
bits, member after member. -/
theorem bitsOfInt_partyValue (a : ArgVals) : bitsOfInt (argWidth a) (partyValue a) = encodeArg a := by
  match a with
  | [] => rfl
  | [m] => simp [partyValue, encodeArg, argWidth]
  | m :: m' :: a' =>
    have : partyValue (m :: m' :: a') = Int.ofNat (packArg (m :: m' :: a')) := rfl
    rw [this]
    exact bitsOfInt_packArg _

theorem argSizes_length (n : Nat) (args : Nat → ArgVals) : (argSizes n args).length = n := by simp [argSizes]

theorem argSizes_getD (n : Nat) (args : Nat → ArgVals) (p : Nat) (hp : p < n) :
    (argSizes n args).getD p 0 = argWidth (args p) := by
  simp [argSizes, List.getD, List.getElem?_map, List.getElem?_range hp]

/-- The input bits of a run given member by member: the flattened members of
all parties, each read with `Bit` - the wire assignment of `Circuit.Compute`. -/
theorem inputBitsInt_args (n : Nat) (args : Nat → ArgVals) :
    inputBitsInt (argSizes n args) (fun p => partyValue (args p)) = encodeArg ((List.range n).flatMap args) := by
  unfold inputBitsInt
  rw [argSizes_length]
  have h : ∀ p ∈ List.range n, bitsOfInt ((argSizes n args).getD p 0) (partyValue (args p)) = encodeArg (args p) := by
    intro p hp
    rw [argSizes_getD n args p (List.mem_range.mp hp), bitsOfInt_partyValue]
  rw [flatMap_congr_mem _ _ _ h]
  generalize List.range n = l
  induction l with
  | nil => rfl
  | cons a l ih => rw [List.flatMap_cons, List.flatMap_cons, encodeArg_append, ih]

end Mpc.Gmw

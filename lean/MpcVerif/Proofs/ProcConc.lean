/-
C08 — lemmas about concurrent history elements (Model/ProcConc.lean): the frame
lemma over schedules, the pieces of the step kinds of the code as it is, the
scratch-cell model.
-/
import MpcVerif.Model.ProcConc

namespace Mpc.PSt

/-! ### Frame: micro-steps that leave what they read unchanged -/

section frame
variable {σ ρ ο κ : Type} (micro : Micro σ ρ ο) (reads : σ → κ)
  (hread : ∀ r s s', reads s = reads s' → (micro r s).1 = (micro r s').1)
  (hkeep : ∀ r s, reads (micro r s).2 = reads s)
include hread hkeep

theorem runTodo_frame : ∀ (l : List ρ) (s s0 : σ), reads s = reads s0 →
    (runTodo micro l s).1 = (runTodo micro l s0).1 ∧ reads (runTodo micro l s).2 = reads s0
  | [], s, s0, h => ⟨rfl, h⟩
  | r :: rs, s, s0, h => by
    have h1 : reads (micro r s).2 = reads (micro r s0).2 := by rw [hkeep, hkeep, h]
    have ih := runTodo_frame rs (micro r s).2 (micro r s0).2 h1
    simp only [runTodo]
    refine ⟨by rw [hread r s s0 h, ih.1], ?_⟩
    rw [ih.2, hkeep]

/-- The expected final outputs of a running task, with respect to the state `s0`
the element started in. -/
def expect (s0 : σ) (t : Task ρ ο) : List ο := t.done ++ (runTodo micro t.todo s0).1

theorem drain_frame : ∀ (ts : List (Task ρ ο)) (s s0 : σ), reads s = reads s0 →
    (drain micro ts s).1 = ts.map (expect micro s0) ∧ reads (drain micro ts s).2 = reads s0
  | [], _, _, h => ⟨rfl, h⟩
  | t :: ts, s, s0, h => by
    have a := runTodo_frame micro reads hread hkeep t.todo s s0 h
    have ih := drain_frame ts (runTodo micro t.todo s).2 s0 a.2
    simp only [drain, List.map_cons, expect]
    exact ⟨by rw [a.1, ih.1], ih.2⟩

theorem stepTask_frame : ∀ (i : Nat) (ts : List (Task ρ ο)) (s s0 : σ), reads s = reads s0 →
    (stepTask micro i ts s).1.map (expect micro s0) = ts.map (expect micro s0) ∧
    reads (stepTask micro i ts s).2 = reads s0
  | i, [], s, _, h => by
    have e : stepTask micro i ([] : List (Task ρ ο)) s = ([], s) := by cases i <;> rfl
    rw [e]; exact ⟨rfl, h⟩
  | 0, t :: ts, s, s0, h => by
    obtain ⟨todo, done⟩ := t
    cases todo with
    | nil => exact ⟨rfl, h⟩
    | cons r rest =>
      simp only [stepTask, List.map_cons, expect, runTodo]
      have h1 : reads (micro r s0).2 = reads s0 := hkeep r s0
      have a := runTodo_frame micro reads hread hkeep rest (micro r s0).2 s0 h1
      refine ⟨?_, by rw [hkeep, h]⟩
      rw [hread r s s0 h, a.1]
      simp
  | i + 1, t :: ts, s, s0, h => by
    have ih := stepTask_frame i ts s s0 h
    simp only [stepTask, List.map_cons]
    exact ⟨by rw [ih.1], ih.2⟩

theorem runSched_frame : ∀ (sched : List Nat) (ts : List (Task ρ ο)) (s s0 : σ), reads s = reads s0 →
    (runSched micro sched ts s).1 = ts.map (expect micro s0) ∧ reads (runSched micro sched ts s).2 = reads s0
  | [], ts, s, s0, h => drain_frame micro reads hread hkeep ts s s0 h
  | i :: sched, ts, s, s0, h => by
    have a := stepTask_frame micro reads hread hkeep i ts s s0 h
    have ih := runSched_frame sched (stepTask micro i ts s).1 (stepTask micro i ts s).2 s0 a.2
    simp only [runSched]
    exact ⟨by rw [ih.1, a.1], ih.2⟩

/-- FRAME: if every micro-step leaves the component of the process state that
micro-steps read unchanged, then under EVERY schedule every task of a
concurrent element produces its solo outputs, and the component is unchanged. -/
theorem concurrent_frame (sched : List Nat) (tasks : List (List ρ)) (s : σ) :
    (concurrent micro sched tasks s).1 = tasks.map (fun t => solo micro t s) ∧
    reads (concurrent micro sched tasks s).2 = reads s := by
  have a := runSched_frame micro reads hread hkeep sched (tasks.map fun t => ⟨t, []⟩) s s rfl
  refine ⟨?_, a.2⟩
  simp only [concurrent]
  rw [a.1, List.map_map]
  apply List.map_congr_left
  intro t _
  simp [expect, solo]

end frame

/-! ### The code as it is -/

theorem runTodo_microNow {σ : Type} : ∀ (l : List MReq) (s : σ),
    runTodo microNow l s = (l.map fun m => (microNow m s).1, s)
  | [], _ => rfl
  | m :: ms, s => by
    have hs : (microNow m s).2 = s := by cases m <;> rfl
    simp only [runTodo, hs, runTodo_microNow ms s, List.map_cons]

theorem pieces_folds {σ : Type} (l : List FoldReq) (s : σ) :
    (l.map MReq.fold).map (fun m => (microNow m s).1) = l.map fun f => Piece.const (foldNow f) := by
  simp [List.map_map, Function.comp_def, microNow]

theorem filterMap_const_folds : ∀ (l : List FoldReq),
    (l.map fun f => Piece.const (foldNow f)).filterMap Piece.const? = l.map foldNow
  | [] => rfl
  | f :: t => by simp [Piece.const?, filterMap_const_folds t]

theorem filterMap_ids_folds : ∀ (l : List FoldReq),
    (l.map fun f => Piece.const (foldNow f)).filterMap Piece.ids? = []
  | [] => rfl
  | f :: t => by simp [Piece.ids?]

theorem filterMap_inw_folds : ∀ (l : List FoldReq),
    (l.map fun f => Piece.const (foldNow f)).filterMap Piece.inw? = []
  | [] => rfl
  | f :: t => by simp [Piece.inw?]

theorem filterMap_vals_folds : ∀ (l : List FoldReq),
    (l.map fun f => Piece.const (foldNow f)).filterMap Piece.vals? = []
  | [] => rfl
  | f :: t => by simp [Piece.vals?]

theorem microNow_wires {σ : Type} (a : List Nat) (s : σ) :
    (microNow (.wires a) s).1 = .wires (compileAlloc a WAlloc.empty).1.1 (compileAlloc a WAlloc.empty).1.2 := rfl

theorem microNow_run {σ : Type} (p : Prog) (ins : List Nat) (s : σ) :
    (microNow (.run p ins) s).1 = .vals (runVals p ins) := rfl

/-- A step's pieces, produced alone, are the output of `stepNowK`. -/
theorem assembleK_solo {σ π : Type} (r : Req π) (s : σ) :
    assembleK (solo microNow (microsK r) s) = (stepNowK r s).1 := by
  simp only [solo, runTodo_microNow, stepNowK, stepOn, microsK]
  cases hk : r.kind <;>
    simp only [List.map_append, pieces_folds, List.map_cons, List.map_nil, microNow_wires, microNow_run] <;>
    simp only [assembleK, List.filterMap_append, filterMap_const_folds,
      filterMap_ids_folds, filterMap_inw_folds, filterMap_vals_folds,
      List.filterMap_cons, List.filterMap_nil, Piece.const?, Piece.ids?, Piece.inw?, Piece.vals?,
      compileOut, runOut, Prog.src, List.nil_append, List.append_nil, List.flatten_cons, List.flatten_nil,
      List.head?_cons, List.head?_nil]

/-! ### The scratch cell -/

/-- A task alone names every constant by its own value, whatever the buffer held. -/
theorem runTodo_nameTask : ∀ (vs : List Nat) (cell : Nat),
    namesOf (runTodo microScratch (nameTask vs) cell).1 = vs
  | [], _ => rfl
  | v :: vs, cell => by
    have ih := runTodo_nameTask vs v
    simp only [nameTask, runTodo, microScratch, namesOf, List.filterMap_cons, id] at ih ⊢
    rw [ih]

theorem drain_nameTasks : ∀ (tasks : List (List Nat)) (cell : Nat),
    (drain microScratch (tasks.map fun t => (⟨nameTask t, []⟩ : Task ScReq (Option Nat))) cell).1.map namesOf = tasks
  | [], _ => rfl
  | t :: ts, cell => by
    simp only [List.map_cons, drain, List.nil_append]
    rw [runTodo_nameTask t cell, drain_nameTasks ts]

end Mpc.PSt

/-
Expressions: the code `lowerE` emits computes the interpreter's value
(`lowerE_sound`), with the value-level agreement of every instruction of the
fragment (`bin_sound`, `shift_sound`, `cast_evalOp`, ...).
-/
import MpcVerif.Proofs.MpclSsaBase
namespace Mpc.Mpcl.Ssa
open Mpc.Mpcl

theorem evalOp_maxw (sop : SOp) (a b wa wb w ow : Nat) (h : max wa wb = w)
    (h1 : sop ≠ .concat) (h2 : sop ≠ .srshift) :
    evalOp sop [(a, wa), (b, wb)] ow = evalOp sop [(a, w), (b, w)] ow := by
  cases sop <;> simp_all [evalOp]

theorem and_lt {a b w : Nat} (ha : a < 2 ^ w) : a &&& b < 2 ^ w := Nat.lt_of_le_of_lt Nat.and_le_left ha

theorem ite01_lt (c : Prop) [Decidable c] : (if c then 1 else 0) < 2 ^ 1 := by split <;> decide
theorem ite10_lt (c : Prop) [Decidable c] : (if c then 0 else 1) < 2 ^ 1 := by split <;> decide
theorem decode_ite01 (c : Prop) [Decidable c] : Ty.decode .bool (if c then 1 else 0) = .bool (decide c) := by
  split <;> simp_all [Ty.decode]
theorem decode_ite10 (c : Prop) [Decidable c] : Ty.decode .bool (if c then 0 else 1) = .bool (!decide c) := by
  split <;> simp_all [Ty.decode]

theorem nat_beq_decide (a b : Nat) : (a == b) = decide (a = b) := by
  rw [Bool.eq_iff_iff]; simp
theorem nat_bne_decide (a b : Nat) : (a != b) = !decide (a = b) := by
  simp [bne, nat_beq_decide]

theorem bin_sound_uint (op : BinOp) (w a b : Nat) (ha : a < 2 ^ w) (hb : b < 2 ^ w) (sop : SOp) (tr : Ty)
    (wr r : Nat) (h : lowerBin op (.uint w) = some (sop, tr)) (hwr : sbits tr = some wr)
    (hev : evalOp sop [(a, w), (b, w)] wr = some r) :
    r < 2 ^ wr ∧ binop op (.num false w a) (.num false w b) = some (tr.decode r) := by
  have hpos := two_pow_pos w
  cases op <;> simp only [lowerBin, Option.some.injEq, Prod.mk.injEq, reduceCtorEq] at h <;>
    obtain ⟨h1, h2⟩ := h <;> subst h1 <;> subst h2 <;> simp only [sbits, Option.some.injEq] at hwr <;> subst hwr <;>
    simp only [evalOp, Option.some.injEq] at hev
  case add => subst hev; exact ⟨Nat.mod_lt _ hpos, by simp [binop, arith, wrap, Ty.decode]⟩
  case sub => subst hev; exact ⟨Nat.mod_lt _ hpos, by simp [binop, arith, wrap, Ty.decode, Nat.mod_eq_of_lt hb]⟩
  case mul => subst hev; exact ⟨Nat.mod_lt _ hpos, by simp [binop, arith, wrap, Ty.decode]⟩
  case div =>
    split at hev
    · cases hev
    · rename_i hb0
      simp only [Option.some.injEq] at hev; subst hev
      have hl : a / b < 2 ^ w := Nat.lt_of_le_of_lt (Nat.div_le_self _ _) ha
      exact ⟨Nat.mod_lt _ hpos, by simp [binop, arith, hb0, Ty.decode, Nat.mod_eq_of_lt hl]⟩
  case mod =>
    split at hev
    · cases hev
    · rename_i hb0
      simp only [Option.some.injEq] at hev; subst hev
      have hl : a % b < 2 ^ w := Nat.lt_of_le_of_lt (Nat.mod_le _ _) ha
      exact ⟨Nat.mod_lt _ hpos, by simp [binop, arith, hb0, Ty.decode, Nat.mod_eq_of_lt hl]⟩
  case band =>
    subst hev
    have hl : a &&& b < 2 ^ w := and_lt ha
    exact ⟨Nat.mod_lt _ hpos, by simp [binop, arith, Ty.decode, Nat.mod_eq_of_lt hl]⟩
  case bor =>
    subst hev
    have hl : a ||| b < 2 ^ w := Nat.or_lt_two_pow ha hb
    exact ⟨Nat.mod_lt _ hpos, by simp [binop, arith, Ty.decode, Nat.mod_eq_of_lt hl]⟩
  case bxor =>
    subst hev
    have hl : a ^^^ b < 2 ^ w := Nat.xor_lt_two_pow ha hb
    exact ⟨Nat.mod_lt _ hpos, by simp [binop, arith, Ty.decode, Nat.mod_eq_of_lt hl]⟩
  case bclr =>
    subst hev
    have hl : a &&& (2 ^ w - 1 - b) < 2 ^ w := and_lt ha
    exact ⟨Nat.mod_lt _ hpos, by simp [binop, arith, Ty.decode, Nat.mod_eq_of_lt hl]⟩
  case eq => subst hev; exact ⟨ite01_lt _, by simp [binop, arith, decode_ite01, nat_beq_decide]⟩
  case ne => subst hev; exact ⟨ite10_lt _, by simp [binop, arith, decode_ite10, nat_bne_decide]⟩
  case lt => subst hev; exact ⟨ite01_lt _, by simp [binop, arith, decode_ite01]⟩
  case le => subst hev; exact ⟨ite01_lt _, by simp [binop, arith, decode_ite01]⟩
  case gt => subst hev; exact ⟨ite01_lt _, by simp [binop, arith, decode_ite01]⟩
  case ge => subst hev; exact ⟨ite01_lt _, by simp [binop, arith, decode_ite01]⟩

theorem bin_sound_int (op : BinOp) (w a b : Nat) (ha : a < 2 ^ w) (hb : b < 2 ^ w) (sop : SOp) (tr : Ty)
    (wr r : Nat) (h : lowerBin op (.int w) = some (sop, tr)) (hwr : sbits tr = some wr)
    (hev : evalOp sop [(a, w), (b, w)] wr = some r) :
    r < 2 ^ wr ∧ binop op (.num true w a) (.num true w b) = some (tr.decode r) := by
  have hpos := two_pow_pos w
  cases op <;> simp only [lowerBin, Option.some.injEq, Prod.mk.injEq, reduceCtorEq] at h <;>
    obtain ⟨h1, h2⟩ := h <;> subst h1 <;> subst h2 <;> simp only [sbits, Option.some.injEq] at hwr <;> subst hwr <;>
    simp only [evalOp, Option.some.injEq, Nat.max_self] at hev
  case add => subst hev; exact ⟨Nat.mod_lt _ hpos, by simp [binop, arith, wrap, Ty.decode]⟩
  case sub => subst hev; exact ⟨Nat.mod_lt _ hpos, by simp [binop, arith, wrap, Ty.decode, Nat.mod_eq_of_lt hb]⟩
  case mul => subst hev; exact ⟨Nat.mod_lt _ hpos, by simp [binop, arith, wrap, Ty.decode]⟩
  case div =>
    split at hev
    · cases hev
    · rename_i hb0
      simp only [Option.some.injEq] at hev; subst hev
      have hl := ofInt_lt w ((toInt w a).tdiv (toInt w b))
      exact ⟨Nat.mod_lt _ hpos, by simp [binop, arith, hb0, Ty.decode, Nat.mod_eq_of_lt hl]⟩
  case mod =>
    split at hev
    · cases hev
    · rename_i hb0
      simp only [Option.some.injEq] at hev; subst hev
      exact ⟨Nat.mod_lt _ hpos, by simp [binop, arith, hb0, Ty.decode, wrap]⟩
  case band =>
    subst hev
    have hl : a &&& b < 2 ^ w := and_lt ha
    exact ⟨Nat.mod_lt _ hpos, by simp [binop, arith, Ty.decode, Nat.mod_eq_of_lt hl]⟩
  case bor =>
    subst hev
    have hl : a ||| b < 2 ^ w := Nat.or_lt_two_pow ha hb
    exact ⟨Nat.mod_lt _ hpos, by simp [binop, arith, Ty.decode, Nat.mod_eq_of_lt hl]⟩
  case bxor =>
    subst hev
    have hl : a ^^^ b < 2 ^ w := Nat.xor_lt_two_pow ha hb
    exact ⟨Nat.mod_lt _ hpos, by simp [binop, arith, Ty.decode, Nat.mod_eq_of_lt hl]⟩
  case bclr =>
    subst hev
    have hl : a &&& (2 ^ w - 1 - b) < 2 ^ w := and_lt ha
    exact ⟨Nat.mod_lt _ hpos, by simp [binop, arith, Ty.decode, Nat.mod_eq_of_lt hl]⟩
  case eq => subst hev; exact ⟨ite01_lt _, by simp [binop, arith, decode_ite01, nat_beq_decide]⟩
  case ne => subst hev; exact ⟨ite10_lt _, by simp [binop, arith, decode_ite10, nat_bne_decide]⟩
  case lt => subst hev; exact ⟨ite01_lt _, by simp [binop, arith, decode_ite01]⟩
  case le => subst hev; exact ⟨ite01_lt _, by simp [binop, arith, decode_ite01]⟩
  case gt => subst hev; exact ⟨ite01_lt _, by simp [binop, arith, decode_ite01]⟩
  case ge => subst hev; exact ⟨ite01_lt _, by simp [binop, arith, decode_ite01]⟩

theorem bin_sound_bool (op : BinOp) (a b : Nat) (ha : a < 2) (hb : b < 2) (sop : SOp) (tr : Ty)
    (wr r : Nat) (h : lowerBin op .bool = some (sop, tr)) (hwr : sbits tr = some wr)
    (hev : evalOp sop [(a, 1), (b, 1)] wr = some r) :
    r < 2 ^ wr ∧ binE op (Ty.decode .bool a) (some (Ty.decode .bool b)) = some (tr.decode r) := by
  have ha' : a = 0 ∨ a = 1 := by omega
  have hb' : b = 0 ∨ b = 1 := by omega
  cases op <;> simp only [lowerBin, Option.some.injEq, Prod.mk.injEq, reduceCtorEq] at h <;>
    obtain ⟨h1, h2⟩ := h <;> subst h1 <;> subst h2 <;> simp only [sbits, Option.some.injEq] at hwr <;> subst hwr <;>
    simp only [evalOp, Option.some.injEq] at hev <;> subst hev <;>
    rcases ha' with rfl | rfl <;> rcases hb' with rfl | rfl <;> exact ⟨by decide, rfl⟩

/-- `a op b` on two operands of the same scalar type `t` (values `a, b < 2^w`,
operand widths `wa, wb` of which one is `w`): if the instruction is defined, its
result is the interpreter's. -/
theorem bin_sound (op : BinOp) (t : Ty) (w a b wa wb : Nat) (hw : sbits t = some w) (ha : a < 2 ^ w) (hb : b < 2 ^ w)
    (hmax : max wa wb = w) (sop : SOp) (tr : Ty) (wr r : Nat) (h : lowerBin op t = some (sop, tr))
    (hwr : sbits tr = some wr) (hev : evalOp sop [(a, wa), (b, wb)] wr = some r) :
    r < 2 ^ wr ∧ binE op (t.decode a) (some (t.decode b)) = some (tr.decode r) := by
  have hne : sop ≠ .concat ∧ sop ≠ .srshift := by
    cases t <;> cases op <;> simp [lowerBin] at h <;> (obtain ⟨h1, _⟩ := h; subst h1; simp)
  rw [evalOp_maxw sop a b wa wb w wr hmax hne.1 hne.2] at hev
  cases t with
  | bool =>
    simp only [sbits, Option.some.injEq] at hw; subst hw
    exact bin_sound_bool op a b (by simpa using ha) (by simpa using hb) sop tr wr r h hwr hev
  | int w0 =>
    simp only [sbits, Option.some.injEq] at hw; subst hw
    obtain ⟨h1, h2⟩ := bin_sound_int op w0 a b ha hb sop tr wr r h hwr hev
    refine ⟨h1, ?_⟩
    rw [decode_num (t := .int w0) rfl ha, decode_num (t := .int w0) rfl hb]
    cases op <;> simp [lowerBin] at h <;> simpa [binE] using h2
  | uint w0 =>
    simp only [sbits, Option.some.injEq] at hw; subst hw
    obtain ⟨h1, h2⟩ := bin_sound_uint op w0 a b ha hb sop tr wr r h hwr hev
    refine ⟨h1, ?_⟩
    rw [decode_num (t := .uint w0) rfl ha, decode_num (t := .uint w0) rfl hb]
    cases op <;> simp [lowerBin] at h <;> simpa [binE] using h2
  | arr _ _ => simp [sbits] at hw
  | struct _ => simp [sbits] at hw

theorem shift_sound (left s : Bool) (w a k r : Nat) (ha : a < 2 ^ w)
    (hev : evalOp (if left then .lshift else if s then .srshift else .rshift) [(a, w), (k, 0)] w = some r) :
    r < 2 ^ w ∧ shiftVal left (.num s w a) k = some (.num s w r) := by
  have hpos := two_pow_pos w
  cases left with
  | true =>
    simp only [if_true, evalOp, Option.some.injEq] at hev; subst hev
    exact ⟨Nat.mod_lt _ hpos, by simp [shiftVal, wrap]⟩
  | false =>
    cases s with
    | true =>
      simp only [Bool.false_eq_true, if_false, if_true, evalOp, Option.some.injEq, wrapI] at hev; subst hev
      exact ⟨ofInt_lt _ _, by simp [shiftVal]⟩
    | false =>
      simp only [Bool.false_eq_true, if_false, evalOp, Option.some.injEq] at hev; subst hev
      have hl : a >>> k < 2 ^ w := Nat.lt_of_le_of_lt (Nat.shiftRight_le _ _) ha
      exact ⟨Nat.mod_lt _ hpos, by simp [shiftVal, Nat.mod_eq_of_lt hl]⟩

theorem neg_sound (s : Bool) (w a wz z r : Nat) (ha : a < 2 ^ w) (hz : z = 0)
    (hev : evalOp .sub [(z, wz), (a, w)] w = some r) :
    r < 2 ^ w ∧ negVal (.num s w a) = some (.num s w r) := by
  subst hz
  simp only [evalOp, Option.some.injEq] at hev; subst hev
  exact ⟨Nat.mod_lt _ (two_pow_pos w), by simp [negVal, wrap, Nat.mod_eq_of_lt ha]⟩

theorem not_sound (a r : Nat) (ha : a < 2) (hev : evalOp .lnot [(a, 1)] 1 = some r) :
    r < 2 ^ 1 ∧ notVal (Ty.decode .bool a) = some (Ty.decode .bool r) := by
  simp only [evalOp, Option.some.injEq] at hev; subst hev
  have ha' : a = 0 ∨ a = 1 := by omega
  rcases ha' with rfl | rfl <;> exact ⟨by decide, rfl⟩

/-- Value-level agreement of the integer conversions of the fragment. -/
theorem cast_evalOp (s s' : Bool) (w w' a : Nat) (ha : a < 2 ^ w)
    (hx : ¬ (s = true ∧ s' = false ∧ w < w')) :
    ∃ v, v < 2 ^ w' ∧ castNum s w a s' w' = .num s' w' v ∧
      evalOp (if s && s' && decide (w < w') then .smov else .mov) [(a, w)] w' = some v := by
  have hpos : 0 < 2 ^ w' := two_pow_pos w'
  by_cases hle : w' ≤ w
  · have hn : ¬ w < w' := by omega
    exact ⟨a % 2 ^ w', Nat.mod_lt _ hpos, by simp [castNum, hle, wrap], by simp [hn, evalOp]⟩
  · have hlt : w < w' := by omega
    cases s with
    | false =>
      have hv : a < 2 ^ w' := Nat.lt_of_lt_of_le ha (pow_le_of_le (by omega))
      exact ⟨a, hv, by simp [castNum, hle], by simp [evalOp, Nat.mod_eq_of_lt hv]⟩
    | true =>
      cases s' with
      | false => exact absurd ⟨rfl, rfl, hlt⟩ hx
      | true =>
        exact ⟨ofInt w' (toInt w a), ofInt_lt _ _, by simp [castNum, hle], by simp [hlt, evalOp, wrapI]⟩

/-- A non-negative constant keeps its value under conversion. -/
theorem cast_const (s s' : Bool) (w w' a : Nat) (ha : a < 2 ^ (if s then w - 1 else w))
    (ha' : a < 2 ^ (if s' then w' - 1 else w')) : castNum s w a s' w' = .num s' w' a := by
  have h1 : a < 2 ^ w' := Nat.lt_of_lt_of_le ha' (pow_le_of_le (by split <;> omega))
  unfold castNum
  by_cases hle : w' ≤ w
  · simp [hle, wrap, Nat.mod_eq_of_lt h1]
  · simp only [hle, if_false]
    cases s with
    | false => simp
    | true =>
      simp only [if_true] at ha ⊢
      have h2 : 2 * a < 2 ^ w := by
        cases w with
        | zero => simp at ha; subst ha; simp
        | succ n => simp at ha; rw [Nat.pow_succ]; omega
      rw [toInt_small h2, ofInt_natCast h1]

theorem constArg_below (k n : Nat) (s : Bool) (w : Nat) : ArgBelow k (constArg n s w) := by
  unfold constArg
  dsimp only
  split <;> trivial

def ConstOk (t : Ty) (a : Nat) : Prop := ∀ s w, numTy t = some (s, w) → a < 2 ^ (if s then w - 1 else w)

theorem Below.find {k : Nat} {x : String} {id : Nat} {t : Ty} : ∀ {nm : NEnv}, Below k nm →
    NEnv.find nm x = some (.val id t) → id < k
  | [], _, h => by simp [NEnv.find] at h
  | s :: r, hb, h => by
    simp only [NEnv.find] at h
    cases hs : NScope.find s x with
    | some b =>
      simp only [hs, Option.some.injEq] at h
      subst h
      have : ∀ {s : NScope}, BelowS k s → NScope.find s x = some (.val id t) → id < k := by
        intro s
        induction s with
        | nil => intro _ h; simp [NScope.find] at h
        | cons p r ih =>
          obtain ⟨y, c⟩ := p
          intro hb h
          simp only [NScope.find] at h
          by_cases hxy : x = y
          · simp only [hxy, if_true, Option.some.injEq] at h
            subst h
            exact hb (y, .val id t) (by simp)
          · simp only [hxy, if_false] at h
            exact ih (fun p hp => hb p (List.mem_cons_of_mem _ hp)) h
      exact this hb.head hs
    | none =>
      simp only [hs] at h
      exact Below.find hb.tail h

theorem litOk_lt {s : Bool} {w n : Nat} (h : litOk s w n = true) : n < 2 ^ (if s then w - 1 else w) := by
  simp only [litOk, Bool.and_eq_true, decide_eq_true_eq] at h
  exact h.1

theorem lt_of_constOk {s : Bool} {w n : Nat} (h : n < 2 ^ (if s then w - 1 else w)) : n < 2 ^ w :=
  Nat.lt_of_lt_of_le h (pow_le_of_le (by split <;> omega))

/-- What `lowerE` (with fuel `f`) guarantees for the expression `e`. -/
def ESoundAt (P : Prog) (f : Nat) (e : Expr) : Prop :=
  ∀ (nm : NEnv) (next : Nat) (aa : SArg) (t : Ty) (code : List SInstr) (next' : Nat) (env : Env)
    (st st' : Nat → Nat),
    lowerE P f nm e next = some (aa, t, code, next') → Rel st nm env → Below next nm →
    ssaSteps code st = some st' →
    ∃ (wa a fi : Nat), argVal st' aa = (a, wa) ∧ a < 2 ^ wa ∧ wa ≤ t.bits ∧
      (wa = t.bits ∨ aa.isConst = true) ∧ (aa.isConst = true → constVal aa = a ∧ ConstOk t a) ∧
      evalE P fi e env = some (t.decode a) ∧ Frame next st st' ∧ next ≤ next' ∧ NoRet code ∧
      ArgBelow next' aa

/-- Expressions: if the emitted code runs (no division by zero), the
interpreter is defined and the operand carries its value. -/
def ESound (P : Prog) (f : Nat) : Prop := ∀ e, ESoundAt P f e

theorem binE_num (op : BinOp) (s : Bool) (w a b : Nat) (hop : op ≠ .land) (hop' : op ≠ .lor) :
    binE op (.num s w a) (some (.num s w b)) = binop op (.num s w a) (.num s w b) := by
  cases op <;> simp_all [binE]

theorem lit_case (P : Prog) (f : Nat) (t : Ty) (n : Nat) : ESoundAt P (f + 1) (.lit t n) := by
  intro nm next aa t' code next' env st st' h hrel hbel hrun
  cases t with
  | bool =>
    simp only [lowerE, Option.some.injEq, Prod.mk.injEq] at h
    obtain ⟨h1, h2, h3, h4⟩ := h
    subst h1; subst h2; subst h3; subst h4
    simp only [ssaSteps, Option.some.injEq] at hrun; subst hrun
    refine ⟨1, if n = 0 then 0 else 1, 1, ?_, ?_, Nat.le_refl _, Or.inl rfl, ?_, ?_, Frame.refl _ _,
      Nat.le_refl _, NoRet_nil, trivial⟩
    · by_cases hn : n = 0 <;> simp [argVal, hn]
    · split <;> decide
    · intro _; exact ⟨rfl, fun s w hs => by simp [numTy] at hs⟩
    · by_cases hn : n = 0 <;> simp [evalE, litVal, Ty.decode, hn]
  | int w =>
    simp only [lowerE] at h
    split at h
    · rename_i hok
      simp only [Option.some.injEq, Prod.mk.injEq] at h
      obtain ⟨h1, h2, h3, h4⟩ := h
      subst h1; subst h2; subst h3; subst h4
      simp only [ssaSteps, Option.some.injEq] at hrun; subst hrun
      have hlt := litOk_lt hok
      obtain ⟨b, hb1, hb2, hb3, hb4, hb5⟩ := constArg_val st n true w (lt_of_constOk hlt)
      refine ⟨b, n, 1, hb1, hb2, hb3, Or.inr hb4, ?_, ?_, Frame.refl _ _, Nat.le_refl _, NoRet_nil, ?_⟩
      · intro _; refine ⟨hb5, fun s w' hs => ?_⟩
        simp only [numTy, Option.some.injEq, Prod.mk.injEq] at hs
        obtain ⟨e1, e2⟩ := hs; subst e1; subst e2; exact hlt
      · simp [evalE, litVal, Ty.decode, wrap]
      · exact constArg_below _ _ _ _
    · cases h
  | uint w =>
    simp only [lowerE] at h
    split at h
    · rename_i hok
      simp only [Option.some.injEq, Prod.mk.injEq] at h
      obtain ⟨h1, h2, h3, h4⟩ := h
      subst h1; subst h2; subst h3; subst h4
      simp only [ssaSteps, Option.some.injEq] at hrun; subst hrun
      have hlt := litOk_lt hok
      obtain ⟨b, hb1, hb2, hb3, hb4, hb5⟩ := constArg_val st n false w (lt_of_constOk hlt)
      refine ⟨b, n, 1, hb1, hb2, hb3, Or.inr hb4, ?_, ?_, Frame.refl _ _, Nat.le_refl _, NoRet_nil, ?_⟩
      · intro _; refine ⟨hb5, fun s w' hs => ?_⟩
        simp only [numTy, Option.some.injEq, Prod.mk.injEq] at hs
        obtain ⟨e1, e2⟩ := hs; subst e1; subst e2; exact hlt
      · simp [evalE, litVal, Ty.decode, wrap]
      · exact constArg_below _ _ _ _
    · cases h
  | arr _ _ => simp [lowerE] at h
  | struct _ => simp [lowerE] at h

theorem var_case (P : Prog) (f : Nat) (x : String) : ESoundAt P (f + 1) (.var x) := by
  intro nm next aa t code next' env st st' h hrel hbel hrun
  simp only [lowerE] at h
  cases hf : nm.find x with
  | none => simp [hf] at h
  | some b =>
    obtain ⟨v, hlook, hbv⟩ := Rel.find hrel b hf
    cases b with
    | val id t0 =>
      simp only [hf, Option.some.injEq, Prod.mk.injEq] at h
      obtain ⟨hlt, hv⟩ := hbv
      obtain ⟨h1, h2, h3, h4⟩ := h
      subst h1; subst h2; subst h3; subst h4
      simp only [ssaSteps, Option.some.injEq] at hrun; subst hrun
      refine ⟨t0.bits, st id, 1, by simp [argVal, SStore.get], hlt, Nat.le_refl _, Or.inl rfl, ?_, ?_,
        Frame.refl _ _, Nat.le_refl _, NoRet_nil, Below.find hbel hf⟩
      · intro hc; simp [SArg.isConst] at hc
      · simp [evalE, hlook, hv]
    | konst n =>
      simp only [hf, Option.some.injEq, Prod.mk.injEq] at h
      obtain ⟨h1, h2, h3, h4⟩ := h
      subst h1; subst h2; subst h3; subst h4
      simp only [ssaSteps, Option.some.injEq] at hrun; subst hrun
      obtain ⟨hn, hv⟩ := hbv
      have hn32 : n < 2 ^ 32 := by omega
      obtain ⟨b, hb1, hb2, hb3, hb4, hb5⟩ := constArg_val st n true 32 hn32
      refine ⟨b, n, 1, hb1, hb2, hb3, Or.inr hb4, ?_, ?_, Frame.refl _ _, Nat.le_refl _, NoRet_nil, ?_⟩
      · intro _; refine ⟨hb5, fun s w' hs => ?_⟩
        simp only [numTy, Option.some.injEq, Prod.mk.injEq] at hs
        obtain ⟨e1, e2⟩ := hs; subst e1; subst e2; simpa using hn
      · simp [evalE, hlook, hv, Ty.decode, Nat.mod_eq_of_lt hn32]
      · exact constArg_below _ _ _ _

/-- `a op b`, given the guarantees for the operands. -/
theorem bin_case (P : Prog) (f : Nat) (ih : ESound P f) (op : BinOp) (a b : Expr) :
    ESoundAt P (f + 1) (.bin op a b) := by
  intro nm next aa t code next' env st st' h hrel hbel hrun
  simp only [lowerE] at h
  cases hla : lowerE P f nm a next with
  | none => simp [hla] at h
  | some ra =>
    obtain ⟨aa1, ta, ca, n1⟩ := ra
    simp only [hla] at h
    cases hlb : lowerE P f nm b n1 with
    | none => simp [hlb] at h
    | some rb =>
      obtain ⟨ba, tb, cb, n2⟩ := rb
      simp only [hlb] at h
      split at h
      · cases h
      · rename_i hnc
        split at h
        · cases h
        · rename_i hte
          have hte' : ta = tb := tyEq_eq (by simpa using hte)
          subst hte'
          cases hlo : lowerBin op ta with
          | none => simp [hlo] at h
          | some r0 =>
            obtain ⟨sop, tr⟩ := r0
            simp only [hlo, Option.some.injEq, Prod.mk.injEq] at h
            obtain ⟨h1, h2, h3, h4⟩ := h
            subst h1; subst h2; subst h3; subst h4
            obtain ⟨⟨w, hw⟩, ⟨wr, hwr⟩⟩ := lowerBin_sbits hlo
            have hwb := sbits_bits hw
            have hwrb := sbits_bits hwr
            obtain ⟨st2, hr12, hr3⟩ := ssaSteps_split hrun
            obtain ⟨st1, hr1, hr2⟩ := ssaSteps_split hr12
            obtain ⟨wa1, a1, f1, harg1, hlt1, hle1, hor1, hc1, he1, hfr1, hn1, hnr1, hab1⟩ :=
              ih a nm next aa1 ta ca n1 env st st1 hla hrel hbel hr1
            obtain ⟨wa2, a2, f2, harg2, hlt2, hle2, hor2, hc2, he2, hfr2, hn2, hnr2, hab2⟩ :=
              ih b nm n1 ba ta cb n2 env st1 st2 hlb (hrel.frame hbel hfr1) (hbel.mono hn1) hr2
            have harg1' : argVal st2 aa1 = (a1, wa1) := by rw [argVal_frame hab1 hfr2]; exact harg1
            rw [hwb] at hle1 hle2 hor1 hor2
            obtain ⟨r, hev, hst'⟩ := ssaSteps_one hr3
            simp only [List.map_cons, List.map_nil, harg1', harg2] at hev
            have hmax : max wa1 wa2 = w := by
              rcases hor1 with e | e
              · omega
              · rcases hor2 with e2 | e2
                · omega
                · simp [e, e2] at hnc
            have hA1 : a1 < 2 ^ w := Nat.lt_of_lt_of_le hlt1 (pow_le_of_le hle1)
            have hA2 : a2 < 2 ^ w := Nat.lt_of_lt_of_le hlt2 (pow_le_of_le hle2)
            rw [hwrb] at hev
            obtain ⟨hrl, hbin⟩ := bin_sound op ta w a1 a2 wa1 wa2 hw hA1 hA2 hmax sop tr wr r hlo hwr hev
            subst hst'
            refine ⟨wr, r, max f1 f2 + 1, by simp [argVal, SStore.get, hwrb], hrl, by omega, Or.inl hwrb.symm,
              ?_, ?_, ?_, by omega, ?_, by simp [ArgBelow]⟩
            · intro hc; simp [SArg.isConst] at hc
            · simp only [evalE, evalE_mono P (Nat.le_max_left f1 f2) a env _ he1,
                evalE_mono P (Nat.le_max_right f1 f2) b env _ he2, Option.bind_some]
              exact hbin
            · exact (hfr1.trans hfr2 hn1).trans (Frame_set (by omega)) (by omega)
            · refine NoRet_append (NoRet_append hnr1 hnr2) (NoRet_one ?_)
              cases ta <;> cases op <;> simp [lowerBin] at hlo <;> (obtain ⟨e1, _⟩ := hlo; subst e1; simp)

theorem shift_case (P : Prog) (f : Nat) (ih : ESound P f) (left : Bool) (a : Expr) (k : Nat) :
    ESoundAt P (f + 1) (.shift left a k) := by
  intro nm next aa t code next' env st st' h hrel hbel hrun
  simp only [lowerE] at h
  cases hla : lowerE P f nm a next with
  | none => simp [hla] at h
  | some ra =>
    obtain ⟨aa1, ta, ca, n1⟩ := ra
    simp only [hla] at h
    split at h
    · cases h
    · rename_i hnc
      cases hnt : numTy ta with
      | none => simp [hnt] at h
      | some r0 =>
        obtain ⟨s, w⟩ := r0
        simp only [hnt, Option.some.injEq, Prod.mk.injEq] at h
        obtain ⟨h1, h2, h3, h4⟩ := h
        subst h1; subst h2; subst h3; subst h4
        obtain ⟨st1, hr1, hr3⟩ := ssaSteps_split hrun
        obtain ⟨wa1, a1, f1, harg1, hlt1, hle1, hor1, hc1, he1, hfr1, hn1, hnr1, hab1⟩ :=
          ih a nm next aa1 ta ca n1 env st st1 hla hrel hbel hr1
        have hwb := numTy_bits hnt
        have hwa : wa1 = w := by
          rcases hor1 with e | e
          · rw [e, hwb]
          · simp [e] at hnc
        subst hwa
        obtain ⟨r, hev, hst'⟩ := ssaSteps_one hr3
        have hk : argVal st1 (.k k) = (k, 0) := rfl
        simp only [List.map_cons, List.map_nil, harg1, hk] at hev
        obtain ⟨hrl, hsh⟩ := shift_sound left s wa1 a1 k r hlt1 hev
        subst hst'
        refine ⟨wa1, r, f1 + 1, by simp [argVal, SStore.get], hrl, by omega, Or.inl hwb.symm,
          ?_, ?_, ?_, by omega, ?_, by simp [ArgBelow]⟩
        · intro hc; simp [SArg.isConst] at hc
        · simp only [evalE, he1, Option.bind_some]
          rw [decode_num hnt hlt1, decode_num hnt hrl]
          exact hsh
        · exact hfr1.trans (Frame_set (by omega)) (by omega)
        · refine NoRet_append hnr1 (NoRet_one ?_)
          cases left <;> cases s <;> simp

theorem not_case (P : Prog) (f : Nat) (ih : ESound P f) (a : Expr) : ESoundAt P (f + 1) (.not a) := by
  intro nm next aa t code next' env st st' h hrel hbel hrun
  simp only [lowerE] at h
  cases hla : lowerE P f nm a next with
  | none => simp [hla] at h
  | some ra =>
    obtain ⟨aa1, ta, ca, n1⟩ := ra
    simp only [hla] at h
    split at h
    · cases h
    · rename_i hnc
      cases ta with
      | bool =>
        simp only [Option.some.injEq, Prod.mk.injEq] at h
        obtain ⟨h1, h2, h3, h4⟩ := h
        subst h1; subst h2; subst h3; subst h4
        obtain ⟨st1, hr1, hr3⟩ := ssaSteps_split hrun
        obtain ⟨wa1, a1, f1, harg1, hlt1, hle1, hor1, hc1, he1, hfr1, hn1, hnr1, hab1⟩ :=
          ih a nm next aa1 .bool ca n1 env st st1 hla hrel hbel hr1
        have hwa : wa1 = 1 := by
          rcases hor1 with e | e
          · exact e
          · simp [e] at hnc
        subst hwa
        obtain ⟨r, hev, hst'⟩ := ssaSteps_one hr3
        simp only [List.map_cons, List.map_nil, harg1] at hev
        obtain ⟨hrl, hnv⟩ := not_sound a1 r (by simpa using hlt1) hev
        subst hst'
        refine ⟨1, r, f1 + 1, by simp [argVal, SStore.get], hrl, Nat.le_refl _, Or.inl rfl,
          ?_, ?_, ?_, by omega, ?_, by simp [ArgBelow]⟩
        · intro hc; simp [SArg.isConst] at hc
        · simp only [evalE, he1, Option.bind_some]; exact hnv
        · exact hfr1.trans (Frame_set (by omega)) (by omega)
        · exact NoRet_append hnr1 (NoRet_one (by simp))
      | int _ => cases h
      | uint _ => cases h
      | arr _ _ => cases h
      | struct _ => cases h

theorem neg_case (P : Prog) (f : Nat) (ih : ESound P f) (a : Expr) : ESoundAt P (f + 1) (.neg a) := by
  intro nm next aa t code next' env st st' h hrel hbel hrun
  simp only [lowerE] at h
  cases hla : lowerE P f nm a next with
  | none => simp [hla] at h
  | some ra =>
    obtain ⟨aa1, ta, ca, n1⟩ := ra
    simp only [hla] at h
    split at h
    · cases h
    · rename_i hnc
      cases hnt : numTy ta with
      | none => simp [hnt] at h
      | some r0 =>
        obtain ⟨s, w⟩ := r0
        simp only [hnt, Option.some.injEq, Prod.mk.injEq] at h
        obtain ⟨h1, h2, h3, h4⟩ := h
        subst h1; subst h2; subst h3; subst h4
        obtain ⟨st1, hr1, hr3⟩ := ssaSteps_split hrun
        obtain ⟨wa1, a1, f1, harg1, hlt1, hle1, hor1, hc1, he1, hfr1, hn1, hnr1, hab1⟩ :=
          ih a nm next aa1 ta ca n1 env st st1 hla hrel hbel hr1
        have hwb := numTy_bits hnt
        have hwa : wa1 = w := by
          rcases hor1 with e | e
          · rw [e, hwb]
          · simp [e] at hnc
        subst hwa
        obtain ⟨r, hev, hst'⟩ := ssaSteps_one hr3
        have hz : argVal st1 (.const 0 32 32 true 32) = (0, 32) := by simp [argVal, constWires_self]
        simp only [List.map_cons, List.map_nil, harg1, hz] at hev
        obtain ⟨hrl, hng⟩ := neg_sound s wa1 a1 32 0 r hlt1 rfl hev
        subst hst'
        refine ⟨wa1, r, f1 + 1, by simp [argVal, SStore.get], hrl, by omega, Or.inl hwb.symm,
          ?_, ?_, ?_, by omega, ?_, by simp [ArgBelow]⟩
        · intro hc; simp [SArg.isConst] at hc
        · simp only [evalE, he1, Option.bind_some]
          rw [decode_num hnt hlt1, decode_num hnt hrl]
          exact hng
        · exact hfr1.trans (Frame_set (by omega)) (by omega)
        · exact NoRet_append hnr1 (NoRet_one (by simp))

theorem cast_case (P : Prog) (f : Nat) (ih : ESound P f) (t0 : Ty) (a : Expr) : ESoundAt P (f + 1) (.cast t0 a) := by
  intro nm next aa t code next' env st st' h hrel hbel hrun
  simp only [lowerE] at h
  cases hla : lowerE P f nm a next with
  | none => simp [hla] at h
  | some ra =>
    obtain ⟨aa1, ta, ca, n1⟩ := ra
    simp only [hla] at h
    cases hnt : numTy ta with
    | none => simp [hnt] at h
    | some r0 =>
      obtain ⟨s, w⟩ := r0
      cases hnt0 : numTy t0 with
      | none => simp [hnt, hnt0] at h
      | some r1 =>
        obtain ⟨s', w'⟩ := r1
        simp only [hnt, hnt0] at h
        have hwb := numTy_bits hnt
        have hwb0 := numTy_bits hnt0
        have hcv : ∀ x v, castNum s w x s' w' = .num s' w' v → castVal t0 (.num s w x) = some (.num s' w' v) := by
          intro x v hx
          cases t0 <;> simp [numTy] at hnt0
          · obtain ⟨e1, e2⟩ := hnt0; subst e1; subst e2; simp [castVal, hx]
          · obtain ⟨e1, e2⟩ := hnt0; subst e1; subst e2; simp [castVal, hx]
        split at h
        · -- constant: folded
          rename_i hisc
          split at h
          · rename_i hok
            simp only [Option.some.injEq, Prod.mk.injEq] at h
            obtain ⟨h1, h2, h3, h4⟩ := h
            subst h1; subst h2; subst h3; subst h4
            obtain ⟨wa1, a1, f1, harg1, hlt1, hle1, hor1, hc1, he1, hfr1, hn1, hnr1, hab1⟩ :=
              ih a nm next aa1 ta ca n1 env st st' hla hrel hbel hrun
            obtain ⟨hcv1, hcok⟩ := hc1 hisc
            rw [hcv1] at hok ⊢
            have hlt := litOk_lt hok
            obtain ⟨b, hb1, hb2, hb3, hb4, hb5⟩ := constArg_val st' a1 s' w' (lt_of_constOk hlt)
            rw [hwb] at hle1
            have hA1 : a1 < 2 ^ w := Nat.lt_of_lt_of_le hlt1 (pow_le_of_le hle1)
            refine ⟨b, a1, f1 + 1, hb1, hb2, by omega, Or.inr hb4, ?_, ?_, hfr1, hn1, hnr1, ?_⟩
            · intro _; refine ⟨hb5, fun s2 w2 hs => ?_⟩
              rw [hnt0] at hs
              simp only [Option.some.injEq, Prod.mk.injEq] at hs
              obtain ⟨e1, e2⟩ := hs; subst e1; subst e2; exact hlt
            · simp only [evalE, he1, Option.bind_some]
              rw [decode_num hnt hA1, decode_num hnt0 (lt_of_constOk hlt)]
              exact hcv a1 a1 (cast_const s s' w w' a1 (hcok s w hnt) hlt)
            · exact constArg_below _ _ _ _
          · cases h
        · rename_i hnc
          split at h
          · cases h
          · rename_i hx
            simp only [Option.some.injEq, Prod.mk.injEq] at h
            obtain ⟨h1, h2, h3, h4⟩ := h
            subst h1; subst h2; subst h3; subst h4
            obtain ⟨st1, hr1, hr3⟩ := ssaSteps_split hrun
            obtain ⟨wa1, a1, f1, harg1, hlt1, hle1, hor1, hc1, he1, hfr1, hn1, hnr1, hab1⟩ :=
              ih a nm next aa1 ta ca n1 env st st1 hla hrel hbel hr1
            have hwa : wa1 = w := by
              rcases hor1 with e | e
              · rw [e, hwb]
              · simp [e] at hnc
            subst hwa
            have hx' : ¬ (s = true ∧ s' = false ∧ wa1 < w') := by
              intro ⟨e1, e2, e3⟩; apply hx; simp [e1, e2, e3]
            obtain ⟨v, hv, hcast, hevv⟩ := cast_evalOp s s' wa1 w' a1 hlt1 hx'
            obtain ⟨r, hev, hst'⟩ := ssaSteps_one hr3
            simp only [List.map_cons, List.map_nil, harg1] at hev
            have hrv : r = v := by
              have := hev.symm.trans hevv
              exact Option.some.inj this
            subst hrv
            subst hst'
            refine ⟨w', r, f1 + 1, by simp [argVal, SStore.get], hv, by omega, Or.inl hwb0.symm,
              ?_, ?_, ?_, by omega, ?_, by simp [ArgBelow]⟩
            · intro hc; simp [SArg.isConst] at hc
            · simp only [evalE, he1, Option.bind_some]
              rw [decode_num hnt hlt1, decode_num hnt0 hv]
              exact hcv a1 r hcast
            · exact hfr1.trans (Frame_set (by omega)) (by omega)
            · refine NoRet_append hnr1 (NoRet_one ?_)
              split <;> simp

end Mpc.Mpcl.Ssa

/-
Goldschmidt divider (C07): the correction step of
`NewUDividerGoldschmidtFast` is exact for every width PROVIDED the quotient
estimate is within ±1 of the true quotient (explicit hypothesis; the estimate
itself — MSB normalisation, ROM seed, iterations — is only tied gate for gate
and validated by evaluation).
-/
import MpcVerif.Proofs.BuildersHammingG
import MpcVerif.Proofs.BuildersWallace
import MpcVerif.Proofs.BuildersDiv

namespace Mpc.Bld
open Mpc

/-! ### arithmetic -/

/-- `z ≡ X - Y (mod M)` with all three below `M`: either no wrap or one wrap. -/
theorem mod_sub_cases (z X Y M : Nat) (hz : z < M) (hX : X < M) (hY : Y < M) (h : (z + Y) % M = X % M) :
    (Y ≤ X ∧ z = X - Y) ∨ (X < Y ∧ z = X + M - Y) := by
  have hdm := Nat.div_add_mod (z + Y) M
  rw [h, Nat.mod_eq_of_lt hX] at hdm
  have hq : (z + Y) / M < 2 := Nat.div_lt_of_lt_mul (by omega)
  generalize (z + Y) / M = q at *
  have hq' : q = 0 ∨ q = 1 := by omega
  rcases hq' with rfl | rfl
  · simp at hdm; left; omega
  · simp at hdm; right; omega

/-- The selection logic of the correction step on numbers.  `P = 2^n`;
`t` is the sign bit of `r = a - q·b` (on `n+2` bits), `g` the sign bit of
`r[:n] - b` (on `n+1` bits). -/
theorem gold_correction_arith (A B Q P QB rv rlow rn qm qp rpb rmb rmlow : Nat) (t g : Bool)
    (hP : 0 < P) (hA : A < P) (hB0 : 0 < B) (hB : B < P) (hQ : Q < P)
    (hest : Q ≤ A / B + 1 ∧ A / B ≤ Q + 1) (hQB : QB = Q * B)
    (hrv : rv = rlow + 2 * P * t.toNat) (hrlow : rlow < 2 * P) (hr : (rv + QB) % (4 * P) = A % (4 * P))
    (hrn : rn = rv % P)
    (hqm : qm < P) (hqmv : (qm + 1) % P = Q % P)
    (hqp : qp = (Q + 1) % P)
    (hrpb : rpb = (rn + B) % P)
    (hrmb : rmb = rmlow + P * g.toNat) (hrmlow : rmlow < P) (hrm : (rmb + B) % (2 * P) = rn % (2 * P)) :
    (if t then qm else (if !g then qp else Q)) = A / B ∧
    (if t then rpb else (if !g then rmlow else rn)) = A % B := by
  have hdiv := Nat.div_add_mod A B
  have hmod := Nat.mod_lt A hB0
  generalize A / B = q0 at *
  generalize A % B = R0 at *
  have hq0le : q0 ≤ A := by have := Nat.le_mul_of_pos_left q0 hB0; omega
  have hrvlt : rv < 4 * P := by cases t <;> simp at hrv <;> omega
  have hrnlt : rn < P := by rw [hrn]; exact Nat.mod_lt _ hP
  have hrmblt : rmb < 2 * P := by cases g <;> simp at hrmb <;> omega
  have hcases : Q = q0 + 1 ∨ Q = q0 ∨ Q + 1 = q0 := by omega
  rcases hcases with hc | hc | hc
  · -- estimate one too big: r negative
    have hQB' : QB = B * q0 + B := by rw [hQB, hc, Nat.add_mul, Nat.mul_comm]; omega
    have hQBlt : QB < 4 * P := by omega
    rcases mod_sub_cases rv A QB (4 * P) hrvlt (by omega) hQBlt hr with ⟨h1, _⟩ | ⟨_, h2⟩
    · omega
    · have ht : t = true := by
        cases t with
        | true => rfl
        | false => simp at hrv; omega
      subst ht
      simp only [if_true]
      have hq1 : 1 ≤ Q := by omega
      rcases mod_sub_cases qm Q 1 P hqm hQ (by omega) hqmv with ⟨_, h3⟩ | ⟨h3, _⟩
      · constructor
        · omega
        · -- rn = P - (B - R0), rpb = R0
          have hk : rv = 3 * P + (P - (B - R0)) := by omega
          have hrn' : rn = P - (B - R0) := by
            rw [hrn, hk, Nat.mul_comm 3 P, Nat.mul_add_mod, Nat.mod_eq_of_lt (by omega)]
          rw [hrpb, hrn']
          have : P - (B - R0) + B = P + R0 := by omega
          rw [this, Nat.add_mod_left, Nat.mod_eq_of_lt (by omega)]
      · omega
  · -- estimate exact
    have hQB' : QB = B * q0 := by rw [hQB, hc, Nat.mul_comm]
    rcases mod_sub_cases rv A QB (4 * P) hrvlt (by omega) (by omega) hr with ⟨_, h1⟩ | ⟨h2, _⟩
    · have ht : t = false := by
        cases t with
        | false => rfl
        | true => simp at hrv; omega
      subst ht
      simp only [Bool.toNat_false, Nat.mul_zero, Nat.add_zero] at hrv
      have hrvv : rv = R0 := by omega
      have hrnv : rn = R0 := by rw [hrn, hrvv, Nat.mod_eq_of_lt (by omega)]
      rcases mod_sub_cases rmb rn B (2 * P) hrmblt (by omega) (by omega) hrm with ⟨h3, _⟩ | ⟨_, h4⟩
      · omega
      · have hg : g = true := by
          cases g with
          | true => rfl
          | false => simp at hrmb; omega
        subst hg
        simp; omega
    · omega
  · -- estimate one too small: r ≥ b
    have hQB' : QB + B = B * q0 := by rw [hQB, ← hc, Nat.mul_add, Nat.mul_comm]; omega
    rcases mod_sub_cases rv A QB (4 * P) hrvlt (by omega) (by omega) hr with ⟨_, h1⟩ | ⟨h2, _⟩
    · have ht : t = false := by
        cases t with
        | false => rfl
        | true => simp at hrv; omega
      subst ht
      simp only [Bool.toNat_false, Nat.mul_zero, Nat.add_zero] at hrv
      have hrvv : rv = R0 + B := by omega
      have hrnv : rn = R0 + B := by rw [hrn, hrvv, Nat.mod_eq_of_lt (by omega)]
      rcases mod_sub_cases rmb rn B (2 * P) hrmblt (by omega) (by omega) hrm with ⟨_, h3⟩ | ⟨h4, _⟩
      · have hg : g = false := by
          cases g with
          | false => rfl
          | true => simp at hrmb; omega
        subst hg
        simp only [Bool.false_eq_true, if_false, Bool.not_false, if_true]
        constructor
        · rw [hqp, Nat.mod_eq_of_lt (by omega)]; omega
        · simp at hrmb; omega
      · omega
    · omega

/-- A value below `2^n` is not changed by restricting the modulus exponent to `n`. -/
theorem mod_min_pow (v n k : Nat) (h : v < 2 ^ n) : v % 2 ^ (min k n) = v % 2 ^ k := by
  by_cases hk : k ≤ n
  · rw [Nat.min_eq_left hk]
  · have hle : n ≤ k := by omega
    have hpw : 2 ^ n ≤ 2 ^ k := Nat.pow_le_pow_right (by omega) hle
    rw [Nat.min_eq_right hle, Nat.mod_eq_of_lt h, Nat.mod_eq_of_lt (Nat.lt_of_lt_of_le h hpw)]

/-! ### wire level -/

theorem holds_getD {s : St} {inp : List Bool} {ws : List Nat} (h : Bnd s ws) (k : Nat) (hk : k < ws.length) :
    Holds s inp (ws.getD k 0) ((busVal s inp ws).getD k false) := by
  have h1 : ws.getD k 0 = ws[k] := by
    rw [List.getD_eq_getElem?_getD, List.getElem?_eq_getElem hk]; rfl
  refine ⟨?_, ?_⟩
  · rw [h1]; exact h _ (List.getElem_mem hk)
  · rw [h1]
    simp [busVal, List.getD_eq_getElem?_getD, List.getElem?_eq_getElem hk]

theorem ksSubtractor_spec {s : St} {inp : List Bool} (hwf : WF s inp) {x y : List Nat} (nz : Nat)
    (hx : Bnd s x) (hy : Bnd s y) (hne : 0 < max x.length y.length) (hnz : 0 < nz) :
    Spec inp s (ksSubtractor x y nz) (fun z s' => Bnd s' z ∧ z.length = nz ∧
      (toNat (busVal s' inp z) + toNat (busVal s inp y)) % 2 ^ nz = toNat (busVal s inp x) % 2 ^ nz) := by
  unfold ksSubtractor
  exact ksSubtractorWith_spec hwf nz _ hx hy hne hnz (le_two_pow_ceilLog2 _)

theorem ksAdder_spec {s : St} {inp : List Bool} (hwf : WF s inp) {x y : List Nat} (nz : Nat)
    (hx : Bnd s x) (hy : Bnd s y) (hne : 0 < max x.length y.length) (hnz : 0 < nz) :
    Spec inp s (ksAdder x y nz) (fun z s' => Bnd s' z ∧ z.length = nz ∧
      toNat (busVal s' inp z) = (toNat (busVal s inp x) + toNat (busVal s inp y)) % 2 ^ nz) := by
  unfold ksAdder
  exact ksAdderWith_spec hwf nz _ hx hy hne hnz (le_two_pow_ceilLog2 _)

/-- `muxResult`: the selected bus on `min nout (len t)` wires, zero filled. -/
theorem muxResult_spec {s : St} {inp : List Bool} (hwf : WF s inp) {t f : List Nat} {cond : Nat} (nout : Nat)
    (ht : Bnd s t) (hf : Bnd s f) (hc : cond < s.next) (hl : t.length = f.length) :
    Spec inp s (muxResult cond t f nout) (fun z s' => Bnd s' z ∧ z.length = nout ∧
      toNat (busVal s' inp z) =
        toNat (if s.val inp cond then busVal s inp t else busVal s inp f) % 2 ^ (min nout t.length)) := by
  unfold muxResult
  simp only
  refine Spec.bind (muxBits_zip_spec hwf (ht.take _) (hf.take _) hc (by simp [hl])) ?_
  intro m s1 e1 ⟨hmb, hmv⟩
  refine Spec.bind (zeros_spec e1.wf _) ?_
  intro z s2 e2 ⟨hzb, hzv⟩
  have hml : m.length = min nout t.length := by
    have := congrArg List.length hmv
    rw [busVal_length] at this
    rw [this]; split <;> simp [hl]
  have hzl : z.length = nout - min nout t.length := by
    have := congrArg List.length hzv; simpa using this
  refine Spec.pure e2.wf ⟨(hmb.mono e2).append hzb, ?_, ?_⟩
  · rw [List.length_append, hml, hzl]; omega
  · rw [busVal_append, hzv, toNat_append_zeros, busVal_ext e2 hmb, hmv, busVal_take, busVal_take]
    cases s.val inp cond <;> simp [toNat_take]

/-- The correction step of `NewUDividerGoldschmidtFast` (as of 776d360): IF the
estimate `q` is within ±1 of `⌊a / b⌋` THEN the outputs are exactly the
quotient and the remainder, for every operand width `n ≥ 1` and all result
widths. -/
theorem goldCorrection_spec {s : St} {inp : List Bool} (hwf : WF s inp) {a b q : List Nat} (nq nr : Nat)
    (ha : Bnd s a) (hb : Bnd s b) (hq : Bnd s q) (hlb : b.length = a.length) (hlq : q.length = a.length)
    (hn : 0 < a.length) (hB0 : 0 < toNat (busVal s inp b))
    (hest : toNat (busVal s inp q) ≤ toNat (busVal s inp a) / toNat (busVal s inp b) + 1 ∧
      toNat (busVal s inp a) / toNat (busVal s inp b) ≤ toNat (busVal s inp q) + 1) :
    Spec inp s (goldCorrection a b q nq nr) (fun t s' => Bnd s' t.1 ∧ Bnd s' t.2 ∧
      t.1.length = nq ∧ t.2.length = nr ∧
      toNat (busVal s' inp t.1) = (toNat (busVal s inp a) / toNat (busVal s inp b)) % 2 ^ nq ∧
      toNat (busVal s' inp t.2) = (toNat (busVal s inp a) % toNat (busVal s inp b)) % 2 ^ nr) := by
  unfold goldCorrection
  simp only
  obtain ⟨n, hla⟩ : ∃ n, a.length = n := ⟨_, rfl⟩
  rw [hla] at hlb hlq hn ⊢
  have hAlt : toNat (busVal s inp a) < 2 ^ n := by
    have := toNat_lt (busVal s inp a); rwa [busVal_length, hla] at this
  have hBlt : toNat (busVal s inp b) < 2 ^ n := by
    have := toNat_lt (busVal s inp b); rwa [busVal_length, hlb] at this
  have hQlt : toNat (busVal s inp q) < 2 ^ n := by
    have := toNat_lt (busVal s inp q); rwa [busVal_length, hlq] at this
  generalize hA : toNat (busVal s inp a) = A at *
  generalize hB : toNat (busVal s inp b) = B at *
  generalize hQ : toNat (busVal s inp q) = Q at *
  have hP : 0 < 2 ^ n := Nat.two_pow_pos n
  have h2 : 2 ^ (n + 1) = 2 * 2 ^ n := by rw [Nat.pow_succ]; omega
  have h4 : 2 ^ (n + 2) = 4 * 2 ^ n := by rw [Nat.pow_succ, Nat.pow_succ]; omega
  have hQBlt : Q * B < 2 * 2 ^ n := by
    have h1 : Q * B ≤ (A / B + 1) * B := Nat.mul_le_mul_right B hest.1
    have h3 := Nat.div_mul_le_self A B
    rw [Nat.add_mul, Nat.one_mul] at h1
    omega
  -- q * b
  refine Spec.bind (wallace_spec hwf (2 * n) hq hb (by omega)) ?_
  intro qbLong s1 e1 ⟨hqbb, hqbl, hqbv⟩
  rw [hQ, hB] at hqbv
  have hqbv' : toNat (busVal s1 inp (qbLong.take (n + 1))) = Q * B := by
    have hle : 2 ^ (n + 1) ≤ 2 ^ (2 * n) := Nat.pow_le_pow_right (by omega) (by omega)
    rw [busVal_take, toNat_take, hqbv, Nat.mod_eq_of_lt (a := Q * B) (by omega), Nat.mod_eq_of_lt (by omega)]
  -- r = a - q*b on n+2 bits
  refine Spec.bind (ksSubtractor_spec e1.wf (n + 2) (ha.mono e1) (hqbb.take _) (by omega) (by omega)) ?_
  intro r s2 e2 ⟨hrb, hrl, hrv⟩
  rw [hqbv', busVal_ext e1 ha, hA] at hrv
  -- q - 1
  refine Spec.bind (oneWire_spec e2.wf) ?_
  intro o1 s3 e3 ho1
  have e03 := (e1.trans e2).trans e3
  refine Spec.bind (ksSubtractor_spec e3.wf n (hq.mono e03) (Bnd.cons ho1.1 (Bnd.nil _)) (by omega) hn) ?_
  intro qm s4 e4 ⟨hqmb, hqml, hqmv⟩
  have ho1v : toNat (busVal s3 inp [o1]) = 1 := by simp [ho1.2]
  rw [ho1v, busVal_ext e03 hq, hQ] at hqmv
  -- q + 1
  refine Spec.bind (oneWire_spec e4.wf) ?_
  intro o2 s5 e5 ho2
  have e05 := (e03.trans e4).trans e5
  refine Spec.bind (ksAdder_spec e5.wf n (hq.mono e05) (Bnd.cons ho2.1 (Bnd.nil _)) (by omega) hn) ?_
  intro qp s6 e6 ⟨hqpb, hqpl, hqpv⟩
  have ho2v : toNat (busVal s5 inp [o2]) = 1 := by simp [ho2.2]
  rw [ho2v, busVal_ext e05 hq, hQ] at hqpv
  -- r + b
  have e26 := ((e3.trans e4).trans e5).trans e6
  have e06 := e05.trans e6
  refine Spec.bind (ksAdder_spec e6.wf n ((hrb.take n).mono e26) (hb.mono e06) (by omega) hn) ?_
  intro rpb s7 e7 ⟨hrpbb, hrpbl, hrpbv⟩
  rw [busVal_ext e26 (hrb.take n), busVal_ext e06 hb, hB] at hrpbv
  -- r - b
  have e27 := e26.trans e7
  have e07 := e06.trans e7
  refine Spec.bind (ksSubtractor_spec e7.wf (n + 1) ((hrb.take n).mono e27) (hb.mono e07) (by omega) (by omega)) ?_
  intro rmb s8 e8 ⟨hrmbb, hrmbl, hrmbv⟩
  rw [busVal_ext e27 (hrb.take n), busVal_ext e07 hb, hB] at hrmbv
  -- isGe
  refine Spec.bind (inv_spec e8.wf (holds_getD hrmbb n (by omega))) ?_
  intro isGe s9 e9 hge
  -- qHigh
  have e69 := (e7.trans e8).trans e9
  have e09 := (e07.trans e8).trans e9
  refine Spec.bind (muxBits_zip_spec e9.wf (hqpb.mono e69) (hq.mono e09) hge.1 (by rw [hqpl, hlq])) ?_
  intro qHigh s10 e10 ⟨hqhb, hqhv⟩
  rw [hge.2, busVal_ext e69 hqpb, busVal_ext e09 hq] at hqhv
  -- rHigh
  have e8_10 := e9.trans e10
  have e2_10 := ((e27.trans e8).trans e9).trans e10
  refine Spec.bind (muxBits_zip_spec e10.wf ((hrmbb.take n).mono e8_10) ((hrb.take n).mono e2_10)
    (Nat.lt_of_lt_of_le hge.1 e10.next) (by simp [hrmbl, hrl])) ?_
  intro rHigh s11 e11 ⟨hrhb, hrhv⟩
  rw [e10.val _ hge.1, hge.2, busVal_ext e8_10 (hrmbb.take n), busVal_ext e2_10 (hrb.take n), busVal_take, busVal_take] at hrhv
  -- isNeg
  have hneg : Holds s2 inp (r.getD (n + 1) 0) ((busVal s2 inp r).getD (n + 1) false) :=
    holds_getD hrb (n + 1) (by omega)
  have e2_11 := e2_10.trans e11
  have e4_11 := (((((e5.trans e6).trans e7).trans e8).trans e9).trans e10).trans e11
  have hqhl : qHigh.length = n := by
    have := congrArg List.length hqhv
    rw [busVal_length] at this
    rw [this]; split <;> simp [hqpl, hlq]
  refine Spec.bind (muxResult_spec e11.wf nq (hqmb.mono e4_11) (hqhb.mono e11)
    (Nat.lt_of_lt_of_le hneg.1 e2_11.next) (by rw [hqml, hqhl])) ?_
  intro qF s12 e12 ⟨hqfb, hqfl, hqfv⟩
  rw [e2_11.val _ hneg.1, hneg.2, busVal_ext e4_11 hqmb, busVal_ext e11 hqhb, hqhv, hqml] at hqfv
  have e2_12 := e2_11.trans e12
  have e7_12 := ((((e8.trans e9).trans e10).trans e11).trans e12)
  have hrhl : rHigh.length = n := by
    have := congrArg List.length hrhv
    rw [busVal_length] at this
    rw [this]; split <;> simp [hrmbl, hrl]
  refine (muxResult_spec e12.wf nr (hrpbb.mono e7_12) (hrhb.mono e12)
    (Nat.lt_of_lt_of_le hneg.1 e2_12.next) (by rw [hrpbl, hrhl])).map ?_
  intro rF s13 e13 ⟨hrfb, hrfl, hrfv⟩
  rw [e2_12.val _ hneg.1, hneg.2, busVal_ext e7_12 hrpbb, busVal_ext e12 hrhb, hrhv, hrpbl] at hrfv
  -- numbers
  rw [busVal_take] at hrpbv hrmbv
  have hrvl : (busVal s2 inp r).length = n + 2 := by rw [busVal_length, hrl]
  have hrmvl : (busVal s8 inp rmb).length = n + 1 := by rw [busVal_length, hrmbl]
  have hqmlt : toNat (busVal s4 inp qm) < 2 ^ n := by
    have := toNat_lt (busVal s4 inp qm); rwa [busVal_length, hqml] at this
  generalize hrvv : busVal s2 inp r = rvv at *
  generalize hrmv : busVal s8 inp rmb = rmv at *
  have hdec1 : toNat rvv = toNat (rvv.take (n + 1)) + 2 * 2 ^ n * (rvv.getD (n + 1) false).toNat := by
    have := toNat_take_succ rvv (n + 1) (by omega)
    rw [List.take_of_length_le (by omega), h2] at this; exact this
  have hlow1 : toNat (rvv.take (n + 1)) < 2 * 2 ^ n := by
    have := toNat_lt (rvv.take (n + 1))
    rw [List.length_take, hrvl, Nat.min_eq_left (by omega), h2] at this; exact this
  have hdec2 : toNat rmv = toNat (rmv.take n) + 2 ^ n * (rmv.getD n false).toNat := by
    have := toNat_take_succ rmv n (by omega)
    rwa [List.take_of_length_le (by omega)] at this
  have hlow2 : toNat (rmv.take n) < 2 ^ n := by
    have := toNat_lt (rmv.take n)
    rwa [List.length_take, hrmvl, Nat.min_eq_left (by omega)] at this
  have hfin := gold_correction_arith A B Q (2 ^ n) (Q * B) (toNat rvv) (toNat (rvv.take (n + 1)))
    (toNat (rvv.take n)) (toNat (busVal s4 inp qm)) (toNat (busVal s6 inp qp)) (toNat (busVal s7 inp rpb))
    (toNat rmv) (toNat (rmv.take n)) (rvv.getD (n + 1) false) (rmv.getD n false)
    hP hAlt hB0 hBlt hQlt hest rfl hdec1 hlow1 (by rw [← h4]; exact hrv) (toNat_take rvv n) hqmlt hqmv hqpv
    hrpbv hdec2 hlow2 (by rw [← h2]; exact hrmbv)
  refine ⟨hqfb.mono e13, hrfb, hqfl, hrfl, ?_, ?_⟩
  · rw [busVal_ext e13 hqfb, hqfv, apply_ite toNat, apply_ite toNat, hQ, hfin.1]
    exact mod_min_pow _ n nq (Nat.lt_of_le_of_lt (Nat.div_le_self A B) hAlt)
  · rw [hrfv, apply_ite toNat, apply_ite toNat, hfin.2]
    exact mod_min_pow _ n nr (Nat.lt_trans (Nat.mod_lt A hB0) hBlt)

end Mpc.Bld

/-
C16 helper lemmas: the Dolev-Yao closure of the evaluator's view in the symbolic
(free-hash) label algebra of C04, and the proof that the linear functional built
for C04 (`phiGates`) vanishes on the WHOLE closure, not only on the view.

  * `FinSupp`, `CodeFaithful`: the coding of hash arguments is injective on
    finitely supported labels (a total injection `SymL Code → Code` cannot exist:
    `Atom Code` contains `Code`, so `SymL Code` has at least `2^Code` elements);
  * `Derivable`: view, zero, the adversary's own fresh atoms, xor, arbitrary
    select bit, `h1` and `h2` of derivables under any tweak;
  * `gates_fin`: all labels and rows of a garbling are finitely supported;
  * `gates_hot`: every hash atom the functional counts is a query on a label on
    which the functional is 1 (an inactive label);
  * `derivable_phi`: the functional is 0 on every derivable label;
  * `termCode`: a coding (free term algebra) that is faithful and separates, so
    the hypotheses are satisfiable.
-/
import MpcVerif.Props.C04

namespace Mpc.Sym
open Mpc LabelAlg
variable {Code : Type}

/-! ### Finite support -/

/-- The label has finitely many atoms. -/
def FinSupp (x : SymL Code) : Prop := ∃ l : List (Atom Code), ∀ a, x.f a = true → a ∈ l

theorem FinSupp.zero : FinSupp (LabelAlg.zero : SymL Code) := ⟨[], fun a h => by simp [zero_f] at h⟩

theorem FinSupp.xor {x y : SymL Code} (hx : FinSupp x) (hy : FinSupp y) : FinSupp (x ^^^ y) := by
  obtain ⟨l, hl⟩ := hx
  obtain ⟨m, hm⟩ := hy
  refine ⟨l ++ m, fun a h => ?_⟩
  rw [xor_f] at h
  rw [List.mem_append]
  cases hxa : x.f a with
  | true => exact Or.inl (hl a hxa)
  | false =>
    cases hya : y.f a with
    | true => exact Or.inr (hm a hya)
    | false => rw [hxa, hya] at h; cases h

open Classical in
theorem FinSupp.atom (σ : Atom Code → Bool) (a : Atom Code) : FinSupp (atom σ a) :=
  ⟨[a], fun b h => by rw [atom_f] at h; simpa using h⟩

theorem FinSupp.symR (σ : Atom Code → Bool) : FinSupp (symR σ) := FinSupp.atom σ .R

theorem FinSupp.sel {x : SymL Code} (hx : FinSupp x) (s : Bool) : FinSupp (⟨x.f, s⟩ : SymL Code) := hx

open Classical in
theorem phi_atom_notin (S : List (Atom Code)) (σ : Atom Code → Bool) (a : Atom Code) (h : a ∉ S) :
    phi S (atom σ a) = false := by
  induction S with
  | nil => rfl
  | cons b S ih =>
    rw [phi_cons, ih (fun hm => h (List.mem_cons_of_mem _ hm)), atom_f]
    have : b ≠ a := fun hba => h (hba ▸ List.mem_cons_self)
    simp [this]

/-- **Hypothesis on the hash model.**  On finitely supported labels the code of
a hash argument determines its atoms: two finitely supported labels with the
same code are the same GF(2)-combination.  (The free-function idealisation of
the hash: equal outputs only on equal inputs.) -/
def CodeFaithful (code : SymL Code → Code) : Prop :=
  ∀ x y, FinSupp x → FinSupp y → code x = code y → ∀ a, x.f a = y.f a

open Classical in
/-- Why faithfulness is asked on finitely supported labels only: NO coding is
faithful on all of `SymL Code` (Cantor: the atoms `h1 0 c` embed `Code` into
`Atom Code`, and a label is an arbitrary set of atoms). -/
theorem no_total_faithful_code (code : SymL Code → Code) :
    ¬ ∀ x y : SymL Code, code x = code y → ∀ a, x.f a = y.f a := by
  intro hinj
  let D : SymL Code :=
    ⟨fun a => match a with
      | .h1 0 c => decide (¬ ∃ z : SymL Code, code z = c ∧ z.f (.h1 0 c) = true)
      | _ => false, false⟩
  have hD : D.f (.h1 0 (code D)) =
      decide (¬ ∃ z : SymL Code, code z = code D ∧ z.f (.h1 0 (code D)) = true) := rfl
  by_cases h : ∃ z : SymL Code, code z = code D ∧ z.f (.h1 0 (code D)) = true
  · obtain ⟨z, hz, hzf⟩ := h
    have h1 : D.f (.h1 0 (code D)) = true := by rw [← hinj z D hz]; exact hzf
    rw [hD] at h1
    simp only [decide_eq_true_eq] at h1
    exact h1 ⟨z, hz, hzf⟩
  · have h1 : D.f (.h1 0 (code D)) = true := by rw [hD]; simpa using h
    exact h ⟨D, rfl, h1⟩

/-! ### The adversary's knowledge -/

/-- Dolev-Yao closure of a set `V` of labels (the evaluator's view) under the
operations of the garbling scheme: everything in `V`, zero, fresh atoms of the
adversary's own (input atoms with index `≥ nIn`, which the garbler never
draws), XOR, setting the select bit at will, and both hash functions of the
scheme applied to derivable arguments under ANY tweak. -/
inductive Derivable (σ : Atom Code → Bool) (code : SymL Code → Code) (nIn : Nat)
    (V : List (SymL Code)) : SymL Code → Prop where
  | view {t} : t ∈ V → Derivable σ code nIn V t
  | zero : Derivable σ code nIn V LabelAlg.zero
  | fresh (j : Nat) : nIn ≤ j → Derivable σ code nIn V (atom σ (.inp j))
  | xor {a b} : Derivable σ code nIn V a → Derivable σ code nIn V b → Derivable σ code nIn V (a ^^^ b)
  | sel {a} (s : Bool) : Derivable σ code nIn V a → Derivable σ code nIn V ⟨a.f, s⟩
  | h1 {a} (t : Nat) : Derivable σ code nIn V a → Derivable σ code nIn V ((symHash σ code).h1 a t)
  | h2 {a b} (t : Nat) : Derivable σ code nIn V a → Derivable σ code nIn V b →
      Derivable σ code nIn V ((symHash σ code).h2 a b t)

/-! ### All labels of a garbling are finitely supported -/

macro "fin_tac" : tactic =>
  `(tactic| repeat (first
      | assumption
      | apply FinSupp.xor
      | apply FinSupp.zero
      | apply FinSupp.symR
      | apply FinSupp.atom))

theorem core_fin (σ : Atom Code → Bool) (code : SymL Code → Code) (op : Op)
    (a b : WireL (SymL Code)) (id : Nat)
    (ha0 : FinSupp a.l0) (_ha1 : FinSupp a.l1) (hb0 : FinSupp b.l0) (_hb1 : FinSupp b.l1) :
    FinSupp (garbleCore (symHash σ code) (symR σ) op a b id).1.l0 ∧
    FinSupp (garbleCore (symHash σ code) (symR σ) op a b id).1.l1 ∧
    ∀ row ∈ (garbleCore (symHash σ code) (symR σ) op a b id).2, FinSupp row := by
  cases op
  case xor =>
    simp only [garbleCore, List.not_mem_nil, false_implies, implies_true, and_true]
    constructor <;> fin_tac
  case xnor =>
    simp only [garbleCore, List.not_mem_nil, false_implies, implies_true, and_true]
    constructor <;> fin_tac
  case and =>
    simp only [garbleCore, symHash, List.mem_cons, List.not_mem_nil, or_false,
      forall_eq_or_imp, forall_eq]
    cases h0 : sbit a.l0 <;> cases h2 : sbit b.l0 <;>
      simp only [if_true, if_false, Bool.false_eq_true] <;>
      refine ⟨?_, ?_, ?_, ?_⟩ <;> fin_tac
  case or =>
    cases h0 : sbit a.l0 <;> cases h1' : sbit a.l1 <;> cases h2' : sbit b.l0 <;>
      cases h3' : sbit b.l1 <;>
      simp [garbleCore, symHash, idx, Tab.set, h0, h1', h2', h3'] <;>
      (repeat' apply And.intro) <;> fin_tac
  case inv =>
    cases h0 : sbit a.l0 <;> cases h1' : sbit a.l1 <;>
      simp [garbleCore, symHash, idxUnary, Tab.set, h0, h1'] <;>
      (repeat' apply And.intro) <;> fin_tac

/-- both labels of every slot of the store are finitely supported -/
def StoreFin (gw : Store (WireL (SymL Code))) : Prop :=
  ∀ w, FinSupp (gw.get w).l0 ∧ FinSupp (gw.get w).l1

theorem Store.get_set_cases {α : Type} [Inhabited α] (s : Store α) (i j : Nat) (v : α) :
    (s.set i v).get j = v ∨ (s.set i v).get j = s.get j := by
  by_cases hij : i = j
  · by_cases hi : i < s.size
    · left; subst hij; exact Store.get_set_eq _ _ _ hi
    · right
      simp only [Store.get, Store.set]
      rw [Array.setIfInBounds_eq_of_size_le (by omega)]
  · right; exact Store.get_set_ne _ _ _ _ hij

theorem Store.get_of_size_le {α : Type} [Inhabited α] (s : Store α) (w : Nat) (h : s.size ≤ w) :
    s.get w = default := by
  simp only [Store.get, Array.getD]
  rw [dif_neg (by omega)]

theorem garbleGate_fin (σ : Atom Code → Bool) (code : SymL Code → Code) (g : Gate)
    (gw : Store (WireL (SymL Code))) (id : Nat) (hF : StoreFin gw) :
    StoreFin (garbleGate (symHash σ code) (symR σ) g gw id).1 ∧
    ∀ row ∈ (garbleGate (symHash σ code) (symR σ) g gw id).2.2, FinSupp row := by
  obtain ⟨h0, h1, hr⟩ := core_fin σ code g.op (gw.get g.in0) (gw.get g.in1) id
    (hF g.in0).1 (hF g.in0).2 (hF g.in1).1 (hF g.in1).2
  refine ⟨fun w => ?_, hr⟩
  simp only [garbleGate]
  rcases Store.get_set_cases gw g.out w
    (garbleCore (symHash σ code) (symR σ) g.op (gw.get g.in0) (gw.get g.in1) id).1 with h | h
  · rw [h]; exact ⟨h0, h1⟩
  · rw [h]; exact hF w

theorem gates_fin (σ : Atom Code → Bool) (code : SymL Code → Code) (gs : List Gate) :
    ∀ (gw : Store (WireL (SymL Code))) (id : Nat), StoreFin gw →
      StoreFin (garbleGates (symHash σ code) (symR σ) gs gw id).1 ∧
      ∀ rows ∈ (garbleGates (symHash σ code) (symR σ) gs gw id).2.2, ∀ row ∈ rows, FinSupp row := by
  induction gs with
  | nil =>
    intro gw id hF
    refine ⟨hF, ?_⟩
    intro rows hrows
    simp [garbleGates] at hrows
  | cons g gs ih =>
    intro gw id hF
    obtain ⟨hF1, hr1⟩ := garbleGate_fin σ code g gw id hF
    obtain ⟨hF2, hr2⟩ := ih _ (garbleGate (symHash σ code) (symR σ) g gw id).2.1 hF1
    rw [garbleGates_cons]
    refine ⟨hF2, ?_⟩
    intro rows hrows
    simp only [List.mem_cons] at hrows
    rcases hrows with h | h
    · subst h; exact hr1
    · exact hr2 rows h

/-! ### Every hash atom the functional counts is a query on an inactive label -/

/-- The hash atom `a` is a query one of whose arguments has the code of a label
satisfying `P`. -/
def HotH (code : SymL Code → Code) (P : SymL Code → Prop) : Atom Code → Prop
  | .R => False
  | .inp _ => False
  | .h1 _ c => ∃ y, P y ∧ c = code y
  | .h2 _ c1 c2 => ∃ y, P y ∧ (c1 = code y ∨ c2 = code y)

theorem HotH.mono {code : SymL Code → Code} {P Q : SymL Code → Prop} (h : ∀ y, P y → Q y)
    {a : Atom Code} (ha : HotH code P a) : HotH code Q a := by
  cases a with
  | R => exact ha
  | inp i => exact ha
  | h1 t c => obtain ⟨y, hy, hc⟩ := ha; exact ⟨y, h y hy, hc⟩
  | h2 t c1 c2 => obtain ⟨y, hy, hc⟩ := ha; exact ⟨y, h y hy, hc⟩

/-- The label of a wire for the complement of its plain value: finitely
supported, below the current tweak, and the functional is 1 on it. -/
theorem inactive_hot (σ : Atom Code → Bool) (S : List (Atom Code)) (w : WireL (SymL Code)) (v : Bool)
    (id : Nat) (h1 : w.l1 = w.l0 ^^^ symR σ) (hp : phi S w.l0 = v) (hB : Below id w.l0)
    (hF0 : FinSupp w.l0) (hF1 : FinSupp w.l1) (hR : phi S (symR σ) = true) :
    FinSupp (w.labelFor (!v)) ∧ Below id (w.labelFor (!v)) ∧ phi S (w.labelFor (!v)) = true := by
  cases v with
  | true =>
    simp only [WireL.labelFor, Bool.not_true, Bool.false_eq_true, if_false]
    exact ⟨hF0, hB, hp⟩
  | false =>
    simp only [WireL.labelFor, Bool.not_false, if_true]
    refine ⟨hF1, ?_, ?_⟩
    · rw [h1]; exact hB.xor (symR_below σ id)
    · rw [h1, phi_xor, hp, hR]; rfl

theorem newAtoms_hot (σ : Atom Code → Bool) (code : SymL Code → Code) (S : List (Atom Code))
    (op : Op) (a b : WireL (SymL Code)) (va vb : Bool) (id : Nat)
    (ha1 : a.l1 = a.l0 ^^^ symR σ) (hpa : phi S a.l0 = va) (hBa : Below id a.l0)
    (hFa : FinSupp a.l0 ∧ FinSupp a.l1) (hFb : FinSupp b.l0 ∧ FinSupp b.l1)
    (hb : op.binary = true → b.l1 = b.l0 ^^^ symR σ ∧ phi S b.l0 = vb ∧ Below id b.l0)
    (hR : phi S (symR σ) = true) :
    ∀ x ∈ newAtoms code op a b va vb id,
      HotH code (fun y => FinSupp y ∧ Below id y ∧ phi S y = true) x := by
  have hia := inactive_hot σ S a va id ha1 hpa hBa hFa.1 hFa.2 hR
  cases op
  case xor => intro x hx; simp [newAtoms] at hx
  case xnor => intro x hx; simp [newAtoms] at hx
  case inv =>
    intro x hx
    simp only [newAtoms, List.mem_singleton] at hx
    subst hx
    exact ⟨_, hia, Or.inl rfl⟩
  case and =>
    obtain ⟨hb1, hpb, hBb⟩ := hb rfl
    have hib := inactive_hot σ S b vb id hb1 hpb hBb hFb.1 hFb.2 hR
    intro x hx
    simp only [newAtoms, List.mem_append] at hx
    rcases hx with hx | hx
    · split at hx
      · simp only [List.mem_singleton] at hx; subst hx; exact ⟨_, hia, rfl⟩
      · simp at hx
    · split at hx
      · simp only [List.mem_singleton] at hx; subst hx; exact ⟨_, hib, rfl⟩
      · simp at hx
  case or =>
    obtain ⟨hb1, hpb, hBb⟩ := hb rfl
    have hib := inactive_hot σ S b vb id hb1 hpb hBb hFb.1 hFb.2 hR
    intro x hx
    simp only [newAtoms, List.mem_map, List.mem_filter, Bool.and_eq_true, Bool.or_eq_true,
      bne_iff_ne, ne_eq] at hx
    obtain ⟨q, ⟨_, hq, _⟩, rfl⟩ := hx
    rcases hq with hq | hq
    · have : q.1 = !va := by cases h : q.1 <;> cases va <;> simp_all
      rw [this]
      exact ⟨_, hia, Or.inl rfl⟩
    · have : q.2 = !vb := by cases h : q.2 <;> cases vb <;> simp_all
      rw [this]
      exact ⟨_, hib, Or.inr rfl⟩

theorem wfFrom_single (n : Nat) (g : Gate) (gs : List Gate) (D : Nat → Bool)
    (h : wfFrom n (g :: gs) D = true) :
    wfFrom n [g] D = true ∧ wfFrom n gs (fun w => w == g.out || D w) = true := by
  simp only [wfFrom, Bool.and_eq_true] at h ⊢
  exact ⟨⟨h.1, trivial⟩, h.2⟩

/-- Every atom of the functional built along the gate list is either one it
started with or a hash query on a finitely supported label on which the FINAL
functional is 1. -/
theorem gates_hot (σ : Atom Code → Bool) (hσ : σ .R = true) (code : SymL Code → Code)
    (hsep : Separates σ code) (n : Nat) (gs : List Gate) :
    ∀ (D : Nat → Bool) (gw : Store (WireL (SymL Code))) (pv : Store Bool) (id : Nat)
      (S : List (Atom Code)),
      gw.size = n → pv.size = n → wfFrom n gs D = true → InvS σ D gw pv id S → StoreFin gw →
      ∀ x ∈ phiGates σ code gs gw pv id S, x ∈ S ∨
        HotH code (fun y => FinSupp y ∧ phi (phiGates σ code gs gw pv id S) y = true) x := by
  induction gs with
  | nil =>
    intro D gw pv id S _ _ _ _ _ x hx
    exact Or.inl hx
  | cons g gs ih =>
    intro D gw pv id S hg hp hwf hinv hF x hx
    obtain ⟨hwf1, hwfr⟩ := wfFrom_single n g gs D hwf
    -- the state after this gate, from `gates_phi` on the one-gate list
    have h1 := gates_phi σ hσ code hsep n [g] D gw pv id S hg hp hwf1 hinv
    have hinv1 : InvS σ (fun w => w == g.out || D w)
        (garbleGate (symHash σ code) (symR σ) g gw id).1 (g.evalPlain pv) (id + g.op.tweaks)
        (S ++ newAtoms code g.op (gw.get g.in0) (gw.get g.in1) (pv.get g.in0) (pv.get g.in1) id) :=
      h1.2.1
    -- stability of the final functional on labels below the current tweak
    have hstab := (gates_phi σ hσ code hsep n (g :: gs) D gw pv id S hg hp hwf hinv).2.2.1
    have hF1 := (garbleGate_fin σ code g gw id hF).1
    have hrec := ih (fun w => w == g.out || D w) (garbleGate (symHash σ code) (symR σ) g gw id).1
      (g.evalPlain pv) (id + g.op.tweaks)
      (S ++ newAtoms code g.op (gw.get g.in0) (gw.get g.in1) (pv.get g.in0) (pv.get g.in1) id)
      (by simp [garbleGate, hg]) (by simp [Gate.evalPlain, hp]) hwfr hinv1 hF1 x hx
    rcases hrec with hmem | hhot
    · rcases List.mem_append.mp hmem with hS | hN
      · exact Or.inl hS
      · right
        simp only [wfFrom, Bool.and_eq_true, decide_eq_true_eq, Bool.or_eq_true,
          Bool.not_eq_true'] at hwf
        obtain ⟨⟨⟨⟨⟨hd0, hd1⟩, _⟩, _⟩, _⟩, _⟩ := hwf
        obtain ⟨hwires, _, hR⟩ := hinv
        obtain ⟨ha1, hpa, hBa⟩ := hwires g.in0 hd0
        have hb : g.op.binary = true → (gw.get g.in1).l1 = (gw.get g.in1).l0 ^^^ symR σ ∧
            phi S (gw.get g.in1).l0 = pv.get g.in1 ∧ Below id (gw.get g.in1).l0 := by
          intro hbin
          cases hd1 with
          | inl h => rw [hbin] at h; cases h
          | inr h => exact hwires g.in1 h
        have := newAtoms_hot σ code S g.op (gw.get g.in0) (gw.get g.in1) (pv.get g.in0)
          (pv.get g.in1) id ha1 hpa hBa (hF g.in0) (hF g.in1) hb hR x hN
        refine HotH.mono ?_ this
        intro y ⟨hFy, hBy, hpy⟩
        exact ⟨hFy, by rw [hstab y hBy]; exact hpy⟩
    · exact Or.inr hhot

/-! ### The functional vanishes on the whole closure -/

open Classical in
/-- **Core of C16 (symbolic).**  For a well-formed two-party circuit, every
input pair, every valuation of the select bits with `σ R = true` and every hash
model that separates and is faithful on finitely supported labels, there is a
GF(2)-linear functional that
  * is 1 on the offset,
  * on every defined wire takes the PLAIN VALUE of the wire on its zero-label
    (and the wire's pair differs by the offset), and
  * is 0 on every label derivable from the evaluator's view. -/
theorem derivable_phi (σ : Atom Code → Bool) (hσ : σ .R = true) (code : SymL Code → Code)
    (hsep : Separates σ code) (hfaith : CodeFaithful code) (p : Circuit2) (hwf : p.WF = true)
    (key : List UInt8) (x y : List Bool) (hx : x.length = p.n0) :
    ∃ S : List (Atom Code), phi S (symR σ) = true ∧
      (∀ w, p.c.defined w = true →
        ((p.c.garble (symHash σ code) (symR σ) (symInl σ)).wires.get w).l1 =
          ((p.c.garble (symHash σ code) (symR σ) (symInl σ)).wires.get w).l0 ^^^ symR σ ∧
        phi S ((p.c.garble (symHash σ code) (symR σ) (symInl σ)).wires.get w).l0 =
          (p.c.plainEval (x ++ y)).get w) ∧
      ∀ t, Derivable σ code p.c.nIn
          (evaluatorView p key (p.c.garble (symHash σ code) (symR σ) (symInl σ)) x y) t →
        phi S t = false := by
  simp only [Circuit2.WF, Bool.and_eq_true, decide_eq_true_eq] at hwf
  obtain ⟨⟨⟨hcwf, hn⟩, _⟩, _⟩ := hwf
  have hcwf' := hcwf
  simp only [Circuit.WF, Bool.and_eq_true, decide_eq_true_eq, List.all_eq_true] at hcwf'
  obtain ⟨⟨⟨hnin, _⟩, hwfg⟩, _⟩ := hcwf'
  let xy := x ++ y
  let ws0 : Store (WireL (SymL Code)) :=
    (Array.range p.c.numWires).map fun i =>
      if i < p.c.nIn then ⟨symInl σ i, symInl σ i ^^^ symR σ⟩ else default
  let pv0 := initStore p.c.numWires false (xy.take p.c.nIn)
  have hG : p.c.garble (symHash σ code) (symR σ) (symInl σ) =
      { r := symR σ, wires := (garbleGates (symHash σ code) (symR σ) p.c.gates ws0 0).1,
        rows := (garbleGates (symHash σ code) (symR σ) p.c.gates ws0 0).2.2 } := rfl
  -- initial invariant (as in `C04_whole_circuit`)
  have hinv0 : InvS σ p.c.inputDefined ws0 pv0 0 (S0 p.c.nIn xy) := by
    refine ⟨?_, ?_, ?_⟩
    · intro w hw
      simp only [Circuit.inputDefined, decide_eq_true_eq] at hw
      have hwn : w < p.c.numWires := by omega
      simp only [ws0, pv0, initStore]
      rw [get_range_map' _ _ _ hwn, get_range_map' _ _ _ hwn]
      simp only [hw, if_true, true_and]
      refine ⟨?_, ?_⟩
      · simp only [S0, symInl, phi_cons, atom_f]
        rw [phi_inputs]
        have : (List.take p.c.nIn xy).getD w false = xy.getD w false := by
          simp [List.getD, hw]
        rw [this]
        have h2 : ¬ (Atom.R : Atom Code) = Atom.inp w := by intro h; cases h
        simp [h2, hw]
      · exact Below.atom σ _ 0 (by intro t h; cases h)
    · intro a ha t hat
      simp only [S0, List.mem_cons, List.mem_map] at ha
      rcases ha with h | ⟨i, _, h⟩
      · subst h; cases hat
      · subst h; cases hat
    · simp only [S0, symR, phi_cons, atom_f, phi_inputs_R]
      simp
  -- the initial store is finitely supported
  have hF0 : StoreFin ws0 := by
    intro w
    by_cases hwn : w < p.c.numWires
    · simp only [ws0]
      rw [get_range_map' _ _ _ hwn]
      by_cases hw : w < p.c.nIn
      · simp only [hw, if_true]
        exact ⟨FinSupp.atom σ _, (FinSupp.atom σ _).xor (FinSupp.symR σ)⟩
      · simp only [hw, if_false]
        exact ⟨FinSupp.zero, FinSupp.zero⟩
    · have : ws0.get w = default := by
        simp only [Store.get, Array.getD, ws0]
        rw [dif_neg (by simpa using hwn)]
      rw [this]
      exact ⟨FinSupp.zero, FinSupp.zero⟩
  obtain ⟨hrows, hinv, hstab, _⟩ := gates_phi σ hσ code hsep p.c.numWires p.c.gates p.c.inputDefined
    ws0 pv0 0 (S0 p.c.nIn xy) (by simp [ws0]) (by simp [pv0, initStore]) hwfg hinv0
  have hhot := gates_hot σ hσ code hsep p.c.numWires p.c.gates p.c.inputDefined
    ws0 pv0 0 (S0 p.c.nIn xy) (by simp [ws0]) (by simp [pv0, initStore]) hwfg hinv0 hF0
  obtain ⟨hFw, hFr⟩ := gates_fin σ code p.c.gates ws0 0 hF0
  -- abbreviation for the final functional
  generalize hSf : phiGates σ code p.c.gates ws0 pv0 0 (S0 p.c.nIn xy) = Sf at hrows hinv hstab hhot
  refine ⟨Sf, hinv.2.2, ?_, ?_⟩
  · intro w hw
    obtain ⟨h1, h2, _⟩ := hinv.1 w hw
    rw [hG]
    exact ⟨h1, h2⟩
  -- value of the functional on the active label of an input wire
  have hact : ∀ i, i < p.c.nIn →
      phi Sf (((p.c.garble (symHash σ code) (symR σ) (symInl σ)).wires.get i).labelFor
          (xy.getD i false)) = false := by
    intro i hi
    rw [garble_input_wires _ p.c _ _ hcwf i hi]
    have hB : Below 0 (symInl σ i) := Below.atom σ _ 0 (by intro t h; cases h)
    have h0 : phi (S0 p.c.nIn xy) (symInl σ i) = xy.getD i false := by
      simp only [S0, symInl, phi_cons, atom_f]
      rw [phi_inputs]
      have h2 : ¬ (Atom.R : Atom Code) = Atom.inp i := by intro h; cases h
      simp [h2, hi]
    cases hb : xy.getD i false with
    | false =>
      simp only [WireL.labelFor, Bool.false_eq_true, if_false]
      rw [hstab _ hB, h0, hb]
    | true =>
      simp only [WireL.labelFor, if_true]
      rw [phi_xor, hstab _ hB, h0, hb, hinv.2.2]
      rfl
  -- hash atoms of the functional: queries on labels where the functional is 1
  have hhot' : ∀ a ∈ Sf, HotH code (fun y => FinSupp y ∧ phi Sf y = true) a ∨ a.tweak = none := by
    intro a ha
    rcases hhot a ha with h | h
    · right
      simp only [S0, List.mem_cons, List.mem_map] at h
      rcases h with h | ⟨i, _, h⟩
      · subst h; rfl
      · subst h; rfl
    · exact Or.inl h
  -- the view: finitely supported and killed
  have hview : ∀ t ∈ evaluatorView p key (p.c.garble (symHash σ code) (symR σ) (symInl σ)) x y,
      FinSupp t ∧ phi Sf t = false := by
    intro t ht
    have hlab : ∀ i b, FinSupp (((p.c.garble (symHash σ code) (symR σ) (symInl σ)).wires.get i).labelFor b) := by
      intro i b
      rw [hG]
      cases b
      · exact (hFw i).1
      · exact (hFw i).2
    simp only [evaluatorView, List.mem_append] at ht
    rcases ht with ht | ht
    · rcases mem_msgLabels_flight1 p key _ x t ht with ⟨rows, hr, htr⟩ | hin
      · rw [hG] at hr
        exact ⟨hFr rows hr t htr, hrows rows hr t htr⟩
      · simp only [garblerInputLabels, List.mem_map, List.mem_range] at hin
        obtain ⟨i, hi, rfl⟩ := hin
        refine ⟨hlab _ _, ?_⟩
        have := hact i (by omega)
        have hxi : xy.getD i false = x.getD i false := by
          simp only [xy, List.getD_eq_getElem?_getD]
          rw [List.getElem?_append_left (by omega)]
        rw [hxi] at this
        exact this
    · rw [List.zipWith_map_left, List.zipWith_map_right] at ht
      simp only [List.zipWith_self, List.mem_map, List.mem_range] at ht
      obtain ⟨i, hi, rfl⟩ := ht
      refine ⟨hlab _ _, ?_⟩
      have := hact (p.n0 + i) (by omega)
      have hyi : xy.getD (p.n0 + i) false = y.getD i false := by
        simp only [xy, List.getD_eq_getElem?_getD]
        rw [List.getElem?_append_right (by omega), hx]
        simp
      rw [hyi] at this
      exact this
  -- induction over the closure
  have hcl : ∀ t, Derivable σ code p.c.nIn
      (evaluatorView p key (p.c.garble (symHash σ code) (symR σ) (symInl σ)) x y) t →
      FinSupp t ∧ phi Sf t = false := by
    intro t ht
    induction ht with
    | view h => exact hview _ h
    | zero => exact ⟨FinSupp.zero, phi_zero _⟩
    | fresh j hj =>
      refine ⟨FinSupp.atom σ _, ?_⟩
      have hB : Below 0 (atom σ (Atom.inp j : Atom Code)) := Below.atom σ _ 0 (by intro t h; cases h)
      rw [← hSf] at hstab ⊢
      rw [hstab _ hB]
      simp only [S0, phi_cons, atom_f]
      rw [phi_inputs]
      have h2 : ¬ (Atom.R : Atom Code) = Atom.inp j := by intro h; cases h
      have h3 : ¬ j < p.c.nIn := by omega
      simp [h2, h3]
    | xor _ _ iha ihb =>
      refine ⟨iha.1.xor ihb.1, ?_⟩
      rw [phi_xor, iha.2, ihb.2]; rfl
    | sel s _ ih =>
      exact ⟨ih.1, (phi_congr Sf _ _ (fun _ => rfl)).trans ih.2⟩
    | @h1 a t _ ih =>
      refine ⟨FinSupp.atom σ _, ?_⟩
      apply phi_atom_notin
      intro hmem
      rcases hhot' _ hmem with ⟨z, ⟨hFz, hpz⟩, hc⟩ | h
      · have := phi_congr Sf a z (hfaith a z ih.1 hFz hc)
        rw [ih.2, hpz] at this
        cases this
      · cases h
    | @h2 a b t _ _ iha ihb =>
      refine ⟨FinSupp.atom σ _, ?_⟩
      apply phi_atom_notin
      intro hmem
      rcases hhot' _ hmem with ⟨z, ⟨hFz, hpz⟩, hc | hc⟩ | h
      · have := phi_congr Sf a z (hfaith a z iha.1 hFz hc)
        rw [iha.2, hpz] at this
        cases this
      · have := phi_congr Sf b z (hfaith b z ihb.1 hFz hc)
        rw [ihb.2, hpz] at this
        cases this
      · cases h
  exact fun t ht => (hcl t ht).2

/-! ### A hash model satisfying the hypotheses: the free term algebra

Codes are finite sets of terms (as lists) with a select bit; a term is `R`, an
input atom, or a hash applied to codes.  `Atom TCode` and `Tm` are in bijection
(`toTm`), and the code of a finitely supported label is a list enumerating
exactly its atoms, together with its select bit. -/

inductive Tm where
  | R
  | inp (i : Nat)
  | h1 (t : Nat) (l : List Tm) (s : Bool)
  | h2 (t : Nat) (l1 : List Tm) (s1 : Bool) (l2 : List Tm) (s2 : Bool)

abbrev TCode := List Tm × Bool

def toTm : Atom TCode → Tm
  | .R => .R
  | .inp i => .inp i
  | .h1 t c => .h1 t c.1 c.2
  | .h2 t c1 c2 => .h2 t c1.1 c1.2 c2.1 c2.2

theorem toTm_inj (a b : Atom TCode) (h : toTm a = toTm b) : a = b := by
  cases a <;> cases b <;> simp only [toTm, reduceCtorEq, Tm.inp.injEq, Tm.h1.injEq, Tm.h2.injEq] at h
  · rfl
  · rw [h]
  · obtain ⟨h1, h2, h3⟩ := h
    subst h1
    congr 1
    exact Prod.ext h2 h3
  · obtain ⟨h1, h2, h3, h4, h5⟩ := h
    subst h1
    congr 1
    · exact Prod.ext h2 h3
    · exact Prod.ext h4 h5

/-- The list `l` enumerates exactly the atoms of `x`. -/
def Enumerates (x : SymL TCode) (l : List Tm) : Prop := ∀ a, x.f a = true ↔ toTm a ∈ l

theorem FinSupp.enumerates {x : SymL TCode} (hx : FinSupp x) : ∃ l, Enumerates x l := by
  obtain ⟨l0, hl0⟩ := hx
  refine ⟨(l0.filter fun a => x.f a).map toTm, fun a => ?_⟩
  simp only [List.mem_map, List.mem_filter]
  constructor
  · intro h
    exact ⟨a, ⟨hl0 a h, h⟩, rfl⟩
  · rintro ⟨b, ⟨_, hb⟩, hab⟩
    rw [← toTm_inj b a hab]
    exact hb

open Classical in
/-- The term coding: an enumeration of the atoms (chosen once per label) and the
select bit. -/
noncomputable def termCode : SymL TCode → TCode := fun x =>
  if h : ∃ l, Enumerates x l then (Classical.choose h, x.s) else ([], x.s)

theorem termCode_faithful : CodeFaithful termCode := by
  intro x y hx hy hc a
  have hex := hx.enumerates
  have hey := hy.enumerates
  simp only [termCode, dif_pos hex, dif_pos hey, Prod.mk.injEq] at hc
  have h1 := Classical.choose_spec hex a
  have h2 := Classical.choose_spec hey a
  rw [hc.1] at h1
  cases hxa : x.f a <;> cases hya : y.f a <;> simp_all

theorem termCode_separates (σ : Atom TCode → Bool) (hσ : σ .R = true) : Separates σ termCode := by
  intro x h
  have hs : (termCode x).2 = (termCode (x ^^^ symR σ)).2 := by rw [← h]
  have e1 : ∀ z : SymL TCode, (termCode z).2 = z.s := by
    intro z
    simp only [termCode]
    split <;> rfl
  rw [e1, e1] at hs
  have : (x ^^^ symR σ).s = (x.s != σ .R) := rfl
  rw [this, hσ] at hs
  cases hxs : x.s <;> simp [hxs] at hs

/-! ### The closure contains every evaluation of any circuit on derivable data

The adversary may run `Circuit.Eval` — of the agreed circuit or of any other —
on any derivable table rows and any derivable input labels: every label the
evaluation produces is derivable. -/

section Eval
variable {σ : Atom Code → Bool} {code : SymL Code → Code} {nIn : Nat} {V : List (SymL Code)}

theorem Derivable.evalCore (op : Op) (row : List (SymL Code)) (a b : SymL Code) (id : Nat)
    (hrow : ∀ r ∈ row, Derivable σ code nIn V r) (ha : Derivable σ code nIn V a)
    (hb : Derivable σ code nIn V b) (e : SymL Code)
    (h : Mpc.evalCore (symHash σ code) op row a b id = .ok e) : Derivable σ code nIn V e := by
  cases op
  case xor => simp only [Mpc.evalCore, Except.ok.injEq] at h; subst h; exact ha.xor hb
  case xnor => simp only [Mpc.evalCore, Except.ok.injEq] at h; subst h; exact ha.xor hb
  case and =>
    match row, hrow, h with
    | [tg, te], hrow, h =>
      have htg := hrow tg (by simp)
      have hte := hrow te (by simp)
      simp only [Mpc.evalCore, Except.ok.injEq] at h
      subst h
      apply Derivable.xor
      · split
        · exact (ha.h1 id).xor htg
        · exact ha.h1 id
      · split
        · exact ((hb.h1 (id + 1)).xor hte).xor ha
        · exact hb.h1 (id + 1)
    | [], _, h => simp [Mpc.evalCore] at h
    | [_], _, h => simp [Mpc.evalCore] at h
    | _ :: _ :: _ :: _, _, h => simp [Mpc.evalCore] at h
  case or =>
    simp only [Mpc.evalCore] at h
    split at h
    · split at h
      · simp only [Except.ok.injEq] at h; subst h
        exact (hrow _ (List.getElem_mem _)).xor (ha.h2 id hb)
      · cases h
    · simp only [Except.ok.injEq] at h; subst h
      exact Derivable.zero.xor (ha.h2 id hb)
  case inv =>
    simp only [Mpc.evalCore] at h
    split at h
    · split at h
      · simp only [Except.ok.injEq] at h; subst h
        exact (hrow _ (List.getElem_mem _)).xor (ha.h2 id Derivable.zero)
      · cases h
    · simp only [Except.ok.injEq] at h; subst h
      exact Derivable.zero.xor (ha.h2 id Derivable.zero)

theorem Derivable.evalGates (gs : List Gate) :
    ∀ (rows : List (List (SymL Code))) (ws : Store (SymL Code)) (id : Nat) (ws' : Store (SymL Code))
      (id' : Nat),
      (∀ row ∈ rows, ∀ r ∈ row, Derivable σ code nIn V r) → (∀ w, Derivable σ code nIn V (ws.get w)) →
      evalGates (symHash σ code) gs rows ws id = .ok (ws', id') →
      ∀ w, Derivable σ code nIn V (ws'.get w) := by
  induction gs with
  | nil =>
    intro rows ws id ws' id' _ hws h
    simp only [Mpc.evalGates, Except.ok.injEq, Prod.mk.injEq] at h
    rw [← h.1]; exact hws
  | cons g gs ih =>
    intro rows ws id ws' id' hrows hws h
    cases rows with
    | nil => simp [Mpc.evalGates] at h
    | cons row rows =>
      simp only [Mpc.evalGates, evalGate] at h
      cases hc : Mpc.evalCore (symHash σ code) g.op row (ws.get g.in0) (ws.get g.in1) id with
      | error e => rw [hc] at h; simp at h
      | ok l =>
        rw [hc] at h
        simp only at h
        have hl := Derivable.evalCore g.op row _ _ id (hrows row (by simp)) (hws g.in0) (hws g.in1) l hc
        refine ih rows _ _ ws' id' (fun r hr => hrows r (List.mem_cons_of_mem _ hr)) ?_ h
        intro w
        rcases Store.get_set_cases ws g.out w l with h' | h'
        · rw [h']; exact hl
        · rw [h']; exact hws w

/-- `evaluatorEval` (the evaluator's whole computation after the OT) on derivable
rows and derivable input labels returns derivable output labels — whatever the
circuit. -/
theorem Derivable.evaluatorEval (q : Circuit2) (rows : List (List (SymL Code)))
    (inl otl outs : List (SymL Code))
    (hrows : ∀ row ∈ rows, ∀ r ∈ row, Derivable σ code nIn V r)
    (hinl : ∀ l ∈ inl ++ otl, Derivable σ code nIn V l)
    (h : evaluatorEval q (symHash σ code) rows inl otl = .ok outs) :
    ∀ l ∈ outs, Derivable σ code nIn V l := by
  simp only [Mpc.evaluatorEval, Circuit.evalGarbled] at h
  cases hg : Mpc.evalGates (symHash σ code) q.c.gates rows
      (initStore q.c.numWires (LabelAlg.zero : SymL Code) (inl ++ otl)) 0 with
  | error e => rw [hg] at h; simp at h
  | ok r =>
    obtain ⟨ws', id'⟩ := r
    rw [hg] at h
    simp only [Except.ok.injEq] at h
    subst h
    have h0 : ∀ w, Derivable σ code nIn V
        ((initStore q.c.numWires (LabelAlg.zero : SymL Code) (inl ++ otl)).get w) := by
      intro w
      by_cases hw : w < q.c.numWires
      · simp only [initStore]
        rw [get_range_map' _ _ _ hw, List.getD_eq_getElem?_getD]
        cases hgt : (inl ++ otl)[w]? with
        | none => exact Derivable.zero
        | some l => exact hinl l (List.mem_of_getElem? hgt)
      · rw [Store.get_of_size_le _ _ (by simp [initStore]; omega)]
        exact Derivable.zero
    have hall := Derivable.evalGates q.c.gates rows _ 0 ws' id' hrows h0 hg
    intro l hl
    simp only [List.mem_map] at hl
    obtain ⟨i, _, rfl⟩ := hl
    exact hall _

end Eval

end Mpc.Sym

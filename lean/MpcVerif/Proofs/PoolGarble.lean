/-
The scratch-pool model instantiated with the garbling of C01: a scratch buffer
holds the wire-pair table and the per-gate row slices, a Garble call is the
sequence of writes of `Circuit.Garble` (circuit/garble.go): one write per input
wire (`wires[i] = w`), then one per gate (`gate.garbleInto` writes
`wires[g.Output]`; the loop body copies the rows into the slab and sets
`gates[i]`).  Shows that on a well-formed circuit the result does not depend
on the stale contents of a reused scratch and equals `Circuit.garble` of
`Model/Garble.lean`, the function the C01 theorems are about.
-/
import MpcVerif.Proofs.Pool
import MpcVerif.Proofs.Garble

namespace Mpc.Pool
open Mpc LabelAlg

variable {L : Type} [LabelAlg L]

/-- Contents of a `garbledScratch`: `wires`, and `gates[i]` (the slab is the
backing store of the row slices and is not observable separately). -/
structure GMem (L : Type) where
  wires  : Store (WireL L)
  tables : Nat → List L

/-- What determines a Garble call: the key (through the hash functions), and
the random tape (offset `r` after `SetS(true)`, input zero-labels). -/
structure GJob (L : Type) where
  H   : Hash L
  r   : L
  inl : Nat → L

/-- `wires[i] = makeLabels(rand, r)` -/
def inputWrite (j : GJob L) (i : Nat) : GMem L → GMem L :=
  fun m => { m with wires := m.wires.set i ⟨j.inl i, j.inl i ^^^ j.r⟩ }

/-- One iteration of the gate loop of `Circuit.Garble` for gate number `i`
with tweak counter `id`. -/
def gateWrite (j : GJob L) (g : Gate) (i id : Nat) : GMem L → GMem L :=
  fun m =>
    { wires := (garbleGate j.H j.r g m.wires id).1,
      tables := fun k => if k = i then (garbleGate j.H j.r g m.wires id).2.2 else m.tables k }

def gateWrites (j : GJob L) : List Gate → Nat → Nat → List (GMem L → GMem L)
  | [], _, _ => []
  | g :: gs, i, id => gateWrite j g i id :: gateWrites j gs (i + 1) (id + g.op.tweaks)

def garbleProg (c : Circuit) (j : GJob L) : List (GMem L → GMem L) :=
  (List.range c.nIn).map (inputWrite j) ++ gateWrites j c.gates 0 0

/-- The pool model for circuit `c`. -/
def garbleParams (c : Circuit) : Params (GMem L) (GJob L) :=
  { fresh := { wires := Array.replicate c.numWires default, tables := fun _ => [] },
    prog := garbleProg c }

def AgreeOn (D : Nat → Bool) (a b : Store (WireL L)) : Prop :=
  ∀ w, D w = true → a.get w = b.get w

/-- The gate loop on a scratch whose wire table agrees with the reference
store on the defined wires: same rows, and the tables agree on the wires
defined afterwards. -/
theorem gateWrites_agree (j : GJob L) (n : Nat) (gs : List Gate) :
    ∀ (D : Nat → Bool) (m : GMem L) (ws' : Store (WireL L)) (i id : Nat),
      m.wires.size = n → ws'.size = n → wfFrom n gs D = true → AgreeOn D m.wires ws' →
      ((gateWrites j gs i id).foldl (fun m f => f m) m).wires.size = n ∧
      AgreeOn (definedAfter gs D) ((gateWrites j gs i id).foldl (fun m f => f m) m).wires
        (garbleGates j.H j.r gs ws' id).1 ∧
      (∀ k, k < gs.length →
        ((gateWrites j gs i id).foldl (fun m f => f m) m).tables (i + k) =
          (garbleGates j.H j.r gs ws' id).2.2.getD k []) ∧
      (∀ k, k < i → ((gateWrites j gs i id).foldl (fun m f => f m) m).tables k = m.tables k) := by
  induction gs with
  | nil =>
    intro D m ws' i id hm _ _ hag
    exact ⟨hm, hag, fun k hk => absurd hk (Nat.not_lt_zero k), fun _ _ => rfl⟩
  | cons g gs ih =>
    intro D m ws' i id hm hw hwf hag
    simp only [wfFrom, Bool.and_eq_true, decide_eq_true_eq, Bool.or_eq_true,
      Bool.not_eq_true'] at hwf
    obtain ⟨⟨⟨⟨⟨hd0, hd1⟩, hi0⟩, hi1⟩, hout⟩, hrest⟩ := hwf
    -- the gate reads the same pairs in both stores
    have hcore : garbleCore j.H j.r g.op (m.wires.get g.in0) (m.wires.get g.in1) id =
        garbleCore j.H j.r g.op (ws'.get g.in0) (ws'.get g.in1) id := by
      rw [hag g.in0 hd0]
      cases hd1 with
      | inl h =>
        have : g.op = .inv := by
          cases hop : g.op <;> simp [Op.binary, hop] at h ⊢
        rw [this]; rfl
      | inr h => rw [hag g.in1 h]
    have hag1 : AgreeOn (fun w => w == g.out || D w) (gateWrite j g i id m).wires
        (garbleGate j.H j.r g ws' id).1 := by
      intro w hw'
      simp only [gateWrite, garbleGate]
      by_cases hwo : g.out = w
      · subst hwo
        rw [Store.get_set_eq _ _ _ (by omega), Store.get_set_eq _ _ _ (by omega), hcore]
      · rw [Store.get_set_ne _ _ _ _ hwo, Store.get_set_ne _ _ _ _ hwo]
        have : D w = true := by
          simp only [Bool.or_eq_true, beq_iff_eq] at hw'
          cases hw' with
          | inl h => exact absurd h.symm hwo
          | inr h => exact h
        exact hag w this
    obtain ⟨h1, h2, h3, h4⟩ := ih (fun w => w == g.out || D w) (gateWrite j g i id m)
      (garbleGate j.H j.r g ws' id).1 (i + 1) (id + g.op.tweaks)
      (by simp [gateWrite, garbleGate, hm]) (by simp [garbleGate, hw]) hrest hag1
    have hid : (garbleGate j.H j.r g ws' id).2.1 = id + g.op.tweaks := rfl
    simp only [gateWrites, List.foldl_cons]
    rw [garbleGates_cons]
    simp only [definedAfter, hid]
    refine ⟨h1, h2, ?_, ?_⟩
    · intro k hk
      cases k with
      | zero =>
        show _ = _
        have := h4 i (Nat.lt_succ_self i)
        simp only [Nat.add_zero] at this ⊢
        rw [this]
        simp only [gateWrite, garbleGate, if_true, List.getD_cons_zero]
        rw [hcore]
      | succ k =>
        have := h3 k (by simpa using hk)
        rw [show i + (k + 1) = i + 1 + k by omega, this]
        simp
    · intro k hk
      rw [h4 k (by omega)]
      simp only [gateWrite]
      rw [if_neg (by omega)]

theorem get_range_map' {α : Type} [Inhabited α] (n : Nat) (f : Nat → α) (i : Nat) (h : i < n) :
    Store.get ((Array.range n).map f) i = f i := by
  simp [Store.get, Array.getD, h]

/-- The input-wire loop. -/
theorem inputWrites_spec (j : GJob L) (n : Nat) :
    ∀ (k : Nat), k ≤ n → ∀ (m : GMem L), m.wires.size = n →
      (((List.range k).map (inputWrite j)).foldl (fun m f => f m) m).wires.size = n ∧
      (∀ w, w < k → (((List.range k).map (inputWrite j)).foldl (fun m f => f m) m).wires.get w =
          ⟨j.inl w, j.inl w ^^^ j.r⟩) ∧
      (((List.range k).map (inputWrite j)).foldl (fun m f => f m) m).tables = m.tables := by
  intro k
  induction k with
  | zero => intro _ m hm; exact ⟨hm, fun w hw => absurd hw (Nat.not_lt_zero w), rfl⟩
  | succ k ih =>
    intro hk m hm
    obtain ⟨h1, h2, h3⟩ := ih (by omega) m hm
    rw [List.range_succ, List.map_append, List.foldl_append]
    simp only [List.map_cons, List.map_nil, List.foldl_cons, List.foldl_nil, inputWrite]
    refine ⟨by simp [h1], ?_, h3⟩
    intro w hw
    by_cases hwk : k = w
    · subst hwk; rw [Store.get_set_eq _ _ _ (by omega)]
    · rw [Store.get_set_ne _ _ _ _ hwk]; exact h2 w (by omega)

/-- Every write keeps the size of the wire table. -/
theorem garbleProg_size (c : Circuit) (j : GJob L) (f : GMem L → GMem L) (hf : f ∈ garbleProg c j)
    (m : GMem L) (hm : m.wires.size = c.numWires) : (f m).wires.size = c.numWires := by
  simp only [garbleProg, List.mem_append, List.mem_map] at hf
  rcases hf with ⟨i, _, rfl⟩ | hf
  · simp [inputWrite, hm]
  · have : ∀ (gs : List Gate) (i id : Nat), f ∈ gateWrites j gs i id → (f m).wires.size = c.numWires := by
      intro gs
      induction gs with
      | nil => intro i id h; simp [gateWrites] at h
      | cons g gs ih =>
        intro i id h
        simp only [gateWrites, List.mem_cons] at h
        rcases h with rfl | h
        · simp [gateWrite, garbleGate, hm]
        · exact ih _ _ h
    exact this _ _ _ hf

/-- **Sequential Garble on any scratch = `Circuit.garble` of C01.**  For a
well-formed circuit, whatever the previous contents `m` of the scratch (of the
right size), the single-goroutine Garble leaves on every defined wire the pair
that `Circuit.garble` computes, and `gates[k]` is its row list of gate `k`. -/
theorem seqGarble_eq_garble (c : Circuit) (hwf : c.WF = true) (j : GJob L) (m : GMem L)
    (hm : m.wires.size = c.numWires) :
    (∀ w, c.defined w = true →
      (seqGarble (garbleParams c) j m).wires.get w = (c.garble j.H j.r j.inl).wires.get w) ∧
    (∀ k, k < c.gates.length →
      (seqGarble (garbleParams c) j m).tables k = (c.garble j.H j.r j.inl).rows.getD k []) := by
  simp only [Circuit.WF, Bool.and_eq_true, decide_eq_true_eq, List.all_eq_true] at hwf
  obtain ⟨⟨⟨hnin, _⟩, hwfg⟩, _⟩ := hwf
  let ws0 : Store (WireL L) :=
    (Array.range c.numWires).map fun i =>
      if i < c.nIn then ⟨j.inl i, j.inl i ^^^ j.r⟩ else default
  have hG : c.garble j.H j.r j.inl =
      { r := j.r, wires := (garbleGates j.H j.r c.gates ws0 0).1,
        rows := (garbleGates j.H j.r c.gates ws0 0).2.2 } := rfl
  obtain ⟨h1, h2, _⟩ := inputWrites_spec j c.numWires c.nIn hnin m hm
  have hag : AgreeOn c.inputDefined
      (((List.range c.nIn).map (inputWrite j)).foldl (fun m f => f m) m).wires ws0 := by
    intro w hw
    simp only [Circuit.inputDefined, decide_eq_true_eq] at hw
    rw [h2 w hw, get_range_map' _ _ _ (by omega)]
    simp [hw]
  obtain ⟨_, g2, g3, _⟩ := gateWrites_agree j c.numWires c.gates c.inputDefined _ ws0 0 0 h1
    (by simp [ws0]) hwfg hag
  have hseq : seqGarble (garbleParams c) j m =
      (gateWrites j c.gates 0 0).foldl (fun m f => f m)
        (((List.range c.nIn).map (inputWrite j)).foldl (fun m f => f m) m) := by
    simp [seqGarble, garbleParams, garbleProg, List.foldl_append]
  rw [hseq, hG]
  refine ⟨fun w hw => g2 w hw, fun k hk => ?_⟩
  have := g3 k hk
  simpa using this

theorem definedAfter_mono (gs : List Gate) : ∀ (D : Nat → Bool) (w : Nat), D w = true →
    definedAfter gs D w = true := by
  induction gs with
  | nil => intro D w h; exact h
  | cons g gs ih =>
    intro D w h
    simp only [definedAfter]
    exact ih _ w (by simp [h])

theorem input_defined (c : Circuit) (i : Nat) (h : i < c.nIn) : c.defined i = true :=
  definedAfter_mono c.gates c.inputDefined i (by simp [Circuit.inputDefined, h])

end Mpc.Pool

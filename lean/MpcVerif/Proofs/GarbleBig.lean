/-
Lemmas for Model/GarbleBig.lean: the buffer / counter view of `Circuit.Garble`
and the constant-stack loops equal the list model of Model/Garble.lean for
EVERY circuit (no size enters anywhere).
-/
import MpcVerif.Model.GarbleBig
import MpcVerif.Proofs.Garble

namespace Mpc
open LabelAlg

variable {L : Type} [LabelAlg L]

/-! ### constant-stack loops -/

theorem garbleGatesTR_eq (H : Hash L) (r : L) (gs : List Gate) :
    ∀ (ws : Store (WireL L)) (id : Nat) (acc : List (List L)),
      garbleGatesTR H r gs ws id acc =
        ((garbleGates H r gs ws id).1, (garbleGates H r gs ws id).2.1,
          acc.reverse ++ (garbleGates H r gs ws id).2.2) := by
  induction gs with
  | nil => intro ws id acc; simp [garbleGatesTR, garbleGates]
  | cons g gs ih =>
    intro ws id acc
    rw [garbleGates_cons]
    simp only [garbleGatesTR]
    rw [ih]
    simp

theorem garbleTR_eq (c : Circuit) (H : Hash L) (r : L) (inl : Nat → L) :
    c.garbleTR H r inl = c.garble H r inl := by
  simp only [Circuit.garbleTR, Circuit.garble]
  rw [garbleGatesTR_eq]
  simp

theorem encodeInputsFast_eq (c : Circuit) (G : Garbled L) (x : List Bool) :
    encodeInputsFast c G x = encodeInputs c G x := by
  simp [encodeInputsFast, encodeInputs, Array.getD_eq_getD_getElem?, List.getD_eq_getElem?_getD]

theorem initStoreFast_eq {α : Type} (n : Nat) (d : α) (l : List α) :
    initStoreFast n d l = initStore n d l := by
  simp [initStoreFast, initStore, Array.getD_eq_getD_getElem?, List.getD_eq_getElem?_getD]

theorem plainEvalFast_eq (c : Circuit) (x : List Bool) : c.plainEvalFast x = c.plainEval x := by
  simp [Circuit.plainEvalFast, Circuit.plainEval, initStoreFast_eq]

theorem computeFast_eq (c : Circuit) (x : List Bool) : c.computeFast x = c.compute x := by
  simp [Circuit.computeFast, Circuit.compute, plainEvalFast_eq]

/-! ### the stack table and its slice -/

/-- The rows of a gate are the slice `table[start : start+count]` of the stack
table, `start = Op.start`, `count = Op.rows`. -/
theorem garbleCore_rows_slice (H : Hash L) (r : L) (op : Op) (a b : WireL L) (id : Nat) :
    (garbleCore H r op a b id).2 = tabSlice (garbleSlots H r op a b id) op.start op.rows := by
  cases op <;>
    simp [garbleCore, garbleSlots, tabSlice, Op.start, Op.rows, List.range_succ, Tab.set]

/-- Row reduction: slot 0 of an OR / INV table, the row that is not
transmitted, is all zero (the evaluator's "first row is zero" convention). -/
theorem garbleSlots_row0_zero (H : Hash L) (r : L) (op : Op) (a b : WireL L) (id : Nat)
    (hop : op = .or ∨ op = .inv) : garbleSlots H r op a b id 0 = (LabelAlg.zero : L) := by
  rcases hop with h | h <;> subst h
  · by_cases h0 : idx a.l0 b.l0 = 0
    · simp [garbleSlots, h0]
    · have h0' : ¬ (0 = idx a.l0 b.l0) := fun e => h0 e.symm
      simp [garbleSlots, h0, h0']
  · by_cases h0 : idxUnary a.l0 = 0
    · simp [garbleSlots, h0]
    · have h0' : ¬ (0 = idxUnary a.l0) := fun e => h0 e.symm
      simp [garbleSlots, h0, h0']

/-! ### the slab -/

theorem flatten_drop_take {α : Type} (rows : List (List α)) (i : Nat) (h : i < rows.length) :
    (rows.flatten.drop ((rows.take i).map List.length).sum).take rows[i].length = rows[i] := by
  induction rows generalizing i with
  | nil => simp at h
  | cons row rows ih =>
    cases i with
    | zero => simp
    | succ i =>
      simp only [List.length_cons, Nat.add_lt_add_iff_right] at h
      simp only [List.take_succ_cons, List.map_cons, List.sum_cons, List.flatten_cons,
        List.getElem_cons_succ]
      rw [List.drop_append]
      have : row.length + ((rows.take i).map List.length).sum - row.length =
          ((rows.take i).map List.length).sum := by omega
      rw [List.drop_eq_nil_of_le (by omega), this, List.nil_append]
      exact ih i h

theorem garble_rows_lengths (c : Circuit) (H : Hash L) (r : L) (inl : Nat → L) :
    (c.garble H r inl).rows.map List.length = c.gates.map (fun g => g.op.rows) := by
  simp only [Circuit.garble]
  exact garbleGates_rows_length H r c.gates _ 0

theorem garble_rows_length (c : Circuit) (H : Hash L) (r : L) (inl : Nat → L) :
    (c.garble H r inl).rows.length = c.gates.length := by
  have := congrArg List.length (garble_rows_lengths c H r inl)
  simpa using this

/-- The slab `garbleScratchPool` allocates is exactly what the gate loop
writes: no overflow and no unused tail, for every circuit. -/
theorem garble_slab_length (c : Circuit) (H : Hash L) (r : L) (inl : Nat → L) :
    (c.garble H r inl).slab.length = slabSize c.gates := by
  simp only [Garbled.slab, List.length_flatten, slabSize]
  rw [garble_rows_lengths]

/-- Gate `i` owns `slab[slabOff i : slabOff i + rows(op)]`: reading that view
back gives the gate's table, wherever in the slab it lies. -/
theorem garble_slab_view (c : Circuit) (H : Hash L) (r : L) (inl : Nat → L) (i : Nat)
    (h : i < c.gates.length) :
    slabView (c.garble H r inl).slab (slabOff c.gates i) (c.gates[i]).op.rows =
      (c.garble H r inl).rows[i]'(by rw [garble_rows_length]; exact h) := by
  have hl := garble_rows_lengths c H r inl
  have hi : i < (c.garble H r inl).rows.length := by rw [garble_rows_length]; exact h
  have h1 : slabOff c.gates i = (((c.garble H r inl).rows.take i).map List.length).sum := by
    simp only [slabOff, slabSize]
    rw [List.map_take, List.map_take, hl]
  have h2 : (c.gates[i]).op.rows = ((c.garble H r inl).rows[i]).length := by
    have := congrArg (fun l => l[i]?) hl
    simp only [List.getElem?_map, List.getElem?_eq_getElem hi, List.getElem?_eq_getElem h,
      Option.map_some, Option.some.injEq] at this
    exact this.symm
  rw [slabView, Garbled.slab, h1, h2]
  exact flatten_drop_take _ i hi

/-- The views of different gates do not overlap: the offsets are increasing
by the row counts, and the last view ends at the slab size. -/
theorem slabOff_succ (gs : List Gate) (i : Nat) (h : i < gs.length) :
    slabOff gs (i + 1) = slabOff gs i + (gs[i]).op.rows := by
  simp only [slabOff, slabSize]
  rw [List.take_succ_eq_append_getElem h, List.map_append, List.sum_append]
  simp

theorem slabOff_length (gs : List Gate) : slabOff gs gs.length = slabSize gs := by
  simp [slabOff]

theorem rowsOfKind_garbleGates (k : Op) (H : Hash L) (r : L) (gs : List Gate) :
    ∀ (ws : Store (WireL L)) (id : Nat),
      rowsOfKind k gs (garbleGates H r gs ws id).2.2 = rowsOfKindSpec k gs := by
  induction gs with
  | nil => intro ws id; simp [rowsOfKind, rowsOfKindSpec, garbleGates]
  | cons g gs ih =>
    intro ws id
    rw [garbleGates_cons]
    have := ih (garbleGate H r g ws id).1 (garbleGate H r g ws id).2.1
    simp only [rowsOfKind, rowsOfKindSpec] at this ⊢
    simp only [List.zip_cons_cons, List.map_cons, List.sum_cons, this]
    simp [garbleGate, garbleCore_rows_length]

theorem rowsOfKindSpec_total (gs : List Gate) :
    rowsOfKindSpec .and gs + rowsOfKindSpec .or gs + rowsOfKindSpec .inv gs +
      rowsOfKindSpec .xor gs + rowsOfKindSpec .xnor gs = slabSize gs := by
  induction gs with
  | nil => simp [rowsOfKindSpec, slabSize]
  | cons g gs ih =>
    simp only [rowsOfKindSpec, slabSize, List.map_cons, List.sum_cons] at ih ⊢
    generalize (gs.map fun g => if g.op = Op.and then g.op.rows else 0).sum = s1 at ih ⊢
    generalize (gs.map fun g => if g.op = Op.or then g.op.rows else 0).sum = s2 at ih ⊢
    generalize (gs.map fun g => if g.op = Op.inv then g.op.rows else 0).sum = s3 at ih ⊢
    generalize (gs.map fun g => if g.op = Op.xor then g.op.rows else 0).sum = s4 at ih ⊢
    generalize (gs.map fun g => if g.op = Op.xnor then g.op.rows else 0).sum = s5 at ih ⊢
    generalize (gs.map fun g => g.op.rows).sum = t at ih ⊢
    cases hop : g.op <;> simp <;> omega

/-! ### the tweak counter -/

theorem tweaksU32_mod (gs : List Gate) : ∀ id : Nat,
    tweaksU32 gs (id % 2 ^ 32) = (id + tweakTotal gs) % 2 ^ 32 := by
  induction gs with
  | nil => intro id; simp [tweaksU32, tweakTotal]
  | cons g gs ih =>
    intro id
    simp only [tweaksU32, List.foldl_cons, tweakTotal, List.map_cons, List.sum_cons] at ih ⊢
    have h := ih (id % 2 ^ 32 + g.op.tweaks)
    rw [h]
    omega

theorem tweaksU32_exact (gs : List Gate) (id : Nat) (h : id + tweakTotal gs < 2 ^ 32) :
    tweaksU32 gs id = id + tweakTotal gs := by
  have h1 := tweaksU32_mod gs id
  rw [Nat.mod_eq_of_lt (by omega), Nat.mod_eq_of_lt h] at h1
  exact h1

theorem tweakTotal_take_le (gs : List Gate) (i : Nat) : tweakTotal (gs.take i) ≤ tweakTotal gs := by
  induction gs generalizing i with
  | nil => simp [tweakTotal]
  | cons g gs ih =>
    cases i with
    | zero => simp [tweakTotal]
    | succ i =>
      have := ih i
      simp only [tweakTotal, List.take_succ_cons, List.map_cons, List.sum_cons] at this ⊢
      omega

theorem tweakPrefix_aux (gs : List Gate) : ∀ (a : Array Nat) (s : Nat),
    (gs.foldl (fun (acc : Array Nat × Nat) g => (acc.1.push acc.2, acc.2 + g.op.tweaks)) (a, s)).1 =
      a ++ ((List.range gs.length).map fun i => s + tweakTotal (gs.take i)).toArray := by
  induction gs with
  | nil => intro a s; simp
  | cons g gs ih =>
    intro a s
    simp only [List.foldl_cons, ih, List.length_cons]
    rw [List.range_succ_eq_map]
    simp only [List.map_cons, List.take_zero, tweakTotal, List.map_nil, List.sum_nil, Nat.add_zero,
      List.map_map]
    apply Array.ext'
    simp only [Array.toList_append, Array.toList_push, List.append_assoc, List.singleton_append,
      List.append_cancel_left_eq, List.cons.injEq, true_and]
    apply List.map_congr_left
    intro i _
    simp [Function.comp, List.take_succ_cons, Nat.add_assoc]

/-- Entry `i` of the prefix array is the model's counter at gate `i`. -/
theorem tweakPrefix_getD (gs : List Gate) (i : Nat) (h : i < gs.length) :
    (tweakPrefix gs).getD i 0 = tweakTotal (gs.take i) := by
  simp only [tweakPrefix, tweakPrefix_aux]
  simp [Array.getD_eq_getD_getElem?, h]

/-! ### the local step -/

theorem garbleGates_rows_len (H : Hash L) (r : L) (gs : List Gate) (ws : Store (WireL L)) (id : Nat) :
    (garbleGates H r gs ws id).2.2.length = gs.length := by
  have := congrArg List.length (garbleGates_rows_length H r gs ws id)
  simpa using this

/-- Garbling `pre ++ g :: post` where `post` writes only wires above `g.out`
and `g` reads only wires below it: the final pairs of `g`'s wires are the ones
at the time `g` was garbled. -/
theorem garbleGates_split (H : Hash L) (r : L) (pre : List Gate) (g : Gate) (post : List Gate)
    (ws0 : Store (WireL L)) (h0 : g.in0 < g.out) (h1 : g.in1 < g.out) (hout : g.out < ws0.size)
    (hpost : ∀ g' ∈ post, g.out < g'.out) :
    garbleCore H r g.op ((garbleGates H r (pre ++ g :: post) ws0 0).1.get g.in0)
        ((garbleGates H r (pre ++ g :: post) ws0 0).1.get g.in1) (tweakTotal pre) =
      ((garbleGates H r (pre ++ g :: post) ws0 0).1.get g.out,
       ((garbleGates H r (pre ++ g :: post) ws0 0).2.2)[pre.length]?.getD []) := by
  obtain ⟨P, hP⟩ : ∃ P, P = garbleGates H r pre ws0 0 := ⟨_, rfl⟩
  have hid : P.2.1 = tweakTotal pre := by
    rw [hP, garbleGates_id]; simp [tweakTotal]
  have hsize : P.1.size = ws0.size := by rw [hP, garbleGates_size]
  have hl : P.2.2.length = pre.length := by rw [hP, garbleGates_rows_len]
  have happ := garbleGates_append H r pre (g :: post) ws0 0
  rw [garbleGates_cons, ← hP] at happ
  obtain ⟨S, hS⟩ : ∃ S, S = garbleGate H r g P.1 P.2.1 := ⟨_, rfl⟩
  rw [← hS] at happ
  have hS1 : S.1 = P.1.set g.out (garbleCore H r g.op (P.1.get g.in0) (P.1.get g.in1) P.2.1).1 := by
    rw [hS]; rfl
  have hS3 : S.2.2 = (garbleCore H r g.op (P.1.get g.in0) (P.1.get g.in1) P.2.1).2 := by
    rw [hS]; rfl
  have hframe : ∀ w, w ≤ g.out →
      (garbleGates H r (pre ++ g :: post) ws0 0).1.get w = S.1.get w := by
    intro w hw
    rw [happ]
    exact garbleGates_frame H r post w _ _ (fun g' hg' => by have := hpost g' hg'; omega)
  have hin0 : (garbleGates H r (pre ++ g :: post) ws0 0).1.get g.in0 = P.1.get g.in0 := by
    rw [hframe _ (by omega), hS1, Store.get_set_ne _ _ _ _ (by omega)]
  have hin1 : (garbleGates H r (pre ++ g :: post) ws0 0).1.get g.in1 = P.1.get g.in1 := by
    rw [hframe _ (by omega), hS1, Store.get_set_ne _ _ _ _ (by omega)]
  have hout' : (garbleGates H r (pre ++ g :: post) ws0 0).1.get g.out =
      (garbleCore H r g.op (P.1.get g.in0) (P.1.get g.in1) P.2.1).1 := by
    rw [hframe _ (Nat.le_refl _), hS1, Store.get_set_eq _ _ _ (by omega)]
  have hrow : ((garbleGates H r (pre ++ g :: post) ws0 0).2.2)[pre.length]? = some S.2.2 := by
    rw [happ]
    simp only
    rw [List.getElem?_append_right (by omega)]
    simp [hl]
  rw [hin0, hin1, hout', hrow, hS3, hid]
  rfl

/-- In a single-assignment circuit the final wire store and the tables of a
garbling are characterised gate by gate: the output pair and the table of gate
`i` are `garbleCore` on the FINAL pairs of its input wires with the tweak
counter of the prefix. -/
theorem garble_local (c : Circuit) (H : Hash L) (r : L) (inl : Nat → L)
    (hsa : c.singleAssign) (i : Nat) (h : i < c.gates.length) :
    c.localStep H r (c.garble H r inl).wires i =
      ((c.garble H r inl).wires.get (c.gates[i]).out, (c.garble H r inl).rows[i]?.getD []) := by
  obtain ⟨hpw, hio⟩ := hsa
  have hsplit : c.gates = c.gates.take i ++ c.gates[i] :: c.gates.drop (i + 1) := by
    rw [List.getElem_cons_drop, List.take_append_drop]
  have hgm : c.gates[i] ∈ c.gates := List.getElem_mem h
  obtain ⟨h0, h1, hout⟩ := hio _ hgm
  have hprelen : (c.gates.take i).length = i := by simp; omega
  have hpost_gt : ∀ g' ∈ c.gates.drop (i + 1), (c.gates[i]).out < g'.out := by
    rw [hsplit] at hpw
    have := (List.pairwise_append.mp hpw).2.1
    exact (List.pairwise_cons.mp this).1
  have hgD : c.gates.getD i default = c.gates[i] := by
    simp [List.getD_eq_getElem?_getD, List.getElem?_eq_getElem h]
  have key := garbleGates_split H r (c.gates.take i) c.gates[i] (c.gates.drop (i + 1))
    ((Array.range c.numWires).map fun i => if i < c.nIn then (⟨inl i, inl i ^^^ r⟩ : WireL L) else default)
    h0 h1 (by simpa using hout) hpost_gt
  rw [← hsplit, hprelen] at key
  simp only [Circuit.localStep, hgD]
  exact key

end Mpc

/-
Helper lemmas for C08 (Props/C08.lean): order lemmas for the byte-wise string
comparison, uniqueness of sorted permutations, permutation invariance of the
small map folds, and the cache-independence of a compilation without imports.
Core Lean only (List.Perm, List.mergeSort lemmas are in core).
-/
import MpcVerif.Model.Determinism

namespace Mpc.Det

theorem bytesLe_total : ∀ a b : List Nat, (bytesLe a b || bytesLe b a) = true
  | [], _ => by simp [bytesLe]
  | _ :: _, [] => by simp [bytesLe]
  | a :: as, b :: bs => by
    have ih := bytesLe_total as bs
    simp only [bytesLe]
    by_cases h1 : a < b
    · simp [h1]
    · by_cases h2 : b < a
      · simp [h1, h2]
      · simp [h1, h2]; simpa using ih

theorem bytesLe_trans : ∀ a b c : List Nat, bytesLe a b = true → bytesLe b c = true → bytesLe a c = true
  | [], _, _ => by simp [bytesLe]
  | _ :: _, [], _ => by simp [bytesLe]
  | _ :: _, _ :: _, [] => by simp [bytesLe]
  | a :: as, b :: bs, c :: cs => by
    have ih := bytesLe_trans as bs cs
    simp only [bytesLe]
    intro h1 h2
    by_cases hab : a < b
    · by_cases hbc : b < c
      · have : a < c := by omega
        simp [this]
      · by_cases hcb : c < b
        · simp [hbc, hcb] at h2
        · have : a < c := by omega
          simp [this]
    · by_cases hba : b < a
      · simp [hab, hba] at h1
      · simp [hab, hba] at h1
        have e : a = b := by omega
        subst e
        by_cases hbc : a < c
        · simp [hbc]
        · by_cases hcb : c < a
          · simp [hbc, hcb] at h2
          · simp [hbc, hcb] at h2 ⊢
            exact ih h1 h2

theorem bytesLe_antisymm : ∀ a b : List Nat, bytesLe a b = true → bytesLe b a = true → a = b
  | [], [] => by simp
  | [], _ :: _ => by simp [bytesLe]
  | _ :: _, [] => by simp [bytesLe]
  | a :: as, b :: bs => by
    have ih := bytesLe_antisymm as bs
    simp only [bytesLe]
    intro h1 h2
    by_cases hab : a < b
    · have : ¬ b < a := by omega
      simp [hab, this] at h2
    · by_cases hba : b < a
      · simp [hab, hba] at h1
      · simp [hab, hba] at h1 h2
        have e : a = b := by omega
        rw [e, ih h1 h2]

/-- An injective-on-the-list key: from `Nodup (map f l)`. -/
theorem eq_of_key_eq {α β : Type} (f : α → β) : ∀ (l : List α), (l.map f).Nodup →
    ∀ a b, a ∈ l → b ∈ l → f a = f b → a = b
  | [], _, a, _, ha, _, _ => by simp at ha
  | x :: xs, hnd, a, b, ha, hb, hab => by
    rw [List.map_cons, List.nodup_cons] at hnd
    have ih := eq_of_key_eq f xs hnd.2
    rcases List.mem_cons.mp ha with rfl | ha'
    · rcases List.mem_cons.mp hb with rfl | hb'
      · rfl
      · exact absurd (hab ▸ List.mem_map_of_mem hb') hnd.1
    · rcases List.mem_cons.mp hb with rfl | hb'
      · exact absurd (hab ▸ List.mem_map_of_mem ha') hnd.1
      · exact ih a b ha' hb' hab

/-- Any two lists that are sorted by name and are permutations of the same
hand-over list with pairwise distinct names are EQUAL: the outcome of
collect-then-sort does not depend on the sorting algorithm nor on the order the
map handed the entries over. -/
theorem sorted_perm_unique (l s₁ s₂ : List Const) (hnd : (l.map Const.name).Nodup)
    (p₁ : s₁.Perm l) (p₂ : s₂.Perm l)
    (h₁ : s₁.Pairwise (fun a b => constLe a b = true)) (h₂ : s₂.Pairwise (fun a b => constLe a b = true)) :
    s₁ = s₂ := by
  refine List.Perm.eq_of_pairwise ?_ h₁ h₂ (p₁.trans p₂.symm)
  intro a b ha hb hab hba
  have ha' : a ∈ l := p₁.mem_iff.mp ha
  have hb' : b ∈ l := p₂.mem_iff.mp hb
  exact eq_of_key_eq Const.name l hnd a b ha' hb' (bytesLe_antisymm _ _ hab hba)

theorem sortConsts_sorted (l : List Const) : (sortConsts l).Pairwise (fun a b => constLe a b = true) :=
  List.pairwise_mergeSort (fun a b c => bytesLe_trans a.name b.name c.name)
    (fun a b => bytesLe_total a.name b.name) l

theorem sortConsts_perm_invariant (l₁ l₂ : List Const) (hp : l₁.Perm l₂) (hnd : (l₁.map Const.name).Nodup) :
    sortConsts l₁ = sortConsts l₂ :=
  sorted_perm_unique l₁ _ _ hnd (List.mergeSort_perm l₁ _) ((List.mergeSort_perm l₂ _).trans hp.symm)
    (sortConsts_sorted l₁) (sortConsts_sorted l₂)

theorem sortByKey_perm_invariant {α : Type} (key : α → Nat) (l₁ l₂ : List α) (hp : l₁.Perm l₂)
    (hnd : (l₁.map key).Nodup) : sortByKey key l₁ = sortByKey key l₂ := by
  have hs : ∀ l : List α, (sortByKey key l).Pairwise (fun a b => decide (key a ≤ key b) = true) := fun l =>
    List.pairwise_mergeSort (fun a b c h1 h2 => by simp at *; omega) (fun a b => by simp; omega) l
  refine List.Perm.eq_of_pairwise ?_ (hs l₁) (hs l₂)
    ((List.mergeSort_perm l₁ _).trans (hp.trans (List.mergeSort_perm l₂ _).symm))
  intro a b ha hb hab hba
  have ha' : a ∈ l₁ := (List.mergeSort_perm l₁ _).mem_iff.mp ha
  have hb' : b ∈ l₁ := hp.mem_iff.mpr ((List.mergeSort_perm l₂ _).mem_iff.mp hb)
  simp at hab hba
  exact eq_of_key_eq key l₁ hnd a b ha' hb' (by omega)

/-- `findKey` finds `k` as soon as `(k, t)` is an entry and the values are pairwise distinct. -/
theorem findKey_of_mem {κ υ : Type} [DecidableEq υ] : ∀ (l : List (κ × υ)) (k : κ) (t : υ),
    (l.map Prod.snd).Nodup → (k, t) ∈ l → findKey l t = some k
  | [], _, _, _, h => by simp at h
  | (k', v') :: rest, k, t, hnd, hmem => by
    rw [List.map_cons, List.nodup_cons] at hnd
    simp only [findKey]
    rcases List.mem_cons.mp hmem with h | h
    · cases h; simp
    · have hne : v' ≠ t := by
        intro e
        apply hnd.1
        rw [e]
        exact (List.mem_map (f := Prod.snd)).mpr ⟨(k, t), h, rfl⟩
      simp [hne]
      exact findKey_of_mem rest k t hnd.2 h

theorem findKey_none {κ υ : Type} [DecidableEq υ] : ∀ (l : List (κ × υ)) (t : υ),
    (∀ k, (k, t) ∉ l) → findKey l t = none
  | [], _, _ => rfl
  | (k', v') :: rest, t, h => by
    simp only [findKey]
    have hne : v' ≠ t := by
      intro e; subst e; exact h k' (List.mem_cons_self)
    simp [hne]
    exact findKey_none rest t (fun k hk => h k (List.mem_cons_of_mem _ hk))

theorem findKey_some_mem {κ υ : Type} [DecidableEq υ] : ∀ (l : List (κ × υ)) (t : υ) (k : κ),
    findKey l t = some k → (k, t) ∈ l
  | [], _, _, h => by simp [findKey] at h
  | (k', v') :: rest, t, k, h => by
    simp only [findKey] at h
    by_cases e : v' = t
    · simp [e] at h; subst h; subst e; exact List.mem_cons_self
    · simp [e] at h; exact List.mem_cons_of_mem _ (findKey_some_mem rest t k h)

theorem findKey_perm_invariant {κ υ : Type} [DecidableEq υ] (l₁ l₂ : List (κ × υ)) (t : υ)
    (hp : l₁.Perm l₂) (hnd : (l₁.map Prod.snd).Nodup) : findKey l₁ t = findKey l₂ t := by
  have hnd₂ : (l₂.map Prod.snd).Nodup := (hp.map Prod.snd).nodup_iff.mp hnd
  cases h : findKey l₁ t with
  | some k =>
    have := findKey_some_mem l₁ t k h
    exact (findKey_of_mem l₂ k t hnd₂ (hp.mem_iff.mp this)).symm
  | none =>
    cases h2 : findKey l₂ t with
    | none => rfl
    | some k =>
      have := findKey_some_mem l₂ t k h2
      have := findKey_of_mem l₁ k t hnd (hp.mem_iff.mpr this)
      rw [h] at this; cases this

theorem maxLen_perm_invariant (l₁ l₂ : List Nat) (hp : l₁.Perm l₂) : maxLen l₁ = maxLen l₂ := by
  unfold maxLen
  apply List.Perm.foldl_eq' hp
  intro x _ y _ z
  by_cases h1 : x > z <;> by_cases h2 : y > z <;> by_cases h3 : y > x <;> by_cases h4 : x > y <;>
    simp [h1, h2, h3, h4] <;> omega

theorem setSubtract_perm_invariant {υ : Type} (set : Nat → Option υ) (l₁ l₂ : List Nat) (hp : l₁.Perm l₂) :
    setSubtract set l₁ = setSubtract set l₂ := by
  unfold setSubtract
  apply List.Perm.foldl_eq' hp
  intro x _ y _ z
  funext k
  by_cases h1 : k = x <;> by_cases h2 : k = y <;> simp [h1, h2]

theorem setCopy_perm_invariant {υ : Type} (l₁ l₂ : List (Nat × υ)) (hp : l₁.Perm l₂)
    (hnd : (l₁.map Prod.fst).Nodup) : setCopy l₁ = setCopy l₂ := by
  unfold setCopy
  apply List.Perm.foldl_eq' hp
  intro x hx y hy z
  funext k
  by_cases hxy : x = y
  · subst hxy; rfl
  · have hk : x.1 ≠ y.1 := by
      intro e
      apply hxy
      -- distinct entries of a map have distinct keys
      have : ∀ (l : List (Nat × υ)), (l.map Prod.fst).Nodup → ∀ a b, a ∈ l → b ∈ l → a.1 = b.1 → a = b := by
        intro l
        induction l with
        | nil => intro _ a _ ha; simp at ha
        | cons c cs ih =>
          intro hn a b ha hb hab
          rw [List.map_cons, List.nodup_cons] at hn
          rcases List.mem_cons.mp ha with rfl | ha'
          · rcases List.mem_cons.mp hb with rfl | hb'
            · rfl
            · exact absurd (hab ▸ List.mem_map_of_mem (f := Prod.fst) hb') hn.1
          · rcases List.mem_cons.mp hb with rfl | hb'
            · exact absurd (hab ▸ List.mem_map_of_mem (f := Prod.fst) ha') hn.1
            · exact ih hn.2 a b ha' hb' hab
      exact this l₁ hnd x y hx hy e
    by_cases h1 : k = x.1 <;> by_cases h2 : k = y.1
    · exact absurd (h1.symm.trans h2) hk
    · simp [h1]; intro e; exact absurd e hk
    · simp [h2]; intro e; exact absurd e.symm hk
    · simp [h1, h2]

theorem labelCalls_congr {ν : Type} [DecidableEq ν] : ∀ (calls : List ν) (acc : List (ν × Nat)) (i₁ i₂ : ν → Nat),
    (∀ f, f ∈ calls → i₁ f = i₂ f) →
    (calls.foldl (fun (a : List (ν × Nat) × (ν → Nat)) f =>
      (a.1 ++ [(f, a.2 f)], fun g => if g = f then a.2 g + 1 else a.2 g)) (acc, i₁)).1 =
    (calls.foldl (fun (a : List (ν × Nat) × (ν → Nat)) f =>
      (a.1 ++ [(f, a.2 f)], fun g => if g = f then a.2 g + 1 else a.2 g)) (acc, i₂)).1
  | [], _, _, _, _ => rfl
  | c :: cs, acc, i₁, i₂, h => by
    simp only [List.foldl_cons]
    have hc : i₁ c = i₂ c := h c List.mem_cons_self
    rw [hc]
    apply labelCalls_congr cs
    intro f hf
    have := h f (List.mem_cons_of_mem _ hf)
    by_cases e : f = c <;> simp [e, this, hc]

theorem contains_filter_ne {ν : Type} [DecidableEq ν] (l : List ν) (m : ν) :
    (l.filter (fun n => n ≠ m)).contains m = false := by
  induction l with
  | nil => rfl
  | cons x xs ih =>
    by_cases h : x = m
    · simp [h]
    · simp [h]
      intro e; exact absurd e.symm h

theorem compile_no_imports {ν : Type} [DecidableEq ν] (lib : List (Pkg ν)) (c₁ c₂ : Cache ν) (prog : Prog ν)
    (himp : prog.main.imports = []) (hcalls : ∀ f, f ∈ prog.calls → f ∈ prog.mainFuncs) :
    (compile lib c₁ prog).1 = (compile lib c₂ prog).1 := by
  have hinit : ∀ c : Cache ν,
      (initPkg ((prog.main :: lib.filter (fun p => p.name ≠ prog.main.name)).length + 1)
        (prog.main :: lib.filter (fun p => p.name ≠ prog.main.name)) prog.main.name
        { initialized := c.initialized.filter (fun n => n ≠ prog.main.name), blocks := [], anon := 0 }).blocks
      = if prog.main.nvars = 0 then [] else [(prog.main.name, if prog.main.nanon = 0 then none else some 0)] := by
    intro c
    have hc := contains_filter_ne c.initialized prog.main.name
    simp only [initPkg, getPkg, List.find?_cons, decide_true, himp, List.foldl_nil, hc]
    split
    · rename_i h; cases h
    · split <;> simp
  have hl : ∀ c : Cache ν, (labelCalls prog.calls (fun f => if prog.mainFuncs.contains f then 0 else c.instances f)).1
      = (labelCalls prog.calls (fun _ => 0)).1 := by
    intro c
    unfold labelCalls
    apply labelCalls_congr
    intro f hf
    have := hcalls f hf
    simp [this]
  simp only [compile]
  rw [hinit c₁, hinit c₂, hl c₁, hl c₂]

end Mpc.Det

/-
Helper lemmas for C08 (Props/C08.lean): order lemmas for the byte-wise string
comparison, uniqueness of sorted permutations, permutation invariance of the
small map folds, and the invariance of Package.Init / Compiler.parse (which
iterate the sorted aliases) under permutation of every import map.
Core Lean only (List.Perm, List.mergeSort lemmas are in core).
-/
import MpcVerif.Model.Determinism

namespace Mpc.Det

theorem bytesLe_total : ∀ a b : List Nat, (bytesLe a b || bytesLe b a) = true
  | [], _ => by simp [bytesLe]
  | _ :: _, [] => by simp [bytesLe]
  | a :: as, b :: bs => by
    have ih := bytesLe_total as bs
    simp only [bytesLe]
    by_cases h1 : a < b
    · simp [h1]
    · by_cases h2 : b < a
      · simp [h1, h2]
      · simp [h1, h2]; simpa using ih

theorem bytesLe_trans : ∀ a b c : List Nat, bytesLe a b = true → bytesLe b c = true → bytesLe a c = true
  | [], _, _ => by simp [bytesLe]
  | _ :: _, [], _ => by simp [bytesLe]
  | _ :: _, _ :: _, [] => by simp [bytesLe]
  | a :: as, b :: bs, c :: cs => by
    have ih := bytesLe_trans as bs cs
    simp only [bytesLe]
    intro h1 h2
    by_cases hab : a < b
    · by_cases hbc : b < c
      · have : a < c := by omega
        simp [this]
      · by_cases hcb : c < b
        · simp [hbc, hcb] at h2
        · have : a < c := by omega
          simp [this]
    · by_cases hba : b < a
      · simp [hab, hba] at h1
      · simp [hab, hba] at h1
        have e : a = b := by omega
        subst e
        by_cases hbc : a < c
        · simp [hbc]
        · by_cases hcb : c < a
          · simp [hbc, hcb] at h2
          · simp [hbc, hcb] at h2 ⊢
            exact ih h1 h2

theorem bytesLe_antisymm : ∀ a b : List Nat, bytesLe a b = true → bytesLe b a = true → a = b
  | [], [] => by simp
  | [], _ :: _ => by simp [bytesLe]
  | _ :: _, [] => by simp [bytesLe]
  | a :: as, b :: bs => by
    have ih := bytesLe_antisymm as bs
    simp only [bytesLe]
    intro h1 h2
    by_cases hab : a < b
    · have : ¬ b < a := by omega
      simp [hab, this] at h2
    · by_cases hba : b < a
      · simp [hab, hba] at h1
      · simp [hab, hba] at h1 h2
        have e : a = b := by omega
        rw [e, ih h1 h2]

/-- An injective-on-the-list key: from `Nodup (map f l)`. -/
theorem eq_of_key_eq {α β : Type} (f : α → β) : ∀ (l : List α), (l.map f).Nodup →
    ∀ a b, a ∈ l → b ∈ l → f a = f b → a = b
  | [], _, a, _, ha, _, _ => by simp at ha
  | x :: xs, hnd, a, b, ha, hb, hab => by
    rw [List.map_cons, List.nodup_cons] at hnd
    have ih := eq_of_key_eq f xs hnd.2
    rcases List.mem_cons.mp ha with rfl | ha'
    · rcases List.mem_cons.mp hb with rfl | hb'
      · rfl
      · exact absurd (hab ▸ List.mem_map_of_mem hb') hnd.1
    · rcases List.mem_cons.mp hb with rfl | hb'
      · exact absurd (hab ▸ List.mem_map_of_mem ha') hnd.1
      · exact ih a b ha' hb' hab

/-- Any two lists that are sorted by name and are permutations of the same
hand-over list with pairwise distinct names are EQUAL: the outcome of
collect-then-sort does not depend on the sorting algorithm nor on the order the
map handed the entries over. -/
theorem sorted_perm_unique (l s₁ s₂ : List Const) (hnd : (l.map Const.name).Nodup)
    (p₁ : s₁.Perm l) (p₂ : s₂.Perm l)
    (h₁ : s₁.Pairwise (fun a b => constLe a b = true)) (h₂ : s₂.Pairwise (fun a b => constLe a b = true)) :
    s₁ = s₂ := by
  refine List.Perm.eq_of_pairwise ?_ h₁ h₂ (p₁.trans p₂.symm)
  intro a b ha hb hab hba
  have ha' : a ∈ l := p₁.mem_iff.mp ha
  have hb' : b ∈ l := p₂.mem_iff.mp hb
  exact eq_of_key_eq Const.name l hnd a b ha' hb' (bytesLe_antisymm _ _ hab hba)

theorem sortConsts_sorted (l : List Const) : (sortConsts l).Pairwise (fun a b => constLe a b = true) :=
  List.pairwise_mergeSort (fun a b c => bytesLe_trans a.name b.name c.name)
    (fun a b => bytesLe_total a.name b.name) l

theorem sortConsts_perm_invariant (l₁ l₂ : List Const) (hp : l₁.Perm l₂) (hnd : (l₁.map Const.name).Nodup) :
    sortConsts l₁ = sortConsts l₂ :=
  sorted_perm_unique l₁ _ _ hnd (List.mergeSort_perm l₁ _) ((List.mergeSort_perm l₂ _).trans hp.symm)
    (sortConsts_sorted l₁) (sortConsts_sorted l₂)

theorem sortByKey_perm_invariant {α : Type} (key : α → Nat) (l₁ l₂ : List α) (hp : l₁.Perm l₂)
    (hnd : (l₁.map key).Nodup) : sortByKey key l₁ = sortByKey key l₂ := by
  have hs : ∀ l : List α, (sortByKey key l).Pairwise (fun a b => decide (key a ≤ key b) = true) := fun l =>
    List.pairwise_mergeSort (fun a b c h1 h2 => by simp at *; omega) (fun a b => by simp; omega) l
  refine List.Perm.eq_of_pairwise ?_ (hs l₁) (hs l₂)
    ((List.mergeSort_perm l₁ _).trans (hp.trans (List.mergeSort_perm l₂ _).symm))
  intro a b ha hb hab hba
  have ha' : a ∈ l₁ := (List.mergeSort_perm l₁ _).mem_iff.mp ha
  have hb' : b ∈ l₁ := hp.mem_iff.mpr ((List.mergeSort_perm l₂ _).mem_iff.mp hb)
  simp at hab hba
  exact eq_of_key_eq key l₁ hnd a b ha' hb' (by omega)

/-- `findKey` finds `k` as soon as `(k, t)` is an entry and the values are pairwise distinct. -/
theorem findKey_of_mem {κ υ : Type} [DecidableEq υ] : ∀ (l : List (κ × υ)) (k : κ) (t : υ),
    (l.map Prod.snd).Nodup → (k, t) ∈ l → findKey l t = some k
  | [], _, _, _, h => by simp at h
  | (k', v') :: rest, k, t, hnd, hmem => by
    rw [List.map_cons, List.nodup_cons] at hnd
    simp only [findKey]
    rcases List.mem_cons.mp hmem with h | h
    · cases h; simp
    · have hne : v' ≠ t := by
        intro e
        apply hnd.1
        rw [e]
        exact (List.mem_map (f := Prod.snd)).mpr ⟨(k, t), h, rfl⟩
      simp [hne]
      exact findKey_of_mem rest k t hnd.2 h

theorem findKey_none {κ υ : Type} [DecidableEq υ] : ∀ (l : List (κ × υ)) (t : υ),
    (∀ k, (k, t) ∉ l) → findKey l t = none
  | [], _, _ => rfl
  | (k', v') :: rest, t, h => by
    simp only [findKey]
    have hne : v' ≠ t := by
      intro e; subst e; exact h k' (List.mem_cons_self)
    simp [hne]
    exact findKey_none rest t (fun k hk => h k (List.mem_cons_of_mem _ hk))

theorem findKey_some_mem {κ υ : Type} [DecidableEq υ] : ∀ (l : List (κ × υ)) (t : υ) (k : κ),
    findKey l t = some k → (k, t) ∈ l
  | [], _, _, h => by simp [findKey] at h
  | (k', v') :: rest, t, k, h => by
    simp only [findKey] at h
    by_cases e : v' = t
    · simp [e] at h; subst h; subst e; exact List.mem_cons_self
    · simp [e] at h; exact List.mem_cons_of_mem _ (findKey_some_mem rest t k h)

theorem findKey_perm_invariant {κ υ : Type} [DecidableEq υ] (l₁ l₂ : List (κ × υ)) (t : υ)
    (hp : l₁.Perm l₂) (hnd : (l₁.map Prod.snd).Nodup) : findKey l₁ t = findKey l₂ t := by
  have hnd₂ : (l₂.map Prod.snd).Nodup := (hp.map Prod.snd).nodup_iff.mp hnd
  cases h : findKey l₁ t with
  | some k =>
    have := findKey_some_mem l₁ t k h
    exact (findKey_of_mem l₂ k t hnd₂ (hp.mem_iff.mp this)).symm
  | none =>
    cases h2 : findKey l₂ t with
    | none => rfl
    | some k =>
      have := findKey_some_mem l₂ t k h2
      have := findKey_of_mem l₁ k t hnd (hp.mem_iff.mpr this)
      rw [h] at this; cases this

theorem maxLen_perm_invariant (l₁ l₂ : List Nat) (hp : l₁.Perm l₂) : maxLen l₁ = maxLen l₂ := by
  unfold maxLen
  apply List.Perm.foldl_eq' hp
  intro x _ y _ z
  by_cases h1 : x > z <;> by_cases h2 : y > z <;> by_cases h3 : y > x <;> by_cases h4 : x > y <;>
    simp [h1, h2, h3, h4] <;> omega

theorem setSubtract_perm_invariant {υ : Type} (set : Nat → Option υ) (l₁ l₂ : List Nat) (hp : l₁.Perm l₂) :
    setSubtract set l₁ = setSubtract set l₂ := by
  unfold setSubtract
  apply List.Perm.foldl_eq' hp
  intro x _ y _ z
  funext k
  by_cases h1 : k = x <;> by_cases h2 : k = y <;> simp [h1, h2]

theorem setCopy_perm_invariant {υ : Type} (l₁ l₂ : List (Nat × υ)) (hp : l₁.Perm l₂)
    (hnd : (l₁.map Prod.fst).Nodup) : setCopy l₁ = setCopy l₂ := by
  unfold setCopy
  apply List.Perm.foldl_eq' hp
  intro x hx y hy z
  funext k
  by_cases hxy : x = y
  · subst hxy; rfl
  · have hk : x.1 ≠ y.1 := by
      intro e
      apply hxy
      -- distinct entries of a map have distinct keys
      have : ∀ (l : List (Nat × υ)), (l.map Prod.fst).Nodup → ∀ a b, a ∈ l → b ∈ l → a.1 = b.1 → a = b := by
        intro l
        induction l with
        | nil => intro _ a _ ha; simp at ha
        | cons c cs ih =>
          intro hn a b ha hb hab
          rw [List.map_cons, List.nodup_cons] at hn
          rcases List.mem_cons.mp ha with rfl | ha'
          · rcases List.mem_cons.mp hb with rfl | hb'
            · rfl
            · exact absurd (hab ▸ List.mem_map_of_mem (f := Prod.fst) hb') hn.1
          · rcases List.mem_cons.mp hb with rfl | hb'
            · exact absurd (hab ▸ List.mem_map_of_mem (f := Prod.fst) ha') hn.1
            · exact ih hn.2 a b ha' hb' hab
      exact this l₁ hnd x y hx hy e
    by_cases h1 : k = x.1 <;> by_cases h2 : k = y.1
    · exact absurd (h1.symm.trans h2) hk
    · simp [h1]; intro e; exact absurd e hk
    · simp [h2]; intro e; exact absurd e.symm hk
    · simp [h1, h2]

/-- A total order given as a Boolean `≤`. -/
structure IsOrder {ν : Type} (le : ν → ν → Bool) : Prop where
  trans : ∀ a b c, le a b = true → le b c = true → le a c = true
  total : ∀ a b, (le a b || le b a) = true
  antisymm : ∀ a b, le a b = true → le b a = true → a = b

theorem insertBy_perm {α : Type} (le : α → α → Bool) (a : α) : ∀ l : List α, (insertBy le a l).Perm (a :: l)
  | [] => List.Perm.refl _
  | b :: bs => by
    simp only [insertBy]
    split
    · exact List.Perm.refl _
    · exact ((insertBy_perm le a bs).cons b).trans (List.Perm.swap a b bs)

theorem isort_perm {α : Type} (le : α → α → Bool) : ∀ l : List α, (isort le l).Perm l
  | [] => List.Perm.refl _
  | a :: as => (insertBy_perm le a (isort le as)).trans ((isort_perm le as).cons a)

theorem insertBy_pairwise {α : Type} (le : α → α → Bool)
    (htrans : ∀ a b c, le a b = true → le b c = true → le a c = true)
    (htotal : ∀ a b, (le a b || le b a) = true) (a : α) :
    ∀ l : List α, l.Pairwise (fun x y => le x y = true) → (insertBy le a l).Pairwise (fun x y => le x y = true)
  | [], _ => by simp [insertBy]
  | b :: bs, h => by
    rw [List.pairwise_cons] at h
    simp only [insertBy]
    split
    · rename_i hab
      refine List.pairwise_cons.mpr ⟨?_, List.pairwise_cons.mpr h⟩
      intro x hx
      rcases List.mem_cons.mp hx with rfl | hx
      · exact hab
      · exact htrans _ _ _ hab (h.1 x hx)
    · rename_i hab
      have hba : le b a = true := by
        have := htotal a b
        simp only [Bool.or_eq_true] at this
        rcases this with h1 | h1
        · exact absurd h1 hab
        · exact h1
      refine List.pairwise_cons.mpr ⟨?_, insertBy_pairwise le htrans htotal a bs h.2⟩
      intro x hx
      rcases List.mem_cons.mp ((insertBy_perm le a bs).mem_iff.mp hx) with rfl | hx
      · exact hba
      · exact h.1 x hx

theorem isort_pairwise {α : Type} (le : α → α → Bool)
    (htrans : ∀ a b c, le a b = true → le b c = true → le a c = true)
    (htotal : ∀ a b, (le a b || le b a) = true) :
    ∀ l : List α, (isort le l).Pairwise (fun x y => le x y = true)
  | [] => List.Pairwise.nil
  | a :: as => insertBy_pairwise le htrans htotal a _ (isort_pairwise le htrans htotal as)

theorem sortedImports_perm_invariant {ν : Type} (le : ν → ν → Bool) (h : IsOrder le) (l₁ l₂ : List ν)
    (hp : l₁.Perm l₂) : sortedImports le l₁ = sortedImports le l₂ := by
  unfold sortedImports
  refine List.Perm.eq_of_pairwise (fun a b _ _ hab hba => h.antisymm a b hab hba)
    (isort_pairwise le h.trans h.total l₁) (isort_pairwise le h.trans h.total l₂)
    ((isort_perm le l₁).trans (hp.trans (isort_perm le l₂).symm))

/-- Two libraries that describe the same packages, the import maps handed over
in possibly different orders. -/
inductive LibRel {ν : Type} : List (Pkg ν) → List (Pkg ν) → Prop
  | nil : LibRel [] []
  | cons {a b : Pkg ν} {l₁ l₂ : List (Pkg ν)} :
      (a.name = b.name ∧ a.nvars = b.nvars ∧ a.nanon = b.nanon ∧ a.imports.Perm b.imports) →
      LibRel l₁ l₂ → LibRel (a :: l₁) (b :: l₂)

theorem getPkg_rel {ν : Type} [DecidableEq ν] {lib₁ lib₂ : List (Pkg ν)} (h : LibRel lib₁ lib₂) (p : ν) :
    (getPkg lib₁ p = none ∧ getPkg lib₂ p = none) ∨
    ∃ a b, getPkg lib₁ p = some a ∧ getPkg lib₂ p = some b ∧
      a.name = b.name ∧ a.nvars = b.nvars ∧ a.nanon = b.nanon ∧ a.imports.Perm b.imports := by
  induction h with
  | nil => left; exact ⟨rfl, rfl⟩
  | @cons a b l₁ l₂ hab _ ih =>
    by_cases e : a.name = p
    · right
      refine ⟨a, b, ?_, ?_, hab⟩
      · simp [getPkg, e]
      · simp [getPkg, ← hab.1, e]
    · have e2 : ¬ b.name = p := by rw [← hab.1]; exact e
      simp only [getPkg, List.find?_cons, e, e2, decide_false] at ih ⊢
      exact ih

theorem foldl_congr_fun {α β : Type} (f g : β → α → β) (l : List α) (h : ∀ s q, f s q = g s q) (s : β) :
    l.foldl f s = l.foldl g s := by
  have : f = g := by funext s q; exact h s q
  rw [this]

theorem initPkg_lib_invariant {ν : Type} [DecidableEq ν] (le : ν → ν → Bool) (hle : IsOrder le)
    {lib₁ lib₂ : List (Pkg ν)} (h : LibRel lib₁ lib₂) :
    ∀ (fuel : Nat) (p : ν) (st : GenSt ν), initPkg le fuel lib₁ p st = initPkg le fuel lib₂ p st := by
  intro fuel
  induction fuel with
  | zero => intro p st; rfl
  | succ n ih =>
    intro p st
    simp only [initPkg]
    split
    · rfl
    · rcases getPkg_rel h p with ⟨h1, h2⟩ | ⟨a, b, h1, h2, hn, hv, ha, hi⟩
      · rw [h1, h2]
      · rw [h1, h2]
        simp only
        rw [sortedImports_perm_invariant le hle a.imports b.imports hi]
        rw [foldl_congr_fun _ _ _ (fun s q => ih q s)]
        simp only [emitBlock, hv, ha]

theorem bytesLe_isOrder : IsOrder bytesLe :=
  ⟨bytesLe_trans, bytesLe_total, bytesLe_antisymm⟩

theorem sortPairs_perm_invariant {α π : Type} (le : α → α → Bool) (h : IsOrder le) (l₁ l₂ : List (α × π))
    (hp : l₁.Perm l₂) (hnd : (l₁.map Prod.fst).Nodup) :
    isort (fun a b => le a.1 b.1) l₁ = isort (fun a b => le a.1 b.1) l₂ := by
  have hs : ∀ l : List (α × π), (isort (fun a b => le a.1 b.1) l).Pairwise (fun a b => le a.1 b.1 = true) :=
    fun l => isort_pairwise _ (fun a b c => h.trans a.1 b.1 c.1) (fun a b => h.total a.1 b.1) l
  refine List.Perm.eq_of_pairwise ?_ (hs l₁) (hs l₂)
    ((isort_perm _ l₁).trans (hp.trans (isort_perm _ l₂).symm))
  intro a b ha hb hab hba
  have ha' : a ∈ l₁ := (isort_perm _ l₁).mem_iff.mp ha
  have hb' : b ∈ l₁ := hp.mem_iff.mpr ((isort_perm _ l₂).mem_iff.mp hb)
  exact eq_of_key_eq Prod.fst l₁ hnd a b ha' hb' (h.antisymm _ _ hab hba)

theorem parseImports_perm_invariant {α π : Type} [DecidableEq α] (le : α → α → Bool) (h : IsOrder le)
    (files₁ files₂ : π → List (α × π))
    (hf : ∀ p, (files₁ p).Perm (files₂ p) ∧ ((files₁ p).map Prod.fst).Nodup) :
    ∀ (fuel : Nat) (i₁ i₂ : List (α × π)) (cache : List (α × π)), i₁.Perm i₂ → (i₁.map Prod.fst).Nodup →
      parseImports le fuel files₁ i₁ cache = parseImports le fuel files₂ i₂ cache := by
  intro fuel
  induction fuel with
  | zero => intros; rfl
  | succ n ih =>
    intro i₁ i₂ cache hp hnd
    simp only [parseImports]
    rw [sortPairs_perm_invariant le h i₁ i₂ hp hnd]
    have : (fun (c : List (α × π)) (ap : α × π) =>
              if c.any (fun e => e.1 = ap.1) then c else parseImports le n files₁ (files₁ ap.2) (c ++ [ap])) =
           (fun (c : List (α × π)) (ap : α × π) =>
              if c.any (fun e => e.1 = ap.1) then c else parseImports le n files₂ (files₂ ap.2) (c ++ [ap])) := by
      funext c ap
      rw [ih (files₁ ap.2) (files₂ ap.2) (c ++ [ap]) (hf ap.2).1 (hf ap.2).2]
    rw [this]

end Mpc.Det

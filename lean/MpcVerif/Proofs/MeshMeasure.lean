/-
Termination measure of the mesh system: a natural number that every step of
the code as it is, taken from an invariant state, strictly decreases.
-/
import MpcVerif.Proofs.MeshLive

set_option linter.unusedSimpArgs false
set_option linter.unusedVariables false

namespace Mpc.Mesh

def sumTo (f : Nat → Nat) : Nat → Nat
  | 0 => 0
  | b + 1 => sumTo f b + f b

theorem sumTo_congr (f g : Nat → Nat) (b : Nat) (h : ∀ x, x < b → g x = f x) : sumTo g b = sumTo f b := by
  induction b with
  | zero => rfl
  | succ b ih =>
    simp only [sumTo]
    rw [ih (fun x hx => h x (by omega)), h b (by omega)]

/-- Only the summand at `a` changes. -/
theorem sumTo_change (f g : Nat → Nat) (b a : Nat) (ha : a < b) (h : ∀ x, x < b → x ≠ a → g x = f x) :
    sumTo g b + f a = sumTo f b + g a := by
  induction b with
  | zero => omega
  | succ b ih =>
    simp only [sumTo]
    by_cases hab : a = b
    · subst hab
      rw [sumTo_congr f g a (fun x hx => h x (by omega) (by omega))]
      omega
    · have := ih (by omega) (fun x hx hxa => h x (by omega) hxa)
      rw [h b (by omega) (fun e => hab e.symm)]
      omega

theorem sumTo_const (v b : Nat) : sumTo (fun _ => v) b = b * v := by
  induction b with
  | zero => simp [sumTo]
  | succ b ih => simp only [sumTo, ih, Nat.succ_mul]

def run0max (c : Cfg) : Nat := c.n + 1 + (c.m - 1) * (c.n + 2) + (c.n + 1)

/-- Upper bound on the steps the party's `Join`/`Connect` goroutine still takes
(plus what it may still add to its `need` counters). -/
def phaseCost (c : Cfg) : Phase → Nat
  | .done => 0
  | .run k todo => todo.length + 1 + (c.m - (k + 1)) * (c.n + 2) + (if k = 0 then c.n + 1 else 0)
  | .info r => r.length + 1 + (c.m - 1) * (c.n + 2)
  | .hello => run0max c + 3 * (c.m * c.n) + 1
  | .joined => run0max c + 3 * (c.m * c.n) + 2
  | .init => run0max c + 3 * (c.m * c.n) + 3

/-- Steps the accept goroutine needs to get back to `Accept` (plus 2 when idle,
so that the last step of an accept still decreases the sum). -/
def inflCost : Infl → Nat
  | .none => 2
  | .taken .. => 1
  | .stored .. => 0

/-- Steps left for party p: its own goroutine plus three per accept it still
waits for (check, store, decrement). -/
def partyCost (c : Cfg) (s : State) (p : Nat) : Nat :=
  phaseCost c (s.phase p) + 3 * sumTo (s.need p) c.m + inflCost (s.infl p)

/-- The measure. -/
def mu (c : Cfg) (s : State) : Nat := sumTo (partyCost c s) c.n

theorem mu_lt (c : Cfg) (s s' : State) (p : Nat) (hp : p < c.n)
    (hothers : ∀ q, q < c.n → q ≠ p → partyCost c s' q = partyCost c s q)
    (hlt : partyCost c s' p < partyCost c s p) : mu c s' < mu c s := by
  have := sumTo_change (partyCost c s) (partyCost c s') c.n p hp hothers
  unfold mu
  omega

theorem length_known_of_mem (l : List Nat) (hn : l.Nodup) (n : Nat) (h : ∀ x, x ∈ l ↔ x < n) :
    l.length = n := by
  have hp : l.Perm (List.range n) := by
    apply (List.perm_ext_iff_of_nodup hn List.nodup_range).mpr
    intro a; simp [h]
  rw [hp.length_eq, List.length_range]

theorem length_targets_le (c : Cfg) (s : State) (p k : Nat) (hn : (s.known p).Nodup)
    (h : ∀ x, x ∈ s.known p ↔ x < c.n) : (targets s p k).length ≤ c.n := by
  unfold targets
  split
  · simp
  · have := length_known_of_mem _ hn c.n h
    have := List.length_filter_le (fun q => if q = 0 then decide (k ≠ 0) else decide (p < q)) (s.known p)
    omega

theorem party_lt_n {c : Cfg} {s : State} (h : Inv c s) {p : Nat} (hph : s.phase p ≠ .init) : p < c.n := by
  apply Decidable.byContradiction; intro hn
  exact hph (h.outside p (by omega))

theorem rounds_succ (c : Cfg) (k : Nat) (hk : k + 1 < c.m) :
    (c.m - (k + 1)) * (c.n + 2) = (c.m - (k + 1 + 1)) * (c.n + 2) + (c.n + 2) := by
  have : c.m - (k + 1) = (c.m - (k + 1 + 1)) + 1 := by omega
  rw [this, Nat.succ_mul]

/-- Cost after leaving the wait of round k (k < m), given the next target list is short. -/
theorem advance_cost (c : Cfg) (s : State) (p k : Nat) (hk : k < c.m)
    (hT : (targets s p (k + 1)).length ≤ c.n) :
    phaseCost c (advance c s p (k + 1)) + c.n + 1 < phaseCost c (.run k []) + c.n + 1 := by
  unfold advance
  by_cases hlt : k + 1 < c.m
  · simp only [hlt, if_true, phaseCost, List.length_nil]
    have := rounds_succ c k hlt
    have : (if k + 1 = 0 then c.n + 1 else 0) = 0 := by simp
    omega
  · simp only [hlt, if_false, phaseCost]
    omega

theorem measure_step (c : Cfg) (hc : c.Ok) (s s' : State) (h : Inv c s) (e : Ev) (he : e.real = true)
    (hs : step c s e = some s') : mu c s' < mu c s := by
  have hn2 := hc.n2
  have hm1 := hc.m1
  have h' := inv_step c hc s s' h e he hs
  cases e with
  | join i =>
    simp only [step] at hs
    split at hs
    · rename_i hph
      split at hs
      · rename_i hi
        simp only [Option.some.injEq] at hs; subst hs
        apply mu_lt c _ _ i hi.2
        · intro q _ hq; simp [partyCost, upd_apply, hq]
        · simp [partyCost, upd_apply, hph, phaseCost]
      · simp at hs
    · simp at hs
  | lconnect =>
    simp only [step] at hs
    split at hs
    · rename_i hph
      simp only [Option.some.injEq] at hs; subst hs
      apply mu_lt c _ _ 0 (by omega)
      · intro q _ hq; simp [partyCost, upd_apply, hq]
      · simp only [partyCost, upd_apply, if_true, hph, phaseCost, List.length_nil, Nat.zero_add]
        have e1 : sumTo (fun k => if k < c.m then c.n - 1 else 0) c.m = sumTo (fun _ => c.n - 1) c.m :=
          sumTo_congr _ _ _ (fun x hx => by simp [hx])
        rw [e1, sumTo_const]
        have : c.m * (c.n - 1) ≤ c.m * c.n := Nat.mul_le_mul_left _ (by omega)
        simp only [run0max]
        omega
    · simp at hs
  | hello i =>
    simp only [step] at hs
    split at hs
    · rename_i hph
      simp only [Option.some.injEq] at hs; subst hs
      apply mu_lt c _ _ i (party_lt_n h (by simp [hph]))
      · intro q _ hq; simp [partyCost, upd_apply, hq]
      · simp [partyCost, upd_apply, hph, phaseCost]
    · simp at hs
  | oldDec j i k => simp [Ev.real] at he
  | oldStore j => simp [Ev.real] at he
  | accTake j i k =>
    simp only [step, stepAccTake] at hs
    by_cases hpre : s.acc j = true ∧ s.infl j = .none ∧ s.pend j i k = true
    · obtain ⟨hacc, hinfl, hp⟩ := hpre
      have hf := h.pendFacts hp
      have hnp := h.need_pos hp hacc
      rw [if_pos ⟨hacc, hinfl, hp⟩, if_pos ⟨hf.km, hnp⟩] at hs
      simp only [Bool.false_eq_true, if_false, Option.some.injEq] at hs
      subst hs
      apply mu_lt c _ _ j hf.jn
      · intro q _ hq; simp [partyCost, upd_apply, hq]
      · simp [partyCost, upd_apply, hinfl, inflCost]
    · rw [if_neg hpre] at hs; simp at hs
  | accStore j =>
    obtain ⟨i, k, ht, kn', hkn, hse⟩ := store_shape c hc s s' h j hs
    subst hse
    have hf := h.takenFacts ht
    apply mu_lt c _ _ j hf.jn
    · intro q _ hq; simp [partyCost, upd_apply, hq]
    · simp [partyCost, upd_apply, ht, inflCost]
  | accDec j =>
    simp only [step, stepAccDec] at hs
    cases ht : s.infl j with
    | none => simp [ht] at hs
    | taken a b => simp [ht] at hs
    | stored i k =>
      simp only [ht] at hs
      have hf := h.storedFacts ht
      have hnd := h.need_pos_stored ht
      rw [if_pos (by omega)] at hs
      simp only [Option.some.injEq] at hs
      subst hs
      apply mu_lt c _ _ j hf.jn
      · intro q _ hq
        simp only [partyCost, upd_apply, hq, if_false]
        have e : sumTo (upd2 s.need j k (s.need j k - 1) q) c.m = sumTo (s.need q) c.m :=
          sumTo_congr _ _ _ (by intro x _; simp [upd2_apply, hq])
        rw [e]
      · simp only [partyCost, upd_apply, if_true, ht, inflCost]
        have := sumTo_change (s.need j) (upd2 s.need j k (s.need j k - 1) j) c.m k hf.km
          (by intro x _ hx; simp [upd2_apply, hx])
        simp only [upd2_apply, true_and, if_true] at this ⊢
        omega
  | waitDone p =>
    simp only [step] at hs
    split at hs
    · rename_i k hph
      have hpn : p < c.n := party_lt_n h (by simp [hph])
      split at hs
      · rename_i h0
        split at hs
        · rename_i e0
          obtain ⟨e1, e2⟩ := e0
          subst e1 e2
          simp only [Option.some.injEq] at hs; subst hs
          apply mu_lt c _ _ 0 hpn
          · intro q _ hq; simp [partyCost, upd_apply, hq]
          · have hne : s.phase 0 ≠ .init := by simp [hph]
            obtain ⟨hkm, hklen, _⟩ := h.leader_all hc h0 hne
            have hlen := List.length_filter_le (fun x => decide (x ≠ 0)) (s.known 0)
            simp only [partyCost, upd_apply, if_true, hph]
            have : phaseCost c (infoPhase c s ((s.known 0).filter (· ≠ 0))) ≤
                ((s.known 0).filter (· ≠ 0)).length + 1 + (c.m - 1) * (c.n + 2) := by
              cases hr : (s.known 0).filter (· ≠ 0) with
              | nil =>
                simp only [infoPhase, advance, targets_leader]
                split
                · simp only [phaseCost, List.length_nil, Nat.reduceAdd]
                  have : (c.m - 2) * (c.n + 2) ≤ (c.m - 1) * (c.n + 2) :=
                    Nat.mul_le_mul_right _ (by omega)
                  simp; omega
                · simp [phaseCost]
              | cons a l => simp [infoPhase, phaseCost]
            have h2 : phaseCost c (.run 0 []) = 1 + (c.m - 1) * (c.n + 2) + (c.n + 1) := by
              simp [phaseCost]
            rw [h2]
            omega
        · simp only [Option.some.injEq] at hs; subst hs
          apply mu_lt c _ _ p hpn
          · intro q _ hq; simp [partyCost, upd_apply, hq]
          · simp only [partyCost, upd_apply, if_true, hph]
            have hk : k < c.m := by
              by_cases hp0 : p = 0
              · subst hp0
                rcases h.leader.shape with e | ⟨k', hk', e⟩ | ⟨r, _, e⟩ | e <;> simp [hph] at e
                omega
              · exact (h.peer p (by omega) hpn).runLt k [] hph
            have hT : (targets s p (k + 1)).length ≤ c.n := by
              by_cases hp0 : p = 0
              · subst hp0; simp [targets_leader]
              · have hA := (h.peer p (by omega) hpn).active k [] (by simp [hph, prog])
                exact length_targets_le c s p (k + 1) hA.knownNodup hA.knownMem
            have := advance_cost c s p k hk hT
            omega
      · simp at hs
    · simp at hs
  | info =>
    simp only [step] at hs
    split at hs
    · rename_i j rest hph
      simp only [Option.some.injEq] at hs; subst hs
      apply mu_lt c _ _ 0 (by omega)
      · intro q _ hq; simp [partyCost, upd_apply, hq]
      · simp only [partyCost, upd_apply, if_true, hph]
        have : phaseCost c (infoPhase c s rest) < phaseCost c (.info (j :: rest)) := by
          cases rest with
          | nil =>
            simp only [infoPhase, advance, targets_leader]
            split
            · simp only [phaseCost, List.length_nil, List.length_cons, Nat.reduceAdd]
              have : (c.m - 2) * (c.n + 2) ≤ (c.m - 1) * (c.n + 2) :=
                Nat.mul_le_mul_right _ (by omega)
              simp; omega
            · simp only [phaseCost, List.length_nil, List.length_cons]; omega
          | cons a l => simp [infoPhase, phaseCost]
        omega
    · simp at hs
  | recvInfo i =>
    simp only [step] at hs
    split at hs
    · rename_i l hph hml
      have hin : i < c.n := party_lt_n h (by simp [hph])
      have hi0 : i ≠ 0 := by
        intro e; subst e
        rcases h.leader.shape with e | ⟨k, _, e⟩ | ⟨r, _, e⟩ | e <;> simp [hph] at e
      have hP := h.peer i (by omega) hin
      obtain ⟨hlnd, hlmem, hllen⟩ := (hP.hello hph).2.2.2.2.2 l hml
      have hany : (l.any fun q => decide (2 + l.length ≤ q)) = false := by
        rw [List.any_eq_false]
        intro q hq
        have := (hlmem q).mp hq
        simp; omega
      rw [if_neg (by simp [hany])] at hs
      simp only [Option.some.injEq] at hs
      have hadv : ∀ st : State, advance c st i 0 = .run 0 (targets st i 0) := by
        intro st; simp [advance]; omega
      -- the new state's own invariant bounds the new target list
      have hrun : ∃ T, s'.phase i = .run 0 T := by
        subst hs; simp only [upd_apply, if_true, hadv]; exact ⟨_, rfl⟩
      obtain ⟨T, hT⟩ := hrun
      have hTl : T.length ≤ c.n := by
        have hA := (h'.peer i (by omega) hin).active 0 T (by simp [hT, prog])
        obtain ⟨pre, hpre, _⟩ := hA.dialed
        have h1 := length_targets_le c s' i 0 hA.knownNodup hA.knownMem
        rw [hpre (by omega)] at h1
        simp at h1; omega
      have hneed' : s'.need i = fun k => if k < c.m then (l.filter (· < i)).length else 0 := by
        subst hs; simp [upd_apply]
      have hinfl' : s'.infl = s.infl := by subst hs; rfl
      apply mu_lt c _ _ i hin
      · intro q _ hq; subst hs; simp [partyCost, upd_apply, hq]
      · simp only [partyCost, hT, hneed', hinfl', hph, phaseCost, if_true, Nat.zero_add]
        have e1 : sumTo (fun k => if k < c.m then (l.filter (· < i)).length else 0) c.m =
            sumTo (fun _ => (l.filter (· < i)).length) c.m :=
          sumTo_congr _ _ _ (fun x hx => by simp [hx])
        rw [e1, sumTo_const]
        have hna : (l.filter (· < i)).length ≤ c.n := by
          have := List.length_filter_le (fun x => decide (x < i)) l
          omega
        have : c.m * (l.filter (· < i)).length ≤ c.m * c.n := Nat.mul_le_mul_left _ hna
        simp only [run0max]
        omega
    · simp at hs
  | dial i =>
    simp only [step] at hs
    split at hs
    · rename_i k j rest hph
      have hin : i < c.n := party_lt_n h (by simp [hph])
      have hb : s'.bad = false := h'.notBad
      split at hs
      · simp only [Option.some.injEq] at hs; subst hs; simp at hb
      · split at hs
        · simp only [Option.some.injEq] at hs; subst hs; simp at hb
        · split at hs
          · simp only [Option.some.injEq] at hs; subst hs; simp at hb
          · simp only [Option.some.injEq] at hs; subst hs
            apply mu_lt c _ _ i hin
            · intro q _ hq; simp [partyCost, upd_apply, hq]
            · simp only [partyCost, upd_apply, if_true, hph, phaseCost, List.length_cons]
              omega
    · simp at hs

end Mpc.Mesh

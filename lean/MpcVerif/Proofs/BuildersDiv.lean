/-
Long divider (C07): restoring-division invariant for `NewUDividerLong` and the
sign handling of `NewIDivider`.
-/
import MpcVerif.Proofs.BuildersMul

namespace Mpc.Bld
open Mpc

/-! ### target-independent adder / subtractor specifications -/

theorem newSubtractor_spec {s : St} {inp : List Bool} (hwf : WF s inp) (gmw : Bool) {x y : List Nat} (nz : Nat)
    (hx : Bnd s x) (hy : Bnd s y) (hne : 0 < max x.length y.length) (hnz : 0 < nz) :
    Spec inp s (newSubtractor gmw x y nz) (fun z s' => Bnd s' z ∧ z.length = nz ∧
      (toNat (busVal s' inp z) + toNat (busVal s inp y)) % 2 ^ nz = toNat (busVal s inp x) % 2 ^ nz) := by
  unfold newSubtractor
  cases gmw with
  | false => simp only [Bool.false_eq_true, if_false]; exact rippleSubtractor_spec hwf nz hx hy hnz
  | true =>
    simp only [if_true]
    unfold ksSubtractor
    exact ksSubtractorWith_spec hwf nz _ hx hy hne hnz (le_two_pow_ceilLog2 _)

theorem newAdder_spec {s : St} {inp : List Bool} (hwf : WF s inp) (gmw : Bool) {x y : List Nat} (nz : Nat)
    (hx : Bnd s x) (hy : Bnd s y) (hne : 0 < max x.length y.length) (hnz : 0 < nz) :
    Spec inp s (newAdder gmw x y nz) (fun z s' => Bnd s' z ∧ z.length = nz ∧
      toNat (busVal s' inp z) = (toNat (busVal s inp x) + toNat (busVal s inp y)) % 2 ^ nz) := by
  unfold newAdder
  cases gmw with
  | false => simp only [Bool.false_eq_true, if_false]; exact rippleAdder_spec hwf nz hx hy hne hnz
  | true =>
    simp only [if_true]
    unfold ksAdder
    exact ksAdderWith_spec hwf nz _ hx hy hne hnz (le_two_pow_ceilLog2 _)

/-! ### arithmetic of one restoring step -/

/-- The `(n+1)`-bit difference `D ≡ R1 - B`: its top bit is the borrow
`R1 < B`, its low `n` bits are `R1 - B` when there is no borrow. -/
theorem sub_borrow (D B R1 Dlow P : Nat) (t : Bool) (hR : R1 < P) (hB : B < P) (hD : D = Dlow + P * t.toNat)
    (hlow : Dlow < P) (hmod : (D + B) % (2 * P) = R1 % (2 * P)) :
    t = decide (R1 < B) ∧ (¬ R1 < B → Dlow = R1 - B) := by
  have hDlt : D < 2 * P := by cases t <;> simp at hD <;> omega
  have hdm := Nat.div_add_mod (D + B) (2 * P)
  rw [hmod, Nat.mod_eq_of_lt (by omega : R1 < 2 * P)] at hdm
  have hq : (D + B) / (2 * P) < 2 := Nat.div_lt_of_lt_mul (by omega)
  generalize (D + B) / (2 * P) = q at *
  have hq' : q = 0 ∨ q = 1 := by omega
  cases t with
  | false =>
    simp at hD
    rcases hq' with rfl | rfl
    · simp at hdm
      refine ⟨by simp; omega, fun _ => by omega⟩
    · simp at hdm; omega
  | true =>
    simp at hD
    rcases hq' with rfl | rfl
    · simp at hdm; omega
    · simp at hdm
      refine ⟨by simp; omega, fun h => by omega⟩

/-- Value of a bit list read most significant bit first. -/
def msbVal : List Bool → Nat
  | [] => 0
  | a :: as => a.toNat * 2 ^ as.length + msbVal as

theorem msbVal_reverse (l : List Bool) : msbVal l.reverse = toNat l := by
  induction l with
  | nil => rfl
  | cons a r ih =>
    have : ∀ (l : List Bool) (b : Bool), msbVal (l ++ [b]) = 2 * msbVal l + b.toNat := by
      intro l b
      induction l with
      | nil => simp [msbVal]
      | cons c l ih =>
        simp only [List.cons_append, msbVal, ih, List.length_append, List.length_singleton, Nat.pow_succ]
        generalize 2 ^ l.length = P
        have : c.toNat * (P * 2) = 2 * (c.toNat * P) := by grind
        omega
    rw [List.reverse_cons, this, ih]; simp; omega

theorem msbVal_lt (l : List Bool) : msbVal l < 2 ^ l.length := by
  induction l with
  | nil => simp [msbVal]
  | cons a r ih =>
    simp only [msbVal, List.length_cons, Nat.pow_succ]
    have := Bool.toNat_le a
    generalize 2 ^ r.length = P at *
    have : a.toNat * P ≤ P := by
      have := Nat.mul_le_mul_right P this; simpa using this
    omega

/-- One step of restoring division on numbers (the subtracting case). -/
theorem div_step_ge (R1 B P T' : Nat) (hB : 0 < B) (h : B ≤ R1) :
    (R1 * P + T') / B = P + ((R1 - B) * P + T') / B ∧ (R1 * P + T') % B = ((R1 - B) * P + T') % B := by
  have h1 : R1 * P + T' = B * P + ((R1 - B) * P + T') := by
    have h2 : R1 * P = B * P + (R1 - B) * P := by
      rw [← Nat.add_mul]; congr 1; omega
    omega
  constructor
  · rw [h1, Nat.mul_add_div hB]
  · rw [h1, Nat.mul_add_mod]

/-- Quotient bits: the new bit goes on top of the `min nq m` low bits. -/
theorem q_combine (Q' m nq qi : Nat) (hQ : Q' < 2 ^ m) (hqi : qi ≤ 1) :
    (if m < nq then Q' % 2 ^ (min nq m) + 2 ^ (min nq m) * qi else Q' % 2 ^ (min nq m)) =
      (qi * 2 ^ m + Q') % 2 ^ (min nq (m + 1)) := by
  by_cases h : m < nq
  · have h1 : min nq m = m := by omega
    have h2 : min nq (m + 1) = m + 1 := by omega
    simp only [h, if_true, h1, h2]
    rw [Nat.mod_eq_of_lt hQ, Nat.mod_eq_of_lt]
    · rw [Nat.mul_comm]; omega
    · rw [Nat.pow_succ]
      have : qi * 2 ^ m ≤ 2 ^ m := by
        have := Nat.mul_le_mul_right (2 ^ m) hqi; simpa using this
      omega
  · have h1 : min nq m = nq := by omega
    have h2 : min nq (m + 1) = nq := by omega
    simp only [h, if_false, h1, h2]
    have hm : 2 ^ m = 2 ^ nq * 2 ^ (m - nq) := by rw [← Nat.pow_add]; congr 1; omega
    rw [hm]
    have : qi * (2 ^ nq * 2 ^ (m - nq)) = 2 ^ nq * (qi * 2 ^ (m - nq)) := by grind
    rw [this, Nat.mul_add_mod]

theorem Bnd.dropLast {s : St} {ws : List Nat} (h : Bnd s ws) : Bnd s ws.dropLast :=
  fun w hw => h w (List.dropLast_subset _ hw)

/-- The loop of `NewUDividerLong`: restoring division of
`R·2^|l| + (remaining dividend bits)` by `B`. -/
theorem divLongLoop_spec {inp : List Bool} (gmw : Bool) (b : List Nat) (nq n : Nat) (hn : 0 < n)
    (hbl : b.length = n) :
    ∀ (l r : List Nat) {s : St} (_ : WF s inp), Bnd s b → Bnd s l → Bnd s r → r.length = n →
    l.length ≤ n → 0 < toNat (busVal s inp b) → toNat (busVal s inp r) < toNat (busVal s inp b) →
    toNat (busVal s inp r) < 2 ^ (n - l.length) →
    Spec inp s (divLongLoop gmw b nq l r) (fun t s' => Bnd s' t.1 ∧ Bnd s' t.2 ∧
      t.1.length = min nq l.length ∧ t.2.length = n ∧
      toNat (busVal s' inp t.1) =
        ((toNat (busVal s inp r) * 2 ^ l.length + msbVal (busVal s inp l)) / toNat (busVal s inp b)) %
          2 ^ (min nq l.length) ∧
      toNat (busVal s' inp t.2) =
        (toNat (busVal s inp r) * 2 ^ l.length + msbVal (busVal s inp l)) % toNat (busVal s inp b))
  | [], r, s, hwf, _, _, hr, hrl, _, hB, hRB, _ => by
    simp only [divLongLoop]
    refine Spec.pure hwf ⟨Bnd.nil s, hr, by simp, hrl, ?_, ?_⟩
    · simp [msbVal, Nat.mod_one]
    · simp [msbVal, Nat.mod_eq_of_lt hRB]
  | ai :: as, r, s, hwf, hb, hl, hr, hrl, hln, hB, hRB, hRk => by
    simp only [divLongLoop]
    have hm : as.length + 1 ≤ n := by simpa using hln
    -- r << 1, r[0] = a[i]
    have hr1b : Bnd s (ai :: r.dropLast) := Bnd.cons hl.head hr.dropLast
    have hr1l : (ai :: r.dropLast).length = n := by simp [hrl]; omega
    have hrne : busVal s inp r ≠ [] := by
      intro h; have := congrArg List.length h; simp [hrl] at this; omega
    have hrtop := toNat_getLast (busVal s inp r) hrne
    rw [busVal_length, hrl] at hrtop
    have hRlt : toNat (busVal s inp r) < 2 ^ (n - 1) :=
      Nat.lt_of_lt_of_le hRk (Nat.pow_le_pow_right (by omega) (by simp; omega))
    have hdl : toNat (busVal s inp r).dropLast = toNat (busVal s inp r) := by
      cases htop : (busVal s inp r).getLastD false with
      | false => rw [htop] at hrtop; simp at hrtop; omega
      | true =>
        rw [htop] at hrtop; simp at hrtop; omega
    have hR1v : toNat (busVal s inp (ai :: r.dropLast)) = 2 * toNat (busVal s inp r) + (s.val inp ai).toNat := by
      rw [busVal_cons, toNat_cons, busVal_dropLast, hdl]; omega
    have hR1k : toNat (busVal s inp (ai :: r.dropLast)) < 2 ^ (n - as.length) := by
      rw [hR1v]
      have hp : 2 ^ (n - as.length) = 2 * 2 ^ (n - (as.length + 1)) := by
        have : n - as.length = (n - (as.length + 1)) + 1 := by omega
        rw [this, Nat.pow_succ]; omega
      have := Bool.toNat_le (s.val inp ai)
      simp only [List.length_cons] at hRk
      omega
    have hR1n : toNat (busVal s inp (ai :: r.dropLast)) < 2 ^ n :=
      Nat.lt_of_lt_of_le hR1k (Nat.pow_le_pow_right (by omega) (by omega))
    have hBn : toNat (busVal s inp b) < 2 ^ n := by have := toNat_lt (busVal s inp b); rwa [busVal_length, hbl] at this
    rw [hr1l]
    refine Spec.bind (newSubtractor_spec hwf gmw (n + 1) hr1b hb (by rw [hr1l]; omega) (by omega)) ?_
    intro diff s1 e1 ⟨hdb, hdlen, hdv⟩
    have hdne : diff ≠ [] := by intro h; rw [h] at hdlen; simp at hdlen
    have hdtop := toNat_getLast (busVal s1 inp diff) (by
      intro h; have := congrArg List.length h; simp [hdlen] at this)
    rw [busVal_length, hdlen] at hdtop
    simp only [Nat.add_sub_cancel] at hdtop
    have hdlowlt := toNat_lt (busVal s1 inp diff).dropLast
    rw [List.length_dropLast, busVal_length, hdlen] at hdlowlt
    simp only [Nat.add_sub_cancel] at hdlowlt
    have hpow : 2 ^ (n + 1) = 2 * 2 ^ n := by rw [Nat.pow_succ]; omega
    rw [hpow] at hdv
    obtain ⟨htv, hlowv⟩ := sub_borrow _ _ _ _ _ _ hR1n hBn hdtop hdlowlt hdv
    have hborrow : Holds s1 inp (diff.getLastD 0) (decide (toNat (busVal s inp (ai :: r.dropLast)) <
        toNat (busVal s inp b))) := ⟨getLastD_mem_bnd hdb hdne, by rw [val_getLastD _ hdne, htv]⟩
    -- quotient bit
    have hq : Spec inp s1 (if as.length < nq then do
          let z ← zeroWire
          let o ← oneWire
          muxBits (diff.getLastD 0) [(z, o)]
        else pure [])
        (fun qb s' => Bnd s' qb ∧ busVal s' inp qb =
          if as.length < nq then [!decide (toNat (busVal s inp (ai :: r.dropLast)) < toNat (busVal s inp b))]
          else []) := by
      split
      · refine Spec.bind (zeroWire_spec e1.wf) ?_
        intro z s2 e2 hz
        refine Spec.bind (oneWire_spec e2.wf) ?_
        intro o s3 e3 ho
        have e23 := e2.trans e3
        refine (muxBits_zip_spec (t := [z]) (f := [o]) e3.wf (Bnd.cons (hz.mono e3).1 (Bnd.nil _))
          (Bnd.cons ho.1 (Bnd.nil _)) (Nat.lt_of_lt_of_le hborrow.1 e23.next) rfl).mono ?_
        intro qb s4 _ ⟨hqb, hqv⟩
        refine ⟨hqb, ?_⟩
        rw [hqv, e23.val _ hborrow.1, hborrow.2]
        generalize decide (toNat (busVal s inp (ai :: r.dropLast)) < toNat (busVal s inp b)) = d
        simp only [busVal_cons, busVal_nil, (hz.mono e3).2, ho.2]
        cases d <;> rfl
      · exact Spec.pure e1.wf ⟨Bnd.nil _, rfl⟩
    refine Spec.bind hq ?_
    intro qb s2 e2 ⟨hqbb, hqbv⟩
    have e12 := e1.trans e2
    refine Spec.bind (muxBits_zip_spec e2.wf (hr1b.mono e12) (hdb.dropLast.mono e2)
      (Nat.lt_of_lt_of_le hborrow.1 e2.next) (by simp [hrl, hdlen]; omega)) ?_
    intro nr s3 e3 ⟨hnrb, hnrv⟩
    rw [e2.val _ hborrow.1, hborrow.2, busVal_ext e12 hr1b, busVal_ext e2 hdb.dropLast, busVal_dropLast] at hnrv
    have e13 := e12.trans e3
    -- the new remainder
    generalize hR1 : toNat (busVal s inp (ai :: r.dropLast)) = R1 at *
    generalize hBdef : toNat (busVal s inp b) = B at *
    have hnrval : toNat (busVal s3 inp nr) = if R1 < B then R1 else R1 - B := by
      rw [hnrv]
      by_cases h : R1 < B
      · simp only [h, decide_true, if_true]; exact hR1
      · simp only [h, decide_false, Bool.false_eq_true, if_false]
        exact hlowv h
    have hnrl : nr.length = n := by
      have := congrArg List.length hnrv
      rw [busVal_length] at this
      rw [this]; split
      · rw [busVal_length, hr1l]
      · rw [List.length_dropLast, busVal_length, hdlen]; omega
    have hai := Bool.toNat_le (s.val inp ai)
    have hnrB : toNat (busVal s3 inp nr) < B := by rw [hnrval]; split <;> omega
    have hnrk : toNat (busVal s3 inp nr) < 2 ^ (n - as.length) := by rw [hnrval]; split <;> omega
    refine Spec.bind (divLongLoop_spec gmw b nq n hn hbl as nr e3.wf (hb.mono e13) (hl.tail.mono e13) hnrb hnrl
      (by omega) (by rw [busVal_ext e13 hb, hBdef]; exact hB) (by rw [busVal_ext e13 hb, hBdef]; exact hnrB)
      hnrk) ?_
    intro t s4 e4 ⟨ht1, ht2, ht1l, ht2l, htq, htr⟩
    rw [busVal_ext e13 hb, hBdef, busVal_ext e13 hl.tail] at htq htr
    refine Spec.pure e4.wf ⟨ht1.append ((hqbb.mono e3).mono e4), ht2, ?_, ht2l, ?_, ?_⟩
    · have := congrArg List.length hqbv
      rw [busVal_length] at this
      rw [List.length_append, ht1l, this]
      simp only [List.length_cons]
      split <;> simp <;> omega
    · -- quotient
      rw [busVal_append, toNat_append, busVal_length, ht1l, htq, busVal_ext (e3.trans e4) hqbb, hqbv]
      simp only [busVal_cons, msbVal, List.length_cons, busVal_length]
      have hT : toNat (busVal s inp r) * 2 ^ (as.length + 1) +
          ((s.val inp ai).toNat * 2 ^ as.length + msbVal (busVal s inp as)) =
          R1 * 2 ^ as.length + msbVal (busVal s inp as) := by
        rw [hR1v, Nat.pow_succ]; grind
      rw [hT]
      generalize hM : msbVal (busVal s inp as) = M at *
      have hMlt : M < 2 ^ as.length := by rw [← hM]; have := msbVal_lt (busVal s inp as); simpa using this
      have hQ'lt : (toNat (busVal s3 inp nr) * 2 ^ as.length + M) / B < 2 ^ as.length := by
        apply Nat.div_lt_of_lt_mul
        have : (toNat (busVal s3 inp nr) + 1) * 2 ^ as.length ≤ B * 2 ^ as.length :=
          Nat.mul_le_mul_right _ (by omega)
        rw [Nat.add_mul] at this; omega
      by_cases h : R1 < B
      · rw [hnrval] at htq hQ'lt ⊢
        simp only [h, if_true] at hQ'lt ⊢
        have := q_combine ((R1 * 2 ^ as.length + M) / B) as.length nq 0 hQ'lt (by omega)
        simp only [Nat.mul_zero, Nat.add_zero, Nat.zero_mul, Nat.zero_add] at this
        rw [← this]
        split <;> simp
      · rw [hnrval] at htq hQ'lt ⊢
        simp only [h, if_false] at hQ'lt ⊢
        have hd := (div_step_ge R1 B (2 ^ as.length) M hB (by omega)).1
        rw [hd]
        have := q_combine (((R1 - B) * 2 ^ as.length + M) / B) as.length nq 1 hQ'lt (by omega)
        rw [Nat.one_mul, Nat.mul_one] at this
        rw [← this]
        split <;> simp
    · -- remainder
      rw [htr]
      simp only [busVal_cons, msbVal, List.length_cons, busVal_length]
      have hT : toNat (busVal s inp r) * 2 ^ (as.length + 1) +
          ((s.val inp ai).toNat * 2 ^ as.length + msbVal (busVal s inp as)) =
          R1 * 2 ^ as.length + msbVal (busVal s inp as) := by
        rw [hR1v, Nat.pow_succ]; grind
      rw [hT, hnrval]
      by_cases h : R1 < B
      · simp [h]
      · simp only [h, if_false]
        exact ((div_step_ge R1 B (2 ^ as.length) _ hB (by omega)).2).symm

theorem busVal_reverse (s : St) (inp : List Bool) (ws : List Nat) :
    busVal s inp ws.reverse = (busVal s inp ws).reverse := by simp [busVal]

theorem Bnd.reverse {s : St} {ws : List Nat} (h : Bnd s ws) : Bnd s ws.reverse :=
  fun w hw => h w (List.mem_reverse.mp hw)

/-- `NewUDividerLong` for a non-zero divisor and EVERY result width: quotient
`(a / b) mod 2^nq`, remainder `(a mod b) mod 2^nr` (bits above the operand
width are the zero wire). -/
theorem uDividerLong_spec {s : St} {inp : List Bool} (hwf : WF s inp) (gmw : Bool) {a b : List Nat} (nq nr : Nat)
    (ha : Bnd s a) (hb : Bnd s b) (hne : 0 < max a.length b.length) (hB : 0 < toNat (busVal s inp b)) :
    Spec inp s (uDividerLong gmw a b nq nr) (fun t s' => Bnd s' t.1 ∧ Bnd s' t.2 ∧
      t.1.length = nq ∧ t.2.length = nr ∧
      toNat (busVal s' inp t.1) = (toNat (busVal s inp a) / toNat (busVal s inp b)) % 2 ^ nq ∧
      toNat (busVal s' inp t.2) = (toNat (busVal s inp a) % toNat (busVal s inp b)) % 2 ^ nr) := by
  unfold uDividerLong
  refine Spec.bind (zeroPad_spec hwf ha hb) ?_
  intro p s1 e1 ⟨hp1, hp2, hv1, hv2⟩
  have hlen1 : p.1.length = max a.length b.length := by
    have := congrArg List.length hv1; simp at this; omega
  have hlen2 : p.2.length = max a.length b.length := by
    have := congrArg List.length hv2; simp at this; omega
  refine Spec.bind (zeros_spec e1.wf _) ?_
  intro r0 s2 e2 ⟨hr0b, hr0v⟩
  have hr0l : r0.length = max a.length b.length := by
    have := congrArg List.length hr0v; simpa [hlen1] using this
  have hBv : toNat (busVal s2 inp p.2) = toNat (busVal s inp b) := by
    rw [busVal_ext e2 hp2, hv2, toNat_padTo]
  have hR0 : toNat (busVal s2 inp r0) = 0 := by rw [hr0v]; simp
  refine Spec.bind (divLongLoop_spec gmw p.2 nq (max a.length b.length) hne hlen2 p.1.reverse r0 e2.wf (hp2.mono e2)
    ((hp1.mono e2).reverse) hr0b hr0l (by simp [hlen1]) (by rw [hBv]; exact hB) (by rw [hR0, hBv]; exact hB)
    (by rw [hR0]; exact Nat.two_pow_pos _)) ?_
  intro t s3 e3 ⟨ht1, ht2, ht1l, ht2l, htq, htr⟩
  have hT : toNat (busVal s2 inp r0) * 2 ^ p.1.reverse.length + msbVal (busVal s2 inp p.1.reverse) =
      toNat (busVal s inp a) := by
    rw [hR0, busVal_reverse, msbVal_reverse, busVal_ext e2 hp1, hv1, toNat_padTo]; simp
  rw [hT, hBv] at htq htr
  simp only [List.length_reverse, hlen1] at ht1l htq
  refine Spec.bind (zeros_spec e3.wf _) ?_
  intro zq s4 e4 ⟨hzqb, hzqv⟩
  refine Spec.bind (zeros_spec e4.wf _) ?_
  intro zr s5 e5 ⟨hzrb, hzrv⟩
  have hzql : zq.length = nq - max a.length b.length := by
    have := congrArg List.length hzqv; simpa [hlen1] using this
  have hzrl : zr.length = nr - max a.length b.length := by
    have := congrArg List.length hzrv; simpa [hlen1] using this
  have e45 := e4.trans e5
  have halt := toNat_lt (busVal s inp a)
  have hAn : toNat (busVal s inp a) < 2 ^ max a.length b.length :=
    Nat.lt_of_lt_of_le halt (Nat.pow_le_pow_right (by omega) (by simp; omega))
  refine Spec.pure e5.wf ⟨(ht1.mono e45).append (hzqb.mono e5), ((ht2.take nr).mono e45).append hzrb, ?_, ?_, ?_, ?_⟩
  · rw [List.length_append, ht1l, hzql]; omega
  · rw [List.length_append, List.length_take, ht2l, hzrl]; omega
  · rw [busVal_append, busVal_ext e5 hzqb, hzqv, toNat_append_zeros, busVal_ext e45 ht1, htq]
    by_cases h : nq ≤ max a.length b.length
    · rw [Nat.min_eq_left h]
    · rw [Nat.min_eq_right (by omega)]
      have hq : toNat (busVal s inp a) / toNat (busVal s inp b) < 2 ^ max a.length b.length :=
        Nat.lt_of_le_of_lt (Nat.div_le_self _ _) hAn
      have hp : 2 ^ max a.length b.length ≤ 2 ^ nq := Nat.pow_le_pow_right (by omega) (by omega)
      rw [Nat.mod_eq_of_lt hq, Nat.mod_eq_of_lt (by omega)]
  · rw [busVal_append, hzrv, toNat_append_zeros, busVal_ext e45 (ht2.take nr), busVal_take, toNat_take, htr]

/-! ### signed division -/

/-- Two's complement negation on numbers. -/
theorem neg_mod (z A M : Nat) (hz : z < M) (hA : A < M) (h : (z + A) % M = 0 % M) : z = (M - A) % M := by
  have hM : 0 < M := by omega
  rw [Nat.zero_mod] at h
  have hdm := Nat.div_add_mod (z + A) M
  rw [h] at hdm
  have hq : (z + A) / M < 2 := Nat.div_lt_of_lt_mul (by omega)
  generalize (z + A) / M = q at *
  have hq' : q = 0 ∨ q = 1 := by omega
  rcases hq' with rfl | rfl
  · simp at hdm
    have : A = 0 := by omega
    subst this; simp; omega
  · simp at hdm
    rw [Nat.mod_eq_of_lt (by omega)]; omega

/-- Magnitude of an `n`-bit two's complement value (as an `n`-bit number:
`|-2^(n-1)| = 2^(n-1)`). -/
def absN (xs : List Bool) : Nat :=
  if xs.getLastD false then (2 ^ xs.length - toNat xs) % 2 ^ xs.length else toNat xs

/-- `0 - a` at the width of `a`, as `NewIDivider` computes it. -/
theorem negate_spec {s : St} {inp : List Bool} (hwf : WF s inp) (gmw : Bool) {zero : Nat} {a : List Nat}
    (hz : Holds s inp zero false) (ha : Bnd s a) (hne : 0 < a.length) :
    Spec inp s (newSubtractor gmw [zero] a a.length) (fun z s' => Bnd s' z ∧ z.length = a.length ∧
      toNat (busVal s' inp z) = (2 ^ a.length - toNat (busVal s inp a)) % 2 ^ a.length) := by
  refine (newSubtractor_spec hwf gmw a.length (Bnd.cons hz.1 (Bnd.nil _)) ha (by simp; omega) hne).mono ?_
  intro z s' _ ⟨hb, hl, hv⟩
  refine ⟨hb, hl, ?_⟩
  have hzlt := toNat_lt (busVal s' inp z)
  rw [busVal_length, hl] at hzlt
  have halt := toNat_lt (busVal s inp a)
  rw [busVal_length] at halt
  simp only [busVal_cons, busVal_nil, hz.2, toNat_cons, toNat_nil] at hv
  exact neg_mod _ _ _ hzlt halt (by simpa using hv)

theorem muxBits_single_spec {s : St} {inp : List Bool} (hwf : WF s inp) {t f cond : Nat}
    (ht : t < s.next) (hf : f < s.next) (hc : cond < s.next) :
    Spec inp s (muxBits cond [(t, f)]) (fun z s' => Bnd s' z ∧ z.length = 1 ∧
      Holds s' inp (z.getD 0 0) (if s.val inp cond then s.val inp t else s.val inp f)) := by
  refine (muxBits_zip_spec (t := [t]) (f := [f]) hwf (Bnd.cons ht (Bnd.nil _)) (Bnd.cons hf (Bnd.nil _)) hc
    rfl).mono ?_
  intro z s' _ ⟨hb, hv⟩
  have hl : z.length = 1 := by
    have := congrArg List.length hv
    rw [busVal_length] at this
    rw [this]; split <;> rfl
  obtain ⟨z0, rfl⟩ : ∃ z0, z = [z0] := by
    rcases z with _ | ⟨z0, _ | _⟩ <;> simp at hl
    exact ⟨z0, rfl⟩
  refine ⟨hb, rfl, hb.head, ?_⟩
  simp only [List.getD_cons_zero]
  simp only [busVal_cons, busVal_nil] at hv
  split at hv <;> simp_all

/-- Sign handling of one operand of `NewIDivider`: magnitude and sign. -/
theorem absN_eq (av : List Bool) (hne : av ≠ []) (A1 : Nat)
    (hA1 : A1 = (2 ^ av.length - toNat av) % 2 ^ av.length) :
    (if av.getLastD false then A1 else toNat av) = absN av := by
  simp only [absN, hA1]

/-- The signed divider on operands of a common width `n > 0` (long divider
inside), every result width, divisor magnitude non-zero: quotient
`± |a| / |b|` with the sign `sign a ≠ sign b` (two's complement at the quotient
width), remainder `|a| mod |b|`. -/
theorem iDividerCore_spec {s : St} {inp : List Bool} (hwf : WF s inp) {p1 p2 : List Nat} (nq nr : Nat)
    (hp1 : Bnd s p1) (hp2 : Bnd s p2) (hl : p1.length = p2.length) (hne : 0 < p1.length)
    (hB : 0 < absN (busVal s inp p2)) :
    Spec inp s (iDividerCore false p1 p2 nq nr) (fun t s' => Bnd s' t.1 ∧ Bnd s' t.2 ∧
      t.1.length = nq ∧ t.2.length = nr ∧
      toNat (busVal s' inp t.1) =
        (if ((busVal s inp p1).getLastD false != (busVal s inp p2).getLastD false)
          then (2 ^ nq - (absN (busVal s inp p1) / absN (busVal s inp p2)) % 2 ^ nq) % 2 ^ nq
          else (absN (busVal s inp p1) / absN (busVal s inp p2)) % 2 ^ nq) ∧
      toNat (busVal s' inp t.2) = (absN (busVal s inp p1) % absN (busVal s inp p2)) % 2 ^ nr) := by
  unfold iDividerCore
  simp only [uDivider, Bool.false_eq_true, if_false]
  obtain ⟨n, hlen1⟩ : ∃ n, p1.length = n := ⟨_, rfl⟩
  have hlen2 : p2.length = n := by omega
  have havl : (busVal s inp p1).length = n := by simp [hlen1]
  have hbvl : (busVal s inp p2).length = n := by simp [hlen2]
  generalize hv1 : busVal s inp p1 = av at *
  generalize hv2 : busVal s inp p2 = bv at *
  have e1 : Ext s s inp := Ext.refl hwf
  have hp1ne : p1 ≠ [] := by intro h; rw [h] at hlen1; simp at hlen1; omega
  have hp2ne : p2 ≠ [] := by intro h; rw [h] at hlen2; simp at hlen2; omega
  refine Spec.bind (zeroWire_spec e1.wf) ?_
  intro zero s2 e2 hzero
  refine Spec.bind (inv_spec e2.wf hzero) ?_
  intro neg1 s3 e3 hneg1
  simp only [Bool.not_false] at hneg1
  have e13 := (e1.trans e2).trans e3
  have e23 := e2.trans e3
  -- a1 = -a
  refine Spec.bind (negate_spec e3.wf false (hzero.mono e3) (hp1.mono e23) (by omega)) ?_
  intro a1 s4 e4 ⟨ha1b, ha1l, ha1v⟩
  rw [busVal_ext e23 hp1, hv1, hlen1] at ha1v
  have hsa : Holds s4 inp (p1.getLastD 0) (av.getLastD false) :=
    Holds.mono (e23.trans e4) ⟨getLastD_mem_bnd hp1 hp1ne, by rw [val_getLastD _ hp1ne, hv1]⟩
  refine Spec.bind (muxBits_single_spec e4.wf (Nat.lt_of_lt_of_le hneg1.1 e4.next)
    (Nat.lt_of_lt_of_le hzero.1 (e3.trans e4).next) hsa.1) ?_
  intro neg2 s5 e5 ⟨_, _, hneg2⟩
  rw [hsa.2, e4.val _ hneg1.1, hneg1.2, (e3.trans e4).val _ hzero.1, hzero.2] at hneg2
  have hneg2' : Holds s5 inp (neg2.getD 0 0) (av.getLastD false) := by
    refine ⟨hneg2.1, ?_⟩; rw [hneg2.2]; cases av.getLastD false <;> rfl
  have e25 := (e23.trans e4).trans e5
  refine Spec.bind (muxBits_zip_spec e5.wf (ha1b.mono e5) (hp1.mono e25) (Nat.lt_of_lt_of_le hsa.1 e5.next)
    (by rw [ha1l])) ?_
  intro a2 s6 e6 ⟨ha2b, ha2v⟩
  rw [e5.val _ hsa.1, hsa.2, busVal_ext e5 ha1b, busVal_ext e25 hp1, hv1] at ha2v
  have ha2n : toNat (busVal s6 inp a2) = absN av := by
    rw [ha2v, ← absN_eq av (by intro h; rw [h] at havl; simp at havl; omega) (toNat (busVal s4 inp a1))
      (by rw [havl]; exact ha1v)]
    split <;> rfl
  have ha2l : a2.length = n := by
    have := congrArg List.length ha2v
    rw [busVal_length] at this
    rw [this]; split
    · rw [busVal_length, ha1l, hlen1]
    · exact havl
  -- b
  refine Spec.bind (inv_spec e6.wf (hneg2'.mono e6)) ?_
  intro neg3 s7 e7 hneg3
  have e27 := (e25.trans e6).trans e7
  have ez7 := ((e3.trans e4).trans e5).trans (e6.trans e7)
  refine Spec.bind (negate_spec e7.wf false (hzero.mono ez7) (hp2.mono e27) (by omega)) ?_
  intro b1 s8 e8 ⟨hb1b, hb1l, hb1v⟩
  rw [busVal_ext e27 hp2, hv2, hlen2] at hb1v
  have hsb : Holds s8 inp (p2.getLastD 0) (bv.getLastD false) :=
    Holds.mono (e27.trans e8) ⟨getLastD_mem_bnd hp2 hp2ne, by rw [val_getLastD _ hp2ne, hv2]⟩
  refine Spec.bind (muxBits_single_spec e8.wf (Nat.lt_of_lt_of_le hneg3.1 e8.next)
    (Nat.lt_of_lt_of_le hneg2'.1 ((e6.trans e7).trans e8).next) hsb.1) ?_
  intro neg4 s9 e9 ⟨_, _, hneg4⟩
  rw [hsb.2, e8.val _ hneg3.1, hneg3.2, ((e6.trans e7).trans e8).val _ hneg2'.1, hneg2'.2] at hneg4
  have hneg4' : Holds s9 inp (neg4.getD 0 0) (av.getLastD false != bv.getLastD false) := by
    refine ⟨hneg4.1, ?_⟩; rw [hneg4.2]; cases av.getLastD false <;> cases bv.getLastD false <;> rfl
  have e29 := (e27.trans e8).trans e9
  refine Spec.bind (muxBits_zip_spec e9.wf (hb1b.mono e9) (hp2.mono e29) (Nat.lt_of_lt_of_le hsb.1 e9.next)
    (by rw [hb1l])) ?_
  intro b2 s10 e10 ⟨hb2b, hb2v⟩
  rw [e9.val _ hsb.1, hsb.2, busVal_ext e9 hb1b, busVal_ext e29 hp2, hv2] at hb2v
  have hb2n : toNat (busVal s10 inp b2) = absN bv := by
    rw [hb2v, ← absN_eq bv (by intro h; rw [h] at hbvl; simp at hbvl; omega) (toNat (busVal s8 inp b1))
      (by rw [hbvl]; exact hb1v)]
    split <;> rfl
  have hb2l : b2.length = n := by
    have := congrArg List.length hb2v
    rw [busVal_length] at this
    rw [this]; split
    · rw [busVal_length, hb1l, hlen2]
    · exact hbvl
  have e610 := (e7.trans e8).trans (e9.trans e10)
  have ha2n' : toNat (busVal s10 inp a2) = absN av := by rw [busVal_ext e610 ha2b]; exact ha2n
  have hmx : max a2.length b2.length = n := by rw [ha2l, hb2l]; simp
  split
  · next hq0 =>
    subst hq0
    refine (uDividerLong_spec e10.wf false 0 nr (ha2b.mono e610) hb2b (by omega) (by rw [hb2n]; exact hB)).mono ?_
    intro t s11 _ ⟨ht1, ht2, ht1l, ht2l, htq, htr⟩
    rw [ha2n', hb2n] at htq htr
    refine ⟨ht1, ht2, ht1l, ht2l, ?_, htr⟩
    have : t.1 = [] := by
      have : t.1.length = 0 := by simpa using ht1l
      exact List.length_eq_zero_iff.mp this
    rw [this]; simp [Nat.mod_one]
  · next hq0 =>
    refine Spec.bind (uDividerLong_spec e10.wf false nq nr (ha2b.mono e610) hb2b (by omega)
      (by rw [hb2n]; exact hB)) ?_
    intro d s11 e11 ⟨hd1, hd2, hd1l, hd2l, hdq, hdr⟩
    rw [ha2n', hb2n] at hdq hdr
    have ez11 := ((ez7.trans e8).trans (e9.trans e10)).trans e11
    have hnegate := negate_spec e11.wf false (hzero.mono ez11) hd1 (by omega)
    rw [hd1l] at hnegate
    refine Spec.bind hnegate ?_
    intro q1 s12 e12 ⟨hq1b, hq1l, hq1v⟩
    rw [hdq] at hq1v
    refine (muxBits_zip_spec e12.wf hq1b (hd1.mono e12)
      (Nat.lt_of_lt_of_le hneg4'.1 ((e10.trans e11).trans e12).next) (by rw [hq1l, hd1l])).map ?_
    intro q s13 e13' ⟨hqb, hqv⟩
    rw [((e10.trans e11).trans e12).val _ hneg4'.1, hneg4'.2, busVal_ext e12 hd1] at hqv
    refine ⟨hqb, hd2.mono (e12.trans e13'), ?_, hd2l, ?_, ?_⟩
    · have := congrArg List.length hqv
      rw [busVal_length] at this
      rw [this]; split
      · rw [busVal_length, hq1l]
      · rw [busVal_length, hd1l]
    · rw [hqv]
      cases av.getLastD false != bv.getLastD false
      · simp only [Bool.false_eq_true, if_false]; exact hdq
      · simp only [if_true]; rw [hq1v]
    · rw [busVal_ext (e12.trans e13') hd2]; exact hdr


/-- `NewIDivider` as in the code (long divider inside; operands ZERO padded to
the common width `m`): the statement of `iDividerCore_spec` for the zero padded
operands. -/
theorem iDivider_spec {s : St} {inp : List Bool} (hwf : WF s inp) {a b : List Nat} (nq nr : Nat)
    (ha : Bnd s a) (hb : Bnd s b) (hne : 0 < max a.length b.length)
    (hB : 0 < absN (padTo (busVal s inp b) (max a.length b.length))) :
    Spec inp s (iDivider false a b nq nr) (fun t s' => Bnd s' t.1 ∧ Bnd s' t.2 ∧
      t.1.length = nq ∧ t.2.length = nr ∧
      toNat (busVal s' inp t.1) =
        (if ((padTo (busVal s inp a) (max a.length b.length)).getLastD false !=
            (padTo (busVal s inp b) (max a.length b.length)).getLastD false)
          then (2 ^ nq - (absN (padTo (busVal s inp a) (max a.length b.length)) /
            absN (padTo (busVal s inp b) (max a.length b.length))) % 2 ^ nq) % 2 ^ nq
          else (absN (padTo (busVal s inp a) (max a.length b.length)) /
            absN (padTo (busVal s inp b) (max a.length b.length))) % 2 ^ nq) ∧
      toNat (busVal s' inp t.2) = (absN (padTo (busVal s inp a) (max a.length b.length)) %
        absN (padTo (busVal s inp b) (max a.length b.length))) % 2 ^ nr) := by
  unfold iDivider
  refine Spec.bind (zeroPad_spec hwf ha hb) ?_
  intro p s1 e1 ⟨hp1, hp2, hv1, hv2⟩
  have hlen1 : p.1.length = max a.length b.length := by
    have := congrArg List.length hv1; simp at this; omega
  have hlen2 : p.2.length = max a.length b.length := by
    have := congrArg List.length hv2; simp at this; omega
  have := iDividerCore_spec e1.wf nq nr hp1 hp2 (by omega) (by omega) (by rw [hv2]; exact hB)
  rw [hv1, hv2] at this
  exact this.mono (fun t s2 _ h => h)

/-- The PROPOSED REPAIR `iDividerSignPad` (operands sign extended to the common
width). -/
theorem iDividerSignPad_spec {s : St} {inp : List Bool} (hwf : WF s inp) {a b : List Nat} (nq nr : Nat)
    (ha : Bnd s a) (hb : Bnd s b) (hane : 0 < a.length) (hbne : 0 < b.length)
    (hB : 0 < absN (sextTo (busVal s inp b) (max a.length b.length))) :
    Spec inp s (iDividerSignPad a b nq nr) (fun t s' => Bnd s' t.1 ∧ Bnd s' t.2 ∧
      t.1.length = nq ∧ t.2.length = nr ∧
      toNat (busVal s' inp t.1) =
        (if ((sextTo (busVal s inp a) (max a.length b.length)).getLastD false !=
            (sextTo (busVal s inp b) (max a.length b.length)).getLastD false)
          then (2 ^ nq - (absN (sextTo (busVal s inp a) (max a.length b.length)) /
            absN (sextTo (busVal s inp b) (max a.length b.length))) % 2 ^ nq) % 2 ^ nq
          else (absN (sextTo (busVal s inp a) (max a.length b.length)) /
            absN (sextTo (busVal s inp b) (max a.length b.length))) % 2 ^ nq) ∧
      toNat (busVal s' inp t.2) = (absN (sextTo (busVal s inp a) (max a.length b.length)) %
        absN (sextTo (busVal s inp b) (max a.length b.length))) % 2 ^ nr) := by
  unfold iDividerSignPad
  simp only [signPad]
  have han : a ≠ [] := by intro h; rw [h] at hane; simp at hane
  have hbn : b ≠ [] := by intro h; rw [h] at hbne; simp at hbne
  obtain ⟨hp1, hv1⟩ := signExt_spec (inp := inp) (max a.length b.length) ha han
  obtain ⟨hp2, hv2⟩ := signExt_spec (inp := inp) (max a.length b.length) hb hbn
  have hlen1 : (signExt a (max a.length b.length)).length = max a.length b.length := by
    have := congrArg List.length hv1; simp at this; omega
  have hlen2 : (signExt b (max a.length b.length)).length = max a.length b.length := by
    have := congrArg List.length hv2; simp at this; omega
  have := iDividerCore_spec hwf nq nr hp1 hp2 (by omega) (by omega) (by rw [hv2]; exact hB)
  rw [hv1, hv2] at this
  exact this

/-! ### from magnitudes to two's complement integers -/

theorem toInt_sign_abs (xs : List Bool) (hne : xs ≠ []) :
    toInt xs = (if xs.getLastD false then -((absN xs : Nat) : Int) else ((absN xs : Nat) : Int)) ∧
    (toInt xs).natAbs = absN xs := by
  have hlast := toNat_getLast xs hne
  have hlow := toNat_lt xs.dropLast
  rw [List.length_dropLast] at hlow
  have hlt := toNat_lt xs
  have hp : 2 ^ xs.length = 2 * 2 ^ (xs.length - 1) := by
    have : xs.length = (xs.length - 1) + 1 := by
      cases xs with
      | nil => exact absurd rfl hne
      | cons _ _ => simp
    rw [this, Nat.pow_succ]; simp; omega
  have hcast : ((2 : Int) ^ xs.length) = ((2 ^ xs.length : Nat) : Int) := by simp
  simp only [toInt, absN, hcast]
  cases htop : xs.getLastD false with
  | false => simp
  | true =>
    rw [htop] at hlast
    simp only [Bool.toNat_true, Nat.mul_one] at hlast
    simp only [if_true]
    have hmod : (2 ^ xs.length - toNat xs) % 2 ^ xs.length = 2 ^ xs.length - toNat xs :=
      Nat.mod_eq_of_lt (by omega)
    rw [hmod]
    constructor
    · omega
    · omega

/-- Negated quotient modulo `M`. -/
theorem neg_emod_nat (D M : Nat) (hM : 0 < M) : (((M - D % M) % M : Nat) : Int) = (-(D : Int)) % (M : Int) := by
  have hz : (M - D % M) % M < M := Nat.mod_lt _ hM
  have h : ((M - D % M) % M + D) % M = 0 % M := by
    have hr := Nat.mod_lt D hM
    have hdm := Nat.mod_add_div D M
    by_cases h0 : D % M = 0
    · rw [h0, Nat.sub_zero, Nat.mod_self, Nat.zero_add, h0]; simp
    · rw [Nat.mod_eq_of_lt (by omega : M - D % M < M)]
      have : M - D % M + D = M * (1 + D / M) := by rw [Nat.mul_add]; omega
      rw [this, Nat.mul_mod_right]; simp
  have := sub_mod_int _ 0 D M hz h
  simpa using this

/-- The quotient the signed divider delivers is the truncated quotient of the
two's complement values, modulo `2^nq`. -/
theorem signed_quotient (xs ys : List Bool) (hx : xs ≠ []) (hy : ys ≠ []) (nq : Nat) :
    (((if (xs.getLastD false != ys.getLastD false)
        then (2 ^ nq - (absN xs / absN ys) % 2 ^ nq) % 2 ^ nq
        else (absN xs / absN ys) % 2 ^ nq : Nat)) : Int) =
      (Int.tdiv (toInt xs) (toInt ys)) % ((2 ^ nq : Nat) : Int) := by
  obtain ⟨hxs, _⟩ := toInt_sign_abs xs hx
  obtain ⟨hys, _⟩ := toInt_sign_abs ys hy
  rw [hxs, hys]
  have hM : 0 < 2 ^ nq := Nat.two_pow_pos nq
  cases xs.getLastD false <;> cases ys.getLastD false <;>
    simp only [bne_self_eq_false, Bool.false_eq_true, if_false, if_true, Bool.true_bne, Bool.false_bne,
      Bool.not_false, Bool.not_true, Bool.bne_true, Bool.bne_false]
  · rw [← Int.ofNat_tdiv, Int.natCast_emod]
  · rw [Int.tdiv_neg, ← Int.ofNat_tdiv, neg_emod_nat _ _ hM]
  · rw [Int.neg_tdiv, ← Int.ofNat_tdiv, neg_emod_nat _ _ hM]
  · rw [Int.neg_tdiv, Int.tdiv_neg, Int.neg_neg, ← Int.ofNat_tdiv, Int.natCast_emod]

end Mpc.Bld

/-
Consequences of the invariant of the mesh system: complete tables at
return, deadlock freedom, termination measure.
-/
import MpcVerif.Proofs.MeshAccept

set_option linter.unusedSimpArgs false
set_option linter.unusedVariables false

namespace Mpc.Mesh

theorem wire_comm (p q k : Nat) (h : p ≠ q) : wire q p k = wire p q k := by
  unfold wire
  by_cases hp : p = 0
  · subst hp
    have : q ≠ 0 := fun e => h e.symm
    simp [this]
  · by_cases hq : q = 0
    · subst hq; simp [hp]
    · by_cases hlt : p < q
      · have : ¬ q < p := by omega
        simp [hp, hq, hlt, this]
      · have : q < p := by omega
        simp [hp, hq, hlt, this]

theorem wire_dials {i j : Nat} (k : Nat) (hd : Dials i j) : wire i j k = ⟨i, j, k⟩ ∧ wire j i k = ⟨i, j, k⟩ := by
  have hi := hd.1
  unfold wire
  rcases hd.2 with e | e
  · subst e
    have : i ≠ 0 := by omega
    simp [this]
  · have h1 : j ≠ 0 := by omega
    have h2 : i ≠ 0 := by omega
    have h3 : ¬ j < i := by omega
    simp [h1, h2, e, h3]

/-- When `Connect` has returned at party p its table is complete: for every
other party q and every k < m the canonical connection. -/
theorem done_table (c : Cfg) (hc : c.Ok) (s : State) (h : Inv c s) (p : Nat) (hp : p < c.n)
    (hd : s.phase p = .done) (q k : Nat) (hq : q < c.n) (hqp : q ≠ p) (hk : k < c.m) :
    s.conn p q k = some (wire p q k) := by
  have hm1 := hc.m1
  have hset : (s.conn p q k).isSome := by
    by_cases hp0 : p = 0
    · subst hp0
      have hL := h.leader
      have hne : s.phase 0 ≠ .init := by simp [hd]
      have h0 := hL.waited k (by simp [hd, roundsDone, hk]) hk
      rw [(hL.started hne).2 k hk] at h0
      exact missing_zero s 0 c.n k (by omega) q (by omega) hq
    · have hP := h.peer p (by omega) hp
      have hA := hP.active c.m [] (by simp [hd, prog])
      by_cases hdl : Dials p q
      · obtain ⟨pre, _, hdial⟩ := hA.dialed
        rw [hdial q k hdl]
        exact ⟨hq, Or.inr (Or.inl ⟨hk, hk⟩)⟩
      · have hqlt : 0 < q ∧ q < p := by
          simp only [Dials, not_and, not_or] at hdl
          have := hdl (by omega)
          omega
        have h0 := hA.waited k hk hk
        rw [hA.need k hk] at h0
        exact missing_zero s p p k (by omega) q hqlt.1 hqlt.2
  cases hcn : s.conn p q k with
  | none => simp [hcn] at hset
  | some v => rw [(h.slot p q k v hcn).1]

/-- Nothing is in flight once every party is done. -/
theorem done_quiet (c : Cfg) (hc : c.Ok) (s : State) (h : Inv c s)
    (hall : ∀ p, p < c.n → s.phase p = .done) :
    (∀ j i k, s.pend j i k = false) ∧ (∀ p, p < c.n → s.mail p = none) ∧ (∀ p, s.infl p = Infl.none) := by
  refine ⟨?_, ?_, ?_⟩
  · intro j i k
    cases hp : s.pend j i k with
    | false => rfl
    | true =>
      have hf := h.pendFacts hp
      have := done_table c hc s h j hf.jn (hall j hf.jn) i k hf.inn hf.ij hf.km
      simp [hf.anone] at this
  · intro p hp
    by_cases hp0 : p = 0
    · subst hp0; exact h.leader.mail0
    · exact ((h.peer p (by omega) hp).active c.m [] (by simp [hall p hp, prog])).nomail
  · intro p
    cases hi : s.infl p with
    | none => rfl
    | taken i k =>
      exfalso
      have hf := h.takenFacts hi
      have := done_table c hc s h p hf.jn (hall p hf.jn) i k hf.inn hf.ij hf.km
      simp [hf.anone] at this
    | stored i k =>
      exfalso
      have hf := h.storedFacts hi
      have hnd := h.need_pos_stored hi
      have hz : s.need p k = 0 := by
        by_cases hp0 : p = 0
        · subst hp0
          exact h.leader.waited k (by simp [hall 0 hf.jn, roundsDone, hf.km]) hf.km
        · exact ((h.peer p (by omega) hf.jn).active c.m [] (by simp [hall p hf.jn, prog])).waited k hf.km hf.km
      omega

theorem exists_of_missing_pos (s : State) (p b k : Nat) (h : 0 < missing s p b k) :
    ∃ x, 0 < x ∧ x < b ∧ s.conn p x k = none := by
  unfold missing at h
  obtain ⟨x, hx⟩ := List.exists_mem_of_length_pos h
  simp only [List.mem_filter, List.mem_range, Bool.and_eq_true, decide_eq_true_eq,
    Option.isNone_iff_eq_none] at hx
  exact ⟨x, hx.2.1, hx.1, hx.2.2⟩

/-- An idle accept goroutine can take every pending connection. -/
theorem take_enabled (c : Cfg) (hc : c.Ok) (s : State) (h : Inv c s) (j i k : Nat)
    (hacc : s.acc j = true) (hi : s.infl j = .none) (hp : s.pend j i k = true) :
    (step c s (.accTake j i k)).isSome := by
  simp only [step, stepAccTake]
  rw [if_pos ⟨hacc, hi, hp⟩]
  split <;> rfl

theorem store_enabled (c : Cfg) (s : State) (j i k : Nat) (hi : s.infl j = .taken i k) :
    (step c s (.accStore j)).isSome := by
  simp only [step, stepAccStore, hi]
  split
  · rfl
  · split
    · split <;> rfl
    · rfl

theorem dec_enabled (c : Cfg) (s : State) (j i k : Nat) (hi : s.infl j = .stored i k) :
    (step c s (.accDec j)).isSome := by
  simp only [step, stepAccDec, hi]
  split <;> rfl

/-- Deadlock freedom: in an invariant state in which some party's `Connect`
has not returned, some event of the code as it is is enabled. -/
theorem progress (c : Cfg) (hc : c.Ok) (s : State) (h : Inv c s)
    (hnd : ∃ p, p < c.n ∧ s.phase p ≠ .done) :
    ∃ e, e.real = true ∧ (step c s e).isSome := by
  have hn2 := hc.n2
  have hm1 := hc.m1
  apply Classical.byContradiction
  intro hstuck
  have hst : ∀ e, e.real = true → step c s e = none := by
    intro e he
    cases hs : step c s e with
    | none => rfl
    | some s' => exact absurd ⟨e, he, by simp [hs]⟩ hstuck
  have hL := h.leader
  -- the leader has started
  have hne : s.phase 0 ≠ .init := by
    intro e
    have := hst .lconnect rfl
    simp [step, e] at this
  have hacc0 := (hL.started hne).1
  -- no accept goroutine is inside acceptConn
  have hnoinfl : ∀ j, s.infl j = .none := by
    intro j
    cases hi : s.infl j with
    | none => rfl
    | taken i k =>
      have := store_enabled c s j i k hi
      rw [hst (.accStore j) rfl] at this
      simp at this
    | stored i k =>
      have := dec_enabled c s j i k hi
      rw [hst (.accDec j) rfl] at this
      simp at this
  have hsb0 : ∀ p k, sbit s p k = 0 := by intro p k; simp [sbit, hnoinfl p]
  -- no accept goroutine has anything to take
  have hnopend : ∀ j i k, s.acc j = true → s.pend j i k = false := by
    intro j i k hacc
    cases hp : s.pend j i k with
    | false => rfl
    | true =>
      have := take_enabled c hc s h j i k hacc (hnoinfl j) hp
      rw [hst (.accTake j i k) rfl] at this
      simp at this
  -- peers are neither before Join nor before the hello
  have hpeer1 : ∀ i, 0 < i → i < c.n → s.phase i ≠ .init ∧ s.phase i ≠ .joined := by
    intro i hi hin
    constructor
    · intro e
      have := hst (.join i) rfl
      simp [step, e, hi, hin] at this
    · intro e
      have := hst (.hello i) rfl
      simp [step, e] at this
  -- nobody has something left to dial
  have hnodial : ∀ i k j rest, s.phase i ≠ .run k (j :: rest) := by
    intro i k j rest e
    have := hst (.dial i) rfl
    simp only [step, e] at this
    split at this
    · simp at this
    · split at this
      · simp at this
      · split at this <;> simp at this
  -- the leader is past the wait for connection 0 and the info
  have hsentAll : ∀ i, infoSentTo (s.phase 0) i := by
    rcases hL.shape with e | ⟨k, hk, e⟩ | ⟨r, hr, e⟩ | e
    · exact absurd e hne
    · cases k with
      | zero =>
        exfalso
        have hneed : s.need 0 0 ≠ 0 := by
          intro e0
          have := hst (.waitDone 0) rfl
          simp [step, e, e0] at this
        rw [(hL.started hne).2 0 (by omega)] at hneed
        rw [hsb0, Nat.add_zero] at hneed
        obtain ⟨x, hx0, hxn, hxc⟩ := exists_of_missing_pos s 0 c.n 0 (by omega)
        have hP := h.peer x hx0 hxn
        have hp1 := hpeer1 x hx0 hxn
        cases hph : s.phase x with
        | init => exact hp1.1 hph
        | joined => exact hp1.2 hph
        | hello =>
          have := ((hP.hello hph).2.1 0 0).mpr ⟨rfl, rfl, hxc, by rw [hnoinfl 0]; simp⟩
          rw [hnopend 0 x 0 hacc0] at this
          simp at this
        | run k t =>
          have := (hP.active k t (by simp [hph, prog])).sent
          simp [e, infoSentTo] at this
        | info r => exact hP.notInfo r hph
        | done =>
          have := (hP.active c.m [] (by simp [hph, prog])).sent
          simp [e, infoSentTo] at this
      | succ k => intro i; simp [e, infoSentTo]
    · exfalso
      cases r with
      | nil => exact hr rfl
      | cons a l =>
        have := hst .info rfl
        simp [step, e] at this
    · intro i; simp [e, infoSentTo]
  -- every peer is waiting in some round or done
  have hpeer2 : ∀ i, 0 < i → i < c.n → (∃ k, s.phase i = .run k []) ∨ s.phase i = .done := by
    intro i hi hin
    have hP := h.peer i hi hin
    have hp1 := hpeer1 i hi hin
    cases hph : s.phase i with
    | init => exact absurd hph hp1.1
    | joined => exact absurd hph hp1.2
    | hello =>
      exfalso
      have hm := ((hP.hello hph).2.2.2.2.1).mpr (hsentAll i)
      cases hml : s.mail i with
      | none => exact hm hml
      | some l =>
        have := hst (.recvInfo i) rfl
        simp only [step, hph, hml] at this
        split at this <;> simp at this
    | run k t =>
      cases t with
      | nil => exact Or.inl ⟨k, rfl⟩
      | cons a l => exact absurd hph (hnodial i k a l)
    | info r => exact absurd hph (hP.notInfo r)
    | done => exact Or.inr rfl
  have hparty : ∀ p, p < c.n → (∃ k, s.phase p = .run k []) ∨ s.phase p = .done := by
    intro p hp
    by_cases hp0 : p = 0
    · subst hp0
      rcases hL.shape with e | ⟨k, hk, e⟩ | ⟨r, hr, e⟩ | e
      · exact absurd e hne
      · exact Or.inl ⟨k, e⟩
      · have := hsentAll 1
        simp only [e, infoSentTo] at this
        exfalso
        cases r with
        | nil => exact hr rfl
        | cons a l =>
          have := hst .info rfl
          simp [step, e] at this
      · exact Or.inr e
    · exact hpeer2 p (by omega) hp
  have haccAll : ∀ p, p < c.n → s.acc p = true := by
    intro p hp
    by_cases hp0 : p = 0
    · subst hp0; exact hacc0
    · have hP := h.peer p (by omega) hp
      rcases hpeer2 p (by omega) hp with ⟨k, e⟩ | e
      · exact (hP.active k [] (by simp [e, prog])).acc
      · exact (hP.active c.m [] (by simp [e, prog])).acc
  -- nobody waits in round k, by induction on k
  have hnowait : ∀ k p, p < c.n → s.phase p ≠ .run k [] := by
    intro k
    induction k using Nat.strongRecOn with
    | _ k ih =>
      intro p hp hph
      have hneed : s.need p k ≠ 0 := by
        intro e0
        have := hst (.waitDone p) rfl
        simp only [step, hph, e0, if_true] at this
        split at this <;> simp at this
      -- a connection (i -> p, k) that p has not stored
      obtain ⟨i, hi0, hin, hdl, hnone, hk⟩ :
          ∃ i, 0 < i ∧ i < c.n ∧ Dials i p ∧ s.conn p i k = none ∧ k < c.m := by
        by_cases hp0 : p = 0
        · subst hp0
          have hk : k < c.m := by
            rcases hL.shape with e | ⟨k', hk', e⟩ | ⟨r, _, e⟩ | e <;> simp [hph] at e
            omega
          rw [(hL.started hne).2 k hk] at hneed
          rw [hsb0, Nat.add_zero] at hneed
          obtain ⟨x, hx0, hxn, hxc⟩ := exists_of_missing_pos s 0 c.n k (by omega)
          exact ⟨x, hx0, hxn, ⟨hx0, Or.inl rfl⟩, hxc, hk⟩
        · have hP := h.peer p (by omega) hp
          have hk := hP.runLt k [] hph
          have hA := hP.active k [] (by simp [hph, prog])
          rw [hA.need k hk] at hneed
          rw [hsb0, Nat.add_zero] at hneed
          obtain ⟨x, hx0, hxp, hxc⟩ := exists_of_missing_pos s p p k (by omega)
          exact ⟨x, hx0, by omega, ⟨hx0, Or.inr hxp⟩, hxc, hk⟩
      -- the dialler i has not dialled it
      have hdnone : s.conn i p k = none := by
        cases hcn : s.conn i p k with
        | none => rfl
        | some v =>
          exfalso
          rcases h.dialSlot i p k hdl (by simp [hcn]) with e | e | ⟨_, _, e⟩ | e
          · rw [hnopend p i k (haccAll p hp)] at e; simp at e
          · simp [hnone] at e
          · exact (hpeer1 i hi0 hin).2 e
          · rw [hnoinfl p] at e; simp at e
      have hPi := h.peer i hi0 hin
      rcases hpeer2 i hi0 hin with ⟨k', e⟩ | e
      · have hAi := hPi.active k' [] (by simp [e, prog])
        have hk' := hPi.runLt k' [] e
        obtain ⟨pre, hpre, hdial⟩ := hAi.dialed
        have hpre := hpre hk'
        simp only [List.append_nil] at hpre
        have hnot : ¬ (p < c.n ∧ (p = 0 ∧ k = 0 ∨ k < k' ∧ k < c.m ∨ k = k' ∧ k' < c.m ∧ p ∈ pre)) := by
          intro e'
          have := (hdial p k hdl).mpr e'
          simp [hdnone] at this
        have hkk : k' = k := by
          apply Decidable.byContradiction; intro hne'
          by_cases hlt : k' < k
          · exact ih k' hlt i hin e
          · exact hnot ⟨hp, Or.inr (Or.inl ⟨by omega, hk⟩)⟩
        subst hkk
        apply hnot
        refine ⟨hp, ?_⟩
        by_cases h00 : p = 0 ∧ k' = 0
        · exact Or.inl h00
        · right; right
          refine ⟨rfl, hk, ?_⟩
          rw [← hpre, hAi.mem_targets hi0]
          refine ⟨hp, ?_⟩
          by_cases hp0 : p = 0
          · have : k' ≠ 0 := fun e' => h00 ⟨hp0, e'⟩
            simp [hp0, this]
          · rcases hdl.2 with e' | e'
            · exact absurd e' hp0
            · simp [hp0, e']
      · have hAi := hPi.active c.m [] (by simp [e, prog])
        obtain ⟨pre, _, hdial⟩ := hAi.dialed
        have := (hdial p k hdl).mpr ⟨hp, Or.inr (Or.inl ⟨hk, hk⟩)⟩
        simp [hdnone] at this
  obtain ⟨p, hp, hpd⟩ := hnd
  rcases hparty p hp with ⟨k, e⟩ | e
  · exact hnowait k p hp e
  · exact hpd e

end Mpc.Mesh

/-
C09, pass models: semantics of builder-level graphs.

A gate list that is single-assignment and *weakly* topological (no gate
reads a wire written by itself or by a later gate; reading a wire that
nothing writes is allowed and gives 0) has exactly one solution of its gate
equations, and in-order evaluation computes it.  Pass correctness is then
proved on solutions, not on evaluation order.
-/
import MpcVerif.Proofs.Levels
import MpcVerif.Model.Passes

set_option linter.unusedSimpArgs false
set_option linter.unusedVariables false

namespace Mpc

/-- No gate reads a wire written by itself or a later gate. -/
def weakTopo : List Gate → Prop
  | [] => True
  | g :: gs => (∀ w ∈ g.ins, ∀ g' ∈ g :: gs, g'.out ≠ w) ∧ weakTopo gs

/-- Well-formed gate list for stores of size `n` with `nIn` inputs. -/
structure ListWF (n nIn : Nat) (gs : List Gate) : Prop where
  nin   : nIn ≤ n
  nodup : (gs.map (·.out)).Nodup
  notIn : ∀ g ∈ gs, nIn ≤ g.out
  bound : ∀ g ∈ gs, g.out < n
  topo  : weakTopo gs

/-- `s` solves the gate equations of `gs` for input `x`: inputs as given,
every gate equation holds, undriven non-input wires are 0. -/
structure Sol (n nIn : Nat) (gs : List Gate) (x : List Bool) (s : Store Bool) : Prop where
  size  : s.size = n
  inp   : ∀ w, w < nIn → s.get w = (x.take nIn).getD w false
  sem   : Sem s gs
  undef : ∀ w, nIn ≤ w → (∀ g ∈ gs, g.out ≠ w) → s.get w = false

theorem ListWF.tail {n nIn : Nat} {g : Gate} {gs : List Gate} (h : ListWF n nIn (g :: gs)) :
    ListWF n nIn gs :=
  ⟨h.nin, (List.nodup_cons.mp (by simpa using h.nodup)).2, fun g' hg' => h.notIn g' (List.mem_cons_of_mem _ hg'),
    fun g' hg' => h.bound g' (List.mem_cons_of_mem _ hg'), h.topo.2⟩

/-- Evaluation from any store: the gate equations hold in the final store. -/
theorem eval_sem (n nIn : Nat) : ∀ (gs : List Gate) (s : Store Bool), s.size = n → ListWF n nIn gs →
    Sem (evalPlainGates gs s) gs := by
  intro gs
  induction gs with
  | nil => intro s _ _ g hg; simp at hg
  | cons g gs ih =>
    intro s hs hwf g' hg'
    rw [evalPlainGates_cons]
    have hs1 : (g.evalPlain s).size = n := by simp [Gate.evalPlain, hs]
    rcases List.mem_cons.mp hg' with rfl | hg'
    · -- the head gate: nothing later writes its output or its inputs
      have hnd := hwf.nodup
      simp only [List.map_cons, List.nodup_cons, List.mem_map, not_exists, not_and] at hnd
      have hfo : ∀ g'' ∈ gs, g''.out ≠ g'.out := fun g'' h'' => hnd.1 g'' h''
      have hfi : ∀ w ∈ g'.ins, (evalPlainGates gs (g'.evalPlain s)).get w = s.get w := by
        intro w hw
        rw [evalPlainGates_frame gs w _ (fun g'' h'' => hwf.topo.1 w hw g'' (List.mem_cons_of_mem _ h''))]
        exact Store.get_set_ne _ _ _ _ (hwf.topo.1 w hw g' List.mem_cons_self)
      rw [evalPlainGates_frame gs _ _ hfo]
      have ho : (g'.evalPlain s).get g'.out = g'.op.eval (s.get g'.in0) (s.get g'.in1) :=
        Store.get_set_eq _ _ _ (by rw [hs]; exact hwf.bound g' List.mem_cons_self)
      rw [ho, hfi g'.in0 ((mem_ins _ _).mpr (Or.inl rfl))]
      cases hb : g'.op.binary
      · exact Op.eval_unary _ hb _ _ _
      · rw [hfi g'.in1 ((mem_ins _ _).mpr (Or.inr ⟨hb, rfl⟩))]
    · exact ih _ hs1 hwf.tail g' hg'

/-- In-order evaluation is a solution. -/
theorem eval_sol (n nIn : Nat) (gs : List Gate) (x : List Bool) (hwf : ListWF n nIn gs) :
    Sol n nIn gs x (evalPlainGates gs (initStore n false (x.take nIn))) := by
  have hsz : (initStore n false (x.take nIn)).size = n := by simp [initStore]
  refine ⟨by rw [evalPlainGates_size, hsz], fun w hw => ?_, eval_sem n nIn gs _ hsz hwf, fun w hw hno => ?_⟩
  · rw [evalPlainGates_frame gs w _ (fun g hg h => by have := hwf.notIn g hg; omega)]
    exact get_initStore _ _ _ (by have := hwf.nin; omega)
  · rw [evalPlainGates_frame gs w _ hno]
    by_cases hwn : w < n
    · rw [get_initStore _ _ _ hwn]
      simp only [List.getD_eq_getElem?_getD]
      rw [List.getElem?_eq_none (by simp; omega)]
      rfl
    · simp [Store.get, initStore, Array.getD, hwn]

/-- Two solutions agree everywhere. -/
theorem sol_unique_aux (n nIn : Nat) (x : List Bool) (s1 s2 : Store Bool) :
    ∀ (suf pre : List Gate), ListWF n nIn (pre ++ suf) → weakTopo suf →
    Sol n nIn (pre ++ suf) x s1 → Sol n nIn (pre ++ suf) x s2 →
    (∀ w, (∃ g ∈ pre, g.out = w) → s1.get w = s2.get w) →
    ∀ w, s1.get w = s2.get w := by
  intro suf
  induction suf with
  | nil =>
    intro pre _ _ h1 h2 hpre w
    simp only [List.append_nil] at h1 h2
    by_cases hin : w < nIn
    · rw [h1.inp w hin, h2.inp w hin]
    · by_cases hex : ∃ g ∈ pre, g.out = w
      · exact hpre w hex
      · have hno : ∀ g ∈ pre, g.out ≠ w := fun g hg h => hex ⟨g, hg, h⟩
        rw [h1.undef w (by omega) hno, h2.undef w (by omega) hno]
  | cons g suf ih =>
    intro pre hwf htopo h1 h2 hpre w
    have hmem : g ∈ pre ++ g :: suf := by simp
    -- inputs of g agree
    have hin : ∀ w' ∈ g.ins, s1.get w' = s2.get w' := by
      intro w' hw'
      by_cases hin : w' < nIn
      · rw [h1.inp w' hin, h2.inp w' hin]
      · by_cases hex : ∃ g' ∈ pre, g'.out = w'
        · exact hpre w' hex
        · have hno : ∀ g' ∈ pre ++ g :: suf, g'.out ≠ w' := by
            intro g' hg' h
            rcases List.mem_append.mp hg' with hp | hs
            · exact hex ⟨g', hp, h⟩
            · exact htopo.1 w' hw' g' hs h
          rw [h1.undef w' (by omega) hno, h2.undef w' (by omega) hno]
    have hout : s1.get g.out = s2.get g.out := by
      rw [h1.sem g hmem, h2.sem g hmem, hin _ ((mem_ins _ _).mpr (Or.inl rfl))]
      cases hb : g.op.binary
      · exact Op.eval_unary _ hb _ _ _
      · rw [hin _ ((mem_ins _ _).mpr (Or.inr ⟨hb, rfl⟩))]
    have happ : pre ++ g :: suf = (pre ++ [g]) ++ suf := by simp
    rw [happ] at hwf h1 h2
    refine ih (pre ++ [g]) hwf htopo.2 h1 h2 ?_ w
    rintro w' ⟨g', hg', rfl⟩
    rcases List.mem_append.mp hg' with hp | hs
    · exact hpre _ ⟨g', hp, rfl⟩
    · simp only [List.mem_singleton] at hs
      subst hs
      exact hout

theorem sol_unique (n nIn : Nat) (gs : List Gate) (x : List Bool) (s1 s2 : Store Bool)
    (hwf : ListWF n nIn gs) (h1 : Sol n nIn gs x s1) (h2 : Sol n nIn gs x s2) :
    ∀ w, s1.get w = s2.get w :=
  sol_unique_aux n nIn x s1 s2 gs [] (by simpa using hwf) hwf.topo (by simpa using h1) (by simpa using h2)
    (fun w ⟨g, hg, _⟩ => by simp at hg)

end Mpc

/-
Lemmas for COT / ROT over IKNP with MITCCRH (Model/Cot.lean): every
`Hash(pad, 8, h)` call renews and uses all eight keys; lock-step induction
over the batch loops of sender and receiver (stale pad entries of a short last
batch differ between the parties and are shown irrelevant).  Core Lean only.
-/
import MpcVerif.Model.Cot
import MpcVerif.Proofs.Iknp
namespace Mpc.Cot
open Mpc.Iknp (Label getD_mk size_mk)

theorem lget_tab (n : Nat) (f : Nat → Label) (i : Nat) (h : i < n) : lget (tab n f) i = f i :=
  getD_mk n f i _ h

theorem wget_tab (n : Nat) (f : Nat → Wire) (i : Nat) (h : i < n) : wget (tab n f) i = f i :=
  getD_mk n f i _ h

@[simp] theorem size_tab {α : Type} (n : Nat) (f : Nat → α) : (tab n f).size = n := size_mk n f

/-- The state after a `Hash` call that renewed the keys and used all 8. -/
def Mitccrh.next (m : Mitccrh) : Mitccrh := { m.renewKeys with keyUsed := otBatchSize }

/-- Key of slot `t` in the next `Hash` call of a `MITCCRH` whose keys are used up. -/
def Mitccrh.key (m : Mitccrh) (t : Nat) : Label := lget m.renewKeys.keys t

/-- In COT/ROT every `Hash(pad, 8, h)` call finds the keys used up
(`keyUsed = batchSize = 8`), renews them and uses all 8: block `idx` is hashed
under key `idx / h`. -/
theorem hash_full (π : Label → Label → Label) (m : Mitccrh) (blks : Array Label) (h : Nat)
    (hb : m.batchSize = otBatchSize) (hu : m.keyUsed = otBatchSize) (hsz : otBatchSize * h = blks.size) :
    m.hash π blks otBatchSize h =
      some (m.next, tab blks.size fun idx => lget blks idx ^^^ π (m.key (idx / h)) (lget blks idx)) := by
  unfold Mitccrh.hash
  have e1 : ¬ (otBatchSize > m.batchSize) := by omega
  have e2 : ¬ (m.batchSize % otBatchSize ≠ 0) := by rw [hb]; decide
  have e3 : ¬ (otBatchSize * h ≠ blks.size) := by omega
  have e4 : m.keyUsed = m.batchSize := by omega
  rw [if_neg e1, if_neg e2, if_neg e3]
  simp only [e4, if_true]
  have e5 : ¬ (m.renewKeys.keyUsed + otBatchSize > m.renewKeys.batchSize) := by
    simp [Mitccrh.renewKeys, hb]
  rw [if_neg e5]
  simp [Mitccrh.next, Mitccrh.key, Mitccrh.renewKeys]

theorem next_inv (m : Mitccrh) (hb : m.batchSize = otBatchSize) :
    m.next.batchSize = otBatchSize ∧ m.next.keyUsed = otBatchSize := by
  simp [Mitccrh.next, Mitccrh.renewKeys, hb]

theorem xor_pad_cancel (x p w : Label) : ((x ^^^ p) ^^^ w) ^^^ (x ^^^ p) = w := by
  rw [BitVec.xor_comm (x ^^^ p) w, BitVec.xor_assoc, BitVec.xor_self, BitVec.xor_zero]

theorem getD_map_range (n : Nat) (f : Nat → Label) (t : Nat) (h : t < n) :
    ((List.range n).map f).getD t 0#128 = f t := by
  simp [List.getD_eq_getElem?_getD, h]

/-- Lock-step induction over the batch loops of `COT.Send` and `COT.Receive`. -/
theorem cot_loops (π : Label → Label → Label) (delta : Label) (data : Array Label) (wires : Array Wire)
    (flags : Array Bool) (n : Nat) :
    ∀ (fuel i : Nat) (m : Mitccrh) (padS padR res : Array Label) (more : List Label),
      m.batchSize = otBatchSize → m.keyUsed = otBatchSize → res.size = n → n - i ≤ fuel →
      (∀ j, i ≤ j → j < n → lget res j = lget data j ^^^ (if flags.getD j false then delta else 0#128)) →
      ∃ cts, cotSendLoop π delta data wires n fuel i m padS = some cts ∧
        ∃ out, cotRecvLoop π flags n fuel i m padR res (cts ++ more) = some out ∧ out.size = n ∧
          (∀ j, j < i → lget out j = lget res j) ∧
          (∀ j, i ≤ j → j < n → lget out j = if flags.getD j false then (wget wires j).2 else (wget wires j).1) := by
  intro fuel
  induction fuel with
  | zero =>
    intro i m padS padR res more _ _ hres hf _
    refine ⟨[], rfl, res, rfl, hres, fun _ _ => rfl, ?_⟩
    intro j h1 h2; omega
  | succ fuel ih =>
    intro i m padS padR res more hb hu hres hf hcorr
    by_cases hlt : i < n
    · have hob : otBatchSize = 8 := rfl
      let cnt := min (i + otBatchSize) n - i
      have hcnt : cnt = min (i + otBatchSize) n - i := rfl
      have hcnt' : min otBatchSize (n - i) = cnt := by omega
      -- sender
      let pad1S : Array Label := tab (2 * otBatchSize) fun t =>
        if t / 2 < cnt then (if t % 2 = 0 then lget data (i + t / 2) else lget data (i + t / 2) ^^^ delta)
        else lget padS t
      let pad2S : Array Label := tab pad1S.size fun idx => lget pad1S idx ^^^ π (m.key (idx / 2)) (lget pad1S idx)
      let pad3S : Array Label := tab (2 * otBatchSize) fun t =>
        if t / 2 < cnt then
          lget pad2S t ^^^ (if t % 2 = 0 then (wget wires (i + t / 2)).1 else (wget wires (i + t / 2)).2)
        else lget pad2S t
      let sent : List Label := (List.range (2 * cnt)).map fun t => lget pad3S t
      have hhS : m.hash π pad1S otBatchSize 2 = some (m.next, pad2S) :=
        hash_full π m pad1S 2 hb hu (by simp [pad1S]; omega)
      -- receiver
      let pad1R : Array Label := tab otBatchSize fun t => if i + t < res.size then lget res (i + t) else lget padR t
      let pad2R : Array Label := tab pad1R.size fun idx => lget pad1R idx ^^^ π (m.key (idx / 1)) (lget pad1R idx)
      have hhR : m.hash π pad1R otBatchSize 1 = some (m.next, pad2R) :=
        hash_full π m pad1R 1 hb hu (by simp [pad1R])
      let res' : List Label → Array Label := fun cts => tab res.size fun j =>
        if i ≤ j ∧ j < i + cnt then
          (if flags.getD j false then cts.getD (2 * (j - i) + 1) 0#128 else cts.getD (2 * (j - i)) 0#128)
            ^^^ lget pad2R (j - i)
        else lget res j
      have hsent_len : sent.length = 2 * cnt := by simp [sent]
      -- delivered values of this batch
      have hdel : ∀ rest : List Label, ∀ j, i ≤ j → j < i + cnt →
          lget (res' (sent ++ rest)) j = if flags.getD j false then (wget wires j).2 else (wget wires j).1 := by
        intro rest j h1 h2
        have hjn : j < n := by omega
        have hjs : j < res.size := by omega
        show lget (tab res.size _) j = _
        rw [lget_tab _ _ _ hjs]
        simp only [h1, h2, and_self, if_true]
        have hp2R : lget pad2R (j - i) = lget res j ^^^ π (m.key (j - i)) (lget res j) := by
          show lget (tab pad1R.size _) (j - i) = _
          rw [lget_tab _ _ _ (by simp [pad1R]; omega)]
          have : lget pad1R (j - i) = lget res j := by
            show lget (tab otBatchSize _) (j - i) = _
            rw [lget_tab _ _ _ (by omega)]
            have e : i + (j - i) = j := by omega
            simp only [e, hjs, if_true]
          rw [this, Nat.div_one]
        have hsentget : ∀ b : Nat, b < 2 →
            (sent ++ rest).getD (2 * (j - i) + b) 0#128 =
              (lget data j ^^^ (if b = 0 then 0#128 else delta)) ^^^
                π (m.key (j - i)) (lget data j ^^^ (if b = 0 then 0#128 else delta)) ^^^
                (if b = 0 then (wget wires j).1 else (wget wires j).2) := by
          intro b hb2
          have hidx : 2 * (j - i) + b < 2 * cnt := by omega
          rw [Mpc.Iknp.getD_append_left _ _ _ _ (by omega)]
          show ((List.range (2 * cnt)).map fun t => lget pad3S t).getD _ _ = _
          rw [getD_map_range _ _ _ hidx]
          have hdiv : (2 * (j - i) + b) / 2 = j - i := by omega
          have hmod : (2 * (j - i) + b) % 2 = b := by omega
          have e : i + (j - i) = j := by omega
          have h16 : 2 * (j - i) + b < 2 * otBatchSize := by omega
          show lget (tab (2 * otBatchSize) _) _ = _
          rw [lget_tab _ _ _ h16]
          have hc : j - i < cnt := by omega
          simp only [hdiv, hmod, hc, if_true, e]
          have hp2 : lget pad2S (2 * (j - i) + b) =
              (lget data j ^^^ (if b = 0 then 0#128 else delta)) ^^^
                π (m.key (j - i)) (lget data j ^^^ (if b = 0 then 0#128 else delta)) := by
            show lget (tab pad1S.size _) _ = _
            rw [lget_tab _ _ _ (by simp [pad1S]; omega)]
            have hp1 : lget pad1S (2 * (j - i) + b) = lget data j ^^^ (if b = 0 then 0#128 else delta) := by
              show lget (tab (2 * otBatchSize) _) _ = _
              rw [lget_tab _ _ _ h16]
              simp only [hdiv, hmod, hc, if_true, e]
              by_cases hb0 : b = 0 <;> simp [hb0]
            rw [hp1, hdiv]
          rw [hp2]
        have hres := hcorr j h1 hjn
        cases hf : flags.getD j false with
        | false =>
          simp only [Bool.false_eq_true, if_false]
          have := hsentget 0 (by omega)
          simp only [Nat.add_zero, if_true, BitVec.xor_zero] at this
          rw [this, hp2R, hres, hf]
          simp only [Bool.false_eq_true, if_false, BitVec.xor_zero]
          exact xor_pad_cancel _ _ _
        | true =>
          simp only [if_true]
          have := hsentget 1 (by omega)
          simp only [Nat.succ_ne_zero, if_false] at this
          rw [this, hp2R, hres, hf]
          simp only [if_true]
          exact xor_pad_cancel _ _ _
      -- unfold one iteration on both sides
      have hS : cotSendLoop π delta data wires n (fuel + 1) i m padS =
          (cotSendLoop π delta data wires n fuel (i + otBatchSize) m.next pad3S).map (sent ++ ·) := by
        simp only [cotSendLoop, hlt, if_true]
        rw [hhS]
        simp only
        cases cotSendLoop π delta data wires n fuel (i + otBatchSize) m.next pad3S <;> rfl
      have hR : ∀ cts : List Label, 2 * cnt ≤ cts.length →
          cotRecvLoop π flags n (fuel + 1) i m padR res cts =
            cotRecvLoop π flags n fuel (i + otBatchSize) m.next pad2R (res' cts) (cts.drop (2 * cnt)) := by
        intro cts hlen
        simp only [cotRecvLoop, hlt, if_true]
        rw [hhR]
        simp only [hcnt', Nat.not_lt.mpr hlen, if_false]
        rfl
      obtain ⟨hnb, hnu⟩ := next_inv m hb
      -- induction hypothesis on the rest
      have hcorr' : ∀ rest : List Label, ∀ j, i + otBatchSize ≤ j → j < n →
          lget (res' (sent ++ rest)) j = lget data j ^^^ (if flags.getD j false then delta else 0#128) := by
        intro rest j h1 h2
        show lget (tab res.size _) j = _
        rw [lget_tab _ _ _ (by omega)]
        have : ¬ (i ≤ j ∧ j < i + cnt) := by omega
        simp only [this, if_false]
        exact hcorr j (by omega) h2
      -- the sender's remaining ciphertexts do not depend on the receiver
      obtain ⟨ctsRest, hsr, _⟩ := ih (i + otBatchSize) m.next pad3S pad2R (res' sent) more hnb hnu (by simp [res', hres])
        (by omega) (by
          intro j h1 h2
          have := hcorr' [] j h1 h2
          simpa using this)
      obtain ⟨cts2, hsr2, out, hrr, hosz, hlow, hhigh⟩ :=
        ih (i + otBatchSize) m.next pad3S pad2R (res' (sent ++ (ctsRest ++ more))) more hnb hnu (by simp [res', hres])
          (by omega) (hcorr' _)
      have hc2 : cts2 = ctsRest := by rw [hsr] at hsr2; exact (Option.some.inj hsr2).symm
      subst hc2
      refine ⟨sent ++ cts2, ?_, out, ?_, hosz, ?_, ?_⟩
      · rw [hS, hsr]; rfl
      · rw [List.append_assoc, hR _ (by simp [hsent_len])]
        have : (sent ++ (cts2 ++ more)).drop (2 * cnt) = cts2 ++ more := by
          rw [← hsent_len]; exact List.drop_left
        rw [this]
        exact hrr
      · intro j hj
        rw [hlow j (by omega)]
        show lget (tab res.size _) j = _
        rw [lget_tab _ _ _ (by omega)]
        have : ¬ (i ≤ j ∧ j < i + cnt) := by omega
        simp only [this, if_false]
      · intro j h1 h2
        by_cases hj : j < i + otBatchSize
        · rw [hlow j hj]
          exact hdel _ j h1 (by omega)
        · exact hhigh j (by omega) h2
    · refine ⟨[], by simp [cotSendLoop, hlt], res, by simp [cotRecvLoop, hlt], hres, fun _ _ => rfl, ?_⟩
      intro j h1 h2; omega

/-- Lock-step induction over the batch loops of `ROT.Send` and `ROT.Receive`. -/
theorem rot_loops (π : Label → Label → Label) (delta : Label) (data : Array Label) (flags : Array Bool) (n : Nat) :
    ∀ (fuel i : Nat) (m : Mitccrh) (padS padR : Array Label) (w : Array Wire) (res : Array Label),
      m.batchSize = otBatchSize → m.keyUsed = otBatchSize → res.size = n → w.size = n → n - i ≤ fuel →
      (∀ j, i ≤ j → j < n → lget res j = lget data j ^^^ (if flags.getD j false then delta else 0#128)) →
      ∃ w' out, rotSendLoop π delta data n fuel i m padS w = some w' ∧
        rotRecvLoop π n fuel i m padR res = some out ∧ w'.size = n ∧ out.size = n ∧
        (∀ j, j < i → lget out j = lget res j ∧ wget w' j = wget w j) ∧
        (∀ j, i ≤ j → j < n → lget out j = if flags.getD j false then (wget w' j).2 else (wget w' j).1) := by
  intro fuel
  induction fuel with
  | zero =>
    intro i m padS padR w res _ _ hres hw hf _
    refine ⟨w, res, rfl, rfl, hw, hres, fun _ _ => ⟨rfl, rfl⟩, ?_⟩
    intro j h1 h2; omega
  | succ fuel ih =>
    intro i m padS padR w res hb hu hres hw hf hcorr
    by_cases hlt : i < n
    · have hob : otBatchSize = 8 := rfl
      let cnt := min (i + otBatchSize) n - i
      have hcnt : cnt = min (i + otBatchSize) n - i := rfl
      let pad1S : Array Label := tab (2 * otBatchSize) fun t =>
        if t / 2 < cnt then (if t % 2 = 0 then lget data (i + t / 2) else lget data (i + t / 2) ^^^ delta)
        else lget padS t
      let pad2S : Array Label := tab pad1S.size fun idx => lget pad1S idx ^^^ π (m.key (idx / 2)) (lget pad1S idx)
      let w' : Array Wire := tab w.size fun j =>
        if i ≤ j ∧ j < i + cnt then (lget pad2S (2 * (j - i)), lget pad2S (2 * (j - i) + 1)) else wget w j
      have hhS : m.hash π pad1S otBatchSize 2 = some (m.next, pad2S) :=
        hash_full π m pad1S 2 hb hu (by simp [pad1S]; omega)
      let pad1R : Array Label := tab otBatchSize fun t => if i + t < res.size then lget res (i + t) else lget padR t
      let pad2R : Array Label := tab pad1R.size fun idx => lget pad1R idx ^^^ π (m.key (idx / 1)) (lget pad1R idx)
      have hhR : m.hash π pad1R otBatchSize 1 = some (m.next, pad2R) :=
        hash_full π m pad1R 1 hb hu (by simp [pad1R])
      let res' : Array Label := tab res.size fun j =>
        if i ≤ j ∧ j < i + otBatchSize then lget pad2R (j - i) else lget res j
      have hS : rotSendLoop π delta data n (fuel + 1) i m padS w =
          rotSendLoop π delta data n fuel (i + otBatchSize) m.next pad2S w' := by
        simp only [rotSendLoop, hlt, if_true]
        rw [hhS]
      have hR : rotRecvLoop π n (fuel + 1) i m padR res =
          rotRecvLoop π n fuel (i + otBatchSize) m.next pad2R res' := by
        simp only [rotRecvLoop, hlt, if_true]
        rw [hhR]
      obtain ⟨hnb, hnu⟩ := next_inv m hb
      have hp2S : ∀ j (b : Nat), i ≤ j → j < i + cnt → b < 2 →
          lget pad2S (2 * (j - i) + b) =
            (lget data j ^^^ (if b = 0 then 0#128 else delta)) ^^^
              π (m.key (j - i)) (lget data j ^^^ (if b = 0 then 0#128 else delta)) := by
        intro j b h1 h2 hb2
        have hdiv : (2 * (j - i) + b) / 2 = j - i := by omega
        have hmod : (2 * (j - i) + b) % 2 = b := by omega
        have e : i + (j - i) = j := by omega
        have h16 : 2 * (j - i) + b < 2 * otBatchSize := by omega
        have hc : j - i < cnt := by omega
        show lget (tab pad1S.size _) _ = _
        rw [lget_tab _ _ _ (by simp [pad1S]; omega)]
        have hp1 : lget pad1S (2 * (j - i) + b) = lget data j ^^^ (if b = 0 then 0#128 else delta) := by
          show lget (tab (2 * otBatchSize) _) _ = _
          rw [lget_tab _ _ _ h16]
          simp only [hdiv, hmod, hc, if_true, e]
          by_cases hb0 : b = 0 <;> simp [hb0]
        rw [hp1, hdiv]
      have hp2R : ∀ j, i ≤ j → j < i + otBatchSize → j < n →
          lget pad2R (j - i) = lget res j ^^^ π (m.key (j - i)) (lget res j) := by
        intro j h1 h2 h3
        show lget (tab pad1R.size _) (j - i) = _
        rw [lget_tab _ _ _ (by simp [pad1R]; omega)]
        have : lget pad1R (j - i) = lget res j := by
          show lget (tab otBatchSize _) (j - i) = _
          rw [lget_tab _ _ _ (by omega)]
          have e : i + (j - i) = j := by omega
          have hjs : j < res.size := by omega
          simp only [e, hjs, if_true]
        rw [this, Nat.div_one]
      obtain ⟨w'', out, hs2, hr2, hwsz, hosz, hlow, hhigh⟩ :=
        ih (i + otBatchSize) m.next pad2S pad2R w' res' hnb hnu (by simp [res', hres]) (by simp [w', hw]) (by omega)
          (by
            intro j h1 h2
            show lget (tab res.size _) j = _
            rw [lget_tab _ _ _ (by omega)]
            have : ¬ (i ≤ j ∧ j < i + otBatchSize) := by omega
            simp only [this, if_false]
            exact hcorr j (by omega) h2)
      refine ⟨w'', out, by rw [hS, hs2], by rw [hR, hr2], hwsz, hosz, ?_, ?_⟩
      · intro j hj
        have := hlow j (by omega)
        rw [this.1, this.2]
        constructor
        · show lget (tab res.size _) j = _
          rw [lget_tab _ _ _ (by omega)]
          have : ¬ (i ≤ j ∧ j < i + otBatchSize) := by omega
          simp only [this, if_false]
        · show wget (tab w.size _) j = _
          rw [wget_tab _ _ _ (by omega)]
          have : ¬ (i ≤ j ∧ j < i + cnt) := by omega
          simp only [this, if_false]
      · intro j h1 h2
        by_cases hj : j < i + otBatchSize
        · have hl := hlow j hj
          rw [hl.1, hl.2]
          have hjc : j < i + cnt := by omega
          have e1 : lget res' j = lget pad2R (j - i) := by
            show lget (tab res.size _) j = _
            rw [lget_tab _ _ _ (by omega)]
            simp only [h1, hj, and_self, if_true]
          have e2 : wget w' j = (lget pad2S (2 * (j - i)), lget pad2S (2 * (j - i) + 1)) := by
            show wget (tab w.size _) j = _
            rw [wget_tab _ _ _ (by omega)]
            simp only [h1, hjc, and_self, if_true]
          rw [e1, e2, hp2R j h1 hj h2, hcorr j h1 h2]
          cases hf : flags.getD j false with
          | false =>
            have := hp2S j 0 h1 hjc (by omega)
            simp only [Nat.add_zero, if_true, BitVec.xor_zero] at this
            simp only [Bool.false_eq_true, if_false, BitVec.xor_zero]
            rw [this]
          | true =>
            have := hp2S j 1 h1 hjc (by omega)
            simp only [Nat.succ_ne_zero, if_false] at this
            simp only [if_true]
            rw [this]
        · exact hhigh j (by omega) h2
    · refine ⟨w, res, by simp [rotSendLoop, hlt], by simp [rotRecvLoop, hlt], hw, hres, fun _ _ => ⟨rfl, rfl⟩, ?_⟩
      intro j h1 h2; omega

theorem new_inv (seed : Label) :
    (Mitccrh.new seed otBatchSize).batchSize = otBatchSize ∧ (Mitccrh.new seed otBatchSize).keyUsed = otBatchSize :=
  ⟨rfl, rfl⟩

/-- `cot_delivers` (see Props/C06.lean). -/
theorem cot_delivers (π : Label → Label → Label) (delta seed : Label) (data result : Array Label)
    (wires : Array Wire) (flags : Array Bool) (hw : wires.size = flags.size) (hr : result.size = flags.size)
    (hcorr : ∀ j, j < flags.size →
      lget result j = lget data j ^^^ (if flags.getD j false then delta else 0#128)) :
    ∃ cts, cotSend π delta seed data wires = some cts ∧
      ∃ out, cotRecv π seed flags result cts = some out ∧ out.size = flags.size ∧
        ∀ j, j < flags.size → lget out j = if flags.getD j false then (wget wires j).2 else (wget wires j).1 := by
  obtain ⟨cts, h1, out, h2, h3, _, h5⟩ :=
    cot_loops π delta data wires flags flags.size flags.size 0 (Mitccrh.new seed otBatchSize)
      (tab (2 * otBatchSize) fun _ => 0#128) (tab otBatchSize fun _ => 0#128) result []
      (new_inv seed).1 (new_inv seed).2 hr (by omega) (fun j _ hj => hcorr j hj)
  refine ⟨cts, ?_, out, ?_, h3, fun j hj => h5 j (Nat.zero_le _) hj⟩
  · unfold cotSend; rw [hw]; exact h1
  · unfold cotRecv; rw [List.append_nil] at h2; exact h2

/-- `rot_consistent` (see Props/C06.lean). -/
theorem rot_consistent (π : Label → Label → Label) (delta seed : Label) (data result : Array Label)
    (wires : Array Wire) (flags : Array Bool) (hw : wires.size = flags.size) (hr : result.size = flags.size)
    (hcorr : ∀ j, j < flags.size →
      lget result j = lget data j ^^^ (if flags.getD j false then delta else 0#128)) :
    ∃ w out, rotSend π delta seed data wires = some w ∧ rotRecv π seed flags result = some out ∧
      w.size = flags.size ∧ out.size = flags.size ∧
      ∀ j, j < flags.size → lget out j = if flags.getD j false then (wget w j).2 else (wget w j).1 := by
  obtain ⟨w, out, h1, h2, h3, h4, _, h6⟩ :=
    rot_loops π delta data flags flags.size flags.size 0 (Mitccrh.new seed otBatchSize)
      (tab (2 * otBatchSize) fun _ => 0#128) (tab otBatchSize fun _ => 0#128) wires result
      (new_inv seed).1 (new_inv seed).2 hr hw (by omega) (fun j _ hj => hcorr j hj)
  refine ⟨w, out, ?_, ?_, h3, h4, fun j hj => h6 j (Nat.zero_le _) hj⟩
  · unfold rotSend; rw [hw]; exact h1
  · unfold rotRecv; exact h2

theorem lget_toArray (l : List Label) (i : Nat) : lget l.toArray i = l.getD i 0#128 := by
  simp [lget, List.getD_eq_getElem?_getD]

end Mpc.Cot

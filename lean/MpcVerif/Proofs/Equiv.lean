/-
Soundness of the C09 translation-validation checker (`Model/Equiv.lean`).
-/
import MpcVerif.Model.Equiv

set_option linter.unusedSimpArgs false

namespace Mpc

/-! ### Array helpers -/

theorem getD_set_eq {α : Type} (a : Array α) (i : Nat) (v d : α) (h : i < a.size) :
    (a.setIfInBounds i v).getD i d = v := by
  simp [Array.getD, h]

theorem getD_set_ne {α : Type} (a : Array α) (i j : Nat) (v d : α) (h : i ≠ j) :
    (a.setIfInBounds i v).getD j d = a.getD j d := by
  simp only [Array.getD_eq_getD_getElem?]
  rw [Array.getElem?_setIfInBounds_ne h]

theorem getD_true_lt (d : Array Bool) (w : Nat) (h : d.getD w false = true) : w < d.size := by
  by_cases hw : w < d.size
  · exact hw
  · simp [Array.getD, hw] at h

theorem get_initStore (n : Nat) (l : List Bool) (w : Nat) (h : w < n) :
    (initStore n false l).get w = l.getD w false := by
  simp [Store.get, initStore, Array.getD, h]

/-! ### The abstract transfer function is sound -/

theorem AbsVal.denote_neg (s : Store Bool) (A : AbsVal) (n : Bool) :
    (A.neg n).denote s = (A.denote s != n) := by
  cases A with
  | const b => simp [AbsVal.neg, AbsVal.denote]
  | copy w m =>
    simp only [AbsVal.neg, AbsVal.denote]
    cases s.get w <;> cases m <;> cases n <;> rfl

theorem absXor_sound (s : Store Bool) (A B : AbsVal) (n : Bool) (v : AbsVal)
    (h : absXor A B n = some v) : v.denote s = ((A.denote s != B.denote s) != n) := by
  cases A with
  | const a =>
    simp only [absXor, Option.some.injEq] at h
    subst h
    rw [AbsVal.denote_neg]
    have : (AbsVal.const a).denote s = a := rfl
    rw [this]
    generalize B.denote s = vb
    cases a <;> cases vb <;> cases n <;> rfl
  | copy v' p =>
    cases B with
    | const b =>
      simp only [absXor, Option.some.injEq] at h
      subst h
      rw [AbsVal.denote_neg]
      simp only [AbsVal.denote]
      cases s.get v' <;> cases p <;> cases b <;> cases n <;> rfl
    | copy w q =>
      simp only [absXor] at h
      split at h
      · rename_i hvw
        subst hvw
        simp only [Option.some.injEq] at h
        subst h
        simp only [AbsVal.denote]
        cases s.get v' <;> cases p <;> cases q <;> cases n <;> rfl
      · simp at h

theorem absAnd_sound (s : Store Bool) (A B : AbsVal) (v : AbsVal)
    (h : absAnd A B = some v) : v.denote s = (A.denote s && B.denote s) := by
  cases A with
  | const a =>
    simp only [absAnd, Option.some.injEq] at h
    subst h
    cases a <;> simp [AbsVal.denote]
  | copy v' p =>
    cases B with
    | const b =>
      simp only [absAnd, Option.some.injEq] at h
      subst h
      cases b <;> simp [AbsVal.denote]
    | copy w q =>
      simp only [absAnd] at h
      split at h
      · rename_i hvw
        subst hvw
        simp only [Option.some.injEq] at h
        subst h
        cases p <;> cases q <;> simp only [AbsVal.denote, if_true, if_false, reduceIte] <;>
          generalize s.get v' = x <;> cases x <;> rfl
      · simp at h

/-- Soundness of the abstract transfer function: when it decides the output
of a gate, the decided value is the gate's value under every store. -/
theorem absOp_sound (s : Store Bool) (op : Op) (A B v : AbsVal) (h : absOp op A B = some v) :
    v.denote s = op.eval (A.denote s) (B.denote s) := by
  cases op with
  | inv =>
    simp only [absOp, Option.some.injEq] at h
    subst h
    rw [AbsVal.denote_neg]
    simp [Op.eval]
  | xor =>
    have := absXor_sound s A B false v h
    simpa [Op.eval] using this
  | xnor =>
    have := absXor_sound s A B true v h
    rw [this]
    simp only [Op.eval]
    cases A.denote s <;> cases B.denote s <;> rfl
  | and =>
    have := absAnd_sound s A B v h
    simpa [Op.eval] using this
  | or =>
    simp only [absOp, Option.map_eq_some_iff] at h
    obtain ⟨u, hu, hv⟩ := h
    subst hv
    have := absAnd_sound s _ _ u hu
    rw [AbsVal.denote_neg, this, AbsVal.denote_neg, AbsVal.denote_neg]
    simp only [Op.eval]
    cases A.denote s <;> cases B.denote s <;> rfl

theorem Op.eval_comm (op : Op) (hb : op.binary = true) (a b : Bool) : op.eval a b = op.eval b a := by
  cases op <;> simp [Op.binary] at hb <;> cases a <;> cases b <;> rfl

theorem Op.eval_unary (op : Op) (hb : op.binary = false) (a b b' : Bool) :
    op.eval a b = op.eval a b' := by
  cases op <;> simp [Op.binary] at hb
  rfl

/-! ### Single-assignment circuits: the final store satisfies every gate equation -/

/-- Single assignment + topological order relative to the initially defined
wires `d`: `wfFrom`, pairwise distinct gate outputs, no output in `d`. -/
def SSA (n : Nat) (gs : List Gate) (d : Nat → Bool) : Prop :=
  wfFrom n gs d = true ∧ (gs.map (·.out)).Nodup ∧ ∀ g ∈ gs, d g.out = false

theorem evalPlainGates_cons (g : Gate) (gs : List Gate) (s : Store Bool) :
    evalPlainGates (g :: gs) s = evalPlainGates gs (g.evalPlain s) := rfl

theorem evalPlainGates_size (gs : List Gate) : ∀ (s : Store Bool), (evalPlainGates gs s).size = s.size := by
  induction gs with
  | nil => intro s; rfl
  | cons g gs ih => intro s; rw [evalPlainGates_cons, ih]; simp [Gate.evalPlain]

/-- Wires that no gate writes keep their value. -/
theorem evalPlainGates_frame (gs : List Gate) (w : Nat) :
    ∀ (s : Store Bool), (∀ g ∈ gs, g.out ≠ w) → (evalPlainGates gs s).get w = s.get w := by
  induction gs with
  | nil => intro s _; rfl
  | cons g gs ih =>
    intro s h
    rw [evalPlainGates_cons, ih _ (fun g' hg' => h g' (List.mem_cons_of_mem _ hg'))]
    exact Store.get_set_ne _ _ _ _ (h g List.mem_cons_self)

/-- In a single-assignment circuit the final store keeps the initially
defined wires and satisfies the equation of every gate. -/
theorem ssa_sem (n : Nat) : ∀ (gs : List Gate) (d : Nat → Bool) (s : Store Bool), s.size = n →
    SSA n gs d →
    (∀ w, d w = true → (evalPlainGates gs s).get w = s.get w) ∧
    (∀ g ∈ gs, (evalPlainGates gs s).get g.out =
      g.op.eval ((evalPlainGates gs s).get g.in0) ((evalPlainGates gs s).get g.in1)) := by
  intro gs
  induction gs with
  | nil => intro d s _ _; exact ⟨fun _ _ => rfl, fun g hg => by simp at hg⟩
  | cons g gs ih =>
    intro d s hs ⟨hwf, hnd, hout⟩
    simp only [wfFrom, Bool.and_eq_true, Bool.or_eq_true, Bool.not_eq_true', decide_eq_true_eq] at hwf
    obtain ⟨⟨⟨⟨⟨hd0, hd1⟩, hlt0⟩, hlt1⟩, hlto⟩, hwf'⟩ := hwf
    simp only [List.map_cons, List.nodup_cons, List.mem_map, not_exists, not_and] at hnd
    obtain ⟨hnotin, hnd'⟩ := hnd
    have hgo : d g.out = false := hout g List.mem_cons_self
    have hssa' : SSA n gs (fun w => w == g.out || d w) := by
      refine ⟨hwf', hnd', fun g' hg' => ?_⟩
      have h1 : g'.out ≠ g.out := fun h => hnotin g' hg' h
      simp [h1, hout g' (List.mem_cons_of_mem _ hg')]
    have hs1 : (g.evalPlain s).size = n := by simp [Gate.evalPlain, hs]
    obtain ⟨ihd, ihg⟩ := ih (fun w => w == g.out || d w) (g.evalPlain s) hs1 hssa'
    rw [evalPlainGates_cons]
    have hne : ∀ w, d w = true → g.out ≠ w := by
      intro w hw h
      rw [h] at hgo
      rw [hgo] at hw
      exact Bool.false_ne_true hw
    constructor
    · intro w hw
      rw [ihd w (by simp [hw])]
      exact Store.get_set_ne _ _ _ _ (hne w hw)
    · intro g' hg'
      rcases List.mem_cons.mp hg' with rfl | hg'
      · rw [ihd g'.out (by simp), ihd g'.in0 (by simp [hd0])]
        have h0 : (g'.evalPlain s).get g'.in0 = s.get g'.in0 :=
          Store.get_set_ne _ _ _ _ (hne _ hd0)
        have ho : (g'.evalPlain s).get g'.out = g'.op.eval (s.get g'.in0) (s.get g'.in1) :=
          Store.get_set_eq _ _ _ (by omega)
        rw [ho, h0]
        cases hb : g'.op.binary
        · exact Op.eval_unary _ hb _ _ _
        · have hd1' : d g'.in1 = true := by
            rcases hd1 with h | h
            · rw [hb] at h; exact absurd h (by decide)
            · exact h
          rw [ihd g'.in1 (by simp [hd1'])]
          have h1 : (g'.evalPlain s).get g'.in1 = s.get g'.in1 :=
            Store.get_set_ne _ _ _ _ (hne _ hd1')
          rw [h1]
      · exact ihg g' hg'

/-! ### The pass: structural part (single assignment) -/

/-- Defined-wire predicate of a flag array. -/
def dfn (d : Array Bool) : Nat → Bool := fun w => d.getD w false

theorem dfn_set (d : Array Bool) (o : Nat) (h : o < d.size) :
    dfn (d.setIfInBounds o true) = fun w => w == o || dfn d w := by
  funext w
  simp only [dfn]
  by_cases hw : o = w
  · subst hw; simp [getD_set_eq _ _ _ _ h]
  · rw [getD_set_ne _ _ _ _ _ hw]
    have : (w == o) = false := by simp; exact fun h => hw h.symm
    simp [this]

theorem gateOk_spec (g : Gate) (abs : Array AbsVal) (d : Array Bool) (h : gateOk g abs d = true) :
    dfn d g.in0 = true ∧ (g.op.binary = true → dfn d g.in1 = true) ∧ g.out < abs.size ∧
    g.out < d.size ∧ dfn d g.out = false := by
  simp only [gateOk, Bool.and_eq_true, Bool.or_eq_true, Bool.not_eq_true', decide_eq_true_eq] at h
  obtain ⟨⟨⟨⟨h0, h1⟩, ha⟩, hd⟩, ho⟩ := h
  refine ⟨h0, fun hb => ?_, ha, hd, ho⟩
  rcases h1 with h1 | h1
  · rw [hb] at h1; exact absurd h1 (by decide)
  · exact h1

theorem passGates_cons (self : Bool) (R : Array Gate) (aR : Array AbsVal) (dR : Array Bool)
    (wit : Array Nat) (g : Gate) (gs : List Gate) (j : Nat) (abs : Array AbsVal) (d : Array Bool)
    (abs' : Array AbsVal) (d' : Array Bool)
    (h : passGates self R aR dR wit (g :: gs) j abs d = some (abs', d')) :
    gateOk g abs d = true ∧ ∃ v, resolveGate self R aR dR wit g j abs d = some v ∧
      passGates self R aR dR wit gs (j + 1) (abs.setIfInBounds g.out v)
        (d.setIfInBounds g.out true) = some (abs', d') := by
  simp only [passGates] at h
  split at h
  · rename_i hok
    refine ⟨hok, ?_⟩
    split at h
    · simp at h
    · rename_i v hv
      exact ⟨v, hv, h⟩
  · simp at h

/-- A successful pass certifies single assignment and topological order, and
only adds defined wires. -/
theorem passGates_ssa (self : Bool) (R : Array Gate) (aR : Array AbsVal) (dR : Array Bool)
    (wit : Array Nat) : ∀ (gs : List Gate) (j : Nat) (abs : Array AbsVal) (d : Array Bool)
    (abs' : Array AbsVal) (d' : Array Bool),
    passGates self R aR dR wit gs j abs d = some (abs', d') →
    SSA d.size gs (dfn d) ∧ d'.size = d.size ∧ (∀ w, dfn d w = true → dfn d' w = true) ∧
    (∀ g ∈ gs, dfn d' g.in0 = true ∧ (g.op.binary = true → dfn d' g.in1 = true) ∧
      dfn d' g.out = true) := by
  intro gs
  induction gs with
  | nil =>
    intro j abs d abs' d' h
    simp only [passGates, Option.some.injEq, Prod.mk.injEq] at h
    obtain ⟨_, rfl⟩ := h
    exact ⟨⟨rfl, List.nodup_nil, fun g hg => by simp at hg⟩, rfl, fun _ h => h,
      fun g hg => by simp at hg⟩
  | cons g gs ih =>
    intro j abs d abs' d' h
    obtain ⟨hok, v, _, hrest⟩ := passGates_cons _ _ _ _ _ _ _ _ _ _ _ _ h
    obtain ⟨h0, h1, _, hod, hofresh⟩ := gateOk_spec _ _ _ hok
    obtain ⟨⟨hwf, hnd, hout⟩, hsz, hmono, hall⟩ := ih _ _ _ _ _ hrest
    rw [Array.size_setIfInBounds] at hwf hsz
    rw [dfn_set _ _ hod] at hwf hout hmono
    have hdo' : dfn d' g.out = true := hmono g.out (by simp)
    refine ⟨⟨?_, ?_, ?_⟩, hsz, fun w hw => hmono w (by simp [hw]), ?_⟩
    · simp only [wfFrom, Bool.and_eq_true, Bool.or_eq_true, Bool.not_eq_true', decide_eq_true_eq]
      refine ⟨⟨⟨⟨⟨h0, ?_⟩, getD_true_lt _ _ h0⟩, ?_⟩, hod⟩, hwf⟩
      · cases hb : g.op.binary
        · exact Or.inl rfl
        · exact Or.inr (h1 hb)
      · cases hb : g.op.binary
        · exact Or.inl rfl
        · exact Or.inr (getD_true_lt _ _ (h1 hb))
    · simp only [List.map_cons, List.nodup_cons, List.mem_map, not_exists, not_and]
      refine ⟨fun g' hg' heq => ?_, hnd⟩
      have := hout g' hg'
      simp [heq] at this
    · intro g' hg'
      rcases List.mem_cons.mp hg' with rfl | hg'
      · exact hofresh
      · have := hout g' hg'
        simp only [Bool.or_eq_false_iff] at this
        exact this.2
    · intro g' hg'
      rcases List.mem_cons.mp hg' with rfl | hg'
      · exact ⟨hmono _ (by simp [h0]), fun hb => hmono _ (by simp [h1 hb]), hdo'⟩
      · exact hall g' hg'

/-! ### The pass: semantic invariant -/

/-- Every gate equation holds in store `s`. -/
def Sem (s : Store Bool) (gs : List Gate) : Prop :=
  ∀ g ∈ gs, s.get g.out = g.op.eval (s.get g.in0) (s.get g.in1)

/-- On defined wires the abstract value, read in the reference store `sR`,
is the wire's value in the store `sT` of the circuit being processed. -/
def AInv (sR sT : Store Bool) (abs : Array AbsVal) (d : Array Bool) : Prop :=
  ∀ w, d.getD w false = true → (abs.getD w default).denote sR = sT.get w

theorem lookupRef_sound (R : Array Gate) (aR : Array AbsVal) (dR : Array Bool) (sR : Store Bool)
    (hsem : Sem sR R.toList) (hinv : AInv sR sR aR dR) (op : Op) (k : Nat) (A B v : AbsVal)
    (h : lookupRef R aR dR op k A B = some v) :
    v.denote sR = op.eval (A.denote sR) (B.denote sR) := by
  unfold lookupRef at h
  split at h
  · simp at h
  · rename_i g hg
    split at h
    · rename_i hc
      simp only [Option.some.injEq] at h
      subst h
      simp only [Bool.and_eq_true, Bool.or_eq_true, beq_iff_eq] at hc
      obtain ⟨⟨⟨⟨⟨hb, hop⟩, h0⟩, h1⟩, ho⟩, hab⟩ := hc
      have hmem : g ∈ R.toList := by
        rw [Array.mem_toList_iff]
        exact Array.mem_of_getElem? hg
      rw [hinv _ ho, hsem g hmem, hop]
      rcases hab with ⟨ha, hb'⟩ | ⟨ha, hb'⟩
      · rw [← ha, ← hb', hinv _ h0, hinv _ h1]
      · rw [← ha, ← hb', hinv _ h0, hinv _ h1]
        exact Op.eval_comm _ hb _ _
    · simp at h

theorem resolveGate_sound (self : Bool) (R : Array Gate) (aR : Array AbsVal) (dR : Array Bool)
    (wit : Array Nat) (sR sT : Store Bool) (hsemR : Sem sR R.toList)
    (hmode : if self = true then sT = sR else AInv sR sR aR dR)
    (g : Gate) (j : Nat) (abs : Array AbsVal) (d : Array Bool) (v : AbsVal)
    (hinv : AInv sR sT abs d) (hok : gateOk g abs d = true)
    (hg : sT.get g.out = g.op.eval (sT.get g.in0) (sT.get g.in1))
    (h : resolveGate self R aR dR wit g j abs d = some v) :
    v.denote sR = sT.get g.out := by
  obtain ⟨h0, h1, _, _, _⟩ := gateOk_spec _ _ _ hok
  have hA : (abs.getD g.in0 default).denote sR = sT.get g.in0 := hinv _ h0
  -- value of the gate in terms of the abstract inputs
  have hval : ∀ u : AbsVal,
      u.denote sR = g.op.eval ((abs.getD g.in0 default).denote sR)
        ((if g.op.binary = true then abs.getD g.in1 default else default).denote sR) →
      u.denote sR = sT.get g.out := by
    intro u hu
    rw [hu, hg, hA]
    cases hb : g.op.binary
    · exact Op.eval_unary _ hb _ _ _
    · simp only [if_true]
      rw [hinv _ (h1 hb)]
  simp only [resolveGate] at h
  split at h
  · rename_i u hu
    simp only [Option.some.injEq] at h
    subst h
    exact hval _ (absOp_sound sR _ _ _ _ hu)
  · split at h
    · -- no witness: own representative (self mode only)
      split at h
      · rename_i hself
        simp only [Option.some.injEq] at h
        subst h
        simp only [hself, if_true] at hmode
        subst hmode
        simp [AbsVal.denote]
      · simp at h
    · split at h
      · rename_i hself
        simp only [hself, if_true] at hmode
        subst hmode
        exact hval _ (lookupRef_sound R abs d sT hsemR hinv _ _ _ _ _ h)
      · rename_i hself
        simp only [hself] at hmode
        exact hval _ (lookupRef_sound R aR dR sR hsemR hmode _ _ _ _ _ h)

/-- The invariant is preserved by a successful pass. -/
theorem passGates_inv (self : Bool) (R : Array Gate) (aR : Array AbsVal) (dR : Array Bool)
    (wit : Array Nat) (sR sT : Store Bool) (hsemR : Sem sR R.toList)
    (hmode : if self = true then sT = sR else AInv sR sR aR dR) :
    ∀ (gs : List Gate) (j : Nat) (abs : Array AbsVal) (d : Array Bool)
    (abs' : Array AbsVal) (d' : Array Bool),
    passGates self R aR dR wit gs j abs d = some (abs', d') →
    Sem sT gs → AInv sR sT abs d → AInv sR sT abs' d' := by
  intro gs
  induction gs with
  | nil =>
    intro j abs d abs' d' h _ hinv
    simp only [passGates, Option.some.injEq, Prod.mk.injEq] at h
    obtain ⟨rfl, rfl⟩ := h
    exact hinv
  | cons g gs ih =>
    intro j abs d abs' d' h hsem hinv
    obtain ⟨hok, v, hv, hrest⟩ := passGates_cons _ _ _ _ _ _ _ _ _ _ _ _ h
    obtain ⟨_, _, hoa, hod, _⟩ := gateOk_spec _ _ _ hok
    have hvs := resolveGate_sound self R aR dR wit sR sT hsemR hmode g j abs d v hinv hok
      (hsem g List.mem_cons_self) hv
    refine ih _ _ _ _ _ hrest (fun g' hg' => hsem g' (List.mem_cons_of_mem _ hg')) ?_
    intro w hw
    by_cases hwo : g.out = w
    · subst hwo
      rw [getD_set_eq _ _ _ _ hoa]
      exact hvs
    · rw [getD_set_ne _ _ _ _ _ hwo] at hw ⊢
      exact hinv w hw

/-! ### Initial state and the top-level theorem -/

theorem dfn_initDef (n nIn : Nat) (h : nIn ≤ n) : dfn (initDef n nIn) = fun w => decide (w < nIn) := by
  funext w
  simp only [dfn, initDef]
  by_cases hw : w < n
  · simp [Array.getD, hw]
  · have : ¬ w < nIn := by omega
    simp [Array.getD, hw, this]

theorem initDef_size (n nIn : Nat) : (initDef n nIn).size = n := by simp [initDef]

theorem initAbs_getD (n nIn w : Nat) (hw : w < nIn) (h : nIn ≤ n) :
    (initAbs n nIn).getD w default = .copy w false := by
  have : w < n := by omega
  simp [initAbs, Array.getD, this, hw]

/-- What a successful reference pass gives about a circuit, for one input. -/
theorem Circuit.pass_facts (c : Circuit) (self : Bool) (R : Array Gate) (aR : Array AbsVal)
    (dR : Array Bool) (wit : Array Nat) (abs' : Array AbsVal) (d' : Array Bool)
    (hn : c.nIn ≤ c.numWires)
    (h : passGates self R aR dR wit c.gates 0 (initAbs c.numWires c.nIn)
      (initDef c.numWires c.nIn) = some (abs', d')) (x : List Bool) :
    SSA c.numWires c.gates c.inputDefined ∧ Sem (c.plainEval x) c.gates ∧
    (∀ w, w < c.nIn → (c.plainEval x).get w = (x.take c.nIn).getD w false) ∧
    (∀ w, d'.getD w false = false → (c.plainEval x).get w = false) := by
  obtain ⟨hssa, _, hmono, hall⟩ := passGates_ssa _ _ _ _ _ _ _ _ _ _ _ h
  rw [initDef_size, dfn_initDef _ _ hn] at hssa
  rw [dfn_initDef _ _ hn] at hmono
  have hsz : (initStore c.numWires false (x.take c.nIn)).size = c.numWires := by simp [initStore]
  obtain ⟨hkeep, hsem⟩ := ssa_sem c.numWires c.gates _ _ hsz hssa
  refine ⟨hssa, hsem, fun w hw => ?_, fun w hw => ?_⟩
  · have := hkeep w (by simp [hw])
    simp only [Circuit.plainEval]
    rw [this, get_initStore _ _ _ (by omega)]
  · -- a wire that is not defined at the end is not an input and no gate writes it
    have hnin : ¬ w < c.nIn := by
      intro hlt
      have := hmono w (by simp [hlt])
      simp only [dfn] at this
      rw [hw] at this
      exact Bool.false_ne_true this
    have hno : ∀ g ∈ c.gates, g.out ≠ w := by
      intro g hg heq
      have := (hall g hg).2.2
      simp only [dfn, heq] at this
      rw [hw] at this
      exact Bool.false_ne_true this
    simp only [Circuit.plainEval]
    rw [evalPlainGates_frame _ _ _ hno]
    by_cases hwn : w < c.numWires
    · rw [get_initStore _ _ _ hwn]
      simp only [List.getD_eq_getElem?_getD]
      rw [List.getElem?_eq_none (by simp; omega)]
      rfl
    · simp [Store.get, initStore, Array.getD, hwn]

theorem outAbs_sound (sR sT : Store Bool) (abs : Array AbsVal) (d : Array Bool)
    (hinv : AInv sR sT abs d) (hundef : ∀ w, d.getD w false = false → sT.get w = false) (w : Nat) :
    (outAbs abs d w).denote sR = sT.get w := by
  unfold outAbs
  cases hd : d.getD w false
  · simp only [Bool.false_eq_true, if_false, AbsVal.denote]
    exact (hundef w hd).symm
  · simp only [if_true]
    exact hinv w hd

/-- **Soundness of the checker.**  If `checkRefines C C' witC witC'` answers
`true` then the two circuits compute the same outputs on every input. -/
theorem checkRefines_sound (C C' : Circuit) (witC witC' : Array Nat)
    (h : checkRefines C C' witC witC' = true) (x : List Bool) : C'.compute x = C.compute x := by
  unfold checkRefines at h
  simp only [Bool.and_eq_true, beq_iff_eq, decide_eq_true_eq] at h
  obtain ⟨⟨⟨⟨⟨⟨hnin, hnout⟩, hn⟩, hn'⟩, _⟩, _⟩, h⟩ := h
  split at h
  · simp at h
  · rename_i absC dC hrun
    split at h
    · simp at h
    · rename_i m d' hrun'
      simp only [Circuit.absRun] at hrun
      have hsR := passGates_ssa _ _ _ _ _ _ _ _ _ _ _ hrun
      obtain ⟨_, hsemR, hinR, hundR⟩ := C.pass_facts true _ _ _ _ _ _ hn hrun x
      obtain ⟨_, hsemT, hinT, hundT⟩ := C'.pass_facts false _ _ _ _ _ _ hn' hrun' x
      have hsemR' : Sem (C.plainEval x) C.gates.toArray.toList := by simpa using hsemR
      -- invariant for the reference circuit
      have hinvR : AInv (C.plainEval x) (C.plainEval x) absC dC := by
        refine passGates_inv true _ _ _ _ _ _ hsemR' (by simp) _ _ _ _ _ _ hrun hsemR ?_
        intro w hw
        have hw' : dfn (initDef C.numWires C.nIn) w = true := hw
        rw [dfn_initDef _ _ hn] at hw'
        simp only [decide_eq_true_eq] at hw'
        rw [initAbs_getD _ _ _ hw' hn]
        simp [AbsVal.denote]
      -- invariant for the optimised circuit
      have hinvT : AInv (C.plainEval x) (C'.plainEval x) m d' := by
        refine passGates_inv false _ _ _ _ _ _ hsemR' (by simpa using hinvR) _ _ _ _ _ _ hrun' hsemT ?_
        intro w hw
        have hw' : dfn (initDef C'.numWires C'.nIn) w = true := hw
        rw [dfn_initDef _ _ hn'] at hw'
        simp only [decide_eq_true_eq] at hw'
        rw [initAbs_getD _ _ _ hw' hn']
        simp only [AbsVal.denote]
        rw [hinT w hw', hinR w (by omega), hnin]
        cases (List.take C'.nIn x).getD w false <;> rfl
      -- outputs
      simp only [List.all_eq_true, List.mem_range, beq_iff_eq] at h
      simp only [Circuit.compute, Circuit.outputs]
      rw [← hnout]
      apply List.map_congr_left
      intro i hi
      have heq := h i (List.mem_range.mp hi)
      rw [← hnout] at heq
      rw [← outAbs_sound _ _ _ _ hinvT hundT, heq, outAbs_sound _ _ _ _ hinvR hundR]

/-- A successful check also certifies that both circuits are well-formed
(`Circuit.WF`, the guard of the C01 theorems). -/
theorem checkRefines_wf (C C' : Circuit) (witC witC' : Array Nat)
    (h : checkRefines C C' witC witC' = true) : C.WF = true ∧ C'.WF = true := by
  unfold checkRefines at h
  simp only [Bool.and_eq_true, beq_iff_eq, decide_eq_true_eq] at h
  obtain ⟨⟨⟨⟨⟨⟨_, _⟩, hn⟩, hn'⟩, ho⟩, ho'⟩, h⟩ := h
  split at h
  · simp at h
  · rename_i absC dC hrun
    split at h
    · simp at h
    · rename_i m d' hrun'
      simp only [Circuit.absRun] at hrun
      obtain ⟨⟨hwf, _, hout⟩, _, _⟩ := C.pass_facts true _ _ _ _ _ _ hn hrun []
      obtain ⟨⟨hwf', _, hout'⟩, _, _⟩ := C'.pass_facts false _ _ _ _ _ _ hn' hrun' []
      constructor
      · simp only [Circuit.WF, Bool.and_eq_true, decide_eq_true_eq, List.all_eq_true]
        refine ⟨⟨⟨hn, ho⟩, hwf⟩, fun g hg => ?_⟩
        have := hout g hg
        simp only [Circuit.inputDefined, decide_eq_false_iff_not] at this
        omega
      · simp only [Circuit.WF, Bool.and_eq_true, decide_eq_true_eq, List.all_eq_true]
        refine ⟨⟨⟨hn', ho'⟩, hwf'⟩, fun g hg => ?_⟩
        have := hout' g hg
        simp only [Circuit.inputDefined, decide_eq_false_iff_not] at this
        omega

end Mpc

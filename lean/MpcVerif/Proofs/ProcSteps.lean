/-
C08 — lemmas about histories over all step kinds and the wire-allocator model
(Model/ProcSteps.lean).
-/
import MpcVerif.Model.ProcSteps

namespace Mpc.PSt

/-- Frame lemma: if every ALLOWED step leaves the component `reads` of the
process state unchanged, a history of allowed steps leaves it unchanged. -/
theorem runHistoryK_frame {σ π ρ : Type} (step : KStep σ π) (reads : σ → ρ) (allowed : Req π → Prop)
    (hkeep : ∀ r s, allowed r → reads (step r s).2 = reads s) :
    ∀ (h : List (Req π)) (s : σ), (∀ r ∈ h, allowed r) → reads (runHistoryK step s h) = reads s
  | [], _, _ => rfl
  | r :: rest, s, ha => by
    simp only [runHistoryK, List.foldl_cons]
    have h1 := runHistoryK_frame step reads allowed hkeep rest (step r s).2
      (fun x hx => ha x (List.mem_cons_of_mem _ hx))
    simp only [runHistoryK] at h1
    rw [h1]
    exact hkeep r s (ha r List.mem_cons_self)

theorem runHistoryK_append {σ π : Type} (step : KStep σ π) (s : σ) (h₁ h₂ : List (Req π)) :
    runHistoryK step s (h₁ ++ h₂) = runHistoryK step (runHistoryK step s h₁) h₂ := by
  simp [runHistoryK, List.foldl_append]

/-- The code as it is hands the process state on untouched, whatever the kinds. -/
theorem runHistoryK_stepNowK {σ π : Type} (h : List (Req π)) (st : σ) :
    runHistoryK (stepNowK (σ := σ) (π := π)) st h = st :=
  runHistoryK_frame stepNowK id (fun _ => True) (fun _ _ _ => rfl) h st (fun _ _ => trivial)

/-! ### The allocator with empty free lists -/

theorem newWires_empty (b : Nat) : newWires b WAlloc.empty = (List.replicate b none, WAlloc.empty) := rfl

theorem newProgram_empty : ∀ args : List Nat,
    newProgram args WAlloc.empty = (args.map fun b => List.replicate b none, WAlloc.empty)
  | [] => rfl
  | b :: t => by
    simp only [newProgram, newWires_empty, newProgram_empty t, List.map_cons]

theorem flatten_replicates : ∀ args : List Nat,
    (args.map fun b => List.replicate b (none : Option Nat)).flatten = List.replicate args.sum none
  | [] => rfl
  | b :: t => by
    simp only [List.map_cons, List.flatten_cons, flatten_replicates t, List.sum_cons,
      List.replicate_append_replicate]

theorem assignInputs_unassigned : ∀ (n k : Nat),
    assignInputs (List.replicate n none) k = (List.range' k n, k + n)
  | 0, k => rfl
  | n + 1, k => by
    simp only [List.replicate_succ, assignInputs, assignInputs_unassigned n (k + 1), List.range'_succ]
    congr 1
    omega

/-- A compilation on an allocator with empty free lists: the input wires take
the ids `0 … Σ bits − 1` and the free lists stay empty. -/
theorem compileAlloc_empty (args : List Nat) :
    compileAlloc args WAlloc.empty = ((List.range' 0 args.sum, args.sum), WAlloc.empty) := by
  simp only [compileAlloc, newProgram_empty, flatten_replicates, assignInputs_unassigned, Nat.zero_add]

/-- Every kind except a streaming session leaves empty free lists empty. -/
theorem stepOn_empty_state {π : Type} (r : Req π) (hk : r.kind ≠ .stream) :
    (stepOn r WAlloc.empty).2 = WAlloc.empty := by
  unfold stepOn
  cases hkind : r.kind <;> simp_all [compileOut, compileAlloc_empty]

/-- A pool that keeps the free lists, without streaming sessions: stays empty. -/
theorem runHistoryK_pool_no_stream {π : Type} : ∀ (h : List (Req π)), (∀ r ∈ h, r.kind ≠ .stream) →
    runHistoryK (stepPool (π := π) true) WAlloc.empty h = WAlloc.empty
  | [], _ => rfl
  | r :: rest, hns => by
    simp only [runHistoryK, List.foldl_cons]
    have h0 : (stepPool (π := π) true r WAlloc.empty).2 = WAlloc.empty := by
      simp [stepPool, stepOn_empty_state r (hns r List.mem_cons_self)]
    rw [h0]
    exact runHistoryK_pool_no_stream rest (fun x hx => hns x (List.mem_cons_of_mem _ hx))

/-- A pool whose `Release` empties the free lists: empty after every history. -/
theorem runHistoryK_pool_cleared {π : Type} : ∀ (h : List (Req π)),
    runHistoryK (stepPool (π := π) false) WAlloc.empty h = WAlloc.empty
  | [] => rfl
  | r :: rest => by
    simp only [runHistoryK, List.foldl_cons]
    have h0 : (stepPool (π := π) false r WAlloc.empty).2 = WAlloc.empty := by simp [stepPool]
    rw [h0]
    exact runHistoryK_pool_cleared rest

end Mpc.PSt

import Driver.Util
import MpcVerif.Model.Vole
import MpcVerif.Model.VoleWire
import MpcVerif.Model.Fx

namespace Drv.C20
open Mpc Drv

def natOfHex (s : String) : Option Nat :=
  if s.isEmpty then none else
  s.toList.foldlM (fun acc c => (Aes.hexVal c).map fun d => acc * 16 + d) 0

def hexDigits : Array Char := "0123456789abcdef".toList.toArray

/-- Fixed-width lower-case hex (most significant digit first). -/
def hexFixed (digits : Nat) (n : Nat) : String :=
  String.ofList ((List.range digits).map fun i => hexDigits[(n >>> (4 * (digits - 1 - i))) % 16]!)

def hexNat (n : Nat) : String :=
  let rec digits (fuel n : Nat) (acc : List Char) : List Char :=
    match fuel with
    | 0 => acc
    | fuel + 1 => if n < 16 then hexDigits[n]! :: acc else digits fuel (n / 16) (hexDigits[n % 16]! :: acc)
  String.ofList (digits 4096 n [])

def hexBytes (l : List UInt8) : String :=
  String.ofList (l.flatMap fun b => [hexDigits[b.toNat / 16]!, hexDigits[b.toNat % 16]!])

def parseNats (s : String) : Option (List Nat) :=
  if s == "-" then some [] else (s.splitOn ",").mapM natOfHex

/-- Concatenated 32-hex-digit labels (one pass: row streams of 30000 and more
labels are parsed). -/
def parseLabels (s : String) : Option (List (BitVec 128)) :=
  if s == "-" then some [] else
  let cs := s.toList
  if cs.length % 32 != 0 then none else
  let rec go (cs : List Char) (acc k : Nat) (out : Array (BitVec 128)) : Option (Array (BitVec 128)) :=
    match cs with
    | [] => some out
    | c :: cs =>
      match Aes.hexVal c with
      | none => none
      | some d =>
        if k + 1 = 32 then go cs 0 0 (out.push (BitVec.ofNat 128 (acc * 16 + d)))
        else go cs (acc * 16 + d) (k + 1) out
  (go cs 0 0 #[]).map Array.toList

def natsStr (l : List Nat) : String :=
  if l.isEmpty then "-" else ",".intercalate (l.map hexNat)

def errStr : Vole.VoleErr → String
  | .labelCount g w => s!"err-label-count {g} {w}"
  | .msgLen g w => s!"err-msg-len {g} {w}"
  | .bytes32Panic => "panic"
  | .lengthMismatch => "err-length-mismatch"

/-- `<p> <xs> <ys>` triples. -/
def parseCalls : List String → Option (List Vole.Call)
  | [] => some []
  | p :: xs :: ys :: rest => do
    let p ← natOfHex p
    let xs ← parseNats xs
    let ys ← parseNats ys
    let cs ← parseCalls rest
    some (⟨xs, ys, p⟩ :: cs)
  | _ => none

def sessionStr (s : Vole.Session) : String :=
  s!"r={natsStr s.rs};u={natsStr s.us};ymsg={hexBytes s.ymsg};umsg={hexBytes s.umsg}"

/-- One call of a history with its WIRE bytes: the framed messages computed
through the block-wise writer of `Model/VoleWire.lean` with write buffers of
`cap` bytes.  `view`: "all", or one half of the line ("ru" / "msg") for
vectors whose full line would exceed the line cap of the harness. -/
def sessionWireStr (cap : Nat) (view : String) (c : Vole.Call) (s : Vole.Session) : String :=
  let ru := s!"r={natsStr s.rs};u={natsStr s.us}"
  let msg := s!"yfr={hexBytes (Vole.wireOf cap c.ys.length s.ymsg)};ufr={hexBytes (Vole.wireOf cap c.xs.length s.umsg)}"
  if view == "ru" then ru else if view == "msg" then msg else s!"{ru};{msg}"

/-- `<cap>` or `<cap>/<view>`. -/
def parseCapView (s : String) : Option (Nat × String) :=
  match s.splitOn "/" with
  | [c] => c.toNat?.map (·, "all")
  | [c, v] => c.toNat?.map (·, v)
  | _ => none

/-- `fx,<rl>,<a>,<b>` or `fxk,<r>,<s>,<b>`. -/
def parseGCall (s : String) : Option Fx.GCall :=
  match s.splitOn "," with
  | ["fx", rl, a, b] => do some (.fx (BitVec.ofNat 32 (← natOfHex rl)) (← a.toNat?) (← b.toNat?))
  | ["fxk", r, t, b] => do some (.fxk (BitVec.ofNat 32 (← natOfHex r)) (BitVec.ofNat 32 (← natOfHex t)) (← b.toNat?))
  | _ => none

def gOutStr : Fx.GOut → String
  | .fx r => s!"w={hex128 r.wire.l0}{hex128 r.wire.l1};got={hex128 r.got};r={r.r};xb={r.xb}"
  | .fxk x => s!"w={hex128 x.wire.l0}{hex128 x.wire.l1};got={hex128 x.got};r={hexFixed 8 x.r.toNat};xb={hexFixed 8 x.xb.toNat}"

def handle (args : List String) : String :=
  match args with
  -- vole <p> <labels> <xs> <ys>
  | ["vole", p, labels, xs, ys] =>
    match natOfHex p, parseLabels labels, parseNats xs, parseNats ys with
    | some p, some labels, some xs, some ys =>
      match Vole.session Vole.prgAes labels xs ys p with
      | .error e => errStr e
      | .ok s => s!"r={natsStr s.rs};u={natsStr s.us};ymsg={hexBytes s.ymsg};umsg={hexBytes s.umsg}"
    | _, _, _, _ => "bad-op"
  -- voles <row stream> (<p> <xs> <ys>)*: a history of Mul calls on one pair
  | "voles" :: stream :: rest =>
    match parseLabels stream, parseCalls rest with
    | some stream, some calls =>
      let arr := stream.toArray
      let need := (calls.map fun c => Vole.roundUp8 c.xs.length).sum
      if arr.size < need then s!"stream-short {arr.size} {need}" else
      match Vole.runCalls Vole.prgAes (fun i => arr.getD i 0#128) ⟨0⟩ calls with
      | .error e => errStr e
      | .ok (st, ss) => "|".intercalate (s!"pos={st.pos}" :: ss.map sessionStr)
    | _, _ => "bad-op"
  -- volesw <cap>[/<view>] <row stream> (<p> <xs> <ys>)*: a history of Mul calls on one pair with the wire bytes
  -- of every call as they leave through write buffers of <cap> bytes
  | "volesw" :: capv :: stream :: rest =>
    match parseCapView capv, parseLabels stream, parseCalls rest with
    | some (cap, view), some stream, some calls =>
      let arr := stream.toArray
      let need := (calls.map fun c => Vole.roundUp8 c.xs.length).sum
      if cap < 4 then "bad-cap" else
      if arr.size < need then s!"stream-short {arr.size} {need}" else
      match Vole.runCalls Vole.prgAes (fun i => arr.getD i 0#128) ⟨0⟩ calls with
      | .error e => errStr e
      | .ok (st, ss) => "|".intercalate (s!"pos={st.pos}" :: (calls.zip ss).map fun (c, s) => sessionWireStr cap view c s)
    | _, _, _ => "bad-op"
  -- fxs <gadget call>*: a history of gadget calls over one OT instance
  | "fxs" :: rest =>
    match rest.mapM parseGCall with
    | some cs => "|".intercalate ((Fx.runGadgets Fx.idealOt cs).map gOutStr)
    | none => "bad-op"
  -- fx <rl:8 hex> <a> <b>
  | ["fx", rl, a, b] =>
    match natOfHex rl, a.toNat?, b.toNat? with
    | some rl, some a, some b =>
      let r := Fx.fx Fx.idealOt (BitVec.ofNat 32 rl) a b
      s!"w={hex128 r.wire.l0}{hex128 r.wire.l1};got={hex128 r.got};r={r.r};xb={r.xb}"
    | _, _, _ => "bad-op"
  -- fxk <r:8 hex> <s:8 hex> <b>
  | ["fxk", r, s, b] =>
    match natOfHex r, natOfHex s, b.toNat? with
    | some r, some s, some b =>
      let x := Fx.fxk Fx.idealOt (BitVec.ofNat 32 r) (BitVec.ofNat 32 s) b
      s!"w={hex128 x.wire.l0}{hex128 x.wire.l1};got={hex128 x.got};r={hexFixed 8 x.r.toNat};xb={hexFixed 8 x.xb.toNat}"
    | _, _, _ => "bad-op"
  -- toot <l:8 hex>
  | ["toot", l] =>
    match natOfHex l with
    | some l => hex128 (Fx.toOT (BitVec.ofNat 32 l))
    | none => "bad-op"
  -- fromot <x:32 hex>
  | ["fromot", x] =>
    match natOfHex x with
    | some x => hexFixed 8 (Fx.fromOT (BitVec.ofNat 128 x)).toNat
    | none => "bad-op"
  | _ => "bad-op"

end Drv.C20

def main : IO Unit := Drv.mainLoop Drv.C20.handle

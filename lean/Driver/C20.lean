import Driver.Util

namespace Drv.C20

/-- Line-protocol handler of property C20 (stub). -/
def handle (_args : List String) : String := "bad-op"

end Drv.C20

def main : IO Unit := Drv.mainLoop Drv.C20.handle

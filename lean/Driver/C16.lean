import Driver.Util
import MpcVerif.Model.Proto2
import MpcVerif.Model.StreamResult

namespace Drv.C16
open Mpc Drv

def mkH (key : List UInt8) : Hash (BitVec 128) :=
  match Aes.Cipher.new (ByteArray.mk key.toArray) with
  | some c => aesHash c
  | none => hashOf id

def natHex (n : Nat) : String := String.ofList (Nat.toDigits 16 n)
def natsStr (v : List Nat) : String :=
  if v.isEmpty then "-" else ",".intercalate (v.map natHex)
def parseNats (s : String) : Option (List Nat) :=
  if s == "-" then some [] else (s.splitOn ",").mapM String.toNat?

def parseLabels (s : String) : Option (List (BitVec 128)) :=
  (s.splitOn ",").mapM fun h => do
    let b ← Aes.bytesOfHex h
    if b.size != 16 then none else some (label128 b 0)

def parseWires (s : String) : Option (List (WireL (BitVec 128))) :=
  (s.splitOn ",").mapM fun p =>
    match p.splitOn ":" with
    | [a, b] => do
      let x ← Aes.bytesOfHex a
      let y ← Aes.bytesOfHex b
      if x.size != 16 || y.size != 16 then none else some ⟨label128 x 0, label128 y 0⟩
    | _ => none

/-- `c16s <widths> <l0:l1,...> <labels|->`: the STREAMING garbler's result
loop (`Mpc.streamResult`, operation word `OpResult`) on the labels a scripted
evaluator sent: as many as it chose, each one chosen. -/
def handleStream (widths wires labels : String) : String :=
  match parseNats widths, parseWires wires, (if labels == "-" then some [] else parseLabels labels) with
  | some widths, some ws, some ls =>
    match streamResult 0 ws ls with
    | .error _ => "error"
    | .ok bits => s!"g={natsStr (splitNat widths (packLE bits))}"
  | _, _, _ => "bad-op"

/-- `c16 <tape> <nw> <nin> <nout> <gates> <n0> <n1> <widths> <x> <y> <labels>`:
the garbler's result loop on the given returned labels. -/
def handle (args : List String) : String :=
  match args with
  | [tape, nw, nin, nout, gates, n0, n1, widths, x, _y, labels] =>
    match Aes.bytesOfHex tape, parseCircuit nw nin nout gates, n0.toNat?, n1.toNat?, parseNats widths,
        parseLabels labels with
    | some tape, some c, some n0, some n1, some widths, some labels =>
      let p : Circuit2 := { c := c, n0 := n0, n1 := n1, outWidths := widths }
      if tape.size < 32 + 16 * (1 + c.nIn) then "bad-op" else
      let key := (tape.extract 0 32).toList
      let r := setS (label128 tape 32)
      let inl := fun i => label128 tape (32 + 16 * (i + 1))
      let _x := parseBits x
      let G := c.garble (mkH key) r inl
      let ws := (List.range c.nOut).map fun j => G.wires.get (c.numWires - c.nOut + j)
      match decodeLabels ws labels with
      | .error _ => "error"
      | .ok bits => s!"g={natsStr (splitNat p.outWidths (packLE bits))}"
    | _, _, _, _, _, _ => "bad-op"
  | [widths, wires, labels] => handleStream widths wires labels   -- `c16s` lines (the command word is dropped by the loop)
  | "fault" :: _ => "skip"
  | _ => "bad-op"

end Drv.C16

def main : IO Unit := Drv.mainLoop Drv.C16.handle

import Driver.Util

namespace Drv.C16

/-- Line-protocol handler of property C16 (stub). -/
def handle (_args : List String) : String := "bad-op"

end Drv.C16

def main : IO Unit := Drv.mainLoop Drv.C16.handle

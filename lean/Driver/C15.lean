import Driver.Util

namespace Drv.C15

/-- Line-protocol handler of property C15 (stub). -/
def handle (_args : List String) : String := "bad-op"

end Drv.C15

def main : IO Unit := Drv.mainLoop Drv.C15.handle

import Driver.Util
import MpcVerif.Model.Iknp
import MpcVerif.Model.Clmul
import MpcVerif.Model.Kos
import MpcVerif.Model.KosSet
import MpcVerif.Model.KosBuf
import MpcVerif.Model.KosMix

/-!
Line-protocol handler of property C15.

  mul   <a> <b>                    `mul128(a, b)` -> `<lo><hi>` (and the Karatsuba form must agree)
  clmul <a64> <b64>                `clmul64(a, b)` -> `<lo><hi>`
  inner <labels a> <labels b>      `vectorInnPrdtSumNoRed(a, b)` -> `<lo><hi>`
  sess  <stape> <rtape> <n> <choices> <faults>
        one malicious-mode call on a fresh pair (Delta = first label of the
        sender's tape; receiver tape = 256 base-OT labels, then b0, b1, seed2),
        honest transcript + for every fault the sender's outcome:
          A       error return
          =       success, outputs equal the honest outputs
          K<hex>  success with these (different) outputs
        A fault is `atoms` joined by `+`; atom `D<m>.<off>.<mask>` XORs the byte
        mask into byte `off` of SendData message `m`, `L<k>.<off>.<mask>` into
        byte `off` of SendLabel value `k` (0 seed2, 1 x, 2 t0, 3 t1).  The
        outcome is computed from the acceptance condition of
        `C15_kos_accept_iff` (`Kos.residual` on the rows the atoms touch); with
        prefix `!`, or when the seed is altered, ALSO by running the model
        `Kos.sendKos` on the altered messages (and the dense `Kos.residual`):
        all must agree.
  mhist <stape> <rtape> <arenaLabels> <calls>
        a MIXED history on one pair (`Kos.sessionM` step by step), calls joined by `;`:
          M:<n>:<choices>:<buf>   malicious-mode label call (with the check)
          L:<n>:<choices>:<buf>   semi-honest label call
          B:<n>:<choice words>    packed-bit call (`SendBits` / `ReceiveBits`, fresh result slices)
        Receiver tape: 256 base-OT labels, then b0, b1, seed2 per M call.
        -> per call `resp=../s=../r=..` (M), `s=../r=..` (L), `sw=<words>/rw=<words>` (B); `A` = abort.
  mhist0 ...  the same history on the VARIANT model in which the sender's packed-bit call
        advances only the stream of column 0 (not the code of /repo; `C15_kos_mixed_needs_all_columns`).
  chi   <seed2> <n>
        the challenge coefficients of the `n + 256` rows of a call with this
        seed (`newPrg(seed2)` read 16 bytes per row, ONE stream for payload
        blocks and check batch) and whether they are non-zero and pairwise
        distinct (`Kos.distinctNZ`, the hypothesis of `C15_kos_distinct_sound`)
        -> `chi=<labels>/distinct=<bool>`.  The harness prints the coefficients
        it RECOVERED from the real receiver (`x` of `n + 256` probe calls with
        one choice bit set, `C15_kos_probe_recovers_chi`).
  hist  <stape> <rtape> <arenaLabels> <n:choices:buf;...>
        a HISTORY of honest malicious-mode calls on one pair (`Kos.sessionK` step
        by step); every call names its result buffer: `-` = fresh slice, or
        `<pre>@<off>+0` = `arena[off:off+n]` of the receiver's long-lived array
        of `arenaLabels` labels, `<pre>` = `k` (as the earlier calls left it),
        `f<2 hex>` (every byte this value) or `r<32 hex>` (AES-CTR stream of this
        key).  Receiver tape: 256 base-OT labels, then b0, b1, seed2 per call.
        -> per call `resp=<seed2 x t0 t1>/s=<sent>/r=<received>`, `A` = the model
        aborts (and stops).
-/
namespace Drv.C15
open Mpc Drv Mpc.Iknp Mpc.Clmul Mpc.Kos

def hexDigit (n : Nat) : Char := if n < 10 then Char.ofNat (48 + n) else Char.ofNat (87 + n)

def labelsHex (ls : List Label) : String :=
  if ls.isEmpty then "-" else String.join (ls.map hex128)

def toBytes (b : ByteArray) : Bytes := mk b.size fun k => BitVec.ofNat 8 (b[k]!).toNat

/-- Key-stream bytes consumed per column by a call with `n` rows. -/
def colBytes (n : Nat) : Nat := (n / 512) * 64 + ((n % 512) + 7) / 8

/-- AES-CTR key stream (zero IV) of an `ot.Label` key: `newPrg`. -/
def streamBA (key : ByteArray) (ofs : Nat) (total : Nat) : ByteArray :=
  match Aes.Cipher.new (key.extract ofs (ofs + 16)) with
  | none => ByteArray.empty
  | some c => Aes.ctrStream c 0#128 total

structure Pair where
  delta : Label
  r0 : Array Bytes
  r1 : Array Bytes

def Pair.R0 (p : Pair) (i pos : Nat) : Byte := bget (p.r0.getD i #[]) pos
def Pair.R1 (p : Pair) (i pos : Nat) : Byte := bget (p.r1.getD i #[]) pos
def Pair.SS (p : Pair) (i pos : Nat) : Byte := if labelBit p.delta i then p.R1 i pos else p.R0 i pos

def mkPair (stape rtape : ByteArray) (total : Nat) : Option Pair :=
  if stape.size < 16 || rtape.size < 2 * K * 16 then none else
  some { delta := label128 stape 0,
         r0 := mk K fun i => toBytes (streamBA rtape (32 * i) total),
         r1 := mk K fun i => toBytes (streamBA rtape (32 * i + 16) total) }

/-- The first `cnt` labels of the challenge stream of `seed` (`prgLabels`). -/
def chiTable (seed : Label) (cnt : Nat) : Array Label :=
  let s := streamBA (Aes.bytesOfNat128 seed.toNat) 0 (16 * cnt)
  mk cnt fun r => label128 s (16 * r)

/-- Challenge generator from precomputed tables (anything else: zero). -/
def mkX (tbls : List (Label × Array Label)) : Label → Nat → Label := fun seed r =>
  match tbls.find? (fun t => t.1 == seed) with
  | some t => t.2.getD r 0#128
  | none => 0#128

def pHex (p : P) : String := hex128 p.1 ++ hex128 p.2

/-! ### mul / clmul / inner -/

def parseLabel (s : String) : Option Label := do
  let b ← Aes.bytesOfHex s
  if b.size ≠ 16 then none else some (label128 b 0)

def parseLabels (s : String) : Option (Array Label) :=
  if s == "-" then some #[] else do
    let b ← Aes.bytesOfHex s
    if b.size % 16 ≠ 0 then none else some (mk (b.size / 16) fun i => label128 b (16 * i))

def parseW64 (s : String) : Option W64 := do
  let b ← Aes.bytesOfHex s
  if b.size ≠ 8 then none else
  some (BitVec.ofNat 64 (Id.run do
    let mut n := 0
    for t in [0:8] do
      n := (n <<< 8) ||| (b[t]!).toNat
    return n))

def w64Hex (w : W64) : String := Id.run do
  let mut s := ""
  for i in [0:16] do
    s := s.push (hexDigit ((w.toNat >>> (4 * (15 - i))) % 16))
  return s

def handleMul (a b : String) : String :=
  match parseLabel a, parseLabel b with
  | some a, some b =>
    let p := mul128 a b
    if mul128Karatsuba a b == p then pHex p else "SPLIT-karatsuba " ++ pHex p ++ " " ++ pHex (mul128Karatsuba a b)
  | _, _ => "bad-op"

def handleClmul (a b : String) : String :=
  match parseW64 a, parseW64 b with
  | some a, some b => let p := clmul64 a b; w64Hex p.1 ++ w64Hex p.2
  | _, _ => "bad-op"

def handleInner (a b : String) : String :=
  match parseLabels a, parseLabels b with
  | some a, some b => pHex (innerNoRed a b)
  | _, _ => "bad-op"

/-! ### sessions -/

inductive Atom where
  | data (m off mask : Nat)
  | label (k off mask : Nat)

structure Fault where
  full : Bool
  atoms : List Atom

def parseHexNat (s : String) : Option Nat :=
  s.toList.foldlM (fun acc c => do let d ← Aes.hexVal c; pure (16 * acc + d)) 0

def parseAtom (s : String) : Option Atom := do
  let kind ← s.toList.head?
  match ((s.drop 1).toString.splitOn ".") with
  | [a, off, mask] =>
    let a ← a.toNat?
    let off ← off.toNat?
    let mask ← parseHexNat mask
    if kind == 'D' then some (.data a off mask)
    else if kind == 'L' then some (.label a off mask) else none
  | _ => none

def parseFault (s : String) : Option Fault := do
  let full := s.startsWith "!"
  let body := if full then (s.drop 1).toString else s
  if body == "" then some ⟨full, []⟩ else
  let atoms ← (body.splitOn "+").mapM parseAtom
  some ⟨full, atoms⟩

def parseFaults (s : String) : Option (List Fault) :=
  if s == "-" then some [] else (s.splitOn ";").mapM parseFault

/-- XOR mask on a label from byte masks (byte `off` of the big-endian 16-byte form). -/
def labelMask (atoms : List Atom) (k : Nat) : Label :=
  atoms.foldl (fun acc a =>
    match a with
    | .label k' off mask => if k' = k ∧ off < 16 then acc ^^^ BitVec.ofNat 128 ((mask % 256) <<< (8 * (15 - off))) else acc
    | _ => acc) 0#128

/-- Dense error masks of the shape of `msgs` for the data atoms (message
indices offset by `base`). -/
def denseMasks (msgs : List Bytes) (base : Nat) (atoms : List Atom) : List Bytes :=
  (List.range msgs.length).map fun m =>
    let sz := (msgs.getD m #[]).size
    let hits := atoms.filterMap fun a =>
      match a with
      | .data m' off mask => if m' = base + m ∧ off < sz then some (off, mask) else none
      | _ => none
    if hits.isEmpty then mk sz fun _ => 0#8
    else mk sz fun k => hits.foldl (fun acc h => if h.1 = k then acc ^^^ BitVec.ofNat 8 h.2 else acc) 0#8

/-- Sparse rows of the error matrix: `(global row, label)` for every bit the
data atoms flip inside the matrix (rows of the last byte-row beyond the batch
size are not part of it).  `sizes1/sizes2`: chunk sizes of payload / check
batch. -/
def sparseRows (n : Nat) (sizes1 sizes2 : List Nat) (atoms : List Atom) : List (Nat × Label) :=
  let add (acc : List (Nat × Label)) (row : Nat) (l : Label) : List (Nat × Label) :=
    if acc.any (fun e => e.1 = row) then acc.map fun e => if e.1 = row then (e.1, e.2 ^^^ l) else e
    else (row, l) :: acc
  atoms.foldl (fun acc a =>
    match a with
    | .data m off mask =>
      let inPayload := m < sizes1.length
      let sz := if inPayload then sizes1.getD m 0 else sizes2.getD (m - sizes1.length) 0
      let w := sz / K
      if w = 0 ∨ off ≥ sz then acc else
      let start := if inPayload then m * chunkRows else (m - sizes1.length) * chunkRows
      let limit := if inPayload then n else 256
      let base := if inPayload then 0 else n
      let col := off / w
      let byteRow := off % w
      (List.range 8).foldl (fun acc t =>
        if (mask >>> t) % 2 = 1 then
          let row := start + byteRow * 8 + t
          if row < limit then add acc (base + row) (bitLabel col) else acc
        else acc) acc
    | _ => acc) []

structure Sess where
  p : Pair
  n : Nat
  b : Array Bool
  b0 : Label
  b1 : Label
  msgs1 : List Bytes
  msgs2 : List Bytes
  hon : RecvOut
  sent : List Label
  chi : Array Label

def outcomeStr (hon : List Label) (o : Option (List Label)) : String :=
  match o with
  | none => "A"
  | some ls => if ls == hon then "=" else "K" ++ labelsHex ls

/-- Outcome by the acceptance condition (`C15_kos_accept_iff`), sparse form. -/
def fastOutcome (s : Sess) (atoms : List Atom) : Option (List Label) :=
  let rows := sparseRows s.n (s.msgs1.map (·.size)) (s.msgs2.map (·.size)) atoms
  let dx := labelMask atoms 1
  let dt : P := (labelMask atoms 2, labelMask atoms 3)
  let er := rows.foldl (fun acc e => pxor acc (mul128 (s.chi.getD e.1 0#128) (e.2 &&& s.p.delta))) pzero
  let res := pxor (pxor er (mul128 dx s.p.delta)) dt
  if res == pzero then
    some ((List.range s.n).map fun r =>
      match rows.find? (fun e => e.1 = r) with
      | some e => s.sent.getD r 0#128 ^^^ (e.2 &&& s.p.delta)
      | none => s.sent.getD r 0#128)
  else none

/-- Outcome by running the model sender on the altered messages; also the
dense `Kos.residual` when the seed is intact. -/
def fullOutcome (s : Sess) (atoms : List Atom) : Option (List Label) × Option Bool :=
  let E1 := denseMasks s.msgs1 0 atoms
  let E2 := denseMasks s.msgs2 s.msgs1.length atoms
  let seed' := s.hon.seed ^^^ labelMask atoms 0
  let x' := s.hon.x ^^^ labelMask atoms 1
  let t0' := s.hon.t0 ^^^ labelMask atoms 2
  let t1' := s.hon.t1 ^^^ labelMask atoms 3
  let tbls := if seed' == s.hon.seed then [(s.hon.seed, s.chi)]
    else [(s.hon.seed, s.chi), (seed', chiTable seed' (s.n + 256))]
  let X := mkX tbls
  let r := sendKos X s.p.SS s.p.delta SendSt.init s.n (xorMsgs s.msgs1 E1 ++ xorMsgs s.msgs2 E2) [seed', x', t0', t1']
  -- `Kos.residual` with the rows of the error matrix (`Kos.rowsOf`, as in `Kos.errRow`) computed once
  let dense : Option Bool :=
    if seed' == s.hon.seed then
      let rows1 := (rowsOf s.n E1).toArray
      let rows2 := (rowsOf 256 E2).toArray
      let er := psum (s.n + 256) fun r =>
        mul128 (X s.hon.seed r) ((if r < s.n then rows1.getD r 0#128 else rows2.getD (r - s.n) 0#128) &&& s.p.delta)
      some (pxor (pxor er (mul128 (s.hon.x ^^^ x') s.p.delta)) (pxor (s.hon.t0, s.hon.t1) (t0', t1')) == pzero)
    else none
  (r.map (·.labels), dense)

def runFault (s : Sess) (f : Fault) : String :=
  let seedAltered := labelMask f.atoms 0 != 0#128
  if seedAltered then
    outcomeStr s.sent (fullOutcome s f.atoms).1
  else
    let fast := fastOutcome s f.atoms
    if f.full then
      let (full, dense) := fullOutcome s f.atoms
      if full == fast ∧ dense == some fast.isSome then outcomeStr s.sent fast
      else "SPLIT(fast=" ++ outcomeStr s.sent fast ++ ",model=" ++ outcomeStr s.sent full ++ ",dense=" ++ toString dense ++ ")"
    else outcomeStr s.sent fast

/-- `sess <stape> <rtape> <n> <choices> <faults>` -/
def handleSess (stape rtape n choices faults : String) : String :=
  match Aes.bytesOfHex stape, Aes.bytesOfHex rtape, n.toNat?, parseFaults faults with
  | some stape, some rtape, some n, some fs =>
    let b := (parseBits choices).toArray
    if b.size ≠ n ∨ rtape.size < 2 * K * 16 + 48 then "bad-op" else
    match mkPair stape rtape (colBytes n + 32) with
    | none => "error"
    | some p =>
      let pos := 2 * K * 16
      let b0 := label128 rtape pos
      let b1 := label128 rtape (pos + 16)
      let seed2 := label128 rtape (pos + 32)
      let chi := chiTable seed2 (n + 256)
      let X := mkX [(seed2, chi)]
      let hon := receiveKos X p.R0 p.R1 RecvSt.init b b0 b1 seed2
      let r1 := receive p.R0 p.R1 RecvSt.init b
      let msgs1 := r1.2.2
      let msgs2 := hon.msgs.drop msgs1.length
      match sendKos X p.SS p.delta SendSt.init n hon.msgs hon.resp with
      | none => "honest-abort"
      | some out =>
        let s : Sess := { p := p, n := n, b := b, b0 := b0, b1 := b1, msgs1 := msgs1, msgs2 := msgs2, hon := hon,
                          sent := out.labels, chi := chi }
        let head := s!"resp={labelsHex hon.resp}/s={labelsHex out.labels}/r={labelsHex hon.labels}"
        let fr := fs.map (runFault s)
        head ++ "/f=" ++ (if fr.isEmpty then "-" else ";".intercalate fr)
  | _, _, _, _ => "bad-op"

/-! ### histories with named result buffers -/

inductive Pre where
  | keep
  | fill (b : Nat)
  | rand (key : ByteArray)

/-- `-` | `<pre>@<off>+<extra>`: where the result slice of a call comes from. -/
def parseBuf (al : Nat) (s : String) : Option (BufSrc Label) :=
  if s == "-" then some .fresh else
  match s.splitOn "@" with
  | [pre, rest] =>
    match rest.splitOn "+" with
    | [off, extra] => do
      let off ← off.toNat?
      let extra ← extra.toNat?
      let tag ← pre.toList.head?
      let arg := (pre.drop 1).toString
      let pre ← (if tag == 'k' then (if arg == "" then some Pre.keep else none)
        else if tag == 'f' then (do
          let b ← Aes.bytesOfHex arg
          if b.size ≠ 1 then none else some (Pre.fill (b[0]!).toNat))
        else if tag == 'r' then (do
          let b ← Aes.bytesOfHex arg
          if b.size ≠ 16 then none else some (Pre.rand b))
        else none)
      let bytes : Option ByteArray := match pre with
        | .keep => none
        | .fill b => some (ByteArray.mk (Array.replicate (16 * al) (UInt8.ofNat b)))
        | .rand key => some (streamBA key 0 (16 * al))
      some (.arena (bytes.map fun bs => mk al fun i => label128 bs (16 * i)) off extra)
    | _ => none
  | _ => none

structure HCall where
  n : Nat
  b : Array Bool
  buf : BufSrc Label

def parseHCall (al : Nat) (s : String) : Option HCall :=
  match s.splitOn ":" with
  | [n, ch, buf] => do
    let n ← n.toNat?
    let b := (parseBits ch).toArray
    if b.size ≠ n then none else some { n := n, b := b, buf := (← parseBuf al buf) }
  | _ => none

def runHist (p : Pair) (rtape : ByteArray) : RecvSt → SendSt → Array Label → Nat → List HCall → List String
  | _, _, _, _, [] => []
  | rs, ss, ar, rpos, c :: cs =>
    if rtape.size < rpos + 48 then ["bad-tape"] else
    let b0 := label128 rtape rpos
    let b1 := label128 rtape (rpos + 16)
    let seed2 := label128 rtape (rpos + 32)
    let X := mkX [(seed2, chiTable seed2 (c.n + 256))]
    match runKCall Store.assign X p.R0 p.R1 p.SS p.delta rs ss ar ⟨c.b, b0, b1, seed2, c.buf⟩ with
    | none => ["A"]
    | some (rs', ss', ar', r, sent) =>
      s!"resp={labelsHex r.resp}/s={labelsHex sent}/r={labelsHex r.labels}" :: runHist p rtape rs' ss' ar' (rpos + 48) cs

/-- `hist <stape> <rtape> <arenaLabels> <calls>` -/
def handleHist (stape rtape al calls : String) : String :=
  match Aes.bytesOfHex stape, Aes.bytesOfHex rtape, al.toNat? with
  | some stape, some rtape, some al =>
    match (calls.splitOn ";").mapM (parseHCall al) with
    | none => "bad-op"
    | some cs =>
      let total := (cs.map fun c => colBytes c.n + 32).foldl (· + ·) 0
      match mkPair stape rtape total with
      | none => "error"
      | some p => ";".intercalate (runHist p rtape RecvSt.init SendSt.init (zerosL al) (2 * K * 16) cs)
  | _, _, _ => "bad-op"

/-! ### mixed histories: malicious-mode, semi-honest and packed-bit calls on one pair -/

def wordHex (w : BitVec 64) : String := Id.run do
  let mut s := ""
  for i in [0:16] do
    s := s.push (hexDigit ((w.toNat >>> (4 * (15 - i))) % 16))
  return s

def wordsHex (ws : Words) : String :=
  if ws.size = 0 then "-" else String.join (ws.toList.map wordHex)

def parseWords (s : String) : Option Words :=
  if s == "-" then some #[] else do
    let b ← Aes.bytesOfHex s
    if b.size % 8 ≠ 0 then none else
    some (mk (b.size / 8) fun i => Id.run do
      let mut n := 0
      for t in [0:8] do
        n := (n <<< 8) ||| (b[8 * i + t]!).toNat
      return BitVec.ofNat 64 n)

inductive MSpecCall where
  | mal (c : HCall)
  | lab (c : HCall)
  | bits (n : Nat) (ch : Words)

def MSpecCall.cols : MSpecCall → Nat
  | .mal c => colBytes c.n + 32
  | .lab c => colBytes c.n
  | .bits n _ => colBytes n

def parseMCall (al : Nat) (s : String) : Option MSpecCall :=
  match s.splitOn ":" with
  | [k, n, ch, buf] =>
    if k == "M" then (parseHCall al s!"{n}:{ch}:{buf}").map .mal
    else if k == "L" then (parseHCall al s!"{n}:{ch}:{buf}").map .lab
    else none
  | ["B", n, ch] => do
    let n ← n.toNat?
    let ch ← parseWords ch
    some (.bits n ch)
  | _ => none

/-- `col0`: the variant in which the sender's packed-bit call advances only column 0. -/
def runMHist (col0 : Bool) (p : Pair) (rtape : ByteArray) : RecvSt → SendSt → Arena → Nat → List MSpecCall → List String
  | _, _, _, _, [] => []
  | rs, ss, ar, rpos, .mal c :: cs =>
    if rtape.size < rpos + 48 then ["bad-tape"] else
    let b0 := label128 rtape rpos
    let b1 := label128 rtape (rpos + 16)
    let seed2 := label128 rtape (rpos + 32)
    let X := mkX [(seed2, chiTable seed2 (c.n + 256))]
    match runMCall Store.assign .write X p.R0 p.R1 p.SS p.delta rs ss ar (.kos ⟨c.b, b0, b1, seed2, c.buf⟩) with
    | some (rs', ss', ar', .kos r sent) =>
      s!"resp={labelsHex r.resp}/s={labelsHex sent}/r={labelsHex r.labels}" :: runMHist col0 p rtape rs' ss' ar' (rpos + 48) cs
    | _ => ["A"]
  | rs, ss, ar, rpos, .lab c :: cs =>
    match runMCall Store.assign .write (fun _ _ => 0#128) p.R0 p.R1 p.SS p.delta rs ss ar
        (.plain (.labels false c.b 0#128 0#128 c.buf)) with
    | some (rs', ss', ar', .plain o) =>
      s!"s={labelsHex o.out.sentL}/r={labelsHex o.out.rcvdL}" :: runMHist col0 p rtape rs' ss' ar' rpos cs
    | _ => ["A"]
  | rs, ss, ar, rpos, .bits n ch :: cs =>
    match runMCall Store.assign .write (fun _ _ => 0#128) p.R0 p.R1 p.SS p.delta rs ss ar (.plain (.bits n ch .fresh .fresh)) with
    | some (rs', ss', ar', .plain o) =>
      let ss'' : SendSt := if col0 then ⟨fun i => if i = 0 then ss'.p 0 else ss.p i⟩ else ss'
      s!"sw={wordsHex o.out.sentW}/rw={wordsHex o.out.rcvdW}" :: runMHist col0 p rtape rs' ss'' ar' rpos cs
    | _ => ["A"]

/-- `mhist <stape> <rtape> <arenaLabels> <calls>` / `mhist0 ...` -/
def handleMHist (col0 : Bool) (stape rtape al calls : String) : String :=
  match Aes.bytesOfHex stape, Aes.bytesOfHex rtape, al.toNat? with
  | some stape, some rtape, some al =>
    match (calls.splitOn ";").mapM (parseMCall al) with
    | none => "bad-op"
    | some cs =>
      let total := (cs.map MSpecCall.cols).foldl (· + ·) 0
      match mkPair stape rtape total with
      | none => "error"
      | some p =>
        ";".intercalate (runMHist col0 p rtape RecvSt.init SendSt.init ⟨zerosL al, #[], #[]⟩ (2 * K * 16) cs)
  | _, _, _ => "bad-op"

/-- `chi <seed2> <n>` -/
def handleChi (seed n : String) : String :=
  match parseLabel seed, n.toNat? with
  | some seed2, some n =>
    let chi := chiTable seed2 (n + 256)
    let d := distinctNZ (fun r => chi.getD r 0#128) (n + 256)
    s!"chi={labelsHex chi.toList}/distinct={d}"
  | _, _ => "bad-op"

/-- Line-protocol handler of property C15. -/
def handle (args : List String) : String :=
  match args with
  | ["chi", seed, n] => handleChi seed n
  | ["mul", a, b] => handleMul a b
  | ["clmul", a, b] => handleClmul a b
  | ["inner", a, b] => handleInner a b
  | ["sess", stape, rtape, n, choices, faults] => handleSess stape rtape n choices faults
  | ["hist", stape, rtape, al, calls] => handleHist stape rtape al calls
  | ["mhist", stape, rtape, al, calls] => handleMHist false stape rtape al calls
  | ["mhist0", stape, rtape, al, calls] => handleMHist true stape rtape al calls
  | _ => "bad-op"

end Drv.C15

def main : IO Unit := Drv.mainLoop Drv.C15.handle

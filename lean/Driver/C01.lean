import Driver.Util
import MpcVerif.Model.Garble

namespace Drv.C01
open Mpc Drv

/-- `c01 <key> <tape> <nw> <nin> <nout> <gates> <x>` -/
def handle (args : List String) : String :=
  match args with
  | [key, tape, nw, nin, nout, gates, x] =>
    match Aes.bytesOfHex key, Aes.bytesOfHex tape, parseCircuit nw nin nout gates with
    | some key, some tape, some c =>
      match Aes.Cipher.new key with
      | none => "garble-error"
      | some ciph =>
        if tape.size < 16 * (1 + c.nIn) then "garble-error" else
        let H := aesHash ciph
        let r := setS (label128 tape 0)
        let inl := fun i => label128 tape (16 * (i + 1))
        let G := c.garble H r inl
        let x := parseBits x
        let defd := c.defined
        let ws := (List.range c.numWires).filter defd
        let wstr := String.join (ws.map fun w => hex128 (G.wires.get w).l0 ++ hex128 (G.wires.get w).l1)
        let gstr := ",".intercalate (G.rows.map fun row => String.join (row.map hex128))
        let head := s!"r={hex128 G.r};w={wstr};g={gstr}"
        match c.evalGarbled H G.rows (encodeInputs c G x) with
        | .error _ => head ++ ";eval-error"
        | .ok out =>
          let estr := String.join (ws.map fun w => hex128 (out.get w))
          head ++ s!";e={estr};c={bitsStr (c.compute x)}"
    | _, _, _ => "bad-op"
  | _ => "bad-op"

end Drv.C01

def main : IO Unit := Drv.mainLoop Drv.C01.handle

import Driver.Util
import MpcVerif.Model.Garble
import MpcVerif.Model.GarbleHist
import MpcVerif.Proofs.PoolGarble   -- core-only; holds the definitions GMem / GJob / garbleParams (C17)
import MpcVerif.Model.GarbleBig
import MpcVerif.Model.GarbleTape

namespace Drv.C01
open Mpc Drv

/-- `c01 <key> <tape> <nw> <nin> <nout> <gates> <x>` -/
def handle (args : List String) : String :=
  match args with
  | [key, tape, nw, nin, nout, gates, x] =>
    match Aes.bytesOfHex key, Aes.bytesOfHex tape, parseCircuit nw nin nout gates with
    | some key, some tape, some c =>
      match Aes.Cipher.new key with
      | none => "garble-error"
      | some ciph =>
        if tape.size < 16 * (1 + c.nIn) then "garble-error" else
        let H := aesHash ciph
        let r := setS (label128 tape 0)
        let inl := fun i => label128 tape (16 * (i + 1))
        let G := c.garble H r inl
        let x := parseBits x
        let defd := c.defined
        let ws := (List.range c.numWires).filter defd
        let wstr := String.join (ws.map fun w => hex128 (G.wires.get w).l0 ++ hex128 (G.wires.get w).l1)
        let gstr := ",".intercalate (G.rows.map fun row => String.join (row.map hex128))
        let head := s!"r={hex128 G.r};w={wstr};g={gstr}"
        match c.evalGarbled H G.rows (encodeInputs c G x) with
        | .error _ => head ++ ";eval-error"
        | .ok out =>
          let estr := String.join (ws.map fun w => hex128 (out.get w))
          head ++ s!";e={estr};c={bitsStr (c.compute x)}"
    | _, _, _ => "bad-op"
  | _ => "bad-op"

/-! ### Garbling histories on one circuit value (`Model/GarbleHist.lean`)

`c01h <nw> <nin> <nout> <gates> <ev,ev,...>` with
`G:<key>:<tape>` a Garble call (fails when the key is refused or the tape runs
short: before `R`, or inside input label `k`), `E:<h>:<bits>` evaluation of live
garbling number `h` (numbered by successful Garble calls), `R:<h>` Release.
Every call is run as its block of atomic steps of the ownership model
instantiated with the real writes of Garble (`garbleParams c`); what a handle
shows is read from the memory of the scratch it owns.  Results joined by `|`. -/

abbrev HState := Pool.State (Pool.GMem (BitVec 128)) (Pool.GJob (BitVec 128))

def hexOrEmpty (s : String) : Option ByteArray :=
  if s == "-" then some ByteArray.empty else Aes.bytesOfHex s

def dummyJob : Pool.GJob (BitVec 128) :=
  { H := hashOf id, r := 0#128, inl := fun _ => 0#128 }

/-- What live handle `h` shows: `R`, the defined wire pairs, the tables. -/
def viewOf (c : Circuit) (σ : HState) (h : Nat) : Option (Pool.GJob (BitVec 128) × Garbled (BitVec 128)) :=
  match σ.handle h with
  | some H =>
    match H.pool, H.scratch with
    | some _, some x =>
      let m := σ.mem x
      some (H.job, { r := H.job.r, wires := m.wires, rows := (List.range c.gates.length).map m.tables })
    | _, _ => none
  | none => none

def viewStr (c : Circuit) (G : Garbled (BitVec 128)) : String :=
  let ws := (List.range c.numWires).filter c.defined
  let wstr := String.join (ws.map fun w => hex128 (G.wires.get w).l0 ++ hex128 (G.wires.get w).l1)
  let gstr := ",".intercalate (G.rows.map fun row => String.join (row.map hex128))
  s!"r={hex128 G.r};w={wstr};g={gstr}"

def histEvent (c : Circuit) (σ : HState) (ev : String) : HState × String :=
  let P := Pool.garbleParams (L := BitVec 128) c
  match ev.splitOn ":" with
  | ["G", key, tape] =>
    match hexOrEmpty key, hexOrEmpty tape with
    | some key, some tape =>
      let s := Pool.pickFree σ
      -- failure point: before R / key refused / inside input label k
      let (job, failAt) : Pool.GJob (BitVec 128) × Option Nat :=
        if tape.size < 16 then (dummyJob, some 0) else
        let r := setS (label128 tape 0)
        match Aes.Cipher.new key with
        | none => ({ dummyJob with r := r }, some 0)
        | some ciph =>
          let job : Pool.GJob (BitVec 128) :=
            { H := aesHash ciph, r := r, inl := fun i => label128 tape (16 * (i + 1)) }
          let avail := (tape.size - 16) / 16
          if avail < c.nIn then (job, some avail) else (job, none)
      match failAt with
      | some k =>
        match Pool.runEv P σ (.fail job k s) with
        | some σ' => (σ', "garble-error")
        | none => (σ, "model-reject")
      | none =>
        match Pool.runEv P σ (.garble job s) with
        | some σ' =>
          match viewOf c σ' (σ'.nHandles - 1) with
          | some (_, G) => (σ', viewStr c G)
          | none => (σ', "model-reject")
        | none => (σ, "model-reject")
    | _, _ => (σ, "bad-op")
  | ["E", h, x] =>
    match h.toNat? with
    | some h =>
      if !Pool.liveHandle σ h then (σ, "no-handle") else
      match Pool.runEv P σ (.eval h), viewOf c σ h with
      | some σ', some (job, G) =>
        let x := parseBits x
        let head := viewStr c G
        let ws := (List.range c.numWires).filter c.defined
        match c.evalGarbled job.H G.rows (encodeInputs c G x) with
        | .error _ => (σ', head ++ ";eval-error")
        | .ok out =>
          let estr := String.join (ws.map fun w => hex128 (out.get w))
          (σ', head ++ s!";e={estr};c={bitsStr (c.compute x)}")
      | _, _ => (σ, "model-reject")
    | none => (σ, "bad-op")
  | ["R", h] =>
    match h.toNat? with
    | some h =>
      if h ≥ σ.nHandles then (σ, "no-handle") else
      let live := Pool.liveHandle σ h
      match Pool.runEv P σ (.release h) with
      | some σ' => (σ', if live then "released" else "noop")
      | none => (σ, "model-reject")
    | none => (σ, "bad-op")
  | _ => (σ, "bad-op")

def handleHist (nw nin nout gates evs : String) : String :=
  match parseCircuit nw nin nout gates with
  | some c =>
    let σ0 : HState := Pool.init (Pool.garbleParams c)
    let (_, outs) := (evs.splitOn ",").foldl (fun (acc : HState × List String) ev =>
      let (σ', r) := histEvent c acc.1 ev
      (σ', r :: acc.2)) (σ0, [])
    "|".intercalate outs.reverse
  | none => "bad-op"

/-! ### Extreme circuits (`Model/GarbleBig.lean`)

`c01x <full|local> <key/key..> <tape/tape..> <nw> <nin> <nout> <gates> <x,x,...> <samples/samples..>`:
one circuit whose input width / table labels / gates / wires sit on a boundary
(multiples of 256, constants found in the code, 2^16, 2^20), garbled several
times from the slots of its random stream (`Circuit.garbleSlotsTR`,
Model/GarbleTape.lean: slot 0 is `R`, slot `i+1` belongs to input wire `i`;
`C01_every_input_wire_assigned`).  A tape is its bytes in hex or, for wide
inputs, `@<seed>`: the splitmix64 stream of the seed (`prgLabel`).  The result
is canonical but not a dump.  `full`: `R`, the bytes consumed from the stream,
the transmitted rows per gate kind and their total, running digests of all wire
pairs (wire order), of all table rows (gate order, row count of every gate
mixed in) and, per input, of all evaluated labels, plus the Compute bits -
garbled and evaluated with Lean AES on the constant-stack loops (`garbleTR_eq`:
equal to `Circuit.garble` for every circuit).  `local`: the row counts every
garbling of the model has (`C01_rows_per_kind`, no hashing), the Compute bits,
the local step of the sampled gates on the real input pairs
(`C01_garble_local`) and the pairs of the sampled input wires `w<i>`
(`C01_every_input_wire_assigned`). -/

/-- The random stream of one garbling as label slots. -/
structure TapeSrc where
  bytes : Nat
  slot  : Nat → BitVec 128

def smix (z : UInt64) : UInt64 :=
  let z := (z ^^^ (z >>> 30)) * 0xBF58476D1CE4E5B9
  let z := (z ^^^ (z >>> 27)) * 0x94D049BB133111EB
  z ^^^ (z >>> 31)

/-- Word `k` (0-based) of the splitmix64 stream of `seed`. -/
def prgWord (seed : UInt64) (k : Nat) : UInt64 := smix (seed + 0x9E3779B97F4A7C15 * (UInt64.ofNat (k + 1)))

/-- Slot `k` of the stream `@seed`: words `2k` (high) and `2k+1` (low), big endian. -/
def prgLabel (seed : UInt64) (k : Nat) : BitVec 128 :=
  BitVec.ofNat 128 ((prgWord seed (2 * k)).toNat * 2 ^ 64 + (prgWord seed (2 * k + 1)).toNat)

def parseTape (s : String) (nIn : Nat) : Option TapeSrc :=
  if s.startsWith "@" then
    match Aes.bytesOfHex (s.drop 1).toString with
    | some b =>
      if b.size != 8 then none else
      let seed := b.foldl (fun (a : UInt64) x => a * 256 + x.toUInt64) 0
      some { bytes := 16 * (1 + nIn), slot := prgLabel seed }
    | none => none
  else
    (Aes.bytesOfHex s).map fun b => { bytes := b.size, slot := fun k => label128 b (16 * k) }

def kindStr (f : Op → Nat) : String :=
  s!"a{f .and}:o{f .or}:i{f .inv}:x{f .xor}:n{f .xnor}"

/-- Loop of `parseGatesFast` over the bytes of the op line: gates so far, kind
of the gate being read (`none` between gates), its finished fields `f0 f1` and
their number, the number being read, whether it has a digit. -/
def pgLoop (bs : ByteArray) (i : Nat) (acc : Array Gate) (op : Option Op) (f0 f1 nf cur : Nat) (dig : Bool) :
    Option (Array Gate) :=
  if h : i < bs.size then
    let b := bs[i]
    if b == 59 then          -- ';'
      match op with
      | some o => if dig && nf == 2 then pgLoop bs (i + 1) (acc.push ⟨o, f0, f1, cur⟩) none 0 0 0 0 false else none
      | none => none
    else if b == 46 then     -- '.'
      if !dig then none
      else if nf == 0 then pgLoop bs (i + 1) acc op cur f1 1 0 false
      else if nf == 1 then pgLoop bs (i + 1) acc op f0 cur 2 0 false
      else none
    else if 48 ≤ b && b ≤ 57 then
      if op.isSome then pgLoop bs (i + 1) acc op f0 f1 nf (cur * 10 + (b.toNat - 48)) true else none
    else
      match op, parseOp (Char.ofNat b.toNat) with
      | none, some o => pgLoop bs (i + 1) acc (some o) 0 0 0 0 false
      | _, _ => none
  else
    match op with
    | some o => if dig && nf == 2 then some (acc.push ⟨o, f0, f1, cur⟩) else none
    | none => none
termination_by bs.size - i

/-- `parseGates` in one pass over the bytes (op lines of 10^6 gates); same
language: `<op><in0>.<in1>.<out>` joined by `;`, or `-`. -/
def parseGatesFast (s : String) : Option (List Gate) :=
  if s == "-" then some [] else
  let bs := s.toUTF8
  (pgLoop bs 0 (Array.mkEmpty (bs.size / 8)) none 0 0 0 0 false).map Array.toList

def parseCircuitFast (nw nin nout gates : String) : Option Circuit := do
  some { numWires := ← nw.toNat?, nIn := ← nin.toNat?, nOut := ← nout.toNat?, gates := ← parseGatesFast gates }

/-- One sampled gate of a `local` case: `<gate index>:<a.l0 a.l1 b.l0 b.l1>`
(the REAL pairs of the gate's input wires).  Prints the output pair and the
rows the model's `garbleCore` gives with the tweak the model's counter has
when the loop reaches that gate (`Circuit.localStep`, `C01_garble_local`). -/
def localStepStr (H : Hash (BitVec 128)) (r : BitVec 128) (slot : Nat → BitVec 128) (nIn : Nat)
    (ga : Array Gate) (tw : Array Nat) (s : String) : String :=
  match s.splitOn ":" with
  | [w] =>
    -- `w<i>`: the pair of input wire i (slot i+1 of the stream and R)
    match (if w.startsWith "w" then (w.drop 1).toString.toNat? else none) with
    | some i => if i < nIn then s!"w{i}:{hex128 (slot (i + 1))}{hex128 (slot (i + 1) ^^^ r)}" else "bad-sample"
    | none => "bad-sample"
  | [gi, hex] =>
    match gi.toNat?, Aes.bytesOfHex hex with
    | some i, some b =>
      if b.size != 64 || i ≥ ga.size then "bad-sample" else
      let g := ga.getD i default
      let a : WireL (BitVec 128) := ⟨label128 b 0, label128 b 16⟩
      let bb : WireL (BitVec 128) := ⟨label128 b 32, label128 b 48⟩
      let c := garbleCore H r g.op a bb (tw.getD i 0)
      s!"{i}:{hex128 c.1.l0}{hex128 c.1.l1}:{String.join (c.2.map hex128)}"
    | _, _ => "bad-sample"
  | _ => "bad-sample"

def extGarbling (mode : String) (c : Circuit) (ga : Array Gate) (tw : Array Nat) (xs : List (List Bool))
    (cs : String) (key tape samples : String) : String :=
  match Aes.bytesOfHex key, parseTape tape c.nIn with
  | some key, some T =>
    match Aes.Cipher.new key with
    | none => "garble-error"
    | some ciph =>
      if T.bytes < 16 * c.slotsUsed then "garble-error" else
      let H := aesHash ciph
      let used := 16 * c.slotsUsed
      if mode == "local" then
        -- no garbling of the whole circuit: row counts every garbling of the model has, local steps
        let r := setS (T.slot 0)
        let ss := if samples == "-" then [] else (samples.splitOn ",").map (localStepStr H r T.slot c.nIn ga tw)
        s!"r={hex128 r};used={used};rows={kindStr fun k => rowsOfKindSpec k c.gates};total={slabSize c.gates};c={cs};s=" ++
          ",".intercalate ss
      else
      let G := c.garbleSlotsTR H setS T.slot
      let head := s!"r={hex128 G.r};used={used};rows={kindStr fun k => rowsOfKind k c.gates G.rows};" ++
        s!"total={G.slab.length};wd={hex128 (digWires G.wires)};gd={hex128 (digRows G.rows)}"
      let evs := xs.map fun x =>
        match c.evalGarbled H G.rows (encodeInputsFast c G x) with
        | .error _ => "eval-error"
        | .ok out => s!"{hex128 (digLabels out)}:{bitsStr (c.computeFast x)}"
      head ++ ";e=" ++ ",".intercalate evs
  | _, _ => "bad-op"

def handleExt (mode keys tapes nw nin nout gates xs samples : String) : String :=
  match parseCircuitFast nw nin nout gates with
  | some c =>
    let xs := (xs.splitOn ",").map parseBits
    let ga := c.gates.toArray
    let tw := tweakPrefix c.gates
    let cs := if mode == "local" then ",".intercalate (xs.map fun x => bitsStr (c.computeFast x)) else ""
    let ks := keys.splitOn "/"
    let ts := tapes.splitOn "/"
    let ss := samples.splitOn "/"
    if ks.length != ts.length || ks.length != ss.length then "bad-op" else
    "|".intercalate ((ks.zip (ts.zip ss)).map fun (k, t, s) => extGarbling mode c ga tw xs cs k t s)
  | none => "bad-op"

def handleAll (args : List String) : String :=
  match args with
  | [nw, nin, nout, gates, evs] => handleHist nw nin nout gates evs
  | [mode, keys, tapes, nw, nin, nout, gates, xs, samples] => handleExt mode keys tapes nw nin nout gates xs samples
  | _ => handle args

end Drv.C01

def main : IO Unit := Drv.mainLoop Drv.C01.handleAll

import Driver.Util
import MpcVerif.Model.Garble
import MpcVerif.Model.GarbleHist
import MpcVerif.Proofs.PoolGarble   -- core-only; holds the definitions GMem / GJob / garbleParams (C17)

namespace Drv.C01
open Mpc Drv

/-- `c01 <key> <tape> <nw> <nin> <nout> <gates> <x>` -/
def handle (args : List String) : String :=
  match args with
  | [key, tape, nw, nin, nout, gates, x] =>
    match Aes.bytesOfHex key, Aes.bytesOfHex tape, parseCircuit nw nin nout gates with
    | some key, some tape, some c =>
      match Aes.Cipher.new key with
      | none => "garble-error"
      | some ciph =>
        if tape.size < 16 * (1 + c.nIn) then "garble-error" else
        let H := aesHash ciph
        let r := setS (label128 tape 0)
        let inl := fun i => label128 tape (16 * (i + 1))
        let G := c.garble H r inl
        let x := parseBits x
        let defd := c.defined
        let ws := (List.range c.numWires).filter defd
        let wstr := String.join (ws.map fun w => hex128 (G.wires.get w).l0 ++ hex128 (G.wires.get w).l1)
        let gstr := ",".intercalate (G.rows.map fun row => String.join (row.map hex128))
        let head := s!"r={hex128 G.r};w={wstr};g={gstr}"
        match c.evalGarbled H G.rows (encodeInputs c G x) with
        | .error _ => head ++ ";eval-error"
        | .ok out =>
          let estr := String.join (ws.map fun w => hex128 (out.get w))
          head ++ s!";e={estr};c={bitsStr (c.compute x)}"
    | _, _, _ => "bad-op"
  | _ => "bad-op"

/-! ### Garbling histories on one circuit value (`Model/GarbleHist.lean`)

`c01h <nw> <nin> <nout> <gates> <ev,ev,...>` with
`G:<key>:<tape>` a Garble call (fails when the key is refused or the tape runs
short: before `R`, or inside input label `k`), `E:<h>:<bits>` evaluation of live
garbling number `h` (numbered by successful Garble calls), `R:<h>` Release.
Every call is run as its block of atomic steps of the ownership model
instantiated with the real writes of Garble (`garbleParams c`); what a handle
shows is read from the memory of the scratch it owns.  Results joined by `|`. -/

abbrev HState := Pool.State (Pool.GMem (BitVec 128)) (Pool.GJob (BitVec 128))

def hexOrEmpty (s : String) : Option ByteArray :=
  if s == "-" then some ByteArray.empty else Aes.bytesOfHex s

def dummyJob : Pool.GJob (BitVec 128) :=
  { H := hashOf id, r := 0#128, inl := fun _ => 0#128 }

/-- What live handle `h` shows: `R`, the defined wire pairs, the tables. -/
def viewOf (c : Circuit) (σ : HState) (h : Nat) : Option (Pool.GJob (BitVec 128) × Garbled (BitVec 128)) :=
  match σ.handle h with
  | some H =>
    match H.pool, H.scratch with
    | some _, some x =>
      let m := σ.mem x
      some (H.job, { r := H.job.r, wires := m.wires, rows := (List.range c.gates.length).map m.tables })
    | _, _ => none
  | none => none

def viewStr (c : Circuit) (G : Garbled (BitVec 128)) : String :=
  let ws := (List.range c.numWires).filter c.defined
  let wstr := String.join (ws.map fun w => hex128 (G.wires.get w).l0 ++ hex128 (G.wires.get w).l1)
  let gstr := ",".intercalate (G.rows.map fun row => String.join (row.map hex128))
  s!"r={hex128 G.r};w={wstr};g={gstr}"

def histEvent (c : Circuit) (σ : HState) (ev : String) : HState × String :=
  let P := Pool.garbleParams (L := BitVec 128) c
  match ev.splitOn ":" with
  | ["G", key, tape] =>
    match hexOrEmpty key, hexOrEmpty tape with
    | some key, some tape =>
      let s := Pool.pickFree σ
      -- failure point: before R / key refused / inside input label k
      let (job, failAt) : Pool.GJob (BitVec 128) × Option Nat :=
        if tape.size < 16 then (dummyJob, some 0) else
        let r := setS (label128 tape 0)
        match Aes.Cipher.new key with
        | none => ({ dummyJob with r := r }, some 0)
        | some ciph =>
          let job : Pool.GJob (BitVec 128) :=
            { H := aesHash ciph, r := r, inl := fun i => label128 tape (16 * (i + 1)) }
          let avail := (tape.size - 16) / 16
          if avail < c.nIn then (job, some avail) else (job, none)
      match failAt with
      | some k =>
        match Pool.runEv P σ (.fail job k s) with
        | some σ' => (σ', "garble-error")
        | none => (σ, "model-reject")
      | none =>
        match Pool.runEv P σ (.garble job s) with
        | some σ' =>
          match viewOf c σ' (σ'.nHandles - 1) with
          | some (_, G) => (σ', viewStr c G)
          | none => (σ', "model-reject")
        | none => (σ, "model-reject")
    | _, _ => (σ, "bad-op")
  | ["E", h, x] =>
    match h.toNat? with
    | some h =>
      if !Pool.liveHandle σ h then (σ, "no-handle") else
      match Pool.runEv P σ (.eval h), viewOf c σ h with
      | some σ', some (job, G) =>
        let x := parseBits x
        let head := viewStr c G
        let ws := (List.range c.numWires).filter c.defined
        match c.evalGarbled job.H G.rows (encodeInputs c G x) with
        | .error _ => (σ', head ++ ";eval-error")
        | .ok out =>
          let estr := String.join (ws.map fun w => hex128 (out.get w))
          (σ', head ++ s!";e={estr};c={bitsStr (c.compute x)}")
      | _, _ => (σ, "model-reject")
    | none => (σ, "bad-op")
  | ["R", h] =>
    match h.toNat? with
    | some h =>
      if h ≥ σ.nHandles then (σ, "no-handle") else
      let live := Pool.liveHandle σ h
      match Pool.runEv P σ (.release h) with
      | some σ' => (σ', if live then "released" else "noop")
      | none => (σ, "model-reject")
    | none => (σ, "bad-op")
  | _ => (σ, "bad-op")

def handleHist (nw nin nout gates evs : String) : String :=
  match parseCircuit nw nin nout gates with
  | some c =>
    let σ0 : HState := Pool.init (Pool.garbleParams c)
    let (_, outs) := (evs.splitOn ",").foldl (fun (acc : HState × List String) ev =>
      let (σ', r) := histEvent c acc.1 ev
      (σ', r :: acc.2)) (σ0, [])
    "|".intercalate outs.reverse
  | none => "bad-op"

def handleAll (args : List String) : String :=
  match args with
  | [nw, nin, nout, gates, evs] => handleHist nw nin nout gates evs
  | _ => handle args

end Drv.C01

def main : IO Unit := Drv.mainLoop Drv.C01.handleAll

import Driver.Util

namespace Drv.C11

/-- Line-protocol handler of property C11 (stub). -/
def handle (_args : List String) : String := "bad-op"

end Drv.C11

def main : IO Unit := Drv.mainLoop Drv.C11.handle

import Driver.Util
import MpcVerif.Model.Conn
import MpcVerif.Model.ConnDuplex

/-!
Line protocol of C11 (one line = one direction of one duplex session):

  c11 <mode> <frag> <kinds> <ops>

* mode  `frag` (harness transport; everything is compared) or `pipe`
        (real `p2p.Pipe`; only schedule-independent fields are printed)
* frag  `one` | `all` | `c<a>,<b>,…` (cycle) | `p<a>,<b>,…` (planned list, last size repeated) |
        `r<seed>.<max>` (hashed 1..max)
* kinds string over `bhwdslz` — the typed receives the peer performs (`-` none)
* ops   `;`-separated sender operations (`-` none):
        `b<hex2>` `h<n>` `w<n>` `d<len>.<seed>` `s<len>.<seed>` `l<hex32>`
        `z<n>/<n>/…` `Z<len>.<seed>` (hashed size list) `f` (Flush) `n<count>` (NeedSpace)
  payload byte i of `d/s` is `((seed + i) * 0x9E3779B97F4A7C15) >> 56`.

Duplex / fault sessions (one line = one whole session of two endpoints A, B):

  c11 dx <fragA> <fragB> <graceAB>.<graceBA> <script>

* fragA/fragB  read fragmentation of A's / B's transport reads (as above)
* graceAB      number of `Write`s of A that the transport still accepts (and
               discards) after B has closed its endpoint, before `Write` fails
* script       `;`-separated steps in execution order: `A><op>` (a sender
               operation as above), `A<<kind>` (one typed receive), `A!` (Close);
               likewise `B…`.  The harness transport holds every `Write` until the
               `Flush` that queued it has returned and lets the writer goroutines
               finish between two steps (`Sess.step`).
-/

namespace Drv.C11
open Mpc.Conn

def fnv1a (b : ByteArray) (h : UInt64 := 0xcbf29ce484222325) : UInt64 :=
  b.foldl (fun h x => (h ^^^ x.toUInt64) * 0x100000001b3) h

def pattern (seed : UInt64) (len : Nat) : ByteArray := Id.run do
  let mut out := ByteArray.emptyWithCapacity len
  let mut x : UInt64 := seed * 0x9E3779B97F4A7C15
  for _ in [0:len] do
    out := out.push (x >>> 56).toUInt8
    x := x + 0x9E3779B97F4A7C15
  return out

def hexDigit (n : Nat) : Char :=
  if n < 10 then Char.ofNat (48 + n) else Char.ofNat (87 + n)

def hexOfNat (n width : Nat) : String :=
  String.ofList ((List.range width).map fun i => hexDigit ((n >>> (4 * (width - 1 - i))) % 16))

def hex64 (x : UInt64) : String := hexOfNat x.toNat 16

def parseHexNat (s : String) : Option Nat :=
  s.toList.foldlM (fun acc c =>
    if '0' ≤ c ∧ c ≤ '9' then some (acc * 16 + (c.toNat - 48))
    else if 'a' ≤ c ∧ c ≤ 'f' then some (acc * 16 + (c.toNat - 87))
    else none) 0

def splitmix (z : UInt64) : UInt64 :=
  let z := (z ^^^ (z >>> 30)) * 0xBF58476D1CE4E5B9
  let z := (z ^^^ (z >>> 27)) * 0x94D049BB133111EB
  z ^^^ (z >>> 31)

def parseFrag (s : String) : Option Frag :=
  if s == "one" then some fun _ => 1
  else if s == "all" then some fun _ => 1 <<< 40
  else match s.toList with
    | 'c' :: rest =>
      match ((String.ofList rest).splitOn ",").mapM String.toNat? with
      | some (x :: xs) =>
        let arr := (x :: xs).toArray
        some fun i => arr[i % arr.size]!
      | _ => none
    | 'p' :: rest =>
      -- planned schedule: the listed sizes, the last one repeated
      match ((String.ofList rest).splitOn ",").mapM String.toNat? with
      | some (x :: xs) =>
        let arr := (x :: xs).toArray
        some fun i => arr[min i (arr.size - 1)]!
      | _ => none
    | 'r' :: rest =>
      match (String.ofList rest).splitOn "." with
      | [a, b] =>
        match a.toNat?, b.toNat? with
        | some seed, some mx =>
          if mx = 0 then none else
          some fun i => 1 + (splitmix (UInt64.ofNat seed ^^^ (UInt64.ofNat i * 0x9E3779B97F4A7C15))).toNat % mx
        | _, _ => none
      | _ => none
    | _ => none

def parseKind (c : Char) : Option Kind :=
  match c with
  | 'b' => some .byte | 'h' => some .u16 | 'w' => some .u32 | 'd' => some .data
  | 's' => some .str | 'l' => some .label | 'z' => some .sizes | _ => none

def parseKinds (s : String) : Option (List Kind) :=
  if s == "-" then some [] else s.toList.mapM parseKind

def parsePayload (s : String) : Option ByteArray :=
  match s.splitOn "." with
  | [a, b] => match a.toNat?, b.toNat? with
    | some len, some seed => some (pattern (UInt64.ofNat seed) len)
    | _, _ => none
  | _ => none

def patternSizes (seed : UInt64) (n : Nat) : List Nat :=
  (List.range n).map fun i =>
    let h := splitmix (seed ^^^ (UInt64.ofNat i * 0x9E3779B97F4A7C15))
    match (h >>> 62).toNat with
    | 0 => 0
    | 1 => 1
    | 2 => 4294967295
    | _ => (h &&& 0xffffffff).toNat

def parseOp (s : String) : Option Op :=
  match s.toList with
  | ['f'] => some .flush
  | 'n' :: rest => (String.ofList rest).toNat?.map .needSpace
  | 'b' :: rest => (parseHexNat (String.ofList rest)).map fun n => .send (.byte (UInt8.ofNat n))
  | 'h' :: rest => (String.ofList rest).toNat?.map fun n => .send (.u16 n)
  | 'w' :: rest => (String.ofList rest).toNat?.map fun n => .send (.u32 n)
  | 'd' :: rest => (parsePayload (String.ofList rest)).map fun d => .send (.data d)
  | 's' :: rest => (parsePayload (String.ofList rest)).map fun d => .send (.str d)
  | 'l' :: rest => (parseHexNat (String.ofList rest)).map fun n => .send (.label n)
  | 'Z' :: rest =>
    match (String.ofList rest).splitOn "." with
    | [a, b] => match a.toNat?, b.toNat? with
      | some len, some seed => some (.send (.sizes (patternSizes (UInt64.ofNat seed) len)))
      | _, _ => none
    | _ => none
  | 'z' :: rest =>
    if rest.isEmpty then some (.send (.sizes []))
    else (((String.ofList rest).splitOn "/").mapM String.toNat?).map fun l => .send (.sizes l)
  | _ => none

def parseOps (s : String) : Option (List Op) :=
  if s == "-" then some [] else (s.splitOn ";").mapM parseOp

def showVal : Val → String
  | .byte b => "b" ++ hexOfNat b.toNat 2
  | .u16 n => s!"h{n}"
  | .u32 n => s!"w{n}"
  | .data d => s!"d{d.size}.{hex64 (fnv1a d)}"
  | .str d => s!"s{d.size}.{hex64 (fnv1a d)}"
  | .label n => "l" ++ hexOfNat n 32
  | .sizes l =>
    if l.length > 8 then s!"Z{l.length}.{hex64 (fnv1a (l.foldl (fun acc x => acc ++ be 4 x) ByteArray.empty))}"
    else "z" ++ "/".intercalate (l.map toString)

def showErr : Option Err → String
  | none => "-"
  | some .eof => "eof"
  | some .bufFull => "buffull"
  | some .stuck => "stuck"

/-- run-length encoded list of chunk lengths: `len*count,len*count,…` -/
def rle (l : List Nat) : String :=
  let rec go (l : List Nat) (cur : Nat) (cnt : Nat) (acc : List String) : List String :=
    match l with
    | [] => (s!"{cur}*{cnt}" :: acc).reverse
    | x :: xs => if x == cur then go xs cur (cnt + 1) acc else go xs x 1 (s!"{cur}*{cnt}" :: acc)
  match l with
  | [] => "-"
  | x :: xs => ",".intercalate (go xs x 1 [])

/-- The writer schedule used by the driver.  Any choice gives the same result
(`C11_conn_sched_indep`); the Go scheduler picks its own. -/
def drvSched : Sched := fun i => (i * 7 + 1) % 4

/-- Fault sessions (`c11 fault <N>.<k>.<sticky> - <ops>`): the transport fails
its `N`-th Write after `k` bytes; `sticky = 1`: every later Write fails too.
The harness transport holds Write `N` until the sender has queued the next
chunk (`Stats.Flushed >= N+2`, checked between operations) or has run out of
operations; then it lets the Write fail and waits until the error is visible
to the sender.  All other Writes run as soon as they are queued.  The caller
stops at the first error and calls Close.  The driver replays exactly that
schedule on `FSender`. -/
def handleFault (spec ops : String) : String :=
  match (spec.splitOn ".").mapM String.toNat?, parseOps ops with
  | some [n, k, sticky], some ops =>
    -- (`sticky` only matters to the transport: since f07ee15 no Write follows a failed one)
    let fault : Fault := fun i =>
      if i == n then some k else if sticky == 1 && i > n then some 0 else none
    let lazy : Sched := fun _ => 0
    let rec go (ops : List Op) (s : FSender) (released : Bool) (nok : Nat) : FSender × Bool × Nat × Bool :=
      match ops with
      | [] => (s, released, nok, true)
      | o :: os =>
        match s.step fault lazy o with
        | (s, false) => (s, released, nok, false)
        | (s, true) =>
          if !released && s.flushed ≥ n + 2 then
            go os (s.writerSteps fault s.queue.length) true (nok + 1)
          else
            let steps := if released then s.queue.length else min s.queue.length (n - s.handed.length)
            go os (s.writerSteps fault steps) released (nok + 1)
    let (s, _, nok, ok) := go ops FSender.init false 0
    let s := s.writerSteps fault s.queue.length
    let pre := s!"{s.sent},{s.flushed},{s.cur.size}"
    let (s, cok) := s.close fault lazy
    let s := s.writerSteps fault s.queue.length
    let stream := s.wire.foldl (· ++ ·) ByteArray.empty
    let b := fun (x : Bool) => if x then "ok" else "err"
    s!"w={rle (s.wire.map (·.size))};wh={hex64 (fnv1a stream)};nok={nok};ops={b ok};close={b cok};" ++
      s!"pre={pre};sent={s.sent};fl={s.flushed};writes={s.wire.length};tc={if cok then 1 else 0}"
  | _, _ => "bad-op"

/-! ### duplex / fault sessions -/

def parseStep (s : String) : Option (Bool × Act) :=
  match s.toList with
  | side :: '>' :: rest =>
    if side != 'A' && side != 'B' then none else
    (parseOp (String.ofList rest)).map fun o => (side == 'B', Act.op o)
  | [side, '<', k] =>
    if side != 'A' && side != 'B' then none else
    (parseKind k).map fun k => (side == 'B', Act.recv k)
  | [side, '!'] => if side != 'A' && side != 'B' then none else some (side == 'B', Act.close)
  | _ => none

def showRErr : RErr → String
  | .eof => "!eof" | .wouldBlock => "!wb" | .closed => "!closed" | .bufFull => "!buffull" | .stuck => "!stuck"

def showObs (os : List Obs) : String :=
  let toks := os.filterMap fun
    | .sent ok => some (if ok then "k" else "E")
    | .got v => some (showVal v)
    | .rerr e => some (showRErr e)
    | .closed ok => some (if ok then "ck" else "cE")
    | .skip => none
  if toks.isEmpty then "-" else ",".intercalate toks

/-- run-length encoded token list `tok*count,…` -/
def rleS (l : List String) : String :=
  let rec go (l : List String) (cur : String) (cnt : Nat) (acc : List String) : List String :=
    match l with
    | [] => (s!"{cur}*{cnt}" :: acc).reverse
    | x :: xs => if x == cur then go xs cur (cnt + 1) acc else go xs x 1 (s!"{cur}*{cnt}" :: acc)
  match l with
  | [] => "-"
  | x :: xs => ",".intercalate (go xs x 1 [])

/-- every `conn.Write` call of an endpoint: its length, `x` appended when it failed -/
def showWrites (s : FSender) : String :=
  rleS ((s.handed.zip s.wire).map fun (h, w) => if w.size == h.size then s!"{h.size}" else s!"{h.size}x")

def showSide (l : Local) : String :=
  let rd := if l.r.dead then "-" else s!"{l.r.rcv.nread}.{hex64 l.r.rcv.rlog}"
  s!"sent={l.snd.sent},fl={l.snd.flushed},rc={l.r.rcv.recvd},tc={l.r.closes},w={showWrites l.snd},rd={rd}"

def handleDx (fa fb grace script : String) : String :=
  match parseFrag fa, parseFrag fb, (grace.splitOn ".").mapM String.toNat?,
        (if script == "-" then some [] else (script.splitOn ";").mapM parseStep) with
  | some fragA, some fragB, some [gAB, gBA], some steps =>
    let s := Sess.run fragA fragB { graceAB := gAB, graceBA := gBA } steps
    let lnk := fun (rcv : Recv) (disc : Nat) => s!"{rcv.pend.size},{hex64 (fnv1a rcv.pend)},{disc}"
    s!"A={showObs s.obsA};B={showObs s.obsB};a:{showSide s.a};b:{showSide s.b};" ++
      s!"ab={lnk s.b.r.rcv s.discAB};ba={lnk s.a.r.rcv s.discBA}"
  | _, _, _, _ => "bad-op"

def handle (args : List String) : String :=
  match args with
  | ["dx", fa, fb, grace, script] => handleDx fa fb grace script
  | ["fault", spec, _, ops] => handleFault spec ops
  | [mode, frag, kinds, ops] =>
    match parseFrag frag, parseKinds kinds, parseOps ops with
    | some frag, some kinds, some ops =>
      let s0 := Sender.init.run drvSched ops
      let pre := s!"{s0.sent},{s0.flushed},{s0.cur.size}"
      let s := s0.close drvSched
      let stream := s.wire.foldl (· ++ ·) ByteArray.empty
      let (vals, r, err) := (Recv.init stream).recvAll frag kinds
      let rv := if vals.isEmpty then "-" else ",".intercalate (vals.map showVal)
      let common := s!"pre={pre};sent={s.sent};fl={s.flushed};tot={stream.size};rv={rv};err={showErr err}"
      if mode == "pipe" then
        if err.isNone then s!"{common};rc={r.recvd}" else common
      else
        -- the physical-ring model: which buffer each Write was given, and a
        -- run-time cross-check of `C11_conn_ring_refines`
        -- (only for streams up to 1 MiB, to keep the driver fast)
        let ring :=
          if stream.size > 1048576 then "-" else
          let rg := (Ring.init.run drvSched ops).close drvSched
          let ringOk := rg.wire.map (·.size) == s.wire.map (·.size) &&
            fnv1a (rg.wire.foldl (· ++ ·) ByteArray.empty) == fnv1a stream &&
            rg.toW.isEmpty && rg.sent == s.sent && rg.flushed == s.flushed
          if ringOk then s!"{rg.wids.length},{hex64 (fnv1a (rg.wids.map UInt8.ofNat).toByteArray)}"
          else "ring-abs-mismatch"
        let full := s!"w={rle (s.wire.map (·.size))};wh={hex64 (fnv1a stream)};rg={ring};{common}"
        if err.isNone then
          s!"{full};rd={r.nread},{hex64 r.rlog};rc={r.recvd};left={r.window.size},{r.pending.size},{hex64 (fnv1a r.pending (fnv1a r.window))}"
        else full
    | _, _, _ => "bad-op"
  | _ => "bad-op"

end Drv.C11

def main : IO Unit := Drv.mainLoop Drv.C11.handle

import Driver.Util

namespace Drv.C08

/-- Line-protocol handler of property C08 (stub). -/
def handle (_args : List String) : String := "bad-op"

end Drv.C08

def main : IO Unit := Drv.mainLoop Drv.C08.handle

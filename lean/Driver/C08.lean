import Driver.Util
import MpcVerif.Model.Determinism
import MpcVerif.Model.ProcState
import MpcVerif.Model.ProcSteps
import MpcVerif.Model.ProcConc
import MpcVerif.Model.WidthTable

namespace Drv.C08
open Mpc Mpc.Det Drv

def listOf (s : String) : List String :=
  if s == "-" then [] else s.splitOn ","

def joinOr (l : List String) : String :=
  if l.isEmpty then "-" else ",".intercalate l

def bytesOf (hex : String) : Option (List Nat) :=
  (Aes.bytesOfHex hex).map fun b => b.toList.map (·.toNat)

def hexOf (bs : List Nat) : String :=
  Aes.hexOfBytes (ByteArray.mk (bs.map (fun n => UInt8.ofNat n)).toArray)

/-- `name:nvars:nanon:imp1,imp2` -/
def parsePkg (s : String) : Option (Pkg String) :=
  match s.splitOn ":" with
  | [n, nv, na, imps] => do
    some { name := n, imports := listOf imps, nvars := ← nv.toNat?, nanon := ← na.toNat? }
  | _ => none

def parseLib (s : String) : Option (List (Pkg String)) :=
  (s.splitOn ";").mapM parsePkg

/-- Go string order (`sort.Strings`): byte-wise on the UTF-8 encoding. -/
def strLe (a b : String) : Bool :=
  bytesLe (a.toUTF8.toList.map (·.toNat)) (b.toUTF8.toList.map (·.toNat))

def renderBlock (withAnon : Bool) (b : String × Option Nat) : String :=
  match b.2 with
  | some k => if withAnon then s!".{b.1}@{k}" else s!".{b.1}"
  | none => s!".{b.1}"

def parseFoldOp : String → Option PSt.FoldOp
  | "div" => some .div | "mod" => some .mod | "mul" => some .mul | "add" => some .add | "sub" => some .sub
  | _ => none

/-- `w:op:x:y` -/
def parseFold (s : String) : Option PSt.FoldReq :=
  match s.splitOn ":" with
  | [w, op, x, y] => do some { w := ← w.toNat?, op := ← parseFoldOp op, x := ← x.toNat?, y := ← y.toNat? }
  | _ => none

/-- one compilation: `fold,fold,...` -/
def parseSrc (s : String) : Option PSt.Src := (s.splitOn ",").mapM parseFold

def parseKind : String → Option PSt.Kind
  | "C" => some .compile | "S" => some .stream | "E" => some .compute | "G" => some .garble
  | "R" => some .roundtrip | "A" => some .ssa
  | _ => none

/-- `<arg>` or `<arg>:<w>:<op>:<x>:<y>` -/
def parseRet (s : String) : Option PSt.Ret :=
  match s.splitOn ":" with
  | [a] => do some { arg := ← a.toNat?, fold := none }
  | [a, w, op, x, y] => do
    some { arg := ← a.toNat?, fold := some { w := ← w.toNat?, op := ← parseFoldOp op, x := ← x.toNat?, y := ← y.toNat? } }
  | _ => none

/-- one step of a history over all kinds: `<K>/<argbits,...>/<ret,...>/<in,...>` -/
def parseReq (s : String) : Option (PSt.Req Unit) :=
  match s.splitOn "/" with
  | [k, args, rets, ins] => do
    some { kind := ← parseKind k, prog := { args := ← (listOf args).mapM (·.toNat?), rets := ← (listOf rets).mapM parseRet },
           par := (), ins := ← (listOf ins).mapM (·.toNat?), dies := [] }
  | _ => none

def natList (l : List Nat) : String := ",".intercalate (l.map toString)

/-- What the harness observes of a step: `c=<folded constants>|w=<NumWires-NumGates>` for the kinds that compile a
circuit, `v=<results>` for the kinds that run the program, `ssa` for CompileSSA. -/
def renderOut (k : PSt.Kind) (o : PSt.Out) : String :=
  let c := s!"c={natList o.consts}|w={o.inw.getD 0}"
  let v := s!"v={natList o.vals}"
  match k with
  | .compile | .roundtrip => c
  | .compute | .garble => c ++ "|" ++ v
  | .stream => v
  | .ssa => "ssa"

/-- one element of a history with concurrent elements: `<schedule>@<step>&<step>&...`, schedule = `-` or the indices of
the steps in the order of their micro-steps -/
def parseElement (s : String) : Option (List Nat × List (PSt.Req Unit)) :=
  match s.splitOn "@" with
  | [sched, steps] => do some (← (listOf sched).mapM (·.toNat?), ← (steps.splitOn "&").mapM parseReq)
  | _ => none

/--
`dc <hex names in hand-over order>`            → names in the order DefineConstants wires them
`ts <hexkey=val,...> <t>`                      → key found by Type.String's search, or `none`
`init <lib> <root>`                            → init blocks emitted by Package.Init
`hist <k> <lib> <root> <calls>`                → init blocks and function labels of k compilations on one Compiler
`phist <src>;<src>;...`                        → the folded wide constants of every compilation of a history in one
                                                 process (`PSt.outputsAlong PSt.stepNow`), `src` = `w:op:x:y,...`
`ahist <step>;<step>;...`                      → the outputs of every step of a one-process history over ALL step kinds
                                                 (`PSt.outputsAlongK PSt.stepNowK`), see `parseReq` / `renderOut`
`mthr <yao|gmw> <w> <lo> <cnt> <k:v,...>`       → the multiplier limits equivalent to the default parameters at operand
                                                 width w (`WT.multClass`: table lookup by key + Karatsuba recursion)
`chist <element>;<element>;...`                → the outputs of every step of a one-process history whose elements are
                                                 CONCURRENT (`PSt.runElements PSt.microNow` over the micro-steps
                                                 `PSt.microsK` of every step, under the element's schedule, put together
                                                 by `PSt.assembleK`), see `parseElement`
-/
def handle (args : List String) : String :=
  match args with
  | ["dc", names] =>
    match (listOf names).mapM bytesOf with
    | none => "bad-op"
    | some ns =>
      let consts : List Const := ns.map fun n => { name := n, bits := [] }
      let sorted := sortConsts consts
      -- the allocation order of defineConstants is the sorted order
      let alloc := defineConstants consts
      if alloc.map (·.1) != sorted.map (·.name) then "model-inconsistent" else
      joinOr (sorted.map fun c => hexOf c.name)
  | ["ts", tbl, t] =>
    let entries := (listOf tbl).filterMap fun e =>
      match e.splitOn "=" with
      | [k, v] => v.toInt?.map fun v => (k, v)
      | _ => none
    match t.toInt? with
    | none => "bad-op"
    | some t =>
      match findKey entries t with
      | some k => k
      | none => "none"
  | ["init", lib, root] =>
    match parseLib lib with
    | none => "bad-op"
    | some lib =>
      let st := initPkg strLe (lib.length + 1) lib root { initialized := [], blocks := [], anon := 0 }
      joinOr (st.blocks.map (renderBlock true))
  | ["hist", k, lib, root, calls] =>
    match k.toNat?, parseLib lib with
    | some k, some lib =>
      match getPkg lib root with
      | none => "bad-op"
      | some m =>
        let prog : Prog String := { main := m, mainFuncs := [root], calls := listOf calls }
        let outs := compileRepeated strLe lib prog k Cache.empty
        "/".intercalate (outs.map fun o =>
          "init=" ++ joinOr (o.initBlocks.map (renderBlock false)) ++ ";fn=" ++
            joinOr (o.funcLabels.map fun f => s!"{f.1}#{f.2}"))
    | _, _ => "bad-op"
  | ["phist", hist] =>
    match (hist.splitOn ";").mapM parseSrc with
    | none => "bad-op"
    | some srcs =>
      let outs := PSt.outputsAlong (PSt.stepNow (σ := Unit) (π := Unit)) () (srcs.map fun s => (s, ()))
      ";".intercalate (outs.map fun o => ",".intercalate (o.map toString))
  | ["ahist", hist] =>
    match (hist.splitOn ";").mapM parseReq with
    | none => "bad-op"
    | some reqs =>
      let outs := PSt.outputsAlongK (PSt.stepNowK (σ := Unit) (π := Unit)) () reqs
      ";".intercalate ((reqs.zip outs).map fun (r, o) => renderOut r.kind o)
  | ["chist", hist] =>
    match (hist.splitOn ";").mapM parseElement with
    | none => "bad-op"
    | some els =>
      let outs := PSt.runElements (PSt.microNow (σ := Unit)) () (els.map fun e => (e.1, e.2.map PSt.microsK))
      ";".intercalate ((els.zip outs).map fun (e, o) =>
        "&".intercalate ((e.2.zip o).map fun (r, ps) => renderOut r.kind (PSt.assembleK ps)))
  | ["mthr", target, w, lo, cnt, tbl] =>
    -- the limits L in [lo, lo+cnt) for which Params.CircMultArrayTreshold = L gives the circuit of the default
    -- parameters for `a * b` on w-bit operands; tbl = the width-indexed table read from the source, `k:v,...`
    let entries := (listOf tbl).mapM fun e =>
      match e.splitOn ":" with
      | [k, v] => do some ((← k.toNat?), (← v.toNat?))
      | _ => none
    match entries, w.toNat?, lo.toNat?, cnt.toNat? with
    | some entries, some w, some lo, some cnt =>
      if target != "yao" && target != "gmw" then "bad-op" else
      joinOr ((WT.multClass (target == "gmw") entries w lo cnt).map toString)
    | _, _, _, _ => "bad-op"
  | ["fhist", lib, root, calls, n] =>
    -- failing compilation (n function instances done), good one, failing one, good one - on one Compiler
    match n.toNat?, parseLib lib with
    | some n, some lib =>
      match getPkg lib root with
      | none => "bad-op"
      | some m =>
        let prog : Prog String := { main := m, mainFuncs := [root], calls := listOf calls }
        let c1 := runHistory strLe lib Cache.empty [.failing prog n]
        let r1 := compile strLe lib c1 prog
        let c2 := runHistory strLe lib r1.2 [.good prog, .failing prog n]
        let r2 := compile strLe lib c2 prog
        "/".intercalate ([r1.1, r2.1].map fun o =>
          "init=" ++ joinOr (o.initBlocks.map (renderBlock false)) ++ ";fn=" ++
            joinOr (o.funcLabels.map fun f => s!"{f.1}#{f.2}"))
    | _, _ => "bad-op"
  | _ => "bad-op"

end Drv.C08

/-- The command word is part of the op here (one driver, four ops). -/
def main : IO Unit := do
  let stdin ← IO.getStdin
  let stdout ← IO.getStdout
  let rec loop : Nat → IO Unit
    | 0 => pure ()
    | n + 1 => do
      let line ← stdin.getLine
      if line.isEmpty then return ()
      let line := if line.endsWith "\n" then (line.dropEnd 1).toString else line
      stdout.putStrLn (Drv.C08.handle (Drv.splitWs line))
      loop n
  loop 100000000

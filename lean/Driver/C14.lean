import Driver.Util

namespace Drv.C14

/-- Line-protocol handler of property C14 (stub). -/
def handle (_args : List String) : String := "bad-op"

end Drv.C14

def main : IO Unit := Drv.mainLoop Drv.C14.handle

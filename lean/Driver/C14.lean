import Driver.Util
import MpcVerif.Model.Format

namespace Drv.C14
open Mpc Mpc.Fmt Drv

def hexOf (b : Bytes) : String :=
  if b.isEmpty then "-" else Aes.hexOfBytes ⟨b.toArray⟩

def bytesOf (s : String) : Option Bytes :=
  if s == "-" then some [] else (Aes.bytesOfHex s).map (·.toList)

def kindNum : TKind → Nat
  | .undefined => 0 | .bool => 1 | .int => 2 | .uint => 3 | .float => 4 | .string => 5
  | .struct => 6 | .array => 7 | .slice => 8 | .ptr => 9 | .nil => 10

def kindOfNum : Nat → Option TKind
  | 0 => some .undefined | 1 => some .bool | 2 => some .int | 3 => some .uint | 4 => some .float
  | 5 => some .string | 6 => some .struct | 7 => some .array | 8 => some .slice | 9 => some .ptr
  | 10 => some .nil | _ => none

def b01 (b : Bool) : String := if b then "1" else "0"

/-- canonical dump of a type -/
def dumpInfo : Info → String
  | .base k c b => s!"b{kindNum k}.{b01 c}.{b}"
  | .arr false n b e => s!"a{n}.{b}({dumpInfo e})"
  | .arr true n b e => s!"s{n}.{b}({dumpInfo e})"
  | .ptr b e => s!"p{b}({dumpInfo e})"

partial def dumpArg : IOArg → String
  | .mk name ty comp => "{" ++ hexOf name ++ "|" ++ dumpInfo ty ++ "|[" ++ ",".intercalate (comp.map dumpArg) ++ "]}"

def opLetter : Op → String
  | .xor => "x" | .xnor => "n" | .and => "a" | .or => "o" | .inv => "i"

def dumpGates (gs : List Gate) : String :=
  if gs.isEmpty then "-" else
  ";".intercalate (gs.map fun g => s!"{opLetter g.op}{g.in0}.{g.in1}.{g.out}")

def dumpCircuit (c : PCircuit) : String :=
  s!"ok ng={c.numGates} nw={c.numWires} in=[{",".intercalate (c.inputs.map dumpArg)}] " ++
  s!"out=[{",".intercalate (c.outputs.map dumpArg)}] g={dumpGates c.gates}"

def dumpRes : R PCircuit → String
  | .ok c => dumpCircuit c
  | .error .error => "error"
  | .error .panic => "panic"
  | .error .oversize => "oversize"
  | .error .fuel => "fuel"

/-- The harness's chunked reader: `chunk = 0`: deliver what is asked
(`bytes.Reader`); `salt = 0`: at most `chunk` bytes per Read; otherwise
`1 + (31 k + salt) mod chunk` bytes for the k-th Read. -/
def mkCfg (bufSize chunk salt : Nat) : RdCfg :=
  ⟨bufSize, fun req k =>
    if chunk = 0 then req else if salt = 0 then chunk else 1 + (31 * k + salt) % chunk⟩

/-! token-stream parser for circuit descriptions -/

def parseInt? (s : String) : Option Int := s.toInt?

partial def pType : List String → Option (Info × List String)
  | [] => none
  | t :: rest =>
    match t.splitOn ":" with
    | ["b", k, c, b] => do
      let k ← kindOfNum (← k.toNat?)
      some (.base k (c == "1") (← parseInt? b), rest)
    | ["a", n, b] => do
      let (e, rest) ← pType rest
      some (.arr false (← n.toNat?) (← parseInt? b) e, rest)
    | ["s", n, b] => do
      let (e, rest) ← pType rest
      some (.arr true (← n.toNat?) (← parseInt? b) e, rest)
    | ["p", b] => do
      let (e, rest) ← pType rest
      some (.ptr (← parseInt? b) e, rest)
    | _ => none

mutual
partial def pArg : List String → Option (IOArg × List String)
  | [] => none
  | nm :: rest => do
    let name ← bytesOf nm
    let (ty, rest) ← pType rest
    match rest with
    | [] => none
    | nc :: rest =>
      let (comp, rest) ← pArgs (← nc.toNat?) rest
      some (.mk name ty comp, rest)
partial def pArgs : Nat → List String → Option (List IOArg × List String)
  | 0, rest => some ([], rest)
  | n + 1, rest => do
    let (a, rest) ← pArg rest
    let (as, rest) ← pArgs n rest
    some (a :: as, rest)
end

/-- `pm <fix> <bufSize> <chunk> <salt> <hex>`: fix bit 0 = parseString uses ReadFull, bit 1 = gate guard
(what the harness's probes found in the code under test).
`<ng> <nw> <nI> args… <nO> args… <gates>` -/
def pCircuit (toks : List String) : Option PCircuit :=
  match toks with
  | ng :: nw :: ni :: rest => do
    let (ins, rest) ← pArgs (← ni.toNat?) rest
    match rest with
    | no :: rest =>
      let (outs, rest) ← pArgs (← no.toNat?) rest
      match rest with
      | [g] => some ⟨← ng.toNat?, ← nw.toNat?, ins, outs, ← parseGates g⟩
      | _ => none
    | _ => none
  | _ => none

def handle (args : List String) : String :=
  match args with
  | ["pm", fx, bs, ch, salt, hex] =>
    match fx.toNat?, bs.toNat?, ch.toNat?, salt.toNat?, bytesOf hex with
    | some fx, some bs, some ch, some salt, some b =>
      dumpRes (parseMPCLC (mkCfg bs ch salt) ⟨fx % 2 == 1, fx / 2 % 2 == 1⟩ b)
    | _, _, _, _, _ => "bad-op"
  | ["pb", hex] =>
    match bytesOf hex with
    | some b => dumpRes (parseBristol b)
    | none => "bad-op"
  | "mm" :: toks =>
    match pCircuit toks with
    | some c => hexOf (marshal c)
    | none => "bad-op"
  | "mb" :: toks =>
    match pCircuit toks with
    | some c => hexOf (marshalBristol c)
    | none => "bad-op"
  | ["tp", hex] =>
    match bytesOf hex with
    | some b =>
      match typeParse b with
      | some t => "ok " ++ dumpInfo t
      | none => "error"
    | none => "bad-op"
  | "ts" :: toks =>
    match pType toks with
    | some (t, []) => hexOf (typeString t)
    | _ => "bad-op"
  | _ => "bad-op"

end Drv.C14

def main : IO Unit := Drv.mainLoop Drv.C14.handle

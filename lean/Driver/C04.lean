import Driver.Util
import MpcVerif.Model.GarblerProc
import MpcVerif.Model.TweakAcc
import MpcVerif.Model.StreamDef

namespace Drv.C04
open Mpc.GProc

/-- `S<s>` start, `F<s>.<k>` failed Garble, `Ob<s>` / `Oe<s>` OT send call /
return, `D<s>` result loop. -/
def parseEv (t : String) : Option PEv :=
  if t.startsWith "Ob" then (t.drop 2).toString.toNat?.map .otBegin
  else if t.startsWith "Oe" then (t.drop 2).toString.toNat?.map .otEnd
  else if t.startsWith "S" then (t.drop 1).toString.toNat?.map .start
  else if t.startsWith "D" then (t.drop 1).toString.toNat?.map .decode
  else if t.startsWith "F" then
    match (t.drop 1).toString.splitOn "." with
    | [a, b] => do some (.fail (← a.toNat?) (← b.toNat?))
    | _ => none
  else none

/-- `c04acc acc <id0> <kinds>`: the tweaks used along a stream of gates under
the code's accounting (`Model/TweakAcc.lean`: `tweakUses codeAcc`); `<kinds>` is
one letter per gate (x n a o i), `/` between instruction circuits (ignored: the
counter runs over the whole stream). -/
def handleAcc (id0 kinds : String) : String :=
  match id0.toNat? with
  | none => "bad-op"
  | some id =>
    if kinds == "-" then Mpc.renderAcc [] else
    match (kinds.toList.filter (· != '/')).mapM parseOp with
    | some ops => Mpc.renderAcc (Mpc.tweakUses Mpc.codeAcc ops id)
    | none => "bad-op"

/-- `c04def def <n> <nIn> <gates>`: is every gate input of the stream a defined
wire (`Model/StreamDef.lean`: `streamDefined`, proved equal to the `wfFrom`
hypothesis of the streaming theorems)?  `<gates>` is the gate list of a real
streaming session over one wire space of `n` wires whose first `nIn` are the
session's input wires. -/
def handleDef (n nIn gates : String) : String :=
  match n.toNat?, nIn.toNat?, parseGates gates with
  | some n, some nIn, some gs => Mpc.renderDef n nIn gs
  | _, _, _ => "bad-op"

/-- Line-protocol handler of property C04.

`c04proc <early 0|1> <event> <event> …`: a history of a garbler process that
serves overlapping sessions on one shared circuit value
(`Model/GarblerProc.lean`); answers whose garbling every session's OT served
and whether its result loop decoded. -/
def handle (args : List String) : String :=
  match args with
  | ["acc", id0, kinds] => handleAcc id0 kinds
  | ["def", n, nIn, gates] => handleDef n nIn gates
  | early :: evs =>
    match evs.mapM parseEv with
    | some es =>
      match runDigest (early == "1") es with
      | some st => render st
      | none => "reject"
    | none => "bad-op"
  | _ => "bad-op"

end Drv.C04

def main : IO Unit := Drv.mainLoop Drv.C04.handle

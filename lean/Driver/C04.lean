import Driver.Util

namespace Drv.C04

/-- Line-protocol handler of property C04 (stub). -/
def handle (_args : List String) : String := "bad-op"

end Drv.C04

def main : IO Unit := Drv.mainLoop Drv.C04.handle

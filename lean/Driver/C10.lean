import Driver.Util

namespace Drv.C10

/-- Line-protocol handler of property C10 (stub). -/
def handle (_args : List String) : String := "bad-op"

end Drv.C10

def main : IO Unit := Drv.mainLoop Drv.C10.handle

import Driver.Util
import MpcVerif.Model.Gmw
import MpcVerif.Model.GmwHist
import MpcVerif.Model.GmwInt
import MpcVerif.Model.GmwMsgs
import MpcVerif.Model.LevelsMod

namespace Drv.C10
open Mpc Mpc.Gmw Drv

def hexVal (c : Char) : Option Nat :=
  if '0' ≤ c ∧ c ≤ '9' then some (c.toNat - '0'.toNat)
  else if 'a' ≤ c ∧ c ≤ 'f' then some (c.toNat - 'a'.toNat + 10)
  else none

/-- `-` or a concatenation of 16-digit hex words. -/
def parseWords (s : String) : Option Words :=
  if s == "-" then some #[] else
  let cs := s.toList
  if cs.length % 16 != 0 then none else
  let rec go (cs : List Char) (cur : Nat) (k : Nat) (acc : Words) : Option Words :=
    match cs with
    | [] => some acc
    | c :: rest =>
      match hexVal c with
      | none => none
      | some v =>
        let cur := cur * 16 + v
        if k == 15 then go rest 0 0 (acc.push (BitVec.ofNat 64 cur)) else go rest cur (k + 1) acc
  go cs 0 0 #[]

def hexDigit (n : Nat) : Char :=
  if n < 10 then Char.ofNat ('0'.toNat + n) else Char.ofNat ('a'.toNat + n - 10)

def wordHex (w : Word) : String :=
  String.ofList ((List.range 16).map fun i => hexDigit ((w.toNat >>> (4 * (15 - i))) % 16))

def wordsHex (v : Words) (n : Nat) : String :=
  if n == 0 then "-" else String.join ((List.range n).map fun i => wordHex (wget v i))

def parseState (s : String) : Option Triples :=
  match s.splitOn ":" with
  | [w, a, b, c] => do
    some { words := ← w.toNat?, a := ← parseWords a, b := ← parseWords b, c := ← parseWords c }
  | _ => none

def stateStr (t : Triples) : String :=
  s!"{t.words}:{wordsHex t.a t.a.size}:{wordsHex t.b t.b.size}:{wordsHex t.c t.c.size}"

def viewStr (t : Triples) : String :=
  s!"{t.words}:{wordsHex t.a t.words}:{wordsHex t.b t.words}:{wordsHex t.c t.words}"

def natOfBits (b : List Bool) : Nat :=
  b.foldr (fun x acc => (if x then 1 else 0) + 2 * acc) 0

def storeStr (w : Store Bool) : String :=
  if w.size == 0 then "-" else String.ofList (w.toList.map fun x => if x then '1' else '0')

/-- Level digest as printed by the harness: `max/Σ level_i * (i % 65521 + 1) mod 4294967291`. -/
def levelDigest (c : Circuit) : String :=
  let lv := c.assignLevels true
  let s := (lv.1.zipIdx).foldl (fun acc li => (acc + li.1 * (li.2 % 65521 + 1)) % 4294967291) 0
  s!"{lv.2}/{s}"

/-- `lvl <sizes|-> <circuit> <x|->`: the level table of `AssignLevels(TargetGMW)` (digest), the level oracle
`topoCheck` on it and - when inputs are given - `Circuit.compute` as every party's output.  Used for the extreme
circuits (AND depth / level width / wires / outputs / input widths across 2^8 and 2^16), for which the
quadratic `blocks` of the share-level model is not run. -/
def handleLvl (sizes nw nin nout gates xs : String) : String :=
  match parseCircuit nw nin nout gates with
  | none => "bad-op"
  | some c =>
    let lv := c.assignLevels true
    let topo := if topoCheck c.numWires (c.gates.zip lv.1) then "1" else "0"
    let head := s!"lv={levelDigest c};topo={topo}"
    if sizes == "-" then head else
    match (splitOn' sizes).mapM String.toNat? with
    | none => "bad-op"
    | some sz =>
      -- the parties' input bits, LSB first, `sizes[p]` of them each: `inputBits sizes x` of the model
      let xb := (splitOn' xs).map parseBits
      if xb.length != sz.length || (xb.map List.length) != sz then "bad-op" else
      let o := bitsStr (c.computeFast xb.flatten)   -- = c.compute (C10_driver_compute)
      s!"{head};o={",".intercalate (sz.map fun _ => o)}"
where
  splitOn' (s : String) : List String := s.splitOn ","

/-! ### pool event sequences -/

inductive Ev where
  | arrive (b : Triples)
  | clear
  | get (count : Nat)

def parseBatch (s : String) : Option Triples :=
  match s.splitOn "/" with
  | [a, b, c] => do
    let a ← parseWords a
    some { words := a.size, a := a, b := ← parseWords b, c := ← parseWords c }
  | _ => none

def parseEv (s : String) : Option Ev :=
  match s.toList with
  | 'A' :: rest => (parseBatch (String.ofList rest)).map .arrive
  | ['C'] => some .clear
  | 'G' :: rest => (String.ofList rest).toNat?.map .get
  | _ => none

/-- Take the arrivals that directly follow a `Get` until `need` words are
available; each becomes one tick of the schedule. -/
def pullArrivals : List Ev → Nat → Nat → List (List Triples) × List Ev
  | .arrive b :: rest, have_, need =>
    if have_ < need then
      let r := pullArrivals rest (have_ + b.words) need
      ([b] :: r.1, r.2)
    else ([], .arrive b :: rest)
  | evs, _, _ => ([], evs)

def runEvents : Nat → List Ev → Triples → Triples → List String → List String
  | 0, _, _, _, acc => acc.reverse ++ ["fuel"]
  | _, [], pool, _, acc => (("pool=" ++ viewStr pool) :: acc).reverse
  | fuel + 1, .arrive b :: rest, pool, dst, acc => runEvents fuel rest (poolArrive pool b) dst acc
  | fuel + 1, .clear :: rest, pool, dst, acc => runEvents fuel rest pool dst.clear acc
  | fuel + 1, .get count :: rest, pool, dst, acc =>
    let need := (count + 63) / 64
    let (ticks, rest') := pullArrivals rest pool.words need
    match poolGet count ([] :: ticks ++ [[]]) 0 pool dst with
    | none => acc.reverse ++ ["blocked"]
    | some (pool', dst', _) => runEvents fuel rest' pool' dst' (("g=" ++ stateStr dst') :: acc)

/-! ### handlers -/

def splitC (s : String) : List String := s.splitOn ","

def handleRun (sizes nw nin nout gates xs rnd pools : String) : String :=
  match parseCircuit nw nin nout gates, (splitC sizes).mapM String.toNat? with
  | some c, some sizes =>
    let n := sizes.length
    let xsL := (splitC xs).map fun s => natOfBits (parseBits s)
    let rndL := ((splitC rnd).map fun s => natOfBits (parseBits s)).toArray
    match (splitC pools).mapM parseState' with
    | none => "bad-op"
    | some pl =>
      if xsL.length != n || rndL.size != n * n || pl.length != n then "bad-op" else
      let x := fun p => xsL.getD p 0
      let r := fun p q => rndL.getD (p * n + q) 0
      let pools := fun p => pl.getD p Triples.empty
      match run c sizes x r pools with
      | .unsupported => "unsupported"
      | .blocked => "blocked"
      | .ok ps outs =>
        let used := ",".intercalate (ps.map fun p => toString ((pools p.id).words - p.pool.words))
        let ws := ",".intercalate (ps.map fun p => storeStr p.wires)
        let os := ",".intercalate (outs.map bitsStr)
        s!"lv={levelDigest c};used={used};w={ws};o={os}"
  | _, _ => "bad-op"
where
  parseState' (s : String) : Option Triples :=
    match s.splitOn ":" with
    | [a, b, c] => do
      let a ← parseWords a
      some { words := a.size, a := a, b := ← parseWords b, c := ← parseWords c }
    | _ => none

/-! ### histories of `Run` calls on one Network (`Model/GmwHist.lean`) -/

/-- one call: `<sizes> <numWires> <nIn> <nOut> <gates> <x> <rnd>` -/
def parseCall (n : Nat) (sizes nw nin nout gates xs rnd : String) : Option Call :=
  match parseCircuit nw nin nout gates, (splitC sizes).mapM String.toNat? with
  | some c, some sizes =>
    let xsL := (splitC xs).map fun s => natOfBits (parseBits s)
    let rndL := ((splitC rnd).map fun s => natOfBits (parseBits s)).toArray
    if sizes.length != n || xsL.length != n || rndL.size != n * n then none else
    some { c := c, sizes := sizes, x := fun p => xsL.getD p 0, rnd := fun p q => rndL.getD (p * n + q) 0 }
  | _, _ => none

def parseCalls (n : Nat) : List String → Option (List Call)
  | [] => some []
  | a :: b :: c :: d :: e :: f :: g :: rest => do
    let k ← parseCall n a b c d e f g
    let ks ← parseCalls n rest
    some (k :: ks)
  | _ => none

/-- per call: level digest of ITS circuit, every party's complete wire store
(stale bits of earlier calls included) and every party's output -/
def histItems : List Call → List RunResult → List String
  | k :: ks, .ok ps outs :: rs =>
    let ws := ",".intercalate (ps.map fun p => storeStr p.wires)
    let os := ",".intercalate (outs.map bitsStr)
    s!"lv={levelDigest k.c};w={ws};o={os}" :: histItems ks rs
  | _, .unsupported :: _ => ["unsupported"]
  | _, .blocked :: _ => ["blocked"]
  | _, _ => []

/-- `hist <pools> <call>*`: the calls run one after the other on the state the
previous call left; after the last call the words every party has consumed. -/
def handleHist (pools : String) (rest : List String) : String :=
  match (splitC pools).mapM handleRun.parseState' with
  | none => "bad-op"
  | some pl =>
    let n := pl.length
    match parseCalls n rest with
    | none => "bad-op"
    | some ks =>
      let pools := fun p => pl.getD p Triples.empty
      let rs := runHist ks (fresh n pools)
      let items := histItems ks rs
      let used := match rs.getLast? with
        | some (.ok ps _) =>
          if rs.length == ks.length then
            ["used=" ++ ",".intercalate (ps.map fun p => toString ((pools p.id).words - p.pool.words))]
          else []
        | _ => []
      "|".intercalate (items ++ used)

/-! ### integer inputs (`Model/GmwInt.lean`): the op line carries, per party, the flattened members of its
argument as `<width>:<signed decimal>;...` - the `*big.Int` values handed to `IOArg.Parse` / `Network.Run` -/

def parseMember (s : String) : Option (Nat × Int) :=
  match s.splitOn ":" with
  | [w, v] => do some (← w.toNat?, ← v.toInt?)
  | _ => none

def parseArgVals (s : String) : Option ArgVals := (s.splitOn ";").mapM parseMember

def parseParties (s : String) : Option (Array ArgVals) := ((splitC s).mapM parseArgVals).map List.toArray

/-- `runi <sizes> <circuit> <ints> <rnd> <pools>`: `run` with the integer input layer (`Gmw.runArgs`). -/
def handleRunI (sizes nw nin nout gates ints rnd pools : String) : String :=
  match parseCircuit nw nin nout gates, (splitC sizes).mapM String.toNat?, parseParties ints with
  | some c, some sizes, some av =>
    let n := sizes.length
    let args := fun p => av.getD p []
    let rndL := ((splitC rnd).map fun s => natOfBits (parseBits s)).toArray
    match (splitC pools).mapM handleRun.parseState' with
    | none => "bad-op"
    | some pl =>
      if av.size != n || rndL.size != n * n || pl.length != n || argSizes n args != sizes then "bad-op" else
      let r := fun p q => rndL.getD (p * n + q) 0
      let pools := fun p => pl.getD p Triples.empty
      match runArgs c n args r pools with
      | .unsupported => "unsupported"
      | .blocked => "blocked"
      | .ok ps outs =>
        let used := ",".intercalate (ps.map fun p => toString ((pools p.id).words - p.pool.words))
        let ws := ",".intercalate (ps.map fun p => storeStr p.wires)
        let os := ",".intercalate (outs.map bitsStr)
        s!"lv={levelDigest c};used={used};w={ws};o={os}"
  | _, _, _ => "bad-op"

def parseCallI (n : Nat) (sizes nw nin nout gates ints rnd : String) : Option CallInt :=
  match parseCircuit nw nin nout gates, (splitC sizes).mapM String.toNat?, parseParties ints with
  | some c, some sizes, some av =>
    let args := fun p => av.getD p []
    let rndL := ((splitC rnd).map fun s => natOfBits (parseBits s)).toArray
    if sizes.length != n || av.size != n || rndL.size != n * n || argSizes n args != sizes then none else
    some { c := c, sizes := sizes, x := fun p => partyValue (args p), rnd := fun p q => rndL.getD (p * n + q) 0 }
  | _, _, _ => none

def parseCallsI (n : Nat) : List String → Option (List CallInt)
  | [] => some []
  | a :: b :: c :: d :: e :: f :: g :: rest => do
    let k ← parseCallI n a b c d e f g
    let ks ← parseCallsI n rest
    some (k :: ks)
  | _ => none

/-- `histi <pools> <call>*`: `hist` with integer inputs (`Gmw.runHistInt`). -/
def handleHistI (pools : String) (rest : List String) : String :=
  match (splitC pools).mapM handleRun.parseState' with
  | none => "bad-op"
  | some pl =>
    let n := pl.length
    match parseCallsI n rest with
    | none => "bad-op"
    | some ks =>
      let pools := fun p => pl.getD p Triples.empty
      let rs := runHistInt ks (fresh n pools)
      let items := histItems (ks.map CallInt.toCall) rs
      let used := match rs.getLast? with
        | some (.ok ps _) =>
          if rs.length == ks.length then
            ["used=" ++ ",".intercalate (ps.map fun p => toString ((pools p.id).words - p.pool.words))]
          else []
        | _ => []
      "|".intercalate (items ++ used)

/-- `lvli <sizes> <circuit> <ints>`: `lvl` with integer inputs: every party's output is `compute` on the members'
`Bit`s (`encodeArg`, the wire assignment of `Circuit.Compute`). -/
def handleLvlI (sizes nw nin nout gates ints : String) : String :=
  match parseCircuit nw nin nout gates, (splitC sizes).mapM String.toNat?, parseParties ints with
  | some c, some sz, some av =>
    let lv := c.assignLevels true
    let topo := if topoCheck c.numWires (c.gates.zip lv.1) then "1" else "0"
    if av.size != sz.length || argSizes sz.length (fun p => av.getD p []) != sz then "bad-op" else
    let o := bitsStr (c.computeFast (encodeArg av.toList.flatten))
    s!"lv={levelDigest c};topo={topo};o={",".intercalate (sz.map fun _ => o)}"
  | _, _, _ => "bad-op"

def handleTb (n words as bs ss rs ds : String) : String :=
  match n.toNat?, words.toNat?, (splitC as).mapM parseWords, (splitC bs).mapM parseWords,
      (splitC ss).mapM parseWords, (splitC rs).mapM parseWords with
  | some n, some words, some a, some b, some s, some r =>
    let d := ds.toList.toArray
    if a.length != n || b.length != n || s.length != n * n || r.length != n * n || d.size != n * n then "bad-op" else
    let sA := s.toArray
    let rA := r.toArray
    let I : BatchIn :=
      { a := fun p => a.getD p #[], b := fun p => b.getD p #[]
        s := fun p q => sA.getD (p * n + q) #[], r := fun p q => rA.getD (p * n + q) #[]
        delta := fun p q => d.getD (p * n + q) '0' == '1' }
    ",".intercalate ((List.range n).map fun p => wordsHex (tripleBatch n words I p).c words)
  | _, _, _, _, _, _ => "bad-op"

/-- `msgs <sizes> <words of every AND batch | -> <output-share bytes per party>`: bytes every party sends on its
online connections during the run = `sentBytes` of the model's message transcript (`Model/GmwMsgs.lean`). -/
def handleMsgs (sizes bw ol : String) : String :=
  let bwL := if bw == "-" then some [] else (splitC bw).mapM String.toNat?
  match (splitC sizes).mapM String.toNat?, bwL, (splitC ol).mapM String.toNat? with
  | some sz, some ws, some ol =>
    if ol.length != sz.length then "bad-op" else
    let t := transcript sz ws (fun p => ol.getD p 0)
    "s=" ++ ",".intercalate ((List.range sz.length).map fun p => toString (sentBytes t p))
  | _, _, _ => "bad-op"

def handle (args : List String) : String :=
  match args with
  | ["msgs", sizes, bw, ol] => handleMsgs sizes bw ol
  | ["run", sizes, nw, nin, nout, gates, xs, rnd, pools] => handleRun sizes nw nin nout gates xs rnd pools
  | "hist" :: pools :: rest => handleHist pools rest
  | ["runi", sizes, nw, nin, nout, gates, ints, rnd, pools] => handleRunI sizes nw nin nout gates ints rnd pools
  | "histi" :: pools :: rest => handleHistI pools rest
  | ["lvli", sizes, nw, nin, nout, gates, ints] => handleLvlI sizes nw nin nout gates ints
  | ["lvl", sizes, nw, nin, nout, gates, xs] => handleLvl sizes nw nin nout gates xs
  | ["tb", n, words, as, bs, ss, rs, ds] => handleTb n words as bs ss rs ds
  | ["app", dst, src, n] =>
    match parseState dst, parseState src, n.toNat? with
    | some dst, some src, some n =>
      if ¬ (dst.WF ∧ src.WF) then "panic" else
      let r := dst.append src n
      s!"ret={r.2.2};dst={stateStr r.1};src={stateStr r.2.1}"
    | _, _, _ => "bad-op"
  | ["pool", evs] =>
    match (splitC evs).mapM parseEv with
    | some evs => ";".intercalate (runEvents (evs.length + 1) evs Triples.empty Triples.empty [])
    | none => "bad-op"
  | ["bit", v, i] =>
    match parseWords v, i.toNat? with
    | some v, some i => if bit v i then "1" else "0"
    | _, _ => "bad-op"
  | ["setbit", v, i, b] =>
    match parseWords v, i.toNat? with
    | some v, some i => let w := setBit v i (b == "1"); wordsHex w w.size
    | _, _ => "bad-op"
  | ["xorv", r, v] =>
    match parseWords r, parseWords v with
    | some r, some v => if v.size > r.size then "panic" else let w := xorBitvec r v; wordsHex w w.size
    | _, _ => "bad-op"
  | ["exp", v, k] =>
    match parseWords v, k.toNat? with
    | some v, some k => let w := expand v k; wordsHex w w.size
    | _, _ => "bad-op"
  | ["expclr", v, k] =>
    match parseWords v, k.toNat? with
    | some v, some k => let w := expandClear v k; wordsHex w w.size
    | _, _ => "bad-op"
  | _ => "bad-op"

end Drv.C10

def main : IO Unit := Drv.mainLoop Drv.C10.handle

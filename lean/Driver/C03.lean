import Driver.Util
import MpcVerif.Model.Mpcl
import MpcVerif.Model.MpclPkg
import MpcVerif.Model.MpclSsa
import Driver.C03Backend
import Driver.C03Lower

/-!
Line-protocol handler of property C03.

`c03 <inputs> <program tokens...>`

`<inputs>` is `all` (every wire pattern of all `main` arguments, argument 0 in
the low bits of the counter) or `v,v;v,v;...` (hex wire patterns, one tuple per
evaluation).  The program is an S-expression whose tokens are separated by
blanks (so the argument list *is* the token list):

  type  T ::= b | i<w> | u<w> | ( A n T ) | ( S T* )
  expr  e ::= ( L T n ) | ( V x ) | ( B op e e ) | ( SH l|r e k ) | ( N e ) | ( M e )
            | ( C T e ) | ( I e e ) | ( F e k ) | ( K f e* )
  lval  l ::= ( x acc* )          acc ::= ( i e ) | ( f k )
  stmt  s ::= ( D x T ) | ( D x T e ) | ( DEF ( x* ) e ) | ( A ( l* ) e )
            | ( IF e ( s* ) ( s* ) ) | ( FOR i lo cmp hi step ( s* ) ) | ( R e* )
  func    ::= ( FN nres ( ( x T )* ) ( s* ) )
  prog    ::= ( P main func* )
            | ( PG main ( gdecl* ) func* )      package-level declarations (Model/MpclPkg.lean)
  gdecl   ::= ( G x T ) | ( G x T n )          `var x T` / `var x T = n`
            | ( GC x T n )                      `const x = n` / `const x T = n` (T: the type it is used at)

Result: per evaluation the outputs' wire patterns in hex joined by `,`,
evaluations joined by `;`; `E` for an evaluation on which the reference
semantics is undefined.
-/

namespace Drv.C03
open Mpc.Mpcl

inductive SExp where
  | atom (s : String)
  | list (xs : List SExp)
  deriving Inhabited

partial def parseList (toks : List String) (acc : List SExp) : Option (List SExp × List String) :=
  match toks with
  | [] => none
  | ")" :: r => some (acc.reverse, r)
  | "(" :: r =>
    match parseList r [] with
    | some (xs, r') => parseList r' (.list xs :: acc)
    | none => none
  | t :: r => parseList r (.atom t :: acc)

def parseSExp (toks : List String) : Option SExp :=
  match toks with
  | "(" :: r =>
    match parseList r [] with
    | some (xs, []) => some (.list xs)
    | _ => none
  | _ => none

def parseInt (s : String) : Option Int :=
  if s.startsWith "-" then (s.drop 1).toString.toNat?.map fun n => -(n : Int)
  else s.toNat?.map fun n => (n : Int)

partial def toTy : SExp → Option Ty
  | .atom "b" => some .bool
  | .atom s =>
    if s.startsWith "i" then (s.drop 1).toString.toNat?.map Ty.int
    else if s.startsWith "u" then (s.drop 1).toString.toNat?.map Ty.uint
    else none
  | .list [.atom "A", .atom n, t] => do some (.arr (← n.toNat?) (← toTy t))
  | .list (.atom "S" :: ts) => do some (.struct (← ts.mapM toTy))
  | _ => none

def toBinOp : String → Option BinOp
  | "add" => some .add | "sub" => some .sub | "mul" => some .mul | "div" => some .div
  | "mod" => some .mod | "and" => some .band | "or" => some .bor | "xor" => some .bxor
  | "clr" => some .bclr | "eq" => some .eq | "ne" => some .ne | "lt" => some .lt
  | "le" => some .le | "gt" => some .gt | "ge" => some .ge | "land" => some .land
  | "lor" => some .lor | _ => none

def toCmp : String → Option Cmp
  | "lt" => some .lt | "le" => some .le | "gt" => some .gt | "ge" => some .ge | "ne" => some .ne
  | _ => none

def atomStr : SExp → Option String
  | .atom s => some s
  | _ => none

partial def toExpr : SExp → Option Expr
  | .list [.atom "L", t, .atom n] => do some (.lit (← toTy t) (← n.toNat?))
  | .list [.atom "V", .atom x] => some (.var x)
  | .list [.atom "B", .atom op, a, b] => do some (.bin (← toBinOp op) (← toExpr a) (← toExpr b))
  | .list [.atom "SH", .atom d, a, .atom k] => do
    if d != "l" && d != "r" then none else some (.shift (d == "l") (← toExpr a) (← k.toNat?))
  | .list [.atom "N", a] => do some (.not (← toExpr a))
  | .list [.atom "M", a] => do some (.neg (← toExpr a))
  | .list [.atom "C", t, a] => do some (.cast (← toTy t) (← toExpr a))
  | .list [.atom "I", a, i] => do some (.idx (← toExpr a) (← toExpr i))
  | .list [.atom "F", a, .atom k] => do some (.fld (← toExpr a) (← k.toNat?))
  | .list (.atom "K" :: .atom f :: args) => do some (.call (← f.toNat?) (← args.mapM toExpr))
  | _ => none

def toAcc : SExp → Option Acc
  | .list [.atom "i", e] => (toExpr e).map Acc.idx
  | .list [.atom "f", .atom k] => k.toNat?.map Acc.fld
  | _ => none

def toLVal : SExp → Option LVal
  | .list (.atom x :: accs) => do some ⟨x, ← accs.mapM toAcc⟩
  | _ => none

partial def toStmt : SExp → Option Stmt
  | .list [.atom "D", .atom x, t] => do some (.decl x (← toTy t) none)
  | .list [.atom "D", .atom x, t, e] => do some (.decl x (← toTy t) (some (← toExpr e)))
  | .list [.atom "DEF", .list xs, e] => do some (.define (← xs.mapM atomStr) (← toExpr e))
  | .list [.atom "A", .list lvs, e] => do some (.assign (← lvs.mapM toLVal) (← toExpr e))
  | .list [.atom "IF", c, .list th, .list el] => do
    some (.ifte (← toExpr c) (← th.mapM toStmt) (← el.mapM toStmt))
  | .list [.atom "FOR", .atom i, .atom lo, .atom c, .atom hi, .atom st, .list body] => do
    some (.for i (← parseInt lo) (← toCmp c) (← parseInt hi) (← parseInt st) (← body.mapM toStmt))
  | .list (.atom "R" :: es) => do some (.ret (← es.mapM toExpr))
  | _ => none

def toParam : SExp → Option (String × Ty)
  | .list [.atom x, t] => (toTy t).map fun t => (x, t)
  | _ => none

def toFunc : SExp → Option Func
  | .list [.atom "FN", .atom n, .list ps, .list body] => do
    some ⟨← ps.mapM toParam, ← n.toNat?, ← body.mapM toStmt⟩
  | _ => none

def toProg : SExp → Option (Nat × Prog)
  | .list (.atom "P" :: .atom m :: fs) => do some (← m.toNat?, ← fs.mapM toFunc)
  | _ => none

def toGDecl : SExp → Option GDecl
  | .list [.atom "G", .atom x, t] => do some ⟨x, ← toTy t, none, false⟩
  | .list [.atom "G", .atom x, t, .atom n] => do some ⟨x, ← toTy t, some (← n.toNat?), false⟩
  | .list [.atom "GC", .atom x, t, .atom n] => do some ⟨x, ← toTy t, some (← n.toNat?), true⟩
  | _ => none

/-- A program with package-level declarations, elaborated (`Pkg.elab`); `none`
inside: outside the class `Pkg.ok` the model gives a meaning to. -/
def toPkgProg : SExp → Option (Nat × Option Prog)
  | .list (.atom "PG" :: .atom m :: .list gs :: fs) => do
    let main ← m.toNat?
    let pk : Pkg := ⟨← gs.mapM toGDecl, ← fs.mapM toFunc⟩
    some (main, if pk.ok main then some pk.elab else none)
  | e => (toProg e).map fun (m, P) => (m, some P)

def hexDigit (n : Nat) : Char :=
  if n < 10 then Char.ofNat (48 + n) else Char.ofNat (87 + n)

partial def hexOfNat (n : Nat) : String :=
  if n < 16 then String.singleton (hexDigit n) else hexOfNat (n / 16) ++ String.singleton (hexDigit (n % 16))

def hexVal (c : Char) : Option Nat :=
  if '0' ≤ c ∧ c ≤ '9' then some (c.toNat - 48)
  else if 'a' ≤ c ∧ c ≤ 'f' then some (c.toNat - 87)
  else none

def natOfHex (s : String) : Option Nat :=
  if s.isEmpty then none else
  s.toList.foldlM (fun acc c => (hexVal c).map fun d => acc * 16 + d) 0

/-- Large enough for every generated program (the interpreter spends one unit
per nesting level / statement / loop iteration, not per operation). -/
def fuel : Nat := 100000

def evalOne (P : Prog) (main : Nat) (args : List Nat) : String :=
  match runRaw P fuel main args with
  | some rs => ",".intercalate (rs.map fun (v, _) => hexOfNat v)
  | none => "E"

/-- Split a counter into the arguments' wire patterns (argument 0 lowest). -/
def splitCounter : List Nat → Nat → List Nat
  | [], _ => []
  | w :: ws, c => c % 2 ^ w :: splitCounter ws (c >>> w)

/-! ### SSA-level lines: `c03 SSA <inputs> ( SSA ( IN ( id bits )* ) step* )`
(grammar in harness/cmd/c03/ssadump.go), `c03 SSASKIP <reason>` -/

open Mpc.Mpcl.Ssa in
def toSOp : String → Option SOp
  | "iadd" => some .add | "uadd" => some .add | "isub" => some .sub | "usub" => some .sub
  | "imult" => some .mul | "umult" => some .mul | "udiv" => some .udiv | "umod" => some .umod
  | "idiv" => some .idiv | "imod" => some .imod | "band" => some .band | "bor" => some .bor
  | "bxor" => some .bxor | "bclr" => some .bclr | "concat" => some .concat | "lshift" => some .lshift
  | "rshift" => some .rshift | "srshift" => some .srshift | "slice" => some .slice | "index" => some .index
  | "ilt" => some .ilt | "ult" => some .ult | "ile" => some .ile | "ule" => some .ule
  | "igt" => some .igt | "ugt" => some .ugt | "ige" => some .ige | "uge" => some .uge
  | "eq" => some .eq | "neq" => some .neq | "and" => some .land | "or" => some .lor | "not" => some .lnot
  | "mov" => some .mov | "smov" => some .smov | "amov" => some .amov | "phi" => some .phi
  | "ret" => some .ret | _ => none

open Mpc.Mpcl.Ssa in
def toSArg : SExp → Option SArg
  | .list [.atom "v", .atom id, .atom b] => do some (.var (← id.toNat?) (← b.toNat?))
  | .list [.atom "c", .atom v, .atom own, .atom al, .atom sg, .atom b] => do
    some (.const (← natOfHex v) (← own.toNat?) (← al.toNat?) (sg == "s") (← b.toNat?))
  | .list [.atom "p", .atom v, .atom b] => do some (.pat (← natOfHex v) (← b.toNat?))
  | .list [.atom "k", .atom n] => do some (.k (← n.toNat?))
  | _ => none

def toIdBits : SExp → Option (Nat × Nat)
  | .list [.atom id, .atom b] => do some (← id.toNat?, ← b.toNat?)
  | _ => none

open Mpc.Mpcl.Ssa in
def toSInstr : SExp → Option SInstr
  | .list [.atom op, .list args, out] => do
    let o ← toSOp op
    let as ← args.mapM toSArg
    match out with
    | .atom "-" => some ⟨o, as, none⟩
    | e => some ⟨o, as, some (← toIdBits e)⟩
  | _ => none

open Mpc.Mpcl.Ssa in
def toSsa : SExp → Option (List (Nat × Nat) × List SInstr)
  | .list (.atom "SSA" :: .list (.atom "IN" :: ins) :: steps) => do
    some (← ins.mapM toIdBits, ← steps.mapM toSInstr)
  | _ => none

open Mpc.Mpcl.Ssa in
def ssaOne (ins : List (Nat × Nat)) (steps : List SInstr) (args : List Nat) : String :=
  match ssaEval (Array Nat) ins steps args with
  | some rs => ",".intercalate (rs.map fun (v, _) => hexOfNat v)
  | none => "E"

def inputTuples (inp : String) (ws : List Nat) : Option (List (List Nat)) :=
  if inp == "all" then
    let total := ws.foldl (· + ·) 0
    if total > 20 then none else some ((List.range (2 ^ total)).map fun c => splitCounter ws c)
  else (inp.splitOn ";").mapM fun t => (t.splitOn ",").mapM natOfHex

def handleSsa (inp : String) (toks : List String) : String :=
  match (parseSExp toks).bind toSsa with
  | none => "bad-ssa"
  | some (ins, steps) =>
    match inputTuples inp (ins.map (·.2)) with
    | none => "bad-input"
    | some tuples => ";".intercalate (tuples.map (ssaOne ins steps))

def handle (args : List String) : String :=
  match args with
  | "SSASKIP" :: _ => "skip"
  | "BACKEND" :: g :: mx :: toks => Drv.C03Backend.handle ((parseSExp toks).bind toSsa) g mx
  | "SSA" :: inp :: toks => handleSsa inp toks
  | "LOWERREJ" :: toks => Drv.C03Lower.rej ((parseSExp toks).bind toProg)
  | "LOWER" :: inp :: toks => match parseSExp toks with  -- tie of Ssa.lower to the real ssagen (Driver/C03Lower.lean)
    | some (.list [.atom "LOWER", p, s]) => Drv.C03Lower.run (toProg p) (toSsa s) (inputTuples inp)
    | _ => "bad-lower"
  | inp :: toks =>
    match (parseSExp toks).bind toPkgProg with
    | none => "bad-program"
    | some (_, none) => "bad-package"
    | some (main, some P) =>
      match P[main]? with
      | none => "bad-program"
      | some fn =>
        match inputTuples inp (fn.params.map fun p => p.2.bits) with
        | none => "bad-input"
        | some tuples => ";".intercalate (tuples.map (evalOne P main))
  | _ => "bad-op"

end Drv.C03

def main : IO Unit := Drv.mainLoop Drv.C03.handle

import Driver.Util

namespace Drv.C03

/-- Line-protocol handler of property C03 (stub). -/
def handle (_args : List String) : String := "bad-op"

end Drv.C03

def main : IO Unit := Drv.mainLoop Drv.C03.handle

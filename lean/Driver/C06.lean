import Driver.Util

namespace Drv.C06

/-- Line-protocol handler of property C06 (stub). -/
def handle (_args : List String) : String := "bad-op"

end Drv.C06

def main : IO Unit := Drv.mainLoop Drv.C06.handle

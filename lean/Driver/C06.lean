import Driver.Util
import MpcVerif.Model.Iknp
import MpcVerif.Model.IknpBuf
import MpcVerif.Model.Cot
import MpcVerif.Model.CoBytes
import MpcVerif.Model.RsaOtBytes

namespace Drv.C06
open Mpc Drv Mpc.Iknp

def hexDigit (n : Nat) : Char := if n < 10 then Char.ofNat (48 + n) else Char.ofNat (87 + n)

def hexBytes (b : Bytes) : String :=
  b.foldl (fun s x => (s.push (hexDigit (x.toNat / 16))).push (hexDigit (x.toNat % 16))) ""

def chunksHex (cs : List Bytes) : String :=
  if cs.isEmpty then "-" else ",".intercalate (cs.map fun c => if c.size = 0 then "." else hexBytes c)

def labelsHex (ls : List Label) : String :=
  if ls.isEmpty then "-" else String.join (ls.map hex128)

def wordHex (w : BitVec 64) : String := Id.run do
  let mut s := ""
  for i in [0:16] do
    s := s.push (hexDigit ((w.toNat >>> (4 * (15 - i))) % 16))
  return s

def wordsHex (ws : Words) : String :=
  if ws.size = 0 then "-" else String.join (ws.toList.map wordHex)

def toBytes (b : ByteArray) : Bytes := mk b.size fun k => BitVec.ofNat 8 (b[k]!).toNat

def parseWords (s : String) : Option Words :=
  if s == "-" then some #[] else do
    let b ← Aes.bytesOfHex s
    if b.size % 8 ≠ 0 then none else
    some (mk (b.size / 8) fun i => Id.run do
      let mut n := 0
      for t in [0:8] do
        n := (n <<< 8) ||| (b[8 * i + t]!).toNat
      return BitVec.ofNat 64 n)

/-- Key-stream bytes consumed per column by a call with `n` rows. -/
def colBytes (n : Nat) : Nat := (n / 512) * 64 + ((n % 512) + 7) / 8

/-- AES-CTR key stream (zero IV) of an `ot.Label` key: `newPrg`. -/
def stream (key : ByteArray) (ofs : Nat) (total : Nat) : Bytes :=
  match Aes.Cipher.new (key.extract ofs (ofs + 16)) with
  | none => #[]
  | some c => toBytes (Aes.ctrStream c 0#128 total)

inductive Batch where
  | labels (mal : Bool) (n : Nat) (b : Array Bool)
  | bits (n : Nat) (ch : Words)

def Batch.cols : Batch → Nat
  | .labels mal n _ => colBytes n + (if mal then 32 else 0)
  | .bits n _ => colBytes n

def parseBatch (s : String) : Option Batch := do
  let kind ← s.toList.head?
  match ((s.drop 1).toString.splitOn ":") with
  | [n, payload] =>
    let n ← n.toNat?
    if kind == 'B' then
      some (.bits n (← parseWords payload))
    else if kind == 'L' || kind == 'M' then
      let b := (parseBits payload).toArray
      if b.size ≠ n then none else some (.labels (kind == 'M') n b)
    else none
  | _ => none

structure St where
  rs : RecvSt
  ss : SendSt
  rpos : Nat   -- read position on the receiver's random tape

/-- One call on the pair (`Iknp.runCall`, the function the theorems of
Props/C06.lean are about); `none` = the model takes an error branch. -/
def runBatch (R0 R1 SS : Nat → Nat → Byte) (delta : Label) (rtape : ByteArray) (st : St) :
    Batch → Option (St × String)
  | .labels false _ b =>
    match runCall R0 R1 SS delta st.rs st.ss (.labels false b 0#128 0#128) with
    | some (rs', ss', o, u) =>
      some ({ st with rs := rs', ss := ss' }, s!"L:u={chunksHex u}/s={labelsHex o.sentL}/r={labelsHex o.rcvdL}")
    | none => none
  | .labels true _ b =>
    if rtape.size < st.rpos + 48 then none else
    let b0 := label128 rtape st.rpos
    let b1 := label128 rtape (st.rpos + 16)
    match runCall R0 R1 SS delta st.rs st.ss (.labels true b b0 b1) with
    | some (rs', ss', o, u) =>
      some ({ rs := rs', ss := ss', rpos := st.rpos + 48 },
        s!"M:u={chunksHex u}/s={labelsHex o.sentL}/r={labelsHex o.rcvdL}")
    | none => none
  | .bits n ch =>
    match runCall R0 R1 SS delta st.rs st.ss (.bits n ch) with
    | some (rs', ss', o, u) =>
      some ({ st with rs := rs', ss := ss' }, s!"B:u={chunksHex u}/s={wordsHex o.sentW}/r={wordsHex o.rcvdW}")
    | none => none

def runBatches (R0 R1 SS : Nat → Nat → Byte) (delta : Label) (rtape : ByteArray) :
    St → List Batch → Option (List String)
  | _, [] => some []
  | st, b :: bs =>
    match runBatch R0 R1 SS delta rtape st b with
    | none => none
    | some (st', s) => (runBatches R0 R1 SS delta rtape st' bs).map (s :: ·)

/-- Streams of an initialised pair from the two random tapes: the receiver's
`wires[i].L0/L1` are the first 256 labels of its tape, `Delta` the first label
of the sender's; the (ideal) base OT hands the sender `L_{Delta.Bit(i)}`. -/
structure Pair where
  delta : Label
  r0 : Array Bytes
  r1 : Array Bytes

def Pair.R0 (p : Pair) (i pos : Nat) : Byte := bget (p.r0.getD i #[]) pos
def Pair.R1 (p : Pair) (i pos : Nat) : Byte := bget (p.r1.getD i #[]) pos
def Pair.SS (p : Pair) (i pos : Nat) : Byte := if labelBit p.delta i then p.R1 i pos else p.R0 i pos

def mkPair (stape rtape : ByteArray) (total : Nat) : Option Pair :=
  if stape.size < 16 || rtape.size < 2 * K * 16 then none else
  some { delta := label128 stape 0,
         r0 := mk K fun i => stream rtape (32 * i) total,
         r1 := mk K fun i => stream rtape (32 * i + 16) total }

/-- `iknp <base> <transport> <stape> <rtape> <batches>` -/
def handleIknp (stape rtape batches : String) : String :=
  match Aes.bytesOfHex stape, Aes.bytesOfHex rtape, (batches.splitOn ";").mapM parseBatch with
  | some stape, some rtape, some bs =>
    let total := (bs.map Batch.cols).foldl (· + ·) 0
    match mkPair stape rtape total with
    | none => "error"
    | some p =>
      match runBatches p.R0 p.R1 p.SS p.delta rtape ⟨RecvSt.init, SendSt.init, 2 * K * 16⟩ bs with
      | none => "error"
      | some outs => ";".intercalate outs
  | _, _, _ => "bad-op"

/-! ### IKNP histories with named output buffers (`Iknp.runCallB`) -/

/-- What the party's long-lived array is overwritten with before a call. -/
inductive Pre where
  | keep
  | fill (b : Nat)
  | rand (key : ByteArray)

structure BufSpec where
  fresh : Bool := true
  pre : Pre := .keep
  off : Nat := 0
  extra : Nat := 0

/-- `-` | `<pre>@<off>+<extra>` with `<pre>` = `k` | `f<2 hex>` | `r<32 hex>`. -/
def parseBuf (s : String) : Option BufSpec :=
  if s == "-" then some {} else
  match s.splitOn "@" with
  | [pre, rest] =>
    match rest.splitOn "+" with
    | [off, extra] => do
      let off ← off.toNat?
      let extra ← extra.toNat?
      let tag ← pre.toList.head?
      let arg := (pre.drop 1).toString
      let pre ← (if tag == 'k' then (if arg == "" then some Pre.keep else none)
        else if tag == 'f' then (do
          let b ← Aes.bytesOfHex arg
          if b.size ≠ 1 then none else some (Pre.fill (b[0]!).toNat))
        else if tag == 'r' then (do
          let b ← Aes.bytesOfHex arg
          if b.size ≠ 16 then none else some (Pre.rand b))
        else none)
      some { fresh := false, pre := pre, off := off, extra := extra }
    | _ => none
  | _ => none

/-- The bytes an array of `nbytes` bytes is overwritten with. -/
def preBytes (p : Pre) (nbytes : Nat) : Option ByteArray :=
  match p with
  | .keep => none
  | .fill b => some (ByteArray.mk (Array.replicate nbytes (UInt8.ofNat b)))
  | .rand key =>
    match Aes.Cipher.new key with
    | none => some (ByteArray.mk (Array.replicate nbytes 0))
    | some c => some (Aes.ctrStream c 0#128 nbytes)

def word64 (b : ByteArray) (ofs : Nat) : BitVec 64 := Id.run do
  let mut n := 0
  for t in [0:8] do
    n := (n <<< 8) ||| (b[ofs + t]!).toNat
  return BitVec.ofNat 64 n

def BufSpec.srcL (b : BufSpec) (al : Nat) : BufSrc Label :=
  if b.fresh then .fresh else
  .arena ((preBytes b.pre (16 * al)).map fun bs => Iknp.mk al fun i => label128 bs (16 * i)) b.off b.extra

def BufSpec.srcW (b : BufSpec) (aw : Nat) : BufSrc (BitVec 64) :=
  if b.fresh then .fresh else
  .arena ((preBytes b.pre (8 * aw)).map fun bs => Iknp.mk aw fun i => word64 bs (8 * i)) b.off b.extra

inductive BatchB where
  | labels (mal : Bool) (n : Nat) (b : Array Bool) (buf : BufSpec)
  | bits (n : Nat) (ch : Words) (rbuf sbuf : BufSpec)

def BatchB.cols : BatchB → Nat
  | .labels mal n _ _ => colBytes n + (if mal then 32 else 0)
  | .bits n _ _ _ => colBytes n

def parseBatchB (s : String) : Option BatchB := do
  let kind ← s.toList.head?
  match ((s.drop 1).toString.splitOn ":") with
  | [n, payload, buf] =>
    let n ← n.toNat?
    if kind == 'L' || kind == 'M' then
      let b := (parseBits payload).toArray
      if b.size ≠ n then none else some (.labels (kind == 'M') n b (← parseBuf buf))
    else none
  | [n, payload, rbuf, sbuf] =>
    let n ← n.toNat?
    if kind == 'B' then some (.bits n (← parseWords payload) (← parseBuf rbuf) (← parseBuf sbuf)) else none
  | _ => none

structure StB where
  rs : RecvSt
  ss : SendSt
  rpos : Nat
  ar : Arena

/-- One call of a history (`Iknp.runCallB` with `Store.assign` and `BitStore.write`, the function
`C06_iknp_history_buffers` is about). -/
def runBatchB (R0 R1 SS : Nat → Nat → Byte) (delta : Label) (rtape : ByteArray) (al aw : Nat) (st : StB) :
    BatchB → Option (StB × String)
  | .labels mal _ b buf =>
    if mal && rtape.size < st.rpos + 48 then none else
    let b0 := if mal then label128 rtape st.rpos else 0#128
    let b1 := if mal then label128 rtape (st.rpos + 16) else 0#128
    match runCallB Store.assign .write R0 R1 SS delta st.rs st.ss st.ar (.labels mal b b0 b1 (buf.srcL al)) with
    | some (rs', ss', ar', o, u) =>
      some ({ rs := rs', ss := ss', rpos := if mal then st.rpos + 48 else st.rpos, ar := ar' },
        s!"{if mal then "M" else "L"}:u={chunksHex u}/s={labelsHex o.out.sentL}/r={labelsHex o.out.rcvdL}")
    | none => none
  | .bits n ch rbuf sbuf =>
    match runCallB Store.assign .write R0 R1 SS delta st.rs st.ss st.ar (.bits n ch (rbuf.srcW aw) (sbuf.srcW aw)) with
    | some (rs', ss', ar', o, u) =>
      some ({ st with rs := rs', ss := ss', ar := ar' },
        s!"B:u={chunksHex u}/s={wordsHex o.out.sentW}/r={wordsHex o.out.rcvdW}")
    | none => none

def runBatchesB (R0 R1 SS : Nat → Nat → Byte) (delta : Label) (rtape : ByteArray) (al aw : Nat) :
    StB → List BatchB → Option (List String)
  | _, [] => some []
  | st, b :: bs =>
    match runBatchB R0 R1 SS delta rtape al aw st b with
    | none => none
    | some (st', s) => (runBatchesB R0 R1 SS delta rtape al aw st' bs).map (s :: ·)

/-- `iknpb <base> <transport> <stape> <rtape> <arenaLabels> <arenaWords> <batches>` -/
def handleIknpB (stape rtape al aw batches : String) : String :=
  match Aes.bytesOfHex stape, Aes.bytesOfHex rtape, al.toNat?, aw.toNat?, (batches.splitOn ";").mapM parseBatchB with
  | some stape, some rtape, some al, some aw, some bs =>
    let total := (bs.map BatchB.cols).foldl (· + ·) 0
    match mkPair stape rtape total with
    | none => "error"
    | some p =>
      match runBatchesB p.R0 p.R1 p.SS p.delta rtape al aw
          ⟨RecvSt.init, SendSt.init, 2 * K * 16, ⟨zerosL al, zerosW aw, zerosW aw⟩⟩ bs with
      | none => "error"
      | some outs => ";".intercalate outs
  | _, _, _, _, _ => "bad-op"

/-! ### COT / ROT -/

open Mpc.Cot in
def aesPi (key x : Label) : Label :=
  match Aes.Cipher.new (Aes.bytesOfNat128 key.toNat) with
  | none => 0#128
  | some c => c.encrypt128 x

def parseLabels (s : String) : Option (Array Label) :=
  if s == "-" then some #[] else do
    let b ← Aes.bytesOfHex s
    if b.size % 16 ≠ 0 then none else some (mk (b.size / 16) fun i => label128 b (16 * i))

structure CBatch where
  flags : Array Bool
  wires : Array Cot.Wire

def parseCBatch (s : String) : Option CBatch :=
  match s.splitOn ":" with
  | [f, w] => do
    let ls ← parseLabels w
    let flags := (parseBits f).toArray
    some { flags := flags, wires := mk flags.size fun i => (Cot.lget ls (2 * i), Cot.lget ls (2 * i + 1)) }
  | _ => none

def wiresHex (ws : Array Cot.Wire) : String :=
  if ws.size = 0 then "-" else String.join (ws.toList.map fun w => hex128 w.1 ++ hex128 w.2)

structure CSt where
  rs : RecvSt
  ss : SendSt
  rpos : Nat
  spos : Nat

def runCBatch (rot mal : Bool) (p : Pair) (stape rtape : ByteArray) (st : CSt) (b : CBatch) :
    Option (CSt × String) :=
  let n := b.flags.size
  -- IKNP phase
  let iknp : Option (RecvSt × SendSt × List Label × List Label × List Bytes × Nat) :=
    if mal then
      if rtape.size < st.rpos + 48 then none else
      let r := receiveMal p.R0 p.R1 st.rs b.flags (label128 rtape st.rpos) (label128 rtape (st.rpos + 16))
      match sendMal p.SS p.delta st.ss n r.2.2 with
      | some (ss', sent, []) => some (r.1, ss', sent, r.2.1, r.2.2, st.rpos + 48)
      | _ => none
    else
      let r := receive p.R0 p.R1 st.rs b.flags
      match send p.SS p.delta st.ss n r.2.2 with
      | some (ss', sent, []) => some (r.1, ss', sent, r.2.1, r.2.2, st.rpos)
      | _ => none
  match iknp with
  | none => none
  | some (rs', ss', data, rcvd, u, rpos') =>
    if stape.size < st.spos + 16 then none else
    let seed := label128 stape st.spos
    let st' : CSt := { rs := rs', ss := ss', rpos := rpos', spos := st.spos + 16 }
    if rot then
      match Cot.rotSend aesPi p.delta seed data.toArray b.wires, Cot.rotRecv aesPi seed b.flags rcvd.toArray with
      | some w, some out =>
        some (st', s!"u={chunksHex u}/c={hex128 seed}/w={wiresHex w}/r={labelsHex out.toList}")
      | _, _ => none
    else
      match Cot.cotSend aesPi p.delta seed data.toArray b.wires with
      | none => none
      | some cts =>
        match Cot.cotRecv aesPi seed b.flags rcvd.toArray cts with
        | none => none
        | some out => some (st', s!"u={chunksHex u}/c={hex128 seed}{String.join (cts.map hex128)}/w=-/r={labelsHex out.toList}")

def runCBatches (rot mal : Bool) (p : Pair) (stape rtape : ByteArray) : CSt → List CBatch → Option (List String)
  | _, [] => some []
  | st, b :: bs =>
    match runCBatch rot mal p stape rtape st b with
    | none => none
    | some (st', s) => (runCBatches rot mal p stape rtape st' bs).map (s :: ·)

/-- `cot <c|r> <mal> <base> <transport> <stape> <rtape> <batches>` -/
def handleCot (kind mal stape rtape batches : String) : String :=
  match Aes.bytesOfHex stape, Aes.bytesOfHex rtape, (batches.splitOn ";").mapM parseCBatch with
  | some stape, some rtape, some bs =>
    let mal := mal == "1"
    let total := (bs.map fun b => colBytes b.flags.size + (if mal then 32 else 0)).foldl (· + ·) 0
    match mkPair stape rtape total with
    | none => "error"
    | some p =>
      match runCBatches (kind == "r") mal p stape rtape ⟨RecvSt.init, SendSt.init, 2 * K * 16, 16⟩ bs with
      | none => "error"
      | some outs => ";".intercalate outs
  | _, _, _ => "bad-op"

/-! ### COT / ROT histories with named result buffers -/

structure CBatchB where
  flags : Array Bool
  wires : Array Cot.Wire
  buf : BufSpec

def parseCBatchB (s : String) : Option CBatchB :=
  match s.splitOn ":" with
  | [f, w, buf] => do
    let ls ← parseLabels w
    let flags := (parseBits f).toArray
    some { flags := flags, wires := mk flags.size fun i => (Cot.lget ls (2 * i), Cot.lget ls (2 * i + 1)),
           buf := (← parseBuf buf) }
  | _ => none

structure CStB where
  st : CSt
  arena : Array Label

/-- One COT/ROT batch whose `Receive(flags, result)` gets the named slice: the
IKNP phase writes it (`Iknp.receiveAt` / `receiveMalAt`), the MITCCRH phase
reads it and overwrites it with the outputs. -/
def runCBatchB (rot mal : Bool) (p : Pair) (stape rtape : ByteArray) (al : Nat) (s : CStB) (b : CBatchB) :
    Option (CStB × String) :=
  let st := s.st
  let n := b.flags.size
  match (b.buf.srcL al).resolve 0#128 s.arena n with
  | none => none
  | some (a, off, len) =>
  let win := window 0#128 a off len
  let iknp : Option (RecvSt × SendSt × List Label × Array Label × List Bytes × Nat) :=
    if mal then
      if rtape.size < st.rpos + 48 then none else
      match receiveMalAt Store.assign p.R0 p.R1 st.rs b.flags (label128 rtape st.rpos) (label128 rtape (st.rpos + 16)) win with
      | none => none
      | some r =>
        match sendMal p.SS p.delta st.ss n r.2.2 with
        | some (ss', sent, []) => some (r.1, ss', sent, r.2.1, r.2.2, st.rpos + 48)
        | _ => none
    else
      match receiveAt Store.assign p.R0 p.R1 st.rs b.flags win with
      | none => none
      | some r =>
        match send p.SS p.delta st.ss n r.2.2 with
        | some (ss', sent, []) => some (r.1, ss', sent, r.2.1, r.2.2, st.rpos)
        | _ => none
  match iknp with
  | none => none
  | some (rs', ss', data, rcvd, u, rpos') =>
    if stape.size < st.spos + 16 then none else
    let seed := label128 stape st.spos
    let st' : CSt := { rs := rs', ss := ss', rpos := rpos', spos := st.spos + 16 }
    let fin (out : Array Label) : CStB := { st := st', arena := (b.buf.srcL al).commit 0#128 s.arena a off out }
    if rot then
      match Cot.rotSend aesPi p.delta seed data.toArray b.wires, Cot.rotRecv aesPi seed b.flags rcvd with
      | some w, some out =>
        some (fin out, s!"u={chunksHex u}/c={hex128 seed}/w={wiresHex w}/r={labelsHex out.toList}")
      | _, _ => none
    else
      match Cot.cotSend aesPi p.delta seed data.toArray b.wires with
      | none => none
      | some cts =>
        match Cot.cotRecv aesPi seed b.flags rcvd cts with
        | none => none
        | some out => some (fin out, s!"u={chunksHex u}/c={hex128 seed}{String.join (cts.map hex128)}/w=-/r={labelsHex out.toList}")

def runCBatchesB (rot mal : Bool) (p : Pair) (stape rtape : ByteArray) (al : Nat) :
    CStB → List CBatchB → Option (List String)
  | _, [] => some []
  | st, b :: bs =>
    match runCBatchB rot mal p stape rtape al st b with
    | none => none
    | some (st', s) => (runCBatchesB rot mal p stape rtape al st' bs).map (s :: ·)

/-- `cotb <c|r> <mal> <base> <transport> <stape> <rtape> <arenaLabels> <batches>` -/
def handleCotB (kind mal stape rtape al batches : String) : String :=
  match Aes.bytesOfHex stape, Aes.bytesOfHex rtape, al.toNat?, (batches.splitOn ";").mapM parseCBatchB with
  | some stape, some rtape, some al, some bs =>
    let mal := mal == "1"
    let total := (bs.map fun b => colBytes b.flags.size + (if mal then 32 else 0)).foldl (· + ·) 0
    match mkPair stape rtape total with
    | none => "error"
    | some p =>
      match runCBatchesB (kind == "r") mal p stape rtape al
          ⟨⟨RecvSt.init, SendSt.init, 2 * K * 16, 16⟩, zerosL al⟩ bs with
      | none => "error"
      | some outs => ";".intercalate outs
  | _, _, _, _ => "bad-op"

/-- `mitccrh <seed> <batchSize> <k.h.labels;...>` -/
def handleMitccrh (seed bsz calls : String) : String :=
  match parseLabels seed, bsz.toNat? with
  | some sd, some bsz =>
    let rec go (m : Cot.Mitccrh) : List String → Option (List String)
      | [] => some []
      | c :: cs =>
        match c.splitOn "." with
        | [k, h, ls] =>
          match k.toNat?, h.toNat?, parseLabels ls with
          | some k, some h, some blks =>
            match m.hash aesPi blks k h with
            | none => none
            | some (m', out) => (go m' cs).map (labelsHex out.toList :: ·)
          | _, _, _ => none
        | _ => none
    match go (Cot.Mitccrh.new (Cot.lget sd 0) bsz) (calls.splitOn ";") with
    | none => "error"
    | some outs => ";".intercalate outs
  | _, _ => "bad-op"

/-- `cobytes <stape> <rtape> <flags:wires;...>`: the byte-level Chou-Orlandi
session on P-256 (`CoBytes.session`): both byte streams and the receiver's
labels. -/
def handleCoBytes (stape rtape batches : String) : String :=
  match Aes.bytesOfHex stape, Aes.bytesOfHex rtape, (batches.splitOn ";").mapM parseCBatch with
  | some stape, some rtape, some bs =>
    let r := CoBytes.session stape rtape (bs.map fun b => { flags := b.flags, wires := b.wires })
    let head := s!"S={Aes.hexOfBytes r.1.s2r};R={if r.1.r2s.size = 0 then "-" else Aes.hexOfBytes r.1.r2s}"
    if r.2 then head ++ ";ok=" ++ ",".intercalate (r.1.outs.map labelsHex) else head ++ ";err"
  | _, _, _ => "bad-op"

/-! ### RSA OT: the integers and byte strings of every transfer -/

/-- Big-endian value of a byte array (`big.Int.SetBytes`). -/
def natOfBA (b : ByteArray) : Nat := b.foldl (fun acc x => acc * 256 + x.toNat) 0

/-- Hex of an even-length string, `-` = empty. -/
def hexOpt (s : String) : Option ByteArray := if s == "-" then some ByteArray.empty else Aes.bytesOfHex s

def octetsHex (bs : RsaOt.Octets) : String :=
  if bs.isEmpty then "-" else String.ofList (bs.flatMap fun b => [hexDigit (b / 16), hexDigit (b % 16)])

/-- `hex(n.Bytes())`. -/
def natHex (n : Nat) : String := octetsHex (RsaOt.natBytes n)

/-- `bit,m0,m1,x0,x1,k[,rejected candidates]` (the last field only concerns how
`rand.Int` is fed: ignored). -/
def parseXfer (s : String) : Option RsaOt.XferIn :=
  match s.splitOn "," with
  | bit :: m0 :: m1 :: x0 :: x1 :: k :: _ => do
    let m0 ← hexOpt m0
    let m1 ← hexOpt m1
    let x0 ← hexOpt x0
    let x1 ← hexOpt x1
    let k ← hexOpt k
    if bit != "0" && bit != "1" then none else
    some { bit := bit == "1", m0 := m0.toList.map (·.toNat), m1 := m1.toList.map (·.toNat),
           x0 := natOfBA x0, x1 := natOfBA x1, k := natOfBA k }
  | _ => none

/-- Transfers of one batch until the first one that does not deliver. -/
def runXfers (N e d size : Nat) : List RsaOt.XferIn → List String
  | [] => []
  | t :: ts =>
    match RsaOt.xferX N e d size t with
    | none => [s!"v={natHex (RsaOt.receiverVX N e (if t.bit then t.x1 else t.x0) t.k)}/S"]
    | some (w, out) =>
      let head := s!"v={natHex w.v}/m0={natHex w.m0p}/m1={natHex w.m1p}/out="
      match out with
      | .ok m => (head ++ octetsHex m) :: runXfers N e d size ts
      | .err => [head ++ "E"]
      | .panic => [head ++ "P"]

/-- `rsa <api> <keysrc> <bits> <size> <N> <e> <d> <transfers>`: a batch of `RSA.Send` /
`RSA.Receive` (api `proto`) or single transfers of `SenderXfer` / `ReceiverXfer`
(api `xfer`) on one key, all randomness in the op line.  Per transfer
`v=<v.Bytes()>/m0=<m0'.Bytes()>/m1=<m1'.Bytes()>/out=<message | E | P>`
(`E` error return, `P` panic; the batch stops there), `v=../S` = the sender's
`NewEncryptionBlock` fails. -/
def handleRsa (size N e d xfers : String) : String :=
  match size.toNat?, Aes.bytesOfHex N, e.toNat?, Aes.bytesOfHex d with
  | some size, some N, some e, some d =>
    match (xfers.splitOn ";").mapM parseXfer with
    | none => "bad-op"
    | some ts => ";".intercalate (runXfers (natOfBA N) e (natOfBA d) size ts)
  | _, _, _, _ => "bad-op"

/-- `rsamodn ...`: the same batch with the mod-`N` SENDER (`RsaOt.wireModN`, not
the code of /repo): only used to show on which transfers the two differ. -/
def handleRsaModN (size N e d xfers : String) : String :=
  match size.toNat?, Aes.bytesOfHex N, e.toNat?, Aes.bytesOfHex d with
  | some size, some N, some e, some d =>
    match (xfers.splitOn ";").mapM parseXfer with
    | none => "bad-op"
    | some ts => ";".intercalate (ts.map fun t =>
        match RsaOt.xferX (natOfBA N) e (natOfBA d) size t, RsaOt.xferModNX (natOfBA N) e (natOfBA d) size t with
        | some (w, o), some (w', o') => if w == w' && o == o' then "same" else "differs"
        | _, _ => "S")
  | _, _, _, _ => "bad-op"

/-- Line-protocol handler of property C06. -/
def handle (args : List String) : String :=
  match args with
  | ["iknp", _base, _transport, stape, rtape, batches] => handleIknp stape rtape batches
  | ["iknpb", _base, _transport, stape, rtape, al, aw, batches] => handleIknpB stape rtape al aw batches
  | ["cot", kind, mal, _base, _transport, stape, rtape, batches] => handleCot kind mal stape rtape batches
  | ["cotb", kind, mal, _base, _transport, stape, rtape, al, batches] => handleCotB kind mal stape rtape al batches
  | ["mitccrh", seed, bsz, calls] => handleMitccrh seed bsz calls
  | ["cobytes", stape, rtape, batches] => handleCoBytes stape rtape batches
  | ["rsa", _api, _keysrc, _bits, size, n, e, d, xfers] => handleRsa size n e d xfers
  | ["rsamodn", _api, _keysrc, _bits, size, n, e, d, xfers] => handleRsaModN size n e d xfers
  | _ => "bad-op"

end Drv.C06

def main : IO Unit := Drv.mainLoop Drv.C06.handle

import Driver.Util

namespace Drv.C05

/-- Line-protocol handler of property C05 (stub). -/
def handle (_args : List String) : String := "bad-op"

end Drv.C05

def main : IO Unit := Drv.mainLoop Drv.C05.handle

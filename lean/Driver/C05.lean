import Driver.Util
import MpcVerif.Model.Gc
import MpcVerif.Model.Stream

namespace Drv.C05
open Mpc Drv Mpc.Gc

/-! ### `gc` / `gco`: Program.GC pass and wire-allocator trace -/

def parseOp (s : String) : Gc.Op :=
  match s with
  | "concat" => .concat | "lshift" => .lshift | "rshift" => .rshift | "srshift" => .srshift
  | "slice" => .slice | "mov" => .mov | "smov" => .smov | "amov" => .amov
  | "ret" => .ret | "gc" => .gc
  | _ => .circ

def opName : Gc.Op → String
  | .concat => "concat" | .lshift => "lshift" | .rshift => "rshift" | .srshift => "srshift"
  | .slice => "slice" | .mov => "mov" | .smov => "smov" | .amov => "amov"
  | .ret => "ret" | .gc => "gc" | .circ => "circ"

/-- `c|v . id . key . bits . s|u . cint . hash . n|<own>_<bits>` -/
def parseArg (s : String) : Option Arg :=
  match s.splitOn "." with
  | [c, id, key, bits, sg, ci, h, m] => do
    let base : Arg := { const := c == "c", id := ← id.toNat?, key := ← key.toNat?, bits := ← bits.toNat?,
                        signed := sg == "s", cint := ← ci.toNat?, hash := ← h.toNat? }
    if m == "n" then some base else
    match m.splitOn "_" with
    | [own, vb] => some { base with mpa := true, own := ← own.toNat?,
                                    vbits := if vb == "e" then [] else vb.toList.map (· == '1') }
    | _ => none
  | _ => none

/-- `op:out:in|in|...` -/
def parseStep (s : String) : Option Step :=
  match s.splitOn ":" with
  | [op, out, ins] => do
    let o ← if out == "-" then some none else (parseArg out).map some
    let is ← if ins == "" then some [] else (ins.splitOn "|").mapM parseArg
    some { op := parseOp op, ins := is, out := o }
  | _ => none

def parseSteps (s : String) : Option (List Step) :=
  if s == "-" then some [] else (s.splitOn ";").mapM parseStep

def parseInputs (s : String) : Option (List InputDef) :=
  (s.splitOn ",").mapM fun p =>
    match p.splitOn "." with
    | [k, b, h] => do some { key := ← k.toNat?, bits := ← b.toNat?, hash := ← h.toNat? }
    | _ => none

/-- `zeroKey.zeroHash,oneKey.oneHash` -/
def parseZO (s : String) : Option ((Nat × Nat) × (Nat × Nat)) :=
  match (s.splitOn ",").map (·.splitOn ".") with
  | [[zk, zh], [ok, oh]] => do some ((← zk.toNat?, ← zh.toNat?), (← ok.toNat?, ← oh.toNat?))
  | _ => none

def parseConsts (s : String) : Option (List ConstDef) :=
  if s == "-" then some [] else
  (s.splitOn ",").mapM fun p =>
    match p.splitOn "." with
    | [k, b, h] => do
      some { key := ← k.toNat?, hash := ← h.toNat?, bits := if b == "e" then [] else b.toList.map (· == '1') }
    | _ => none

def argStr (a : Arg) : String := if a.const then "c" else s!"v{a.id}"

def stepStr (s : Step) : String :=
  let o := match s.out with
    | some a => argStr a
    | none => "-"
  s!"{opName s.op}({",".intercalate (s.ins.map argStr)})>{o}"

def stepsStr (l : List Step) : String := "/".intercalate (l.map stepStr)

def natsStr (l : List Nat) : String := if l.isEmpty then "-" else ",".intercalate (l.map toString)

def handleGc (full : Bool) (inputs zo consts steps : String) : String :=
  match parseInputs inputs, parseConsts consts, parseSteps steps, parseZO zo with
  | some ins, some cs, some prog, some (zk, ok) =>
    match gcPass prog with
    | none => "gc-panic"
    | some out =>
      let head := s!"wf={if wfSteps prog then 1 else 0};steps={stepsStr out}"
      if !full then head else
      let (st, tr) := streamTrace ins cs out zk ok
      if st.panic then head ++ ";alloc-panic" else
      let circ := ",".intercalate (tr.circs.map fun (i, m) => s!"{i}:{m}")
      head ++ s!";ret={natsStr tr.retIds};circ={circ}"
  | _, _, _, _ => "bad-op"

/-- `gcs <steps>`: `Program.GC` (defineBeforeUse + gc insertion) on a step list
that the harness has scrambled (definitions moved behind their first use).
Result: is the reordered list a permutation of the input, is it well formed,
and the GC'd list. -/
def handleGcs (steps : String) : String :=
  match parseSteps steps with
  | some prog =>
    let re := defineBeforeUse prog
    let sortS := fun (l : List Step) => (l.map stepStr).mergeSort (fun a b => decide (a ≤ b))
    let perm := sortS re == sortS prog
    match gcPass prog with
    | none => "gc-panic"
    | some out => s!"perm={if perm then 1 else 0};wf={if wfSteps re then 1 else 0};steps={stepsStr out}"
  | none => "bad-op"

/-! ### `codec`: Streaming.Garble bytes -/

def hexByte (n : Nat) : String :=
  let d := "0123456789abcdef".toList
  String.ofList [d.getD (n / 16 % 16) '0', d.getD (n % 16) '0']

def hexBytes (l : List Nat) : String := String.join (l.map hexByte)

def parseIds (s : String) : Option (List Nat) :=
  if s == "-" then some [] else (s.splitOn ",").mapM String.toNat?

structure CircSpec where
  c    : Circuit
  ins  : List Nat
  outs : List Nat

def parseSpecs : List String → Option (List CircSpec)
  | [] => some []
  | nw :: nin :: nout :: gates :: inIds :: outIds :: rest => do
    let c ← parseCircuit nw nin nout gates
    let ins ← parseIds inIds
    let outs ← parseIds outIds
    let more ← parseSpecs rest
    some ({ c := c, ins := ins, outs := outs } :: more)
  | _ => none

/-- `codec <key> <tape> <pids> <x> {<nw> <nin> <nout> <gates> <inIds> <outIds>}*`:
`NewStreaming` draws `r` and one label pair per id of `pids` from the tape;
then `Streaming.Garble` is called once per circuit on the same object (the
tweak counter carries over).  Result: all bytes appended to the connection
buffer, the garbler's wire pairs on every out id, and the model's own
decode / re-encode and evaluation cross-checks. -/
def handleCodec (key tape pids x : String) (specs : List String) : String :=
  match Aes.bytesOfHex key, Aes.bytesOfHex tape, parseIds pids, parseSpecs specs with
  | some key, some tape, some pids, some specs =>
    match Aes.Cipher.new key with
    | none => "garble-error"
    | some ciph =>
      if tape.size < 16 * (1 + pids.length) then "bad-op" else
      let H := aesHash ciph
      let r := setS (label128 tape 0)
      -- NewStreaming: makeLabels for every input id, in order
      let g0 : Stream.SStore (WireL (BitVec 128)) := Stream.SStore.empty
      let g0 := (List.range pids.length).foldl (fun (st : Stream.SStore (WireL (BitVec 128))) i =>
        let l0 := label128 tape (16 * (i + 1))
        st.setGlob (pids.getD i 0) ⟨l0, l0 ^^^ r⟩) g0
      let (gst, _, recs) := specs.foldl (fun (acc : Stream.SStore (WireL (BitVec 128)) × Nat ×
          List (Stream.GateRec (BitVec 128))) sp =>
        let cx : Stream.SCtx := { ins := sp.ins, outs := sp.outs, numWires := sp.c.numWires }
        let (st, id, rs) := Stream.streamGarble H r cx sp.c.gates acc.1 acc.2.1
        (st, id, acc.2.2 ++ rs)) (g0, 0, [])
      let bytes := Stream.encodeRecs recs
      let allOuts := specs.flatMap (·.outs)
      let ostr := String.join (allOuts.map fun w => hex128 (gst.getGlob w).l0 ++ hex128 (gst.getGlob w).l1)
      -- decoder on the model's own bytes
      let dec := match (Stream.decodeRecs recs.length bytes : Option (List (Stream.GateRec (BitVec 128)) × List Nat)) with
        | some (recs', []) => if Stream.encodeRecs recs' == bytes then "rt-ok" else "rt-differs"
        | _ => "rt-fail"
      -- evaluation of the stream on the input labels for x
      let xb := parseBits x
      let e0 : Stream.SStore (BitVec 128) := Stream.SStore.empty
      let e0 := (List.range pids.length).foldl (fun (st : Stream.SStore (BitVec 128)) i =>
        st.setGlob (pids.getD i 0) ((g0.getGlob (pids.getD i 0)).labelFor (xb.getD i false))) e0
      let ev := match Stream.streamEval H recs e0 0 with
        | .error _ => "eval-error"
        | .ok (est, _) =>
          let bits := allOuts.map fun w => (gst.getGlob w).bitFrom (est.getGlob w)
          String.ofList (bits.map fun b => match b with
            | some true => '1' | some false => '0' | none => '?')
      s!"b={hexBytes bytes};o={ostr};{dec};e={ev}"
  | _, _, _, _ => "bad-op"

def handle (args : List String) : String :=
  match args with
  | ["gc", inputs, zo, consts, steps] => handleGc true inputs zo consts steps
  | ["gco", inputs, zo, consts, steps] => handleGc false inputs zo consts steps
  | ["gcs", steps] => handleGcs steps
  | ["skip"] => "unsupported"
  | "codec" :: key :: tape :: pids :: x :: specs => handleCodec key tape pids x specs
  | _ => "bad-op"

end Drv.C05

def main : IO Unit := Drv.mainLoop Drv.C05.handle

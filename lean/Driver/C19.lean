import Driver.Util
import MpcVerif.Model.MeshData

/-!
Trace validation for C19.  Op line: `c19 <n> <m> <ev,ev,...> [strict]` where the
events are what the `verif` hooks of package p2p recorded during one real mesh
setup (in the order of a process-wide log):

  j.i        Join of peer i returned             L          leader Connect started
  h.i        peer i sends its hello to the leader
  t.j.i.k    accept goroutine of j: hello (i,k) read, need[k] > 0 checked (hook "accepted")
  a.j.i.k    accept goroutine of j: connection (i,k) stored and need[k]-- done (hook "accdec";
             the store has no hook of its own, it lies between t and a on the same goroutine
             and nothing reads the slot before the decrement: replayed as accStore; accDec)
  w.p.k.nd   party p left the wait loop of connect(k) with need[k] = nd
  i.q.c      leader sends network info to q, c = len(Peers)-2
  g.i.c.a    peer i got the info: c other peers, a = numAccept
  d.i.j.k    party i dials j for connection id k
  r.p        Connect of p returned nil
  S.p.q.k.len      party p (Connect returned) starts sending the next len bytes of its stream on
                   Peers[q].Conns[k]; byte at stream offset o = pay p q k o (the harness uses the same function)
  R.p.q.k.len.sum  party p has received len bytes from Peers[q].Conns[k], checksum sum
  T.p.q.k.len.sum  as R, and afterwards nothing more arrived on that connection although the session was
                   given time (appended by the harness at the end of the trace)

Result: `run=ok end=<final|deadlock|live|error>` or `run=bad@<index>:<event>:<why>`.
* run=ok: every event is enabled in the model state reached so far and its
  observed arguments agree with the model (the trace is a run of `Mesh.step`
  with the events of the code as it is), and at every `r.p` party p is done
  with a complete table.
* data tokens are replayed on the data layer (`Model/MeshData.lean`): S must be enabled (p done, slot
  set); at R / T the model must hold at least len bytes for that slot (ReadBuf + socket) and their
  checksum must be the observed one; at T the model must hold nothing more (otherwise the real
  connection withheld bytes that, by the model, were delivered to it).  A session with data tokens
  reports ` data=<bytes received>/<bytes sent>` summed over all slots.
* end: `final` = all parties done, tables complete, nothing in flight;
  `error` = the model took (or can only continue by) an error path;
  `deadlock` = no event enabled; `live` = the run could continue.
-/

namespace Drv.C19
open Mpc.Mesh

inductive Tok where
  | ev (es : List Ev) (chk : Cfg → State → Option String)
  | ret (p : Nat)
  | skip
  | snd (p q k len : Nat)
  | rcv (p q k len sum : Nat) (last : Bool)

def nats (s : String) : Option (List Nat) :=
  ((s.splitOn ".").drop 1).mapM String.toNat?

def parseTok (t : String) : Option Tok :=
  match t.toList.head?, nats t with
  | some 'j', some [i] => some (.ev [(.join i)] fun _ _ => none)
  | some 'L', some [] => some (.ev [.lconnect] fun _ _ => none)
  | some 'h', some [i] => some (.ev [(.hello i)] fun _ _ => none)
  | some 't', some [j, i, k] => some (.ev [.accTake j i k] fun _ _ => none)
  | some 'a', some [j, i, k] => some (.ev [.accStore j, .accDec j] fun _ s =>
      if s.infl j == .taken i k then none else some "acc-not-taken")
  | some 's', some [_] => some .skip
  | some 'w', some [p, k, nd] => some (.ev [(.waitDone p)] fun _ s =>
      match s.phase p with
      | .run k' [] => if k' ≠ k then some "wait-k" else if nd ≠ 0 then some "wait-need" else none
      | _ => some "wait-phase")
  | some 'i', some [q, cnt] => some (.ev [.info] fun _ s =>
      match s.phase 0 with
      | .info (q' :: _) =>
        if q' ≠ q then some "info-peer"
        else if (s.known 0).length ≠ cnt + 2 then some "info-count" else none
      | _ => some "info-phase")
  | some 'g', some [i, cnt, na] => some (.ev [(.recvInfo i)] fun _ s =>
      match s.mail i with
      | some l =>
        if l.length ≠ cnt then some "gotinfo-count"
        else if (l.filter (· < i)).length ≠ na then some "gotinfo-numaccept" else none
      | none => some "gotinfo-nomail")
  | some 'd', some [i, j, k] => some (.ev [(.dial i)] fun _ s =>
      match s.phase i with
      | .run k' (j' :: _) => if k' ≠ k then some "dial-k" else if j' ≠ j then some "dial-peer" else none
      | _ => some "dial-phase")
  | some 'r', some [p] => some (.ret p)
  | some 'S', some [p, q, k, len] => some (.snd p q k len)
  | some 'R', some [p, q, k, len, sum] => some (.rcv p q k len sum false)
  | some 'T', some [p, q, k, len, sum] => some (.rcv p q k len sum true)
  | _, _ => none

structure Acc where
  s : DState
  err : Option String := none
  idx : Nat := 0

/-- Payload byte at offset `off` of the stream party p sends on its slot (q, k)
(harness/cmd/c19/data.go `payByte`). -/
def pay (p q k off : Nat) : Nat :=
  (17 + 31 * p + 57 * q + 91 * k + 7 * off + 13 * (off / 256)) % 251

/-- Checksum of a byte sequence (harness/cmd/c19/data.go `cksum`). -/
def cksum (l : List Nat) : Nat :=
  let (a, b) := l.foldl (fun (ab : Nat × Nat) x => let a := (ab.1 + x) % 65521; (a, (ab.2 + a) % 65521)) (1, 0)
  b * 65536 + a

/-- Setup events on the data layer; the read of a hello takes everything the socket holds. -/
def runEvs (c : Cfg) (s : DState) : List Ev → Option DState
  | [] => some s
  | e :: es => (dstep c s (.ev e (2 ^ 62))).bind fun s' => runEvs c s' es

/-- Replay tokens on the model. -/
def replay (c : Cfg) (toks : List (String × Tok)) (s0 : DState) : Acc :=
  toks.foldl (init := { s := s0 }) fun a (name, t) =>
    if a.err.isSome || a.s.base.bad then a else
    let a := { a with idx := a.idx + 1 }
    let bad (why : String) : Acc := { a with err := some s!"{a.idx - 1}:{name}:{why}" }
    match t with
    | .skip => a
    | .ret p =>
      if a.s.base.phase p != .done then bad "not-done"
      else if !tableComplete c a.s.base p then bad "table"
      else a
    | .ev es chk =>
      match chk c a.s.base with
      | some why => bad why
      | none =>
        match runEvs c a.s es with
        | none => bad "not-enabled"
        | some s' => { a with s := s' }
    | .snd p q k len =>
      let off := (a.s.out p q k).length
      match dstep c a.s (.send p q k ((List.range len).map fun i => pay p q k (off + i))) with
      | none => bad "send-not-enabled"
      | some s' => { a with s := s' }
    | .rcv p q k len sum last =>
      match a.s.base.conn p q k with
      | none => bad "recv-no-conn"
      | some cn =>
        let avail := a.s.buf cn p ++ a.s.sock cn p
        if avail.length < len then bad s!"recv-more-than-sent:{avail.length}"
        else if cksum (avail.take len) != sum then bad "recv-bytes"
        else
          match dstep c a.s (.recv p q k (a.s.sock cn p).length len) with
          | none => bad "recv-not-enabled"
          | some s' =>
            if last && len < avail.length then bad s!"bytes-withheld:{avail.length - len}"
            else { a with s := s' }

/-- Bytes received / bytes sent, summed over all slots. -/
def dataSummary (c : Cfg) (s : DState) : String :=
  let tot (f : Nat → Nat → Nat → List Nat) : Nat :=
    (List.range c.n).foldl (fun acc p => (List.range c.n).foldl (fun acc q =>
      (List.range c.m).foldl (fun acc k => acc + (f p q k).length) acc) acc) 0
  s!"{tot s.inp}/{tot s.out}"

def isFinal (c : Cfg) (s : State) : Bool :=
  allDone c s && quiet c s && (List.range c.n).all (tableComplete c s)

def endOf (c : Cfg) (s : State) (f : Ev → Bool) : String :=
  if s.bad then "error"
  else if isFinal c s then "final"
  else
    let en := enabled c s f
    if en.isEmpty then "deadlock"
    else if en.any (fun e => match step c s e with | some s' => s'.bad | none => false) then "error"
    else "live"

def handleCore (n m tr : String) (data : Bool := false) : String :=
  match n.toNat?, m.toNat? with
  | some n, some m =>
    let c : Cfg := ⟨n, m⟩
    let names := if tr == "-" then [] else tr.splitOn ","
    match names.mapM (fun t => (parseTok t).map fun x => (t, x)) with
    | none => "bad-op"
    | some toks =>
      let a := replay c toks (dinit c)
      match a.err with
      | some e => s!"run=bad@{e}"
      | none =>
        let d := if data then s!" data={dataSummary c a.s}" else ""
        s!"run=ok end={endOf c a.s.base Ev.real}{d}"
  | _, _ => "bad-op"

/-- `c19 <n> <m> <trace>`: a recorded session; a trailing `strict` (forced
schedule replays) is accepted and changes nothing; a trailing `data` (session
with a data phase overlapping the setup) adds the ` data=` summary. -/
def handle (args : List String) : String :=
  match args with
  | [n, m, tr] => handleCore n m tr
  | [n, m, tr, "strict"] => handleCore n m tr
  | [n, m, tr, "data"] => handleCore n m tr true
  | [n, m, tr, "strict", "data"] => handleCore n m tr true
  | _ => "bad-op"

end Drv.C19

def main : IO Unit := Drv.mainLoop Drv.C19.handle

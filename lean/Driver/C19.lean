import Driver.Util
import MpcVerif.Model.Mesh

/-!
Trace validation for C19.  Op line: `c19 <n> <m> <ev,ev,...> [strict]` where the
events are what the `verif` hooks of package p2p recorded during one real mesh
setup (in the order of a process-wide log):

  j.i        Join of peer i returned             L          leader Connect started
  h.i        peer i sends its hello to the leader
  t.j.i.k    accept goroutine of j: hello (i,k) read, need[k] > 0 checked (hook "accepted")
  a.j.i.k    accept goroutine of j: connection (i,k) stored and need[k]-- done (hook "accdec";
             the store has no hook of its own, it lies between t and a on the same goroutine
             and nothing reads the slot before the decrement: replayed as accStore; accDec)
  w.p.k.nd   party p left the wait loop of connect(k) with need[k] = nd
  i.q.c      leader sends network info to q, c = len(Peers)-2
  g.i.c.a    peer i got the info: c other peers, a = numAccept
  d.i.j.k    party i dials j for connection id k
  r.p        Connect of p returned nil

Result: `run=ok end=<final|deadlock|live|error>` or `run=bad@<index>:<event>:<why>`.
* run=ok: every event is enabled in the model state reached so far and its
  observed arguments agree with the model (the trace is a run of `Mesh.step`
  with the events of the code as it is), and at every `r.p` party p is done
  with a complete table.
* end: `final` = all parties done, tables complete, nothing in flight;
  `error` = the model took (or can only continue by) an error path;
  `deadlock` = no event enabled; `live` = the run could continue.
-/

namespace Drv.C19
open Mpc.Mesh

inductive Tok where
  | ev (es : List Ev) (chk : Cfg → State → Option String)
  | ret (p : Nat)
  | skip

def nats (s : String) : Option (List Nat) :=
  ((s.splitOn ".").drop 1).mapM String.toNat?

def parseTok (t : String) : Option Tok :=
  match t.toList.head?, nats t with
  | some 'j', some [i] => some (.ev [(.join i)] fun _ _ => none)
  | some 'L', some [] => some (.ev [.lconnect] fun _ _ => none)
  | some 'h', some [i] => some (.ev [(.hello i)] fun _ _ => none)
  | some 't', some [j, i, k] => some (.ev [.accTake j i k] fun _ _ => none)
  | some 'a', some [j, i, k] => some (.ev [.accStore j, .accDec j] fun _ s =>
      if s.infl j == .taken i k then none else some "acc-not-taken")
  | some 's', some [_] => some .skip
  | some 'w', some [p, k, nd] => some (.ev [(.waitDone p)] fun _ s =>
      match s.phase p with
      | .run k' [] => if k' ≠ k then some "wait-k" else if nd ≠ 0 then some "wait-need" else none
      | _ => some "wait-phase")
  | some 'i', some [q, cnt] => some (.ev [.info] fun _ s =>
      match s.phase 0 with
      | .info (q' :: _) =>
        if q' ≠ q then some "info-peer"
        else if (s.known 0).length ≠ cnt + 2 then some "info-count" else none
      | _ => some "info-phase")
  | some 'g', some [i, cnt, na] => some (.ev [(.recvInfo i)] fun _ s =>
      match s.mail i with
      | some l =>
        if l.length ≠ cnt then some "gotinfo-count"
        else if (l.filter (· < i)).length ≠ na then some "gotinfo-numaccept" else none
      | none => some "gotinfo-nomail")
  | some 'd', some [i, j, k] => some (.ev [(.dial i)] fun _ s =>
      match s.phase i with
      | .run k' (j' :: _) => if k' ≠ k then some "dial-k" else if j' ≠ j then some "dial-peer" else none
      | _ => some "dial-phase")
  | some 'r', some [p] => some (.ret p)
  | _, _ => none

structure Acc where
  s : State
  err : Option String := none
  idx : Nat := 0

/-- Replay tokens on the model. -/
def replay (c : Cfg) (toks : List (String × Tok)) (s0 : State) : Acc :=
  toks.foldl (init := { s := s0 }) fun a (name, t) =>
    if a.err.isSome || a.s.bad then a else
    let a := { a with idx := a.idx + 1 }
    match t with
    | .skip => a
    | .ret p =>
      if a.s.phase p != .done then { a with err := some s!"{a.idx - 1}:{name}:not-done" }
      else if !tableComplete c a.s p then { a with err := some s!"{a.idx - 1}:{name}:table" }
      else a
    | .ev es chk =>
      match chk c a.s with
      | some why => { a with err := some s!"{a.idx - 1}:{name}:{why}" }
      | none =>
        match run c a.s es with
        | none => { a with err := some s!"{a.idx - 1}:{name}:not-enabled" }
        | some s' => { a with s := s' }

def isFinal (c : Cfg) (s : State) : Bool :=
  allDone c s && quiet c s && (List.range c.n).all (tableComplete c s)

def endOf (c : Cfg) (s : State) (f : Ev → Bool) : String :=
  if s.bad then "error"
  else if isFinal c s then "final"
  else
    let en := enabled c s f
    if en.isEmpty then "deadlock"
    else if en.any (fun e => match step c s e with | some s' => s'.bad | none => false) then "error"
    else "live"

def handleCore (n m tr : String) : String :=
  match n.toNat?, m.toNat? with
  | some n, some m =>
    let c : Cfg := ⟨n, m⟩
    let names := if tr == "-" then [] else tr.splitOn ","
    match names.mapM (fun t => (parseTok t).map fun x => (t, x)) with
    | none => "bad-op"
    | some toks =>
      let a := replay c toks (init c)
      match a.err with
      | some e => s!"run=bad@{e}"
      | none => s!"run=ok end={endOf c a.s Ev.real}"
  | _, _ => "bad-op"

/-- `c19 <n> <m> <trace>`: a recorded session; a trailing `strict` (forced
schedule replays) is accepted and changes nothing. -/
def handle (args : List String) : String :=
  match args with
  | [n, m, tr] => handleCore n m tr
  | [n, m, tr, "strict"] => handleCore n m tr
  | _ => "bad-op"

end Drv.C19

def main : IO Unit := Drv.mainLoop Drv.C19.handle

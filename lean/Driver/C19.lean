import Driver.Util
import MpcVerif.Model.Mesh

/-!
Trace validation for C19.  Op line: `c19 <n> <m> <ev,ev,...>` where the events
are what the `verif` hooks of package p2p recorded during one real mesh setup
(in the order of a process-wide log):

  j.i        Join of peer i returned             L          leader Connect started
  h.i        peer i sends its hello to the leader
  a.j.i.k    accept goroutine of j: need[k]-- for the connection (i,k)
  s.j        accept goroutine of j: connection stored (SetConn/addPeer done)
  w.p.k.nd   party p left the wait loop of connect(k) with need[k] = nd
  i.q.c      leader sends network info to q, c = len(Peers)-2
  g.i.c.a    peer i got the info: c other peers, a = numAccept
  d.i.j.k    party i dials j for connection id k
  r.p        Connect of p returned nil

Result: `run=ok end=<final|deadlock|live|error> sbs=<0|1> fused=<ok|no|->` or
`run=bad@<index>:<event>:<why>`.
* run=ok: every event is enabled in the model state reached so far and its
  observed arguments agree with the model (the trace is a run of `Mesh.step`).
* end: `final` = all parties done, tables complete, nothing in flight;
  `error` = the model took (or can only continue by) an error path;
  `deadlock` = no event enabled; `live` = the run could continue.
* sbs: a wait loop ended while the party's accept goroutine was between
  `need[k]--` and the store for the same k ("signal before store").
* fused: when sbs=0, the same trace with every store moved directly behind
  its `need[k]--` is a run of the atomic system, every `r.p` finds p's table
  complete, and it ends final.
-/

namespace Drv.C19
open Mpc.Mesh

inductive Tok where
  | ev (e : Ev) (chk : Cfg → State → Option String)
  | ret (p : Nat)

def nats (s : String) : Option (List Nat) :=
  ((s.splitOn ".").drop 1).mapM String.toNat?

def parseTok (t : String) : Option Tok :=
  match t.toList.head?, nats t with
  | some 'j', some [i] => some (.ev (.join i) fun _ _ => none)
  | some 'L', some [] => some (.ev .lconnect fun _ _ => none)
  | some 'h', some [i] => some (.ev (.hello i) fun _ _ => none)
  | some 'a', some [j, i, k] => some (.ev (.accDec j i k) fun _ _ => none)
  | some 's', some [j] => some (.ev (.accStore j) fun _ _ => none)
  | some 'w', some [p, k, nd] => some (.ev (.waitDone p) fun _ s =>
      match s.phase p with
      | .run k' [] => if k' ≠ k then some "wait-k" else if nd ≠ 0 then some "wait-need" else none
      | _ => some "wait-phase")
  | some 'i', some [q, cnt] => some (.ev .info fun _ s =>
      match s.phase 0 with
      | .info (q' :: _) =>
        if q' ≠ q then some "info-peer"
        else if (s.known 0).length ≠ cnt + 2 then some "info-count" else none
      | _ => some "info-phase")
  | some 'g', some [i, cnt, na] => some (.ev (.recvInfo i) fun _ s =>
      match s.mail i with
      | some l =>
        if l.length ≠ cnt then some "gotinfo-count"
        else if (l.filter (· < i)).length ≠ na then some "gotinfo-numaccept" else none
      | none => some "gotinfo-nomail")
  | some 'd', some [i, j, k] => some (.ev (.dial i) fun _ s =>
      match s.phase i with
      | .run k' (j' :: _) => if k' ≠ k then some "dial-k" else if j' ≠ j then some "dial-peer" else none
      | _ => some "dial-phase")
  | some 'r', some [p] => some (.ret p)
  | _, _ => none

structure Acc where
  s : State
  sbs : Bool := false
  err : Option String := none
  idx : Nat := 0

/-- Replay tokens on the model.  `needTable`: a `ret` also requires the
party's table to be complete (atomic system). -/
def replay (c : Cfg) (needTable : Bool) (toks : List (String × Tok)) (s0 : State) : Acc :=
  toks.foldl (init := { s := s0 }) fun a (name, t) =>
    if a.err.isSome || a.s.bad then a else
    let a := { a with idx := a.idx + 1 }
    match t with
    | .ret p =>
      if a.s.phase p != .done then { a with err := some s!"{a.idx - 1}:{name}:not-done" }
      else if needTable && !tableComplete c a.s p then { a with err := some s!"{a.idx - 1}:{name}:table" }
      else a
    | .ev e chk =>
      match chk c a.s with
      | some why => { a with err := some s!"{a.idx - 1}:{name}:{why}" }
      | none =>
        let sbs := match e with
          | .waitDone p =>
            (match a.s.phase p, a.s.infl p with
             | .run k [], some (_, k') => k == k'
             | _, _ => false)
          | _ => false
        match step c a.s e with
        | none => { a with err := some s!"{a.idx - 1}:{name}:not-enabled" }
        | some s' => { a with s := s', sbs := a.sbs || sbs }

def isFinal (c : Cfg) (s : State) : Bool :=
  allDone c s && quiet c s && (List.range c.n).all (tableComplete c s)

def endOf (c : Cfg) (s : State) (f : Ev → Bool) : String :=
  if s.bad then "error"
  else if isFinal c s then "final"
  else
    let en := enabled c s f
    if en.isEmpty then "deadlock"
    else if en.any (fun e => match step c s e with | some s' => s'.bad | none => false) then "error"
    else "live"

/-- Move every store directly behind its `need[k]--`: `a.j.i.k` becomes the
atomic accept, `s.j` disappears. -/
def fuse (toks : List (String × Tok)) : List (String × Tok) :=
  toks.filterMap fun (name, t) =>
    match t with
    | .ev (.accDec j i k) chk => some (name, .ev (.accept j i k) chk)
    | .ev (.accStore _) _ => none
    | t => some (name, t)

/-- The same syntactic scan as the harness: a `w.p.k.0` while the last
`a.p._.k'` of p has no `s.p` yet and `k' = k`. -/
def scanSbs (toks : List (String × Tok)) (names : List String) : Bool :=
  let _ := toks
  let r := names.foldl (init := ((fun _ => none : Nat → Option Nat), false)) fun (infl, hit) t =>
    match t.toList.head?, nats t with
    | some 'a', some [p, _, k] => (upd infl p (some k), hit)
    | some 's', some [p] => (upd infl p none, hit)
    | some 'w', some [p, k, nd] => (infl, hit || (infl p == some k && nd == 0))
    | _, _ => (infl, hit)
  r.2

def handleCore (strict : Bool) (n m tr : String) : String :=
    match n.toNat?, m.toNat? with
    | some n, some m =>
      let c : Cfg := ⟨n, m⟩
      let names := if tr == "-" then [] else tr.splitOn ","
      match names.mapM (fun t => (parseTok t).map fun x => (t, x)) with
      | none => "bad-op"
      | some toks =>
        let a := replay c false toks (init c)
        let race := !strict && scanSbs toks names
        let pre := if race then "race sbs=1 | " else ""
        match a.err with
        | some e => s!"{pre}run=bad@{e}"
        | none =>
          let e := endOf c a.s Ev.faithful
          if race then s!"{pre}end={e}" else
          let fused :=
            if a.sbs then "-" else
              let b := replay c true (fuse toks) (init c)
              match b.err with
              | some _ => "no"
              | none => if endOf c b.s Ev.atomic == e then "ok" else "no"
          s!"run=ok end={e} sbs={if a.sbs then 1 else 0} fused={fused}"
    | _, _ => "bad-op"

/-- `c19 <n> <m> <trace>`: a recorded session (a trace with the
signal-before-store pattern is only classified, see the harness);
`c19 <n> <m> <trace> strict`: a forced-schedule replay of a Lean witness,
compared exactly. -/
def handle (args : List String) : String :=
  match args with
  | [n, m, tr] => handleCore false n m tr
  | [n, m, tr, "strict"] => handleCore true n m tr
  | _ => "bad-op"

end Drv.C19

def main : IO Unit := Drv.mainLoop Drv.C19.handle

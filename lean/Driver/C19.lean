import Driver.Util

namespace Drv.C19

/-- Line-protocol handler of property C19 (stub). -/
def handle (_args : List String) : String := "bad-op"

end Drv.C19

def main : IO Unit := Drv.mainLoop Drv.C19.handle

/-
Line-protocol helpers shared by the per-property drivers.  Core Lean only.
-/
import MpcVerif.Model.Circuit
import MpcVerif.Model.Aes
import MpcVerif.Model.LabelBV

namespace Drv
open Mpc

def splitWs (s : String) : List String :=
  (s.splitOn " ").filter (· ≠ "")

def parseNat (s : String) : Option Nat := s.toNat?

def parseBits (s : String) : List Bool :=
  if s == "-" then [] else s.toList.map (· == '1')

def bitsStr (b : List Bool) : String :=
  if b.isEmpty then "-" else String.ofList (b.map fun x => if x then '1' else '0')

def parseOp (c : Char) : Option Op :=
  match c with
  | 'x' => some .xor | 'n' => some .xnor | 'a' => some .and | 'o' => some .or | 'i' => some .inv
  | _ => none

def parseGate (s : String) : Option Gate := do
  let c ← s.toList.head?
  let op ← parseOp c
  match ((s.drop 1).toString.splitOn ".") with
  | [a, b, o] => some ⟨op, ← a.toNat?, ← b.toNat?, ← o.toNat?⟩
  | _ => none

def parseGates (s : String) : Option (List Gate) :=
  if s == "-" then some [] else (s.splitOn ";").mapM parseGate

/-- `<numWires> <nIn> <nOut> <gates>` -/
def parseCircuit (nw nin nout gates : String) : Option Circuit := do
  some { numWires := ← nw.toNat?, nIn := ← nin.toNat?, nOut := ← nout.toNat?, gates := ← parseGates gates }

def hex128 (x : BitVec 128) : String := Aes.hexOfBytes (Aes.bytesOfNat128 x.toNat)

def label128 (b : ByteArray) (ofs : Nat) : BitVec 128 := BitVec.ofNat 128 (Aes.nat128OfBytes b ofs)


partial def loop (handle : List String → String) (h : IO.FS.Stream) (out : IO.FS.Stream) : IO Unit := do
  let line ← h.getLine
  if line.isEmpty then return ()
  let line := if line.endsWith "\n" then (line.dropEnd 1).toString else line
  match splitWs line with
  | [] => out.putStrLn "bad-op"
  | _ :: args => out.putStrLn (handle args)
  loop handle h out

/-- One operation per stdin line (`<cmd> <args...>`; the command word is
ignored, each property has its own driver), one result line per operation. -/
def mainLoop (handle : List String → String) : IO Unit := do
  let stdin ← IO.getStdin
  let stdout ← IO.getStdout
  loop handle stdin stdout

end Drv

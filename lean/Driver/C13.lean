import Driver.Util
import MpcVerif.Model.IoArg
import MpcVerif.Model.IoInst

/-!
Line protocol of property C13 (one op per line, first word ignored):

  c13 parse  <arg> <strs>        IOArg.Parse
  c13 set    <arg> <vals>        IOArg.Set(nil, vals)
  c13 isizes <strs>              circuit.InputSizes
  c13 sizes  <vals>              circuit.Sizes
  c13 result <info> <z>          mpc.Result twice on the same *big.Int
  c13 split  <n,n,..> <z>        IO.Split
  c13 inst   <info> <0|1> <size> Info.InstantiateWithSizes
  c13 ty     h<hex>              types.Parse
  c13 insts  <ty> <n,n,..>       Info.InstantiateWithSizes on a type tree with struct members
  c13 mainarg <ty> <strs>        InputSizes -> argument loop of Package.Compile -> flattenStruct -> IOArg.Parse

  ty   := <tag><bits>.<arraySize>('c'|'u')@<offset> [ '[' ty ']' | '{' [ ty (';' ty)* ] '}' ]
          ('c': IsConcrete; '{..}' exactly when the tag is t = struct)

  info := <tag><bits>.<arraySize>[ '[' info ']' ]     tag ∈ z b i u f s t a l p n
  arg  := info [ '{' arg (';' arg)* '}' ]
  strs := '-' | str (',' str)*      str := <hex of bytes> ':' (<decimal> | '!')
  vals := '-' | val (',' val)*      val := n | b0 | b1 | i8:<d> | u64:<d> | y:<hex> | x
-/
namespace Drv.C13
open Mpc.IoArg

def tagOfChar : Char → Option Tag
  | 'z' => some .undefined | 'b' => some .bool | 'i' => some .int | 'u' => some .uint
  | 'f' => some .float | 's' => some .string | 't' => some .struct | 'a' => some .array
  | 'l' => some .slice | 'p' => some .ptr | 'n' => some .nil
  | _ => none

def charOfTag : Tag → Char
  | .undefined => 'z' | .bool => 'b' | .int => 'i' | .uint => 'u' | .float => 'f'
  | .string => 's' | .struct => 't' | .array => 'a' | .slice => 'l' | .ptr => 'p' | .nil => 'n'

def takeNat (cs : List Char) : Option (Nat × List Char) :=
  let ds := cs.takeWhile isDigit
  if ds.isEmpty then none else some (digitsVal ds, cs.dropWhile isDigit)

partial def pInfo (cs : List Char) : Option (Info × List Char) :=
  match cs with
  | c :: cs =>
    match tagOfChar c with
    | none => none
    | some tag =>
      match takeNat cs with
      | some (bits, '.' :: cs) =>
        match takeNat cs with
        | some (n, '[' :: cs) =>
          match pInfo cs with
          | some (el, ']' :: cs) => some (.elem tag bits n el, cs)
          | _ => none
        | some (n, cs) => some (.base tag bits n, cs)
        | none => none
      | _ => none
  | [] => none

mutual
partial def pArg (cs : List Char) : Option (Arg × List Char) :=
  match pInfo cs with
  | some (t, '{' :: cs) =>
    match pArgs cs with
    | some (ms, cs) => some (.mk t ms, cs)
    | none => none
  | some (t, cs) => some (.mk t [], cs)
  | none => none
partial def pArgs (cs : List Char) : Option (List Arg × List Char) :=
  match pArg cs with
  | some (a, ';' :: cs) =>
    match pArgs cs with
    | some (as, cs) => some (a :: as, cs)
    | none => none
  | some (a, '}' :: cs) => some ([a], cs)
  | _ => none
end

def parseInfoTok (s : String) : Option Info :=
  match pInfo s.toList with
  | some (t, []) => some t
  | _ => none

def parseArgTok (s : String) : Option Arg :=
  match pArg s.toList with
  | some (a, []) => some a
  | _ => none

partial def showInfo : Info → String
  | .base t b n => s!"{charOfTag t}{b}.{n}"
  | .elem t b n el => s!"{charOfTag t}{b}.{n}[{showInfo el}]"

def hexVal (c : Char) : Option Nat :=
  if '0' ≤ c && c ≤ '9' then some (c.toNat - '0'.toNat)
  else if 'a' ≤ c && c ≤ 'f' then some (c.toNat - 'a'.toNat + 10)
  else none

def hexBytes : List Char → Option (List UInt8)
  | [] => some []
  | a :: b :: rest => do
    let x ← hexVal a
    let y ← hexVal b
    let r ← hexBytes rest
    some (UInt8.ofNat (16 * x + y) :: r)
  | _ => none

def parseStr (tok : String) : Option StrFacts :=
  match tok.splitOn ":" with
  | [h, n] => do
    let bs ← hexBytes h.toList
    let s ← String.fromUTF8? (ByteArray.mk bs.toArray)
    let num ← if n == "!" then some none else (n.toInt?).map some
    some (StrFacts.ofString s num)
  | _ => none

def parseStrs (s : String) : Option (List StrFacts) :=
  if s == "-" then some [] else (s.splitOn ",").mapM parseStr

def parseVal (tok : String) : Option GoVal :=
  if tok == "n" then some .nil
  else if tok == "b0" then some (.bool false)
  else if tok == "b1" then some (.bool true)
  else if tok == "x" then some .other
  else
    match tok.splitOn ":" with
    | [k, v] =>
      if k == "y" then
        (hexBytes v.toList).map fun bs => .bytes (bs.map (·.toNat))
      else
        match k.toList with
        | c :: ws =>
          if (c == 'i' || c == 'u') && !ws.isEmpty && ws.all isDigit then
            v.toInt?.map fun z => .num (c == 'i') (digitsVal ws) z
          else none
        | [] => none
    | _ => none

def parseVals (s : String) : Option (List GoVal) :=
  if s == "-" then some [] else (s.splitOn ",").mapM parseVal

def showErr : Err → String
  | .count => "count" | .input => "input" | .boolConst => "bool" | .tooMany => "toomany"
  | .unsupported => "unsupported" | .unsupportedElem => "unsupported-elem" | .atoi => "atoi"
  | .panic => "panic"

def showNats (l : List Nat) : String :=
  if l.isEmpty then "-" else ",".intercalate (l.map toString)

def hexOfBytes (b : ByteArray) : String :=
  String.ofList (b.toList.flatMap fun x => [hexDigit (x.toNat / 16), hexDigit (x.toNat % 16)])

partial def showRVal : RVal → String
  | .str s => "s:" ++ hexOfBytes s.toUTF8
  | .u w v => s!"u{w}:{v}"
  | .i w v => s!"i{w}:{v}"
  | .big v => s!"big:{v}"
  | .bool b => if b then "b:1" else "b:0"
  | .slice n vs => s!"[{n}:" ++ ";".intercalate (vs.map showRVal) ++ "]"
  | .fmt v => s!"fmt:{v}"

/-! ### type trees with struct members (`insts`, `mainarg`) -/

mutual
partial def pTy (cs : List Char) : Option (Ty × List Char) :=
  match cs with
  | c :: cs =>
    match tagOfChar c with
    | none => none
    | some tag =>
      match takeNat cs with
      | some (bits, '.' :: cs) =>
        match takeNat cs with
        | some (n, fl :: '@' :: cs) =>
          if fl != 'c' && fl != 'u' then none
          else
            let conc := fl == 'c'
            match takeNat cs with
            | some (off, '[' :: cs) =>
              match pTy cs with
              | some (el, ']' :: cs) => some (.elem tag conc bits n off el, cs)
              | _ => none
            | some (off, '{' :: '}' :: cs) => if tag == .struct then some (.struct conc bits n off [], cs) else none
            | some (off, '{' :: cs) =>
              if tag != .struct then none
              else
                match pTys cs with
                | some (fs, cs) => some (.struct conc bits n off fs, cs)
                | none => none
            | some (off, cs) => if tag == .struct then none else some (.base tag conc bits n off, cs)
            | none => none
        | _ => none
      | _ => none
  | [] => none
partial def pTys (cs : List Char) : Option (List Ty × List Char) :=
  match pTy cs with
  | some (a, ';' :: cs) =>
    match pTys cs with
    | some (as, cs) => some (a :: as, cs)
    | none => none
  | some (a, '}' :: cs) => some ([a], cs)
  | _ => none
end

def parseTyTok (s : String) : Option Ty :=
  match pTy s.toList with
  | some (t, []) => some t
  | _ => none

partial def showTy : Ty → String
  | .base t c b n o => s!"{charOfTag t}{b}.{n}{if c then "c" else "u"}@{o}"
  | .elem t c b n o el => s!"{charOfTag t}{b}.{n}{if c then "c" else "u"}@{o}[{showTy el}]"
  | .struct c b n o fs =>
    s!"t{b}.{n}{if c then "c" else "u"}@{o}" ++ "{" ++ ";".intercalate (fs.map showTy) ++ "}"

partial def showArg : Arg → String
  | .mk t [] => showInfo t
  | .mk t ms => showInfo t ++ "{" ++ ";".intercalate (ms.map showArg) ++ "}"

def showStage : MainStage → String
  | .sizes => "sizes" | .inst => "inst" | .parse => "parse"

def handle (args : List String) : String :=
  match args with
  | ["parse", a, strs] =>
    match parseArgTok a, parseStrs strs with
    | some a, some strs =>
      match a.parse strs with
      | .ok z => s!"ok {z}"
      | .error e => "err " ++ showErr e
    | _, _ => "bad-op"
  | ["set", a, vals] =>
    match parseArgTok a, parseVals vals with
    | some a, some vals =>
      match a.set vals with
      | .ok z => s!"ok {z}"
      | .error e => "err " ++ showErr e
    | _, _ => "bad-op"
  | ["isizes", strs] =>
    match parseStrs strs with
    | some strs =>
      match inputSizes strs with
      | .ok l => "ok " ++ showNats l
      | .error e => "err " ++ showErr e
    | none => "bad-op"
  | ["sizes", vals] =>
    match parseVals vals with
    | some vals =>
      match sizes vals with
      | .ok l => "ok " ++ showNats l
      | .error e => "err " ++ showErr e
    | none => "bad-op"
  | ["result", t, z] =>
    match parseInfoTok t, z.toInt? with
    | some t, some z =>
      match result t z with
      | .error _ => "panic"
      | .ok (v1, c1) =>
        match result t c1 with
        | .error _ => s!"{showRVal v1} {c1} panic"
        | .ok (v2, c2) => s!"{showRVal v1} {c1} {showRVal v2} {c2}"
    | _, _ => "bad-op"
  | ["split", ns, z] =>
    match (if ns == "-" then some [] else (ns.splitOn ",").mapM (·.toNat?)), z.toInt? with
    | some ns, some z => showNats (split ns z 0)
    | _, _ => "bad-op"
  | ["inst", t, c, size] =>
    match parseInfoTok t, size.toNat? with
    | some t, some size =>
      match instantiate t (c == "1") size with
      | .ok t' => "ok " ++ showInfo t'
      | .error e => "err " ++ showErr e
    | _, _ => "bad-op"
  | ["insts", t, ns] =>
    match parseTyTok t, (if ns == "-" then some [] else (ns.splitOn ",").mapM (·.toNat?)) with
    | some t, some ns =>
      match t.inst ns with
      | .ok t' => "ok " ++ showTy t'
      | .error e => "err " ++ showErr e
    | _, _ => "bad-op"
  | ["mainarg", t, strs] =>
    match parseTyTok t, parseStrs strs with
    | some t, some strs =>
      match mainArg t strs with
      | .ok (a, z) => s!"ok {showArg a} {z}"
      | .error (st, e) => s!"err {showStage st} {showErr e}"
    | _, _ => "bad-op"
  | ["ty", h] =>
    match hexBytes (h.toList.drop 1) with
    | some bs =>
      match String.fromUTF8? (ByteArray.mk bs.toArray) with
      | some s =>
        match parseType (s.length + 1) s.toList with
        | .ok (t, c) => s!"ok {showInfo t} {if c then 1 else 0}"
        | .error _ => "err"
      | none => "bad-op"
    | none => "bad-op"
  | _ => "bad-op"

end Drv.C13

def main : IO Unit := Drv.mainLoop Drv.C13.handle

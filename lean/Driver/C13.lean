import Driver.Util

namespace Drv.C13

/-- Line-protocol handler of property C13 (stub). -/
def handle (_args : List String) : String := "bad-op"

end Drv.C13

def main : IO Unit := Drv.mainLoop Drv.C13.handle

import Driver.Util
import MpcVerif.Model.SsaCircuit

/-!
Back-end tie of property C03 (T4 style): the Lean model `ssaCompile` of
`ssa.Program.Circuit` on a dumped SSA step list must produce, gate for gate,
the gate list the real `Program.Circuit` emits (before the optimisation
passes), under first-occurrence wire numbering.

`c03 BACKEND <gmw 0|1> <maxgates> ( SSA ( IN ( id bits )* ) step* )`

Result: `<tag> <nIn> <gates> <outs>` as harness/cmd/c03/backend.go prints it
(`G ...` there), where `<tag>` is `S` when the program satisfies the hypothesis
`Supported` of theorem `C03_backend_correct` and `U:<reason>` otherwise (the
check script strips the tag before comparing and counts it);
`<tag> -` when the model does not apply (`ssaCompile = none`);
`<tag> #<n>` when the gate list has more than `<maxgates>` gates (both sides
then print only the number of gates and a checksum).
-/

namespace Drv.C03Backend
open Mpc Mpc.Bld Mpc.Mpcl.Ssa Mpc.SsaC Drv

def opLetter : Op → Char
  | .xor => 'x' | .xnor => 'n' | .and => 'a' | .or => 'o' | .inv => 'i'

def opCode : Op → Nat
  | .xor => 0 | .xnor => 1 | .and => 2 | .or => 3 | .inv => 4

def gateStr (g : Gate) : String :=
  s!"{opLetter g.op}{g.in0}.{g.in1}.{g.out}"

/-- Checksum of a gate list for circuits too large to print: two polynomial
hashes modulo the prime 2^31 - 1 (backend.go computes the same). -/
def mix (m h x : Nat) : Nat := (h * m + x) % 2147483647

def gateSum1 (m : Nat) (gs : Array Gate) : Nat :=
  gs.foldl (fun h g => mix m (mix m (mix m (mix m h (opCode g.op)) g.in0) g.in1) g.out) 7

def gateSum (gs : Array Gate) : String := s!"{gateSum1 1000003 gs}.{gateSum1 998244353 gs}"

def opName : SOp → String
  | .add => "add" | .sub => "sub" | .mul => "mul" | .udiv => "udiv" | .umod => "umod" | .idiv => "idiv"
  | .imod => "imod" | .band => "band" | .bor => "bor" | .bxor => "bxor" | .bclr => "bclr" | .concat => "concat"
  | .lshift => "lshift" | .rshift => "rshift" | .srshift => "srshift" | .slice => "slice" | .index => "index"
  | .ilt => "ilt" | .ult => "ult" | .ile => "ile" | .ule => "ule" | .igt => "igt" | .ugt => "ugt" | .ige => "ige"
  | .uge => "uge" | .eq => "eq" | .neq => "neq" | .land => "land" | .lor => "lor" | .lnot => "lnot" | .mov => "mov"
  | .smov => "smov" | .amov => "amov" | .phi => "phi" | .ret => "ret"

def tag (gmw : Bool) (_ins : List (Nat × Nat)) (steps : List SInstr) (compiled : Bool) : String :=
  match steps.find? (fun i => !instrOK gmw i) with
  | some i => s!"U:{opName i.op}"
  | none => if compiled then "S" else "U:model"

def handle (parsed : Option (List (Nat × Nat) × List SInstr)) (g mx : String) : String :=
  match parsed with
  | none => "bad-ssa"
  | some (ins, steps) =>
    let gmw := g == "1"
    let maxg := mx.toNat?.getD 0
    match ssaCompile gmw ins steps with
    | none => s!"{tag gmw ins steps false} -"
    | some (s, outs) =>
      let t := tag gmw ins steps true
      let os := ",".intercalate (outs.flatten.map toString)
      if s.gates.size > maxg then s!"{t} #{s.gates.size} {gateSum s.gates} {os}"
      else
        let gs := if s.gates.isEmpty then "-" else ";".intercalate (s.gates.toList.map gateStr)
        s!"{t} {s.nIn} {gs} {os}"

end Drv.C03Backend

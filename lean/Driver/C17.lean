import Driver.Util
import MpcVerif.Model.PoolGC
import MpcVerif.Model.PoolResult

namespace Drv.C17
open Mpc.Pool

/-- `G:t:h:s:p:d | V:t:h:d | R:t:h | Q:t:h | A:t | C:t`, and in GC histories
`D:t:h` (header of `h` dropped, data retained) and `K:t` (collections forced). -/
def parseEv (s : String) : Option GEv :=
  match s.splitOn ":" with
  | ["G", t, h, x, p, d] =>
    do some (.base (.garble (← t.toNat?) (← h.toNat?) (← x.toNat?) (← p.toNat?) (← d.toNat?)))
  | ["V", t, h, d] => do some (.base (.verify (← t.toNat?) (← h.toNat?) (← d.toNat?)))
  | ["R", t, h] => do some (.base (.release (← t.toNat?) (← h.toNat?)))
  | ["Q", t, h] => do some (.base (.release2 (← t.toNat?) (← h.toNat?)))
  | ["A", t] => do some (.base (.abort (← t.toNat?)))
  | ["C", t] => do some (.base (.compute (← t.toNat?)))
  | ["D", t, h] => do some (.drop (← t.toNat?) (← h.toNat?))
  | ["K", t] => do some (.collect (← t.toNat?))
  | _ => none

/-- `C:<t>:<id>:<bits>` (goroutine `t` calls Compute, call id `id`) | `V:<t>:<id>` (the kept result of
call `id` is read again). -/
def parseRes (s : String) : Option Res.Ev :=
  match s.splitOn ":" with
  | ["C", _, id, bits] => do some (.call (← id.toNat?) (parseBits bits))
  | ["V", _, id] => do some (.read (← id.toNat?))
  | _ => none

def hexNat (n : Nat) : String := String.ofList (Nat.toDigits 16 n)

def resTok : String × Nat × Option (List Nat) → String
  | (k, id, some v) => s!"{k}{id}=" ++ ",".intercalate (v.map hexNat)
  | (k, id, none) => s!"{k}{id}=?"

/-- `c17 trace <event> <event> ...`: is the logged sequence of pool events of a
real run (a GC history included) a run of the model (each call executed as its block of atomic model
steps at the position of its log entry)?  Prints the verdict and the summary
statistics of the replay. -/
def handle (args : List String) : String :=
  match args with
  | "trace" :: evs =>
    match evs.mapM parseEv with
    | none => "bad-op"
    | some evs =>
      match replayG { r := { σ := init traceParams } } 0 evs with
      | .error m => m
      | .ok g =>
        let r := g.r
        s!"ok pools={r.σ.nPools} scratch={r.smap.length} handles={r.handles} reused={r.reused} " ++
        s!"maxlive={r.maxLive} live={r.live} releases={r.releases} noops={r.noops} aborts={r.aborts} " ++
        s!"verifies={r.verifies} dropped={g.dropped} collects={g.collects}"
  | "rhist" :: nw :: nin :: nout :: gates :: widths :: evs =>
    -- result histories: Compute as a pure function returning a fresh value (Model/PoolResult.lean); prints
    -- what the keeper of each result reads at the return of its call and at every later re-read
    match parseCircuit nw nin nout gates, (widths.splitOn ",").mapM String.toNat?, evs.mapM parseRes with
    | some c, some ws, some evs => " ".intercalate ("ok" :: (Res.replay c ws evs).map resTok)
    | _, _, _ => "bad-op"
  | _ => "bad-op"

end Drv.C17

def main : IO Unit := Drv.mainLoop Drv.C17.handle

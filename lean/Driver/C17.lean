import Driver.Util

namespace Drv.C17

/-- Line-protocol handler of property C17 (stub). -/
def handle (_args : List String) : String := "bad-op"

end Drv.C17

def main : IO Unit := Drv.mainLoop Drv.C17.handle

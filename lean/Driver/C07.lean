import Driver.Util

namespace Drv.C07

/-- Line-protocol handler of property C07 (stub). -/
def handle (_args : List String) : String := "bad-op"

end Drv.C07

def main : IO Unit := Drv.mainLoop Drv.C07.handle

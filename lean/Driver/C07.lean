import Driver.Util
import MpcVerif.Model.Builders
import MpcVerif.Model.BuildersHist
import MpcVerif.Model.BuildersOpnd

namespace Drv.C07
open Mpc Mpc.Bld Drv

def opLetter : Op → Char
  | .xor => 'x' | .xnor => 'n' | .and => 'a' | .or => 'o' | .inv => 'i'

def gateStr (g : Gate) : String :=
  s!"{opLetter g.op}{g.in0}.{g.in1}.{g.out}"

/-- `<nIn> <gates> <outs>` as printed by the harness (`Built.RawLine`). -/
def rawLine (s : St) (outs : List Nat) : String :=
  let gs := if s.gates.isEmpty then "-" else ";".intercalate (s.gates.toList.map gateStr)
  s!"{s.nIn} {gs} {",".intercalate (outs.map toString)}"

/-- Builder dispatch: `none` = the Go builder returns an error / leaves result
wires unconnected for these widths. -/
def build (name : String) (gmw : Bool) (par : Nat) (x y w : List Nat) (nz : Nat) :
    BM (Option (List Nat)) :=
  let ok (m : BM (List Nat)) : BM (Option (List Nat)) := do let r ← m; pure (some r)
  let mx := max x.length y.length
  match name with
  | "add" => ok (newAdder gmw x y nz)
  | "sub" => ok (newSubtractor gmw x y nz)
  | "addks" => ok (ksAdder x y nz)
  | "subks" => ok (ksSubtractor x y nz)
  | "mul" => newMultiplier gmw x y nz
  | "mularray" => ok (arrayMultiplier x y nz)
  | "mulwallace" => ok (wallace x y nz)
  | "mulkara" => karatsuba gmw par (2 * mx + 8) x y nz
  | "ugt" => ok (comparator false .gt x y)
  | "uge" => ok (comparator false .ge x y)
  | "ult" => ok (comparator false .lt x y)
  | "ule" => ok (comparator false .le x y)
  | "igt" => ok (comparator true .gt x y)
  | "ige" => ok (comparator true .ge x y)
  | "ilt" => ok (comparator true .lt x y)
  | "ile" => ok (comparator true .le x y)
  | "eq" => ok (eqComparator x y)
  | "neq" => ok (neqComparator x y)
  | "band" => if nz ≤ mx then ok (binaryAnd x y nz) else pure none
  | "bor" => if nz ≤ mx then ok (binaryOr x y nz) else pure none
  | "bxor" => if nz ≤ mx then ok (binaryXor x y nz) else pure none
  | "bclr" => if nz ≤ mx then ok (binaryClear x y nz) else pure none
  | "land" => ok (logicalAnd x y)
  | "lor" => ok (logicalOr x y)
  | "bts" => ok (bitSetTest x par)
  | "btc" => ok (bitClrTest x par)
  | "mux" => newMUX (w.getD 0 0) x y nz
  | "index" => ok (newIndex par x y)
  | "hamming" => ok (hamming gmw x y nz)
  | "udiv" => if !gmw then ok (do let d ← uDividerLong gmw x y nz 0; pure d.1)
      else ok (do let d ← goldschmidt x y nz 0; pure d.1)
  | "umod" => if !gmw then ok (do let d ← uDividerLong gmw x y 0 nz; pure d.2)
      else ok (do let d ← goldschmidt x y 0 nz; pure d.2)
  | "udivmod" => if !gmw then ok (do let d ← uDividerLong gmw x y nz nz; pure (d.1 ++ d.2))
      else ok (do let d ← goldschmidt x y nz nz; pure (d.1 ++ d.2))
  | "udivgold" => ok (do let d ← goldschmidt x y nz nz; pure (d.1 ++ d.2))
  | "udivlong" => if true then ok (do let d ← uDividerLong gmw x y nz nz; pure (d.1 ++ d.2)) else pure none
  | "idiv" => ok (do let d ← iDivider gmw x y nz 0; pure d.1)
  | "imod" => ok (do let d ← iDivider gmw x y 0 nz; pure d.2)
  | _ => pure none

def known (name : String) : Bool :=
  ["add", "sub", "addks", "subks", "mul", "mularray", "mulwallace", "mulkara", "ugt", "uge", "ult", "ule",
   "igt", "ige", "ilt", "ile", "eq", "neq", "band", "bor", "bxor", "bclr", "land", "lor", "bts", "btc",
   "mux", "index", "hamming", "udiv", "umod", "udivmod", "udivlong", "udivgold", "idiv", "imod"].contains name

/-- Build like the harness: inputs `x ‖ y ‖ w`, optional prologue, builder, `ret`. -/
def buildCircuit (name : String) (gmw pro : Bool) (nx ny nw nz par : Nat) : Option (St × List Nat) :=
  let s0 := initSt (nx + ny + nw) pro
  let r := build name gmw par (inputWires 0 nx) (inputWires nx ny) (inputWires (nx + ny) nw) nz s0
  match r.1 with
  | none => none
  | some z =>
    let o := retWires z r.2
    some (o.2, o.1)

def nat! (s : String) : Nat := s.toNat?.getD 0

/-! ### Builder histories on one state (Model/BuildersHist.lean) -/

/-- One call of a history as written by harness/cmd/c07/hist.go:
`<builder>,<nz>,<par>,<x>,<y>,<w>`; an operand is `-` or a `+`-separated list of
pieces `b<k>.<lo>.<len>` (bus slice), `z<n>` (n copies of the zero wire),
`o<n>` (n copies of the one wire), least significant first
(Model/BuildersOpnd.lean). -/
structure HStep where
  name : String
  nz : Nat
  par : Nat
  x : List Piece
  y : List Piece
  w : List Piece

def parsePiece (s : String) : Option Piece :=
  if s.startsWith "z" then (s.drop 1).toString.toNat?.map Piece.zeros else
  if s.startsWith "o" then (s.drop 1).toString.toNat?.map Piece.ones else
  if !s.startsWith "b" then none else
  match (s.drop 1).toString.splitOn "." with
  | [k, lo, len] => some (Piece.bus (nat! k) (nat! lo) (nat! len))
  | _ => none

def parseSrc (s : String) : Option (List Piece) :=
  if s == "-" then some [] else (s.splitOn "+").mapM parsePiece

def parseStep (s : String) : Option HStep :=
  match s.splitOn "," with
  | [b, nz, par, x, y, w] => do
    let x ← parseSrc x
    let y ← parseSrc y
    let w ← parseSrc w
    if known b then some { name := b, nz := nat! nz, par := nat! par, x := x, y := y, w := w } else none
  | _ => none

/-- Result width of a call (two result buses for the quotient-and-remainder builders). -/
def HStep.outWidth (st : HStep) : Nat :=
  if st.name == "udivmod" || st.name == "udivgold" || st.name == "udivlong" then 2 * st.nz else st.nz

/-- The call of the history: the same generator `build` that the single-call
ops use, applied to operand buses made of slices of the buses known so far and of the
constant wires (`mkOperand`, in the order x, y, w). -/
def HStep.call (gmw : Bool) (st : HStep) : Call :=
  shapedCall3 (fun x y w => do
    let r ← build st.name gmw st.par x y w st.nz
    pure (r.getD [])) st.x st.y st.w

def parseHist (inw steps : String) : Option (List Nat × List HStep) := do
  let st ← (steps.splitOn "|").mapM parseStep
  some ((inw.splitOn ",").map nat!, st)

/-- `hgr`: the whole history generated on ONE state, then evaluated on the given inputs. -/
def histLine (gmw pro : Bool) (ws : List Nat) (steps : List HStep) (ins : List String) : String :=
  let r := runHistory pro ws (steps.map (HStep.call gmw))
  if (r.2.map List.length) != steps.map HStep.outWidth then "unconnected-or-error" else
  let outs := r.2.flatten
  let evals := ins.map fun inb =>
    let v := r.1.vals (parseBits inb)
    " | " ++ bitsStr (outs.map fun w => v.getD w false)
  rawLine r.1 outs ++ String.join evals

/-! ### Validated hypothesis `goldschmidt-estimate-within-one`

The quotient estimate of `NewUDividerGoldschmidtFast` (the Lean generator
`goldEstimate`, tied gate for gate to the Go code by T4) is evaluated
bit-sliced (64 operand pairs per pass) and compared with `⌊a / b⌋`. -/

def evalSliced (gs : Array Gate) (inp : Array UInt64) : Array UInt64 := Id.run do
  let mut v := inp
  for g in gs do
    let a := v.getD g.in0 0
    let b := v.getD g.in1 0
    let r := match g.op with
      | .xor => a ^^^ b | .xnor => ~~~(a ^^^ b) | .and => a &&& b | .or => a ||| b | .inv => ~~~a
    v := v.push r
  return v

/-- The estimate circuit for operand width `n`: state and the estimate wires. -/
def estCircuit (n : Nat) : St × List Nat :=
  let s0 := initSt (2 * n) true
  let r := (do let p ← zeroPad (inputWires 0 n) (inputWires n n); goldEstimate p.1 p.2) s0
  (r.2, r.1)

structure EstStat where
  pairs : Nat := 0
  viol  : Nat := 0
  minD  : Int := 0
  maxD  : Int := 0
  ex    : String := "-"

/-- Evaluate one batch (at most 64 pairs, `b ≠ 0`). -/
def estBatch (n : Nat) (gs : Array Gate) (qw : Array Nat) (ps : Array (Nat × Nat)) (st : EstStat)
    (pre : Array UInt64 := #[]) : EstStat := Id.run do
  -- `pre`: values of the input wires in front of the two operands (history form: the operands of the earlier divider)
  let mut inp : Array UInt64 := pre ++ Array.replicate (2 * n) 0
  for i in [0:n] do
    let mut wa : UInt64 := 0
    let mut wb : UInt64 := 0
    for k in [0:ps.size] do
      let p := ps[k]!
      if p.1.testBit i then wa := wa ||| ((1 : UInt64) <<< k.toUInt64)
      if p.2.testBit i then wb := wb ||| ((1 : UInt64) <<< k.toUInt64)
    inp := inp.set! (pre.size + i) wa
    inp := inp.set! (pre.size + n + i) wb
  let v := evalSliced gs inp
  let mut st := st
  for k in [0:ps.size] do
    let p := ps[k]!
    let mut q : Nat := 0
    for i in [0:qw.size] do
      if ((v.getD qw[i]! 0) >>> k.toUInt64) &&& 1 == 1 then q := q ||| (1 <<< i)
    let d : Int := (q : Int) - ((p.1 / p.2 : Nat) : Int)
    let bad := d < -1 || d > 1
    st := { pairs := st.pairs + 1,
            viol := if bad then st.viol + 1 else st.viol,
            minD := if d < st.minD then d else st.minD,
            maxD := if d > st.maxD then d else st.maxD,
            ex := if bad && st.ex == "-" then s!"{p.1}/{p.2}:estimate={q}" else st.ex }
  return st

def estRun (n : Nat) (pairs : Array (Nat × Nat)) : String := Id.run do
  let (s, qws) := estCircuit n
  let gs := s.gates
  let qw := qws.toArray
  let mut st : EstStat := {}
  let mut batch : Array (Nat × Nat) := #[]
  for p in pairs do
    if p.2 != 0 then
      batch := batch.push p
      if batch.size == 64 then
        st := estBatch n gs qw batch st
        batch := #[]
  if batch.size > 0 then st := estBatch n gs qw batch st
  return s!"n={n} gates={gs.size} estimate_bits={qw.size} pairs={st.pairs} min={st.minD} max={st.maxD} viol={st.viol} ex={st.ex}"

/-- All pairs of width `n`, streamed (no big array). -/
def estExhaustive (n : Nat) : String := Id.run do
  let (s, qws) := estCircuit n
  let gs := s.gates
  let qw := qws.toArray
  let mut st : EstStat := {}
  let mut batch : Array (Nat × Nat) := #[]
  for a in [0:2 ^ n] do
    for b in [1:2 ^ n] do
      batch := batch.push (a, b)
      if batch.size == 64 then
        st := estBatch n gs qw batch st
        batch := #[]
  if batch.size > 0 then st := estBatch n gs qw batch st
  return s!"n={n} gates={gs.size} estimate_bits={qw.size} pairs={st.pairs} min={st.minD} max={st.maxD} viol={st.viol} ex={st.ex}"

/-- The estimate circuit of a width-`n2` divider built AFTER a complete width-`n1`
Goldschmidt divider on the same state (a history of two dividers). -/
def estCircuitHist (n1 n2 : Nat) : St × List Nat :=
  let s0 := initSt (2 * n1 + 2 * n2) true
  let r := (do
    let _ ← goldschmidt (inputWires 0 n1) (inputWires n1 n1) n1 n1
    let p ← zeroPad (inputWires (2 * n1) n2) (inputWires (2 * n1 + n2) n2)
    goldEstimate p.1 p.2) s0
  (r.2, r.1)

def lcg (x : Nat) : Nat := (x * 6364136223846793005 + 1442695040888963407) % 2 ^ 64

/-- Structured operand pairs of width `n`: random values of random bit length,
powers of two and their neighbours, all-ones, small divisors, dividends
`m·b + {0, b-1, -1}`, `b ∈ {a-1, a, a+1}`. -/
def estStructured (n count seed : Nat) : Array (Nat × Nat) := Id.run do
  let m := 2 ^ n
  let mut x := lcg (seed + 977 * n + 1)
  let mut out : Array (Nat × Nat) := #[]
  for i in [0:count] do
    x := lcg x
    let r1 := x
    x := lcg x
    let r2 := x
    x := lcg x
    let r3 := x
    let la := r3 % n + 1
    let lb := (r3 / 64) % n + 1
    let va := r1 % 2 ^ la
    let vb := r2 % 2 ^ lb
    let special (r l : Nat) : Nat :=
      match r % 5 with
      | 0 => 2 ^ (l - 1) | 1 => 2 ^ l - 1 | 2 => 2 ^ (l - 1) + 1 | 3 => (2 ^ l - 1) - (r / 8) % 4 | _ => (r / 8) % 16 + 1
    let p : Nat × Nat :=
      match i % 8 with
      | 0 => (va, vb)
      | 1 => (r1 % m, vb)
      | 2 => (special r1 la, special r2 lb)
      | 3 => (r1 % m, special r2 lb)
      | 4 => let b := vb + 1; let k := (r1 % m) / b; (k * b, b)
      | 5 => let b := vb + 1; let k := (r1 % m) / b; (k * b + b - 1, b)
      | 6 => let b := vb + 2; let k := (r1 % m) / b; (k * b - 1, b)
      | _ => let a := r1 % m; (a, a + 1 - r2 % 3)
    out := out.push (p.1 % m, p.2 % m)
  return out


/-- Hypothesis `goldschmidt-estimate-within-one` from a NON-FRESH state: the second
divider of a history; `count` structured operand pairs of the first divider, for
each of them all (width ≤ 6) / 512 structured operand pairs of the second. -/
def estHist (n1 n2 count seed : Nat) : String := Id.run do
  let (s, qws) := estCircuitHist n1 n2
  let gs := s.gates
  let qw := qws.toArray
  let firsts := (estStructured n1 (count + 2) (seed + 31)).extract 0 count
  let seconds : Array (Nat × Nat) := if n2 ≤ 6 then Id.run do
      let mut a : Array (Nat × Nat) := #[]
      for x in [0:2 ^ n2] do
        for y in [1:2 ^ n2] do
          a := a.push (x, y)
      return a
    else estStructured n2 512 (seed + 57)
  let mut st : EstStat := {}
  for f in firsts do
    let mut pre : Array UInt64 := #[]
    for i in [0:n1] do
      pre := pre.push (if f.1.testBit i then (0 : UInt64) - 1 else 0)
    for i in [0:n1] do
      pre := pre.push (if f.2.testBit i then (0 : UInt64) - 1 else 0)
    let mut batch : Array (Nat × Nat) := #[]
    for p in seconds do
      if p.2 != 0 then
        batch := batch.push p
        if batch.size == 64 then
          st := estBatch n2 gs qw batch st pre
          batch := #[]
    if batch.size > 0 then st := estBatch n2 gs qw batch st pre
  return s!"n={n2} after={n1} gates={gs.size} estimate_bits={qw.size} pairs={st.pairs} min={st.minD} max={st.maxD} viol={st.viol} ex={st.ex}"

/-- Ops:
 `gen  <builder> <target> <pro> <nx> <ny> <nw> <nz> <par>`          -> canonical gate list
 `run  <builder> <target> <pro> <nx> <ny> <nw> <nz> <par> <inbits>` -> output bits of the generated circuit
 `evalc <numWires> <nIn> <nOut> <gates> <inbits>`                   -> `Circuit.compute` of a compiled circuit
 `estexh <n>` / `estrnd <n> <count> <seed>`                           -> Goldschmidt estimate vs floor(a/b): all /
                                                                        structured operand pairs of width n
 `corrstep <old|new> <n> <a> <b> <q>`                                -> quotient and remainder of the Goldschmidt
                                                                        correction step on the estimate `q`
 `hgr <target> <pro> <inwidths> <calls> <inbits>*`                    -> a HISTORY of builder calls on one state:
                                                                        canonical gate list ` | ` output bits per input
 `esthist <n1> <n2> <count> <seed>`                                   -> Goldschmidt estimate of a width-n2 divider built
                                                                        AFTER a width-n1 divider on the same state -/
def handle (args : List String) : String :=
  match args with
  | ["gen", b, t, pro, nx, ny, nw, nz, par] =>
    if !known b then "bad-op" else
    match buildCircuit b (t == "1") (pro == "1") (nat! nx) (nat! ny) (nat! nw) (nat! nz) (nat! par) with
    | none => "unconnected-or-error"
    | some (s, outs) => rawLine s outs
  | ["run", b, t, pro, nx, ny, nw, nz, par, inb] =>
    if !known b then "bad-op" else
    match buildCircuit b (t == "1") (pro == "1") (nat! nx) (nat! ny) (nat! nw) (nat! nz) (nat! par) with
    | none => "unconnected-or-error"
    | some (s, outs) =>
      let v := s.vals (parseBits inb)
      bitsStr (outs.map fun w => v.getD w false)
  | "hgr" :: t :: pro :: inw :: steps :: ins =>
    match parseHist inw steps with
    | none => "bad-op"
    | some (ws, st) => histLine (t == "1") (pro == "1") ws st ins
  | ["esthist", n1, n2, count, seed] => estHist (nat! n1) (nat! n2) (nat! count) (nat! seed)
  | ["thr", n] => toString (multiplierArrayThreshold (nat! n))
  | ["estexh", n] => estExhaustive (nat! n)
  | ["estrnd", n, count, seed] => estRun (nat! n) (estStructured (nat! n) (nat! count) (nat! seed))
  | ["corrstep", which, n, a, b, q] =>
    -- the Goldschmidt correction step alone (current / pre-776d360 definition) on a given estimate
    let n := nat! n
    let f := if which == "old" then goldCorrectionOld else goldCorrection
    let qv := evalBuilder3 (fun x y z => do let d ← f x y z n n; pure d.1) true
      (ofNat n (nat! a)) (ofNat n (nat! b)) (ofNat n (nat! q))
    let rv := evalBuilder3 (fun x y z => do let d ← f x y z n n; pure d.2) true
      (ofNat n (nat! a)) (ofNat n (nat! b)) (ofNat n (nat! q))
    s!"{toNat qv} {toNat rv}"
  | ["evalc", nw, nin, nout, gates, inb] =>
    match parseCircuit nw nin nout gates with
    | some c => bitsStr (c.compute (parseBits inb))
    | none => "bad-op"
  | _ => "bad-op"

end Drv.C07

def main : IO Unit := Drv.mainLoop Drv.C07.handle

import Driver.Util
import MpcVerif.Model.Builders

namespace Drv.C07
open Mpc Mpc.Bld Drv

def opLetter : Op → Char
  | .xor => 'x' | .xnor => 'n' | .and => 'a' | .or => 'o' | .inv => 'i'

def gateStr (g : Gate) : String :=
  s!"{opLetter g.op}{g.in0}.{g.in1}.{g.out}"

/-- `<nIn> <gates> <outs>` as printed by the harness (`Built.RawLine`). -/
def rawLine (s : St) (outs : List Nat) : String :=
  let gs := if s.gates.isEmpty then "-" else ";".intercalate (s.gates.toList.map gateStr)
  s!"{s.nIn} {gs} {",".intercalate (outs.map toString)}"

/-- Builder dispatch: `none` = the Go builder returns an error / leaves result
wires unconnected for these widths. -/
def build (name : String) (gmw : Bool) (par : Nat) (x y w : List Nat) (nz : Nat) :
    BM (Option (List Nat)) :=
  let ok (m : BM (List Nat)) : BM (Option (List Nat)) := do let r ← m; pure (some r)
  let mx := max x.length y.length
  match name with
  | "add" => ok (newAdder gmw x y nz)
  | "sub" => ok (newSubtractor gmw x y nz)
  | "addks" => ok (ksAdder x y nz)
  | "subks" => ok (ksSubtractor x y nz)
  | "mul" => newMultiplier gmw x y nz
  | "mularray" => ok (arrayMultiplier x y nz)
  | "mulwallace" => ok (wallace x y nz)
  | "mulkara" => karatsuba gmw par (2 * mx + 8) x y nz
  | "ugt" => ok (comparator false .gt x y)
  | "uge" => ok (comparator false .ge x y)
  | "ult" => ok (comparator false .lt x y)
  | "ule" => ok (comparator false .le x y)
  | "igt" => ok (comparator true .gt x y)
  | "ige" => ok (comparator true .ge x y)
  | "ilt" => ok (comparator true .lt x y)
  | "ile" => ok (comparator true .le x y)
  | "eq" => ok (eqComparator x y)
  | "neq" => ok (neqComparator x y)
  | "band" => if nz ≤ mx then ok (binaryAnd x y nz) else pure none
  | "bor" => if nz ≤ mx then ok (binaryOr x y nz) else pure none
  | "bxor" => if nz ≤ mx then ok (binaryXor x y nz) else pure none
  | "bclr" => if nz ≤ mx then ok (binaryClear x y nz) else pure none
  | "land" => ok (logicalAnd x y)
  | "lor" => ok (logicalOr x y)
  | "bts" => ok (bitSetTest x par)
  | "btc" => ok (bitClrTest x par)
  | "mux" => newMUX (w.getD 0 0) x y nz
  | "index" => ok (newIndex par x y)
  | "hamming" => ok (hamming gmw x y nz)
  | "udiv" => if nz ≤ mx ∧ !gmw then ok (do let d ← uDividerLong gmw x y nz 0; pure d.1) else pure none
  | "umod" => if nz ≤ mx ∧ !gmw then ok (do let d ← uDividerLong gmw x y 0 nz; pure d.2) else pure none
  | "udivmod" => if nz ≤ mx ∧ !gmw then ok (do let d ← uDividerLong gmw x y nz nz; pure (d.1 ++ d.2)) else pure none
  | "udivlong" => if nz ≤ mx then ok (do let d ← uDividerLong gmw x y nz nz; pure (d.1 ++ d.2)) else pure none
  | "idiv" => if nz ≤ mx ∧ !gmw then ok (do let d ← iDivider gmw x y nz 0; pure d.1) else pure none
  | "imod" => if nz ≤ mx ∧ !gmw then ok (do let d ← iDivider gmw x y 0 nz; pure d.2) else pure none
  | _ => pure none

def known (name : String) : Bool :=
  ["add", "sub", "addks", "subks", "mul", "mularray", "mulwallace", "mulkara", "ugt", "uge", "ult", "ule",
   "igt", "ige", "ilt", "ile", "eq", "neq", "band", "bor", "bxor", "bclr", "land", "lor", "bts", "btc",
   "mux", "index", "hamming", "udiv", "umod", "udivmod", "udivlong", "idiv", "imod"].contains name

/-- Build like the harness: inputs `x ‖ y ‖ w`, optional prologue, builder, `ret`. -/
def buildCircuit (name : String) (gmw pro : Bool) (nx ny nw nz par : Nat) : Option (St × List Nat) :=
  let s0 := initSt (nx + ny + nw) pro
  let r := build name gmw par (inputWires 0 nx) (inputWires nx ny) (inputWires (nx + ny) nw) nz s0
  match r.1 with
  | none => none
  | some z =>
    let o := retWires z r.2
    some (o.2, o.1)

def nat! (s : String) : Nat := s.toNat?.getD 0

/-- Ops:
 `gen  <builder> <target> <pro> <nx> <ny> <nw> <nz> <par>`          -> canonical gate list
 `run  <builder> <target> <pro> <nx> <ny> <nw> <nz> <par> <inbits>` -> output bits of the generated circuit
 `evalc <numWires> <nIn> <nOut> <gates> <inbits>`                   -> `Circuit.compute` of a compiled circuit -/
def handle (args : List String) : String :=
  match args with
  | ["gen", b, t, pro, nx, ny, nw, nz, par] =>
    if !known b then "bad-op" else
    match buildCircuit b (t == "1") (pro == "1") (nat! nx) (nat! ny) (nat! nw) (nat! nz) (nat! par) with
    | none => "unconnected-or-error"
    | some (s, outs) => rawLine s outs
  | ["run", b, t, pro, nx, ny, nw, nz, par, inb] =>
    if !known b then "bad-op" else
    match buildCircuit b (t == "1") (pro == "1") (nat! nx) (nat! ny) (nat! nw) (nat! nz) (nat! par) with
    | none => "unconnected-or-error"
    | some (s, outs) =>
      let v := s.vals (parseBits inb)
      bitsStr (outs.map fun w => v.getD w false)
  | ["thr", n] => toString (multiplierArrayThreshold (nat! n))
  | ["evalc", nw, nin, nout, gates, inb] =>
    match parseCircuit nw nin nout gates with
    | some c => bitsStr (c.compute (parseBits inb))
    | none => "bad-op"
  | _ => "bad-op"

end Drv.C07

def main : IO Unit := Drv.mainLoop Drv.C07.handle

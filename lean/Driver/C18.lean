import Driver.Util
import MpcVerif.Model.Sha2pc
import MpcVerif.Model.Sha2pcProc
import MpcVerif.Model.Sha2pcEnv
import Std.Data.HashMap

/-!
Line-protocol driver of property C18 (model side of the correspondence).

The driver is *stateful*: `base` lines store a byte string in a named slot,
`circ` stores the per-gate table-label counts of the embedded circuit; `dec`
lines apply an edit script to a slot, check length and FNV-1a of the edited
bytes against the values the harness computed, run the model decoder and
print the canonical outcome line.

  circ <digits>                          one digit 0..3 per gate -> `circ n=<gates> sum=<labels> r3len=<n>`
  curve <name> <p-hex> <b-hex> <bytelen> -> `curve ok` when the built-in constants agree
  base <slot> <hex>                      -> `base <len>:<fnv>`
  dec <kind> <curve> <slot> <edits> <len>:<fnv>
        kind in R1 R2 R3 GS ES            -> `ok <dump> canon=<0|1> re=<len>:<fnv>` | `err` | `panic`
  encR1 <curve> <sid> <cn-hex|-> <ax> <ay>              -> `ok <hex>` | `err`
  encGS <curve> <sid> <cn-hex|-> <sc> <ax> <ay> <ix> <iy> -> `ok <hex>` | `err`
  cfull <numWires> <nIn> <nOut> <gates>  -> stores the circuit: `cfull gates=<n> wf=<0|1> outdef=<0|1>`
  ceval <a-hex> <b-hex>                  -> `<digest-hex>` (Lean `Circuit.compute` on the stored circuit)
  hist <k> <refs> <schedule>             a HISTORY of k sessions in one process (Model/Sha2pcProc.lean):
        refs     = k groups separated by `|`, each `m1,gs,m2,es,m3,digest`: the tags (deep hashes) of the
                   values the session produces when it runs alone -- the model's round functions as a table
        schedule = events separated by `,`: `<i>.g1` `<i>.e2<x>` `<i>.g3<x><y>` `<i>.e4<x><y>`, x,y in m|b
                   (input consumed in memory | through bytes), optionally followed by a DISTURBANCE of the step:
                   `!r<off>k<kind>` the random source fails at byte <off> (kind 0|1|2), `!f<src>` the message is the
                   one session <src> holds, `!s<src>` (round 4) the evaluator state is the one of session <src>,
                   `!u<mu>` the message's bytes are mutated in transit (Model/Sha2pcProc.lean `Dist`, `mutate`)
        -> `hist <status>/<state>;...` one entry per event: status ok|err|panic|off and the whole process
           state after the event (`Proc.step`): sessions separated by `|`, six slots each, `-` = empty

edits: `-` or a comma separated list, applied left to right:
  t<N> truncate to N bytes | a<hex> append | x<off>.<hh> xor one byte |
  w<off>.<hex> overwrite | i<off>.<hex> insert | d<off>.<len> delete
-/

namespace Drv.C18
open Mpc Mpc.Sha2pc Drv

/-! ### NIST curves (concrete `Curve.decompress`) -/

def powMod (b e m : Nat) : Nat := Id.run do
  let mut r := 1 % m
  let mut base := b % m
  let mut e := e
  for _ in [0:e.log2 + 1] do
    if e % 2 = 1 then r := r * base % m
    base := base * base % m
    e := e / 2
  return r

/-- Square root modulo a prime `p` (Tonelli-Shanks); `none` for non-residues. -/
def sqrtMod (a p : Nat) : Option Nat := Id.run do
  let a := a % p
  if a = 0 then return some 0
  if powMod a ((p - 1) / 2) p ≠ 1 then return none
  if p % 4 = 3 then return some (powMod a ((p + 1) / 4) p)
  -- p - 1 = q 2^s
  let mut q := p - 1
  let mut s := 0
  for _ in [0:p.log2 + 1] do
    if q % 2 = 0 then
      q := q / 2
      s := s + 1
  -- a non-residue
  let mut z := 2
  let mut found := false
  for _ in [0:1000] do
    if !found then
      if powMod z ((p - 1) / 2) p = 1 then z := z + 1 else found := true
  let mut m := s
  let mut c := powMod z q p
  let mut t := powMod a q p
  let mut r := powMod a ((q + 1) / 2) p
  for _ in [0:s + 1] do
    if t ≠ 1 then
      -- least i with t^(2^i) = 1
      let mut i := 0
      let mut tt := t
      for _ in [0:m] do
        if tt ≠ 1 then
          tt := tt * tt % p
          i := i + 1
      let bb := powMod c (2 ^ (m - i - 1)) p
      m := i
      c := bb * bb % p
      t := t * c % p
      r := r * bb % p
  return some r

structure NistParams where
  name : String
  p : Nat
  b : Nat
  byteLen : Nat

def p224 : NistParams :=
  { name := "P-224", p := 2 ^ 224 - 2 ^ 96 + 1,
    b := 0xb4050a850c04b3abf54132565044b0b7d7bfd8ba270b39432355ffb4, byteLen := 28 }
def p256 : NistParams :=
  { name := "P-256", p := 2 ^ 256 - 2 ^ 224 + 2 ^ 192 + 2 ^ 96 - 1,
    b := 0x5ac635d8aa3a93e7b3ebbd55769886bc651d06b0cc53b0f63bce3c3e27d2604b, byteLen := 32 }
def p384 : NistParams :=
  { name := "P-384", p := 2 ^ 384 - 2 ^ 128 - 2 ^ 96 + 2 ^ 32 - 1,
    b := 0xb3312fa7e23ee7e4988e056be3f82d19181d9c6efe8141120314088f5013875ac656398d8a2ed19d2a85c8edd3ec2aef,
    byteLen := 48 }
def p521 : NistParams :=
  { name := "P-521", p := 2 ^ 521 - 1,
    b := 0x051953eb9618e1c9a1f929a21a0b68540eea2da725b99b315f3b8b489918ef109e156193951ec7e937b1652c0bd3bb1bf073573df883d2c34f1ef451fd46b503f00,
    byteLen := 66 }

def nistOf (name : String) : Option NistParams :=
  [p224, p256, p384, p521].find? (·.name == name)

def rhsNist (P : NistParams) (x : Nat) : Nat := (x * x % P.p * x + (P.p - 3) * x + P.b) % P.p

/-- Some square root of x³ − 3x + b, `none` when there is none. -/
def rootNist (P : NistParams) (x : Nat) : Option Nat :=
  let rhs := rhsNist P x
  match sqrtMod rhs P.p with
  | none => none
  | some y => if y * y % P.p ≠ rhs then none else some y

abbrev RootCache := Std.HashMap (String × Nat) (Option Nat)

/-- `elliptic.UnmarshalCompressed` for y² = x³ − 3x + b over GF(p).  The cache
only memoises `rootNist` (the same abscissas recur in every mutation of one
payload); a miss is computed. -/
def decompressNist (cache : RootCache) (P : NistParams) (x : Nat) (odd : Bool) : Option Nat :=
  if P.p ≤ x then none
  else
    let root := match cache.get? (P.name, x) with
      | some r => r
      | none => rootNist P x
    match root with
    | none => none
    | some y => if y.testBit 0 == odd then some y else some ((P.p - y) % P.p)

def curveOf (cache : RootCache) (P : NistParams) : Curve :=
  { name := P.name.toUTF8.toList, byteLen := P.byteLen, decompress := decompressNist cache P }

/-- Fill the cache with the abscissas a round-2 payload of this length would
carry (pure optimisation). -/
def prescan (cache : RootCache) (P : NistParams) (input : ByteArray) : RootCache := Id.run do
  let need := 256 * P.byteLen + 32
  -- only the standard layout (one-byte length prefix, five-byte curve name)
  if input.size ≠ need + 16 then return cache
  let start := input.size - need
  let mut c := cache
  for i in [0:256] do
    let xb := input.extract (start + i * P.byteLen) (start + (i + 1) * P.byteLen)
    let x := beNat xb.toList
    if x < P.p ∧ !c.contains (P.name, x) then
      c := c.insert (P.name, x) (rootNist P x)
  return c

/-! ### helpers -/

def fnv (b : ByteArray) : UInt64 :=
  b.foldl (fun h x => (h ^^^ x.toUInt64) * 0x100000001b3) 0xcbf29ce484222325

def hexNat (n : Nat) : String := String.ofList (Nat.toDigits 16 n)

def natOfHex (s : String) : Option Nat :=
  s.toList.foldlM (fun acc ch => (Aes.hexVal ch).map fun v => acc * 16 + v) 0

def bytesHex (b : Bytes) : String := Aes.hexOfBytes (ByteArray.mk b.toArray)

def tagOf (b : ByteArray) : String := s!"{b.size}:{hexNat (fnv b).toNat}"

def hexArg (s : String) : Option ByteArray := if s == "-" then some ByteArray.empty else Aes.bytesOfHex s

/-- One edit of the mutation script. -/
def applyEdit (b : ByteArray) (e : String) : Option ByteArray :=
  match e.toList with
  | [] => none
  | k :: restL =>
    let rest := String.ofList restL
    match k with
    | 't' => do
      let n ← rest.toNat?
      if n ≤ b.size then some (b.extract 0 n) else none
    | 'a' => do
      let h ← hexArg rest
      some (b ++ h)
    | 'x' =>
      match rest.splitOn "." with
      | [o, h] => do
        let o ← o.toNat?
        let h ← hexArg h
        if h.size = 1 ∧ o < b.size then some (b.set! o (b.get! o ^^^ h.get! 0)) else none
      | _ => none
    | 'w' =>
      match rest.splitOn "." with
      | [o, h] => do
        let o ← o.toNat?
        let h ← hexArg h
        if o + h.size ≤ b.size then some (b.extract 0 o ++ h ++ b.extract (o + h.size) b.size) else none
      | _ => none
    | 'i' =>
      match rest.splitOn "." with
      | [o, h] => do
        let o ← o.toNat?
        let h ← hexArg h
        if o ≤ b.size then some (b.extract 0 o ++ h ++ b.extract o b.size) else none
      | _ => none
    | 'd' =>
      match rest.splitOn "." with
      | [o, l] => do
        let o ← o.toNat?
        let l ← l.toNat?
        if o + l ≤ b.size then some (b.extract 0 o ++ b.extract (o + l) b.size) else none
      | _ => none
    | _ => none

def applyEdits (b : ByteArray) (s : String) : Option ByteArray :=
  if s == "-" then some b else (s.splitOn ",").foldlM applyEdit b

/-! ### canonical dumps -/

def labelHex (l : Sha2pc.Label) : String := hex128 l

def dumpR1 (m : Round1) : String :=
  s!"sid={m.sid};cn={bytesHex m.curveName};ax={hexNat m.ax};ay={hexNat m.ay}"

def dumpR2 (m : Round2) : String :=
  s!"sid={m.sid};cn={bytesHex m.curveName};pts=" ++
    ",".intercalate (m.choices.map fun p => hexNat p.x ++ ":" ++ hexNat p.y)

def dumpR3 (m : Round3) : String :=
  s!"sid={m.sid};key={bytesHex m.key};t=" ++
    ",".intercalate (m.tables.map fun row => String.join (row.map labelHex)) ++
    ";in=" ++ String.join (m.inputs.map labelHex) ++
    ";h=" ++ ",".intercalate (m.hints.map fun p => labelHex p.1 ++ labelHex p.2) ++
    ";ct=" ++ ",".intercalate (m.cts.map fun p => labelHex p.1 ++ labelHex p.2)

def dumpGS (m : GarblerSession) : String :=
  s!"sid={m.sid};cn={bytesHex m.curveName};sc={hexNat m.scalar};ax={hexNat m.ax};ay={hexNat m.ay};" ++
    s!"ix={hexNat m.ainvx};iy={hexNat m.ainvy}"

def dumpES (m : EvaluatorSession) : String :=
  s!"sid={m.sid};cn={bytesHex m.curveName};ax={hexNat m.ax};ay={hexNat m.ay};sc=" ++
    ",".intercalate (m.scalars.map hexNat) ++ ";bits=" ++ bitsStr m.bits

def shortOrHash (d : String) : String :=
  if d.length ≤ 400 then d else "h=" ++ tagOf d.toUTF8

def outcome {α : Type} (input : ByteArray) (r : Res α) (dump : α → String) (reenc : α → Res Bytes) : String :=
  match r with
  | .error => "err"
  | .panic => "panic"
  | .ok m =>
    let d := shortOrHash (dump m)
    match reenc m with
    | .ok b =>
      let ba := ByteArray.mk b.toArray
      let canon := if ba.data == input.data then "1" else "0"
      s!"ok {d} canon={canon} re={tagOf ba}"
    | .error => s!"ok {d} canon=0 re=err"
    | .panic => s!"ok {d} canon=0 re=panic"

/-! ### histories (Model/Sha2pcProc.lean on tags) -/

abbrev tagTy : Ty := { M1 := String, GS := String, M2 := String, ES := String, M3 := String, D := String }

/-- The rounds of one session as the table of the values its isolated run
produced: a round returns the recorded value when it is given the recorded
inputs.  The trips through bytes are the identity on tags (decode ∘ encode is
compared on real payloads by the `dec` ops). -/
def tableRounds (ref : Array String) : Rounds tagTy :=
  let g (i : Nat) : String := ref.getD i ""
  { r1 := (g 0, g 1)
    r2 := fun m1 => if m1 == g 0 then .ok (g 2, g 3) else .error
    r3 := fun gs m2 => if gs == g 1 && m2 == g 2 then .ok (g 4) else .error
    r4 := fun es m3 => if es == g 3 && m3 == g 4 then .ok (g 5) else .error
    t1 := .ok, tg := .ok, t2 := .ok, te := .ok, t3 := .ok
    -- a failing random source, a message cut / extended in transit: the round returns an error
    x1 := fun _ _ => .error, x2 := fun _ _ _ => .error, x3 := fun _ _ _ _ => .error
    u1 := fun _ _ => .error, u2 := fun _ _ => .error, u3 := fun _ _ => .error }

def parseMode (c : Char) : Option Bool :=
  match c with
  | 'm' => some false
  | 'b' => some true
  | _ => none

def parseAct (s : String) : Option Act :=
  match s.toList with
  | ['g', '1'] => some .g1
  | ['e', '2', x] => (parseMode x).map .e2
  | ['g', '3', x, y] => do
    let x ← parseMode x
    let y ← parseMode y
    pure (.g3 x y)
  | ['e', '4', x, y] => do
    let x ← parseMode x
    let y ← parseMode y
    pure (.e4 x y)
  | _ => none

def parseDist (s : String) : Option Dist :=
  match s.toList with
  | 'r' :: rest =>
    match (String.ofList rest).splitOn "k" with
    | [off, kind] => do
      let off ← off.toNat?
      let kind ← kind.toNat?
      pure (.rng off kind)
    | _ => none
  | 'f' :: rest => (String.ofList rest).toNat?.map .foreignMsg
  | 's' :: rest => (String.ofList rest).toNat?.map .foreignState
  | 'u' :: rest => (String.ofList rest).toNat?.map .malformed
  | _ => none

def parseEvent (s : String) : Option Ev :=
  match s.splitOn "." with
  | [i, a] =>
    match a.splitOn "!" with
    | [a] => do
      let i ← i.toNat?
      let a ← parseAct a
      pure ⟨i, a, none⟩
    | [a, d] => do
      let i ← i.toNat?
      let a ← parseAct a
      let d ← parseDist d
      pure ⟨i, a, some d⟩
    | _ => none
  | _ => none

def sessStr (s : Sess tagTy) : String :=
  ",".intercalate ([s.m1, s.gs, s.m2, s.es, s.m3, s.out].map fun o => o.getD "-")

def procStr (k : Nat) (st : Proc tagTy) : String :=
  "|".intercalate ((List.range k).map fun i => sessStr (st i))

def statusStr : Option (Res (Sess tagTy)) → String
  | none => "off"
  | some (.ok _) => "ok"
  | some .error => "err"
  | some .panic => "panic"

/-- Runs the history event by event with `Proc.stepD`; after every event the
status of the step and the whole process state. -/
def runHist (k : Nat) (refs : Array (Array String)) (sched : List Ev) : String :=
  let cfg : Cfg tagTy := fun i => tableRounds (refs.getD i #[])
  let init : Proc tagTy := fun _ => {}
  let (_, outs) := sched.foldl (init := (init, (#[] : Array String))) fun (st, outs) e =>
    let status := statusStr (Proc.stepResD cfg st e)
    let st' := Proc.stepD cfg st e
    -- materialise (the closure chain would otherwise grow with the history)
    let arr := (Array.range (k + 1)).map fun i => st' i
    let stm : Proc tagTy := fun j => if j < k then arr.getD j {} else st' j
    (stm, outs.push (status ++ "/" ++ procStr k stm))
  "hist " ++ ";".intercalate outs.toList

/-! ### histories with an environment per step (Model/Sha2pcEnv.lean) -/

/-- `p<GOMAXPROCS>g<GOGC percent, -1 = off>w<word bits>` -/
def parseEnv (s : String) : Option Env :=
  match s.toList with
  | 'p' :: rest =>
    match (String.ofList rest).splitOn "g" with
    | [p, r] =>
      match r.splitOn "w" with
      | [g, w] => do
        let p ← p.toNat?
        let w ← w.toNat?
        let gc ← if g == "-1" then some none else g.toNat?.map some
        pure { procs := p, gc := gc, wordBits := w }
      | _ => none
    | _ => none
  | _ => none

def parseEventE (s : String) : Option EvE :=
  match s.splitOn "@" with
  | [e, env] => do
    let e ← parseEvent e
    let env ← parseEnv env
    pure ⟨e, env⟩
  | _ => none

/-- Runs the history event by event with `Proc.stepE` on the model's
implementation, which is the CONSTANT family (`EnvCfg.const`: the model has no
environment parameter); output as `runHist`. -/
def runHistE (k : Nat) (refs : Array (Array String)) (sched : List EvE) : String :=
  let impl : EnvCfg tagTy := EnvCfg.const fun i => tableRounds (refs.getD i #[])
  let init : Proc tagTy := fun _ => {}
  let (_, outs) := sched.foldl (init := (init, (#[] : Array String))) fun (st, outs) e =>
    let status := statusStr (Proc.stepResE impl st e)
    let st' := Proc.stepE impl st e
    let arr := (Array.range (k + 1)).map fun i => st' i
    let stm : Proc tagTy := fun j => if j < k then arr.getD j {} else st' j
    (stm, outs.push (status ++ "/" ++ procStr k stm))
  "histe " ++ ";".intercalate outs.toList

/-! ### state and dispatch -/

structure State where
  slots : List (String × ByteArray) := []
  counts : List Nat := []
  circ : Option Circuit := none
  roots : RootCache := {}

def State.slot (st : State) (name : String) : Option ByteArray :=
  (st.slots.find? (·.1 == name)).map (·.2)

def State.setSlot (st : State) (name : String) (b : ByteArray) : State :=
  { st with slots := (name, b) :: st.slots.filter (·.1 != name) }

def countOfDigit (ch : Char) : Option Nat :=
  match ch with
  | '0' => some 0 | '1' => some 1 | '2' => some 2 | '3' => some 3 | _ => none

/-- Executable (array based) re-statement of `Circuit.WF` and
`Circuit.outputsDefined` for the 100k-gate circuit; `Circuit.WF` itself is
quadratic (a closure per gate). -/
def wfFast (c : Circuit) : Bool × Bool := Id.run do
  let mut d : Array Bool := (Array.range c.numWires).map fun i => decide (i < c.nIn)
  let mut ok := decide (c.nIn ≤ c.numWires) && decide (c.nOut ≤ c.numWires)
  for g in c.gates do
    let i0 := d.getD g.in0 false && decide (g.in0 < c.numWires)
    let i1 := !g.op.binary || (d.getD g.in1 false && decide (g.in1 < c.numWires))
    ok := ok && i0 && i1 && decide (g.out < c.numWires) && decide (c.nIn ≤ g.out)
    d := d.setIfInBounds g.out true
  let outdef := (List.range c.nOut).all fun i => d.getD (c.numWires - c.nOut + i) false
  return (ok, outdef)

def handle (st : State) (cmd : String) (args : List String) : State × String :=
  match cmd, args with
  | "circ", [digits] =>
    match digits.toList.mapM countOfDigit with
    | some cs => ({ st with counts := cs }, s!"circ n={cs.length} sum={cs.sum} r3len={round3Len cs}")
    | none => (st, "bad-op")
  | "curve", [name, p, b, bl] =>
    match nistOf name, natOfHex p, natOfHex b, bl.toNat? with
    | some P, some p, some b, some bl =>
      (st, if P.p = p ∧ P.b = b ∧ P.byteLen = bl then "curve ok" else "curve MISMATCH")
    | _, _, _, _ => (st, "bad-op")
  | "base", [slot, hex] =>
    match hexArg hex with
    | some b => (st.setSlot slot b, "base " ++ tagOf b)
    | none => (st, "bad-op")
  | "dec", [kind, curve, slot, edits, tag] =>
    match nistOf curve, st.slot slot with
    | some P, some base =>
      match applyEdits base edits with
      | none => (st, "bad-edit")
      | some input =>
        if tagOf input != tag then (st, "bad-mut " ++ tagOf input)
        else
          let roots := if kind == "R2" then prescan st.roots P input else st.roots
          let st := { st with roots := roots }
          let c := curveOf roots P
          let data := input.toList
          let res :=
            match kind with
            | "R1" => outcome input (decodeRound1 c data) dumpR1 (encodeRound1 c)
            | "R2" => outcome input (decodeRound2 c data) dumpR2 (encodeRound2 c)
            | "R3" => outcome input (decodeRound3 st.counts data) dumpR3 (encodeRound3 st.counts)
            | "GS" => outcome input (decodeGarblerSession c data) dumpGS (encodeGarblerSession c)
            | "ES" => outcome input (decodeEvaluatorSession c data) dumpES (encodeEvaluatorSession c)
            | _ => "bad-op"
          (st, res)
    | _, _ => (st, "bad-op")
  | "encR1", [curve, sid, cn, ax, ay] =>
    match nistOf curve, sid.toNat?, hexArg cn, natOfHex ax, natOfHex ay with
    | some P, some sid, some cn, some ax, some ay =>
      match encodeRound1 (curveOf {} P) { sid := sid, curveName := cn.toList, ax := ax, ay := ay } with
      | .ok b => (st, "ok " ++ bytesHex b)
      | .error => (st, "err")
      | .panic => (st, "panic")
    | _, _, _, _, _ => (st, "bad-op")
  | "encGS", [curve, sid, cn, sc, ax, ay, ix, iy] =>
    match nistOf curve, sid.toNat?, hexArg cn, natOfHex sc, natOfHex ax, natOfHex ay, natOfHex ix, natOfHex iy with
    | some P, some sid, some cn, some sc, some ax, some ay, some ix, some iy =>
      match encodeGarblerSession (curveOf {} P)
          { sid := sid, curveName := cn.toList, scalar := sc, ax := ax, ay := ay, ainvx := ix, ainvy := iy } with
      | .ok b => (st, "ok " ++ bytesHex b)
      | .error => (st, "err")
      | .panic => (st, "panic")
    | _, _, _, _, _, _, _, _ => (st, "bad-op")
  | "cfull", [nw, nin, nout, gates] =>
    match parseCircuit nw nin nout gates with
    | some c =>
      let (wf, od) := wfFast c
      ({ st with circ := some c, counts := c.gates.map (·.op.rows) },
        s!"cfull gates={c.gates.length} wf={if wf then 1 else 0} outdef={if od then 1 else 0}")
    | none => (st, "bad-op")
  | "ceval", [a, b] =>
    match st.circ, hexArg a, hexArg b with
    | some c, some a, some b =>
      let x := bytesToBits a.toList ++ bytesToBits b.toList
      (st, bytesHex (bitsToBytes (c.compute x)))
    | _, _, _ => (st, "bad-op")
  | "hist", [k, refs, sched] =>
    match k.toNat?, (sched.splitOn ",").mapM parseEvent with
    | some k, some evs =>
      let refs := ((refs.splitOn "|").map fun r => (r.splitOn ",").toArray).toArray
      if refs.size ≠ k ∨ refs.any (·.size ≠ 6) ∨ evs.any (fun e => e.sess ≥ k) then (st, "bad-op")
      else (st, runHist k refs evs)
    | _, _ => (st, "bad-op")
  | "histe", [k, refs, sched] =>
    match k.toNat?, (sched.splitOn ",").mapM parseEventE with
    | some k, some evs =>
      let refs := ((refs.splitOn "|").map fun r => (r.splitOn ",").toArray).toArray
      if refs.size ≠ k ∨ refs.any (·.size ≠ 6) ∨ evs.any (fun e => e.ev.sess ≥ k) ∨ evs.any (fun e => e.env.procs = 0)
      then (st, "bad-op")
      else (st, runHistE k refs evs)
    | _, _ => (st, "bad-op")
  | _, _ => (st, "bad-op")

partial def loop (st : State) (h : IO.FS.Stream) (out : IO.FS.Stream) : IO Unit := do
  let line ← h.getLine
  if line.isEmpty then return ()
  let line := if line.endsWith "\n" then (line.dropEnd 1).toString else line
  match splitWs line with
  | [] =>
    out.putStrLn "bad-op"
    loop st h out
  | cmd :: args =>
    let (st', res) := handle st cmd args
    out.putStrLn res
    loop st' h out

end Drv.C18

def main : IO Unit := do
  let stdin ← IO.getStdin
  let stdout ← IO.getStdout
  Drv.C18.loop {} stdin stdout

import Driver.Util

namespace Drv.C18

/-- Line-protocol handler of property C18 (stub). -/
def handle (_args : List String) : String := "bad-op"

end Drv.C18

def main : IO Unit := Drv.mainLoop Drv.C18.handle

import Driver.Util
import MpcVerif.Model.Equiv
import MpcVerif.Model.Levels
import MpcVerif.Model.Passes
import MpcVerif.Model.PassesWF
import MpcVerif.Model.LevelsWrap
import MpcVerif.Model.SsaDiv

namespace Drv.C09
open Mpc Drv

def parseNats (s : String) : Option (Array Nat) :=
  if s == "-" then some #[] else ((s.splitOn ",").mapM String.toNat?).map List.toArray

def gateStr (g : Gate) : String :=
  let c := match g.op with
    | .xor => "x" | .xnor => "n" | .and => "a" | .or => "o" | .inv => "i"
  s!"{c}{g.in0}.{g.in1}.{g.out}"

def gatesStr (gs : List Gate) : String :=
  if gs.isEmpty then "-" else ";".intercalate (gs.map gateStr)

def natsStr (l : List Nat) : String :=
  if l.isEmpty then "-" else ",".intercalate (l.map toString)

/-- efficient version of `strictLevels` for the driver (array of producer
levels); agreement with the specification version is not needed: it is only
reported. -/
def strictFast (c : Circuit) (l : List (Gate × Nat)) : Bool :=
  let prod : Array (Option Nat) := l.foldl (fun a p => a.setIfInBounds p.1.out (some p.2))
    (Array.replicate c.numWires none)
  l.all fun a => a.1.ins.all fun w =>
    decide (w < c.nIn) || (match prod.getD w none with | some lh => decide (lh < a.2) | none => false)

/-! ### builder graph: parsing, canonical renumbering, printing (untrusted glue) -/

def parseWVal (s : String) : Option WVal :=
  match s with | "0" => some .unknown | "1" => some .zero | "2" => some .one | _ => none

def parseBWire (s : String) : Option BWire :=
  match s.splitOn ":" with
  | [v, o, n, i, outs] => do
    let v ← parseWVal v
    let n ← n.toNat?
    let i ← if i == "-" then some none else i.toNat?.map some
    let outs ← parseNats outs
    some { value := v, isOut := o == "1", numOut := n, input := i, outs := outs }
  | _ => none

def parseBGate (s : String) : Option BGate := do
  let c ← s.toList.head?
  let op ← parseOp c
  match ((s.drop 1).toString.splitOn ".") with
  | [a, b, o, d] => some { op := op, a := ← a.toNat?, b := ← b.toNat?, o := ← o.toNat?, dead := d == "1" }
  | _ => none

def parseGraph (nin zero one outs wires gates : String) : Option Graph := do
  let ws ← (wires.splitOn ";").mapM parseBWire
  let gs ← if gates == "-" then some [] else (gates.splitOn ";").mapM parseBGate
  some { nIn := ← nin.toNat?, zero := ← zero.toNat?, one := ← one.toNat?, outputs := (← parseNats outs).toList,
         wires := ws.toArray, gates := gs.toArray }

/-- Canonical dump (same traversal as harness/cmd/c09/graph.go): wires are
renumbered by first occurrence over inputs, gates (A, B, O), outputs, zero,
one; gate indices are kept. -/
def dumpGraph (G : Graph) : String := Id.run do
  let mut m : Array (Option Nat) := Array.replicate G.wires.size none
  let mut order : Array Nat := #[]
  let see := fun (st : Array (Option Nat) × Array Nat) (w : Nat) =>
    match st.1.getD w (some 0) with
    | some _ => st
    | none => (st.1.setIfInBounds w (some st.2.size), st.2.push w)
  let mut st := (m, order)
  for w in [0:G.nIn] do st := see st w
  for g in G.gates do
    st := see st g.a
    if g.op != .inv then st := see st g.b
    st := see st g.o
  for w in G.outputs do st := see st w
  st := see st G.zero
  st := see st G.one
  m := st.1
  order := st.2
  let id := fun w => (m.getD w none).getD 0
  let opc := fun (o : Op) => match o with
    | .xor => "x" | .xnor => "n" | .and => "a" | .or => "o" | .inv => "i"
  let gs := G.gates.toList.map fun g =>
    s!"{opc g.op}{id g.a}.{if g.op == .inv then 0 else id g.b}.{id g.o}.{if g.dead then 1 else 0}"
  let ws := order.toList.map fun w =>
    let x := G.wire w
    let v := match x.value with | .unknown => 0 | .zero => 1 | .one => 2
    let i := match x.input with | none => "-" | some k => toString k
    s!"{v}:{if x.isOut then 1 else 0}:{x.numOut}:{i}:{natsStr x.outs.toList}"
  let gstr := if gs.isEmpty then "-" else ";".intercalate gs
  s!"{G.nIn} {id G.zero} {id G.one} {natsStr (G.outputs.map id)} {";".intercalate ws} {gstr}"

def circLine (c : Circuit) : String :=
  s!"{c.numWires} {c.nIn} {c.nOut} {gatesStr c.gates}"

/--
* `pass <tag> <kind> <nIn> <zero> <one> <outputs> <wires> <gates>` → the graph after the
  modelled pass (`cp`, `sc`, `prune`), canonically renumbered, or the compiled circuit line
  (`compile-yao`, `compile-gmw`); `panic` where the Go code would panic; prefixed by `wf=<b>;`, the
  verdict of the proved checker for the hypothesis of the pass theorem on this input graph
* `pair <tag> <nw> <nin> <nout> <gates> <nw'> <nin'> <nout'> <gates'> <witC> <witC'> <x,x,...>`
  → `chk=<diag>;c=<C.compute x ...>;c2=<C'.compute x ...>`
* `lvl <tag> <gmw> <nw> <nin> <nout> <gates>` → `lv=<levels>;max=<n>;width=<n>`
* `sort <tag> <kind> <nw> <nin> <nout> <gates> <levels> <x>` → `strict=<b>;topo=<b>;g=<sorted gates>;c=<compute x>`
  (`topo`: the sorted list is single-assignment and topologically ordered, decided by `absRun`)
  (kind `c` = Compile's sort, `g` = gmw schedule, `w<k>` = Compile's sort with a `k`-bit level field,
  `compileSortW k`)
* `topo <tag> <nw> <nin> <nout> <gates>` → `ssa=<b>`: the proved checker `absRun` (C09_absRun_ssa) accepts the
  circuit as single-assignment and topologically ordered (run on the REAL compiled circuit of every configuration)
* `chain <tag> <k>` → the witness of C09_wrapped_levels_not_topological / _wrong_output executed:
  `topo=<b>;g=<gates of invChain (2^k+1) sorted with a k-bit level field>;c=<output on x = 1>;ref=<invChain output>`
* `div <tag> <form> <w> <wb> <k> <xop> <a:b,a:b,...>` → `inst=<n>;out=<o.o,o.o,...>`: the MEANING (`ssaEval` of
  `divForm`, Model/SsaDiv.lean) of a division-sweep program on every operand pair (decimal), and the number of
  unsigned divider instances (`divInstancesOf`) of one run; the harness prints the outputs of the REAL GMW-target
  circuit on the same pairs (C09_program_target_equiv_div: equal unless the estimate hypothesis fails on an instance)
Circuits are evaluated by `Circuit.computeArr` (= `Circuit.compute`, C09_computeArr_eq).
-/
def handle (args : List String) : String :=
  match args with
  | ["pair", _tag, nw, nin, nout, gates, nw', nin', nout', gates', w1, w2, xs] =>
    match parseCircuit nw nin nout gates, parseCircuit nw' nin' nout' gates', parseNats w1, parseNats w2 with
    | some c, some c', some w1, some w2 =>
      let diag := checkRefinesDiag c c' w1 w2
      let xl := if xs == "-" then [] else (xs.splitOn ",").map parseBits
      let o1 := ",".intercalate (xl.map fun x => bitsStr (c.computeArr x))
      let o2 := ",".intercalate (xl.map fun x => bitsStr (c'.computeArr x))
      s!"chk={diag};c={o1};c2={o2}"
    | _, _, _, _ => "bad-op"
  | ["pass", _tag, kind, nin, zero, one, outs, wires, gates] =>
    match parseGraph nin zero one outs wires gates with
    | none => "bad-op"
    | some G =>
      match kind with
      | "cp" => s!"wf={G.wfCPCheck};" ++ match G.constPropagate with | some G' => dumpGraph G' | none => "panic"
      | "sc" => s!"wf={G.wfSCCheck};" ++ dumpGraph G.shortCircuitXORZero
      | "prune" => s!"wf={G.wfPruneCheck};" ++ match G.prune with | some G' => dumpGraph G' | none => "panic"
      | "compile-yao" => s!"wf={G.gwfCheck};" ++
          match G.compileChecked false with | some c => circLine c | none => "panic-or-unvalidated"
      | "compile-gmw" => s!"wf={G.gwfCheck};" ++
          match G.compileChecked true with | some c => circLine c | none => "panic-or-unvalidated"
      | _ => "bad-op"
  | ["lvl", _tag, gmw, nw, nin, nout, gates] =>
    match parseCircuit nw nin nout gates with
    | some c =>
      let r := c.assignLevels (gmw == "1")
      s!"lv={natsStr r.1};max={r.2};width={maxWidth c.numWires r.1}"
    | none => "bad-op"
  | ["sort", _tag, kind, nw, nin, nout, gates, lv, x] =>
    match parseCircuit nw nin nout gates, parseNats lv with
    | some c, some lv =>
      let l := c.gates.zip lv.toList
      if l.length != c.gates.length then "bad-op" else
      let s := if kind == "c" then compileSort l
        else if kind.startsWith "w" then compileSortW ((kind.drop 1).toString.toNat?.getD 0) l
        else gmwSchedule l
      let c2 : Circuit := { c with gates := s.map (·.1) }
      s!"strict={strictFast c l};topo={(c2.absRun #[]).isSome};g={gatesStr (s.map (·.1))};c={bitsStr (c2.computeArr (parseBits x))}"
    | _, _ => "bad-op"
  | ["topo", _tag, nw, nin, nout, gates] =>
    match parseCircuit nw nin nout gates with
    | some c => s!"ssa={decide (c.nIn ≤ c.numWires) && (c.absRun #[]).isSome}"
    | none => "bad-op"
  | ["div", _tag, form, w, wb, k, xop, pairs] =>
    match w.toNat?, wb.toNat?, k.toNat? with
    | some w, some wb, some k =>
      match Mpc.SsaC.divForm form w wb k xop with
      | none => "bad-op"
      | some (ins, steps) =>
        let ps : List (Nat × Nat) := (pairs.splitOn ",").filterMap fun p =>
          match p.splitOn ":" with
          | [a, b] => do some (← a.toNat?, ← b.toNat?)
          | _ => none
        let outs := ps.map fun (a, b) =>
          match Mpc.Mpcl.Ssa.ssaEval (Array Nat) ins steps [a, b] with
          | some r => ".".intercalate (r.map fun x => toString x.1)
          | none => "undef"
        let inst := match ps with
          | (a, b) :: _ => (Mpc.SsaC.divInstancesOf (Array Nat) ins steps [a, b]).length
          | [] => 0
        s!"inst={inst};out={",".intercalate outs}"
    | _, _, _ => "bad-op"
  | ["chain", _tag, k] =>
    match k.toNat? with
    | some k =>
      let c := invChain (2 ^ k + 1)
      let s := compileSortW k (c.gates.zip (List.range (2 ^ k + 1)))
      let c2 : Circuit := { c with gates := s.map (·.1) }
      s!"topo={(c2.absRun #[]).isSome};g={gatesStr (s.map (·.1))};c={bitsStr (c2.computeArr [true])};ref={bitsStr (c.computeArr [true])}"
    | none => "bad-op"
  | _ => "bad-op"

end Drv.C09

def main : IO Unit := Drv.mainLoop Drv.C09.handle

import Driver.Util
import MpcVerif.Model.Equiv
import MpcVerif.Model.Levels

namespace Drv.C09
open Mpc Drv

def parseNats (s : String) : Option (Array Nat) :=
  if s == "-" then some #[] else ((s.splitOn ",").mapM String.toNat?).map List.toArray

def gateStr (g : Gate) : String :=
  let c := match g.op with
    | .xor => "x" | .xnor => "n" | .and => "a" | .or => "o" | .inv => "i"
  s!"{c}{g.in0}.{g.in1}.{g.out}"

def gatesStr (gs : List Gate) : String :=
  if gs.isEmpty then "-" else ";".intercalate (gs.map gateStr)

def natsStr (l : List Nat) : String :=
  if l.isEmpty then "-" else ",".intercalate (l.map toString)

/-- efficient version of `strictLevels` for the driver (array of producer
levels); agreement with the specification version is not needed: it is only
reported. -/
def strictFast (c : Circuit) (l : List (Gate × Nat)) : Bool :=
  let prod : Array (Option Nat) := l.foldl (fun a p => a.setIfInBounds p.1.out (some p.2))
    (Array.replicate c.numWires none)
  l.all fun a => a.1.ins.all fun w =>
    decide (w < c.nIn) || (match prod.getD w none with | some lh => decide (lh < a.2) | none => false)

/--
* `pair <tag> <nw> <nin> <nout> <gates> <nw'> <nin'> <nout'> <gates'> <witC> <witC'> <x,x,...>`
  → `chk=<diag>;c=<C.compute x ...>;c2=<C'.compute x ...>`
* `lvl <tag> <gmw> <nw> <nin> <nout> <gates>` → `lv=<levels>;max=<n>;width=<n>`
* `sort <tag> <kind> <nw> <nin> <nout> <gates> <levels> <x>` → `strict=<b>;topo=<b>;g=<sorted gates>;c=<compute x>`
  (`topo`: the sorted list is single-assignment and topologically ordered, decided by `absRun`)
  (kind `c` = Compile's sort, `g` = gmw schedule)
-/
def handle (args : List String) : String :=
  match args with
  | ["pair", _tag, nw, nin, nout, gates, nw', nin', nout', gates', w1, w2, xs] =>
    match parseCircuit nw nin nout gates, parseCircuit nw' nin' nout' gates', parseNats w1, parseNats w2 with
    | some c, some c', some w1, some w2 =>
      let diag := checkRefinesDiag c c' w1 w2
      let xl := if xs == "-" then [] else (xs.splitOn ",").map parseBits
      let o1 := ",".intercalate (xl.map fun x => bitsStr (c.compute x))
      let o2 := ",".intercalate (xl.map fun x => bitsStr (c'.compute x))
      s!"chk={diag};c={o1};c2={o2}"
    | _, _, _, _ => "bad-op"
  | ["lvl", _tag, gmw, nw, nin, nout, gates] =>
    match parseCircuit nw nin nout gates with
    | some c =>
      let r := c.assignLevels (gmw == "1")
      s!"lv={natsStr r.1};max={r.2};width={maxWidth c.numWires r.1}"
    | none => "bad-op"
  | ["sort", _tag, kind, nw, nin, nout, gates, lv, x] =>
    match parseCircuit nw nin nout gates, parseNats lv with
    | some c, some lv =>
      let l := c.gates.zip lv.toList
      if l.length != c.gates.length then "bad-op" else
      let s := if kind == "c" then compileSort l else gmwSchedule l
      let c2 : Circuit := { c with gates := s.map (·.1) }
      s!"strict={strictFast c l};topo={(c2.absRun #[]).isSome};g={gatesStr (s.map (·.1))};c={bitsStr (c2.compute (parseBits x))}"
    | _, _ => "bad-op"
  | _ => "bad-op"

end Drv.C09

def main : IO Unit := Drv.mainLoop Drv.C09.handle

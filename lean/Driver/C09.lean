import Driver.Util

namespace Drv.C09

/-- Line-protocol handler of property C09 (stub). -/
def handle (_args : List String) : String := "bad-op"

end Drv.C09

def main : IO Unit := Drv.mainLoop Drv.C09.handle

import Driver.Util

namespace Drv.C02

/-- Line-protocol handler of property C02 (stub). -/
def handle (_args : List String) : String := "bad-op"

end Drv.C02

def main : IO Unit := Drv.mainLoop Drv.C02.handle

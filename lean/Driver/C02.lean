import Driver.Util
import MpcVerif.Model.Proto2
import MpcVerif.Model.Proto2Int
import MpcVerif.Model.Proto2Conn
import MpcVerif.Model.Proto2Route

namespace Drv.C02
open Mpc Drv

def u32BE (n : Nat) : ByteArray :=
  ByteArray.mk #[UInt8.ofNat (n >>> 24), UInt8.ofNat (n >>> 16), UInt8.ofNat (n >>> 8), UInt8.ofNat n]

/-- Byte encoding of typed messages by `p2p.Conn` (property C11):
data = 32-bit big-endian length + bytes, u32 = 4 bytes big-endian,
label = 16 bytes big-endian. -/
def encodeMsgs (ms : List (Msg (BitVec 128))) : ByteArray := Id.run do
  let mut o := ByteArray.empty
  for m in ms do
    match m with
    | .data bs => o := (o ++ u32BE bs.length) ++ ByteArray.mk bs.toArray
    | .u32 n => o := o ++ u32BE n
    | .label l => o := o ++ Aes.bytesOfNat128 l.toNat
  return o

def mkH (key : List UInt8) : Hash (BitVec 128) :=
  match Aes.Cipher.new (ByteArray.mk key.toArray) with
  | some c => aesHash c
  | none => hashOf id

def natHex (n : Nat) : String := String.ofList (Nat.toDigits 16 n)

def natsStr (v : List Nat) : String :=
  if v.isEmpty then "-" else ",".intercalate (v.map natHex)

def parseNats (s : String) : Option (List Nat) :=
  if s == "-" then some [] else (s.splitOn ",").mapM String.toNat?

def idealOt : OtFun (BitVec 128) := fun ws fl => List.zipWith (fun w b => w.labelFor b) ws fl

/-- FNV-1a (64 bit) of a byte stream: the digest the harness prints of the
bytes each party wrote to its transport. -/
def fnv64 (b : ByteArray) : UInt64 :=
  b.foldl (fun h c => (h ^^^ c.toUInt64) * 0x100000001b3) 0xcbf29ce484222325

def hex64 (x : UInt64) : String :=
  let d := Nat.toDigits 16 x.toNat
  String.ofList (List.replicate (16 - d.length) '0' ++ d)

/-- `<size>x<count>,<size>,...` : the sizes the transport returned on its
successive `Read` calls, run-length encoded ("-" = none).  Beyond the recorded
reads the transport delivers everything it has. -/
def parseReads (s : String) : Option (Array Nat) :=
  if s == "-" then some #[] else
    (s.splitOn ",").foldlM (fun (acc : Array Nat) item =>
      match item.splitOn "x" with
      | [a] => a.toNat?.map acc.push
      | [a, k] => do
        let a ← a.toNat?
        let k ← k.toNat?
        pure (acc ++ Array.replicate k a)
      | _ => none) #[]

def fragOf (a : Array Nat) : Conn.Frag := fun i => a.getD i (2 ^ 40)

def streamStr (b : ByteArray) : String := s!"{b.size}:{hex64 (fnv64 b)}"

/-- `<width>:<signed decimal>,<width>:<signed decimal>,...` -/
def parseArgVals (s : String) : Option ArgVals :=
  if s == "-" then some [] else
    (s.splitOn ",").mapM fun item =>
      match item.splitOn ":" with
      | [w, v] => do
        let w ← w.toNat?
        let v ← v.toInt?
        pure (w, v)
      | _ => none

/-- One session on bit-list inputs: results, and with the ideal OT both complete
byte streams. -/
def session (otName tape nw nin nout gates n0 n1 widths : String) (x y : List Bool) (dv : Derived := {}) : String :=
  match Aes.bytesOfHex tape, parseCircuit nw nin nout gates, n0.toNat?, n1.toNat?, parseNats widths with
  | some tape, some c, some n0, some n1, some widths =>
    let p : Circuit2 := { c := c, n0 := n0, n1 := n1, outWidths := widths }
    if tape.size < 32 + 16 * (1 + c.nIn) then "bad-op" else
    let key := (tape.extract 0 32).toList
    let r := setS (label128 tape 32)
    let inl := fun i => label128 tape (32 + 16 * (i + 1))
    -- the session on the Go circuit VALUE: defining fields + the derived data it carried
    match run2Go { core := p, derived := dv } mkH key r inl x y idealOt with
    | .error _ => "error"
    | .ok (gres, eres) =>
      let res := s!"g={natsStr gres};e={natsStr eres}"
      if otName != "ideal" then res else
      -- instrumented run for the transcript (same model functions)
      let G := c.garble (mkH key) r inl
      let f1 := garblerFlight1 p key G x
      match evaluatorRecv1 p f1 with
      | .error _ => "error"
      | .ok (key', rows, inLabels, _) =>
        let sendWires := (List.range n1).map fun i => G.wires.get (n0 + i)
        let flags := (List.range n1).map fun i => y.getD i false
        match evaluatorEval p (mkH key') rows inLabels (idealOt sendWires flags) with
        | .error _ => "error"
        | .ok outLabels =>
          match garblerDecode p G 0 outLabels with
          | .error _ => "error"
          | .ok bits =>
            let ge := encodeMsgs (f1 ++ [.data (natToBytesBE (packLE bits))])
            let eg := encodeMsgs ([.u32 n0, .u32 n1] ++ outLabels.map .label)
            s!"ge={Aes.hexOfBytes ge};eg={Aes.hexOfBytes eg};" ++ res
  | _, _, _, _, _ => "bad-op"

/-- Does the `Stats` field the harness reports for a circuit value fit the route
it names (`Route.construct`, Model/Proto2Route.lean)?  `exact` / `parsed`: the
counts of the gate list; `zero`: all zero; `appended`: the counts of the gate
list without its last 1..4 gates; `stale` / `levels`: anything. -/
def routeFits (route : String) (stats : List Nat) (gates : List Gate) : Bool :=
  let kinds := fun (g : List Gate) => (exactStats g).take 5
  match route with
  | "exact" | "parsed" => stats == exactStats gates
  | "zero" => stats.all (· == 0) && stats.length == 8
  | "appended" => [1, 2, 3, 4].any fun k => k ≤ gates.length && stats.take 5 == kinds (gates.take (gates.length - k))
  | "stale" | "levels" => stats.length == 8
  | _ => false

/-- `c02 <ot> <tape> <nw> <nin> <nout> <gates> <n0> <n1> <widths> <x> <y>` -/
def handle (args : List String) : String :=
  match args with
  | "rt" :: route :: stats :: rest =>
    -- a session on a circuit value constructed along `route`, carrying `stats` in
    -- its derived `Stats` field; bit-list and integer input forms
    match (stats.splitOn ",").mapM String.toNat? with
    | none => "bad-op"
    | some st =>
      let dv : Derived := { stats := st }
      match rest with
      | [otName, tape, nw, nin, nout, gates, n0, n1, widths, x, y] =>
        if !(routeFits route st ((parseGates gates).getD [])) then "bad-route" else
        session otName tape nw nin nout gates n0 n1 widths (parseBits x) (parseBits y) dv
      | ["int", otName, tape, nw, nin, nout, gates, n0, n1, widths, xs, ys] =>
        if !(routeFits route st ((parseGates gates).getD [])) then "bad-route" else
        match parseArgVals xs, parseArgVals ys with
        | some xs, some ys => session otName tape nw nin nout gates n0 n1 widths (encodeArg xs) (encodeArg ys) dv
        | _, _ => "bad-op"
      | _ => "bad-op"
  | [n0, n1, offset, count] =>
    -- `c04range n0 n1 offset count`: the garbler's guard on the evaluator's OT request
    match n0.toNat?, n1.toNat?, offset.toNat?, count.toNat? with
    | some n0, some n1, some o, some c =>
      let p : Circuit2 := { c := default, n0 := n0, n1 := n1, outWidths := [] }
      if p.acceptsOtRange o c then "accept" else "reject"
    | _, _, _, _ => "bad-op"
  | [otName, tape, nw, nin, nout, gates, n0, n1, widths, x, y] =>
    session otName tape nw nin nout gates n0 n1 widths (parseBits x) (parseBits y)
  | ["int", otName, tape, nw, nin, nout, gates, n0, n1, widths, xs, ys] =>
    -- inputs as the integers handed to circuit.Garbler / circuit.Evaluator:
    -- `<width>:<signed decimal>,...` per flattened member (Model/Proto2Int.lean)
    match parseArgVals xs, parseArgVals ys with
    | some xs, some ys => session otName tape nw nin nout gates n0 n1 widths (encodeArg xs) (encodeArg ys)
    | _, _ => "bad-op"
  | [otName, tape, nw, nin, nout, gates, n0, n1, widths, x, y, _sched, readsGE, readsEG] =>
    -- `c02c`: a session over two connections (Model/Proto2Conn.lean).  With the
    -- ideal OT the model replays the read fragmentation the harness transport
    -- recorded and reports both byte streams, the transport reads of both
    -- receive halves and both results; with a real OT the results only.
    match Aes.bytesOfHex tape, parseCircuit nw nin nout gates, n0.toNat?, n1.toNat?, parseNats widths with
    | some tape, some c, some n0, some n1, some widths =>
      let p : Circuit2 := { c := c, n0 := n0, n1 := n1, outWidths := widths }
      if tape.size < 32 + 16 * (1 + c.nIn) then "bad-op" else
      let key := (tape.extract 0 32).toList
      let r := setS (label128 tape 32)
      let inl := fun i => label128 tape (32 + 16 * (i + 1))
      let x := parseBits x
      let y := parseBits y
      if otName != "ideal" then
        match run2 p mkH key r inl x y idealOt with
        | .error _ => "error"
        | .ok (gres, eres) => s!"g={natsStr gres};e={natsStr eres}"
      else
        match parseReads readsGE, parseReads readsEG with
        | some rge, some reg =>
          let env : ConnEnv := { sch := fun _ _ => 0, fragGE := fragOf rge, fragEG := fragOf reg }
          match run2Conn p mkH key r inl x y idealOt env with
          | .error _ => "error"
          | .ok ((gres, eres), rE, rG) =>
            s!"ge={streamStr rE.pend};eg={streamStr rG.pend};rd={rE.nread}:{hex64 rE.rlog},{rG.nread}:{hex64 rG.rlog};" ++
              s!"g={natsStr gres};e={natsStr eres}"
        | _, _ => "bad-op"
    | _, _, _, _, _ => "bad-op"
  | _ => "bad-op"

end Drv.C02

def main : IO Unit := Drv.mainLoop Drv.C02.handle

import Driver.Util

namespace Drv.C12

/-- Line-protocol handler of property C12 (stub). -/
def handle (_args : List String) : String := "bad-op"

end Drv.C12

def main : IO Unit := Drv.mainLoop Drv.C12.handle

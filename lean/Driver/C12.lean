import Driver.Util
import MpcVerif.Model.Mpa
import MpcVerif.Model.Fold
import MpcVerif.Model.FoldTable
import MpcVerif.Model.FoldUses
import MpcVerif.Model.MpaHist

namespace Drv.C12
open Mpc Mpc.Mpa Mpc.Fold

def hexNat (n : Nat) : String := String.ofList (Nat.toDigits 16 n)

def hexInt (v : Int) : String := if v < 0 then "-" ++ hexNat v.natAbs else hexNat v.natAbs

/-- operand spec `n:<int64>:<bits>` (NewInt) or `p:<decimal>:<bits>` (Parse, then SetTypeSize when bits > 0) -/
def parseSpec (s : String) : Option MInt :=
  match s.splitOn ":" with
  | [k, v, b] => do
    let v ← v.toInt?
    let b ← b.toNat?
    if k == "n" then some (newInt (BitVec.ofInt 64 v) b)
    else if k == "p" then
      let z := setBig v
      some (if b > 0 then { z with bits := b } else z)
    else none
  | _ => none

def observe (z : MInt) : Option String := do
  let i ← z.int64
  let n := min z.bits 136
  let lo := (List.range n).foldl (fun acc k => if z.bit k then acc + 2 ^ k else acc) 0
  pure s!"bits={z.bits} s={z.value} t={hexInt z.value} bl={z.bitLen} i={i.toInt} sg={z.sign} lo={hexNat lo}"

def mpaLine (args : List String) : String :=
  match args with
  | [op, n, zmode, zbits, xs, ys] =>
    match n.toNat?, zbits.toNat?, parseSpec xs, parseSpec ys with
    | some n, some zbits, some x, some y =>
      let alias := zmode == "x"
      let z? : Option MInt := if alias then some x else Mpa.new zbits
      let r : Option String := do
        let z ← z?
        -- the operands after the call: what they were before it (the receiver excepted)
        let ya ← observe y
        if op == "obs" then
          let s ← observe x
          pure s!"ok {s} xa=[{s}] ya=[{ya}]"
        else if op == "cmp" then
          let c ← Mpa.cmp x y
          let xa ← observe x
          pure s!"ok c={c} xa=[{xa}] ya=[{ya}]"
        else
          let res ← (match op with
            | "add" => Mpa.add z x y
            | "sub" => Mpa.sub z x y
            | "mul" => Mpa.mul z x y
            | "div" => Mpa.div z x y
            | "mod" => Mpa.mod z x y
            | "and" => Mpa.and z x y
            | "or" => Mpa.or z x y
            | "xor" => Mpa.xor z x y
            | "andnot" => Mpa.andNot z x y
            | "lsh" => Mpa.lsh z x n
            | "rsh" => Mpa.rsh z x n alias
            | _ => none)
          let s ← observe res
          let c ← Mpa.cmp res y
          let xa ← observe (if alias then res else x)
          pure s!"ok {s} c={c} xa=[{xa}] ya=[{ya}]"
      r.getD "panic"
    | _, _, _, _ => "bad-op"
  | _ => "bad-op"

def parseKind (s : String) : Option Kind :=
  if s == "s" then some .int else if s == "u" then some .uint else if s == "b" then some .bool else none

def parseForm (s : String) : Option Form :=
  if s == "pos" then some .pos else if s == "cast" then some .cast else if s == "neg" then some .neg else none

def resStr {α} (f : α → String) : Res α → String
  | .ok a => "ok " ++ f a
  | .error .compileError => "error"
  | .error .panic => "panic"

def cvStr : CV → String
  | .bool b => if b then "b 1" else "b 0"
  | .int t v => s!"{if t.kind == .int then "i" else "u"} {t.bits} {t.minBits} {v.bits} {v.value}"

/-- `fold <op> <s|u|b> <n> <a> <b> <aform> <bform>`: the folded constant. -/
def foldLine (args : List String) (ret : Bool) : String :=
  match args with
  | [op, k, n, a, b, af, bf] =>
    match Fold.parseOp op, parseKind k, n.toNat?, a.toInt?, b.toInt?, parseForm af, parseForm bf with
    | some op, some k, some n, some a, some b, some af, some bf =>
      let r := foldExpr op k n a b af bf
      if ret then resStr hexNat (r >>= retSeen (if op.isCmp then .bool else k) n) else resStr cvStr r
    | _, _, _, _, _, _, _ => "bad-op"
  | _ => "bad-op"

/-- `rt <op> <s|u|b> <n> <a> <b>`: meaning of the run-time instruction. -/
def rtLine (args : List String) : String :=
  match args with
  | [op, k, n, a, b] =>
    match Fold.parseOp op, parseKind k, n.toNat?, a.toInt?, b.toInt? with
    | some op, some k, some n, some a, some b => "ok " ++ hexNat (circuitOpNat op k n a b)
    | _, _, _, _, _ => "bad-op"
  | _ => "bad-op"

/-- `hyp <op> <s|u|b> <n> <a> <b> <aform> <bform>`: which theorem hypotheses the case violates. -/
def hypLine (args : List String) : String :=
  match args with
  | [op, k, n, a, b, af, bf] =>
    match Fold.parseOp op, parseKind k, n.toNat?, a.toInt?, b.toInt?, parseForm af, parseForm bf with
    | some op, some k, some n, some a, some b, some af, some bf =>
      let hs := caseHyps op k n a b af bf
      if hs.isEmpty then "covered" else "+".intercalate hs
    | _, _, _, _, _, _, _ => "bad-op"
  | _ => "bad-op"

/-- `alias <k1> <n1> <k2> <n2> <v> <v2>` -/
def aliasLine (args : List String) : String :=
  match args with
  | [k1, n1, k2, n2, v, v2] =>
    match parseKind k1, n1.toNat?, parseKind k2, n2.toNat?, v.toInt?, v2.toInt? with
    | some k1, some n1, some k2, some n2, some v, some v2 =>
      resStr (fun (p : Nat × Nat) => hexNat p.1 ++ " " ++ hexNat p.2) (aliasOutputs k1 n1 k2 n2 v v2)
    | _, _, _, _, _, _ => "bad-op"
  | _ => "bad-op"

def parseCons (s : String) : Option Consumer :=
  if s == "xor" then some .xor else if s == "add" then some .add else if s == "sub" then some .sub else none

/-- item token `op:k:n:a:b:aform:bform:consumer` (`op = plain`: the typed constant alone) -/
def parseItem (s : String) : Option Item :=
  match s.splitOn ":" with
  | [op, k, n, a, b, af, bf, cons] => do
    let op ← (if op == "plain" then some none else (Fold.parseOp op).map some)
    pure ⟨op, ← parseKind k, ← n.toNat?, ← a.toInt?, ← b.toInt?, ← parseForm af, ← parseForm bf, ← parseCons cons⟩
  | _ => none

/-- `multi <inline|vars> <item>...`: outputs of the constant variant at `x = 0` (Model/FoldTable.lean). -/
def multiLine (args : List String) : String :=
  match args with
  | style :: toks =>
    match toks.mapM parseItem with
    | some items =>
      if style != "inline" && style != "vars" then "bad-op" else
      resStr (fun (l : List Nat) => " ".intercalate (l.map hexNat)) (multiOutputs cvName (style == "vars") items)
    | none => "bad-op"
  | _ => "bad-op"

/-- `multiwhy <idx> <inline|vars> <item>...` -/
def multiWhyLine (args : List String) : String :=
  match args with
  | idx :: style :: toks =>
    match idx.toNat?, toks.mapM parseItem with
    | some idx, some items => resStr id (multiCause cvName (style == "vars") items idx)
    | _, _ => "bad-op"
  | _ => "bad-op"

/-- `ident <k1> <n1> <v1> <k2> <n2> <v2>`: one Name or two? -/
def identLine (args : List String) : String :=
  match args with
  | [k1, n1, v1, k2, n2, v2] =>
    match parseKind k1, n1.toNat?, v1.toInt?, parseKind k2, n2.toNat?, v2.toInt? with
    | some k1, some n1, some v1, some k2, some n2, some v2 =>
      resStr (fun (b : Bool) => if b then "same" else "distinct") (identSame cvName k1 n1 v1 k2 n2 v2)
    | _, _, _, _, _, _ => "bad-op"
  | _ => "bad-op"

/-! ## Histories of mpa calls sharing operands (Model/MpaHist.lean) -/

def parseHOp (s : String) : Option MpaHist.HOp :=
  match s with
  | "add" => some .add | "sub" => some .sub | "mul" => some .mul | "div" => some .div | "mod" => some .mod
  | "and" => some .and | "or" => some .or | "xor" => some .xor | "andnot" => some .andNot
  | "lsh" => some .lsh | "rsh" => some .rsh | "cmp" => some .cmp
  | _ => none

/-- receiver `f<bits>` (a fresh `mpa.New(bits)`) or `r<i>` (register i) -/
def parseRecv (s : String) : Option MpaHist.Recv :=
  if s.startsWith "f" then (s.drop 1).toNat?.map .fresh
  else if s.startsWith "r" then (s.drop 1).toNat?.map .reg
  else none

/-- step `op.n.z.x.y` -/
def parseStep (s : String) : Option MpaHist.Step :=
  match s.splitOn "." with
  | [op, n, z, x, y] => do pure ⟨← parseHOp op, ← n.toNat?, ← parseRecv z, ← x.toNat?, ← y.toNat?⟩
  | _ => none

def regsStr (regs : List MInt) : Option String := do
  let obs ← regs.mapM observe
  pure (" ; ".intercalate obs)

/-- `mpah <spec>,<spec>,... <step>/<step>/...`: after every step every register (= `*mpa.Int` object), in
register order; the model writes the receiver's register only. -/
def mpahLine (args : List String) : String :=
  match args with
  | [specs, steps] =>
    match (specs.splitOn ",").mapM parseSpec, (steps.splitOn "/").mapM parseStep with
    | some regs, some ss =>
      let rec go (regs : List MInt) (ss : List MpaHist.Step) (acc : String) (fuel : Nat) : String :=
        match fuel, ss with
        | 0, _ => acc
        | _, [] => acc
        | fuel + 1, s :: rest =>
          match MpaHist.step regs s with
          | none => acc ++ " | panic"
          | some regs' =>
            let tag : String :=
              if s.op = .cmp then
                match regs[s.x]?, regs[s.y]? with
                | some x, some y => s!"c={(Mpa.cmp x y).getD 0}"
                | _, _ => "c=?"
              else match s.z with
                | .fresh _ => s!"z={regs.length}"
                | .reg i => s!"z={i}"
            match regsStr regs' with
            | none => acc ++ " | panic"
            | some r => go regs' rest (acc ++ " | " ++ tag ++ " " ++ r) fuel
      go regs ss "ok" (ss.length + 1)
    | _, _ => "bad-op"
  | _ => "bad-op"

/-! ## One constant used several times (Model/FoldUses.lean) -/

def parseDecl (s : String) : Option (Int × Form) :=
  match s.splitOn ":" with
  | [a, f] => do pure (← a.toInt?, ← parseForm f)
  | _ => none

def parseUse (s : String) : Option Use :=
  match s.splitOn ":" with
  | [op, l, r] => do pure ⟨← Fold.parseOp op, ← l.toNat?, ← r.toNat?⟩
  | _ => none

def parseUsesProg (args : List String) : Option UsesProg :=
  match args with
  | [_style, k, n, decls, uses, cons] => do
    let us ← if uses == "-" then some [] else (uses.splitOn ",").mapM parseUse
    pure ⟨← parseKind k, ← n.toNat?, ← (decls.splitOn ",").mapM parseDecl, us, ← (cons.splitOn ",").mapM parseCons⟩
  | _ => none

/-- `uses <var|const> <s|u> <n> <a:form,...> <op:l:r,...> <cons,...>`: outputs of the constant variant at
`x = 0`; folding is pure (`pureFold`): the objects of the operands hold their declared values. -/
def usesLine (args : List String) : String :=
  match parseUsesProg args with
  | some p => resStr (fun (l : List Nat) => " ".intercalate (l.map hexNat)) (usesOutputs cvName pureFold p)
  | none => "bad-op"

/-- Line protocol of property C12: `c12 <kind> <args...>`. -/
def handle (args : List String) : String :=
  match args with
  | "mpa" :: rest => mpaLine rest
  | "fold" :: rest => foldLine rest false
  | "cret" :: rest => foldLine rest true
  | "rt" :: rest => rtLine rest
  | "hyp" :: rest => hypLine rest
  | "alias" :: rest => aliasLine rest
  | "multi" :: rest => multiLine rest
  | "ident" :: rest => identLine rest
  | "multiwhy" :: rest => multiWhyLine rest
  | "mpah" :: rest => mpahLine rest
  | "uses" :: rest => usesLine rest
  | _ => "bad-op"

end Drv.C12

def main : IO Unit := Drv.mainLoop Drv.C12.handle

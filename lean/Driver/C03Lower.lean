import MpcVerif.Model.Mpcl
import MpcVerif.Model.MpclSsa
import MpcVerif.Model.MpclLower

/-!
Tie of `Mpc.Mpcl.Ssa.lower` (the Lean model of ssagen.go, Model/MpclLower.lean)
to the REAL ssagen, run on every `bin/check C03` (harness mode `c03 lower`,
harness/cmd/c03/lower.go).  Core Lean only.  The S-expressions are parsed by
Driver/C03.lean (which imports this file); the functions here take parsed values.

  c03 LOWER <inputs> ( LOWER <program> <real ssa> )
      `run`: `lower 100000 P main` (all calls inlined); per input tuple THREE evaluations
        ssaEval (lowered program)  =  ssaEval (real dumped SSA)  =  runRaw (source)
      all equal on every tuple: the outputs in the format of `evalOne` (hex joined
      by `,`, tuples joined by `;`: the Go side prints the real CIRCUIT's outputs in
      the same format, so the line comparison is a four-way agreement), followed by
      the advisory suffix ` #same n=<lowered steps>/<real steps>` or
      ` #drift <op>/<width><+-k> .. n=../..` (multiset of (opcode, result width) of the
      lowered steps minus that of the real steps, `ret` excluded; the real compiler
      creates phis lazily and runs peephole + GC, so drift is expected);
      otherwise `lower-mismatch tuple=<k> lower=.. real-ssa=.. source=..`;
      `lower-none` when `lower` rejects the program.
  c03 LOWERREJ <program>
      the real compiler rejected a program the Go fragment predicate accepts:
      `lower-ok` / `lower-none` (never equal to the Go side's `compile-..` line).
-/

namespace Drv.C03Lower
open Mpc.Mpcl Mpc.Mpcl.Ssa

def fuel : Nat := 100000

def hex (n : Nat) : String := String.ofList (Nat.toDigits 16 n)

def render : Option (List (Nat × Nat)) → String
  | some rs => ",".intercalate (rs.map fun (v, _) => hex v)
  | none => "E"

def opName : SOp → String
  | .add => "add" | .sub => "sub" | .mul => "mult" | .udiv => "udiv" | .umod => "umod"
  | .idiv => "idiv" | .imod => "imod" | .band => "band" | .bor => "bor" | .bxor => "bxor"
  | .bclr => "bclr" | .concat => "concat" | .lshift => "lshift" | .rshift => "rshift"
  | .srshift => "srshift" | .slice => "slice" | .index => "index"
  | .ilt => "ilt" | .ult => "ult" | .ile => "ile" | .ule => "ule" | .igt => "igt" | .ugt => "ugt"
  | .ige => "ige" | .uge => "uge" | .eq => "eq" | .neq => "neq" | .land => "and" | .lor => "or"
  | .lnot => "not" | .mov => "mov" | .smov => "smov" | .amov => "amov" | .phi => "phi" | .ret => "ret"

/-- `(opcode/width, count)` table of a step list, `ret` excluded. -/
def bump (k : String) (d : Int) : List (String × Int) → List (String × Int)
  | [] => [(k, d)]
  | (k', n) :: r => if k = k' then (k', n + d) :: r else (k', n) :: bump k d r

def keyOf (i : SInstr) : Option String :=
  if i.op = .ret then none
  else some (opName i.op ++ "/" ++ toString (match i.out with | some (_, w) => w | none => 0))

def tally (d : Int) (steps : List SInstr) (acc : List (String × Int)) : List (String × Int) :=
  steps.foldl (fun a i => match keyOf i with | some k => bump k d a | none => a) acc

def insertSorted (p : String × Int) : List (String × Int) → List (String × Int)
  | [] => [p]
  | q :: r => if p.1 < q.1 then p :: q :: r else q :: insertSorted p r

def drift (model real : List SInstr) : String :=
  let t := (tally (-1) real (tally 1 model [])).filter (·.2 ≠ 0)
  let t := t.foldl (fun a p => insertSorted p a) []
  let n := " n=" ++ toString model.length ++ "/" ++ toString real.length
  if t.isEmpty then " #same" ++ n
  else " #drift " ++ " ".intercalate (t.map fun (k, d) => k ++ (if d > 0 then "+" else "") ++ toString d) ++ n

/-- First tuple on which the three evaluations are not all equal, else the
result strings. -/
def threeWay (P : Prog) (main : Nat) (li : List (Nat × Nat)) (ls : List SInstr)
    (ri : List (Nat × Nat)) (rs : List SInstr) : Nat → List (List Nat) → List String → Sum String (List String)
  | _, [], acc => .inr acc.reverse
  | k, args :: rest, acc =>
    let a := render (ssaEval (Array Nat) li ls args)
    let b := render (ssaEval (Array Nat) ri rs args)
    let c := render (runRaw P fuel main args)
    if a == b && b == c then threeWay P main li ls ri rs (k + 1) rest (c :: acc)
    else .inl ("lower-mismatch tuple=" ++ toString k ++ " args=" ++ ",".intercalate (args.map hex) ++
      " lower=" ++ a ++ " real-ssa=" ++ b ++ " source=" ++ c)

def run (prog : Option (Nat × Prog)) (ssa : Option (List (Nat × Nat) × List SInstr))
    (tuplesOf : List Nat → Option (List (List Nat))) : String :=
  match prog, ssa with
  | none, _ => "bad-program"
  | _, none => "bad-ssa"
  | some (main, P), some (ri, rs) =>
    match P[main]? with
    | none => "bad-program"
    | some fn =>
      match lower fuel P main with
      | none => "lower-none"
      | some (li, ls) =>
        match tuplesOf (fn.params.map fun p => p.2.bits) with
        | none => "bad-input"
        | some tuples =>
          match threeWay P main li ls ri rs 0 tuples [] with
          | .inl msg => msg
          | .inr outs => ";".intercalate outs ++ drift ls rs

def rej (prog : Option (Nat × Prog)) : String :=
  match prog with
  | none => "bad-program"
  | some (main, P) =>
    match P[main]? with
    | none => "bad-program"
    | some _ => if (lower fuel P main).isSome then "lower-ok" else "lower-none"

end Drv.C03Lower
